import TypifyModel.Model.Dispatch
/-! The shape dispatch of `convert.rs` never reaches its final `todo!()` on the keyword combinations schemars emits.

    `Dispatch.step` is the model of one pass through the `match` of `convert_schema_object` (tied to the source by the M0
    correspondence `tvh_disp` vs `drv_disp` over the keyword lattice, where `Arm.todo` coincides with the panics of the real
    code). `Fragment` lists, keyword group by keyword group, what schemars 0.8 writes for serde-derivable Rust types and what the
    README documents: a bare reference; a lone `allOf` / `anyOf` / `oneOf` / `not`; a single `type` with the validation keywords
    of THAT type only (`string` also with `format` / `enum`, numbers with `format`); a nullable pair `[T, "null"]`; an
    enumeration without a type; the empty schema. Annotations (`title`, `description`, `default`, ..) and extensions are free.

    * `fragment_never_todo`: every such schema object is handed to a conversion (C01: "schemas inside the supported fragment are
      never rejected" — at this dispatch; the conversions themselves are the subject of the other models).
    * `todo_witnesses`: the `todo!()` IS reachable just outside the fragment — kernel-evaluated examples (`{format}` alone,
      `{minimum}` alone, a typed boolean with a `format`, two validation groups without a type). -/
set_option linter.unusedSimpArgs false
namespace TypifyModel.Dispatch
open TypifyModel TypifyModel.Excl

/-- the keyword combinations of the supported fragment, one level deep -/
def Fragment (kvs : Kvs) : Prop :=
  let g := groupsOf kvs
  g.cn = false ∧
  (-- a bare reference
   (tyOf kvs = .none ∧ g = ⟨false, false, false, false, false, false, false, false, true⟩) ∨
   -- a lone combinator
   (tyOf kvs = .none ∧ g = ⟨false, false, false, true, false, false, false, false, false⟩) ∨
   -- strings: format, enumeration, string validation
   (tyOf kvs = .single .string ∧ g.sub = false ∧ g.rf = false ∧ g.num = false ∧ g.arr = false ∧ g.obj = false) ∨
   -- integers and numbers: format, number validation
   ((tyOf kvs = .single .integer ∨ tyOf kvs = .single .number) ∧ g.en = false ∧ g.sub = false ∧ g.rf = false ∧ g.str = false ∧
     g.arr = false ∧ g.obj = false) ∨
   -- booleans and null
   ((tyOf kvs = .single .boolean ∨ tyOf kvs = .single .null) ∧ g = ⟨false, false, false, false, false, false, false, false, false⟩) ∨
   -- arrays
   (tyOf kvs = .single .array ∧ g.fmt = false ∧ g.en = false ∧ g.sub = false ∧ g.rf = false ∧ g.num = false ∧ g.str = false ∧ g.obj = false) ∨
   -- objects
   (tyOf kvs = .single .object ∧ g.fmt = false ∧ g.en = false ∧ g.sub = false ∧ g.rf = false ∧ g.num = false ∧ g.str = false ∧ g.arr = false) ∨
   -- nullable pairs
   ((∃ t, t ≠ JT.null ∧ (tyOf kvs = .multi [t, .null] ∨ tyOf kvs = .multi [.null, t]))) ∨
   -- an enumeration without a type, the empty schema
   (tyOf kvs = .none ∧ g.fmt = false ∧ g.sub = false ∧ g.num = false ∧ g.str = false ∧ g.arr = false ∧ g.obj = false ∧ g.rf = false))

theorem isSingle_single (a b : JT) : isSingle (.single a) b = decide (a = b) := rfl
theorem isSingle_none (b : JT) : isSingle .none b = false := rfl

theorem soleArm_ok (kvs : Kvs) : soleArm kvs ≠ .todo ∧ soleArm kvs ≠ .malformed := by
  unfold soleArm; constructor <;> (split <;> simp)

/-- **the dispatch hands every schema object of the fragment to a conversion** -/
theorem fragment_never_todo (kvs : Kvs) (h : Fragment kvs) :
    step kvs ≠ .done .todo ∧ step kvs ≠ .done .malformed ∧ ∀ k, step kvs ≠ .again k := by
  unfold Fragment groupsOf at h
  simp only [Groups.mk.injEq] at h
  obtain ⟨hcn, h⟩ := h
  rcases h with h | h | h | h | h | h | h | h | h
  · obtain ⟨hty, hf, he, _, hs, hn, hst, ha, ho, hr⟩ := h
    simp +decide [step, armsTyped, typedArms, typedArmsG, groupsOf, isSingle_single, isSingle_none, isUntyped, isOne, List.find?, hty, hf, he, hcn, hs, hn, hst, ha, ho, hr]
  · obtain ⟨hty, hf, he, _, hs, hn, hst, ha, ho, hr⟩ := h
    have := soleArm_ok kvs
    simp +decide [step, armsTyped, typedArms, typedArmsG, groupsOf, isSingle_single, isSingle_none, isUntyped, isOne, List.find?, hty, hf, he, hcn, hs, hn, hst, ha, ho, hr, this.1, this.2]
  · obtain ⟨hty, hs, hr, hn, ha, ho⟩ := h
    cases he : has kvs "enum" <;>
      simp +decide [step, armsTyped, typedArms, typedArmsG, groupsOf, isSingle_single, isSingle_none, isUntyped, isOne, List.find?, hty, he, hcn, hs, hr]
  · obtain ⟨hty, he, hs, hr, hst, ha, ho⟩ := h
    rcases hty with hty | hty <;>
      simp +decide [step, armsTyped, typedArms, typedArmsG, groupsOf, isSingle_single, isSingle_none, isUntyped, isOne, List.find?, hty, he, hcn, hs, hr]
  · obtain ⟨hty, hf, he, _, hs, hn, hst, ha, ho, hr⟩ := h
    rcases hty with hty | hty <;>
      simp +decide [step, armsTyped, typedArms, typedArmsG, groupsOf, isSingle_single, isSingle_none, isUntyped, isOne, List.find?, hty, hf, he, hcn, hs, hr]
  · obtain ⟨hty, hf, he, hs, hr, hn, hst, ho⟩ := h
    cases ha : arrP kvs <;>
      simp +decide [step, armsTyped, typedArms, typedArmsG, groupsOf, isSingle_single, isSingle_none, isUntyped, isOne, List.find?, hty, hf, he, hcn, hs, hr, ha]
  · obtain ⟨hty, hf, he, hs, hr, hn, hst, ha⟩ := h
    simp +decide [step, armsTyped, typedArms, typedArmsG, groupsOf, isSingle_single, isSingle_none, isUntyped, isOne, List.find?, hty, hf, he, hcn, hs, hr]
  · obtain ⟨t, hne, hty⟩ := h
    have hb : (t != JT.null) = true := by simpa using hne
    rcases hty with hty | hty <;> simp only [step, hty, armNullable] <;> cases onlyNullEnum kvs <;> simp [List.find?, hb]
  · obtain ⟨hty, hf, hs, hn, hst, ha, ho, hr⟩ := h
    cases he : has kvs "enum" <;>
      simp +decide [step, armsTyped, typedArms, typedArmsG, groupsOf, isSingle_single, isSingle_none, isUntyped, isOne, List.find?, hty, hf, he, hcn, hs, hn, hst, ha, ho, hr]

/-- the fragment is inhabited: a string with a format and a length bound, a nullable integer, a lone `oneOf` -/
example : Fragment [("format", .str "uuid"), ("maxLength", .int 40), ("type", .str "string")] :=
  ⟨by rfl, Or.inr (Or.inr (Or.inl ⟨by rfl, by rfl, by rfl, by rfl, by rfl, by rfl⟩))⟩
example : Fragment [("minimum", .int 0), ("type", .arr [.str "integer", .str "null"])] :=
  ⟨by rfl, Or.inr (Or.inr (Or.inr (Or.inr (Or.inr (Or.inr (Or.inr (Or.inl ⟨.integer, by decide, Or.inl (by rfl)⟩)))))))⟩
example : Fragment [("oneOf", .arr [.obj [("type", .str "string")], .obj [("type", .str "null")]]), ("title", .str "T")] :=
  ⟨by rfl, Or.inr (Or.inl ⟨by rfl, by rfl⟩)⟩

/-- **just outside the fragment the `todo!()` is reached**: ingestion panics on these (kernel-evaluated; the same four schemas
    panic in the real code, see the M0 lattice) -/
theorem todo_witnesses :
    resolve 4 (.obj [("format", .str "date")]) = .todo ∧
    resolve 4 (.obj [("minimum", .int 0)]) = .todo ∧
    resolve 4 (.obj [("format", .str "x"), ("type", .str "boolean")]) = .todo ∧
    resolve 4 (.obj [("maxLength", .int 3), ("minimum", .int 0)]) = .todo ∧
    resolve 4 (.obj [("enum", .arr [.str "a", .int 1]), ("type", .arr [.str "string", .str "integer"])]) = .todo := by
  refine ⟨by rfl, by rfl, by rfl, by rfl, by rfl⟩

end TypifyModel.Dispatch

import TypifyModel.Model.ConvertArray
/-! # `convert_array`: the arity of a tuple / fixed array is the schema's, and positional `items` never silently
    become something else (C05's "fixed tuple length", C02's "no valid value unrepresentable" for arrays) -/
namespace TypifyModel.C05A
open TypifyModel.ConvertArray

/-- a tuple or fixed-size array is produced only for `minItems = maxItems = n > 0`, and has exactly `n` members -/
theorem tuple_arity (v : ArrV) (n k : Nat) (r : Bool) (h : convertArray v = .tuple n k r) :
    v.maxItems = some n ∧ v.minItems = some n ∧ 0 < n ∧ k ≤ n ∧ (∃ l, v.items = .list l ∧ k = min l n) := by
  unfold convertArray at h
  repeat' (split at h)
  all_goals (try (simp at h))
  all_goals (
    rename_i hmx hmn _ hc _ l hitems hlt
    simp only [Bool.and_eq_true, beq_iff_eq, decide_eq_true_eq] at hc
    obtain ⟨h1, h2, _⟩ := h
    subst h1
    refine ⟨hmx, by rw [hmn, ← hc.1], hc.2, by omega, l, hitems, by omega⟩)

theorem array_len (v : ArrV) (n : Nat) (a : Bool) (h : convertArray v = .array n a) :
    v.maxItems = some n ∧ v.minItems = some n ∧ 0 < n ∧ (a = true ↔ v.items = .none) := by
  unfold convertArray at h
  repeat' (split at h)
  all_goals (try (simp at h))
  all_goals (
    rename_i hmx hmn _ hc _ hitems
    simp only [Bool.and_eq_true, beq_iff_eq, decide_eq_true_eq] at hc
    obtain ⟨h1, h2⟩ := h
    subst h1; subst h2
    refine ⟨hmx, by rw [hmn, ← hc.1], hc.2, by simp [hitems]⟩)

/-- positional `items` without a fixed positive length are rejected, never turned into a `Vec` -/
theorem positional_items_need_fixed_length (v : ArrV) (k : Nat) (hi : v.items = .list k)
    (hne : ¬ (v.maxItems = v.minItems ∧ (∃ n, v.maxItems = some n ∧ 0 < n) ∧ v.unique = none ∧ v.contains = false)) :
    convertArray v = .invalid := by
  unfold convertArray
  repeat' split
  all_goals (try rfl)
  all_goals (try (simp_all; done))
  all_goals (
    exfalso; apply hne
    rename_i hct _ _ _ mx mn hmx hmn huq hc _ _ _ _
    simp only [Bool.and_eq_true, beq_iff_eq, decide_eq_true_eq] at hc
    refine ⟨by rw [hmx, hmn, hc.1], ⟨mx, hmx, hc.2⟩, huq, by simpa using hct⟩)

example : convertArray { items := .list 2, maxItems := some 2, minItems := some 2 } = .tuple 2 2 false := by decide
example : convertArray { items := .list 1, additional := true, maxItems := some 3, minItems := some 3 } = .tuple 3 1 true := by decide
example : convertArray { items := .single, unique := some true } = .set false := by decide

end TypifyModel.C05A

import TypifyModel.Proofs.Dispatch
import TypifyModel.Proofs.DispatchSourceAll
/-! C01's acceptance clause stated on the match AS WRITTEN: for a schema object of the supported fragment the first arm of
    `match schema` (table T11, regenerated from /repo) whose patterns and guard hold is one of arms 0..20 — a conversion — and
    never one of the re-dispatching arms, the multi-type arm or the final `todo!()`. -/
namespace TypifyModel.Dispatch
open TypifyModel TypifyModel.Excl TypifyModel.Generated

theorem firstTrue_none_iff : ∀ (bs : List Bool) (i : Nat), firstTrue bs i = none ↔ ∀ b ∈ bs, b = false := by
  intro bs
  induction bs with
  | nil => intro i; simp [firstTrue]
  | cons b r ih =>
    intro i
    cases b with
    | true => simp [firstTrue]
    | false => simp [firstTrue, ih]

theorem firstTrue_lt : ∀ (bs : List Bool) (i k : Nat), firstTrue bs i = some k → k < i + bs.length := by
  intro bs
  induction bs with
  | nil => intro i k h; simp [firstTrue] at h
  | cons b r ih =>
    intro i k h
    cases b with
    | true => simp [firstTrue] at h; subst h; simp
    | false =>
      simp only [firstTrue, Bool.false_eq_true, if_false] at h
      have := ih (i + 1) k h
      simp; omega

theorem typedArms_length (kvs : Kvs) (sg : JT → Bool) (u o : Bool) : (typedArms kvs sg u o).length = 20 := rfl

/-- when no guard of the table holds, `armsTyped` falls through -/
theorem armsTyped_none_of_guards (kvs : Kvs) (sg : JT → Bool) (u o : Bool)
    (h : ∀ b ∈ (typedArms kvs sg u o).map (·.1), b = false) : armsTyped kvs sg u o = none := by
  unfold armsTyped
  have : (typedArms kvs sg u o).find? (fun ga => ga.1) = none := by
    rw [List.find?_eq_none]
    intro ga hga
    have := h ga.1 (List.mem_map.mpr ⟨ga, hga, rfl⟩)
    simp [this]
  rw [this]; rfl

theorem armsRewrite_shapes (kvs : Kvs) (ty : Ty) :
    (∃ k, armsRewrite kvs ty = .again k) ∨ (∃ ts, armsRewrite kvs ty = .done (.multiType ts) ∧ ∃ l, ty = .multi l) ∨
      armsRewrite kvs ty = .done .todo := by
  unfold armsRewrite
  split
  · exact Or.inl ⟨_, rfl⟩
  · split
    · rename_i ts
      split
      · exact Or.inl ⟨_, rfl⟩
      · split
        · exact Or.inl ⟨_, rfl⟩
        · split
          · exact Or.inr (Or.inl ⟨_, rfl, _, rfl⟩)
          · exact Or.inr (Or.inr rfl)
    · exact Or.inr (Or.inr rfl)

/-- **on the supported fragment the source takes a converting arm**: the first arm of the match as written that matches a
    schema object of `Fragment` is one of arms 0..20 -/
theorem fragment_source_arm (kvs : Kvs) (hf : Fragment kvs) (hb : tyOf kvs ≠ .bad) :
    ∃ i, srcFirst (absTy (tyOf kvs)) (groupsOf kvs) (dispatchArms.map compact) 0 = some i ∧ i ≤ 20 := by
  rw [source_first_match kvs hb]
  generalize h0 : nullableFires (absTy (tyOf kvs)) = m
  cases m with
  | true => exact ⟨0, by simp, by omega⟩
  | false =>
    simp only [Bool.false_eq_true, if_false]
    cases hft : firstTrue ((typedArms kvs (isSingle (tyOf kvs)) (isUntyped (tyOf kvs)) (isOne (tyOf kvs))).map (·.1)) 1 with
    | some k =>
      have := firstTrue_lt _ _ _ hft
      simp only [List.length_map, typedArms_length] at this
      exact ⟨k, rfl, by omega⟩
    | none =>
      exfalso
      -- no typed arm, no nullable arm: the model's step is `armsRewrite`, which the fragment excludes
      have hg := (firstTrue_none_iff _ _).mp hft
      have hat := armsTyped_none_of_guards kvs _ _ _ hg
      obtain ⟨h1, h2, h3⟩ := fragment_never_todo kvs hf
      have hstep : step kvs = armsRewrite kvs (tyOf kvs) := by
        cases hty : tyOf kvs with
        | bad => exact absurd hty hb
        | none => simp only [step, hty]; rw [hty] at hat; rw [hat]
        | single t => simp only [step, hty]; rw [hty] at hat; rw [hat]
        | multi ts =>
          rw [hty] at h0 hat
          simp only [absTy, nullableFires] at h0
          simp only [step, hty]
          have : armNullable kvs ts = none := by
            unfold armNullable
            rw [if_neg (by rw [h0]; exact Bool.false_ne_true)]
          rw [this, hat]
      rcases armsRewrite_shapes kvs (tyOf kvs) with ⟨k, hk⟩ | ⟨ts, hk, l, hl⟩ | hk
      · exact h3 k (by rw [hstep, hk])
      · -- a type list that is not a nullable pair is outside the fragment
        unfold Fragment groupsOf at hf
        simp only [Groups.mk.injEq] at hf
        obtain ⟨_, hf⟩ := hf
        rw [hl] at hf h0
        simp only [absTy, nullableFires] at h0
        rcases hf with h | h | h | h | h | h | h | h | h <;> try (simp at h; done)
        · obtain ⟨t, hne, hty⟩ := h
          rcases hty with hty | hty
          · simp only [Ty.multi.injEq] at hty; subst hty
            simp at h0
          · simp only [Ty.multi.injEq] at hty; subst hty
            simp at h0
      · exact h1 (by rw [hstep, hk])

end TypifyModel.Dispatch

import TypifyModel.Proofs.C08
/-! Kernel-checked refutations of the full C08 statements on the current tree (known findings
    C08-field-collision, C08-variant-panic, C08-def-collision). Each witness was reproduced
    against the real code (see KNOWN_FINDINGS.json). This file is *expected* to stop compiling
    when a finding is repaired in /repo and the model follows; the check then reports the finding
    as gone instead of raising an alarm. -/
namespace TypifyModel.C08
open TypifyModel TypifyModel.Names

/-- properties `foo-bar` and `foo_bar` both become field `foo_bar` (rustc E0124) -/
theorem fields_distinct_full_false : ¬ fields_distinct_full := by
  intro h
  have hn := h ["foo-bar".toList, "foo_bar".toList] (by decide) (by decide)
  have := (fieldIdents_perm _).nodup_iff.mp hn
  revert this
  decide

/-- a property named `extra` (or `Extra`, `-extra`, …) next to `additionalProperties: <schema>`
    collides with the flattened map field `extra` (rustc E0124) -/
theorem fields_extra_distinct_full_false : ¬ fields_extra_distinct_full := by
  intro h
  have hn := h ["Extra".toList] (by decide) (by decide)
  unfold fieldIdentsExtra at hn
  rw [List.nodup_append] at hn
  have hm : extraIdent ∈ fieldIdents ["Extra".toList] :=
    (fieldIdents_perm _).mem_iff.mpr (by decide)
  exact hn.2.2 _ hm _ (by simp) rfl

/-- enum values `a` and `A` both become variant `A` in both naming passes: `panic!`, not `Err` -/
theorem variants_no_panic_full_false : ¬ variants_no_panic_full := by
  intro h
  exact h ["a".toList, "A".toList] (by decide) (by decide) (by decide)

/-- the same with values that differ only in a separator -/
example : variantNames ["a-b".toList, "a_b".toList] = .panic := by decide

/-- definition keys `foo-bar` and `foo_bar` both become item `FooBar` (rustc E0428) -/
theorem defs_distinct_full_false : ¬ defs_distinct_full := by
  intro h
  have hn := h ["foo-bar".toList, "foo_bar".toList] (by decide) (by decide)
  revert hn
  decide

end TypifyModel.C08

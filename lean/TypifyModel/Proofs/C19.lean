import TypifyModel.Proofs.Lemmas.RenderLemmas
import TypifyModel.Generated.Derives
/-! # C19 — every generated type is public and carries the promised trait surface

∀ IR, ∀ settings, ∀ named entry. Stated over the Render model (`Model/Render.lean`, tied to the real
`to_stream()` by the M2 correspondence) and over the derive tables regenerated from
`type_entry.rs` on every run (`Generated.deriveTables`). -/
namespace TypifyModel.C19
open TypifyModel TypifyModel.Render TypifyModel.Generated

/-- the user did not ask for serde's own derives again (then typify's choice is the only source) -/
def NoUserSerde (st : Settings) (ent : Entry) : Prop :=
  "::serde::Deserialize" ∉ st.extraDerives ∧ "::serde::Deserialize" ∉ ent.extraDerives

/-- table facts, re-checked against the regenerated tables by `decide` -/
def TablesOK (tb : DeriveTables) : Prop :=
  "Debug" ∈ tb.base ∧ "Clone" ∈ tb.base ∧ "::serde::Serialize" ∈ tb.base ∧ "::serde::Deserialize" ∈ tb.base ∧
  "::serde::Deserialize" ∉ tb.simpleEnum ∧ "::serde::Deserialize" ∉ tb.strNewtype

instance (tb : DeriveTables) : Decidable (TablesOK tb) := by unfold TablesOK; infer_instance

theorem tables_ok : TablesOK deriveTables := by decide

/-- what the documentation advertises for data-less enums / string newtypes is in the tables -/
theorem tables_advertised :
    (["Copy", "Eq", "Ord", "Hash", "PartialEq", "PartialOrd"].all (· ∈ deriveTables.simpleEnum)) = true ∧
    (["Eq", "Ord", "Hash", "PartialEq", "PartialOrd"].all (· ∈ deriveTables.strNewtype)) = true := by decide

/-- independent facts about Rust: traits derivable on a field-less enum, traits `String` implements -/
def fieldlessDerivable : List String := ["Copy", "Clone", "Debug", "PartialOrd", "Ord", "PartialEq", "Eq", "Hash"]
def stringImplements : List String := ["Clone", "Debug", "Default", "PartialOrd", "Ord", "PartialEq", "Eq", "Hash"]

/-- the traits typify adds are derivable where it adds them -/
theorem tables_derivable :
    (deriveTables.simpleEnum.all (· ∈ fieldlessDerivable)) = true ∧
    (deriveTables.strNewtype.all (· ∈ stringImplements)) = true ∧
    (newtypeRemovals.all (· == "::serde::Deserialize")) = true := by decide

/-- **C19: every generated type is public** -/
theorem all_pub (tb : DeriveTables) (st : Settings) (σ : Space) (ent : Entry) (it : ItemS) (fns : List String)
    (h : itemOf tb st σ ent = some (it, fns)) : it.isPub = true := by
  unfold itemOf at h
  split at h <;> simp at h <;> (obtain ⟨rfl, _⟩ := h; rfl)

/-- **C19: conversion from a reference to itself** -/
theorem from_ref (tb : DeriveTables) (st : Settings) (σ : Space) (ent : Entry) (it : ItemS) (fns : List String)
    (h : itemOf tb st σ ent = some (it, fns)) : ImplK.fromRef ∈ it.impls := by
  unfold itemOf at h
  split at h <;> simp at h <;> (obtain ⟨rfl, _⟩ := h; simp)

theorem deserialize_not_convenience (st : Settings) (σ : Space) (vs : List Variant) :
    ImplK.deserialize ∉ convenienceFrom st σ vs := by
  intro hm
  unfold convenienceFrom at hm
  simp only [List.mem_filterMap] at hm
  obtain ⟨v, _, hv⟩ := hm
  split at hv
  · simp at hv
  · split at hv
    · simp at hv
    · split at hv
      · split at hv <;> simp at hv
      · split at hv <;> simp at hv
      · simp at hv

/-- **C19: Debug, Clone, Serialize always derived; Deserialize derived or hand-written — never
    both, never neither** -/
theorem base_traits (tb : DeriveTables) (htb : TablesOK tb) (st : Settings) (σ : Space) (ent : Entry)
    (it : ItemS) (fns : List String) (hu : NoUserSerde st ent)
    (h : itemOf tb st σ ent = some (it, fns)) :
    "Debug" ∈ it.derives ∧ "Clone" ∈ it.derives ∧ "::serde::Serialize" ∈ it.derives ∧
    (("::serde::Deserialize" ∈ it.derives ∧ ImplK.deserialize ∉ it.impls) ∨
     ("::serde::Deserialize" ∉ it.derives ∧ ImplK.deserialize ∈ it.impls)) := by
  obtain ⟨hD, hC, hS, hDe, hnE, hnN⟩ := htb
  obtain ⟨hu1, hu2⟩ := hu
  unfold itemOf at h
  split at h
  · -- struct
    simp only [Option.some.injEq, Prod.mk.injEq] at h
    obtain ⟨rfl, _⟩ := h
    simp only [mem_toSet, List.mem_append]
    refine ⟨by simp [hD], by simp [hC], by simp [hS], Or.inl ⟨by simp [hDe], ?_⟩⟩
    intro hc
    rcases hc with (hc | hc) | hc
    · simp at hc
    · split at hc <;> simp at hc
    · split at hc <;> simp at hc
  · -- enum
    simp only [Option.some.injEq, Prod.mk.injEq] at h
    obtain ⟨rfl, _⟩ := h
    simp only [mem_toSet, List.mem_append]
    refine ⟨by simp [hD], by simp [hC], by simp [hS], Or.inl ⟨by simp [hDe], ?_⟩⟩
    intro hc
    rcases hc with ((((hc | hc) | hc) | hc) | hc) | hc
    · simp at hc
    · split at hc <;> simp [strTryFroms] at hc
    · split at hc <;> simp at hc
    · split at hc <;> simp [strTryFroms] at hc
    · split at hc <;> simp at hc
    · exact deserialize_not_convenience _ _ _ hc
  · -- newtype
    rename_i n inner c dflt hd
    simp only [Option.some.injEq, Prod.mk.injEq] at h
    obtain ⟨rfl, _⟩ := h
    have hne1 : ("Debug" ≠ "::serde::Deserialize") := by decide
    have hne2 : ("Clone" ≠ "::serde::Deserialize") := by decide
    have hne3 : ("::serde::Serialize" ≠ "::serde::Deserialize") := by decide
    simp only [mem_toSet, List.mem_append]
    refine ⟨Or.inl (Or.inl (mem_newtypeDerives_base hD hne1)), Or.inl (Or.inl (mem_newtypeDerives_base hC hne2)),
      Or.inl (Or.inl (mem_newtypeDerives_base hS hne3)), ?_⟩
    cases c with
    | none =>
      refine Or.inl ⟨Or.inl (Or.inl (deser_mem_unconstrained hDe)), ?_⟩
      intro hc
      simp only [List.mem_append] at hc
      rcases hc with (hc | hc) | (((hc | hc) | hc) | hc)
      · simp at hc
      · split at hc <;> simp at hc
      · simp at hc
      · split at hc <;> simp at hc
      · split at hc <;> simp at hc
      · split at hc <;> simp at hc
    | enumValues vs =>
      refine Or.inr ⟨?_, by simp⟩
      rintro ((hc | hc) | hc)
      · exact deser_not_mem_constrained hc
      · exact hu1 hc
      · exact hu2 hc
    | denyValues vs =>
      refine Or.inr ⟨?_, by simp⟩
      rintro ((hc | hc) | hc)
      · exact deser_not_mem_constrained hc
      · exact hu1 hc
      · exact hu2 hc
    | string mx mn pat =>
      refine Or.inr ⟨?_, by simp [strTryFroms]⟩
      rintro ((hc | hc) | hc)
      · exact deser_not_mem_constrained hc
      · exact hu1 hc
      · exact hu2 hc
  · simp at h

/-- **C19: data-less enums carry every trait of the simple-enum table** (with `tables_advertised`:
    Copy, Eq, Ord, Hash, PartialEq, PartialOrd) -/
theorem simple_enum_traits (tb : DeriveTables) (st : Settings) (σ : Space) (ent : Entry) (it : ItemS)
    (fns : List String) {n : String} {tag : Tag} {vs : List Variant} {deny : Bool} {d : Option Json}
    {bes : List Bespoke} (hd : ent.details = .enum n tag vs deny d bes) (hs : allSimple vs = true)
    (h : itemOf tb st σ ent = some (it, fns)) : ∀ t ∈ tb.simpleEnum, t ∈ it.derives := by
  intro t ht
  unfold itemOf at h
  rw [hd] at h
  simp only [Option.some.injEq, Prod.mk.injEq] at h
  obtain ⟨rfl, _⟩ := h
  simp [mem_toSet, hs, ht]

/-- **C19: newtypes over plain strings carry every trait of the string-newtype table** -/
theorem string_newtype_traits (tb : DeriveTables) (st : Settings) (σ : Space) (ent : Entry) (it : ItemS)
    (fns : List String) {n : String} {inner : Id} {d : Option Json} {ed : List String} {im : List Impl}
    {c : Constraints} (hnN : "::serde::Deserialize" ∉ tb.strNewtype)
    (hd : ent.details = .newtype n inner c d) (hin : σ.get inner = some ⟨.string, ed, im⟩)
    (h : itemOf tb st σ ent = some (it, fns)) : ∀ t ∈ tb.strNewtype, t ∈ it.derives := by
  intro t ht
  unfold itemOf at h
  rw [hd] at h
  simp only [Option.some.injEq, Prod.mk.injEq] at h
  obtain ⟨rfl, _⟩ := h
  simp only [mem_toSet, List.mem_append]
  have hne : t ≠ "::serde::Deserialize" := fun he => hnN (he ▸ ht)
  rw [isStrInner_of hin]
  exact Or.inl (Or.inl (mem_newtypeDerives_str ht hne))

/-- **C19: the comparison/hash traits never appear where they cannot be derived**: a derive on an
    item is a base trait, user-requested, or comes from the table of its own kind — the simple-enum
    table only on enums all of whose variants lack data, the string table only on newtypes whose
    inner type *is* `String` (with `tables_derivable`: those are derivable there). -/
theorem derives_origin (tb : DeriveTables) (st : Settings) (σ : Space) (ent : Entry) (it : ItemS)
    (fns : List String) (h : itemOf tb st σ ent = some (it, fns)) (t : String) (ht : t ∈ it.derives) :
    t ∈ tb.base ∨ t ∈ st.extraDerives ∨ t ∈ ent.extraDerives ∨
    (t ∈ tb.simpleEnum ∧ ∃ n tag vs deny d bes, ent.details = .enum n tag vs deny d bes ∧ allSimple vs = true) ∨
    (t ∈ tb.strNewtype ∧ ∃ n inner c d ed im, ent.details = .newtype n inner c d ∧
        σ.get inner = some ⟨.string, ed, im⟩) := by
  unfold itemOf at h
  split at h
  · simp only [Option.some.injEq, Prod.mk.injEq] at h
    obtain ⟨rfl, _⟩ := h
    simp only [mem_toSet, List.mem_append] at ht
    rcases ht with (ht | ht) | ht <;> simp [ht]
  · rename_i n tag vs deny d bes hd
    simp only [Option.some.injEq, Prod.mk.injEq] at h
    obtain ⟨rfl, _⟩ := h
    simp only [mem_toSet, List.mem_append] at ht
    rcases ht with ((ht | ht) | ht) | ht
    · simp [ht]
    · split at ht
      · rename_i hs
        right; right; right; left
        exact ⟨ht, n, tag, vs, deny, d, bes, hd, hs⟩
      · simp at ht
    · simp [ht]
    · simp [ht]
  · rename_i n inner c d hd
    simp only [Option.some.injEq, Prod.mk.injEq] at h
    obtain ⟨rfl, _⟩ := h
    simp only [mem_toSet, List.mem_append] at ht
    rcases ht with (ht | ht) | ht
    · rcases mem_newtypeDerives ht with hb | ⟨hs, hm⟩
      · exact Or.inl hb
      · obtain ⟨ed, im, hg⟩ := isStrInner_spec hs
        right; right; right; right
        exact ⟨hm, n, inner, c, d, ed, im, hd, hg⟩
    · simp [ht]
    · simp [ht]
  · simp at h

end TypifyModel.C19

namespace TypifyModel.C19
open TypifyModel TypifyModel.Render TypifyModel.Generated

/-! non-vacuity: a constrained string newtype, a simple enum and a struct all yield items -/
def exSpace : Space := { entries := [
  (1, ⟨.string, [], []⟩),
  (2, ⟨.newtype "N" 1 (.string (some 3) none none) none, [], []⟩),
  (3, ⟨.enum "E" .external [⟨"a", "A", .simple⟩] false none [.allSimpleVariants], [], []⟩)] }

example : ∃ it fns, itemOf deriveTables {} exSpace ⟨.newtype "N" 1 (.string (some 3) none none) none, [], []⟩ = some (it, fns)
    ∧ ImplK.deserialize ∈ it.impls ∧ "::serde::Deserialize" ∉ it.derives ∧ "Ord" ∈ it.derives := by
  refine ⟨_, _, rfl, ?_, ?_, ?_⟩ <;> decide

end TypifyModel.C19

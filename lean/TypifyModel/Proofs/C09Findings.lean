import TypifyModel.Proofs.C09
/-! # C09 findings: the full statements are false on the current tree

Kernel-checked refutations, one witness per defective arm of merge.rs (`Merge.Gap`). Each witness was
reproduced on the REAL `merge_all` through `typify_impl::verif::verif_merge_all` and judged by
tools/oracle.py (KNOWN_FINDINGS.json, ids `C09-*`). This file is allowed to stop compiling when merge.rs
is repaired. -/
namespace TypifyModel.C09
open TypifyModel TypifyModel.Validate TypifyModel.Merge

def d0 : Doc := ⟨[]⟩

/-! ### `never` although an instance satisfies both (violates "accepts every instance valid under all") -/

/-- merge.rs:619 compares `integer` and `number` for equality: `allOf [integer, number]` is reported
    unsatisfiable, yet `1` is valid under both -/
theorem gap_intNumber : tryMerge true d0 2 (.integer none none) .number = .never [.intNumber] ∧
    valid xAll d0 1 (.integer none none) (.int 1) = some true ∧ valid xAll d0 1 .number (.int 1) = some true :=
  ⟨rfl, rfl, rfl⟩

/-- merge.rs:806 propagates an `items` conflict as "array unsatisfiable", yet `[]` is valid under both -/
theorem gap_arrayItems : tryMerge true d0 3 (.array .null none none false) (.array .boolean none none false) = .never [.arrayItems] ∧
    valid xAll d0 2 (.array .null none none false) (.arr []) = some true ∧
    valid xAll d0 2 (.array .boolean none none false) (.arr []) = some true :=
  ⟨rfl, rfl, rfl⟩

theorem merge_never_false : ¬ merge_never := by
  intro h
  exact h true xAll d0 2 (.integer none none) .number [.intNumber] rfl rfl (.int 1) 1 1 ⟨rfl, rfl⟩

/-! ### an `ok` answer that is not the intersection -/

/-- try_merge_schema_not ignores `enum` of the negated schema: `enum [1,2,3]` ∧ `not enum [2]` = `enum [1,2,3]` -/
theorem gap_notDropped : tryMerge true d0 3 (.enumVals [.int 1, .int 2, .int 3]) (.not (.enumVals [.int 2])) =
      .ok (.enumVals [.int 1, .int 2, .int 3]) [.notDropped] ∧
    valid xAll d0 1 (.enumVals [.int 1, .int 2, .int 3]) (.int 2) = some true ∧
    valid xAll d0 2 (.not (.enumVals [.int 2])) (.int 2) = some false :=
  ⟨rfl, rfl, rfl⟩

/-- merge.rs:468 "completely wrong for arrays of len > 1": `not {required: [a, b]}` forbids both members,
    so `{a: null}` — valid under both inputs — is rejected -/
theorem gap_notRequired :
    tryMerge true d0 3 (.object [("a", .any), ("b", .any)] [] .open_) (.not (.object [] ["a", "b"] .open_)) =
      .ok (.object [("a", .never), ("b", .never)] [] .open_) [.notRequired] ∧
    valid xAll d0 2 (.object [("a", .any), ("b", .any)] [] .open_) (.obj [("a", .null)]) = some true ∧
    valid xAll d0 3 (.not (.object [] ["a", "b"] .open_)) (.obj [("a", .null)]) = some true ∧
    valid xAll d0 2 (.object [("a", .never), ("b", .never)] [] .open_) (.obj [("a", .null)]) = some false :=
  ⟨rfl, rfl, rfl, rfl⟩

def objReq (k : String) : Schema := .object [(k, .boolean)] [k] .open_

/-- try_merge_with_each_subschema subtracts the *other* branches from each merged branch, also for
    `anyOf`: an instance matching two branches is rejected -/
theorem gap_overlap :
    (∃ m, tryMerge true d0 4 (.object [("c", .null)] [] .open_) (.anyOf [objReq "a", objReq "b"]) = .ok m [.overlap] ∧
      valid xAll d0 6 m (.obj [("a", .bool true), ("b", .bool true)]) = some false) ∧
    valid xAll d0 2 (.object [("c", .null)] [] .open_) (.obj [("a", .bool true), ("b", .bool true)]) = some true ∧
    valid xAll d0 3 (.anyOf [objReq "a", objReq "b"]) (.obj [("a", .bool true), ("b", .bool true)]) = some true :=
  ⟨⟨_, rfl, rfl⟩, rfl, rfl⟩

def dArr : Doc := ⟨[("A", .array (.string none none none) none none false)]⟩

/-- `roughly` (merge.rs:1181) compares arrays by `items` only: the merge of `$ref A` with `maxItems: 1`
    is "roughly A", the reference is kept and the bound is lost -/
theorem gap_roughlyArray :
    tryMerge true dArr 4 (.ref "A") (.array .any none (some 1) false) = .ok (.ref "A") [.roughlyArray] ∧
    valid xAll dArr 3 (.ref "A") (.arr [.str "p", .str "q"]) = some true ∧
    valid xAll dArr 3 (.array .any none (some 1) false) (.arr [.str "p", .str "q"]) = some false :=
  ⟨rfl, rfl, rfl⟩

theorem merge_inter_false : ¬ merge_inter := by
  intro h
  have := (h true xAll d0 3 (.enumVals [.int 1, .int 2, .int 3]) (.not (.enumVals [.int 2])) _ _ rfl rfl
    (.int 2) 1 2 true false rfl rfl).2 1 true rfl
  simp at this

/-! ### order dependence -/

def notReq (k : String) : Schema := .not (.object [] [k] .open_)
def objC : Schema := .object [("c", .null)] [] .open_

/-- `not {required: [k]}` is honoured only when the accumulated schema already is an object:
    `[not a, not b, object]` drops both, `[object, not a, not b]` applies both -/
theorem gap_order :
    mergeAll true d0 5 [notReq "a", notReq "b", objC] = .ok objC [.notDropped, .notDropped] ∧
    mergeAll true d0 5 [objC, notReq "a", notReq "b"] = .ok (.object [("c", .null), ("a", .never), ("b", .never)] [] .open_) [] ∧
    valid xAll d0 2 objC (.obj [("a", .null)]) = some true ∧
    valid xAll d0 2 (.object [("c", .null), ("a", .never), ("b", .never)] [] .open_) (.obj [("a", .null)]) = some false :=
  ⟨rfl, rfl, rfl, rfl⟩

theorem perm3 (a b c : Schema) : [a, b, c].Perm [c, a, b] :=
  ((List.Perm.swap b c []).symm.cons a).trans (List.Perm.swap c a [b])

theorem merge_perm_false : ¬ merge_perm := by
  intro h
  have := h true xAll d0 5 5 [notReq "a", notReq "b", objC] [objC, notReq "a", notReq "b"] _ _ _ _
    (perm3 _ _ _) rfl rfl (.obj [("a", .null)])
    (by
      intro s hs
      simp only [List.mem_cons, List.not_mem_nil, or_false] at hs
      rcases hs with rfl | rfl | rfl
      · exact ⟨3, _, rfl⟩
      · exact ⟨3, _, rfl⟩
      · exact ⟨2, _, rfl⟩)
    2 2 true false rfl rfl
  simp at this

theorem merge_all_inter_false : ¬ merge_all_inter := by
  intro h
  have := (h true xAll d0 5 [notReq "a", notReq "b", objC] _ _ rfl (.obj [("a", .null)])
    (by
      intro s hs
      simp only [List.mem_cons, List.not_mem_nil, or_false] at hs
      rcases hs with rfl | rfl | rfl
      · exact ⟨3, _, rfl⟩
      · exact ⟨3, _, rfl⟩
      · exact ⟨2, _, rfl⟩)).2 2 true rfl
  have hall := this.mp rfl
  obtain ⟨f, hf⟩ := hall (notReq "a") (by simp)
  have hfalse : valid xAll d0 3 (notReq "a") (.obj [("a", .null)]) = some false := rfl
  have := valid_det xAll d0 hf hfalse
  simp at this

end TypifyModel.C09

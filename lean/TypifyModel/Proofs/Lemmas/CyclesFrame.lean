import TypifyModel.Proofs.Lemmas.CyclesAcyclic
/-! C07, frame: the only thing cutting does to the graph is redirecting a by-value child `c` to an
    entry `Box(c)` (existing or freshly allocated); each entry is rewritten at most once. -/
namespace TypifyModel.Cycles

/-- `r` is `g` where some by-value child ids `c` were replaced by the id of an entry `Box(c)`;
    kinds, arities, order, heap ids and all other ids are kept (`Node.mapChildren`); the only new
    entries are `Box` entries at fresh ids -/
structure OnlyBox (g r : G) : Prop where
  next : g.next ≤ r.next
  old : ∀ i n, g.get i = some n → ∃ f : Nat → Nat, r.get i = some (n.mapChildren f) ∧
    ∀ c ∈ n.childIds, f c = c ∨ r.get (f c) = some (.box c)
  new : ∀ i, g.get i = none → r.get i = none ∨ (g.next ≤ i ∧ ∃ c, r.get i = some (.box c))

theorem idToBox_get' {g : G} {c x : Nat} {n : Node} (h : (idToBox g c).get x = some n) :
    g.get x = some n ∨ (x = g.next ∧ n = .box c) := by
  unfold idToBox at h
  split at h
  · exact Or.inl h
  · simp only at h
    split at h
    · right; exact ⟨by assumption, by simpa using h.symm⟩
    · exact Or.inl h

theorem foldl_idToBox_get' {x : Nat} {n : Node} : ∀ (l : List Nat) (g : G),
    (l.foldl idToBox g).get x = some n → g.get x = some n ∨ (g.next ≤ x ∧ ∃ c, n = .box c)
  | [], _, h => Or.inl h
  | c :: l, g, h => by
    rcases foldl_idToBox_get' l (idToBox g c) h with h1 | ⟨h1, h2⟩
    · rcases idToBox_get' h1 with h2 | ⟨h2, h3⟩
      · exact Or.inl h2
      · exact Or.inr ⟨by omega, c, h3⟩
    · exact Or.inr ⟨Nat.le_trans (idToBox_next_le g c) h1, h2⟩

theorem startG_next_le (g : G) (act : List Nat) (u : Nat) (node : Node) :
    g.next ≤ (startG g act u node).next := by
  simp only [startG, set_next]
  exact foldl_idToBox_next_le _ _

theorem startG_get_other {g : G} {act : List Nat} {u : Nat} {node : Node} {x : Nat}
    (hx : x ≠ u) (hk : x < g.next) : (startG g act u node).get x = g.get x := by
  simp only [startG, set_get, if_neg hx]
  exact foldl_idToBox_get_old _ _ hk

theorem startG_get_new {g : G} {act : List Nat} {u : Nat} {node : Node} {x : Nat} {n : Node}
    (hx : x ≠ u) (h : (startG g act u node).get x = some n) :
    g.get x = some n ∨ (g.next ≤ x ∧ ∃ c, n = .box c) := by
  simp only [startG, set_get, if_neg hx] at h
  exact foldl_idToBox_get' _ _ h

/-- `Box` entries are never changed -/
theorem startG_box_stable {g : G} {act : List Nat} {u : Nat} {node : Node} {b c : Nat}
    (hk : KeysBelow g) (hu : g.get u = some node) (hb : g.get b = some (.box c)) :
    (startG g act u node).get b = some (.box c) := by
  by_cases hbu : b = u
  · subst hbu
    rw [hu] at hb
    cases hb
    simp [startG, set_get, Node.mapChildren]
  · rw [startG_get_other hbu (hk b _ hb)]; exact hb

/-- the rewritten `u` -/
theorem startG_self {g : G} {act : List Nat} {u : Nat} {node : Node}
    (hk : KeysBelow g) (hu : g.get u = some node) :
    ∃ f : Nat → Nat, (startG g act u node).get u = some (node.mapChildren f) ∧
      ∀ c ∈ node.childIds, f c = c ∨
        (c ∈ act ∧ (startG g act u node).get (f c) = some (.box c)) := by
  refine ⟨rewrite ((node.childIds.filter (fun c => decide (c ∈ act))).foldl idToBox g) act,
    by simp [startG, set_get], fun c hc => ?_⟩
  unfold rewrite
  split
  · rename_i hact
    right
    have hb : hasBox ((node.childIds.filter (fun c => decide (c ∈ act))).foldl idToBox g) c :=
      foldl_hasBox _ _ (List.mem_filter.mpr ⟨hc, by simpa using hact⟩)
    have hbox := boxId_spec hb
    have hne : boxId ((node.childIds.filter (fun c => decide (c ∈ act))).foldl idToBox g) c ≠ u := by
      intro heq
      rw [heq, foldl_idToBox_get_old _ _ (hk u node hu), hu] at hbox
      cases hbox
      simp [Node.childIds] at hc
    simp only [startG, set_get, if_neg hne]
    exact ⟨hact, hbox⟩
  · exact Or.inl rfl

/-- invariant relating the current graph to the graph `g0` cutting started from -/
structure Frame (g0 g : G) (visited : List Nat) : Prop where
  keys : KeysBelow g
  unvisited : ∀ i n, g0.get i = some n → i ∉ visited → g.get i = some n
  onlyBox : OnlyBox g0 g

theorem Frame.init {g0 : G} (hk : KeysBelow g0) : Frame g0 g0 [] where
  keys := hk
  unvisited := fun _ _ h _ => h
  onlyBox := {
    next := Nat.le_refl _
    old := fun i n h => ⟨id, by rw [Node.mapChildren_id id n (fun _ _ => rfl)]; exact h,
      fun _ _ => Or.inl rfl⟩
    new := fun _ h => Or.inl h }

theorem start_frame {g0 g : G} {visited act : List Nat} {u : Nat} {node : Node}
    (hf : Frame g0 g visited) (hv : u ∉ visited) (hu : g.get u = some node) :
    Frame g0 (startG g act u node) (u :: visited) := by
  have hk := hf.keys
  have hku := hk u node hu
  refine ⟨startG_keys hku hk, ?_, ?_, ?_, ?_⟩
  · intro i n hi hni
    have hiu : i ≠ u := fun h => hni (by simp [h])
    have hiv : i ∉ visited := fun h => hni (by simp [h])
    have := hf.unvisited i n hi hiv
    rw [startG_get_other hiu (hk i n this)]; exact this
  · exact Nat.le_trans hf.onlyBox.next (startG_next_le _ _ _ _)
  · intro i n hi
    by_cases hiu : i = u
    · subst hiu
      cases h0 : g0.get i with
      | none => rw [h0] at hi; cases hi
      | some n0 =>
        rw [h0] at hi; cases hi
        have hnode := hf.unvisited i n h0 hv
        rw [hu] at hnode; cases hnode
        obtain ⟨f, hf1, hf2⟩ := startG_self (act := act) hk hu
        exact ⟨f, hf1, fun c hc => (hf2 c hc).imp id (fun h => h.2)⟩
    · obtain ⟨f, hget, hch⟩ := hf.onlyBox.old i n hi
      refine ⟨f, ?_, fun c hc => ?_⟩
      · rw [startG_get_other hiu (hk i _ hget)]; exact hget
      · rcases hch c hc with h | h
        · exact Or.inl h
        · exact Or.inr (startG_box_stable hk hu h)
  · intro i hi
    rcases hf.onlyBox.new i hi with h | ⟨hle, c, h⟩
    · have hiu : i ≠ u := fun heq => by rw [heq, hu] at h; cases h
      cases hs : (startG g act u node).get i with
      | none => exact Or.inl rfl
      | some n =>
        rcases startG_get_new hiu hs with h1 | ⟨h1, c, rfl⟩
        · rw [h] at h1; cases h1
        · exact Or.inr ⟨Nat.le_trans hf.onlyBox.next h1, c, rfl⟩
    · exact Or.inr ⟨hle, c, startG_box_stable hk hu h⟩

theorem visitList_pres {f : Nat → St → Option St} {P : St → Prop}
    (hf : ∀ c s s', f c s = some s' → P s → P s') :
    ∀ (cs : List Nat) (s s' : St), visitList f cs s = some s' → P s → P s'
  | [], s, s', h, hp => by
    simp only [visitList, Option.some.injEq] at h
    exact h ▸ hp
  | c :: cs, s, s', h, hp => by
    simp only [visitList] at h
    split at h
    · cases h
    · rename_i s1 h1
      exact visitList_pres hf cs s1 s' h (hf c s s1 h1 hp)

theorem visit_frame {g0 : G} : ∀ (fuel : Nat) (act : List Nat) (u : Nat) (s s' : St),
    visit fuel act u s = some s' → Frame g0 s.g s.visited → Frame g0 s'.g s'.visited
  | 0, _, _, _, _, h, _ => by simp [visit] at h
  | fuel + 1, act, u, s, s', h, hf => by
    rw [visit_succ] at h
    split at h
    · cases h; exact hf
    · rename_i hv
      split at h
      · cases h
        exact ⟨hf.keys, fun i n hi hni => hf.unvisited i n hi (fun h => hni (by simp [h])),
          hf.onlyBox⟩
      · rename_i node hu
        split at h
        · cases h
        · rename_i s2 h2
          cases h
          have h1 : Frame g0 (startG s.g (u :: act) u node) (u :: s.visited) := start_frame hf hv hu
          exact visitList_pres (P := fun s => Frame g0 s.g s.visited)
            (fun c s s' h hp => visit_frame fuel (u :: act) c s s' h hp) _ _ s2 h2 h1

theorem breakCyclesSt_frame {fuel : Nat} {g : G} {lo hi : Nat} {s : St} (hk : KeysBelow g)
    (h : breakCyclesSt fuel g lo hi = some s) : Frame g s.g s.visited :=
  visitList_pres (P := fun s => Frame g s.g s.visited)
    (fun c s s' h hp => visit_frame fuel [] c s s' h hp) _ _ _ h (Frame.init hk)

end TypifyModel.Cycles

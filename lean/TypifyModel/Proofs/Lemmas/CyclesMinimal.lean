import TypifyModel.Proofs.Lemmas.CyclesFrame
/-! C07, minimality: without a by-value cycle reachable from the roots nothing is ever `active`
    when it is met again, so nothing is snipped and the graph is returned unchanged. -/
namespace TypifyModel.Cycles

theorem G.ext' {a b : G} (h1 : ∀ i, a.get i = b.get i) (h2 : a.next = b.next) : a = b := by
  obtain ⟨ga, na⟩ := a
  obtain ⟨gb, nb⟩ := b
  simp only at h1 h2
  have hg : ga = gb := funext h1
  subst hg; subst h2; rfl

/-- no by-value cycle through a node reachable from the roots -/
def Acyclic (g : G) (lo hi : Nat) : Prop := ∀ u, Reach g lo hi u → ¬ Path g u u

theorem visitList_pres_mem {f : Nat → St → Option St} {P : St → Prop} :
    ∀ (cs : List Nat), (∀ c ∈ cs, ∀ s s', f c s = some s' → P s → P s') →
    ∀ (s s' : St), visitList f cs s = some s' → P s → P s'
  | [], _, s, s', h, hp => by
    simp only [visitList, Option.some.injEq] at h
    exact h ▸ hp
  | c :: cs, hf, s, s', h, hp => by
    simp only [visitList] at h
    split at h
    · cases h
    · rename_i s1 h1
      exact visitList_pres_mem cs (fun d hd => hf d (by simp [hd])) s1 s' h
        (hf c (by simp) s s1 h1 hp)

theorem startG_noop {g : G} {act : List Nat} {u : Nat} {node : Node} (hu : g.get u = some node)
    (hc : ∀ c ∈ node.childIds, c ∉ act) : startG g act u node = g := by
  have hnil : node.childIds.filter (fun c => decide (c ∈ act)) = [] := by
    rw [List.filter_eq_nil_iff]
    intro c hcm
    simpa using hc c hcm
  have hid : node.mapChildren (rewrite g act) = node :=
    Node.mapChildren_id _ _ (fun c hcm => by simp [rewrite, hc c hcm])
  apply G.ext'
  · intro i
    simp only [startG, hnil, List.foldl_nil, hid, set_get]
    split
    · subst_vars; exact hu.symm
    · rfl
  · simp [startG, hnil, set_next]

theorem visit_min {g0 : G} {lo hi : Nat} (hac : Acyclic g0 lo hi) :
    ∀ (fuel : Nat) (act : List Nat) (u : Nat) (s s' : St),
    visit fuel act u s = some s' → s.g = g0 → Reach g0 lo hi u → (∀ a ∈ act, Path g0 a u) →
      s'.g = g0
  | 0, _, _, _, _, h, _, _, _ => by simp [visit] at h
  | fuel + 1, act, u, s, s', h, hg, hr, hp => by
    rw [visit_succ] at h
    split at h
    · cases h; exact hg
    · split at h
      · cases h; exact hg
      · rename_i node hu
        rw [hg] at hu
        split at h
        · cases h
        · rename_i s2 h2
          cases h
          have hna : ∀ c ∈ node.childIds, c ∉ u :: act := by
            intro c hc hmem
            have he : E g0 u c := ⟨node, hu, hc⟩
            have hrc : Reach g0 lo hi c := .step hr he
            rcases List.mem_cons.mp hmem with rfl | hmem
            · exact hac _ hr (.single he)
            · exact hac c hrc (.tail (hp c hmem) he)
          rw [hg, startG_noop hu hna] at h2
          refine visitList_pres_mem (P := fun s => s.g = g0) _ (fun c hc s s' h hs => ?_) _ s2 h2 rfl
          have hcm : c ∈ node.childIds := (List.mem_filter.mp (List.mem_reverse.mp hc)).1
          have he : E g0 u c := ⟨node, hu, hcm⟩
          refine visit_min hac fuel (u :: act) c s s' h hs (.step hr he) (fun a ha => ?_)
          rcases List.mem_cons.mp ha with rfl | ha
          · exact .single he
          · exact .tail (hp a ha) he

theorem breakCyclesSt_min {fuel : Nat} {g : G} {lo hi : Nat} {s : St} (hac : Acyclic g lo hi)
    (h : breakCyclesSt fuel g lo hi = some s) : s.g = g :=
  visitList_pres_mem (P := fun s => s.g = g) _
    (fun c hc s s' h hs => visit_min hac fuel [] c s s' h hs
      (.root (mem_roots.mp hc).1 (mem_roots.mp hc).2) (fun _ ha => by simp at ha))
    _ s h rfl

end TypifyModel.Cycles

import TypifyModel.Proofs.Lemmas.SpaceNames
import TypifyModel.Proofs.Lemmas.SpaceStable
/-! C16 helpers for `split_inv`: structure "with names in place of ids" (`Tree`, `Shape`, `Res`,
    `ShapeOf`, `NamedDef`), a state-free denotation of the fragment (`treeOf`, `shapeOf`, `expected`)
    and the soundness of the conversion with respect to it (`convertLite_sound`): every named entry a
    conversion creates carries one of the `(name, shape)` pairs the schema denotes, whatever the state
    it ran in.  This is the `convB` half of DESIGN.md Appendix C's `convert_spec`, stated for every
    later state that keeps the entries (`Keeps`). -/
set_option autoImplicit false
namespace TypifyModel.Space
open TypifyModel.Names (Str)

/-! ### structure with names in place of ids -/

inductive Tree where
  | named (n : Str)
  | string
  | integer (n : Str)
  | boolean
  | option (t : Tree)
  | vec (t : Tree)
  | box (t : Tree)
deriving DecidableEq, Repr

/-- what an id resolves to: a named entry is its name, an unnamed one its structure -/
inductive Res (σ : State) : Nat → Tree → Prop
  | named {i : Nat} {e : Details} {n : Str} : σ.entry i = some e → e.name? = some n → Res σ i (.named n)
  | string {i : Nat} : σ.entry i = some .string → Res σ i .string
  | integer {i : Nat} {n : Str} : σ.entry i = some (.integer n) → Res σ i (.integer n)
  | boolean {i : Nat} : σ.entry i = some .boolean → Res σ i .boolean
  | option {i t : Nat} {x : Tree} : σ.entry i = some (.option t) → Res σ t x → Res σ i (.option x)
  | vec {i t : Nat} {x : Tree} : σ.entry i = some (.vec t) → Res σ t x → Res σ i (.vec x)
  | box {i t : Nat} {x : Tree} : σ.entry i = some (.box t) → Res σ t x → Res σ i (.box x)

structure FieldT where
  name : Str
  rename : Option Str
  required : Bool
  ty : Tree
deriving DecidableEq, Repr

/-- the structure of a named entry (the derived flag `bespoke` of enums is not structure) -/
inductive Shape where
  | enum (variants : List (Str × Str))
  | struct (props : List FieldT) (deny : Bool)
  | newtype (inner : Tree)
deriving DecidableEq, Repr

inductive FieldsRes (σ : State) : List Field → List FieldT → Prop
  | nil : FieldsRes σ [] []
  | cons {f : Field} {fs : List Field} {x : Tree} {ts : List FieldT} : Res σ f.ty x → FieldsRes σ fs ts →
      FieldsRes σ (f :: fs) (⟨f.name, f.rename, f.required, x⟩ :: ts)

inductive ShapeOf (σ : State) : Details → Shape → Prop
  | enum {n : Str} {vs : List (Str × Str)} {b : Bool} : ShapeOf σ (.enum n vs b) (.enum vs)
  | struct {n : Str} {ps : List Field} {d : Bool} {ts : List FieldT} : FieldsRes σ ps ts →
      ShapeOf σ (.struct n ps d) (.struct ts d)
  | newtype {n : Str} {t : Nat} {x : Tree} : Res σ t x → ShapeOf σ (.newtype n t) (.newtype x)

/-- `σ` has a named definition `n` of structure `sh` -/
def NamedDef (σ : State) (n : Str) (sh : Shape) : Prop :=
  ∃ i e, σ.entry i = some e ∧ e.name? = some n ∧ ShapeOf σ e sh

/-- the same set of named definitions (names and structures, ids abstracted away) -/
def SameDefs (σ τ : State) : Prop := ∀ n sh, NamedDef σ n sh ↔ NamedDef τ n sh

/-- an explicit id-isomorphism between the named parts of two states (the stronger form of
    `SameDefs`; stated, not needed for the set statement) -/
def IdIso (π : Nat → Nat) (σ τ : State) : Prop :=
  (∀ i e, σ.entry i = some e → e.name?.isSome →
    ∃ e', τ.entry (π i) = some e' ∧ e'.name? = e.name? ∧ ∀ sh, ShapeOf σ e sh → ShapeOf τ e' sh) ∧
  (∀ j e', τ.entry j = some e' → e'.name?.isSome → ∃ i e, π i = j ∧ σ.entry i = some e ∧ e.name?.isSome)

/-! ### entries are kept (up to `finalize`) -/

def Keeps (σ τ : State) : Prop :=
  ∀ i e, σ.entry i = some e → τ.entry i = some e ∨ τ.entry i = some (finalizeEntry e)

theorem finalizeEntry_idem (e : Details) : finalizeEntry (finalizeEntry e) = finalizeEntry e := by
  cases e <;> simp [finalizeEntry]

theorem Keeps.refl (σ : State) : Keeps σ σ := fun _ _ h => Or.inl h

theorem Keeps.trans {a b c : State} (h1 : Keeps a b) (h2 : Keeps b c) : Keeps a c := by
  intro i e h
  rcases h1 i e h with h | h
  · exact h2 i e h
  · rcases h2 i _ h with h' | h'
    · exact Or.inr h'
    · rw [finalizeEntry_idem] at h'; exact Or.inr h'

theorem keeps_of_ext {σ σ' : State} (hx : Ext σ σ') (hi : Inv σ) : Keeps σ σ' :=
  fun i e h => Or.inl (by rw [hx.entry i (hi.entry_lt i e h)]; exact h)

theorem keeps_of_finalized {σ σ' : State}
    (he : ∀ i, σ'.entry i = σ.entry i ∨ σ'.entry i = (σ.entry i).map finalizeEntry) : Keeps σ σ' := by
  intro i e h
  rcases he i with h1 | h1
  · exact Or.inl (by rw [h1]; exact h)
  · exact Or.inr (by rw [h1, h]; rfl)

theorem keeps_insertDef {σ : State} {nm : Str} {tid : Nat} {ent : Details} (hnone : σ.entry tid = none) :
    Keeps σ (insertDef σ nm tid ent) := by
  intro i e h
  left
  rw [insertDef_entry]
  have : tid ≠ i := fun hti => by rw [hti, h] at hnone; cases hnone
  simp [this]; exact h

theorem Res.keeps {σ τ : State} {i : Nat} {x : Tree} (h : Res σ i x) (hk : Keeps σ τ) : Res τ i x := by
  induction h with
  | named he hn =>
    rcases hk _ _ he with h | h
    · exact .named h hn
    · exact .named h (by rw [finalizeEntry_name]; exact hn)
  | string he => rcases hk _ _ he with h | h <;> exact .string h
  | integer he => rcases hk _ _ he with h | h <;> exact .integer h
  | boolean he => rcases hk _ _ he with h | h <;> exact .boolean h
  | option he _ ih => rcases hk _ _ he with h | h <;> exact .option h ih
  | vec he _ ih => rcases hk _ _ he with h | h <;> exact .vec h ih
  | box he _ ih => rcases hk _ _ he with h | h <;> exact .box h ih

theorem Res.unique {σ : State} {i : Nat} {x y : Tree} (h1 : Res σ i x) (h2 : Res σ i y) : x = y := by
  induction h1 generalizing y with
  | named he hn =>
    cases h2 with
    | named he' hn' => rw [he] at he'; cases he'; rw [hn] at hn'; cases hn'; rfl
    | string he' => rw [he] at he'; cases he'; cases hn
    | integer he' => rw [he] at he'; cases he'; cases hn
    | boolean he' => rw [he] at he'; cases he'; cases hn
    | option he' _ => rw [he] at he'; cases he'; cases hn
    | vec he' _ => rw [he] at he'; cases he'; cases hn
    | box he' _ => rw [he] at he'; cases he'; cases hn
  | string he =>
    cases h2 with
    | named he' hn' => rw [he] at he'; cases he'; cases hn'
    | string => rfl
    | integer he' => rw [he] at he'; cases he'
    | boolean he' => rw [he] at he'; cases he'
    | option he' _ => rw [he] at he'; cases he'
    | vec he' _ => rw [he] at he'; cases he'
    | box he' _ => rw [he] at he'; cases he'
  | integer he =>
    cases h2 with
    | named he' hn' => rw [he] at he'; cases he'; cases hn'
    | string he' => rw [he] at he'; cases he'
    | integer he' => rw [he] at he'; cases he'; rfl
    | boolean he' => rw [he] at he'; cases he'
    | option he' _ => rw [he] at he'; cases he'
    | vec he' _ => rw [he] at he'; cases he'
    | box he' _ => rw [he] at he'; cases he'
  | boolean he =>
    cases h2 with
    | named he' hn' => rw [he] at he'; cases he'; cases hn'
    | string he' => rw [he] at he'; cases he'
    | integer he' => rw [he] at he'; cases he'
    | boolean => rfl
    | option he' _ => rw [he] at he'; cases he'
    | vec he' _ => rw [he] at he'; cases he'
    | box he' _ => rw [he] at he'; cases he'
  | option he _ ih =>
    cases h2 with
    | named he' hn' => rw [he] at he'; cases he'; cases hn'
    | string he' => rw [he] at he'; cases he'
    | integer he' => rw [he] at he'; cases he'
    | boolean he' => rw [he] at he'; cases he'
    | option he' hr => rw [he] at he'; cases he'; rw [ih hr]
    | vec he' _ => rw [he] at he'; cases he'
    | box he' _ => rw [he] at he'; cases he'
  | vec he _ ih =>
    cases h2 with
    | named he' hn' => rw [he] at he'; cases he'; cases hn'
    | string he' => rw [he] at he'; cases he'
    | integer he' => rw [he] at he'; cases he'
    | boolean he' => rw [he] at he'; cases he'
    | option he' _ => rw [he] at he'; cases he'
    | vec he' hr => rw [he] at he'; cases he'; rw [ih hr]
    | box he' _ => rw [he] at he'; cases he'
  | box he _ ih =>
    cases h2 with
    | named he' hn' => rw [he] at he'; cases he'; cases hn'
    | string he' => rw [he] at he'; cases he'
    | integer he' => rw [he] at he'; cases he'
    | boolean he' => rw [he] at he'; cases he'
    | option he' _ => rw [he] at he'; cases he'
    | vec he' _ => rw [he] at he'; cases he'
    | box he' hr => rw [he] at he'; cases he'; rw [ih hr]

theorem FieldsRes.keeps {σ τ : State} {fs : List Field} {ts : List FieldT} (h : FieldsRes σ fs ts)
    (hk : Keeps σ τ) : FieldsRes τ fs ts := by
  induction h with
  | nil => exact .nil
  | cons hr _ ih => exact .cons (hr.keeps hk) ih

theorem FieldsRes.unique {σ : State} {fs : List Field} {ts ts' : List FieldT} (h1 : FieldsRes σ fs ts)
    (h2 : FieldsRes σ fs ts') : ts = ts' := by
  induction h1 generalizing ts' with
  | nil => cases h2; rfl
  | cons hr _ ih =>
    cases h2 with
    | cons hr' hf' => rw [hr.unique hr', ih hf']

theorem ShapeOf.keeps {σ τ : State} {e : Details} {sh : Shape} (h : ShapeOf σ e sh) (hk : Keeps σ τ) :
    ShapeOf τ e sh ∧ ShapeOf τ (finalizeEntry e) sh := by
  cases h with
  | enum => exact ⟨.enum, .enum⟩
  | struct hf => exact ⟨.struct (hf.keeps hk), .struct (hf.keeps hk)⟩
  | newtype hr => exact ⟨.newtype (hr.keeps hk), .newtype (hr.keeps hk)⟩

theorem ShapeOf.unique {σ : State} {e : Details} {sh sh' : Shape} (h1 : ShapeOf σ e sh) (h2 : ShapeOf σ e sh') :
    sh = sh' := by
  cases h1 with
  | enum => cases h2; rfl
  | struct hf => cases h2 with | struct hf' => rw [hf.unique hf']
  | newtype hr => cases h2 with | newtype hr' => rw [hr.unique hr']

/-- the shape of an entry is the shape of its finalized form -/
theorem ShapeOf.of_finalized {σ : State} {e : Details} {sh : Shape} (h : ShapeOf σ (finalizeEntry e) sh) :
    ShapeOf σ e sh := by
  cases e with
  | enum n vs b => cases h; exact .enum
  | struct => exact h
  | newtype => exact h
  | option => exact h
  | box => exact h
  | vec => exact h
  | boolean => exact h
  | integer => exact h
  | string => exact h
  | reference => exact h

/-- Option / Vec have an intrinsic default -/
def intrinsicT : Tree → Bool
  | .option _ => true
  | .vec _ => true
  | _ => false

theorem Res.intrinsic {σ : State} {i : Nat} {x : Tree} {d : Details} (h : Res σ i x) (hd : σ.entry i = some d) :
    intrinsicT x = hasIntrinsicDefault (some d) := by
  cases h with
  | named he hn => rw [hd] at he; cases he; cases d <;> first | rfl | cases hn
  | string he => rw [hd] at he; cases he; rfl
  | integer he => rw [hd] at he; cases he; rfl
  | boolean he => rw [hd] at he; cases he; rfl
  | option he _ => rw [hd] at he; cases he; rfl
  | vec he _ => rw [hd] at he; cases he; rfl
  | box he _ => rw [hd] at he; cases he; rfl

/-! ### the denotation of the fragment -/

/-- the tree of the id `id_for_schema(n, s)` answers; `rn` = the name a `$ref` key resolves to -/
def treeOf (rn : RefKey → Option Str) : Nat → Name → Sch → Option Tree
  | 0, _, _ => none
  | f + 1, n, s =>
    match s with
    | .str _ => some .string
    | .int _ => some (.integer "i64".toList)
    | .bool _ => some .boolean
    | .ref _ k => (rn k).map .named
    | .arr t item => (treeOf rn f (itemName n t) item).map .vec
    | .nullable inner => (treeOf rn f (innerName n) inner).map .option
    | .obj t _ _ _ => (getTypeName n t).map .named
    | .enumStr t _ => (getTypeName n t).map .named

/-- the tree of a property's type: required as is, optional as is when it has an intrinsic default,
    wrapped in `Option` otherwise -/
def propTree (req : List Str) (pn : Str) (x : Tree) : Tree :=
  if pn ∈ req then x else if intrinsicT x then x else .option x

def fieldTOf (rn : RefKey → Option Str) (f : Nat) (base : Option Str) (req : List Str) (p : Str × Sch) :
    Option FieldT :=
  (treeOf rn f (propName base p.1) p.2).map (fun x =>
    { name := (Names.recase p.1 .snake).1, rename := (Names.recase p.1 .snake).2,
      required := decide (p.1 ∈ req), ty := propTree req p.1 x })

def fieldsTOf (rn : RefKey → Option Str) (f : Nat) (base : Option Str) (req : List Str) :
    List (Str × Sch) → Option (List FieldT)
  | [] => some []
  | p :: ps =>
    match fieldTOf rn f base req p, fieldsTOf rn f base req ps with
    | some t, some ts => some (t :: ts)
    | _, _ => none

def insertFieldT (x : FieldT) : List FieldT → List FieldT
  | [] => [x]
  | y :: ys => if Names.strLe x.name y.name then x :: y :: ys else y :: insertFieldT x ys

def sortFieldTs : List FieldT → List FieldT
  | [] => []
  | x :: xs => insertFieldT x (sortFieldTs xs)

/-- the shape of the named entry `convertLite _ n s` answers (objects and string enums) -/
def shapeOf (rn : RefKey → Option Str) : Nat → Name → Sch → Option Shape
  | 0, _, _ => none
  | f + 1, n, s =>
    match s with
    | .obj t props req closed =>
      (fieldsTOf rn f (getTypeName n t) req props).map (fun ts => .struct (sortFieldTs ts) closed)
    | .enumStr _ vals =>
      match Names.variantNames vals with
      | .ok idents => some (.enum (vals.zip idents))
      | .panic => none
    | _ => none

/-- the `(name, shape)` of the entry a sub-schema is assigned, when it is a named one -/
def own (rn : RefKey → Option Str) (f : Nat) (n : Name) (s : Sch) : List (Str × Shape) :=
  match topName n s, shapeOf rn f n s with
  | some nm, some sh => [(nm, sh)]
  | _, _ => []

/-- the `(name, shape)` pairs of the inline named types `convertLite f n s` can create -/
def expected (rn : RefKey → Option Str) : Nat → Name → Sch → List (Str × Shape)
  | 0, _, _ => []
  | f + 1, n, s =>
    match s with
    | .arr t item => own rn f (itemName n t) item ++ expected rn f (itemName n t) item
    | .nullable inner => own rn f (innerName n) inner ++ expected rn f (innerName n) inner
    | .obj t props _ _ =>
      props.flatMap (fun p => own rn f (propName (getTypeName n t) p.1) p.2
                              ++ expected rn f (propName (getTypeName n t) p.1) p.2)
    | _ => []

/-- every `$ref` key bound in `refs` leads, in `τ`, to an entry named `rn key` -/
def RefNamed (rn : RefKey → Option Str) (refs : List (RefKey × Nat)) (τ : State) : Prop :=
  ∀ k t, alookup refs k = some t → ∃ d nm, τ.entry t = some d ∧ d.name? = some nm ∧ rn k = some nm

/-! ### what `assign_type` leaves at the id it answers -/

theorem named_not_intrinsic {d : Details} {nm : Str} (h : d.name? = some nm) :
    hasIntrinsicDefault (some d) = false := by
  cases d <;> first | rfl | cases h

theorem assignType_entry {e : Details} {σ : State} (hi : Inv σ) (hr : e.refTarget? = none) :
    ∃ d, (assignType e σ).2.entry (assignType e σ).1 = some d ∧ (e.name? = none → d = e) ∧
      (∀ nm, e.name? = some nm → d.name? = some nm) := by
  have hc := assignType_cases e σ
  generalize assignType e σ = p at hc ⊢
  cases hc with
  | ref t ht => rw [hr] at ht; cases ht
  | nameHit n i _ hn hi' =>
    obtain ⟨d, hd, hdn⟩ := hi.name_ok n i hi'
    refine ⟨d, hd, ⟨fun h => ?_, fun nm h => ?_⟩⟩
    · rw [hn] at h; cases h
    · rw [hn] at h; cases h; exact hdn
  | nameNew n _ hn _ =>
    exact ⟨e, by rw [allocNamed_entry]; simp, fun _ => rfl, fun nm h => h⟩
  | typeHit i _ hn hi' =>
    exact ⟨e, (hi.type_ok e i hi').1, fun _ => rfl, fun nm h => h⟩
  | typeNew _ hn _ =>
    exact ⟨e, by rw [allocTyped_entry]; simp, fun _ => rfl, fun nm h => h⟩

/-- an entry at or above `next_id` after `assign_type` is the entry just allocated -/
theorem assignType_new {e : Details} {σ : State} (hi : Inv σ) {i : Nat} {d : Details}
    (hd : (assignType e σ).2.entry i = some d) (hge : σ.nextId ≤ i) : d = e := by
  have hc := assignType_cases e σ
  generalize assignType e σ = p at hc hd
  have hnone := hi.entry_none hge
  cases hc with
  | ref => rw [hnone] at hd; cases hd
  | nameHit => rw [hnone] at hd; cases hd
  | nameNew n _ _ _ =>
    rw [allocNamed_entry] at hd
    split at hd
    · cases hd; rfl
    · rw [hnone] at hd; cases hd
  | typeHit => rw [hnone] at hd; cases hd
  | typeNew _ _ _ =>
    rw [allocTyped_entry] at hd
    split at hd
    · cases hd; rfl
    · rw [hnone] at hd; cases hd

theorem tree_of_unnamed {e : Details} {σ' τ : State} {x : Tree} (hi : Inv σ') (hr : e.refTarget? = none)
    (hn : e.name? = none) (hk : Keeps (assignType e σ').2 τ)
    (hres : τ.entry (assignType e σ').1 = some e → Res τ (assignType e σ').1 x)
    (hint : intrinsicT x = hasIntrinsicDefault (some e)) :
    Res τ (assignType e σ').1 x ∧
      intrinsicT x = hasIntrinsicDefault ((assignType e σ').2.entry (assignType e σ').1) := by
  obtain ⟨d, hd, hde, _⟩ := assignType_entry (σ := σ') hi hr
  have : d = e := hde hn
  subst this
  refine ⟨hres ?_, by rw [hd]; exact hint⟩
  rcases hk _ _ hd with h | h
  · exact h
  · rw [finalizeEntry_unnamed hn] at h; exact h

theorem tree_of_named {e : Details} {σ' τ : State} {nm : Str} (hi : Inv σ') (hr : e.refTarget? = none)
    (hn : e.name? = some nm) (hk : Keeps (assignType e σ').2 τ) :
    Res τ (assignType e σ').1 (.named nm) ∧
      intrinsicT (.named nm) = hasIntrinsicDefault ((assignType e σ').2.entry (assignType e σ').1) := by
  obtain ⟨d, hd, _, hdn⟩ := assignType_entry (σ := σ') hi hr
  have hdn' := hdn nm hn
  refine ⟨?_, by rw [hd, named_not_intrinsic hdn']; rfl⟩
  rcases hk _ _ hd with h | h
  · exact .named h hdn'
  · exact .named h (by rw [finalizeEntry_name]; exact hdn')

/-! ### sorting commutes with resolution -/

theorem FieldsRes.insert {τ : State} {f : Field} {x : Tree} (hr : Res τ f.ty x) :
    ∀ {fs : List Field} {ts : List FieldT}, FieldsRes τ fs ts →
      FieldsRes τ (insertField f fs) (insertFieldT ⟨f.name, f.rename, f.required, x⟩ ts) := by
  intro fs ts h
  induction h with
  | nil => exact .cons hr .nil
  | cons hr' hf ih =>
    simp only [insertField, insertFieldT]
    split
    · exact .cons hr (.cons hr' hf)
    · exact .cons hr' ih

theorem FieldsRes.sort {τ : State} {fs : List Field} {ts : List FieldT} (h : FieldsRes τ fs ts) :
    FieldsRes τ (sortFields fs) (sortFieldTs ts) := by
  induction h with
  | nil => exact .nil
  | cons hr _ ih => exact FieldsRes.insert hr ih

/-! ### soundness of the conversion -/

/-- what a successful `convertLite f n s σ = (e, σ')` guarantees in every later state `τ` that keeps
    the entries and resolves the `$ref` keys to entries named by `rn` -/
structure Sound (rn : RefKey → Option Str) (f : Nat) (n : Name) (s : Sch) (σ σ' : State) (e : Details) :
    Prop where
  /-- the id `e` is assigned resolves to the denoted tree -/
  tree : ∀ τ, Keeps (assignType e σ').2 τ → RefNamed rn σ.refToId τ →
    ∃ x, treeOf rn f n s = some x ∧ Res τ (assignType e σ').1 x ∧
      intrinsicT x = hasIntrinsicDefault ((assignType e σ').2.entry (assignType e σ').1)
  /-- a named result has the denoted shape -/
  shape : ∀ nm, e.name? = some nm → ∀ τ, Keeps σ' τ → RefNamed rn σ.refToId τ →
    ∃ sh, shapeOf rn f n s = some sh ∧ ShapeOf τ e sh
  /-- every named entry created on the way is one of the denoted inline definitions -/
  new : ∀ i d m, σ.nextId ≤ i → σ'.entry i = some d → d.name? = some m → ∀ τ, Keeps σ' τ →
    RefNamed rn σ.refToId τ → ∃ sh, (m, sh) ∈ expected rn f n s ∧ ShapeOf τ d sh

/-- the conversion of a sub-schema followed by `assign_type`: what is new is denoted -/
theorem assigned_new {rn : RefKey → Option Str} {f : Nat} {n : Name} {s : Sch} {σ σ1 : State} {e1 : Details}
    (hs : Sound rn f n s σ σ1 e1) (hc : convertLite f n s σ = .ok (e1, σ1)) (hi : Inv σ)
    {i : Nat} {d : Details} {m : Str} (hge : σ.nextId ≤ i)
    (hd : (assignType e1 σ1).2.entry i = some d) (hm : d.name? = some m) {τ : State}
    (hk : Keeps (assignType e1 σ1).2 τ) (hrn : RefNamed rn σ.refToId τ) :
    ∃ sh, (m, sh) ∈ own rn f n s ++ expected rn f n s ∧ ShapeOf τ d sh := by
  obtain ⟨i1, _⟩ := convertLite_inv _ _ _ _ _ _ hc hi
  have hk1 : Keeps σ1 τ := (keeps_of_ext (assignType_ext e1 σ1) i1).trans hk
  by_cases hlt : i < σ1.nextId
  · rw [(assignType_ext e1 σ1).entry i hlt] at hd
    obtain ⟨sh, h1, h2⟩ := hs.new i d m hge hd hm τ hk1 hrn
    exact ⟨sh, List.mem_append_right _ h1, h2⟩
  · have := assignType_new i1 hd (Nat.le_of_not_lt hlt)
    subst this
    obtain ⟨sh, h1, h2⟩ := hs.shape m hm τ hk1 hrn
    refine ⟨sh, List.mem_append_left _ ?_, h2⟩
    simp [own, convertLite_topName hc hm, h1]

theorem propResult_sound {req : List Str} {pn : Str} {p : Nat × State} {fld : Field} {σ' τ : State} {x : Tree}
    (h : propResult req pn p = .ok (fld, σ')) (hi : Inv p.2)
    (hk : Keeps σ' τ) (hres : Res τ p.1 x) (hint : intrinsicT x = hasIntrinsicDefault (p.2.entry p.1)) :
    fld.name = (Names.recase pn .snake).1 ∧ fld.rename = (Names.recase pn .snake).2 ∧
    fld.required = decide (pn ∈ req) ∧ Res τ fld.ty (propTree req pn x) ∧
    (∀ i d m, p.2.nextId ≤ i → σ'.entry i = some d → d.name? = some m → False) := by
  unfold propResult at h
  dsimp only at h
  unfold propTree
  split at h
  · rename_i hreq
    simp only [R.ok.injEq, Prod.mk.injEq] at h
    obtain ⟨rfl, rfl⟩ := h
    refine ⟨rfl, rfl, by simp [hreq], by simp [hreq]; exact hres, fun i d m hge hd _ => ?_⟩
    rw [hi.entry_none hge] at hd; cases hd
  · rename_i hreq
    split at h
    · rename_i hin
      simp only [R.ok.injEq, Prod.mk.injEq] at h
      obtain ⟨rfl, rfl⟩ := h
      rw [hin] at hint
      refine ⟨rfl, rfl, by simp [hreq], by simp [hreq, hint]; exact hres, fun i d m hge hd _ => ?_⟩
      rw [hi.entry_none hge] at hd; cases hd
    · rename_i hin
      simp only [R.ok.injEq, Prod.mk.injEq] at h
      obtain ⟨rfl, rfl⟩ := h
      have hin' : hasIntrinsicDefault (p.2.entry p.1) = false := by
        cases hh : hasIntrinsicDefault (p.2.entry p.1) <;> simp_all
      rw [hin'] at hint
      refine ⟨rfl, rfl, by simp [hreq], ?_, fun i d m hge hd hm => ?_⟩
      · simp only [hreq, if_false, hint, Bool.false_eq_true]
        unfold idToOption at hk ⊢
        have ht := tree_of_unnamed (e := .option p.1) (x := .option x) hi rfl rfl hk
          (fun he => .option he hres) rfl
        exact ht.1
      · unfold idToOption at hd
        have := assignType_new hi hd hge
        subst this
        cases hm

theorem structProperty_sound {rn : RefKey → Option Str} {f : Nat}
    {rec : Name → Sch → State → R (Details × State)}
    (hinv : ∀ n s σ e σ', rec n s σ = .ok (e, σ') → Inv σ → Inv σ' ∧ ∀ c ∈ e.ids, c < σ'.nextId)
    (hext : ∀ n s σ e σ', rec n s σ = .ok (e, σ') → Ext σ σ')
    (hrec : ∀ n s σ e σ', rec n s σ = .ok (e, σ') → Inv σ →
      (∀ τ, Keeps (assignType e σ').2 τ → RefNamed rn σ.refToId τ →
        ∃ x, treeOf rn f n s = some x ∧ Res τ (assignType e σ').1 x ∧
          intrinsicT x = hasIntrinsicDefault ((assignType e σ').2.entry (assignType e σ').1)) ∧
      (∀ i d m, σ.nextId ≤ i → (assignType e σ').2.entry i = some d → d.name? = some m → ∀ τ,
        Keeps (assignType e σ').2 τ → RefNamed rn σ.refToId τ →
        ∃ sh, (m, sh) ∈ own rn f n s ++ expected rn f n s ∧ ShapeOf τ d sh))
    {base : Option Str} {req : List Str} {pn : Str} {s : Sch} {σ σ' : State} {fld : Field}
    (h : structProperty rec base req pn s σ = .ok (fld, σ')) (hi : Inv σ) :
    (∀ τ, Keeps σ' τ → RefNamed rn σ.refToId τ →
      ∃ x, fieldTOf rn f base req (pn, s) = some ⟨fld.name, fld.rename, fld.required, x⟩ ∧ Res τ fld.ty x) ∧
    (∀ i d m, σ.nextId ≤ i → σ'.entry i = some d → d.name? = some m → ∀ τ, Keeps σ' τ →
      RefNamed rn σ.refToId τ →
      ∃ sh, (m, sh) ∈ own rn f (propName base pn) s ++ expected rn f (propName base pn) s ∧ ShapeOf τ d sh) := by
  unfold structProperty at h
  split at h
  · cases h
  · rename_i e1 σ1 hr
    obtain ⟨i1, hids⟩ := hinv _ _ _ _ _ hr hi
    obtain ⟨i2, hlt⟩ := assignType_inv i1 hids
    obtain ⟨htree, hnew⟩ := hrec _ _ _ _ _ hr hi
    have hx2 := propResult_ext h
    have hk2 : Keeps (assignType e1 σ1).2 σ' := keeps_of_ext hx2 i2
    constructor
    · intro τ hk hrn
      obtain ⟨x, hx, hres, hint⟩ := htree τ (hk2.trans hk) hrn
      obtain ⟨a, b, c, d, _⟩ := propResult_sound h i2 hk hres hint
      refine ⟨propTree req pn x, ?_, d⟩
      simp only [fieldTOf, hx, Option.map_some, Option.some.injEq]
      rw [a, b, c]
    · intro i d m hge hd hm τ hk hrn
      obtain ⟨x, hx, hres, hint⟩ := htree τ (hk2.trans hk) hrn
      obtain ⟨_, _, _, _, hnone⟩ := propResult_sound h i2 hk hres hint
      by_cases hlt2 : i < (assignType e1 σ1).2.nextId
      · rw [hx2.entry i hlt2] at hd
        exact hnew i d m hge hd hm τ (hk2.trans hk) hrn
      · exact (hnone i d m (Nat.le_of_not_lt hlt2) hd hm).elim

theorem structMembers_sound {rn : RefKey → Option Str} {f : Nat}
    {rec : Name → Sch → State → R (Details × State)}
    (hinv : ∀ n s σ e σ', rec n s σ = .ok (e, σ') → Inv σ → Inv σ' ∧ ∀ c ∈ e.ids, c < σ'.nextId)
    (hext : ∀ n s σ e σ', rec n s σ = .ok (e, σ') → Ext σ σ')
    (hrec : ∀ n s σ e σ', rec n s σ = .ok (e, σ') → Inv σ →
      (∀ τ, Keeps (assignType e σ').2 τ → RefNamed rn σ.refToId τ →
        ∃ x, treeOf rn f n s = some x ∧ Res τ (assignType e σ').1 x ∧
          intrinsicT x = hasIntrinsicDefault ((assignType e σ').2.entry (assignType e σ').1)) ∧
      (∀ i d m, σ.nextId ≤ i → (assignType e σ').2.entry i = some d → d.name? = some m → ∀ τ,
        Keeps (assignType e σ').2 τ → RefNamed rn σ.refToId τ →
        ∃ sh, (m, sh) ∈ own rn f n s ++ expected rn f n s ∧ ShapeOf τ d sh))
    {base : Option Str} {req : List Str} : ∀ (ps : List (Str × Sch)) (σ σ' : State) (fs : List Field),
    structMembers rec base req ps σ = .ok (fs, σ') → Inv σ →
    (∀ τ, Keeps σ' τ → RefNamed rn σ.refToId τ →
      ∃ ts, fieldsTOf rn f base req ps = some ts ∧ FieldsRes τ fs ts) ∧
    (∀ i d m, σ.nextId ≤ i → σ'.entry i = some d → d.name? = some m → ∀ τ, Keeps σ' τ →
      RefNamed rn σ.refToId τ →
      ∃ sh, (m, sh) ∈ ps.flatMap (fun p => own rn f (propName base p.1) p.2
                                        ++ expected rn f (propName base p.1) p.2) ∧ ShapeOf τ d sh) := by
  intro ps
  induction ps with
  | nil =>
    intro σ σ' fs h hi
    simp only [structMembers, R.ok.injEq, Prod.mk.injEq] at h
    obtain ⟨rfl, rfl⟩ := h
    refine ⟨fun τ _ _ => ⟨[], rfl, .nil⟩, fun i d m hge hd _ => ?_⟩
    rw [hi.entry_none hge] at hd; cases hd
  | cons hd tl ih =>
    obtain ⟨pn, s⟩ := hd
    intro σ σ' fs h hi
    simp only [structMembers] at h
    split at h
    · cases h
    · rename_i fld σ1 hp
      split at h
      · cases h
      · rename_i fs' σ2 ht
        simp only [R.ok.injEq, Prod.mk.injEq] at h
        obtain ⟨rfl, rfl⟩ := h
        obtain ⟨i1, _⟩ := structProperty_inv hinv hp hi
        obtain ⟨hp1, hp2⟩ := structProperty_sound hinv hext hrec hp hi
        obtain ⟨ht1, ht2⟩ := ih _ _ _ ht i1
        have hx1 := structProperty_ext hext hp
        have hx2 := structMembers_ext hext _ _ _ _ ht
        have hk12 : Keeps σ1 σ2 := keeps_of_ext hx2 i1
        constructor
        · intro τ hk hrn
          obtain ⟨x, hf, hres⟩ := hp1 τ (hk12.trans hk) hrn
          obtain ⟨ts, hts, hfr⟩ := ht1 τ hk (by rw [hx1.ref]; exact hrn)
          refine ⟨_ :: ts, ?_, .cons hres hfr⟩
          simp only [fieldsTOf, hf, hts]
        · intro i d m hge hd hm τ hk hrn
          simp only [List.flatMap_cons, List.mem_append]
          by_cases hlt : i < σ1.nextId
          · rw [hx2.entry i hlt] at hd
            obtain ⟨sh, h1, h2⟩ := hp2 i d m hge hd hm τ (hk12.trans hk) hrn
            exact ⟨sh, Or.inl (List.mem_append.mp h1), h2⟩
          · obtain ⟨sh, h1, h2⟩ := ht2 i d m (Nat.le_of_not_lt hlt) hd hm τ hk (by rw [hx1.ref]; exact hrn)
            exact ⟨sh, Or.inr h1, h2⟩

theorem no_new_of_same {rn : RefKey → Option Str} {L : List (Str × Shape)} {σ : State} (hi : Inv σ) :
    ∀ i d m, σ.nextId ≤ i → σ.entry i = some d → d.name? = some m → ∀ τ, Keeps σ τ →
      RefNamed rn σ.refToId τ → ∃ sh, (m, sh) ∈ L ∧ ShapeOf τ d sh := by
  intro i d m hge hd
  rw [hi.entry_none hge] at hd; cases hd

/-- **soundness of the conversion** with respect to the state-free denotation -/
theorem convertLite_sound (rn : RefKey → Option Str) : ∀ (f : Nat) (n : Name) (s : Sch) (σ σ' : State)
    (e : Details), convertLite f n s σ = .ok (e, σ') → Inv σ → Sound rn f n s σ σ' e := by
  intro f
  induction f with
  | zero => intro n s σ σ' e h; simp [convertLite] at h
  | succ f ih =>
    intro n s σ σ' e h hi
    have hinv : ∀ n s σ e σ', convertLite f n s σ = .ok (e, σ') → Inv σ →
        Inv σ' ∧ ∀ c ∈ e.ids, c < σ'.nextId := fun n s σ e σ' h => convertLite_inv f n s σ σ' e h
    have hext : ∀ n s σ e σ', convertLite f n s σ = .ok (e, σ') → Ext σ σ' :=
      fun n s σ e σ' h => convertLite_ext f n s σ σ' e h
    have hrec : ∀ n s σ e σ', convertLite f n s σ = .ok (e, σ') → Inv σ →
        (∀ τ, Keeps (assignType e σ').2 τ → RefNamed rn σ.refToId τ →
          ∃ x, treeOf rn f n s = some x ∧ Res τ (assignType e σ').1 x ∧
            intrinsicT x = hasIntrinsicDefault ((assignType e σ').2.entry (assignType e σ').1)) ∧
        (∀ i d m, σ.nextId ≤ i → (assignType e σ').2.entry i = some d → d.name? = some m → ∀ τ,
          Keeps (assignType e σ').2 τ → RefNamed rn σ.refToId τ →
          ∃ sh, (m, sh) ∈ own rn f n s ++ expected rn f n s ∧ ShapeOf τ d sh) := by
      intro n s σ e σ' h hi
      have hs := ih n s σ σ' e h hi
      exact ⟨hs.tree, fun i d m hge hd hm τ hk hrn => assigned_new hs h hi hge hd hm hk hrn⟩
    cases s with
    | str t =>
      simp only [convertLite, R.ok.injEq, Prod.mk.injEq] at h
      obtain ⟨rfl, rfl⟩ := h
      refine ⟨fun τ hk _ => ⟨.string, rfl, ?_⟩, fun nm hn => (by cases hn), no_new_of_same hi⟩
      exact tree_of_unnamed hi rfl rfl hk (fun he => .string he) rfl
    | int t =>
      simp only [convertLite, R.ok.injEq, Prod.mk.injEq] at h
      obtain ⟨rfl, rfl⟩ := h
      refine ⟨fun τ hk _ => ⟨.integer "i64".toList, rfl, ?_⟩, fun nm hn => (by cases hn), no_new_of_same hi⟩
      exact tree_of_unnamed hi rfl rfl hk (fun he => .integer he) rfl
    | bool t =>
      simp only [convertLite, R.ok.injEq, Prod.mk.injEq] at h
      obtain ⟨rfl, rfl⟩ := h
      refine ⟨fun τ hk _ => ⟨.boolean, rfl, ?_⟩, fun nm hn => (by cases hn), no_new_of_same hi⟩
      exact tree_of_unnamed hi rfl rfl hk (fun he => .boolean he) rfl
    | ref t k =>
      simp only [convertLite] at h
      split at h
      · cases h
      · rename_i id hk'
        simp only [R.ok.injEq, Prod.mk.injEq] at h
        obtain ⟨rfl, rfl⟩ := h
        refine ⟨fun τ hk hrn => ?_, fun nm hn => (by cases hn), no_new_of_same hi⟩
        obtain ⟨d, nm, hd, hdn, hr⟩ := hrn k id hk'
        rw [assignType_of_ref σ (e := .reference id) rfl] at hk ⊢
        refine ⟨.named nm, by simp [treeOf, hr], .named hd hdn, ?_⟩
        cases hσ : σ.entry id with
        | none => rfl
        | some d0 =>
          have hd0 : d0.name? = some nm ∨ (finalizeEntry d0).name? = some nm := by
            rcases hk _ _ hσ with h1 | h1
            · rw [hd] at h1; cases h1; exact Or.inl hdn
            · rw [hd] at h1; cases h1; exact Or.inr hdn
          have : d0.name? = some nm := by
            rcases hd0 with h1 | h1
            · exact h1
            · rw [finalizeEntry_name] at h1; exact h1
          show intrinsicT (.named nm) = hasIntrinsicDefault (some d0)
          rw [named_not_intrinsic this]; rfl
    | arr t item =>
      simp only [convertLite] at h
      split at h
      · cases h
      · rename_i e1 σ1 h1
        simp only [R.ok.injEq, Prod.mk.injEq] at h
        obtain ⟨rfl, rfl⟩ := h
        obtain ⟨i1, hids⟩ := hinv _ _ _ _ _ h1 hi
        obtain ⟨i2, _⟩ := assignType_inv i1 hids
        obtain ⟨htree, hnew⟩ := hrec _ _ _ _ _ h1 hi
        refine ⟨fun τ hk hrn => ?_, fun nm hn => (by cases hn), fun i d m hge hd hm τ hk hrn => ?_⟩
        · have hk2 : Keeps (assignType e1 σ1).2 τ :=
            (keeps_of_ext (assignType_ext _ _) i2).trans hk
          obtain ⟨x, hx, hres, _⟩ := htree τ hk2 hrn
          refine ⟨.vec x, by simp [treeOf, hx], ?_⟩
          exact tree_of_unnamed i2 rfl rfl hk (fun he => .vec he hres) rfl
        · obtain ⟨sh, h2, h3⟩ := hnew i d m hge hd hm τ hk hrn
          exact ⟨sh, by simpa [expected] using h2, h3⟩
    | nullable inner =>
      simp only [convertLite] at h
      split at h
      · cases h
      · rename_i e1 σ1 h1
        simp only [R.ok.injEq, Prod.mk.injEq] at h
        obtain ⟨rfl, rfl⟩ := h
        obtain ⟨i1, hids⟩ := hinv _ _ _ _ _ h1 hi
        obtain ⟨i2, _⟩ := assignType_inv i1 hids
        obtain ⟨htree, hnew⟩ := hrec _ _ _ _ _ h1 hi
        refine ⟨fun τ hk hrn => ?_, fun nm hn => (by cases hn), fun i d m hge hd hm τ hk hrn => ?_⟩
        · have hk2 : Keeps (assignType e1 σ1).2 τ :=
            (keeps_of_ext (assignType_ext _ _) i2).trans hk
          obtain ⟨x, hx, hres, _⟩ := htree τ hk2 hrn
          refine ⟨.option x, by simp [treeOf, hx], ?_⟩
          exact tree_of_unnamed i2 rfl rfl hk (fun he => .option he hres) rfl
        · obtain ⟨sh, h2, h3⟩ := hnew i d m hge hd hm τ hk hrn
          exact ⟨sh, by simpa [expected] using h2, h3⟩
    | obj t props req closed =>
      simp only [convertLite] at h
      split at h
      · cases h
      · rename_i fs σ1 h1
        split at h
        · cases h
        · rename_i nm hnm
          simp only [R.ok.injEq, Prod.mk.injEq] at h
          obtain ⟨rfl, rfl⟩ := h
          obtain ⟨i1, _⟩ := structMembers_inv hext hinv _ _ _ _ h1 hi
          obtain ⟨hfields, hnew⟩ := structMembers_sound (rn := rn) (f := f) hinv hext hrec _ _ _ _ h1 hi
          refine ⟨fun τ hk _ => ⟨.named nm, by simp [treeOf, hnm], ?_⟩, fun nm' hn τ hk hrn => ?_,
            fun i d m hge hd hm τ hk hrn => ?_⟩
          · exact tree_of_named i1 rfl rfl hk
          · obtain ⟨ts, hts, hfr⟩ := hfields τ hk hrn
            exact ⟨.struct (sortFieldTs ts) closed, by simp [shapeOf, hts], .struct hfr.sort⟩
          · obtain ⟨sh, h2, h3⟩ := hnew i d m hge hd hm τ hk hrn
            exact ⟨sh, by simpa [expected] using h2, h3⟩
    | enumStr t vals =>
      simp only [convertLite] at h
      split at h
      · cases h
      · split at h
        · cases h
        · rename_i idents hv
          split at h
          · cases h
          · rename_i nm hnm
            simp only [R.ok.injEq, Prod.mk.injEq] at h
            obtain ⟨rfl, rfl⟩ := h
            refine ⟨fun τ hk _ => ⟨.named nm, by simp [treeOf, hnm], ?_⟩, fun nm' hn τ hk hrn => ?_,
              no_new_of_same hi⟩
            · exact tree_of_named hi rfl rfl hk
            · exact ⟨.enum (vals.zip idents), by simp [shapeOf, hv], .enum⟩

/-! ### every denoted name ends up bound -/

theorem HasName.ext {σ σ' : State} {m : Str} (h : HasName σ m) (hx : Ext σ σ') : HasName σ' m := by
  unfold HasName at h ⊢
  cases hl : alookup σ.nameToId m with
  | none => exact absurd hl h
  | some i => rw [hx.name m i hl]; simp

theorem assignType_binds {e : Details} {σ : State} {m : Str} (hr : e.refTarget? = none)
    (hn : e.name? = some m) : HasName (assignType e σ).2 m := by
  have hc := assignType_cases e σ
  generalize assignType e σ = p at hc ⊢
  unfold HasName
  cases hc with
  | ref t ht => rw [hr] at ht; cases ht
  | nameHit n i _ hn' hi => rw [hn] at hn'; cases hn'; rw [hi]; simp
  | nameNew n _ hn' _ =>
    rw [hn] at hn'; cases hn'
    show alookup ((m, σ.nextId) :: σ.nameToId) m ≠ none
    rw [alookup_cons_self]; simp
  | typeHit i _ hn' _ => rw [hn] at hn'; cases hn'
  | typeNew _ hn' _ => rw [hn] at hn'; cases hn'

/-- a schema with a `topName` converts to an entry of that name -/
theorem convertLite_name_of_top {f : Nat} {n : Name} {s : Sch} {σ σ' : State} {e : Details} {m : Str}
    (h : convertLite f n s σ = .ok (e, σ')) (ht : topName n s = some m) :
    e.name? = some m ∧ e.refTarget? = none := by
  cases f with
  | zero => simp [convertLite] at h
  | succ f =>
    cases s with
    | str t => cases ht
    | int t => cases ht
    | bool t => cases ht
    | ref t k => cases ht
    | arr t item => cases ht
    | nullable inner => cases ht
    | obj t props req closed =>
      simp only [convertLite] at h
      split at h
      · cases h
      · split at h
        · cases h
        · rename_i nm hnm
          simp only [R.ok.injEq, Prod.mk.injEq] at h
          rw [← h.1]
          simp only [topName] at ht
          rw [hnm] at ht; cases ht
          exact ⟨rfl, rfl⟩
    | enumStr t vals =>
      simp only [convertLite] at h
      split at h
      · cases h
      · split at h
        · cases h
        · split at h
          · cases h
          · rename_i nm hnm
            simp only [R.ok.injEq, Prod.mk.injEq] at h
            rw [← h.1]
            simp only [topName] at ht
            rw [hnm] at ht; cases ht
            exact ⟨rfl, rfl⟩

theorem structMembers_binds {rec : Name → Sch → State → R (Details × State)} {A : Name → Sch → List Str}
    (hext : ∀ n s σ e σ', rec n s σ = .ok (e, σ') → Ext σ σ')
    (hrec : ∀ n s σ e σ' m, rec n s σ = .ok (e, σ') → m ∈ A n s → HasName σ' m)
    (htop : ∀ n s σ e σ' m, rec n s σ = .ok (e, σ') → topName n s = some m →
      e.name? = some m ∧ e.refTarget? = none)
    {base : Option Str} {req : List Str} : ∀ (ps : List (Str × Sch)) (σ σ' : State) (fs : List Field) (m : Str),
    structMembers rec base req ps σ = .ok (fs, σ') →
    m ∈ ps.flatMap (fun p => (topName (propName base p.1) p.2).toList ++ A (propName base p.1) p.2) →
    HasName σ' m := by
  intro ps
  induction ps with
  | nil => intro σ σ' fs m _ hm; simp at hm
  | cons hd tl ih =>
    obtain ⟨pn, s⟩ := hd
    intro σ σ' fs m h hm
    simp only [structMembers] at h
    split at h
    · cases h
    · rename_i fld σ1 hp
      split at h
      · cases h
      · rename_i fs' σ2 ht
        simp only [R.ok.injEq, Prod.mk.injEq] at h
        rw [← h.2]
        simp only [List.flatMap_cons, List.mem_append] at hm
        rcases hm with hm | hm
        · refine HasName.ext ?_ (structMembers_ext hext _ _ _ _ ht)
          unfold structProperty at hp
          split at hp
          · cases hp
          · rename_i e σa hr
            refine HasName.ext ?_ (propResult_ext hp)
            rcases hm with hm | hm
            · have : topName (propName base pn) s = some m := by
                cases htp : topName (propName base pn) s with
                | none => rw [htp] at hm; simp at hm
                | some v => rw [htp] at hm; simp at hm; rw [hm]
              obtain ⟨h1, h2⟩ := htop _ _ _ _ _ _ hr this
              exact assignType_binds h2 h1
            · exact HasName.ext (hrec _ _ _ _ _ _ hr hm) (assignType_ext _ _)
        · exact ih _ _ _ m ht hm

/-- after a successful conversion every name of `assigned` is bound -/
theorem convertLite_binds : ∀ (f : Nat) (n : Name) (s : Sch) (σ σ' : State) (e : Details) (m : Str),
    convertLite f n s σ = .ok (e, σ') → m ∈ assigned f n s → HasName σ' m := by
  intro f
  induction f with
  | zero => intro n s σ σ' e m h; simp [convertLite] at h
  | succ f ih =>
    intro n s σ σ' e m h hm
    have ih' : ∀ n s σ e σ' m, convertLite f n s σ = .ok (e, σ') → m ∈ assigned f n s → HasName σ' m :=
      fun n s σ e σ' m h => ih n s σ σ' e m h
    have hext : ∀ n s σ e σ', convertLite f n s σ = .ok (e, σ') → Ext σ σ' :=
      fun n s σ e σ' h => convertLite_ext f n s σ σ' e h
    cases s with
    | str t => simp [assigned] at hm
    | int t => simp [assigned] at hm
    | bool t => simp [assigned] at hm
    | ref t k => simp [assigned] at hm
    | enumStr t vals => simp [assigned] at hm
    | arr t item =>
      simp only [convertLite] at h
      split at h
      · cases h
      · rename_i e1 σ1 h1
        simp only [R.ok.injEq, Prod.mk.injEq] at h
        rw [← h.2]
        simp only [assigned, List.mem_append] at hm
        rcases hm with hm | hm
        · have : topName (itemName n t) item = some m := by
            cases htp : topName (itemName n t) item with
            | none => rw [htp] at hm; simp at hm
            | some v => rw [htp] at hm; simp at hm; rw [hm]
          obtain ⟨a, b⟩ := convertLite_name_of_top h1 this
          exact assignType_binds b a
        · exact HasName.ext (ih' _ _ _ _ _ _ h1 hm) (assignType_ext _ _)
    | nullable inner =>
      simp only [convertLite] at h
      split at h
      · cases h
      · rename_i e1 σ1 h1
        simp only [R.ok.injEq, Prod.mk.injEq] at h
        rw [← h.2]
        simp only [assigned, List.mem_append] at hm
        rcases hm with hm | hm
        · have : topName (innerName n) inner = some m := by
            cases htp : topName (innerName n) inner with
            | none => rw [htp] at hm; simp at hm
            | some v => rw [htp] at hm; simp at hm; rw [hm]
          obtain ⟨a, b⟩ := convertLite_name_of_top h1 this
          exact assignType_binds b a
        · exact HasName.ext (ih' _ _ _ _ _ _ h1 hm) (assignType_ext _ _)
    | obj t props req closed =>
      simp only [convertLite] at h
      split at h
      · cases h
      · rename_i fs σ1 h1
        split at h
        · cases h
        · simp only [R.ok.injEq, Prod.mk.injEq] at h
          rw [← h.2]
          simp only [assigned] at hm
          exact structMembers_binds (A := assigned f) hext ih'
            (fun n s σ e σ' m h ht => convertLite_name_of_top h ht) _ _ _ _ m h1 hm

theorem own_name {rn : RefKey → Option Str} {f : Nat} {n : Name} {s : Sch} {m : Str} {sh : Shape}
    (h : (m, sh) ∈ own rn f n s) : topName n s = some m := by
  unfold own at h
  split at h
  · rename_i nm sh' h1 _
    simp only [List.mem_singleton, Prod.mk.injEq] at h
    rw [h.1]; exact h1
  · simp at h

/-- the names of `expected` are names of `assigned` -/
theorem expected_names (rn : RefKey → Option Str) : ∀ (f : Nat) (n : Name) (s : Sch) (m : Str) (sh : Shape),
    (m, sh) ∈ expected rn f n s → m ∈ assigned f n s := by
  intro f
  induction f with
  | zero => intro n s m sh h; simp [expected] at h
  | succ f ih =>
    intro n s m sh h
    cases s with
    | str t => simp [expected] at h
    | int t => simp [expected] at h
    | bool t => simp [expected] at h
    | ref t k => simp [expected] at h
    | enumStr t vals => simp [expected] at h
    | arr t item =>
      simp only [expected, List.mem_append] at h
      simp only [assigned, List.mem_append]
      rcases h with h | h
      · exact Or.inl (by rw [own_name h]; simp)
      · exact Or.inr (ih _ _ _ _ h)
    | nullable inner =>
      simp only [expected, List.mem_append] at h
      simp only [assigned, List.mem_append]
      rcases h with h | h
      · exact Or.inl (by rw [own_name h]; simp)
      · exact Or.inr (ih _ _ _ _ h)
    | obj t props req closed =>
      simp only [expected, List.mem_flatMap, List.mem_append] at h
      simp only [assigned, List.mem_flatMap, List.mem_append]
      obtain ⟨p, hp, h⟩ := h
      refine ⟨p, hp, ?_⟩
      rcases h with h | h
      · exact Or.inl (by rw [own_name h]; simp)
      · exact Or.inr (ih _ _ _ _ h)

end TypifyModel.Space

import TypifyModel.Model.SpaceSM
/-! C16 helpers: association lists, the extension order `Ext` on states (everything that exists is
    kept: entries below `nextId`, index bindings, `ref_to_id`), and the fact that the conversion
    (`assignType`, `convertLite`, `idForSchema`) only ever extends the state — the `Ext` half of
    DESIGN.md Appendix C's `convert_spec`. -/
set_option autoImplicit false
namespace TypifyModel.Space
open TypifyModel.Names (Str)

theorem alookup_cons_self {α β : Type} [DecidableEq α] (k : α) (v : β) (l : List (α × β)) :
    alookup ((k, v) :: l) k = some v := by simp [alookup]

theorem alookup_cons_ne {α β : Type} [DecidableEq α] {k x : α} (v : β) (l : List (α × β)) (h : k ≠ x) :
    alookup ((k, v) :: l) x = alookup l x := by simp [alookup, h]

theorem alookup_cons {α β : Type} [DecidableEq α] (k x : α) (v : β) (l : List (α × β)) :
    alookup ((k, v) :: l) x = if k = x then some v else alookup l x := rfl

theorem entry_setEntry (σ : State) (i j : Nat) (e : Details) :
    (σ.setEntry i e).entry j = if i = j then some e else σ.entry j := rfl

theorem mem_insertField {x a : Field} : ∀ {l : List Field}, a ∈ insertField x l ↔ a = x ∨ a ∈ l := by
  intro l
  induction l with
  | nil => simp [insertField]
  | cons y ys ih =>
    simp only [insertField]
    split
    · simp
    · simp only [List.mem_cons, ih]
      constructor
      · rintro (h | h | h)
        · exact Or.inr (Or.inl h)
        · exact Or.inl h
        · exact Or.inr (Or.inr h)
      · rintro (h | h | h)
        · exact Or.inr (Or.inl h)
        · exact Or.inl h
        · exact Or.inr (Or.inr h)

theorem mem_sortFields {a : Field} : ∀ {l : List Field}, a ∈ sortFields l ↔ a ∈ l := by
  intro l
  induction l with
  | nil => simp [sortFields]
  | cons x xs ih => simp only [sortFields, mem_insertField, ih, List.mem_cons]

/-- extension: everything that exists is kept -/
structure Ext (σ σ' : State) : Prop where
  next : σ.nextId ≤ σ'.nextId
  entry : ∀ i, i < σ.nextId → σ'.entry i = σ.entry i
  name : ∀ n i, alookup σ.nameToId n = some i → alookup σ'.nameToId n = some i
  type : ∀ d i, alookup σ.typeToId d = some i → alookup σ'.typeToId d = some i
  ref : σ'.refToId = σ.refToId
  defs : σ'.definitions = σ.definitions

theorem Ext.refl (σ : State) : Ext σ σ :=
  ⟨Nat.le_refl _, fun _ _ => rfl, fun _ _ h => h, fun _ _ h => h, rfl, rfl⟩

theorem Ext.trans {a b c : State} (h1 : Ext a b) (h2 : Ext b c) : Ext a c where
  next := Nat.le_trans h1.next h2.next
  entry := fun i hi => by rw [h2.entry i (Nat.lt_of_lt_of_le hi h1.next), h1.entry i hi]
  name := fun n i h => h2.name n i (h1.name n i h)
  type := fun d i h => h2.type d i (h1.type d i h)
  ref := by rw [h2.ref, h1.ref]
  defs := by rw [h2.defs, h1.defs]

/-- the state after allocating `next_id` for entry `e`, registered by name -/
def allocNamed (σ : State) (n : Str) (e : Details) : State :=
  { σ with nextId := σ.nextId + 1, nameToId := (n, σ.nextId) :: σ.nameToId,
           idToEntry := (σ.nextId, e) :: σ.idToEntry }

/-- the state after allocating `next_id` for entry `e`, registered by structure -/
def allocTyped (σ : State) (e : Details) : State :=
  { σ with nextId := σ.nextId + 1, typeToId := (e, σ.nextId) :: σ.typeToId,
           idToEntry := (σ.nextId, e) :: σ.idToEntry }

/-- the five outcomes of `assign_type` -/
inductive AssignCase (e : Details) (σ : State) : Nat × State → Prop
  | ref (t : Nat) : e.refTarget? = some t → AssignCase e σ (t, σ)
  | nameHit (n : Str) (i : Nat) : e.refTarget? = none → e.name? = some n →
      alookup σ.nameToId n = some i → AssignCase e σ (i, σ)
  | nameNew (n : Str) : e.refTarget? = none → e.name? = some n →
      alookup σ.nameToId n = none → AssignCase e σ (σ.nextId, allocNamed σ n e)
  | typeHit (i : Nat) : e.refTarget? = none → e.name? = none →
      alookup σ.typeToId e = some i → AssignCase e σ (i, σ)
  | typeNew : e.refTarget? = none → e.name? = none →
      alookup σ.typeToId e = none → AssignCase e σ (σ.nextId, allocTyped σ e)

theorem assignType_cases (e : Details) (σ : State) : AssignCase e σ (assignType e σ) := by
  unfold assignType
  split
  · rename_i t ht; exact .ref t ht
  · rename_i hr
    split
    · rename_i n hn
      split
      · rename_i i hi; exact .nameHit n i hr hn hi
      · rename_i hi; exact .nameNew n hr hn hi
    · rename_i hn
      split
      · rename_i i hi; exact .typeHit i hr hn hi
      · rename_i hi; exact .typeNew hr hn hi

theorem allocNamed_ext (σ : State) (n : Str) (e : Details) (h : alookup σ.nameToId n = none) :
    Ext σ (allocNamed σ n e) where
  next := Nat.le_succ _
  entry := fun i hi => by
    show alookup ((σ.nextId, e) :: σ.idToEntry) i = alookup σ.idToEntry i
    exact alookup_cons_ne _ _ (Nat.ne_of_gt hi)
  name := fun m i hm => by
    show alookup ((n, σ.nextId) :: σ.nameToId) m = some i
    rw [alookup_cons]
    split
    · rename_i hnm; subst hnm; rw [h] at hm; cases hm
    · exact hm
  type := fun _ _ h => h
  ref := rfl
  defs := rfl

theorem allocTyped_ext (σ : State) (e : Details) (h : alookup σ.typeToId e = none) :
    Ext σ (allocTyped σ e) where
  next := Nat.le_succ _
  entry := fun i hi => by
    show alookup ((σ.nextId, e) :: σ.idToEntry) i = alookup σ.idToEntry i
    exact alookup_cons_ne _ _ (Nat.ne_of_gt hi)
  name := fun _ _ h => h
  type := fun d i hd => by
    show alookup ((e, σ.nextId) :: σ.typeToId) d = some i
    rw [alookup_cons]
    split
    · rename_i hed; subst hed; rw [h] at hd; cases hd
    · exact hd
  ref := rfl
  defs := rfl

theorem assignType_ext (e : Details) (σ : State) : Ext σ (assignType e σ).2 := by
  have hc := assignType_cases e σ
  generalize assignType e σ = p at hc ⊢
  cases hc with
  | ref => exact Ext.refl σ
  | nameHit => exact Ext.refl σ
  | nameNew n _ _ h => exact allocNamed_ext σ n e h
  | typeHit => exact Ext.refl σ
  | typeNew _ _ h => exact allocTyped_ext σ e h

/-! ### conversion only extends -/

theorem propResult_ext {req : List Str} {pn : Str} {p : Nat × State} {fld : Field} {σ' : State}
    (h : propResult req pn p = .ok (fld, σ')) : Ext p.2 σ' := by
  unfold propResult at h
  dsimp only at h
  split at h
  · simp only [R.ok.injEq, Prod.mk.injEq] at h
    rw [← h.2]; exact Ext.refl _
  · split at h
    · simp only [R.ok.injEq, Prod.mk.injEq] at h
      rw [← h.2]; exact Ext.refl _
    · simp only [R.ok.injEq, Prod.mk.injEq] at h
      rw [← h.2]
      exact assignType_ext _ _

theorem structProperty_ext {rec : Name → Sch → State → R (Details × State)}
    (hrec : ∀ n s σ e σ', rec n s σ = .ok (e, σ') → Ext σ σ')
    {base : Option Str} {req : List Str} {pn : Str} {s : Sch} {σ σ' : State} {fld : Field}
    (h : structProperty rec base req pn s σ = .ok (fld, σ')) : Ext σ σ' := by
  unfold structProperty at h
  split at h
  · cases h
  · rename_i e σ1 hr
    exact ((hrec _ _ _ _ _ hr).trans (assignType_ext e σ1)).trans (propResult_ext h)

theorem structMembers_ext {rec : Name → Sch → State → R (Details × State)}
    (hrec : ∀ n s σ e σ', rec n s σ = .ok (e, σ') → Ext σ σ')
    {base : Option Str} {req : List Str} : ∀ (ps : List (Str × Sch)) (σ σ' : State) (fs : List Field),
    structMembers rec base req ps σ = .ok (fs, σ') → Ext σ σ' := by
  intro ps
  induction ps with
  | nil =>
    intro σ σ' fs h
    simp only [structMembers, R.ok.injEq, Prod.mk.injEq] at h
    rw [← h.2]; exact Ext.refl σ
  | cons hd tl ih =>
    obtain ⟨pn, s⟩ := hd
    intro σ σ' fs h
    simp only [structMembers] at h
    split at h
    · cases h
    · rename_i fld σ1 hp
      split at h
      · cases h
      · rename_i fs' σ2 ht
        simp only [R.ok.injEq, Prod.mk.injEq] at h
        rw [← h.2]
        exact (structProperty_ext hrec hp).trans (ih _ _ _ ht)

theorem convertLite_ext : ∀ (f : Nat) (n : Name) (s : Sch) (σ σ' : State) (e : Details),
    convertLite f n s σ = .ok (e, σ') → Ext σ σ' := by
  intro f
  induction f with
  | zero => intro n s σ σ' e h; simp [convertLite] at h
  | succ f ih =>
    intro n s σ σ' e h
    have ih' : ∀ n s σ e σ', convertLite f n s σ = .ok (e, σ') → Ext σ σ' :=
      fun n s σ e σ' h => ih n s σ σ' e h
    cases s with
    | str t => simp only [convertLite, R.ok.injEq, Prod.mk.injEq] at h; rw [← h.2]; exact Ext.refl σ
    | int t => simp only [convertLite, R.ok.injEq, Prod.mk.injEq] at h; rw [← h.2]; exact Ext.refl σ
    | bool t => simp only [convertLite, R.ok.injEq, Prod.mk.injEq] at h; rw [← h.2]; exact Ext.refl σ
    | ref t k =>
      simp only [convertLite] at h
      split at h
      · cases h
      · simp only [R.ok.injEq, Prod.mk.injEq] at h; rw [← h.2]; exact Ext.refl σ
    | arr t item =>
      simp only [convertLite] at h
      split at h
      · cases h
      · rename_i e1 σ1 h1
        simp only [R.ok.injEq, Prod.mk.injEq] at h
        rw [← h.2]; exact (ih' _ _ _ _ _ h1).trans (assignType_ext _ _)
    | nullable inner =>
      simp only [convertLite] at h
      split at h
      · cases h
      · rename_i e1 σ1 h1
        simp only [R.ok.injEq, Prod.mk.injEq] at h
        rw [← h.2]; exact (ih' _ _ _ _ _ h1).trans (assignType_ext _ _)
    | obj t props req closed =>
      simp only [convertLite] at h
      split at h
      · cases h
      · rename_i fs σ1 h1
        split at h
        · cases h
        · simp only [R.ok.injEq, Prod.mk.injEq] at h
          rw [← h.2]; exact structMembers_ext ih' _ _ _ _ h1
    | enumStr t vals =>
      simp only [convertLite] at h
      split at h
      · cases h
      · split at h
        · cases h
        · split at h
          · cases h
          · simp only [R.ok.injEq, Prod.mk.injEq] at h; rw [← h.2]; exact Ext.refl σ

theorem idForSchema_ext {fuel : Nat} {n : Name} {s : Sch} {σ σ' : State} {id : Nat}
    (h : idForSchema fuel n s σ = .ok (id, σ')) : Ext σ σ' := by
  unfold idForSchema at h
  split at h
  · cases h
  · rename_i e σ1 h1
    simp only [R.ok.injEq] at h
    have := assignType_ext e σ1
    rw [h] at this
    exact (convertLite_ext _ _ _ _ _ _ h1).trans this

/-! ### the finalize loop touches only the ids it is given and only `id_to_entry` -/

/-- same state up to the contents of `id_to_entry` -/
structure SameIdx (σ σ' : State) : Prop where
  next : σ'.nextId = σ.nextId
  name : σ'.nameToId = σ.nameToId
  type : σ'.typeToId = σ.typeToId
  ref : σ'.refToId = σ.refToId
  defs : σ'.definitions = σ.definitions

theorem SameIdx.refl (σ : State) : SameIdx σ σ := ⟨rfl, rfl, rfl, rfl, rfl⟩

theorem SameIdx.trans {a b c : State} (h1 : SameIdx a b) (h2 : SameIdx b c) : SameIdx a c :=
  ⟨by rw [h2.next, h1.next], by rw [h2.name, h1.name], by rw [h2.type, h1.type],
   by rw [h2.ref, h1.ref], by rw [h2.defs, h1.defs]⟩

theorem setEntry_sameIdx (σ : State) (i : Nat) (e : Details) : SameIdx σ (σ.setEntry i e) :=
  ⟨rfl, rfl, rfl, rfl, rfl⟩

theorem finalizeIds_spec : ∀ (l : List Nat) (σ σ' : State), finalizeIds l σ = .ok σ' →
    SameIdx σ σ' ∧ (∀ i, i ∉ l → σ'.entry i = σ.entry i) ∧
    (∀ i, σ'.entry i = σ.entry i ∨ σ'.entry i = (σ.entry i).map finalizeEntry) := by
  intro l
  induction l with
  | nil =>
    intro σ σ' h
    simp only [finalizeIds, R.ok.injEq] at h
    subst h
    exact ⟨SameIdx.refl _, fun _ _ => rfl, fun _ => Or.inl rfl⟩
  | cons a r ih =>
    intro σ σ' h
    simp only [finalizeIds] at h
    split at h
    · cases h
    · rename_i e he
      obtain ⟨h1, h2, h3⟩ := ih _ _ h
      refine ⟨(setEntry_sameIdx σ a _).trans h1, ?_, ?_⟩
      · intro i hi
        rw [h2 i (fun hm => hi (List.mem_cons_of_mem _ hm)), entry_setEntry]
        have : a ≠ i := fun hai => hi (by rw [hai]; exact List.mem_cons_self)
        simp [this]
      · intro i
        have hfin : finalizeEntry (finalizeEntry e) = finalizeEntry e := by
          cases e <;> simp [finalizeEntry]
        rcases h3 i with h | h
        · rw [h, entry_setEntry]
          by_cases hai : a = i
          · subst hai; right; simp [he]
          · left; simp [hai]
        · rw [h, entry_setEntry]
          by_cases hai : a = i
          · subst hai; right; simp [he, hfin]
          · right; simp [hai]

theorem finalizeFrom_spec {base : Nat} {σ σ' : State} (h : finalizeFrom base σ = .ok σ') :
    SameIdx σ σ' ∧ (∀ i, i < base → σ'.entry i = σ.entry i) ∧
    (∀ i, σ'.entry i = σ.entry i ∨ σ'.entry i = (σ.entry i).map finalizeEntry) := by
  obtain ⟨h1, h2, h3⟩ := finalizeIds_spec _ _ _ h
  refine ⟨h1, fun i hi => h2 i ?_, h3⟩
  intro hm
  obtain ⟨j, _, hj⟩ := List.mem_range'.mp hm
  have : base ≤ i := by rw [hj]; exact Nat.le_add_right _ _
  exact absurd hi (Nat.not_lt.mpr this)

end TypifyModel.Space

import TypifyModel.Proofs.Lemmas.ContainBasic
/-! `contained` is reflexive on documents whose objects have distinct keys, and `prune` keeps that
    shape (C03: containment, the `serde_json::Value` arm where the document is handed back as is). -/
namespace TypifyModel.Contain
open TypifyModel TypifyModel.Serde TypifyModel.RoundTrip

mutual
theorem contained_refl : ∀ (j : Json), wfJ j = true → contained j j = true
  | .null, _ => by simp [contained, scalarEq]
  | .bool _, _ => by simp [contained, scalarEq]
  | .int _, _ => by simp [contained, scalarEq]
  | .flt _ _, _ => by simp [contained, scalarEq]
  | .str _, _ => by simp [contained, scalarEq]
  | .arr xs, h => by
    simp only [wfJ] at h
    simp only [contained]
    exact containedList_refl xs h
  | .obj kvs, h => by
    simp only [wfJ, Bool.and_eq_true] at h
    simp only [contained]
    exact containedObj_refl kvs kvs (fun kv hkv => lookup_of_mem h.1 hkv) h.2
theorem containedList_refl : ∀ (xs : List Json), wfList xs = true → containedList xs xs = true
  | [], _ => by simp [containedList]
  | x :: r, h => by
    simp only [wfList, Bool.and_eq_true] at h
    simp only [containedList, Bool.and_eq_true]
    exact ⟨contained_refl x h.1, containedList_refl r h.2⟩
theorem containedObj_refl : ∀ (r whole : List (String × Json)),
    (∀ kv ∈ r, Json.lookup whole kv.1 = some kv.2) → wfObj r = true → containedObj r whole = true
  | [], _, _, _ => by simp [containedObj]
  | (k, v) :: r, whole, hl, h => by
    simp only [wfObj, Bool.and_eq_true] at h
    simp only [containedObj, Bool.and_eq_true]
    refine ⟨?_, containedObj_refl r whole (fun kv hkv => hl kv (List.mem_cons_of_mem _ hkv)) h.2⟩
    have := hl (k, v) (by simp)
    simp only at this
    rw [this]
    exact contained_refl v h.1
end

mutual
theorem wfJ_prune : ∀ (j : Json), wfJ j = true → wfJ (prune j) = true
  | .null, _ => by simp [prune, wfJ]
  | .bool _, _ => by simp [prune, wfJ]
  | .int _, _ => by simp [prune, wfJ]
  | .flt _ _, _ => by simp [prune, wfJ]
  | .str _, _ => by simp [prune, wfJ]
  | .arr xs, h => by
    simp only [wfJ] at h
    simp only [prune, wfJ]
    exact wfList_prune xs h
  | .obj kvs, h => by
    simp only [wfJ, Bool.and_eq_true] at h
    simp only [prune, wfJ, Bool.and_eq_true]
    exact ⟨nodupKeys_pruneObj h.1, wfObj_prune kvs h.2⟩
theorem wfList_prune : ∀ (xs : List Json), wfList xs = true → wfList (pruneList xs) = true
  | [], _ => by simp [pruneList, wfList]
  | x :: r, h => by
    simp only [wfList, Bool.and_eq_true] at h
    simp only [pruneList, wfList, Bool.and_eq_true]
    exact ⟨wfJ_prune x h.1, wfList_prune r h.2⟩
theorem wfObj_prune : ∀ (kvs : List (String × Json)), wfObj kvs = true → wfObj (pruneObj kvs) = true
  | [], _ => by simp [pruneObj, wfObj]
  | (k, v) :: r, h => by
    simp only [wfObj, Bool.and_eq_true] at h
    simp only [pruneObj]
    split
    · exact wfObj_prune r h.2
    · simp only [wfObj, Bool.and_eq_true]
      exact ⟨wfJ_prune v h.1, wfObj_prune r h.2⟩
end

/-- a pruned document contains itself -/
theorem contained_prune_self {j : Json} (h : wfJ j = true) : contained (prune j) (prune j) = true :=
  contained_refl _ (wfJ_prune j h)

end TypifyModel.Contain

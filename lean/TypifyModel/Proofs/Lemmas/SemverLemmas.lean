import TypifyModel.Model.Semver
/-! Helper lemmas for C13: the comparison functions of `Model/Semver.lean` are strict total orders
    (`eq ↔ =`, `gt ↔ swapped lt`, transitivity). -/
namespace TypifyModel.Semver

/-! ### cmpNat -/
theorem cmpNat_eq {a b : Nat} : cmpNat a b = .eq ↔ a = b := by
  unfold cmpNat; by_cases h1 : a < b <;> by_cases h2 : b < a <;> simp [h1, h2] <;> omega
theorem cmpNat_lt {a b : Nat} : cmpNat a b = .lt ↔ a < b := by
  unfold cmpNat; by_cases h1 : a < b <;> by_cases h2 : b < a <;> simp [h1, h2] <;> omega
theorem cmpNat_gt {a b : Nat} : cmpNat a b = .gt ↔ b < a := by
  unfold cmpNat; by_cases h1 : a < b <;> by_cases h2 : b < a <;> simp [h1, h2] <;> omega

/-! ### cmpChars -/
theorem cmpChars_eq : ∀ {a b : List Char}, cmpChars a b = .eq ↔ a = b
  | [], [] => by simp [cmpChars]
  | [], _ :: _ => by simp [cmpChars]
  | _ :: _, [] => by simp [cmpChars]
  | a :: as, b :: bs => by
    unfold cmpChars
    split
    · rename_i h; simp; intro e; subst e; omega
    · split
      · rename_i h; simp; intro e; subst e; omega
      · rename_i h1 h2
        have : a = b := Char.toNat_inj.mp (by omega)
        subst this; simp [cmpChars_eq (a := as) (b := bs)]

theorem cmpChars_gt : ∀ {a b : List Char}, cmpChars a b = .gt ↔ cmpChars b a = .lt
  | [], [] => by simp [cmpChars]
  | [], _ :: _ => by simp [cmpChars]
  | _ :: _, [] => by simp [cmpChars]
  | a :: as, b :: bs => by
    unfold cmpChars
    by_cases h1 : a.toNat < b.toNat
    · have : ¬ b.toNat < a.toNat := by omega
      simp [h1, this]
    · by_cases h2 : b.toNat < a.toNat
      · simp [h1, h2]
      · simp [h1, h2, cmpChars_gt (a := as) (b := bs)]

theorem cmpChars_trans : ∀ {a b c : List Char},
    cmpChars a b = .lt → cmpChars b c = .lt → cmpChars a c = .lt
  | [], [], _ => by simp [cmpChars]
  | [], _ :: _, [] => by simp [cmpChars]
  | [], _ :: _, _ :: _ => by simp [cmpChars]
  | _ :: _, [], _ => by simp [cmpChars]
  | _ :: _, _ :: _, [] => by simp [cmpChars]
  | a :: as, b :: bs, c :: cs => by
    unfold cmpChars
    intro h1 h2
    by_cases ab : a.toNat < b.toNat
    · by_cases bc : b.toNat < c.toNat
      · have : a.toNat < c.toNat := by omega
        simp [this]
      · by_cases cb : c.toNat < b.toNat
        · simp [bc, cb] at h2
        · have : a.toNat < c.toNat := by omega
          simp [this]
    · by_cases ba : b.toNat < a.toNat
      · simp [ab, ba] at h1
      · simp [ab, ba] at h1
        by_cases bc : b.toNat < c.toNat
        · have : a.toNat < c.toNat := by omega
          simp [this]
        · by_cases cb : c.toNat < b.toNat
          · simp [bc, cb] at h2
          · simp [bc, cb] at h2
            have e1 : ¬ a.toNat < c.toNat := by omega
            have e2 : ¬ c.toNat < a.toNat := by omega
            simp [e1, e2]
            exact cmpChars_trans h1 h2

/-! ### cmpIdent -/
theorem cmpIdent_eq {a b : Ident} : cmpIdent a b = .eq ↔ a = b := by
  cases a <;> cases b <;> simp [cmpIdent, cmpNat_eq, cmpChars_eq]

theorem cmpIdent_gt {a b : Ident} : cmpIdent a b = .gt ↔ cmpIdent b a = .lt := by
  cases a <;> cases b <;> simp [cmpIdent, cmpNat_gt, cmpNat_lt, cmpChars_gt]

theorem cmpIdent_trans {a b c : Ident} :
    cmpIdent a b = .lt → cmpIdent b c = .lt → cmpIdent a c = .lt := by
  cases a <;> cases b <;> cases c <;> simp [cmpIdent, cmpNat_lt]
  · omega
  · exact cmpChars_trans

theorem cmpIdent_cases (a b : Ident) :
    cmpIdent a b = .lt ∨ (cmpIdent a b = .eq ∧ a = b) ∨ cmpIdent a b = .gt := by
  cases h : cmpIdent a b
  · exact .inl rfl
  · exact .inr (.inl ⟨rfl, cmpIdent_eq.mp h⟩)
  · exact .inr (.inr rfl)

theorem cmpIdent_refl (a : Ident) : cmpIdent a a = .eq := cmpIdent_eq.mpr rfl

/-! ### cmpIdents -/
theorem cmpIdents_eq : ∀ {a b : Pre}, cmpIdents a b = .eq ↔ a = b
  | [], [] => by simp [cmpIdents]
  | [], _ :: _ => by simp [cmpIdents]
  | _ :: _, [] => by simp [cmpIdents]
  | a :: as, b :: bs => by
    unfold cmpIdents
    rcases cmpIdent_cases a b with h | ⟨h, e⟩ | h
    · rw [h]; simp; intro e; subst e; simp [cmpIdent_refl] at h
    · rw [h]; subst e; simp [cmpIdents_eq (a := as) (b := bs)]
    · rw [h]; simp; intro e; subst e; simp [cmpIdent_refl] at h

theorem cmpIdents_gt : ∀ {a b : Pre}, cmpIdents a b = .gt ↔ cmpIdents b a = .lt
  | [], [] => by simp [cmpIdents]
  | [], _ :: _ => by simp [cmpIdents]
  | _ :: _, [] => by simp [cmpIdents]
  | a :: as, b :: bs => by
    unfold cmpIdents
    rcases cmpIdent_cases a b with h | ⟨h, e⟩ | h
    · have h' := cmpIdent_gt.mpr h
      rw [h, h']; simp
    · subst e; rw [h]; simp [cmpIdents_gt (a := as) (b := bs)]
    · have h' := cmpIdent_gt.mp h
      rw [h, h']; simp

theorem cmpIdents_trans : ∀ {a b c : Pre},
    cmpIdents a b = .lt → cmpIdents b c = .lt → cmpIdents a c = .lt
  | [], [], _ => by simp [cmpIdents]
  | [], _ :: _, [] => by simp [cmpIdents]
  | [], _ :: _, _ :: _ => by simp [cmpIdents]
  | _ :: _, [], _ => by simp [cmpIdents]
  | _ :: _, _ :: _, [] => by simp [cmpIdents]
  | a :: as, b :: bs, c :: cs => by
    unfold cmpIdents
    intro h1 h2
    rcases cmpIdent_cases a b with ab | ⟨ab, e⟩ | ab
    · rcases cmpIdent_cases b c with bc | ⟨bc, e⟩ | bc
      · rw [cmpIdent_trans ab bc]
      · subst e; rw [ab]
      · rw [bc] at h2; simp at h2
    · subst e
      rw [ab] at h1; simp at h1
      rcases cmpIdent_cases a c with ac | ⟨ac, e⟩ | ac
      · rw [ac]
      · subst e; rw [ac] at h2 ⊢; simp at h2 ⊢; exact cmpIdents_trans h1 h2
      · rw [ac] at h2; simp at h2
    · rw [ab] at h1; simp at h1

/-! ### cmpPre -/
theorem cmpPre_eq {a b : Pre} : cmpPre a b = .eq ↔ a = b := by
  cases a <;> cases b <;> simp [cmpPre]
  exact cmpIdents_eq.trans (by simp)

theorem cmpPre_gt {a b : Pre} : cmpPre a b = .gt ↔ cmpPre b a = .lt := by
  cases a <;> cases b <;> simp [cmpPre]
  exact cmpIdents_gt

theorem cmpPre_trans {a b c : Pre} :
    cmpPre a b = .lt → cmpPre b c = .lt → cmpPre a c = .lt := by
  cases a <;> cases b <;> cases c <;> simp [cmpPre]
  exact cmpIdents_trans

theorem cmpPre_refl (a : Pre) : cmpPre a a = .eq := cmpPre_eq.mpr rfl

/-- `ver.pre >= cmp.pre` as "less or equal" the other way round -/
theorem cmpPre_ne_lt {a b : Pre} : cmpPre a b ≠ .lt ↔ (cmpPre b a = .lt ∨ b = a) := by
  cases h : cmpPre a b
  · simp
    have : ¬ cmpPre b a = .lt := by
      intro h'; have := cmpPre_trans h h'; rw [cmpPre_refl] at this; cases this
    refine ⟨this, ?_⟩
    intro e; subst e; rw [cmpPre_refl] at h; cases h
  · simp; right; exact (cmpPre_eq.mp h).symm
  · simp; left; exact cmpPre_gt.mp h

/-! ### the parser only builds comparators of the shapes the specification covers -/
theorem parseMinor_none {dflt op0 text hw op t} (h : parseMinor dflt op0 text = some (none, hw, op, t)) :
    hw = true ∨ (t = text ∧ ∀ r, text ≠ '.' :: r) := by
  unfold parseMinor at h
  split at h
  · split at h
    · simp at h; left; exact h.1
    · split at h <;> simp at h
  · rename_i hne
    simp at h
    right; exact ⟨h.2.2.symm, fun r e => hne r e⟩

theorem parsePatch_some {dflt hw op1 text pa op t} (h : parsePatch dflt hw op1 text = some (some pa, op, t)) :
    hw = false ∧ ∃ r, text = '.' :: r := by
  unfold parsePatch at h
  split at h
  · split at h
    · simp at h
    · split at h
      · cases h
      · rename_i hh
        exact ⟨by simpa using hh, _, rfl⟩
  · simp at h

theorem parsePreOpt_none {text p t} (h : parsePreOpt none text = some (p, t)) : p = [] := by
  unfold parsePreOpt at h
  simp at h; exact h.1

theorem parseComparator_shape {s : List Char} {c : Comparator} {rest : List Char}
    (h : parseComparator s = some (c, rest)) :
    (c.minor = none → c.patch = none) ∧ (c.patch = none → c.pre = []) := by
  unfold parseComparator at h
  split at h
  rename_i op0 dflt text0 _
  split at h
  · cases h
  rename_i major text1 _
  split at h
  · cases h
  rename_i minor hw op1 text2 hmin
  split at h
  · cases h
  rename_i patch op text3 hpat
  split at h
  · cases h
  rename_i pre text4 hpre
  split at h
  · cases h
  rename_i text5 _
  cases h
  refine ⟨?_, ?_⟩
  · intro hm
    simp only at hm; subst hm
    cases patch with
    | none => rfl
    | some pa =>
      obtain ⟨h1, r, h2⟩ := parsePatch_some hpat
      rcases parseMinor_none hmin with h3 | ⟨h3, h4⟩
      · rw [h1] at h3; cases h3
      · rw [h3] at h2; exact absurd h2 (h4 r)
  · intro hp
    simp only at hp; subst hp
    exact parsePreOpt_none hpre

/-- shape of what the parser can produce: a missing minor implies a missing patch; a pre-release
    tag only on a comparator with all three components -/
def Comparator.Shaped (c : Comparator) : Prop :=
  (c.minor = none → c.patch = none) ∧ (c.patch = none → c.pre = [])

theorem versionReq_shape : ∀ (fuel : Nat) (s : List Char) (r : Req),
    versionReq fuel s = some r → ∀ c ∈ r, c.Shaped
  | 0, _, _ => by simp [versionReq]
  | fuel + 1, s, r => by
    unfold versionReq
    intro h
    split at h
    · cases h
    · rename_i c text hc
      split at h
      · cases h; intro c' hc'; simp at hc'; subst hc'; exact parseComparator_shape hc
      · split at h
        · cases h
        · simp only [Option.map_eq_some_iff] at h
          obtain ⟨r', hr, rfl⟩ := h
          intro c' hc'
          simp at hc'
          rcases hc' with rfl | hc'
          · exact parseComparator_shape hc
          · exact versionReq_shape fuel _ r' hr c' hc'
      · cases h

theorem parseReq_shape {s : String} {r : Req} (h : parseReq s = some r) : ∀ c ∈ r, c.Shaped := by
  unfold parseReq parseReqChars at h
  simp only at h
  split at h
  · split at h
    · cases h; simp
    · cases h
  · exact versionReq_shape _ _ _ h

end TypifyModel.Semver

import TypifyModel.Proofs.Lemmas.RoundTripStruct2
/-! Assembly of the struct and variant cases of the round-trip theorem (C03). -/
namespace TypifyModel.RoundTrip
open TypifyModel TypifyModel.Serde

variable (x : Ext) (σ : Space)

theorem fieldsOk_unpack {ps : List Field} (h : fieldsOkB σ ps = true) :
    hasFlatten ps = false ∧ nodupB (ps.map (·.wire)) = true ∧
    (ps.all (fun p => match p.state with | .required => !optionLikeT σ p.ty | _ => true) = true) ∧
    (∀ p ∈ ps, (p.state matches .optional) → optionalOkB σ p.ty = true) := by
  simp only [fieldsOkB, Bool.and_eq_true, Bool.not_eq_true'] at h
  obtain ⟨⟨h1, h2⟩, h3⟩ := h
  refine ⟨h1, h2, ?_, ?_⟩
  · apply List.all_eq_true.mpr
    intro p hp
    have := (List.all_eq_true.mp h3) p hp
    cases hst : p.state <;> simp [hst] at this ⊢
    exact this
  · intro p hp hst
    have := (List.all_eq_true.mp h3) p hp
    cases hs : p.state <;> simp [hs] at hst this
    exact this

/-- **structs**: reading back what was written gives the same members -/
theorem struct_rt {f : Nat} {ps : List Field} (hih : ∀ p ∈ ps, RTat x σ f p.ty)
    (hok : fieldsOkB σ ps = true) {deny : Bool} {v : Json} {fs : List (String × Val)}
    {es : List (String × Json)}
    (h1 : deStruct x σ (f + 1) ps deny v = .ok (.struct fs))
    (h2 : seStruct σ (f + 1) ps fs = .ok es) :
    deStruct x σ (f + 1) ps deny (.obj es) = .ok (.struct fs) := by
  obtain ⟨hfl, hnd, hreq, hopt⟩ := fieldsOk_unpack σ hok
  have hrel : FieldsRel x σ f ps fs := by
    cases v with
    | obj kvs => exact deStruct_obj_rel x σ hreq hfl h1
    | arr xs => exact deStruct_arr_rel x σ h1
    | _ => simp [deStruct, hfl] at h1
  simp only [seStruct] at h2
  have hback := fields_back x σ ps hih fs es hrel h2 hnd hopt hfl es (fun _ _ => rfl)
  have hkeys := seFieldsR_keys σ hfl h2
  simp only [deStruct, hfl, Bool.false_eq_true, if_false]
  have hdeny : (deny && es.any (fun kv => !(ps.any (fun p => p.wire == kv.1)))) = false := by
    cases deny with
    | false => rfl
    | true =>
      simp only [Bool.true_and]
      apply Bool.eq_false_iff.mpr
      intro hany
      obtain ⟨kv, hkv, hk⟩ := List.any_eq_true.mp hany
      obtain ⟨p, hp, hw⟩ := hkeys kv hkv
      simp only [Bool.not_eq_true', List.any_eq_false] at hk
      have := hk p hp
      simp [hw] at this
  rw [hdeny]
  simp only [Bool.false_eq_true, if_false]
  change (match mapM' (stepE x σ f es) ps with
    | .ok fs => (.ok (.struct fs) : Except E Val)
    | .error e => .error e) = _
  rw [hback]

end TypifyModel.RoundTrip

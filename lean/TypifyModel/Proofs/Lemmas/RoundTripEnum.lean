import TypifyModel.Proofs.Lemmas.RoundTripMain
/-! Enum cases of the round-trip theorem (C03). -/
namespace TypifyModel.RoundTrip
open TypifyModel TypifyModel.Serde

theorem findIdx_nodup {vs : List Variant} (hnd : nodupB (vs.map (·.wire)) = true) :
    ∀ {i : Nat} {vr : Variant}, vs[i]? = some vr → vs.findIdx? (fun v => v.wire == vr.wire) = some i := by
  induction vs with
  | nil => intro i vr h; simp at h
  | cons a r ih =>
    intro i vr h
    simp only [List.map_cons] at hnd
    obtain ⟨hne, hnd'⟩ := nodupB_cons hnd
    cases i with
    | zero =>
      simp at h; subst h
      simp [List.findIdx?_cons]
    | succ j =>
      have h' : r[j]? = some vr := by simpa using h
      have hmem : vr ∈ r := List.mem_of_getElem? h'
      have : (a.wire == vr.wire) = false := by
        apply Bool.eq_false_iff.mpr
        intro hc
        have hw : a.wire = vr.wire := by simpa using hc
        exact hne vr.wire (List.mem_map.mpr ⟨vr, hmem, rfl⟩) hw.symm
      simp [List.findIdx?_cons, this, ih hnd' h']

theorem findIdx_get {vs : List Variant} {p : Variant → Bool} {i : Nat}
    (h : vs.findIdx? p = some i) : ∃ vr, vs[i]? = some vr ∧ p vr = true := by
  have := List.findIdx?_eq_some_iff_getElem.mp h
  obtain ⟨hlt, hp, _⟩ := this
  exact ⟨vs[i], List.getElem?_eq_getElem hlt, hp⟩

end TypifyModel.RoundTrip

namespace TypifyModel.RoundTrip
open TypifyModel TypifyModel.Serde

theorem erase_id {es : List (String × Json)} {tg : String} (h : ∀ kv ∈ es, kv.1 ≠ tg) :
    Json.erase es tg = es := by
  unfold Json.erase
  apply List.filter_eq_self.mpr
  intro kv hkv
  simp [h kv hkv]

theorem seStruct_keys {σ : Space} {f : Nat} {ps : List Field} {fs : List (String × Val)}
    {es : List (String × Json)} (hfl : hasFlatten ps = false) (h : seStruct σ f ps fs = .ok es) :
    ∀ kv ∈ es, ∃ p ∈ ps, p.wire = kv.1 := by
  cases f with
  | zero => simp [seStruct] at h
  | succ f' => simp only [seStruct] at h; exact seFieldsR_keys σ hfl h

end TypifyModel.RoundTrip

import TypifyModel.Model.Names
/-! Helper lemmas about the `Names` model (used by `Proofs/C08.lean`): the character set of heck's
    output, the prefix rule, the keyword suffix, `unique`, and the stable sort of struct fields. -/
namespace TypifyModel.Names

/-! ### ASCII character facts (finite check over the 128 code points) -/

theorem forall_ascii {P : Char → Prop} (h : ∀ n : Fin 128, P (Char.ofNat n.val)) (c : Char)
    (hc : c.toNat < 128) : P c := by
  have := h ⟨c.toNat, hc⟩
  simpa [Char.ofNat_toNat] using this

theorem alnum_lt (c : Char) (h : isAlnum c = true) : c.toNat < 128 := by
  simp only [isAlnum, Char.isAlphanum, Char.isAlpha, Char.isUpper, Char.isLower, Char.isDigit,
    Bool.or_eq_true, Bool.and_eq_true, decide_eq_true_eq, ge_iff_le, UInt32.le_iff_toNat_le] at h
  have e1 : 'Z'.val.toNat = 90 := by decide
  have e2 : 'z'.val.toNat = 122 := by decide
  have e3 : '9'.val.toNat = 57 := by decide
  have : c.toNat = c.val.toNat := rfl
  omega

theorem alnum_toLower (c : Char) (h : isAlnum c = true) : isAlnum (toLower c) = true := by
  have key : ∀ n : Fin 128, isAlnum (Char.ofNat n.val) = true →
      isAlnum (toLower (Char.ofNat n.val)) = true := by decide
  exact forall_ascii (P := fun c => isAlnum c = true → isAlnum (toLower c) = true) key c
    (alnum_lt c h) h

theorem alnum_toUpper (c : Char) (h : isAlnum c = true) : isAlnum (toUpper c) = true := by
  have key : ∀ n : Fin 128, isAlnum (Char.ofNat n.val) = true →
      isAlnum (toUpper (Char.ofNat n.val)) = true := by decide
  exact forall_ascii (P := fun c => isAlnum c = true → isAlnum (toUpper c) = true) key c
    (alnum_lt c h) h

theorem alnum_xidContinue (c : Char) (h : isAlnum c = true) : isXidContinue c = true := by
  simp only [isXidContinue, Bool.or_eq_true]; left; exact h

theorem xidStart_xidContinue (c : Char) (h : isXidStart c = true) : isXidContinue c = true := by
  simp only [isXidContinue, isXidStart, Char.isAlphanum, Bool.or_eq_true] at *
  left; left; exact h

/-! ### heck: every emitted character is alphanumeric (snake: or the `_` boundary) -/

theorem splitAux_chars (s cur : Str) :
    ∀ w ∈ splitAux cur s, ∀ c ∈ w, c ∈ cur ∨ isAlnum c = true := by
  induction s generalizing cur with
  | nil =>
    intro w hw c hc
    simp only [splitAux, List.mem_singleton] at hw
    subst hw; left; simpa using hc
  | cons a rest ih =>
    intro w hw c hc
    unfold splitAux at hw
    by_cases ha : isAlnum a = true
    · rw [if_pos ha] at hw
      rcases ih (a :: cur) w hw c hc with h | h
      · rcases List.mem_cons.mp h with h | h
        · subst h; right; exact ha
        · left; exact h
      · right; exact h
    · rw [if_neg ha] at hw
      rcases List.mem_cons.mp hw with h | h
      · subst h; left; simpa using hc
      · rcases ih [] w h c hc with h | h
        · simp at h
        · right; exact h

theorem splitWords_alnum (s : Str) : ∀ w ∈ splitWords s, ∀ c ∈ w, isAlnum c = true := by
  intro w hw c hc
  rcases splitAux_chars s [] w hw c hc with h | h
  · simp at h
  · exact h

theorem segs_chars (w : Str) : ∀ (m : Mode) (cur : Str),
    ∀ seg ∈ segs m cur w, ∀ c ∈ seg, c ∈ cur ∨ c ∈ w := by
  induction w with
  | nil => intro m cur seg hseg; simp [segs] at hseg
  | cons a rest ih =>
    intro m cur seg hseg c hc
    cases rest with
    | nil =>
      simp only [segs, List.mem_singleton] at hseg
      subst hseg
      simp only [List.mem_reverse, List.mem_cons] at hc
      rcases hc with h | h
      · right; simp [h]
      · left; exact h
    | cons n rest' =>
      simp only [segs] at hseg
      split at hseg
      · rcases List.mem_cons.mp hseg with h | h
        · subst h
          simp only [List.mem_reverse, List.mem_cons] at hc
          rcases hc with h | h
          · right; simp [h]
          · left; exact h
        · rcases ih _ _ seg h c hc with h | h
          · simp at h
          · right; exact List.mem_cons_of_mem _ h
      · split at hseg
        · rcases List.mem_cons.mp hseg with h | h
          · subst h; left; simpa using hc
          · rcases ih _ _ seg h c hc with h | h
            · simp only [List.mem_singleton] at h; right; simp [h]
            · right; exact List.mem_cons_of_mem _ h
        · rcases ih _ _ seg hseg c hc with h | h
          · rcases List.mem_cons.mp h with h | h
            · right; simp [h]
            · left; exact h
          · right; exact List.mem_cons_of_mem _ h

theorem heckWords_alnum (s : Str) : ∀ w ∈ heckWords s, ∀ c ∈ w, isAlnum c = true := by
  intro w hw c hc
  simp only [heckWords, List.mem_flatMap] at hw
  obtain ⟨p, hp, hwp⟩ := hw
  rcases segs_chars p .boundary [] w hwp c hc with h | h
  · simp at h
  · exact splitWords_alnum s p hp c h

theorem lowerWord_alnum (w : Str) (h : ∀ c ∈ w, isAlnum c = true) :
    ∀ c ∈ lowerWord w, isAlnum c = true := by
  intro c hc
  simp only [lowerWord, List.mem_map] at hc
  obtain ⟨a, ha, rfl⟩ := hc
  exact alnum_toLower a (h a ha)

theorem capitalize_alnum (w : Str) (h : ∀ c ∈ w, isAlnum c = true) :
    ∀ c ∈ capitalize w, isAlnum c = true := by
  intro c hc
  cases w with
  | nil => simp [capitalize] at hc
  | cons a r =>
    simp only [capitalize, List.mem_cons, List.mem_map] at hc
    rcases hc with rfl | ⟨b, hb, rfl⟩
    · exact alnum_toUpper a (h a (by simp))
    · exact alnum_toLower b (h b (by simp [hb]))

theorem joinSnake_chars (ws : List Str) (h : ∀ w ∈ ws, ∀ c ∈ w, isAlnum c = true) :
    ∀ c ∈ joinSnake ws, isXidContinue c = true := by
  induction ws with
  | nil => intro c hc; simp [joinSnake] at hc
  | cons w rest ih =>
    intro c hc
    cases rest with
    | nil =>
      simp only [joinSnake] at hc
      exact alnum_xidContinue c (h w (by simp) c hc)
    | cons w2 rest' =>
      simp only [joinSnake, List.mem_append, List.mem_cons] at hc
      rcases hc with hc | rfl | hc
      · exact alnum_xidContinue c (h w (by simp) c hc)
      · decide
      · exact ih (fun w' hw' => h w' (List.mem_cons_of_mem _ hw')) c hc

theorem toSnake_chars (s : Str) : ∀ c ∈ toSnake s, isXidContinue c = true := by
  apply joinSnake_chars
  intro w hw
  simp only [List.mem_map] at hw
  obtain ⟨v, hv, rfl⟩ := hw
  exact lowerWord_alnum v (heckWords_alnum s v hv)

theorem toPascal_chars (s : Str) : ∀ c ∈ toPascal s, isXidContinue c = true := by
  intro c hc
  simp only [toPascal, List.mem_flatten, List.mem_map] at hc
  obtain ⟨l, ⟨v, hv, rfl⟩, hcl⟩ := hc
  exact alnum_xidContinue c (capitalize_alnum v (heckWords_alnum s v hv) c hcl)

theorem toCase_chars (k : Case) (s : Str) : ∀ c ∈ toCase k s, isXidContinue c = true := by
  cases k
  · exact toPascal_chars s
  · exact toSnake_chars s

/-! ### `sanitize`: special cases, prefix, keyword suffix -/

theorem sanitizeCore_chars (s : Str) (k : Case) :
    ∀ c ∈ sanitizeCore s k, isXidContinue c = true := by
  unfold sanitizeCore
  split
  · decide
  · split
    · decide
    · split
      · decide
      · exact toCase_chars k _

theorem toCase_x (k : Case) : toCase k ['x'] = ['x'] ∨ toCase k ['x'] = ['X'] := by
  cases k
  · right; decide
  · left; decide

/-- after the prefix rule the string has the lexical shape of an identifier -/
theorem addPrefix_shape (k : Case) (out : Str) (h : ∀ c ∈ out, isXidContinue c = true) :
    identShape (addPrefix k out) = true := by
  unfold addPrefix
  cases out with
  | nil => rcases toCase_x k with hx | hx <;> rw [hx] <;> decide
  | cons ch rest =>
    simp only
    have hrest : rest.all isXidContinue = true := by
      simp only [List.all_eq_true]; intro c hc; exact h c (by simp [hc])
    by_cases hs : isXidStart ch = true
    · rw [if_pos hs]
      simp only [identShape, hs, Bool.true_or, Bool.true_and, hrest]
    · rw [if_neg hs]
      have hall : (ch :: rest).all isXidContinue = true := by
        simp only [List.all_eq_true]; exact h
      rcases toCase_x k with hx | hx <;> rw [hx] <;>
        simp only [List.cons_append, List.nil_append, identShape, hall, Bool.and_true] <;> decide

theorem keyword_last : ∀ k ∈ keywords, k.getLast? ≠ some '_' := by decide

theorem not_keyword_underscore (out : Str) : isKeyword (out ++ ['_']) = false := by
  cases h : isKeyword (out ++ ['_']) with
  | false => rfl
  | true =>
    unfold isKeyword at h
    have hm := List.contains_iff_mem.mp h
    exact absurd List.getLast?_concat (keyword_last _ hm)

theorem identShape_append (out : Str) (h : identShape out = true) :
    identShape (out ++ ['_']) = true := by
  cases out with
  | nil => simp [identShape] at h
  | cons c r =>
    simp only [identShape, Bool.and_eq_true, List.cons_append, List.all_append] at h ⊢
    refine ⟨h.1, h.2, by decide⟩

/-- the keyword step turns any string of identifier shape into an accepted identifier -/
theorem fixKeyword_ident (out : Str) (h : identShape out = true) :
    isRustIdent (fixKeyword out) = true := by
  unfold fixKeyword
  by_cases hi : isRustIdent out = true
  · rw [if_pos hi]; exact hi
  · rw [if_neg hi]
    unfold isRustIdent
    rw [identShape_append out h, not_keyword_underscore out]
    cases out with
    | nil => simp [identShape] at h
    | cons c r => simp

/-! ### `unique` -/

theorem uniqueAux_spec (l : List Str) : ∀ seen : List Str,
    uniqueAux seen l = true ↔ (l.Nodup ∧ ∀ x ∈ l, x ∉ seen) := by
  induction l with
  | nil => intro seen; simp [uniqueAux]
  | cons a rest ih =>
    intro seen
    unfold uniqueAux
    by_cases hc : seen.contains a = true
    · rw [if_pos hc]
      have hm := List.contains_iff_mem.mp hc
      constructor
      · intro h; cases h
      · intro ⟨_, h2⟩; exact absurd hm (h2 a (by simp))
    · rw [if_neg hc]
      have hm : a ∉ seen := fun h => hc (List.contains_iff_mem.mpr h)
      rw [ih (a :: seen), List.nodup_cons]
      constructor
      · intro ⟨hn, hs⟩
        refine ⟨⟨fun hin => (hs a hin) (by simp), hn⟩, ?_⟩
        intro x hx
        rcases List.mem_cons.mp hx with rfl | hx
        · exact hm
        · intro hxs; exact hs x hx (List.mem_cons_of_mem _ hxs)
      · intro ⟨⟨ha, hn⟩, hs⟩
        refine ⟨hn, ?_⟩
        intro x hx hxs
        rcases List.mem_cons.mp hxs with rfl | hxs
        · exact ha hx
        · exact hs x (List.mem_cons_of_mem _ hx) hxs

theorem unique_iff_nodup (l : List Str) : unique l = true ↔ l.Nodup := by
  unfold unique
  rw [uniqueAux_spec]
  simp

/-! ### zipWith / wire names -/

theorem wire_renderVariant (raw ident : Str) : wireName (renderVariant raw ident) = raw := by
  unfold wireName renderVariant
  by_cases h : raw = ident
  · simp [h]
  · simp [h]

theorem wire_recase (s : Str) (k : Case) : wireName (recase s k) = s := by
  unfold wireName recase
  by_cases h : sanitize s k = s
  · simp [h]
  · simp [h]

theorem renderVariants_wire (raws : List Str) : ∀ idents : List Str, idents.length = raws.length →
    (renderVariants raws idents).map wireName = raws := by
  induction raws with
  | nil => intro idents _; simp [renderVariants]
  | cons r rest ih =>
    intro idents hl
    cases idents with
    | nil => simp at hl
    | cons i irest =>
      simp only [renderVariants, List.zipWith_cons_cons, List.map_cons, wire_renderVariant]
      congr 1
      exact ih irest (by simpa using hl)

theorem renderVariants_idents (raws : List Str) : ∀ idents : List Str, idents.length = raws.length →
    (renderVariants raws idents).map (·.1) = idents := by
  induction raws with
  | nil => intro idents hl; cases idents <;> simp_all [renderVariants]
  | cons r rest ih =>
    intro idents hl
    cases idents with
    | nil => simp at hl
    | cons i irest =>
      simp only [renderVariants, List.zipWith_cons_cons, List.map_cons, renderVariant]
      congr 1
      exact ih irest (by simpa using hl)

end TypifyModel.Names

import TypifyModel.Proofs.Lemmas.WireBase
/-! `de_ty`: everything the model of `Deserialize` (and of `Default::default()`) produces is a well-formed value
    of its type (`tyB`). -/
namespace TypifyModel.WireEq
open TypifyModel TypifyModel.Serde

theorem all_imp {α : Type} {p q : α → Bool} (h : ∀ a, p a = true → q a = true) :
    ∀ {l : List α}, l.all p = true → l.all q = true := by
  intro l hl
  rw [List.all_eq_true] at hl ⊢
  exact fun a ha => h a (hl a ha)

theorem zipTy_imp {f g : Id → Val → Bool} (h : ∀ t v, f t v = true → g t v = true) :
    ∀ {ts : List Id} {vs : List Val}, zipTy f ts vs = true → zipTy g ts vs = true := by
  intro ts
  induction ts with
  | nil => intro vs hz; cases vs <;> simp_all [zipTy]
  | cons t r ih =>
    intro vs hz
    cases vs with
    | nil => simp [zipTy] at hz
    | cons v vs' =>
      simp only [zipTy, Bool.and_eq_true] at hz ⊢
      exact ⟨h _ _ hz.1, ih hz.2⟩

theorem tyOrNone_imp {σ : Space} {f g : Id → Val → Bool} (h : ∀ t v, f t v = true → g t v = true) {t : Id} {v : Val}
    (ht : tyOrNone σ f t v = true) : tyOrNone σ g t v = true := by
  simp only [tyOrNone, Bool.or_eq_true] at ht ⊢
  rcases ht with ht | ht
  · exact Or.inl (h _ _ ht)
  · exact Or.inr ht

theorem fieldsTy_imp {σ : Space} {f g : Id → Val → Bool} (h : ∀ t v, f t v = true → g t v = true) :
    ∀ {ps : List Field} {fs : List (String × Val)}, fieldsTy σ f ps fs = true → fieldsTy σ g ps fs = true := by
  intro ps
  induction ps with
  | nil => intro fs hz; cases fs <;> simp_all [fieldsTy]
  | cons p r ih =>
    intro fs hz
    cases fs with
    | nil => simp [fieldsTy] at hz
    | cons e fs' =>
      obtain ⟨n, v⟩ := e
      simp only [fieldsTy, Bool.and_eq_true] at hz ⊢
      exact ⟨tyOrNone_imp h hz.1, ih hz.2⟩

theorem variantTy_imp {σ : Space} {f g : Id → Val → Bool} (h : ∀ t v, f t v = true → g t v = true) {d : VDetails} {p : Val}
    (hv : variantTy σ f d p = true) : variantTy σ g d p = true := by
  cases d with
  | simple => exact hv
  | item t => exact tyOrNone_imp h hv
  | tuple ts =>
    cases p <;> simp only [variantTy] at hv ⊢ <;> first | exact zipTy_imp h hv | exact hv
  | struct ps =>
    cases p <;> simp only [variantTy] at hv ⊢ <;> first | exact fieldsTy_imp h hv | exact hv

theorem tyB_mono (σ : Space) : ∀ f t v, tyB σ f t v = true → tyB σ (f + 1) t v = true := by
  intro f
  induction f with
  | zero => intro t v h; simp [tyB] at h
  | succ f ih =>
    intro t v h
    unfold tyB at h ⊢
    cases hget : σ.get t with
    | none => rw [hget] at h; simp at h
    | some ent =>
      rw [hget] at h
      obtain ⟨det, ed, im⟩ := ent
      cases det with
      | enum name tag variants deny dflt bes =>
        simp only at h ⊢
        cases v <;> simp only at h ⊢ <;> try exact h
        rename_i i p
        cases hv : variants[i]? with
        | none => rw [hv] at h; simp at h
        | some vr => rw [hv] at h; exact variantTy_imp (ih) h
      | struct name props deny dflt =>
        simp only at h ⊢
        cases v <;> simp only at h ⊢ <;> first | exact fieldsTy_imp ih h | exact h
      | newtype name inner c dflt => exact ih _ _ h
      | native n ps => exact h
      | option t' =>
        simp only [Bool.or_eq_true] at h ⊢
        rcases h with h | h
        · exact Or.inl h
        · refine Or.inr ?_
          cases hio : isOption σ t' with
          | true => rw [hio] at h; simp only [if_true] at h ⊢; exact ih _ _ h
          | false =>
            rw [hio] at h; simp only [Bool.false_eq_true, if_false] at h ⊢
            cases v <;> simp only at h ⊢ <;> first | exact ih _ _ h | exact h
      | box t' => exact ih _ _ h
      | vec t' =>
        simp only at h ⊢
        cases v <;> simp only at h ⊢ <;> first | exact all_imp (ih t') h | exact h
      | map k vt =>
        simp only at h ⊢
        cases v <;> simp only at h ⊢ <;> first | exact all_imp (fun kv hk => ih vt kv.2 hk) h | exact h
      | set t' =>
        simp only at h ⊢
        cases v <;> simp only at h ⊢ <;> first | exact all_imp (ih t') h | exact h
      | array t' n =>
        simp only at h ⊢
        cases v <;> simp only at h ⊢ <;> try exact h
        simp only [Bool.and_eq_true] at h ⊢
        exact ⟨h.1, all_imp (ih t') h.2⟩
      | tuple ts =>
        simp only at h ⊢
        cases v <;> simp only at h ⊢ <;> first | exact zipTy_imp ih h | exact h
      | unit => exact h
      | boolean => exact h
      | integer name => exact h
      | float name => exact h
      | string => exact h
      | jsonValue => exact h
      | reference r => exact h

end TypifyModel.WireEq

namespace TypifyModel.WireEq
open TypifyModel TypifyModel.Serde

theorem tyB_mono_le (σ : Space) {f g : Nat} (hle : f ≤ g) {t : Id} {v : Val} (h : tyB σ f t v = true) :
    tyB σ g t v = true := by
  induction hle with
  | refl => exact h
  | step _ ih => exact tyB_mono σ _ _ _ ih

theorem isOption_true {σ : Space} {t : Id} (h : isOption σ t = true) :
    ∃ u ed im, σ.get t = some ⟨.option u, ed, im⟩ := by
  unfold isOption at h
  split at h
  · rename_i u ed im heq; exact ⟨u, ed, im, heq⟩
  · simp at h

theorem isOption_false {σ : Space} {t : Id} (h : isOption σ t = false) :
    ∀ u ed im, σ.get t ≠ some ⟨.option u, ed, im⟩ := by
  intro u ed im heq
  simp [isOption, heq] at h

/-- the `Option` arm of `de`, with the nested-option test as a Boolean -/
theorem de_option_eq (x : Ext) {σ : Space} {t t' : Id} {ed : List String} {im : List Impl}
    (hget : σ.get t = some ⟨.option t', ed, im⟩) (f : Nat) (j : Json) :
    de x σ (f + 1) t j =
      (match j with
       | .null => .ok .none
       | _ => if isOption σ t' then de x σ f t' j
              else match de x σ f t' j with
                | .ok v => .ok (.some v)
                | .error e => .error e) := by
  simp only [de, hget]
  cases j with
  | null => rfl
  | _ =>
    cases hg' : σ.get t' with
    | none => simp [isOption, hg']; split <;> simp_all
    | some e' =>
      obtain ⟨d', ed', im'⟩ := e'
      cases d' <;> simp [isOption, hg'] <;> (split <;> simp_all)

theorem rty_zero_in (ty : RTy) (h : ty.isNonZero = false) : ty.lo ≤ 0 ∧ (0 : Int) ≤ ty.hi := by
  cases ty <;> simp [RTy.isNonZero] at h <;> simp [RTy.lo, RTy.hi]

end TypifyModel.WireEq

namespace TypifyModel.WireEq
open TypifyModel TypifyModel.Serde

/-- statements about the four mutually recursive producers at one fuel -/
def ProdTy (x : Ext) (σ : Space) (f : Nat) : Prop :=
  (∀ t j v, de x σ f t j = .ok v → tyB σ f t v = true) ∧
  (∀ d deny so j p, deVariantBody x σ f d deny so j = .ok p → variantTy σ (tyB σ f) d p = true) ∧
  (∀ ps deny j v, deStruct x σ f ps deny j = .ok v → ∃ fs, v = .struct fs ∧ fieldsTy σ (tyB σ f) ps fs = true) ∧
  (∀ t v, dflt x σ f t = .ok v → tyB σ f t v = true) ∧
  (∀ t c v c', deFlat x σ f t c = (.ok v, c') → tyB σ f t v = true)

theorem mapM'_all_ty {x : Ext} {σ : Space} {f : Nat} {t' : Id} (ihDe : ∀ t j v, de x σ f t j = .ok v → tyB σ f t v = true)
    {xs : List Json} {vs : List Val} (hm : mapM' (de x σ f t') xs = .ok vs) : vs.all (tyB σ f t') = true := by
  rw [List.all_eq_true]
  intro b hb
  obtain ⟨a, _, ha⟩ := mapM'_ok_mem hm b hb
  exact ihDe _ _ _ ha

theorem de_ty_step (x : Ext) (σ : Space) (f : Nat) (ih : ProdTy x σ f) :
    ∀ t j v, de x σ (f + 1) t j = .ok v → tyB σ (f + 1) t v = true := by
  obtain ⟨ihDe, ihVar, ihStruct, ihDflt, ihFlat⟩ := ih
  intro t j v h
  cases hget : σ.get t with
  | none => simp [de, hget] at h
  | some ent =>
    obtain ⟨det, ed, im⟩ := ent
    cases det with
    | unit =>
      simp only [de, hget] at h
      unfold tyB; simp only [hget]
      cases j <;> simp at h
      subst h; rfl
    | boolean =>
      simp only [de, hget] at h
      unfold tyB; simp only [hget]
      cases j <;> simp at h
      subst h; rfl
    | integer name =>
      simp only [de, hget] at h
      unfold tyB; simp only [hget]
      cases hr : rtyOfName name with
      | none => rw [hr] at h; simp at h
      | some ty =>
        rw [hr] at h; simp only at h
        cases j with
        | int n =>
          simp only at h
          split at h
          · rename_i hrange
            simp only [Except.ok.injEq] at h; subst h
            simp [hrange]
          · simp at h
        | _ => simp at h
    | float name =>
      simp only [de, hget] at h
      unfold tyB; simp only [hget]
      cases j <;> simp at h <;> (subst h; rfl)
    | string =>
      simp only [de, hget] at h
      unfold tyB; simp only [hget]
      cases j <;> simp at h
      subst h; rfl
    | jsonValue =>
      simp only [de, hget] at h
      unfold tyB; simp only [hget]
      simp at h; subst h; rfl
    | native n ps => simp [de, hget] at h
    | reference r => simp [de, hget] at h
    | option t' =>
      rw [de_option_eq x hget] at h
      unfold tyB; simp only [hget, Bool.or_eq_true]
      cases j with
      | null => simp at h; subst h; exact Or.inl rfl
      | _ =>
        refine Or.inr ?_
        simp only at h
        cases hio : isOption σ t' with
        | true => rw [hio] at h; simp only [if_true] at h ⊢; exact ihDe _ _ _ h
        | false =>
          rw [hio] at h; simp only [Bool.false_eq_true, if_false] at h ⊢
          split at h
          · simp only [Except.ok.injEq] at h; subst h; simp only; exact ihDe _ _ _ (by assumption)
          · simp at h
    | box t' =>
      simp only [de, hget] at h
      unfold tyB; simp only [hget]
      exact ihDe _ _ _ h
    | vec t' =>
      simp only [de, hget] at h
      unfold tyB; simp only [hget]
      cases j <;> simp only [reduceCtorEq] at h <;> try (simp at h; done)
      rename_i xs
      cases hm : mapM' (de x σ f t') xs with
      | error e => rw [hm] at h; simp at h
      | ok vs =>
        rw [hm] at h; simp only [Except.ok.injEq] at h; subst h
        exact mapM'_all_ty ihDe hm
    | set t' =>
      simp only [de, hget] at h
      unfold tyB; simp only [hget]
      cases j <;> simp only [reduceCtorEq] at h <;> try (simp at h; done)
      rename_i xs
      cases hm : mapM' (de x σ f t') xs with
      | error e => rw [hm] at h; simp at h
      | ok vs =>
        rw [hm] at h; simp only [Except.ok.injEq] at h; subst h
        exact mapM'_all_ty ihDe hm
    | array t' n =>
      simp only [de, hget] at h
      unfold tyB; simp only [hget]
      cases j <;> simp only [reduceCtorEq] at h <;> try (simp at h; done)
      rename_i xs
      split at h
      · rename_i hlen
        cases hm : mapM' (de x σ f t') xs with
        | error e => rw [hm] at h; simp at h
        | ok vs =>
          rw [hm] at h; simp only [Except.ok.injEq] at h; subst h
          simp only [Bool.and_eq_true, decide_eq_true_eq]
          exact ⟨by rw [mapM'_ok_length hm]; exact hlen, mapM'_all_ty ihDe hm⟩
      · simp at h
    | tuple ts =>
      simp only [de, hget] at h
      unfold tyB; simp only [hget]
      cases j <;> simp only [reduceCtorEq] at h <;> try (simp at h; done)
      rename_i xs
      cases hm : zipM (de x σ f) ts xs with
      | error e => rw [hm] at h; simp at h
      | ok vs =>
        rw [hm] at h; simp only [Except.ok.injEq] at h; subst h
        exact zipM_ok_zipTy ihDe hm
    | struct name props deny dflt =>
      simp only [de, hget] at h
      obtain ⟨fs, rfl, hf⟩ := ihStruct _ _ _ _ h
      unfold tyB; simp only [hget]
      exact hf
    | map k vt =>
      simp only [de, hget] at h
      unfold tyB; simp only [hget]
      cases j <;> simp only [reduceCtorEq] at h <;> try (simp at h; done)
      rename_i kvs
      split at h
      · rename_i es hm
        simp only [Except.ok.injEq] at h; subst h
        simp only
        rw [List.all_eq_true]
        intro e he
        rcases foldl_insertKv_mem he with he' | he'
        · obtain ⟨kv, _, hkv⟩ := mapM'_ok_mem hm e he'
          split at hkv <;> simp at hkv
          all_goals (subst hkv; exact ihDe _ _ _ ‹_›)
        · simp at he'
      · simp at h
    | newtype name inner c dflt =>
      simp only [de, hget] at h
      unfold tyB; simp only [hget]
      cases hd : de x σ f inner j with
      | error e => rw [hd] at h; simp at h
      | ok v' =>
        rw [hd] at h; simp only at h
        have hv' := ihDe _ _ _ hd
        have : v = v' := by
          cases c with
          | none => simp at h; exact h.symm
          | string mx mn pat =>
            simp only at h
            split at h
            · split at h <;> simp at h
              exact h.symm
            · simp at h
          | enumValues vs =>
            simp only at h
            split at h <;> try (simp at h; done)
            split at h <;> simp at h
            exact h.symm
          | denyValues vs =>
            simp only at h
            split at h <;> try (simp at h; done)
            split at h <;> simp at h
            exact h.symm
        subst this; exact hv'
    | enum name tag variants deny dflt bes =>
      simp only [de, hget] at h
      unfold tyB; simp only [hget]
      cases tag with
      | external =>
        simp only at h
        repeat' (split at h)
        all_goals (try (simp at h; done))
        all_goals (simp only [Except.ok.injEq] at h; subst h; simp only)
        all_goals
          first
          | (simp only [*, variantTy]; done)
          | (simp only [*]; exact ihVar _ _ _ _ _ (by assumption))
      | untagged =>
        simp only at h
        obtain ⟨n, a, hn, ha⟩ := firstOk_ok h
        split at ha
        · rename_i p hp
          simp only [Except.ok.injEq] at ha; subst ha
          simp only [Nat.zero_add, hn]
          exact ihVar _ _ _ _ _ hp
        · simp at ha
      | internal tg =>
        simp only at h
        repeat' (split at h)
        all_goals (try (simp at h; done))
        all_goals (simp only [Except.ok.injEq] at h; subst h; simp only)
        all_goals
          first
          | (simp only [*, variantTy]; done)
          | (simp only [*]; exact ihVar _ _ _ _ _ (by assumption))
          | (obtain ⟨fs, rfl, hf⟩ := ihStruct _ _ _ _ (by assumption); simp only [*, variantTy]; done)
          | (have hty := ihDe _ _ _ (by assumption); simp only [*, variantTy, tyOrNone, Bool.true_or]; done)
          | (simp only [*, variantTy, tyOrNone, isNoneV, Bool.and_self, Bool.or_true]; done)
      | adjacent tg ct =>
        simp only at h
        repeat' (split at h)
        all_goals (try (simp at h; done))
        all_goals (simp only [Except.ok.injEq] at h; subst h; simp only)
        all_goals
          first
          | (simp only [*, variantTy]; done)
          | (simp only [*]; exact ihVar _ _ _ _ _ (by assumption))
          | (obtain ⟨fs, rfl, hf⟩ := ihStruct _ _ _ _ (by assumption); simp only [*, variantTy]; done)
          | (have hty := ihDe _ _ _ (by assumption); simp only [*, variantTy, tyOrNone, Bool.true_or]; done)
          | (simp only [*, variantTy, tyOrNone, isNoneV, Bool.and_self, Bool.or_true]; done)

end TypifyModel.WireEq

namespace TypifyModel.WireEq
open TypifyModel TypifyModel.Serde

theorem var_ty_step (x : Ext) (σ : Space) (f : Nat) (ih : ProdTy x σ f) :
    ∀ d deny so j p, deVariantBody x σ (f + 1) d deny so j = .ok p → variantTy σ (tyB σ (f + 1)) d p = true := by
  obtain ⟨ihDe, ihVar, ihStruct, ihDflt, ihFlat⟩ := ih
  intro d deny so j p h
  cases d with
  | simple =>
    simp only [deVariantBody] at h
    cases j <;> simp at h
    subst h; rfl
  | item t =>
    simp only [deVariantBody] at h
    simp only [variantTy, tyOrNone, Bool.or_eq_true]
    exact Or.inl (tyB_mono σ _ _ _ (ihDe _ _ _ h))
  | tuple ts =>
    simp only [deVariantBody] at h
    cases j <;> simp only [reduceCtorEq] at h <;> try (simp at h; done)
    rename_i xs
    cases hm : zipM (de x σ f) ts xs with
    | error e => rw [hm] at h; simp at h
    | ok vs =>
      rw [hm] at h; simp only [Except.ok.injEq] at h; subst h
      exact zipTy_imp (tyB_mono σ f) (zipM_ok_zipTy ihDe hm)
  | struct ps =>
    simp only [deVariantBody] at h
    split at h
    · simp at h
    · obtain ⟨fs, rfl, hf⟩ := ihStruct _ _ _ _ h
      exact fieldsTy_imp (tyB_mono σ f) hf

theorem mapM'_fieldsTy {σ : Space} {ty : Id → Val → Bool} {G : Field × Nat → Except E (String × Val)} :
    ∀ {pl : List (Field × Nat)} {fs : List (String × Val)}, mapM' G pl = .ok fs →
      (∀ pi r, G pi = .ok r → tyOrNone σ ty pi.1.ty r.2 = true) → fieldsTy σ ty (pl.map (·.1)) fs = true := by
  intro pl
  induction pl with
  | nil => intro fs h _; simp [mapM'] at h; subst h; rfl
  | cons a r ih =>
    intro fs h hG
    obtain ⟨b, bs', hb, hr, rfl⟩ := mapM'_ok_cons h
    obtain ⟨n, v⟩ := b
    simp only [List.map_cons, fieldsTy, Bool.and_eq_true]
    exact ⟨hG a _ hb, ih hr hG⟩

theorem mapM'_fieldsTy' {σ : Space} {ty : Id → Val → Bool} {G : Field → Except E (String × Val)} :
    ∀ {ps : List Field} {fs : List (String × Val)}, mapM' G ps = .ok fs →
      (∀ p r, G p = .ok r → tyOrNone σ ty p.ty r.2 = true) → fieldsTy σ ty ps fs = true := by
  intro ps
  induction ps with
  | nil => intro fs h _; simp [mapM'] at h; subst h; rfl
  | cons a r ih =>
    intro fs h hG
    obtain ⟨b, bs', hb, hr, rfl⟩ := mapM'_ok_cons h
    obtain ⟨n, v⟩ := b
    simp only [fieldsTy, Bool.and_eq_true]
    exact ⟨hG a _ hb, ih hr hG⟩

theorem tyOrNone_of {σ : Space} {ty : Id → Val → Bool} {t : Id} {v : Val} (h : ty t v = true) : tyOrNone σ ty t v = true := by
  simp [tyOrNone, h]

theorem foldFields_fieldsTy {σ : Space} {ty : Id → Val → Bool}
    {named : Field → Except E (String × Val)}
    {flat : Field → List (String × Json) → Except E Val × List (String × Json)}
    (hn : ∀ p r, named p = .ok r → tyOrNone σ ty p.ty r.2 = true)
    (hf : ∀ p c v c', flat p c = (.ok v, c') → tyOrNone σ ty p.ty v = true) :
    ∀ (ps : List Field) (c : List (String × Json)) (fs : List (String × Val)) (c' : List (String × Json)),
      foldFields named flat ps c = (.ok fs, c') → fieldsTy σ ty ps fs = true := by
  intro ps
  induction ps with
  | nil =>
    intro c fs c' h
    simp only [foldFields, Prod.mk.injEq, Except.ok.injEq] at h
    obtain ⟨rfl, _⟩ := h
    rfl
  | cons p ps ih =>
    intro c fs c' h
    simp only [foldFields] at h
    split at h
    · -- flattened member
      cases hfp : flat p c with
      | mk r c1 =>
        rw [hfp] at h
        cases r with
        | error e => simp at h
        | ok v =>
          simp only at h
          cases hrec : foldFields named flat ps c1 with
          | mk r2 c2 =>
            rw [hrec] at h
            cases r2 with
            | error e => simp at h
            | ok rs =>
              simp only [Prod.mk.injEq, Except.ok.injEq] at h
              obtain ⟨rfl, _⟩ := h
              simp only [fieldsTy, Bool.and_eq_true]
              exact ⟨hf p c v c1 hfp, ih c1 rs c2 hrec⟩
    · cases hnp : named p with
      | error e => rw [hnp] at h; simp at h
      | ok a =>
        rw [hnp] at h
        simp only at h
        cases hrec : foldFields named flat ps c with
        | mk r2 c2 =>
          rw [hrec] at h
          cases r2 with
          | error e => simp at h
          | ok rs =>
            simp only [Prod.mk.injEq, Except.ok.injEq] at h
            obtain ⟨rfl, _⟩ := h
            obtain ⟨n, w⟩ := a
            simp only [fieldsTy, Bool.and_eq_true]
            exact ⟨hn p (n, w) hnp, ih c rs c2 hrec⟩

theorem struct_ty_step (x : Ext) (σ : Space) (f : Nat) (ih : ProdTy x σ f) :
    ∀ ps deny j v, deStruct x σ (f + 1) ps deny j = .ok v →
      ∃ fs, v = .struct fs ∧ fieldsTy σ (tyB σ (f + 1)) ps fs = true := by
  obtain ⟨ihDe, ihVar, ihStruct, ihDflt, ihFlat⟩ := ih
  intro ps deny j v h
  simp only [deStruct] at h
  split at h
  · -- a struct with flattened members: named members as below, flattened ones through `deFlat`
    cases j with
    | obj kvs =>
      simp only at h
      split at h
      · simp at h
      · rename_i fs rest hfold
        split at h
        · simp at h
        · simp only [Except.ok.injEq] at h; subst h
          refine ⟨fs, rfl, foldFields_fieldsTy ?_ ?_ _ _ _ _ hfold⟩
          · intro p r hG
            split at hG
            · split at hG
              · rename_i a ha
                simp only [Except.ok.injEq] at hG; subst hG
                exact tyOrNone_of (tyB_mono σ _ _ _ (ihDe _ _ _ ha))
              · simp at hG
            · split at hG
              · split at hG
                · rename_i hopt
                  simp only [Except.ok.injEq] at hG; subst hG
                  simp [tyOrNone, isNoneV, hopt]
                · simp at hG
              · split at hG
                · rename_i a ha
                  simp only [Except.ok.injEq] at hG; subst hG
                  exact tyOrNone_of (tyB_mono σ _ _ _ (ihDflt _ _ ha))
                · simp at hG
              · split at hG
                · rename_i a ha
                  simp only [Except.ok.injEq] at hG; subst hG
                  exact tyOrNone_of (tyB_mono σ _ _ _ (ihDe _ _ _ ha))
                · simp at hG
                · simp at hG
          · intro p c w c' hF
            exact tyOrNone_of (tyB_mono σ _ _ _ (ihFlat _ _ _ _ hF))
    | _ => simp at h
  · cases j with
    | obj kvs =>
      simp only at h
      split at h
      · simp at h
      · split at h
        · rename_i fs hm
          simp only [Except.ok.injEq] at h; subst h
          refine ⟨fs, rfl, mapM'_fieldsTy' hm ?_⟩
          intro p r hG
          split at hG
          · -- member present
            split at hG
            · rename_i a ha
              simp only [Except.ok.injEq] at hG; subst hG
              exact tyOrNone_of (tyB_mono σ _ _ _ (ihDe _ _ _ ha))
            · simp at hG
          · split at hG
            · split at hG
              · rename_i hopt
                simp only [Except.ok.injEq] at hG; subst hG
                simp [tyOrNone, isNoneV, hopt]
              · simp at hG
            · split at hG
              · rename_i a ha
                simp only [Except.ok.injEq] at hG; subst hG
                exact tyOrNone_of (tyB_mono σ _ _ _ (ihDflt _ _ ha))
              · simp at hG
            · split at hG
              · rename_i a ha
                simp only [Except.ok.injEq] at hG; subst hG
                exact tyOrNone_of (tyB_mono σ _ _ _ (ihDe _ _ _ ha))
              · simp at hG
              · simp at hG
        · simp at h
    | arr xs =>
      simp only at h
      split at h
      · simp at h
      · split at h
        · rename_i fs hm
          simp only [Except.ok.injEq] at h; subst h
          refine ⟨fs, rfl, ?_⟩
          have := mapM'_fieldsTy (σ := σ) (ty := tyB σ (f + 1)) hm ?_
          · rwa [List.map_fst_zip (by simp)] at this
          intro pi r hG
          split at hG
          · split at hG
            · rename_i a ha
              simp only [Except.ok.injEq] at hG; subst hG
              exact tyOrNone_of (tyB_mono σ _ _ _ (ihDe _ _ _ ha))
            · simp at hG
          · split at hG
            · simp at hG
            · split at hG
              · rename_i a ha
                simp only [Except.ok.injEq] at hG; subst hG
                exact tyOrNone_of (tyB_mono σ _ _ _ (ihDflt _ _ ha))
              · simp at hG
            · split at hG
              · rename_i a ha
                simp only [Except.ok.injEq] at hG; subst hG
                exact tyOrNone_of (tyB_mono σ _ _ _ (ihDe _ _ _ ha))
              · simp at hG
              · simp at hG
        · simp at h
    | _ => simp at h

end TypifyModel.WireEq

namespace TypifyModel.WireEq
open TypifyModel TypifyModel.Serde

theorem mapM'_zipTy {g : Id → Except E Val} {ty : Id → Val → Bool} (hg : ∀ t v, g t = .ok v → ty t v = true) :
    ∀ {ts : List Id} {vs : List Val}, mapM' g ts = .ok vs → zipTy ty ts vs = true := by
  intro ts
  induction ts with
  | nil => intro vs h; simp [mapM'] at h; subst h; rfl
  | cons t r ih =>
    intro vs h
    obtain ⟨b, bs', hb, hr, rfl⟩ := mapM'_ok_cons h
    simp [zipTy, hg t b hb, ih hr]

theorem nonreject_ok {α : Type} {r : Except E α} {v : α}
    (h : (match r with | .error .reject => (.error .unsupported : Except E α) | r => r) = .ok v) : r = .ok v := by
  split at h
  · simp at h
  · exact h

theorem dflt_ty_step (x : Ext) (σ : Space) (f : Nat) (ih : ProdTy x σ f) :
    ∀ t v, dflt x σ (f + 1) t = .ok v → tyB σ (f + 1) t v = true := by
  obtain ⟨ihDe, ihVar, ihStruct, ihDflt, ihFlat⟩ := ih
  intro t v h
  cases hget : σ.get t with
  | none => simp [dflt, hget] at h
  | some ent =>
    obtain ⟨det, ed, im⟩ := ent
    cases det with
    | option t' =>
      simp only [dflt, hget, Except.ok.injEq] at h; subst h
      unfold tyB; simp [hget, isNoneV]
    | vec t' =>
      simp only [dflt, hget, Except.ok.injEq] at h; subst h
      unfold tyB; simp [hget]
    | set t' =>
      simp only [dflt, hget, Except.ok.injEq] at h; subst h
      unfold tyB; simp [hget]
    | map k vt =>
      simp only [dflt, hget, Except.ok.injEq] at h; subst h
      unfold tyB; simp [hget]
    | unit =>
      simp only [dflt, hget, Except.ok.injEq] at h; subst h
      unfold tyB; simp [hget]
    | boolean =>
      simp only [dflt, hget, Except.ok.injEq] at h; subst h
      unfold tyB; simp [hget]
    | integer name =>
      simp only [dflt, hget] at h
      unfold tyB; simp only [hget]
      cases hr : rtyOfName name with
      | none => rw [hr] at h; simp at h
      | some ty =>
        rw [hr] at h; simp only at h
        split at h
        · simp at h
        · rename_i hnz
          simp only [Except.ok.injEq] at h; subst h
          have := rty_zero_in ty (by simpa using hnz)
          simp [this]
    | float name =>
      simp only [dflt, hget, Except.ok.injEq] at h; subst h
      unfold tyB; simp [hget]
    | string =>
      simp only [dflt, hget, Except.ok.injEq] at h; subst h
      unfold tyB; simp [hget]
    | jsonValue =>
      simp only [dflt, hget, Except.ok.injEq] at h; subst h
      unfold tyB; simp [hget]
    | box t' =>
      simp only [dflt, hget] at h
      unfold tyB; simp only [hget]
      exact ihDflt _ _ h
    | tuple ts =>
      simp only [dflt, hget] at h
      unfold tyB; simp only [hget]
      split at h
      · rename_i vs hm
        simp only [Except.ok.injEq] at h; subst h
        exact mapM'_zipTy ihDflt hm
      · simp at h
    | array t' n =>
      simp only [dflt, hget] at h
      unfold tyB; simp only [hget]
      split at h
      · rename_i w hw
        simp only [Except.ok.injEq] at h; subst h
        simp only [List.length_replicate, decide_true, Bool.true_and, List.all_eq_true]
        intro b hb
        rw [List.eq_of_mem_replicate hb]
        exact ihDflt _ _ hw
      · simp at h
    | struct name props deny dflt' =>
      cases dflt' with
      | some d =>
        simp only [dflt, hget] at h
        split at h
        · simp at h
        · exact tyB_mono σ _ _ _ (ihDe _ _ _ h)
      | none =>
        simp only [dflt, hget] at h
        unfold tyB; simp only [hget]
        split at h
        · rename_i fs hm
          simp only [Except.ok.injEq] at h; subst h
          simp only
          refine mapM'_fieldsTy' hm ?_
          intro p r hG
          split at hG
          · simp at hG
          · split at hG
            · rename_i a ha
              simp only [Except.ok.injEq] at hG; subst hG
              exact tyOrNone_of (ihDflt _ _ ha)
            · simp at hG
          · split at hG
            · rename_i a ha
              simp only [Except.ok.injEq] at hG; subst hG
              exact tyOrNone_of (ihDe _ _ _ ha)
            · simp at hG
            · simp at hG
        · simp at h
    | enum name tag variants deny dflt' bes =>
      cases dflt' with
      | some d =>
        simp only [dflt, hget] at h
        split at h
        · simp at h
        · exact tyB_mono σ _ _ _ (ihDe _ _ _ h)
      | none => simp [dflt, hget] at h
    | newtype name inner c dflt' =>
      cases dflt' with
      | some d =>
        simp only [dflt, hget] at h
        split at h
        · simp at h
        · exact tyB_mono σ _ _ _ (ihDe _ _ _ h)
      | none => simp [dflt, hget] at h
    | native n ps => simp [dflt, hget] at h
    | reference r => simp [dflt, hget] at h

/-- the `Option` arm of `deFlat`, with the nested-option test as a Boolean -/
theorem deFlat_option_eq (x : Ext) {σ : Space} {t t' : Id} {ed : List String} {im : List Impl}
    (hget : σ.get t = some ⟨.option t', ed, im⟩) (f : Nat) (c : List (String × Json)) :
    deFlat x σ (f + 1) t c =
      (if isOption σ t' then (.error .unsupported, c)
       else match deFlat x σ f t' c with
         | (.ok v, c') => (.ok (.some v), c')
         | (.error .reject, c') => (.ok .none, c')
         | (.error e, c') => (.error e, c')) := by
  simp only [deFlat, hget]
  cases hg' : σ.get t' with
  | none => simp [isOption, hg'] <;> rfl
  | some e' =>
    obtain ⟨d', ed', im'⟩ := e'
    cases d' <;> simp [isOption, hg'] <;> rfl

theorem flat_ty_step (x : Ext) (σ : Space) (f : Nat) (ih : ProdTy x σ f) :
    ∀ t c v c', deFlat x σ (f + 1) t c = (.ok v, c') → tyB σ (f + 1) t v = true := by
  obtain ⟨ihDe, ihVar, ihStruct, ihDflt, ihFlat⟩ := ih
  intro t c v c' h
  cases hget : σ.get t with
  | none => simp [deFlat, hget] at h
  | some ent =>
    obtain ⟨det, ed, im⟩ := ent
    cases det with
    | struct n props deny d =>
      simp only [deFlat, hget] at h
      unfold tyB; simp only [hget]
      split at h
      · simp only [Prod.mk.injEq] at h
        obtain ⟨fs, rfl, hfs⟩ := ihStruct _ _ _ _ h.1
        exact hfs
      · simp only [Prod.mk.injEq] at h
        obtain ⟨fs, rfl, hfs⟩ := ihStruct _ _ _ _ h.1
        exact hfs
    | map k vt =>
      rw [deFlat_map_eq x σ hget, Prod.mk.injEq] at h
      exact de_ty_step x σ f ⟨ihDe, ihVar, ihStruct, ihDflt, ihFlat⟩ _ _ _ h.1
    | option t' =>
      rw [deFlat_option_eq x hget] at h
      unfold tyB; simp only [hget, Bool.or_eq_true]
      cases hio : isOption σ t' with
      | true => rw [hio] at h; simp at h
      | false =>
        rw [hio] at h; simp only [Bool.false_eq_true, if_false] at h ⊢
        cases hrec : deFlat x σ f t' c with
        | mk r c1 =>
          rw [hrec] at h
          cases r with
          | ok w =>
            simp only [Prod.mk.injEq, Except.ok.injEq] at h
            obtain ⟨rfl, _⟩ := h
            exact Or.inr (ihFlat _ _ _ _ hrec)
          | error e =>
            cases e <;> simp only [Prod.mk.injEq, Except.ok.injEq] at h <;> try (exact absurd h.1 (by simp))
            obtain ⟨rfl, _⟩ := h
            exact Or.inl rfl
    | box t' =>
      simp only [deFlat, hget] at h
      unfold tyB; simp only [hget]
      exact ihFlat _ _ _ _ h
    | newtype n inner cst d =>
      unfold tyB; simp only [hget]
      cases cst with
      | none => simp only [deFlat, hget] at h; exact ihFlat _ _ _ _ h
      | _ => simp [deFlat, hget] at h
    | «enum» n tag vs deny d b =>
      cases tag with
      | untagged =>
        simp only [deFlat, hget, Prod.mk.injEq] at h
        exact tyB_mono σ _ _ _ (ihDe _ _ _ h.1)
      | internal tg =>
        simp only [deFlat, hget, Prod.mk.injEq] at h
        exact tyB_mono σ _ _ _ (ihDe _ _ _ h.1)
      | _ => simp [deFlat, hget] at h
    | _ => simp [deFlat, hget] at h

theorem prodTy (x : Ext) (σ : Space) : ∀ f, ProdTy x σ f := by
  intro f
  induction f with
  | zero =>
    refine ⟨?_, ?_, ?_, ?_, ?_⟩
    · intro t j v h; simp [de] at h
    · intro d deny so j p h; simp [deVariantBody] at h
    · intro ps deny j v h; simp [deStruct] at h
    · intro t v h; simp [dflt] at h
    · intro t c v c' h; simp [deFlat] at h
  | succ f ih =>
    exact ⟨de_ty_step x σ f ih, var_ty_step x σ f ih, struct_ty_step x σ f ih, dflt_ty_step x σ f ih, flat_ty_step x σ f ih⟩

/-- everything `de` produces is a well-formed value of the type -/
theorem de_ty (x : Ext) (σ : Space) {f : Nat} {t : Id} {j : Json} {v : Val} (h : de x σ f t j = .ok v) :
    tyB σ f t v = true := (prodTy x σ f).1 t j v h

/-- so is `Default::default()` -/
theorem dflt_ty (x : Ext) (σ : Space) {f : Nat} {t : Id} {v : Val} (h : dflt x σ f t = .ok v) :
    tyB σ f t v = true := (prodTy x σ f).2.2.2.1 t v h

end TypifyModel.WireEq

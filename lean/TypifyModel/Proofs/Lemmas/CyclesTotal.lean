import TypifyModel.Proofs.Lemmas.CyclesFrame
/-! C07, fuel: on a well-formed graph the active chain consists of distinct ids below `next_id`, so
    its length — the recursion depth — never exceeds `next_id`. -/
namespace TypifyModel.Cycles

theorem chain_length_le {N : Nat} {l : List Nat} (hn : l.Nodup) (hb : ∀ a ∈ l, a < N) :
    l.length ≤ N := by
  have := hn.length_le_of_subset (l₂ := List.range N) (fun a ha => List.mem_range.mpr (hb a ha))
  simpa using this

theorem visitList_total {f : Nat → St → Option St} {P : St → Prop}
    (hp : ∀ c s s', f c s = some s' → P s → P s') :
    ∀ (cs : List Nat), (∀ c ∈ cs, ∀ s, P s → ∃ s', f c s = some s') →
    ∀ (s : St), P s → ∃ s', visitList f cs s = some s'
  | [], _, s, _ => ⟨s, rfl⟩
  | c :: cs, ht, s, hs => by
    obtain ⟨s1, h1⟩ := ht c (by simp) s hs
    obtain ⟨s2, h2⟩ := visitList_total hp cs (fun d hd => ht d (by simp [hd])) s1 (hp c s s1 h1 hs)
    exact ⟨s2, by simp only [visitList, h1, h2]⟩

/-- children of an entry that was not visited yet are entries of the original graph -/
theorem frame_children {g0 g : G} {visited : List Nat} (hw : WF g0) (hf : Frame g0 g visited)
    {u : Nat} {node : Node} (hv : u ∉ visited) (hu : g.get u = some node) :
    ∀ c ∈ node.childIds, c < g0.next := by
  intro c hc
  cases h0 : g0.get u with
  | some n0 =>
    have := hf.unvisited u n0 h0 hv
    rw [hu] at this; cases this
    obtain ⟨m, hm⟩ := hw.children u c ⟨node, h0, hc⟩
    exact hw.keys c m hm
  | none =>
    rcases hf.onlyBox.new u h0 with h | ⟨_, d, h⟩
    · rw [hu] at h; cases h
    · rw [hu] at h; cases h
      simp [Node.childIds] at hc

theorem visit_total {g0 : G} (hw : WF g0) : ∀ (fuel : Nat) (act : List Nat) (u : Nat) (s : St),
    Frame g0 s.g s.visited → act.Nodup → (∀ a ∈ act, a < g0.next) → u ∉ act → u < g0.next →
    g0.next < fuel + act.length → ∃ s', visit fuel act u s = some s'
  | 0, act, u, _, _, hn, hb, hua, hu, hfuel => by
    have : (u :: act).length ≤ g0.next :=
      chain_length_le (List.nodup_cons.mpr ⟨hua, hn⟩) (fun a ha => by
        rcases List.mem_cons.mp ha with rfl | ha
        · exact hu
        · exact hb a ha)
    simp only [List.length_cons] at this
    omega
  | fuel + 1, act, u, s, hf, hn, hb, hua, hu, hfuel => by
    rw [visit_succ]
    split
    · exact ⟨_, rfl⟩
    · rename_i hv
      split
      · exact ⟨_, rfl⟩
      · rename_i node hnode
        have hch := frame_children hw hf hv hnode
        have hn' : (u :: act).Nodup := List.nodup_cons.mpr ⟨hua, hn⟩
        have hb' : ∀ a ∈ u :: act, a < g0.next := fun a ha => by
          rcases List.mem_cons.mp ha with rfl | ha
          · exact hu
          · exact hb a ha
        have h1 : Frame g0 (startG s.g (u :: act) u node) (u :: s.visited) :=
          start_frame hf hv hnode
        obtain ⟨s2, h2⟩ := visitList_total (P := fun s => Frame g0 s.g s.visited)
          (f := fun c s => visit fuel (u :: act) c s)
          (fun c s s' h hp => visit_frame fuel (u :: act) c s s' h hp)
          ((node.childIds.filter (fun c => !decide (c ∈ u :: act))).reverse)
          (fun c hc s hs => by
            have hm := List.mem_filter.mp (List.mem_reverse.mp hc)
            exact visit_total hw fuel (u :: act) c s hs hn' hb' (by simpa using hm.2)
              (hch c hm.1) (by simp only [List.length_cons]; omega))
          { g := startG s.g (u :: act) u node, visited := u :: s.visited, fin := s.fin } h1
        rw [h2]
        exact ⟨_, rfl⟩

theorem breakCyclesSt_total {g : G} {lo hi : Nat} (hw : WF g) (hhi : hi ≤ g.next) :
    ∃ s, breakCyclesSt (g.next + 1) g lo hi = some s :=
  visitList_total (P := fun s => Frame g s.g s.visited)
    (fun c s s' h hp => visit_frame (g.next + 1) [] c s s' h hp) _
    (fun c hc s hs => visit_total hw (g.next + 1) [] c s hs List.nodup_nil
      (fun _ ha => by simp at ha) (by simp)
      (Nat.lt_of_lt_of_le (mem_roots.mp hc).2 hhi) (by simp))
    _ (Frame.init hw.keys)

end TypifyModel.Cycles

import TypifyModel.Proofs.Lemmas.MergeArr
/-! C09: objects (`merge_so_object`, `filter_prop`, `merge_additional`, `merge_additional_properties`). -/
set_option linter.unusedSimpArgs false
set_option linter.unusedVariables false
namespace TypifyModel.Merge
open TypifyModel TypifyModel.Validate

variable {x : Ext} {d : Doc}

/-- verdict of `additionalProperties` on a member -/
def addlV (g : Schema → Json → Option Bool) (ad : Additional Schema) (w : Json) : Option Bool :=
  match ad with
  | .open_ => some true
  | .closed => some false
  | .schema s => g s w

/-- verdict on one member of an object -/
def hereV (g : Schema → Json → Option Bool) (ps : List (String × Schema)) (ad : Additional Schema)
    (k : String) (w : Json) : Option Bool :=
  match ps.find? (fun p => p.1 == k) with
  | some q => g q.2 w
  | none => addlV g ad w

theorem membersV_cons (g : Schema → Json → Option Bool) (ps : List (String × Schema)) (ad : Additional Schema)
    (k : String) (w : Json) (r : List (String × Json)) :
    membersV g ps ad ((k, w) :: r) = and3 (hereV g ps ad k w) (membersV g ps ad r) := by
  simp only [membersV, hereV, addlV]
  cases ps.find? (fun p => p.1 == k) with
  | none => cases ad <;> rfl
  | some q => rfl

theorem addlV_mono {g g' : Schema → Json → Option Bool} (hg : ∀ s, Le (g s) (g' s)) (ad : Additional Schema) (w : Json)
    {r : Bool} (h : addlV g ad w = some r) : addlV g' ad w = some r := by
  cases ad with
  | open_ => exact h
  | closed => exact h
  | schema s => exact hg s w r h

theorem hereV_mono {g g' : Schema → Json → Option Bool} (hg : ∀ s, Le (g s) (g' s)) (ps : List (String × Schema))
    (ad : Additional Schema) (k : String) (w : Json) {r : Bool} (h : hereV g ps ad k w = some r) :
    hereV g' ps ad k w = some r := by
  unfold hereV at h ⊢
  cases hf : ps.find? (fun p => p.1 == k) with
  | none => rw [hf] at h; exact addlV_mono hg ad w h
  | some q => rw [hf] at h; exact hg _ _ _ h

theorem members_inter {pa pb pm : List (String × Schema)} {da db dm : Additional Schema}
    (hk : ∀ k w f2 f3 ha hb, hereV (valid x d f2) pa da k w = some ha → hereV (valid x d f3) pb db k w = some hb →
      ∃ f1, hereV (valid x d f1) pm dm k w = some (ha && hb)) :
    ∀ (kvs : List (String × Json)) (f2 f3 : Nat) (ma mb : Bool), membersV (valid x d f2) pa da kvs = some ma →
      membersV (valid x d f3) pb db kvs = some mb → ∃ f1, membersV (valid x d f1) pm dm kvs = some (ma && mb) := by
  intro kvs
  induction kvs with
  | nil =>
    intro f2 f3 ma mb h2 h3
    simp only [membersV, Option.some.injEq] at h2 h3
    subst h2 h3
    exact ⟨0, rfl⟩
  | cons kv rest ih =>
    intro f2 f3 ma mb h2 h3
    obtain ⟨k, w⟩ := kv
    rw [membersV_cons] at h2 h3
    obtain ⟨pa', qa, hpa, hqa, rfl⟩ := and3_some h2
    obtain ⟨pb', qb, hpb, hqb, rfl⟩ := and3_some h3
    obtain ⟨g1, hg1⟩ := hk k w f2 f3 pa' pb' hpa hpb
    obtain ⟨g2, hg2⟩ := ih f2 f3 qa qb hqa hqb
    refine ⟨max g1 g2, ?_⟩
    rw [membersV_cons, hereV_mono (fun s => valid_le x d (Nat.le_max_left g1 g2) s) pm dm k w hg1,
      membersV_mono (fun s => valid_le x d (Nat.le_max_right g1 g2) s) pm dm rest _ hg2, and3_eq]
    cases pa' <;> cases pb' <;> cases qa <;> cases qb <;> rfl

theorem members_mem {g : Schema → Json → Option Bool} {ps : List (String × Schema)} {ad : Additional Schema} :
    ∀ {kvs : List (String × Json)}, membersV g ps ad kvs = some true → ∀ k w, (k, w) ∈ kvs → hereV g ps ad k w = some true := by
  intro kvs
  induction kvs with
  | nil => intro _ k w h; simp at h
  | cons kv rest ih =>
    intro h k w hm
    obtain ⟨k0, w0⟩ := kv
    rw [membersV_cons] at h
    obtain ⟨h1, h2⟩ := and3_true' h
    simp only [List.mem_cons, Prod.mk.injEq] at hm
    rcases hm with ⟨rfl, rfl⟩ | hm
    · exact h1
    · exact ih h2 k w hm

theorem lookup_mem' {kvs : List (String × Json)} {k : String} {j : Json}
    (h : Json.lookup kvs k = some j) : (k, j) ∈ kvs := by
  induction kvs with
  | nil => simp [Json.lookup] at h
  | cons a r ih =>
    obtain ⟨k', v'⟩ := a
    simp only [Json.lookup] at h
    split at h
    · rename_i hk; simp only [Option.some.injEq] at h; subst h; subst hk; simp
    · simp [ih h]

/-! ### required -/

theorem unionReq_all (ra rb : List String) (P : String → Bool) :
    (unionReq ra rb).all P = (ra.all P && rb.all P) := by
  apply Bool.eq_iff_iff.mpr
  simp only [unionReq, List.all_append, Bool.and_eq_true, List.all_eq_true, List.mem_filter, Bool.not_eq_true',
    List.contains_eq_mem, decide_eq_false_iff_not]
  constructor
  · rintro ⟨h1, h2⟩
    refine ⟨h1, fun r hr => ?_⟩
    by_cases hm : r ∈ ra
    · exact h1 r hm
    · exact h2 r ⟨hr, hm⟩
  · rintro ⟨h1, h2⟩
    exact ⟨h1, fun r hr => h2 r hr.1⟩

theorem unionReq_contains {ra rb : List String} {k : String} (h : (unionReq ra rb).contains k = true) :
    k ∈ ra ∨ k ∈ rb := by
  simp only [unionReq, List.contains_eq_mem, List.mem_append, List.mem_filter, decide_eq_true_eq] at h
  rcases h with h | h
  · exact Or.inl h
  · exact Or.inr h.1

/-! ### additionalProperties -/

theorem addlMerge_inter {rec : Schema → Schema → MR} (hrec : RecOK x d rec) {da db dm : Additional Schema}
    (h : addlMerge rec da db = some (dm, [])) (w : Json) (f2 f3 : Nat) (ha hb : Bool)
    (h2 : addlV (valid x d f2) da w = some ha) (h3 : addlV (valid x d f3) db w = some hb) :
    ∃ f1, addlV (valid x d f1) dm w = some (ha && hb) := by
  unfold addlMerge at h
  cases da with
  | open_ =>
    simp only [Option.some.injEq, Prod.mk.injEq, and_true] at h
    subst h
    simp only [addlV, Option.some.injEq] at h2
    subst h2
    exact ⟨f3, by simpa using h3⟩
  | closed =>
    simp only [Option.some.injEq, Prod.mk.injEq, and_true] at h
    subst h
    simp only [addlV, Option.some.injEq] at h2
    subst h2
    exact ⟨0, rfl⟩
  | schema s =>
    cases db with
    | open_ =>
      simp only [Option.some.injEq, Prod.mk.injEq, and_true] at h
      subst h
      simp only [addlV, Option.some.injEq] at h3
      subst h3
      exact ⟨f2, by simpa using h2⟩
    | closed =>
      simp only [Option.some.injEq, Prod.mk.injEq, and_true] at h
      subst h
      simp only [addlV, Option.some.injEq] at h3
      subst h3
      exact ⟨0, by simp [addlV]⟩
    | schema t =>
      simp only at h
      have hspec := hrec s t
      simp only [addlV] at h2 h3
      cases hr : rec s t with
      | unsup => rw [hr] at h; simp at h
      | ok m g =>
        rw [hr] at h hspec
        simp only [Option.some.injEq, Prod.mk.injEq] at h
        obtain ⟨rfl, rfl⟩ := h
        exact hspec w f2 f3 ha hb h2 h3
      | never g =>
        rw [hr] at h hspec
        simp only [Option.some.injEq, Prod.mk.injEq] at h
        obtain ⟨rfl, rfl⟩ := h
        refine ⟨0, ?_⟩
        simp only [addlV, Option.some.injEq]
        symm
        apply false_of_not_both
        rintro ⟨rfl, rfl⟩
        exact hspec w f2 f3 ⟨h2, h3⟩

/-! ### one-sided properties -/

theorem isNever_eq {s : Schema} (h : isNever s = true) : s = .never := by
  cases s <;> simp [isNever] at h ⊢

theorem oneSided_ok {dx : Additional Schema} {s m : Schema} (h : liftS (filterProp dx s) = .ok m [])
    (w : Json) (f2 f3 : Nat) (ha hb : Bool) (hs : valid x d f2 s w = some ha)
    (hd : addlV (valid x d f3) dx w = some hb) : ∃ f1, valid x d f1 m w = some (ha && hb) := by
  unfold liftS at h
  split at h
  · simp at h
  · simp only [MR.ok.injEq, and_true] at h
    subst h
    cases dx with
    | open_ =>
      simp only [addlV, Option.some.injEq] at hd
      subst hd
      exact ⟨f2, by simpa [filterProp] using hs⟩
    | closed => rename_i hn; simp [filterProp, isNever] at hn
    | schema t =>
      simp only [addlV] at hd
      refine ⟨max f2 f3 + 1, ?_⟩
      simp only [filterProp]
      rw [valid_allOf]
      simp only [allV]
      rw [valid_mono x d (Nat.le_max_left f2 f3) hs, valid_mono x d (Nat.le_max_right f2 f3) hd]
      simp only [and3, Bool.and_true, Option.some.injEq]
      exact Bool.and_comm _ _

theorem oneSided_never {dx : Additional Schema} {s : Schema} (h : liftS (filterProp dx s) = .never [])
    (w : Json) (f2 f3 : Nat) (ha hb : Bool) (hs : valid x d f2 s w = some ha)
    (hd : addlV (valid x d f3) dx w = some hb) : (ha && hb) = false := by
  unfold liftS at h
  split at h
  · rename_i hn
    cases dx with
    | open_ =>
      simp only [filterProp] at hn
      rw [isNever_eq hn] at hs
      obtain ⟨f', rfl⟩ := ne_zero_of_valid hs
      rw [valid_never] at hs
      simp only [Option.some.injEq] at hs
      subst hs; rfl
    | closed =>
      simp only [addlV, Option.some.injEq] at hd
      subst hd; simp
    | schema t => simp [filterProp, isNever] at hn
  · simp at h

/-! ### `collect` -/

theorem find_key {ps : List (String × Schema)} {k : String} {q : String × Schema}
    (h : ps.find? (fun p => p.1 == k) = some q) : q.1 = k ∧ q ∈ ps := by
  have h1 := List.find?_some h
  exact ⟨by simpa using h1, List.mem_of_find?_eq_some h⟩

theorem find_none_iff {ps : List (String × Schema)} {k : String} :
    ps.find? (fun p => p.1 == k) = none ↔ k ∉ ps.map (·.1) := by
  simp only [List.find?_eq_none, beq_iff_eq, List.mem_map, not_exists, not_and]

theorem collect_ok {req : List String} {cl : Bool} : ∀ (items : List (String × MR)) (pm : List (String × Schema)),
    collect req cl items = .ok pm [] → (items.map (·.1)).Nodup →
    (∀ k r, (k, r) ∈ items →
      (∃ m, r = .ok m [] ∧ pm.find? (fun p => p.1 == k) = some (k, m)) ∨
      (r = .never [] ∧ req.contains k = false ∧
        pm.find? (fun p => p.1 == k) = (if cl then none else some (k, Schema.never)))) ∧
    (∀ k, k ∉ items.map (·.1) → pm.find? (fun p => p.1 == k) = none) := by
  intro items
  induction items with
  | nil =>
    intro pm h _
    simp only [collect, PR.ok.injEq, and_true] at h
    subst h
    exact ⟨fun k r hm => by simp at hm, fun k _ => rfl⟩
  | cons it rest ih =>
    intro pm h hnd
    obtain ⟨k0, r0⟩ := it
    simp only [List.map_cons, List.nodup_cons] at hnd
    obtain ⟨hk0, hnd'⟩ := hnd
    simp only [collect] at h
    cases r0 with
    | unsup => simp at h
    | never g =>
      simp only at h
      split at h
      · simp at h
      · rename_i hreq
        cases hc : collect req cl rest with
        | unsup => rw [hc] at h; simp at h
        | never g' => rw [hc] at h; simp at h
        | ok ps g' =>
          rw [hc] at h
          simp only [PR.ok.injEq, List.append_eq_nil_iff] at h
          obtain ⟨hpm, rfl, rfl⟩ := h
          obtain ⟨ih1, ih2⟩ := ih ps hc hnd'
          have hps0 : ps.find? (fun p => p.1 == k0) = none := ih2 k0 hk0
          refine ⟨?_, ?_⟩
          · intro k r hm
            simp only [List.mem_cons, Prod.mk.injEq] at hm
            rcases hm with ⟨rfl, rfl⟩ | hm
            · right
              refine ⟨rfl, by simpa using hreq, ?_⟩
              subst hpm
              cases cl with
              | true => simpa using hps0
              | false => simp [List.find?_cons]
            · have hne : k ≠ k0 := by
                intro he; subst he
                exact hk0 (List.mem_map.mpr ⟨(k, r), hm, rfl⟩)
              have hfind : pm.find? (fun p => p.1 == k) = ps.find? (fun p => p.1 == k) := by
                subst hpm
                cases cl with
                | true => rfl
                | false =>
                  simp only [Bool.false_eq_true, if_false]
                  rw [List.find?_cons_of_neg]
                  simpa using fun he => hne he.symm
              rw [hfind]
              exact ih1 k r hm
          · intro k hk
            simp only [List.map_cons, List.mem_cons, not_or] at hk
            subst hpm
            cases cl with
            | true => exact ih2 k hk.2
            | false =>
              simp only [Bool.false_eq_true, if_false]
              rw [List.find?_cons_of_neg]
              · exact ih2 k hk.2
              · simpa using fun he => hk.1 he.symm
    | ok m g =>
      simp only at h
      cases hc : collect req cl rest with
      | unsup => rw [hc] at h; simp at h
      | never g' => rw [hc] at h; simp at h
      | ok ps g' =>
        rw [hc] at h
        simp only [PR.ok.injEq, List.append_eq_nil_iff] at h
        obtain ⟨rfl, rfl, rfl⟩ := h
        obtain ⟨ih1, ih2⟩ := ih ps hc hnd'
        refine ⟨?_, ?_⟩
        · intro k r hm
          simp only [List.mem_cons, Prod.mk.injEq] at hm
          rcases hm with ⟨rfl, rfl⟩ | hm
          · left; exact ⟨m, rfl, by simp [List.find?_cons]⟩
          · have hne : k ≠ k0 := by
              intro he; subst he
              exact hk0 (List.mem_map.mpr ⟨(k, r), hm, rfl⟩)
            rw [List.find?_cons_of_neg]
            · exact ih1 k r hm
            · simpa using fun he => hne he.symm
        · intro k hk
          simp only [List.map_cons, List.mem_cons, not_or] at hk
          rw [List.find?_cons_of_neg]
          · exact ih2 k hk.2
          · simpa using fun he => hk.1 he.symm

theorem collect_never {req : List String} {cl : Bool} : ∀ (items : List (String × MR)),
    collect req cl items = .never [] → ∃ k, (k, MR.never []) ∈ items ∧ req.contains k = true := by
  intro items
  induction items with
  | nil => intro h; simp [collect] at h
  | cons it rest ih =>
    intro h
    obtain ⟨k0, r0⟩ := it
    simp only [collect] at h
    cases r0 with
    | unsup => simp at h
    | never g =>
      simp only at h
      split at h
      · rename_i hreq
        simp only [PR.never.injEq] at h
        subst h
        exact ⟨k0, by simp, hreq⟩
      · cases hc : collect req cl rest with
        | unsup => rw [hc] at h; simp at h
        | ok ps g' => rw [hc] at h; simp at h
        | never g' =>
          rw [hc] at h
          simp only [PR.never.injEq, List.append_eq_nil_iff] at h
          obtain ⟨rfl, rfl⟩ := h
          obtain ⟨k, hk, hr⟩ := ih hc
          exact ⟨k, by simp [hk], hr⟩
    | ok m g =>
      simp only at h
      cases hc : collect req cl rest with
      | unsup => rw [hc] at h; simp at h
      | ok ps g' => rw [hc] at h; simp at h
      | never g' =>
        rw [hc] at h
        simp only [PR.never.injEq, List.append_eq_nil_iff] at h
        obtain ⟨rfl, rfl⟩ := h
        obtain ⟨k, hk, hr⟩ := ih hc
        exact ⟨k, by simp [hk], hr⟩

theorem nodupKeys_nodup : ∀ (ps : List (String × Schema)), nodupKeys ps = true → (ps.map (·.1)).Nodup := by
  intro ps
  induction ps with
  | nil => intro _; simp
  | cons p r ih =>
    intro h
    simp only [nodupKeys, Bool.and_eq_true, Bool.not_eq_true', List.any_eq_false, beq_iff_eq] at h
    simp only [List.map_cons, List.nodup_cons, List.mem_map, not_exists, not_and]
    exact ⟨fun q hq he => h.1 q hq he, ih h.2⟩

theorem nodup_map_inj {α β : Type} {f : α → β} : ∀ {l : List α}, (l.map f).Nodup →
    ∀ {a b : α}, a ∈ l → b ∈ l → f a = f b → a = b := by
  intro l
  induction l with
  | nil => intro _ a b ha; simp at ha
  | cons c r ih =>
    intro hnd a b ha hb he
    simp only [List.map_cons, List.nodup_cons, List.mem_map, not_exists, not_and] at hnd
    simp only [List.mem_cons] at ha hb
    rcases ha with rfl | ha <;> rcases hb with rfl | hb
    · rfl
    · exact absurd he.symm (hnd.1 b hb)
    · exact absurd he (hnd.1 a ha)
    · exact ih hnd.2 ha hb he

/-! ### the items of `merge_so_object` -/

section items
variable (rec : Schema → Schema → MR) (pa pb : List (String × Schema)) (da db : Additional Schema)

def itemsA : List (String × MR) :=
  pa.map (fun p => (p.1, match pb.find? (fun q => q.1 == p.1) with
                         | some q => rec p.2 q.2
                         | none => liftS (filterProp db p.2)))

def itemsB : List (String × MR) :=
  (pb.filter (fun q => !(pa.any (fun p => p.1 == q.1)))).map (fun q => (q.1, liftS (filterProp da q.2)))

theorem itemsA_keys : (itemsA rec pa pb db).map (·.1) = pa.map (·.1) := by
  simp [itemsA, List.map_map, Function.comp_def]

theorem itemsB_keys : (itemsB pa pb da).map (·.1) = (pb.filter (fun q => !(pa.any (fun p => p.1 == q.1)))).map (·.1) := by
  simp [itemsB, List.map_map, Function.comp_def]

theorem items_nodup (ha : nodupKeys pa = true) (hb : nodupKeys pb = true) :
    ((itemsA rec pa pb db ++ itemsB pa pb da).map (·.1)).Nodup := by
  rw [List.map_append, itemsA_keys, itemsB_keys]
  refine List.nodup_append.mpr ⟨nodupKeys_nodup pa ha, ?_, ?_⟩
  · exact List.Nodup.sublist (List.Sublist.map _ List.filter_sublist) (nodupKeys_nodup pb hb)
  · intro k hka k' hkb
    simp only [List.mem_map, List.mem_filter, Bool.not_eq_true', List.any_eq_false, beq_iff_eq] at hka hkb
    obtain ⟨p, hp, rfl⟩ := hka
    obtain ⟨q, ⟨_, hq⟩, rfl⟩ := hkb
    exact hq p hp

end items

/-- the object case of `merge_inter` / `merge_never` -/
theorem object_spec {rec : Schema → Schema → MR} (hrec : RecOK x d rec)
    (pa : List (String × Schema)) (ra : List String) (da : Additional Schema)
    (pb : List (String × Schema)) (rb : List String) (db : Additional Schema) :
    Spec x d (mergeObject rec pa ra da pb rb db) (.object pa ra da) (.object pb rb db) := by
  unfold mergeObject
  split
  · trivial
  · rename_i hnd
    have hnd' : nodupKeys pa = true ∧ nodupKeys pb = true := by
      revert hnd; cases nodupKeys pa <;> cases nodupKeys pb <;> simp
    obtain ⟨hna, hnb⟩ := hnd'
    simp only
    cases hadd : addlMerge rec da db with
    | none => trivial
    | some dg =>
      obtain ⟨dm, g0⟩ := dg
      simp only
      change Spec x d (match collect (unionReq ra rb) (isClosed dm) (itemsA rec pa pb db ++ itemsB pa pb da) with
        | .ok pm g => MR.ok (.object pm (unionReq ra rb) dm) (g0 ++ g)
        | .never g => MR.never (g0 ++ g)
        | .unsup => MR.unsup) _ _
      have hnodup := items_nodup rec pa pb da db hna hnb
      -- membership of the item for a key
      have memA : ∀ p, p ∈ pa → (p.1, match pb.find? (fun q => q.1 == p.1) with
                         | some q => rec p.2 q.2
                         | none => liftS (filterProp db p.2)) ∈ itemsA rec pa pb db ++ itemsB pa pb da := by
        intro p hp
        exact List.mem_append_left _ (List.mem_map.mpr ⟨p, hp, rfl⟩)
      have memB : ∀ q, q ∈ pb → pa.find? (fun p => p.1 == q.1) = none →
          (q.1, liftS (filterProp da q.2)) ∈ itemsA rec pa pb db ++ itemsB pa pb da := by
        intro q hq hnone
        refine List.mem_append_right _ (List.mem_map.mpr ⟨q, List.mem_filter.mpr ⟨hq, ?_⟩, rfl⟩)
        simp only [Bool.not_eq_true', List.any_eq_false, beq_iff_eq]
        intro p hp he
        have := List.find?_eq_none.mp hnone p hp
        simp [he] at this
      cases hcol : collect (unionReq ra rb) (isClosed dm) (itemsA rec pa pb db ++ itemsB pa pb da) with
      | unsup => trivial
      | ok pm g =>
        simp only
        cases g0 with
        | cons _ _ => trivial
        | nil =>
          cases g with
          | cons _ _ => trivial
          | nil =>
            simp only [List.append_nil]
            obtain ⟨hc1, hc2⟩ := collect_ok _ pm hcol hnodup
            -- per-key lemma
            have hk : ∀ k w f2 f3 ha hb, hereV (valid x d f2) pa da k w = some ha → hereV (valid x d f3) pb db k w = some hb →
                ∃ f1, hereV (valid x d f1) pm dm k w = some (ha && hb) := by
              intro k w f2 f3 ha hb h2 h3
              unfold hereV at h2 h3
              cases hfa : pa.find? (fun p => p.1 == k) with
              | some p =>
                rw [hfa] at h2
                obtain ⟨hpk, hpm⟩ := find_key hfa
                have hitem := memA p hpm
                rw [hpk] at hitem
                cases hfb : pb.find? (fun q => q.1 == k) with
                | some q =>
                  rw [hfb] at h3 hitem
                  simp only at h2 h3 hitem
                  have hspec := hrec p.2 q.2
                  rcases hc1 k _ hitem with ⟨m, hm, hf⟩ | ⟨hm, _, hf⟩
                  · rw [hm] at hspec
                    obtain ⟨f1, hf1⟩ := hspec w f2 f3 ha hb h2 h3
                    exact ⟨f1, by unfold hereV; rw [hf]; exact hf1⟩
                  · rw [hm] at hspec
                    have hfalse : (ha && hb) = false := by
                      apply false_of_not_both
                      rintro ⟨rfl, rfl⟩
                      exact hspec w f2 f3 ⟨h2, h3⟩
                    rw [hfalse]
                    refine ⟨1, ?_⟩
                    unfold hereV; rw [hf]
                    cases hcl : isClosed dm with
                    | true =>
                      simp only [if_true]
                      cases dm <;> simp [isClosed] at hcl
                      rfl
                    | false => simp only [Bool.false_eq_true, if_false]; rfl
                | none =>
                  rw [hfb] at h3 hitem
                  simp only at h2 h3 hitem
                  rcases hc1 k _ hitem with ⟨m, hm, hf⟩ | ⟨hm, _, hf⟩
                  · obtain ⟨f1, hf1⟩ := oneSided_ok hm w f2 f3 ha hb h2 h3
                    exact ⟨f1, by unfold hereV; rw [hf]; exact hf1⟩
                  · rw [oneSided_never hm w f2 f3 ha hb h2 h3]
                    refine ⟨1, ?_⟩
                    unfold hereV; rw [hf]
                    cases hcl : isClosed dm with
                    | true =>
                      simp only [if_true]
                      cases dm <;> simp [isClosed] at hcl
                      rfl
                    | false => simp only [Bool.false_eq_true, if_false]; rfl
              | none =>
                rw [hfa] at h2
                simp only at h2
                cases hfb : pb.find? (fun q => q.1 == k) with
                | some q =>
                  rw [hfb] at h3
                  simp only at h3
                  obtain ⟨hqk, hqm⟩ := find_key hfb
                  have hitem := memB q hqm (by rw [hqk]; exact hfa)
                  rw [hqk] at hitem
                  rcases hc1 k _ hitem with ⟨m, hm, hf⟩ | ⟨hm, _, hf⟩
                  · obtain ⟨f1, hf1⟩ := oneSided_ok hm w f3 f2 hb ha h3 h2
                    exact ⟨f1, by unfold hereV; rw [hf, Bool.and_comm]; exact hf1⟩
                  · rw [Bool.and_comm, oneSided_never hm w f3 f2 hb ha h3 h2]
                    refine ⟨1, ?_⟩
                    unfold hereV; rw [hf]
                    cases hcl : isClosed dm with
                    | true =>
                      simp only [if_true]
                      cases dm <;> simp [isClosed] at hcl
                      rfl
                    | false => simp only [Bool.false_eq_true, if_false]; rfl
                | none =>
                  rw [hfb] at h3
                  simp only at h3
                  have hnk : k ∉ (itemsA rec pa pb db ++ itemsB pa pb da).map (·.1) := by
                    rw [List.map_append, itemsA_keys, itemsB_keys, List.mem_append, not_or]
                    refine ⟨find_none_iff.mp hfa, ?_⟩
                    intro hmem
                    have : k ∈ pb.map (·.1) := by
                      simp only [List.mem_map, List.mem_filter] at hmem ⊢
                      obtain ⟨q, ⟨hq, _⟩, hqk⟩ := hmem
                      exact ⟨q, hq, hqk⟩
                    exact (find_none_iff.mp hfb) this
                  obtain ⟨f1, hf1⟩ := addlMerge_inter hrec hadd w f2 f3 ha hb h2 h3
                  exact ⟨f1, by unfold hereV; rw [hc2 k hnk]; exact hf1⟩
            intro v f2 f3 ba bb h2 h3
            obtain ⟨f2', rfl⟩ := ne_zero_of_valid h2
            obtain ⟨f3', rfl⟩ := ne_zero_of_valid h3
            rw [valid_object] at h2 h3
            cases v with
            | obj kvs =>
              simp only at h2 h3
              obtain ⟨p, q, hp, hq, rfl⟩ := and3_some h2
              obtain ⟨p', q', hp', hq', rfl⟩ := and3_some h3
              obtain ⟨f1, hf1⟩ := members_inter hk kvs f2' f3' q q' hq hq'
              refine ⟨f1 + 1, ?_⟩
              rw [valid_object]
              simp only
              rw [hf1, unionReq_all, and3_eq]
              simp only [Option.some.injEq] at hp hp'
              rw [← hp, ← hp']
              generalize (ra.all fun r => (Json.lookup kvs r).isSome) = c1
              generalize (rb.all fun r => (Json.lookup kvs r).isSome) = c2
              cases c1 <;> cases c2 <;> cases q <;> cases q' <;> rfl
            | _ =>
              simp only [Option.some.injEq] at h2 h3
              subst h2 h3
              exact ⟨1, rfl⟩
      | never g =>
        simp only
        cases g0 with
        | cons _ _ => trivial
        | nil =>
          cases g with
          | cons _ _ => trivial
          | nil =>
            simp only [List.append_nil]
            obtain ⟨k, hkm, hkreq⟩ := collect_never _ hcol
            intro v f2 f3 hh
            obtain ⟨h2, h3⟩ := hh
            obtain ⟨f2', rfl⟩ := ne_zero_of_valid h2
            obtain ⟨f3', rfl⟩ := ne_zero_of_valid h3
            rw [valid_object] at h2 h3
            cases v with
            | obj kvs =>
              simp only at h2 h3
              obtain ⟨h2a, h2b⟩ := and3_true' h2
              obtain ⟨h3a, h3b⟩ := and3_true' h3
              simp only [Option.some.injEq, List.all_eq_true] at h2a h3a
              -- the member k is present
              have hpres : ∃ w, (k, w) ∈ kvs := by
                rcases unionReq_contains hkreq with hr | hr
                · have := h2a k hr
                  obtain ⟨w, hw⟩ := Option.isSome_iff_exists.mp this
                  exact ⟨w, lookup_mem' hw⟩
                · have := h3a k hr
                  obtain ⟨w, hw⟩ := Option.isSome_iff_exists.mp this
                  exact ⟨w, lookup_mem' hw⟩
              obtain ⟨w, hw⟩ := hpres
              have hA := members_mem h2b k w hw
              have hB := members_mem h3b k w hw
              unfold hereV at hA hB
              -- which item is it
              rcases List.mem_append.mp hkm with hmA | hmB
              · obtain ⟨p, hp, hpe⟩ := List.mem_map.mp hmA
                simp only [Prod.mk.injEq] at hpe
                obtain ⟨hpk, hpr⟩ := hpe
                have hfa : pa.find? (fun p => p.1 == k) = some p := by
                  cases hf : pa.find? (fun p => p.1 == k) with
                  | none =>
                    exact absurd (List.mem_map.mpr ⟨p, hp, hpk⟩) (find_none_iff.mp hf)
                  | some p' =>
                    obtain ⟨hp'k, hp'm⟩ := find_key hf
                    -- keys are distinct
                    have hndA := nodupKeys_nodup pa hna
                    have : p' = p := by
                      have h1 := nodup_map_inj hndA hp'm hp (hp'k.trans hpk.symm)
                      exact h1
                    rw [this]
                rw [hfa] at hA
                simp only at hA
                rw [hpk] at hpr
                cases hfb : pb.find? (fun q => q.1 == k) with
                | some q =>
                  rw [hfb] at hB hpr
                  simp only at hB hpr
                  have hspec := hrec p.2 q.2
                  rw [hpr] at hspec
                  exact hspec w f2' f3' ⟨hA, hB⟩
                | none =>
                  rw [hfb] at hB hpr
                  simp only at hB hpr
                  have := oneSided_never hpr w f2' f3' true true hA hB
                  simp at this
              · obtain ⟨q, hq, hqe⟩ := List.mem_map.mp hmB
                simp only [Prod.mk.injEq] at hqe
                obtain ⟨hqk, hqr⟩ := hqe
                obtain ⟨hqm, hqn⟩ := List.mem_filter.mp hq
                have hfa : pa.find? (fun p => p.1 == k) = none := by
                  apply List.find?_eq_none.mpr
                  intro p hp
                  simp only [Bool.not_eq_true', List.any_eq_false, beq_iff_eq] at hqn
                  simp only [beq_iff_eq]
                  intro he
                  exact hqn p hp (he.trans hqk.symm)
                rw [hfa] at hA
                simp only at hA
                have hfb : pb.find? (fun q => q.1 == k) = some q := by
                  cases hf : pb.find? (fun q => q.1 == k) with
                  | none =>
                    exact absurd (List.mem_map.mpr ⟨q, hqm, hqk⟩) (find_none_iff.mp hf)
                  | some q' =>
                    obtain ⟨hq'k, hq'm⟩ := find_key hf
                    have hndB := nodupKeys_nodup pb hnb
                    have : q' = q := nodup_map_inj hndB hq'm hqm (hq'k.trans hqk.symm)
                    rw [this]
                rw [hfb] at hB
                simp only at hB
                have := oneSided_never hqr w f3' f2' true true hB hA
                simp at this
            | _ => simp at h2

end TypifyModel.Merge

import TypifyModel.Proofs.Lemmas.DefaultsLemmas
/-! The simulation behind C06: for a default that `validate_value` accepts, inside `WFDefault`,
    `output_value` renders an expression that is well typed and evaluates to exactly what `Serde.de`
    makes of the default. Induction on the fuel of `validate_value`; one step per IR kind. -/
namespace TypifyModel.Defaults
open TypifyModel TypifyModel.Serde

def Good (x : Ext) (σ : Space) (n : Nat) : Prop :=
  ∀ t d k, validateValue x σ n t d = .ok k → WFDefault x σ n t d = true →
    ∃ e, outputValue x σ n t d = .ok e ∧ hasType σ n e t = true ∧ Rel x σ t d e

theorem rel_of_succ {x : Ext} {σ : Space} {t : Id} {j : Json} {e : RExpr}
    (h : ∀ m, eval x σ (m + 1) e t = de x σ (m + 1) t j ∧ de x σ (m + 1) t j ≠ .error .reject) :
    Rel x σ t j e := by
  intro m
  cases m with
  | zero => simp [eval, de]
  | succ m => exact h m

theorem validateInteger_ok {name : String} {d : Json} {k : DKind} (h : validateInteger name d = .ok k)
    {ty : RTy} (hty : rtyOfName name = some ty) : ∃ v, d = .int v ∧ ty.lo ≤ v ∧ v ≤ ty.hi := by
  unfold validateInteger integerFits at h
  rw [hty] at h
  cases d with
  | int v =>
    refine ⟨v, rfl, ?_⟩
    simp only [asU64, asI64] at h
    by_cases h1 : 0 ≤ v ∧ v ≤ u64Max
    · simp only [h1, and_self, if_true] at h
      by_cases hr : ty.lo ≤ v ∧ v ≤ ty.hi
      · exact hr
      · simp [hr] at h
    · by_cases h2 : i64Min ≤ v ∧ v ≤ i64Max
      · simp only [h1, h2, and_self, if_true, if_false] at h
        by_cases hr : ty.lo ≤ v ∧ v ≤ ty.hi
        · exact hr
        · simp [hr] at h
      · simp [h1, h2] at h
  | _ => simp [asU64, asI64] at h

theorem nz_lo {ty : RTy} (h : ty.isNonZero = true) : 0 ≤ ty.lo := by
  cases ty <;> simp [RTy.isNonZero] at h <;> decide

theorem isOptionTy_false {σ : Space} {t : Id} (h : isOptionTy σ t = false) {α : Type} (A : Id → List String → List Impl → α) (B : α) :
    (match σ.get t with
     | some ⟨.option a, b, c⟩ => A a b c
     | _ => B) = B := by
  unfold isOptionTy at h
  split <;> simp_all

theorem isStringTy_get {σ : Space} {t : Id} (h : isStringTy σ t = true) : ∃ ed im, σ.get t = some ⟨.string, ed, im⟩ := by
  unfold isStringTy at h
  split at h
  · rename_i ed im hg; exact ⟨ed, im, hg⟩
  · simp at h

/-- the scalar and container kinds -/
theorem step_basic (x : Ext) (σ : Space) (n : Nat) (ih : Good x σ n) (t : Id) (d : Json) (k : DKind)
    (det : Details) (ed : List String) (im : List Impl) (hg : σ.get t = some ⟨det, ed, im⟩)
    (hv : validateValue x σ (n + 1) t d = .ok k) (hw : WFDefault x σ (n + 1) t d = true)
    (hdet : match det with | .struct .. => False | .enum .. => False | .map .. => False | _ => True) :
    ∃ e, outputValue x σ (n + 1) t d = .ok e ∧ hasType σ (n + 1) e t = true ∧ Rel x σ t d e := by
  simp only [validateValue, hg] at hv
  simp only [WFDefault, hg] at hw
  cases det with
  | struct => exact hdet.elim
  | «enum» => exact hdet.elim
  | map => exact hdet.elim
  | unit =>
    cases d <;> simp at hv
    refine ⟨.unit, by simp [outputValue, hg], by simp [hasType, hg], rel_of_succ ?_⟩
    intro m; simp [eval, de, hg]
  | boolean =>
    cases d <;> simp at hv
    rename_i b
    refine ⟨.bool b, by simp [outputValue, hg], by simp [hasType, hg], rel_of_succ ?_⟩
    intro m; simp [eval, de, hg]
  | string =>
    cases d <;> simp at hv
    rename_i s
    refine ⟨.str s, by simp [outputValue, hg], by simp [hasType, hg], rel_of_succ ?_⟩
    intro m; simp [eval, de, hg]
  | jsonValue =>
    refine ⟨.fromStr "::serde_json::Value" d, by simp [outputValue, hg], by simp [hasType, hg], rel_of_succ ?_⟩
    intro m; simp [eval, de, hg]
  | native => simp at hw
  | reference => simp at hw
  | integer name =>
    simp only at hv hw
    cases hty : rtyOfName name with
    | none => simp [hty] at hw
    | some ty =>
      obtain ⟨v, rfl, hlo, hhi⟩ := validateInteger_ok hv hty
      have hp := nz_prefix hty
      cases hnz : ty.isNonZero with
      | true =>
        refine ⟨.nonZeroNew name (.int v), by simp [outputValue, hg, numOf, hp, hnz], ?_, rel_of_succ ?_⟩
        · have := nz_lo hnz
          simp [hasType, hg, hty, hnz, hhi]; omega
        · intro m; simp [eval, de, hg, hty, hlo, hhi]
      | false =>
        refine ⟨.numLit (.int v) name, by simp [outputValue, hg, numOf, hp, hnz], ?_, rel_of_succ ?_⟩
        · simp [hasType, hg, hty, hnz, hlo, hhi]
        · intro m; simp [eval, de, hg, hty, hlo, hhi]
  | float name =>
    simp only at hv hw
    have hp : name.startsWith nonZeroPrefix = false := by
      simp only [Bool.or_eq_true, beq_iff_eq] at hw
      rcases hw with rfl | rfl <;> decide +kernel
    cases d <;> simp [isNumber] at hv
    · rename_i v
      refine ⟨.numLit (.int v) name, by simp [outputValue, hg, numOf, hp], by simpa [hasType, hg] using hw, rel_of_succ ?_⟩
      intro m; simp [eval, de, hg]
    · rename_i mm ee
      refine ⟨.numLit (.flt mm ee) name, by simp [outputValue, hg, numOf, hp], by simpa [hasType, hg] using hw, rel_of_succ ?_⟩
      intro m; simp [eval, de, hg]
  | box t' =>
    simp only at hv hw
    obtain ⟨e', ho, hh, hr⟩ := ih t' d k hv hw
    refine ⟨.boxNew e', by simp [outputValue, hg, ho], by simp [hasType, hg, hh], rel_of_succ ?_⟩
    intro m; simp only [eval, de, hg]; exact hr m
  | option t' =>
    simp only [Bool.and_eq_true, Bool.not_eq_true'] at hw
    obtain ⟨hno, hw'⟩ := hw
    by_cases hnull : d = .null
    · subst hnull
      refine ⟨.none, by simp [outputValue, hg], by simp [hasType, hg], rel_of_succ ?_⟩
      intro m; simp [eval, de, hg]
    · have hv' : ∃ k', validateValue x σ n t' d = .ok k' := by
        cases d <;> simp at hnull <;> simp only at hv <;> split at hv <;>
          first | (simp at hv; done) | exact ⟨_, by assumption⟩
      have hw'' : WFDefault x σ n t' d = true := by
        cases d <;> simp at hnull <;> simpa using hw'
      obtain ⟨k', hk'⟩ := hv'
      obtain ⟨e', ho, hh, hr⟩ := ih t' d k' hk' hw''
      refine ⟨.some e', ?_, by simp [hasType, hg, hh, hno], rel_of_succ ?_⟩
      · cases d <;> simp at hnull <;> simp [outputValue, hg, ho]
      · intro m
        have h1 := (hr m).1
        have h2 := (hr m).2
        have hde : de x σ (m + 1) t d = (match de x σ m t' d with | .ok v => .ok (.some v) | .error e => .error e) := by
          cases d <;> simp at hnull <;> simp only [de, hg] <;> exact isOptionTy_false hno _ _
        have hev : eval x σ (m + 1) (.some e') t = (match eval x σ m e' t' with | .ok v => .ok (.some v) | .error e => .error e) := by
          simp only [eval, hg]; exact isOptionTy_false hno _ _
        rw [hde, hev, h1]
        refine ⟨rfl, ?_⟩
        cases hd : de x σ m t' d with
        | ok v => simp
        | error er => simp only; intro hc; apply h2; rw [hd]; simpa using hc
  | newtype name inner c dflt =>
    simp only [Bool.and_eq_true] at hw
    obtain ⟨hc, hw'⟩ := hw
    simp only at hv
    split at hv
    · simp at hv
    · rename_i k' hk'
      split at hv
      · rename_i hcok
        obtain ⟨e', ho, hh, hr⟩ := ih inner d k' hk' hw'
        refine ⟨.newtype name (some e'), by simp [outputValue, hg, ho], by simp [hasType, hg, hh], rel_of_succ ?_⟩
        intro m
        have h1 := (hr m).1
        have h2 := (hr m).2
        cases c with
        | none => simp only [eval, de, hg, h1]; cases hd : de x σ m inner d <;> simp_all
        | string mx mn pat =>
          obtain ⟨ed', im', hgi⟩ := isStringTy_get hc
          cases d <;> simp [constraintOk] at hcok
          rename_i s
          have he' : e' = .str s := by
            cases n with
            | zero => simp [validateValue] at hk'
            | succ n => simp [outputValue, hgi] at ho; exact ho.symm
          subst he'
          cases m with
          | zero => simp [eval, de, hg]
          | succ m => simp [eval, de, hg, hgi, hcok]
        | enumValues vs => simp at hc
        | denyValues vs => simp at hc
      · simp at hv
  | vec t' =>
    simp only at hv hw
    cases d <;> simp at hv
    rename_i xs
    have hall : validateAll (validateValue x σ n t') xs = .ok () := by
      cases xs with
      | nil => rfl
      | cons a r => simp only at hv; split at hv <;> simp_all
    obtain ⟨es, ho, hh, hr⟩ := list_out (R := Rel x σ t') (O := outputValue x σ n t') (H := fun a => hasType σ n a t')
      (fun j k hk hwj => ih t' j k hk hwj) xs hall (by simpa using hw)
    refine ⟨.vecMacro es, by simp [outputValue, hg, ho], by simpa [hasType, hg] using hh, rel_of_succ ?_⟩
    intro m
    obtain ⟨h1, h2⟩ := list_eval (G := fun a => eval x σ m a t') (D := de x σ m t') (forall₂_mono (fun _ _ h => h m) hr)
    simp only [eval, de, hg, h1]
    cases hd : mapM' (de x σ m t') xs <;> simp_all
  | set t' =>
    simp only at hv hw
    cases d <;> simp at hv
    rename_i xs
    have hall : validateAll (validateValue x σ n t') xs = .ok () := by
      cases xs with
      | nil => rfl
      | cons a r =>
        simp only at hv
        split at hv
        · exact validateSet_all _ (by assumption)
        · simp at hv
    obtain ⟨es, ho, hh, hr⟩ := list_out (R := Rel x σ t') (O := outputValue x σ n t') (H := fun a => hasType σ n a t')
      (fun j k hk hwj => ih t' j k hk hwj) xs hall (by simpa using hw)
    refine ⟨.vecMacro es, by simp [outputValue, hg, ho], by simpa [hasType, hg] using hh, rel_of_succ ?_⟩
    intro m
    obtain ⟨h1, h2⟩ := list_eval (G := fun a => eval x σ m a t') (D := de x σ m t') (forall₂_mono (fun _ _ h => h m) hr)
    simp only [eval, de, hg, h1]
    cases hd : mapM' (de x σ m t') xs <;> simp_all
  | array t' len =>
    simp only at hv hw
    cases d <;> simp at hv
    rename_i xs
    by_cases hlen' : xs.length = len
    case neg => simp [hlen'] at hv
    case pos =>
      simp only [hlen'] at hv
      have hall : validateAll (validateValue x σ n t') xs = .ok () := by
        cases hva : validateAll (validateValue x σ n t') xs with
        | ok a => rfl
        | error e => rw [hva] at hv; simp at hv
      obtain ⟨es, ho, hh, hr⟩ := list_out (R := Rel x σ t') (O := outputValue x σ n t') (H := fun a => hasType σ n a t')
        (fun j k hk hwj => ih t' j k hk hwj) xs hall (by simpa using hw)
      have hl := forall₂_length hr
      refine ⟨.array es, by simp [outputValue, hg, ho], by simpa [hasType, hg, hl, hlen'] using hh, rel_of_succ ?_⟩
      intro m
      obtain ⟨h1, h2⟩ := list_eval (G := fun a => eval x σ m a t') (D := de x σ m t') (forall₂_mono (fun _ _ h => h m) hr)
      simp only [eval, de, hg, h1, hl, hlen', if_true]
      cases hd : mapM' (de x σ m t') xs <;> simp_all
  | tuple ts =>
    simp only [validateTuple] at hv
    simp only at hw
    cases d <;> simp at hv
    rename_i xs
    by_cases hlen' : xs.length = ts.length
    case neg => simp [hlen'] at hv
    case pos =>
      simp only [hlen'] at hv
      have hz : validateZip (validateValue x σ n) ts xs = .ok () := by
        cases hva : validateZip (validateValue x σ n) ts xs with
        | ok a => rfl
        | error e => rw [hva] at hv; simp at hv
      obtain ⟨es, ho, hh, hr, hl⟩ := zip_out (R := Rel x σ) (O := outputValue x σ n) (H := fun a t' => hasType σ n a t')
        (fun t' j k hk hwj => ih t' j k hk hwj) ts xs hz (by simpa using hw)
      refine ⟨tupleExpr es, by simp [outputValue, hg, valueForTuple, hlen', ho], ?_, rel_of_succ ?_⟩
      · simp only [tupleExpr, hasType, hg, hh, Bool.and_true]
        cases h1 : es.length == 1 <;> simp_all
      · intro m
        obtain ⟨h1, h2⟩ := zip_eval (G := fun t' a => eval x σ m a t') (D := de x σ m) (rel3_mono (fun t j e h => h m) hr)
        simp only [tupleExpr, eval, de, hg, h1]
        cases hd : zipM (de x σ m) ts xs <;> simp_all

/-- the entries of a map default (key type `String`) -/
theorem map_out (x : Ext) (σ : Space) (n : Nat) (ih : Good x σ n) (k v : Id) {ed : List String} {im : List Impl}
    (hgk : σ.get k = some ⟨.string, ed, im⟩) :
    ∀ kvs, validateMapEntries (validateValue x σ n) k v kvs = .ok () →
      kvs.all (fun kv => WFDefault x σ n v kv.2) = true →
      ∃ es, outMapEntries (outputValue x σ n) k v kvs = .ok es ∧
        es.all (fun ab => hasType σ n ab.1 k && hasType σ n ab.2 v) = true ∧
        Rel2 (fun (ab : RExpr × RExpr) (kv : String × Json) => ab.1 = .str kv.1 ∧ Rel x σ v kv.2 ab.2) es kvs := by
  intro kvs
  induction kvs with
  | nil => intro _ _; exact ⟨[], rfl, rfl, .nil⟩
  | cons kv r ihl =>
    obtain ⟨key, val⟩ := kv
    intro hv hw
    simp only [validateMapEntries] at hv
    simp only [List.all_cons, Bool.and_eq_true] at hw
    split at hv
    · simp at hv
    · rename_i k1 hk1
      split at hv
      · simp at hv
      · rename_i k2 hk2
        obtain ⟨e2, ho2, hh2, hr2⟩ := ih v val k2 hk2 hw.1
        obtain ⟨es, hes, hhs, hrs⟩ := ihl hv hw.2
        cases n with
        | zero => simp [validateValue] at hk1
        | succ n =>
          refine ⟨(.str key, e2) :: es, ?_, ?_, .cons ⟨rfl, hr2⟩ hrs⟩
          · simp only [outMapEntries, ho2, hes]
            simp [outputValue, hgk]
          · simp only [List.all_cons, hhs, hh2, Bool.and_true]
            simp [hasType, hgk]

theorem step_map (x : Ext) (σ : Space) (n : Nat) (ih : Good x σ n) (t : Id) (d : Json) (kd : DKind)
    (k v : Id) (ed : List String) (im : List Impl) (hg : σ.get t = some ⟨.map k v, ed, im⟩)
    (hv : validateValue x σ (n + 1) t d = .ok kd) (hw : WFDefault x σ (n + 1) t d = true) :
    ∃ e, outputValue x σ (n + 1) t d = .ok e ∧ hasType σ (n + 1) e t = true ∧ Rel x σ t d e := by
  simp only [validateValue, hg] at hv
  simp only [WFDefault, hg, Bool.and_eq_true] at hw
  obtain ⟨hks, hw'⟩ := hw
  obtain ⟨edk, imk, hgk⟩ := isStringTy_get hks
  cases d <;> simp at hv
  rename_i kvs
  have hall : validateMapEntries (validateValue x σ n) k v kvs = .ok () := by
    cases kvs with
    | nil => rfl
    | cons a r =>
      simp only at hv
      cases hva : validateMapEntries (validateValue x σ n) k v (a :: r) with
      | ok u => rfl
      | error e => rw [hva] at hv; simp at hv
  obtain ⟨es, ho, hh, hr⟩ := map_out x σ n ih k v hgk kvs hall (by simpa using hw')
  refine ⟨.mapCollect es, by simp [outputValue, hg, ho], by simpa [hasType, hg] using hh, rel_of_succ ?_⟩
  intro m
  simp only [eval, de, hg]
  refine map_finish (mapM'_rel2 ?_ hr)
  intro ab kv hab
  obtain ⟨h1, h2⟩ := hab
  obtain ⟨a1, a2⟩ := ab
  simp only at h1
  subst h1
  obtain ⟨h3, h4⟩ := h2 m
  simp only
  cases m with
  | zero => simp [eval, de]
  | succ m =>
    have e1 : eval x σ (m + 1) (.str kv.1) k = .ok (.str kv.1) := by simp [eval, hgk]
    have e2 : de x σ (m + 1) k (.str kv.1) = .ok (.str kv.1) := by simp [de, hgk]
    rw [e1, e2, h3]
    cases hd : de x σ (m + 1) v kv.2 with
    | ok b => simp
    | error er =>
      simp only
      refine ⟨trivial, ?_⟩
      intro hc
      apply h4
      rw [hd]
      simpa using hc

end TypifyModel.Defaults

import TypifyModel.Proofs.Lemmas.ConvLemmas
/-! The construct-by-construct acceptance lemmas behind `conv_accepts` (C02). -/
namespace TypifyModel.Conv
open TypifyModel TypifyModel.Serde TypifyModel.Validate

variable (x : Serde.Ext) (vx : Validate.Ext) (σ : Space) (d : Doc)

/-- induction hypothesis: at every smaller validity fuel, a type related by `rec` does not reject a
    valid instance -/
def Hrec (rec : Schema → Id → Bool) (n : Nat) : Prop :=
  ∀ m, m < n → ∀ s t v, rec s t = true → valid vx d m s v = some true → ∀ fd, NR (de x σ fd t v)

theorem find_key_eq {props : List (String × Schema)} {k : String} {q : String × Schema}
    (h : props.find? (fun p => p.1 == k) = some q) : q.1 = k ∧ q ∈ props := by
  have := List.find?_some h
  exact ⟨by simpa using this, List.mem_of_find?_eq_some h⟩

theorem dflt_ne_reject : ∀ (f : Nat) (t : Id), NR (dflt x σ f t) := by
  intro f
  induction f with
  | zero => intro t; simp [dflt, NR]
  | succ f ih =>
    intro t
    simp only [dflt]
    split
    · simp [NR]
    · rename_i ent _
      split
      all_goals first
        | (simp [NR]; done)
        | (exact ih _)
        | skip
      · -- integer
        split
        · split <;> simp [NR]
        · simp [NR]
      · -- tuple
        rename_i ts _
        have := mapM'_NR (g := dflt x σ f) (l := ts) (fun a _ => ih a)
        revert this; generalize mapM' (dflt x σ f) ts = r; intro hr
        cases r with
        | ok vs => simp [NR]
        | error e => simp only; intro hc; simp only [Except.error.injEq] at hc; subst hc; exact hr rfl
      · -- array
        rename_i t' n' _
        have := ih t'
        revert this; generalize dflt x σ f t' = r; intro hr
        cases r with
        | ok v => simp [NR]
        | error e => simp only; intro hc; simp only [Except.error.injEq] at hc; subst hc; exact hr rfl
      · -- struct with default
        generalize de x σ f t _ = r
        cases r with
        | ok v => simp [NR]
        | error e => cases e <;> simp [NR]
      · -- struct without default
        rename_i props _ _
        have : NR (mapM' (fun (p : Field) =>
            match p.state with
            | .required => (.error .unsupported : Except E (String × Val))
            | .optional => (match dflt x σ f p.ty with | .ok a => .ok (p.name, a) | .error e => .error e)
            | .dflt dj => (match de x σ f p.ty dj with
                | .ok a => .ok (p.name, a)
                | .error .reject => .error .unsupported
                | .error e => .error e)) props) := by
          apply mapM'_NR
          intro p _
          cases p.state with
          | required => simp [NR]
          | optional =>
            simp only
            have := ih p.ty
            revert this; generalize dflt x σ f p.ty = r; intro hr
            cases r with
            | ok v => simp [NR]
            | error e => simp only; intro hc; simp only [Except.error.injEq] at hc; subst hc; exact hr rfl
          | dflt dj =>
            simp only
            generalize de x σ f p.ty dj = r
            cases r with
            | ok v => simp [NR]
            | error e => cases e <;> simp [NR]
        revert this; generalize mapM' _ props = r; intro hr
        cases r with
        | ok vs => simp [NR]
        | error e => simp only; intro hc; simp only [Except.error.injEq] at hc; subst hc; exact hr rfl
      · generalize de x σ f t _ = r
        cases r with
        | ok v => simp [NR]
        | error e => cases e <;> simp [NR]
      · generalize de x σ f t _ = r
        cases r with
        | ok v => simp [NR]
        | error e => cases e <;> simp [NR]

/-- `Option<T>` does not reject what `T` does not reject -/
theorem de_option_NR {t t' : Id} {ed : List String} {im : List Impl} {f : Nat} {j : Json}
    (hg : σ.get t = some ⟨.option t', ed, im⟩)
    (hno : ∀ t'' ed' im', σ.get t' ≠ some ⟨.option t'', ed', im'⟩)
    (hsub : NR (de x σ f t' j)) : NR (de x σ (f + 1) t j) := by
  simp only [de, hg]
  revert hsub; generalize hr' : de x σ f t' j = r; intro hr
  cases j <;> first
    | (simp [NR]; done)
    | (split
       · rename_i t'' ed' im' hc; exact absurd hc (hno t'' ed' im')
       · cases r with
         | ok v => simp [NR]
         | error e => simp only; intro hc; simp only [Except.error.injEq] at hc; subst hc; exact hr rfl)
    | (cases r with
       | ok v => simp [NR]
       | error e => simp only; intro hc; simp only [Except.error.injEq] at hc; subst hc; exact hr rfl)

/-- the same without the side condition (a nested `Option` is flattened) -/
theorem de_option_NR' {t t' : Id} {ed : List String} {im : List Impl} {f : Nat} {j : Json}
    (hg : σ.get t = some ⟨.option t', ed, im⟩)
    (hsub : NR (de x σ f t' j)) : NR (de x σ (f + 1) t j) := by
  by_cases hopt : ∃ t'' ed' im', σ.get t' = some ⟨.option t'', ed', im'⟩
  · obtain ⟨t'', ed', im', hc⟩ := hopt
    simp only [de, hg, hc]
    cases j <;> first | (simp [NR]; done) | exact hsub
  · exact de_option_NR x σ hg (fun t'' ed' im' hc => hopt ⟨t'', ed', im', hc⟩) hsub

/-- the step that reads one named member of a valid object does not reject -/
theorem member_NR {rec : Schema → Id → Bool} {n m : Nat} (hm : m < n) (hrec : Hrec x vx σ d rec n)
    {props : List (String × Schema)} {req : List String}
    {named : List Field} {kvs : List (String × Json)}
    (hnd : nodupB (named.map (·.wire)) = true)
    (hall : named.all (fun p => props.any (fun q => q.1 == p.wire)) = true)
    (hprops : propsB rec σ named req props = true)
    (hreq : req.all (fun r => (Json.lookup kvs r).isSome) = true)
    (hmem' : ∀ kv ∈ kvs,
      (∃ q, props.find? (fun p => p.1 == kv.1) = some q ∧ valid vx d m q.2 kv.2 = some true) ∨
      props.find? (fun p => p.1 == kv.1) = none)
    (f : Nat) : ∀ p ∈ named, NR (
        match Json.lookup kvs p.wire with
        | some v => (match de x σ f p.ty v with | .ok a => .ok (p.name, a) | .error e => .error e)
        | none =>
          match p.state with
          | .required => if optionLikeT σ p.ty then .ok (p.name, Val.none) else .error .reject
          | .optional => (match dflt x σ f p.ty with | .ok a => .ok (p.name, a) | .error e => .error e)
          | .dflt dj => (match de x σ f p.ty dj with
              | .ok a => .ok (p.name, a)
              | .error .reject => .error .unsupported
              | .error e => .error e) : Except E (String × Val)) := by
  intro p hp
  -- the property this member stands for
  have hpall := (List.all_eq_true.mp hall) p hp
  obtain ⟨q, hqm, hqk⟩ := List.any_eq_true.mp hpall
  have hqk' : q.1 = p.wire := by simpa using hqk
  obtain ⟨p', hp', hcond⟩ := propsB_mem hprops q hqm
  have hpp : p' = p := by
    have := nodupB_find hnd p hp
    rw [hqk'] at hp'
    rw [this] at hp'
    exact (Option.some.inj hp').symm
  subst hpp
  cases hl : Json.lookup kvs p'.wire with
  | some j =>
    simp only
    -- j is valid under the first property with this key
    have hjmem : (p'.wire, j) ∈ kvs := by
      clear hmem' hreq
      induction kvs with
      | nil => simp [Json.lookup] at hl
      | cons a r ih =>
        obtain ⟨k', v'⟩ := a
        simp only [Json.lookup] at hl
        split at hl
        · rename_i hk; simp only [Option.some.injEq] at hl; subst hl; subst hk; simp
        · simp [ih hl]
    rcases hmem' (p'.wire, j) hjmem with ⟨q1, hq1, hvalid⟩ | hnone
    · obtain ⟨hq1k, hq1m⟩ := find_key_eq hq1
      obtain ⟨p1, hp1, hcond1⟩ := propsB_mem hprops q1 hq1m
      have hp1p : p1 = p' := by
        have := nodupB_find hnd p' hp
        simp only at hq1k
        rw [hq1k] at hp1
        rw [this] at hp1
        exact (Option.some.inj hp1).symm
      subst hp1p
      simp only at hvalid
      have hde : NR (de x σ f p1.ty j) := by
        by_cases hr : req.contains q1.1 = true
        · simp only [hr, if_true] at hcond1
          exact hrec m hm q1.2 p1.ty j hcond1 hvalid f
        · simp only [hr, Bool.false_eq_true, if_false] at hcond1
          rcases hcond1.2 with hdir | ⟨t', ed, im, hg, hno, hopt⟩
          · exact hrec m hm q1.2 p1.ty j hdir hvalid f
          · cases f with
            | zero => simp [de, NR]
            | succ f' =>
              exact de_option_NR x σ hg hno (hrec m hm q1.2 t' j hopt hvalid f')
      cases hd : de x σ f p1.ty j with
      | ok a => simp [NR]
      | error e =>
        simp only; intro hc; simp only [Except.error.injEq] at hc; subst hc
        rw [hd] at hde; exact hde rfl
    · simp only at hnone
      have : props.find? (fun p => p.1 == p'.wire) ≠ none := by
        intro hc
        have := List.find?_eq_none.mp hc q hqm
        simp [hqk'] at this
      exact absurd hnone this
  | none =>
    simp only
    cases hst : p'.state with
    | required =>
      simp only
      have hnotreq : req.contains q.1 = false := by
        apply Bool.eq_false_iff.mpr
        intro hc
        have := (List.all_eq_true.mp hreq) q.1 (by simpa using hc)
        rw [hqk', hl] at this
        simp at this
      simp only [hnotreq, Bool.false_eq_true, if_false] at hcond
      have h1 := hcond.1
      simp only [hasDefaultAttr, hst, Bool.false_or] at h1
      simp [h1, NR]
    | optional =>
      simp only
      cases hd : dflt x σ f p'.ty with
      | ok a => simp [NR]
      | error e =>
        simp only
        intro hc; simp only [Except.error.injEq] at hc; subst hc
        -- `dflt` never rejects
        exact absurd hd (dflt_ne_reject x σ f p'.ty)
    | dflt dj =>
      simp only
      cases hd : de x σ f p'.ty dj with
      | ok a => simp [NR]
      | error e => cases e <;> simp [NR]

/-- a map with plain string keys does not reject an object whose member values are valid under the schema its value type
    stands for -/
theorem map_entries_NR {rec : Schema → Id → Bool} {n m : Nat} (hm : m < n) (hrec : Hrec x vx σ d rec n)
    {t k vt : Id} {ed : List String} {im : List Impl} (hget : σ.get t = some ⟨.map k vt, ed, im⟩)
    {edk : List String} {imk : List Impl} (hgk : σ.get k = some ⟨.string, edk, imk⟩)
    {sa : Schema} (hsa : rec sa vt = true) {c : List (String × Json)}
    (hc : ∀ kv ∈ c, valid vx d m sa kv.2 = some true) : ∀ fd, NR (de x σ fd t (.obj c)) := by
  intro fd
  cases fd with
  | zero => simp [de, NR]
  | succ f =>
    simp only [de, hget]
    have : NR (mapM' (fun (kv : String × Json) =>
        match de x σ f k (.str kv.1), de x σ f vt kv.2 with
        | .ok (.str _), .ok b => (.ok (kv.1, b) : Except E (String × Val))
        | .ok (.variant _ _), .ok b => .ok (kv.1, b)
        | .ok _, .ok _ => .error .unsupported
        | .error e, _ => .error e
        | _, .error e => .error e) c) := by
      apply mapM'_NR
      intro kv hkv
      have hval : NR (de x σ f vt kv.2) := hrec m hm sa vt kv.2 hsa (hc kv hkv) f
      cases f with
      | zero => simp [de, NR]
      | succ f' =>
        have hkey : de x σ (f' + 1) k (.str kv.1) = .ok (.str kv.1) := by simp [de, hgk]
        rw [hkey]
        revert hval; generalize de x σ (f' + 1) vt kv.2 = r; intro hr
        cases r with
        | ok b => simp [NR]
        | error e => simp only; intro hc'; simp only [Except.error.injEq] at hc'; subst hc'; exact hr rfl
    revert this; generalize mapM' _ c = r; intro hr
    cases r with
    | ok es => simp [NR]
    | error e => simp only; intro hc'; simp only [Except.error.injEq] at hc'; subst hc'; exact hr rfl

theorem struct_accepts {rec : Schema → Id → Bool} {n m : Nat} (hm : m < n) (hrec : Hrec x vx σ d rec n)
    {props : List (String × Schema)} {req : List String} {addl : Additional Schema}
    {fields : List Field} {deny : Bool} {kvs : List (String × Json)}
    (hb : structB rec σ props req addl fields deny = true)
    (hv : valid vx d (m + 1) (.object props req addl) (.obj kvs) = some true) :
    ∀ fd, NR (deStruct x σ fd fields deny (.obj kvs)) := by
  intro fd
  cases fd with
  | zero => simp [deStruct, NR]
  | succ f =>
    simp only [valid] at hv
    obtain ⟨hreq, hmem⟩ := and3_true hv
    simp only [Option.some.injEq] at hreq
    have hmem' := membersV_spec hmem
    simp only [structB, Bool.or_eq_true] at hb
    rcases hb with hb | hb
    · -- no flattened member
      simp only [structPlainB, Bool.and_eq_true, Bool.not_eq_true'] at hb
      obtain ⟨⟨⟨⟨hfl, hnd⟩, haddl⟩, hall⟩, hprops⟩ := hb
      simp only [deStruct, hfl, Bool.false_eq_true, if_false]
      -- the closed-object check cannot fire
      have hdeny : (deny && kvs.any (fun kv => !(fields.any (fun p => p.wire == kv.1)))) = false := by
        cases deny with
        | false => rfl
        | true =>
          simp only [Bool.true_and]
          apply Bool.eq_false_iff.mpr
          intro hany
          obtain ⟨kv, hkv, hk⟩ := List.any_eq_true.mp hany
          have hclosed : addl = .closed := by
            cases addl with
            | open_ => simp at haddl
            | closed => rfl
            | schema s' => simp at haddl
          rcases hmem' kv hkv with ⟨q, hq, _⟩ | ⟨_, hno⟩
          · obtain ⟨hqk, hqm⟩ := find_key_eq hq
            obtain ⟨p, hp, _⟩ := propsB_mem hprops q hqm
            have hpm := List.mem_of_find?_eq_some hp
            have hpw : p.wire = q.1 := by simpa using List.find?_some hp
            simp only [Bool.not_eq_true', List.any_eq_false] at hk
            have := hk p hpm
            simp [hpw, hqk] at this
          · rw [hclosed] at hno; exact hno rfl
      rw [hdeny]
      simp only [Bool.false_eq_true, if_false]
      have hfield := member_NR x vx σ d hm hrec hnd hall hprops hreq (fun kv hkv => (hmem' kv hkv).imp id (·.1)) f
      have := mapM'_NR (g := fun (p : Field) =>
          match Json.lookup kvs p.wire with
          | some v => (match de x σ f p.ty v with | .ok a => .ok (p.name, a) | .error e => .error e)
          | none =>
            match p.state with
            | .required => if optionLikeT σ p.ty then .ok (p.name, Val.none) else .error .reject
            | .optional => (match dflt x σ f p.ty with | .ok a => .ok (p.name, a) | .error e => .error e)
            | .dflt dj => (match de x σ f p.ty dj with
                | .ok a => .ok (p.name, a)
                | .error .reject => .error .unsupported
                | .error e => .error e)) hfield
      revert this
      generalize mapM' _ fields = r
      intro hr
      cases r with
      | ok fs => simp [NR]
      | error e =>
        simp only; intro hc; simp only [Except.error.injEq] at hc; subst hc; exact hr rfl
    · -- `additionalProperties: <schema>`: named members plus one flattened map
      simp only [structFlatB, Bool.and_eq_true] at hb
      obtain ⟨⟨⟨haddl, hnd⟩, hall⟩, hprops⟩ := hb
      cases addl with
      | open_ => simp at haddl
      | closed => simp at haddl
      | schema sa =>
        simp only [Bool.and_eq_true, Bool.not_eq_true'] at haddl
        obtain ⟨hdn, hflat⟩ := haddl
        subst hdn
        split at hflat
        · rename_i e hfe
          split at hflat
          · rename_i k vt ed' im' hge
            simp only [Bool.and_eq_true] at hflat
            obtain ⟨hk, hsa⟩ := hflat
            split at hk
            · rename_i edk imk hgk
              have hemem : e ∈ fields.filter (fun p => p.rename == .flatten) := by rw [hfe]; simp
              have hefl : hasFlatten fields = true := by
                simp only [List.mem_filter] at hemem
                exact List.any_eq_true.mpr ⟨e, hemem.1, hemem.2⟩
              simp only [deStruct, hefl, if_true]
              have hmemS := membersV_spec_schema hmem
              -- every buffered entry is an additional member, valid under the additional schema
              have hinv : ∀ kv ∈ bufferOf fields kvs, valid vx d m sa kv.2 = some true := by
                intro kv hkv
                simp only [bufferOf, List.mem_filter, Bool.not_eq_true', List.any_eq_false, Bool.and_eq_true,
                  bne_iff_ne, ne_eq, beq_iff_eq, not_and] at hkv
                obtain ⟨hkvm, hnot⟩ := hkv
                rcases hmemS kv hkvm with ⟨q, hq, _⟩ | ⟨_, hva⟩
                · exfalso
                  obtain ⟨hqk, hqm⟩ := find_key_eq hq
                  obtain ⟨p, hp, _⟩ := propsB_mem hprops q hqm
                  have hpm := List.mem_of_find?_eq_some hp
                  have hpw : p.wire = q.1 := by simpa using List.find?_some hp
                  simp only [namedOf, List.mem_filter, bne_iff_ne, ne_eq] at hpm
                  exact hnot p hpm.1 hpm.2 (by rw [hpw, hqk])
                · exact hva
              have hnamed : ∀ p ∈ fields, p.rename ≠ .flatten → NR (
                  match Json.lookup kvs p.wire with
                  | some v => (match de x σ f p.ty v with | .ok a => .ok (p.name, a) | .error e => .error e)
                  | none =>
                    match p.state with
                    | .required => if optionLikeT σ p.ty then .ok (p.name, Val.none) else .error .reject
                    | .optional => (match dflt x σ f p.ty with | .ok a => .ok (p.name, a) | .error e => .error e)
                    | .dflt dj => (match de x σ f p.ty dj with
                        | .ok a => .ok (p.name, a)
                        | .error .reject => .error .unsupported
                        | .error e => .error e) : Except E (String × Val)) := by
                intro p hp hpf
                exact member_NR x vx σ d hm hrec hnd hall hprops hreq (fun kv hkv => (hmem' kv hkv).imp id (·.1)) f p
                  (by simp only [namedOf, List.mem_filter, bne_iff_ne, ne_eq]; exact ⟨hp, hpf⟩)
              have hfold := foldFields_NR_inv
                (named := fun (p : Field) =>
                  match Json.lookup kvs p.wire with
                  | some v => (match de x σ f p.ty v with | .ok a => .ok (p.name, a) | .error e => .error e)
                  | none =>
                    match p.state with
                    | .required => if optionLikeT σ p.ty then .ok (p.name, Val.none) else .error .reject
                    | .optional => (match dflt x σ f p.ty with | .ok a => .ok (p.name, a) | .error e => .error e)
                    | .dflt dj => (match de x σ f p.ty dj with
                        | .ok a => .ok (p.name, a)
                        | .error .reject => .error .unsupported
                        | .error e => .error e))
                (flat := fun (p : Field) c => deFlat x σ f p.ty c)
                (fun c => ∀ kv ∈ c, valid vx d m sa kv.2 = some true)
                fields (bufferOf fields kvs) hinv hnamed
                (by
                  intro p hp hpf c' hc'
                  have hpe : p = e := by
                    have : p ∈ fields.filter (fun p => p.rename == .flatten) := by
                      simp only [List.mem_filter]; exact ⟨hp, by simp [hpf]⟩
                    rw [hfe] at this; simpa using this
                  subst hpe
                  cases f with
                  | zero => exact ⟨by simp [deFlat, NR], by simpa [deFlat] using hc'⟩
                  | succ f' =>
                    rw [deFlat_map_eq x σ hge]
                    exact ⟨map_entries_NR x vx σ d hm hrec hge hgk hsa hc' (f' + 1), hc'⟩)
              revert hfold
              generalize foldFields _ _ fields (bufferOf fields kvs) = r
              intro hfold
              obtain ⟨r1, rest⟩ := r
              cases r1 with
              | error e' => simpa [NR] using hfold
              | ok fs => simp [NR]
            · simp at hk
          · simp at hflat
        · simp at hflat

end TypifyModel.Conv

import TypifyModel.Model.Determinism
/-! Helper lemmas for C12 (ordered maps, insertion sort, hash-set consumers). -/
namespace TypifyModel.Determinism

variable {K V α : Type}

/-! ### `insertSorted` / `toMap` -/

/-- two inserts with different keys commute, on any list -/
theorem insertSorted_comm [DecidableEq K] (o : LinOrd K) (k1 k2 : K) (v1 v2 : V) (hne : k1 ≠ k2)
    (m : List (K × V)) :
    insertSorted o k1 v1 (insertSorted o k2 v2 m) = insertSorted o k2 v2 (insertSorted o k1 v1 m) := by
  have anti := o.antisymm
  have tr := o.trans
  have tot := o.total
  induction m with
  | nil => grind [insertSorted]
  | cons kv rest ih =>
    obtain ⟨k', v'⟩ := kv
    grind [insertSorted]

theorem mem_keys_insertSorted [DecidableEq K] (o : LinOrd K) (k : K) (v : V) (m : List (K × V)) (k' : K) :
    k' ∈ (insertSorted o k v m).map (·.1) ↔ k' = k ∨ k' ∈ m.map (·.1) := by
  induction m with
  | nil => simp [insertSorted]
  | cons kv rest ih =>
    obtain ⟨k0, v0⟩ := kv
    simp only [insertSorted]
    split
    · subst_vars; simp
    · split
      · simp
      · simp only [List.map_cons, List.mem_cons, ih]
        constructor
        · rintro (h | h | h) <;> simp [h]
        · rintro (h | h | h) <;> simp [h]

theorem insertSorted_sorted [DecidableEq K] (o : LinOrd K) (k : K) (v : V) (m : List (K × V))
    (hs : SortedKeys o m) : SortedKeys o (insertSorted o k v m) := by
  have anti := o.antisymm
  have tr := o.trans
  have tot := o.total
  induction m with
  | nil => simp [insertSorted, SortedKeys]
  | cons kv rest ih =>
    obtain ⟨k0, v0⟩ := kv
    unfold SortedKeys at hs ih ⊢
    rw [List.pairwise_cons] at hs
    obtain ⟨h0, hrest⟩ := hs
    simp only [insertSorted]
    split
    · subst_vars
      rw [List.pairwise_cons]; exact ⟨h0, hrest⟩
    · rename_i hne
      split
      · rename_i hle
        rw [List.pairwise_cons]
        refine ⟨?_, List.pairwise_cons.mpr ⟨h0, hrest⟩⟩
        intro a ha
        rcases List.mem_cons.mp ha with rfl | ha
        · exact ⟨hle, hne⟩
        · have := h0 a ha
          refine ⟨tr _ _ _ hle this.1, ?_⟩
          intro e
          have e' : k = a.1 := e
          rw [e'] at hle
          exact this.2 (anti _ _ this.1 hle)
      · rename_i hle
        rw [List.pairwise_cons]
        refine ⟨?_, ih hrest⟩
        intro a ha
        have hk : a.1 ∈ (insertSorted o k v rest).map (·.1) := List.mem_map_of_mem (f := (·.1)) ha
        rw [mem_keys_insertSorted] at hk
        rcases hk with hk | hk
        · rw [hk]
          have : o.le k0 k = true := by
            rcases tot k k0 with h | h
            · exact absurd h hle
            · exact h
          exact ⟨this, fun e => hne e.symm⟩
        · obtain ⟨b, hb, hbk⟩ := List.mem_map.mp hk
          have := h0 b hb
          rw [hbk] at this
          exact this

theorem insertMany_sorted [DecidableEq K] (o : LinOrd K) (xs m : List (K × V))
    (hs : SortedKeys o m) : SortedKeys o (insertMany o m xs) := by
  induction xs generalizing m with
  | nil => exact hs
  | cons x xs ih => exact ih _ (insertSorted_sorted o x.1 x.2 m hs)

theorem mem_keys_insertMany [DecidableEq K] (o : LinOrd K) (xs m : List (K × V)) (k' : K) :
    k' ∈ (insertMany o m xs).map (·.1) ↔ k' ∈ m.map (·.1) ∨ k' ∈ xs.map (·.1) := by
  induction xs generalizing m with
  | nil => simp [insertMany]
  | cons x xs ih =>
    have := ih (insertSorted o x.1 x.2 m)
    simp only [insertMany, List.foldl_cons] at this ⊢
    rw [this, mem_keys_insertSorted]
    simp only [List.map_cons, List.mem_cons]
    constructor
    · rintro ((h | h) | h) <;> simp [h]
    · rintro (h | h | h) <;> simp [h]

/-- distinct members of a list without duplicate keys have distinct keys -/
theorem eq_of_key_eq {xs : List (K × V)} (hnd : NoDupKeys xs) {x y : K × V}
    (hx : x ∈ xs) (hy : y ∈ xs) (h : x.1 = y.1) : x = y := by
  induction xs with
  | nil => cases hx
  | cons a l ih =>
    unfold NoDupKeys at hnd ih
    rw [List.map_cons, List.nodup_cons] at hnd
    rcases List.mem_cons.mp hx with rfl | hx' <;> rcases List.mem_cons.mp hy with rfl | hy'
    · rfl
    · exact absurd (h ▸ List.mem_map_of_mem (f := (·.1)) hy') hnd.1
    · exact absurd (h ▸ List.mem_map_of_mem (f := (·.1)) hx') hnd.1
    · exact ih hnd.2 hx' hy'

/-- inserting a duplicate-key-free list of pairs gives the same map in every order -/
theorem insertMany_perm [DecidableEq K] (o : LinOrd K) {xs ys : List (K × V)} (hp : xs.Perm ys)
    (hnd : NoDupKeys xs) (m : List (K × V)) : insertMany o m xs = insertMany o m ys := by
  unfold insertMany
  refine List.Perm.foldl_eq' hp ?_ m
  intro x hx y hy z
  by_cases h : x.1 = y.1
  · rw [eq_of_key_eq hnd hx hy h]
  · exact (insertSorted_comm o y.1 x.1 y.2 x.2 (fun e => h e.symm) z)

theorem NoDupKeys.perm {xs ys : List (K × V)} (hp : xs.Perm ys) (h : NoDupKeys xs) : NoDupKeys ys :=
  (List.Perm.nodup_iff (hp.map (fun kv : K × V => kv.1))).mp h

/-- without duplicate keys the first pair may as well be inserted last -/
theorem toMap_cons [DecidableEq K] (o : LinOrd K) (x : K × V) (xs : List (K × V))
    (hnd : NoDupKeys (x :: xs)) : toMap o (x :: xs) = insertSorted o x.1 x.2 (toMap o xs) := by
  have hp : (x :: xs).Perm (xs ++ [x]) := by
    simpa using (List.perm_append_comm (l₁ := [x]) (l₂ := xs))
  unfold toMap
  rw [insertMany_perm o hp hnd []]
  simp [insertMany, List.foldl_append]

/-- looking up the key just inserted in a sorted map -/
theorem lookup_insertSorted_self [DecidableEq K] (o : LinOrd K) (k : K) (v : V) (m : List (K × V))
    (hs : SortedKeys o m) : lookup k (insertSorted o k v m) = some v := by
  have anti := o.antisymm
  induction m with
  | nil => simp [insertSorted, lookup]
  | cons kv rest ih =>
    obtain ⟨k0, v0⟩ := kv
    unfold SortedKeys at hs ih
    rw [List.pairwise_cons] at hs
    simp only [insertSorted]
    split
    · simp [lookup]
    · rename_i hne
      split
      · simp [lookup]
      · simp only [lookup, if_neg hne]; exact ih hs.2

/-! ### insertion sort -/

theorem orderedInsert_comm (o : LinOrd α) (a b : α) (l : List α) :
    orderedInsert o a (orderedInsert o b l) = orderedInsert o b (orderedInsert o a l) := by
  have anti := o.antisymm
  have tr := o.trans
  have tot := o.total
  induction l with
  | nil => grind [orderedInsert]
  | cons c rest ih => grind [orderedInsert]

theorem orderedInsert_perm (o : LinOrd α) (a : α) (l : List α) : (orderedInsert o a l).Perm (a :: l) := by
  induction l with
  | nil => simp [orderedInsert]
  | cons b l ih =>
    simp only [orderedInsert]
    split
    · exact List.Perm.refl _
    · exact (List.Perm.cons b ih).trans (List.Perm.swap a b l)

theorem insertionSort_perm_self (o : LinOrd α) (l : List α) : (insertionSort o l).Perm l := by
  induction l with
  | nil => exact List.Perm.refl _
  | cons a l ih =>
    simp only [insertionSort]
    exact (orderedInsert_perm o a _).trans (List.Perm.cons a ih)

theorem orderedInsert_sorted (o : LinOrd α) (a : α) (l : List α) (hs : Sorted o l) :
    Sorted o (orderedInsert o a l) := by
  have tr := o.trans
  have tot := o.total
  induction l with
  | nil => simp [orderedInsert, Sorted]
  | cons b l ih =>
    unfold Sorted at hs ih ⊢
    rw [List.pairwise_cons] at hs
    simp only [orderedInsert]
    split
    · rename_i hle
      rw [List.pairwise_cons]
      refine ⟨?_, List.pairwise_cons.mpr hs⟩
      intro c hc
      rcases List.mem_cons.mp hc with rfl | hc
      · exact hle
      · exact tr _ _ _ hle (hs.1 c hc)
    · rename_i hle
      rw [List.pairwise_cons]
      refine ⟨?_, ih hs.2⟩
      intro c hc
      have := (orderedInsert_perm o a l).mem_iff.mp hc
      rcases List.mem_cons.mp this with rfl | hc'
      · rcases tot c b with h | h
        · exact absurd h hle
        · exact h
      · exact hs.1 c hc'

theorem insertionSort_sorted (o : LinOrd α) (l : List α) : Sorted o (insertionSort o l) := by
  induction l with
  | nil => simp [insertionSort, Sorted]
  | cons a l ih => exact orderedInsert_sorted o a _ ih

/-! ### hash-set consumers -/

theorem insertAll_iff [DecidableEq α] (xs seen : List α) :
    insertAll xs seen = true ↔ xs.Nodup ∧ ∀ x ∈ xs, x ∉ seen := by
  induction xs generalizing seen with
  | nil => simp [insertAll]
  | cons x xs ih =>
    simp only [insertAll]
    split
    · rename_i hx
      simp only [Bool.false_eq_true, false_iff]
      intro h
      exact h.2 x (List.mem_cons_self) hx
    · rename_i hx
      rw [ih, List.nodup_cons]
      constructor
      · rintro ⟨hnd, hall⟩
        refine ⟨⟨fun hmem => (hall x hmem) (List.mem_cons_self), hnd⟩, ?_⟩
        intro y hy
        rcases List.mem_cons.mp hy with rfl | hy
        · exact hx
        · exact fun h => hall y hy (List.mem_cons_of_mem _ h)
      · rintro ⟨⟨hnot, hnd⟩, hall⟩
        refine ⟨hnd, ?_⟩
        intro y hy hmem
        rcases List.mem_cons.mp hmem with rfl | hmem
        · exact hnot hy
        · exact hall y (List.mem_cons_of_mem _ hy) hmem

theorem collectStep_mem [DecidableEq α] (xs s : List α) (a : α) :
    a ∈ xs.foldl (fun s x => if x ∈ s then s else x :: s) s ↔ a ∈ s ∨ a ∈ xs := by
  induction xs generalizing s with
  | nil => simp
  | cons x xs ih =>
    rw [List.foldl_cons, ih]
    by_cases hx : x ∈ s
    · simp only [if_pos hx, List.mem_cons]
      constructor
      · rintro (h | h) <;> simp [h]
      · rintro (h | rfl | h)
        · exact Or.inl h
        · exact Or.inl hx
        · exact Or.inr h
    · simp only [if_neg hx, List.mem_cons]
      constructor
      · rintro ((h | h) | h) <;> simp [h]
      · rintro (h | h | h) <;> simp [h]

theorem collectStep_nodup [DecidableEq α] (xs s : List α) (hs : s.Nodup) :
    (xs.foldl (fun s x => if x ∈ s then s else x :: s) s).Nodup := by
  induction xs generalizing s with
  | nil => exact hs
  | cons x xs ih =>
    rw [List.foldl_cons]
    apply ih
    by_cases hx : x ∈ s
    · simpa [if_pos hx] using hs
    · simp only [if_neg hx]; exact List.nodup_cons.mpr ⟨hx, hs⟩

theorem mem_collectSet [DecidableEq α] (xs : List α) (a : α) : a ∈ collectSet xs ↔ a ∈ xs := by
  unfold collectSet; rw [collectStep_mem]; simp

theorem collectSet_nodup [DecidableEq α] (xs : List α) : (collectSet xs).Nodup :=
  collectStep_nodup xs [] List.nodup_nil

end TypifyModel.Determinism

import TypifyModel.Proofs.Lemmas.DefaultsStruct
/-! C06 helper lemmas: externally tagged enums, and the induction that puts the kinds together. -/
namespace TypifyModel.Defaults
open TypifyModel TypifyModel.Serde

theorem find_idx {vs : List Variant} {s : String} {v : Variant} (h : findVariant vs s = some v) :
    ∃ i, vs.findIdx? (fun v => v.wire == s) = some i ∧ vs[i]? = some v := by
  unfold findVariant at h
  induction vs with
  | nil => simp at h
  | cons a r ih =>
    simp only [List.find?_cons] at h
    cases hc : a.rawName == s with
    | true =>
      simp only [hc] at h
      refine ⟨0, ?_, by simpa using h⟩
      simp [List.findIdx?_cons, Variant.wire_eq_raw, hc]
    | false =>
      simp only [hc] at h
      obtain ⟨i, h1, h2⟩ := ih h
      refine ⟨i + 1, ?_, by simpa using h2⟩
      have h1' : List.findIdx? (fun v => v.rawName == s) r = some i := by
        simpa [Variant.wire_eq_raw] using h1
      simp [List.findIdx?_cons, Variant.wire_eq_raw, hc, h1']

theorem ident_idx {vs : List Variant} (hnd : nodupStrings (vs.map (·.identName)) = true) :
    ∀ {i : Nat} {v : Variant}, vs[i]? = some v →
      findIdxByIdent vs v.identName = some i ∧ findByIdent vs v.identName = some v := by
  induction vs with
  | nil => intro i v h; simp at h
  | cons a r ih =>
    simp only [List.map_cons, nodupStrings, Bool.and_eq_true, Bool.not_eq_true'] at hnd
    obtain ⟨ha, hr⟩ := hnd
    intro i v h
    cases i with
    | zero =>
      simp only [List.getElem?_cons_zero, Option.some.injEq] at h
      subst h
      simp [findIdxByIdent, findByIdent, List.findIdx?_cons]
    | succ i =>
      simp only [List.getElem?_cons_succ] at h
      obtain ⟨h1, h2⟩ := ih hr h
      have hne : (a.identName == v.identName) = false := by
        cases hc : a.identName == v.identName with
        | false => rfl
        | true =>
          have : a.identName = v.identName := by simpa using hc
          have hm : (r.map (·.identName)).contains a.identName = true := by
            simp only [List.contains_iff_mem, List.mem_map]
            exact ⟨v, List.mem_of_getElem? h, this.symm⟩
          rw [hm] at ha; simp at ha
      simp only [findIdxByIdent, findByIdent] at h1 h2 ⊢
      simp [List.findIdx?_cons, List.find?_cons, hne, h1, h2]

/-- typing of a variant constructor, relative to the variant it names -/
def variantTyped (σ : Space) (n : Nat) (name : String) (v : Variant) (e : RExpr) : Bool :=
  let H := fun (a : RExpr) (t' : Id) => hasType σ n a t'
  match e with
  | .variantTuple ty var args =>
    ty == name && var == v.identName &&
    (match v.details with
     | .item t' => (match args with | [a] => H a t' | _ => false)
     | .tuple ts =>
       if ts.length == 1 then (match args with | [.paren es true] => zipAllB H es ts | _ => false)
       else zipAllB H args ts
     | _ => false)
  | .variantStruct ty var fields =>
    ty == name && var == v.identName &&
    (match v.details with
     | .struct ps => fieldsOk (implsDefault σ n) H (writtenOrder ps) fields
     | _ => false)
  | _ => false

theorem body_out (x : Ext) (σ : Space) (n : Nat) (ih : Good x σ n) (name : String) (v : Variant) (strict : Bool)
    (j : Json) (kd : DKind)
    (hv : validateBody σ n (validateValue x σ n) v.details j = .ok kd)
    (hw : wfBody σ n (validateValue x σ n) (WFDefault x σ n) v.details j = true) :
    ∃ e, valueForBody σ (outputValue x σ n) name v strict j = .ok e ∧ variantTyped σ n name v e = true ∧
      ∀ m deny, evalBody x σ m v.details e = deVariantBody x σ m v.details deny true j ∧
        deVariantBody x σ m v.details deny true j ≠ .error .reject := by
  obtain ⟨raw, ident, det⟩ := v
  cases det with
  | simple => simp [validateBody] at hv
  | item t' =>
    simp only [validateBody] at hv
    simp only [wfBody] at hw
    obtain ⟨e, ho, hh, hr⟩ := ih t' j kd hv hw
    refine ⟨.variantTuple name ident [e], by simp [valueForBody, ho], by simp [variantTyped, hh], ?_⟩
    intro m deny
    cases m with
    | zero => simp [evalBody, deVariantBody]
    | succ m => simp only [evalBody, deVariantBody]; exact hr m
  | tuple ts =>
    simp only [validateBody, validateTuple] at hv
    simp only [wfBody] at hw
    cases j <;> simp only at hv <;> try (simp at hv; done)
    rename_i xs
    by_cases hlen' : xs.length = ts.length
    case neg => simp [hlen'] at hv
    case pos =>
      simp only [hlen'] at hv
      have hz : validateZip (validateValue x σ n) ts xs = .ok () := by
        cases hva : validateZip (validateValue x σ n) ts xs with
        | ok a => rfl
        | error e => rw [hva] at hv; simp at hv
      obtain ⟨es, ho, hh, hr, hl⟩ := zip_out (R := Rel x σ) (O := outputValue x σ n) (H := fun a t' => hasType σ n a t')
        (fun t' j k hk hwj => ih t' j k hk hwj) ts xs hz (by simpa using hw)
      have hel : es.length = ts.length := by rw [hl, hlen']
      refine ⟨variantTupleExpr name ident es, by simp [valueForBody, valueForTuple, hlen', ho], ?_, ?_⟩
      · unfold variantTupleExpr variantTyped tupleExpr
        cases h1 : ts.length == 1 with
        | true => simp only [hel, h1, if_true]; simp [hh, h1, hel]
        | false => simp only [hel, h1]; simp [hh, h1]
      · intro m deny
        cases m with
        | zero => simp [evalBody, deVariantBody]
        | succ m =>
          obtain ⟨h1, h2⟩ := zip_eval (G := fun t' a => eval x σ m a t') (D := de x σ m) (rel3_mono (fun t j e h => h m) hr)
          have hargs : ∀ c, (match variantTupleExpr name ident es with
              | .variantTuple _ _ args => zipE (fun t' a => eval x σ m a t') ts (tupleArgs ts.length args) = c
              | _ => False) ↔ zipE (fun t' a => eval x σ m a t') ts es = c := by
            intro c
            unfold variantTupleExpr tupleExpr tupleArgs
            cases h1 : ts.length == 1 with
            | true => simp [hel, h1]
            | false => simp [hel, h1]
          unfold variantTupleExpr tupleExpr at hargs ⊢
          cases hc : ts.length == 1 with
          | true =>
            simp only [hel, hc, if_true, evalBody, deVariantBody, tupleArgs, h1]
            cases hd : zipM (de x σ m) ts xs <;> simp_all
          | false =>
            simp only [hel, hc, evalBody, deVariantBody, tupleArgs, h1]
            cases hd : zipM (de x σ m) ts xs <;> simp_all
  | struct ps =>
    simp only [validateBody] at hv
    simp only [wfBody] at hw
    obtain ⟨kvs, fs, hj, ho, hh, hr⟩ := struct_out x σ n ih ps j kd hv hw
    subst hj
    refine ⟨.variantStruct name ident fs, by simp [valueForBody, ho], by simp [variantTyped, hh], ?_⟩
    intro m deny
    cases m with
    | zero => simp [evalBody, deVariantBody]
    | succ m => simp only [evalBody, deVariantBody]; exact hr m deny

theorem step_struct (x : Ext) (σ : Space) (n : Nat) (ih : Good x σ n) (t : Id) (d : Json) (kd : DKind)
    (name : String) (props : List Field) (deny : Bool) (dflt' : Option Json) (ed : List String) (im : List Impl)
    (hg : σ.get t = some ⟨.struct name props deny dflt', ed, im⟩)
    (hv : validateValue x σ (n + 1) t d = .ok kd) (hw : WFDefault x σ (n + 1) t d = true) :
    ∃ e, outputValue x σ (n + 1) t d = .ok e ∧ hasType σ (n + 1) e t = true ∧ Rel x σ t d e := by
  simp only [validateValue, hg] at hv
  simp only [WFDefault, hg] at hw
  obtain ⟨kvs, fs, hj, ho, hh, hr⟩ := struct_out x σ n ih props d kd hv hw
  subst hj
  refine ⟨.structLit name fs, by simp [outputValue, hg, ho], by simp [hasType, hg, hh], rel_of_succ ?_⟩
  intro m
  simp only [eval, de, hg]
  exact hr m deny

theorem step_enum (x : Ext) (σ : Space) (n : Nat) (ih : Good x σ n) (t : Id) (d : Json) (kd : DKind)
    (name : String) (tag : Tag) (vs : List Variant) (deny : Bool) (dflt' : Option Json) (bes : List Bespoke)
    (ed : List String) (im : List Impl)
    (hg : σ.get t = some ⟨.enum name tag vs deny dflt' bes, ed, im⟩)
    (hv : validateValue x σ (n + 1) t d = .ok kd) (hw : WFDefault x σ (n + 1) t d = true) :
    ∃ e, outputValue x σ (n + 1) t d = .ok e ∧ hasType σ (n + 1) e t = true ∧ Rel x σ t d e := by
  simp only [validateValue, hg] at hv
  simp only [WFDefault, hg, Bool.and_eq_true] at hw
  obtain ⟨hnd, hw'⟩ := hw
  cases tag with
  | internal tg => simp at hw'
  | adjacent tg ct => simp at hw'
  | untagged => simp at hw'
  | external =>
    simp only at hv hw'
    unfold validateExternal at hv
    cases d with
    | str s =>
      simp only at hv
      cases hf : findVariant vs s with
      | none => simp [hf] at hv
      | some v =>
        simp only [hf] at hv
        cases hsimple : isSimple v.details with
        | false => simp [hsimple] at hv
        | true =>
          obtain ⟨i, hi1, hi2⟩ := find_idx hf
          obtain ⟨hj1, hj2⟩ := ident_idx hnd hi2
          obtain ⟨raw, ident, det⟩ := v
          cases det <;> simp [isSimple] at hsimple
          refine ⟨.variantUnit name ident, by simp [outputValue, hg, valueForExternal, hf, isSimple], ?_, rel_of_succ ?_⟩
          · simp only [hasType, hg]
            simp only at hj2
            simp [hj2, isSimple]
          · intro m
            simp only at hj1
            simp [eval, de, hg, hi1, hi2, hj1]
    | obj kvs =>
      cases kvs with
      | nil => simp at hv
      | cons kv rest =>
        obtain ⟨k, body⟩ := kv
        cases rest with
        | cons a b => simp at hv
        | nil =>
          simp only at hv hw'
          cases hf : findVariant vs k with
          | none => simp [hf] at hv
          | some v =>
            simp only [hf] at hv hw'
            obtain ⟨i, hi1, hi2⟩ := find_idx hf
            obtain ⟨hj1, hj2⟩ := ident_idx hnd hi2
            obtain ⟨e, ho, hh, hr⟩ := body_out x σ n ih name v false body kd hv hw'
            refine ⟨e, by simp [outputValue, hg, valueForExternal, hf, ho], ?_, rel_of_succ ?_⟩
            · -- typing at the enum
              unfold variantTyped at hh
              cases e <;> simp only at hh <;> try (simp at hh; done)
              · rename_i ty var args
                simp only [Bool.and_eq_true] at hh
                obtain ⟨⟨hty, hvar⟩, hrest⟩ := hh
                have hty := eq_of_beq hty
                have hvar := eq_of_beq hvar
                subst hty hvar
                simp only [hasType, hg, hj2, beq_self_eq_true, Bool.true_and]
                exact hrest
              · rename_i ty var fields
                simp only [Bool.and_eq_true] at hh
                obtain ⟨⟨hty, hvar⟩, hrest⟩ := hh
                have hty := eq_of_beq hty
                have hvar := eq_of_beq hvar
                subst hty hvar
                simp only [hasType, hg, hj2, beq_self_eq_true, Bool.true_and]
                exact hrest
            · intro m
              obtain ⟨h1, h2⟩ := hr m deny
              unfold variantTyped at hh
              cases e <;> simp only at hh <;> try (simp at hh; done)
              · rename_i ty var args
                simp only [Bool.and_eq_true] at hh
                obtain ⟨⟨hty, hvar⟩, _⟩ := hh
                have hty := eq_of_beq hty
                have hvar := eq_of_beq hvar
                subst hty hvar
                simp only [eval, de, hg, hj1, hi1, hi2, h1, List.all_nil, Bool.not_true, Bool.false_eq_true, if_false]
                cases hd : deVariantBody x σ m v.details deny true body <;> simp_all
              · rename_i ty var fields
                simp only [Bool.and_eq_true] at hh
                obtain ⟨⟨hty, hvar⟩, _⟩ := hh
                have hty := eq_of_beq hty
                have hvar := eq_of_beq hvar
                subst hty hvar
                simp only [eval, de, hg, hj1, hi1, hi2, h1, List.all_nil, Bool.not_true, Bool.false_eq_true, if_false]
                cases hd : deVariantBody x σ m v.details deny true body <;> simp_all
    | _ => simp at hv

/-- **the simulation**: for every fuel of `validate_value` -/
theorem good_all (x : Ext) (σ : Space) : ∀ n, Good x σ n := by
  intro n
  induction n with
  | zero => intro t d k hv _; simp [validateValue] at hv
  | succ n ih =>
    intro t d k hv hw
    cases hg : σ.get t with
    | none => simp [validateValue, hg] at hv
    | some ent =>
      obtain ⟨det, ed, im⟩ := ent
      cases det with
      | struct name props deny dflt' => exact step_struct x σ n ih t d k name props deny dflt' ed im hg hv hw
      | «enum» name tag vs deny dflt' bes => exact step_enum x σ n ih t d k name tag vs deny dflt' bes ed im hg hv hw
      | map k' v' => exact step_map x σ n ih t d k k' v' ed im hg hv hw
      | _ => exact step_basic x σ n ih t d k _ ed im hg hv hw (by trivial)

end TypifyModel.Defaults

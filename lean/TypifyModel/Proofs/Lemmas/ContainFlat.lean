import TypifyModel.Proofs.Lemmas.RoundTripFlat
import TypifyModel.Proofs.Lemmas.ContainStruct
/-! The containment clause (C03) for a struct with one flattened map (`additionalProperties: <schema>`): a member read by
    name is contained in the member written for it; every other member was read by the map and is contained in the entry
    the map writes for it. -/
namespace TypifyModel.Contain
open TypifyModel TypifyModel.Serde TypifyModel.RoundTrip

variable (x : Ext) (σ : Space)

theorem pruneObj_append (a b : List (String × Json)) : pruneObj (a ++ b) = pruneObj a ++ pruneObj b := by
  induction a with
  | nil => simp [pruneObj]
  | cons h r ih =>
    obtain ⟨k, v⟩ := h
    simp only [List.cons_append, pruneObj]
    split <;> simp [ih]

/-- among members none of which is flattened and whose wire names are distinct, the search by wire name finds the member -/
theorem find_named : ∀ {named : List Field}, (∀ p ∈ named, p.rename ≠ .flatten) → nodupB (named.map (·.wire)) = true →
    ∀ p ∈ named, named.find? (fun q => q.rename != .flatten && q.wire == p.wire) = some p := by
  intro named
  induction named with
  | nil => intro _ _ p hp; simp at hp
  | cons a r ih =>
    intro nf hnd p hp
    simp only [List.map_cons] at hnd
    obtain ⟨hne, hnd'⟩ := nodupB_cons hnd
    have ha' : (a.rename != Rename.flatten) = true := by simpa using nf a (by simp)
    simp only [List.mem_cons] at hp
    rcases hp with rfl | hp
    · simp [List.find?, ha']
    · have hw : (a.wire == p.wire) = false := by
        apply Bool.eq_false_iff.mpr
        intro hc
        have hc' : a.wire = p.wire := by simpa using hc
        exact hne p.wire (List.mem_map.mpr ⟨p, hp, rfl⟩) hc'.symm
      simp only [List.find?, ha', hw, Bool.and_false]
      exact ih (fun q hq => nf q (by simp [hq])) hnd' p hp

theorem struct_contained_flat {f : Nat} {ps : List Field} {deny : Bool} {kvs : List (String × Json)}
    {fs : List (String × Val)} {es : List (String × Json)}
    (hih : ∀ p ∈ ps, ∀ vk a w, declared σ f p.ty vk = true → de x σ f p.ty vk = .ok a →
      se σ f p.ty a = .ok w → contained (prune vk) (prune w) = true)
    (hok : fieldsOkFlatB σ ps = true)
    (hd : declaredStruct σ (f + 1) ps (.obj kvs) = true)
    (h1 : deStruct x σ (f + 1) ps deny (.obj kvs) = .ok (.struct fs))
    (h2 : seStruct σ (f + 1) ps fs = .ok es) :
    containedObj (pruneObj kvs) (pruneObj es) = true := by
  obtain ⟨named, e, k, vt, ed, im, kvs', fsN, mm, esN, em, rfl, hv, hef, hokN, hge, hmN, hdeB, rfl, hsN, hse, rfl, hemfree,
    hdeny, hfpos⟩ := flat_decompose x σ hok h1 h2
  simp only [Json.obj.injEq] at hv; subst hv
  obtain ⟨hfl, hnd, hreq, hopt⟩ := fieldsOk_unpack σ hokN
  have nf : ∀ p ∈ named, p.rename ≠ .flatten := by
    intro p hp hc
    have := List.any_eq_false.mp hfl p hp
    simp [hc] at this
  have hflat : hasFlatten (named ++ [e]) = true := by simp [hasFlatten, hef]
  simp only [declaredStruct, hflat, if_true, Bool.and_eq_true] at hd
  obtain ⟨⟨hndk, hall⟩, hflatd⟩ := hd
  have hkeysN := seFieldsR_keys σ hfl hsN
  have hndN : nodupKeys esN = true := seFieldsR_nodup σ hfl hsN hnd
  -- the flattened map declares, reads and writes the buffer
  have hde : declared σ f e.ty (.obj (bufferOf (named ++ [e]) kvs)) = true := by
    have := (List.all_eq_true.mp hflatd) e (by simp)
    simpa [hef] using this
  have hcB := hih e (by simp) _ _ _ hde hdeB hse
  simp only [prune, contained] at hcB
  have hcB' := containedObj_iff.mp hcB
  rw [pruneObj_append]
  apply containedObj_iff.mpr
  intro kv hkv
  obtain ⟨key, v'⟩ := kv
  obtain ⟨vk, hmem, hv', hne⟩ := mem_pruneObj.mp hkv
  subst hv'
  simp only
  by_cases hnamed : ∃ p ∈ named, p.wire = key
  · -- read by name
    obtain ⟨p, hp, hw⟩ := hnamed
    have hl : Json.lookup kvs p.wire = some vk := by rw [hw]; exact lookup_of_mem hndk hmem
    have hdecl : declared σ f p.ty vk = true := by
      have := (List.all_eq_true.mp hall) (key, vk) hmem
      simp only at this
      have hfind : (named ++ [e]).find? (fun q => q.rename != .flatten && q.wire == key) = some p := by
        rw [List.find?_append, ← hw, find_named nf hnd p hp]
        rfl
      rw [hfind] at this
      exact this
    have hm : mapM' (stepE x σ f kvs) named = .ok fsN := hmN
    obtain ⟨w, hwm, hcw⟩ := fields_contained x σ named fsN esN hfl hm hsN p hp vk hl hne
      (fun a w h1 h2 => hih p (by simp [hp]) vk a w hdecl h1 h2)
    have hne' : emptyJ (prune w) = false := contained_nonempty hcw hne
    have hmem' : (key, prune w) ∈ pruneObj esN := by
      apply mem_pruneObj.mpr
      refine ⟨w, ?_, rfl, hne'⟩
      rw [← hw]; exact hwm
    refine ⟨prune w, ?_, hcw⟩
    rw [lookup_append, lookup_of_mem (nodupKeys_pruneObj hndN) hmem']
  · -- read by the flattened map
    have hbuf : (key, vk) ∈ bufferOf (named ++ [e]) kvs := by
      simp only [bufferOf, List.mem_filter, Bool.not_eq_true', List.any_eq_false, Bool.and_eq_true,
        bne_iff_ne, ne_eq, beq_iff_eq, not_and]
      refine ⟨hmem, ?_⟩
      intro p hp hpf hpw
      simp only [List.mem_append, List.mem_singleton] at hp
      rcases hp with hp | rfl
      · exact hnamed ⟨p, hp, hpw⟩
      · exact hpf hef
    have hpm : (key, prune vk) ∈ pruneObj (bufferOf (named ++ [e]) kvs) := mem_pruneObj.mpr ⟨vk, hbuf, rfl, hne⟩
    obtain ⟨y, hy, hcy⟩ := hcB' (key, prune vk) hpm
    refine ⟨y, ?_, hcy⟩
    rw [lookup_append]
    have hnone : Json.lookup (pruneObj esN) key = none := by
      apply lookup_none_of_not_key
      intro kv hkv hc
      obtain ⟨kv0, hkv0, hk0⟩ := pruneObj_keys kv hkv
      obtain ⟨p, hp, hpw⟩ := hkeysN kv0 hkv0
      exact hnamed ⟨p, hp, by rw [hpw, hk0]; exact hc⟩
    rw [hnone]
    exact hy

end TypifyModel.Contain

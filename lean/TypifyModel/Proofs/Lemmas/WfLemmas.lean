import TypifyModel.Model.Wf
import TypifyModel.Proofs.Lemmas.SettingsApplyLemmas
/-! Helper lemmas for C01: Boolean list checks vs their `Prop` forms, the tree view of `type_ident`,
    and how the items of `modOf` relate to the entries of the space. -/
namespace TypifyModel.Wf
open TypifyModel TypifyModel.Render TypifyModel.SettingsApply

/-! ### Boolean list checks -/

theorem pairwiseB_iff {α : Type} (r : α → α → Bool) (l : List α) :
    pairwiseB r l = true ↔ l.Pairwise (fun a b => r a b = true) := by
  induction l with
  | nil => simp [pairwiseB]
  | cons a l ih =>
    simp only [pairwiseB, Bool.and_eq_true, List.all_eq_true, List.pairwise_cons, ih]

theorem nodupB_iff (l : List String) : nodupB l = true ↔ l.Nodup := by
  unfold nodupB
  rw [pairwiseB_iff]
  unfold List.Nodup
  constructor <;> intro h <;> refine h.imp ?_ <;> intro a b hab <;> simpa using hab

theorem keysNodup_iff (σ : Space) : keysNodup σ = true ↔ (σ.entries.map (·.1)).Nodup := by
  unfold keysNodup
  rw [pairwiseB_iff]
  unfold List.Nodup
  constructor <;> intro h <;> refine h.imp ?_ <;> intro a b hab <;> simpa using hab

/-! ### the tree view renders to the string of the Render model -/

theorem renderList_map (st : Settings) {α : Type} (g : α → Ty) (l : List α) :
    Ty.renderList st (l.map g) = l.map (fun a => (g a).render st) := by
  induction l with
  | nil => simp [Ty.renderList]
  | cons a r ih => simp [Ty.renderList, ih]

/-- **`type_ident` is the rendering of the type tree** -/
theorem typeIdent_eq_render (st : Settings) (σ : Space) : ∀ (f : Nat) (t : Id),
    typeIdent st σ f t = (tyOf σ f t).render st := by
  intro f
  induction f with
  | zero =>
    intro t
    have h1 : typeIdent st σ 0 t = "?" := rfl
    have h2 : tyOf σ 0 t = Ty.bad := rfl
    rw [h1, h2]; simp only [Ty.render]
  | succ f ih =>
    intro t
    have hm : ∀ l : List Id, l.map (typeIdent st σ f) = l.map (fun a => (tyOf σ f a).render st) :=
      fun l => List.map_congr_left (fun a _ => ih a)
    unfold typeIdent tyOf
    cases hg : σ.get t with
    | none => simp only [Ty.render]
    | some ent =>
      simp only
      cases hd : ent.details with
      | enum n tag vs deny d bes => simp only [Ty.render]
      | struct n ps deny d => simp only [Ty.render]
      | newtype n inner c d => simp only [Ty.render]
      | option t' =>
        simp only
        split
        · rename_i heq; simp only [heq]; exact ih t'
        · split
          · simp_all
          · simp only [Ty.render, wrapStr, ih t']
      | box t' => simp only [Ty.render, wrapStr, ih t']
      | vec t' => simp only [Ty.render, wrapStr, ih t']
      | set t' => simp only [Ty.render, wrapStr, ih t']
      | map k v =>
        simp only
        split
        · rename_i h1 h2; simp only [h1, h2, Ty.render]
        · rename_i hne
          split
          · rename_i h1 h2; exact (hne _ _ _ _ h1 h2).elim
          · simp only [Ty.render, mapStr, ih k, ih v]
      | tuple ts =>
        simp only [Ty.render, renderList_map]
        cases ts with
        | nil => simp only [tupleStr, List.map_nil]
        | cons a r =>
          cases r with
          | nil => simp only [tupleStr, List.map_cons, List.map_nil, ih a]
          | cons b r' => simp only [hm, List.map_cons, tupleStr]
      | array t' n => simp only [Ty.render, arrStr, ih t']
      | native name ps =>
        simp only [Ty.render, renderList_map, nativeStr, List.isEmpty_map, hm]
      | unit => simp only [Ty.render]
      | boolean => simp only [Ty.render]
      | integer m => simp only [Ty.render]
      | float m => simp only [Ty.render]
      | string => simp only [Ty.render]
      | jsonValue => simp only [Ty.render]
      | reference r => simp only [Ty.render]

end TypifyModel.Wf

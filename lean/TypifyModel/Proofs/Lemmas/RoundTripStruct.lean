import TypifyModel.Proofs.Lemmas.RoundTripLemmas
/-! Structs in the round-trip theorem (C03): what `deStruct` produces, what `seFieldsR` makes of
    it, and that reading the result back gives the same members. -/
namespace TypifyModel.RoundTrip
open TypifyModel TypifyModel.Serde

variable (x : Ext) (σ : Space)

/-- where a member value of a deserialized struct comes from -/
def FieldVal (f : Nat) (p : Field) (a : Val) : Prop :=
  (∃ j, de x σ f p.ty j = .ok a) ∨ (p.state matches .optional ∧ dflt x σ f p.ty = .ok a)

def FieldsRel (f : Nat) : List Field → List (String × Val) → Prop
  | [], [] => True
  | p :: ps, (n, a) :: fs => n = p.name ∧ FieldVal x σ f p a ∧ FieldsRel f ps fs
  | _, _ => False

/-- generic: a successful `mapM'` whose step yields `(p.name, a)` with `FieldVal` gives `FieldsRel` -/
theorem mapM'_fieldsRel {f : Nat} {g : Field → Except E (String × Val)}
    (hg : ∀ p r, g p = .ok r → r.1 = p.name ∧ FieldVal x σ f p r.2) :
    ∀ {ps : List Field} {fs : List (String × Val)}, mapM' g ps = .ok fs → FieldsRel x σ f ps fs := by
  intro ps
  induction ps with
  | nil => intro fs h; simp only [mapM', Except.ok.injEq] at h; subst h; trivial
  | cons p r ih =>
    intro fs h
    simp only [mapM'] at h
    cases hgp : g p with
    | error e => rw [hgp] at h; simp at h
    | ok b =>
      rw [hgp] at h
      cases hr : mapM' g r with
      | error e => rw [hr] at h; simp at h
      | ok bs =>
        rw [hr] at h
        simp only [Except.ok.injEq] at h; subst h
        obtain ⟨n, a⟩ := b
        obtain ⟨h1, h2⟩ := hg p (n, a) hgp
        exact ⟨h1, h2, ih hr⟩

theorem deStruct_obj_rel {f : Nat} {ps : List Field} {deny : Bool} {kvs : List (String × Json)}
    {fs : List (String × Val)} (hreq : ps.all (fun p => match p.state with
        | .required => !optionLikeT σ p.ty | _ => true) = true) (hfl : hasFlatten ps = false)
    (h : deStruct x σ (f + 1) ps deny (.obj kvs) = .ok (.struct fs)) : FieldsRel x σ f ps fs := by
  simp only [deStruct] at h
  split at h
  · rename_i hc; simp [hfl] at hc
  · split at h
    · simp at h
    · split at h
      · rename_i fs' hm
        simp only [Except.ok.injEq, Val.struct.injEq] at h; subst h
        -- membership-restricted step facts
        have key : ∀ {qs : List Field}, (∀ p ∈ qs, p ∈ ps) → ∀ {gs : List (String × Val)},
            mapM' (fun (p : Field) =>
              match Json.lookup kvs p.wire with
              | some v => (match de x σ f p.ty v with | .ok a => .ok (p.name, a) | .error e => .error e)
              | none =>
                match p.state with
                | .required => if optionLikeT σ p.ty then .ok (p.name, Val.none) else .error .reject
                | .optional => (match dflt x σ f p.ty with | .ok a => .ok (p.name, a) | .error e => .error e)
                | .dflt d => (match de x σ f p.ty d with
                    | .ok a => .ok (p.name, a)
                    | .error .reject => .error .unsupported
                    | .error e => .error e)) qs = .ok gs → FieldsRel x σ f qs gs := by
          intro qs
          induction qs with
          | nil => intro _ gs hh; simp only [mapM', Except.ok.injEq] at hh; subst hh; trivial
          | cons p r ih =>
            intro hsub gs hh
            simp only [mapM'] at hh
            split at hh
            · simp at hh
            · rename_i b hb
              split at hh
              · simp at hh
              · rename_i bs hbs
                simp only [Except.ok.injEq] at hh; subst hh
                have hp := (List.all_eq_true.mp hreq) p (hsub p (by simp))
                have hrest := ih (fun q hq => hsub q (by simp [hq])) hbs
                obtain ⟨n, a⟩ := b
                refine ⟨?_, ?_, hrest⟩
                · split at hb
                  · split at hb <;> simp at hb; exact hb.1.symm
                  · split at hb
                    · split at hb <;> simp at hb; exact hb.1.symm
                    · split at hb <;> simp at hb; exact hb.1.symm
                    · split at hb <;> simp at hb; exact hb.1.symm
                · split at hb
                  · rename_i v hl
                    split at hb
                    · rename_i a' hd
                      simp at hb; rw [← hb.2]; exact Or.inl ⟨v, hd⟩
                    · simp at hb
                  · split at hb
                    · rename_i hst
                      rw [hst] at hp; simp only [Bool.not_eq_true'] at hp
                      simp [hp] at hb
                    · rename_i hst
                      split at hb
                      · rename_i a' hd
                        simp at hb; rw [← hb.2]
                        exact Or.inr ⟨by rw [hst], hd⟩
                      · simp at hb
                    · rename_i dj hst
                      split at hb
                      · rename_i a' hd
                        simp at hb; rw [← hb.2]; exact Or.inl ⟨dj, hd⟩
                      · simp at hb
                      · simp at hb
        exact key (fun p hp => hp) hm
      · simp at h

theorem deStruct_arr_rel {f : Nat} {ps : List Field} {deny : Bool} {xs : List Json}
    {fs : List (String × Val)}
    (h : deStruct x σ (f + 1) ps deny (.arr xs) = .ok (.struct fs)) : FieldsRel x σ f ps fs := by
  simp only [deStruct] at h
  split at h
  · simp at h
  · split at h
    · simp at h
    · split at h
      · rename_i fs' hm
        simp only [Except.ok.injEq, Val.struct.injEq] at h; subst h
        have key : ∀ (qs : List Field) (idx : List Nat), idx.length = qs.length → ∀ {gs : List (String × Val)},
            mapM' (fun (pi : Field × Nat) =>
              match xs[pi.2]? with
              | some v => (match de x σ f pi.1.ty v with | .ok a => .ok (pi.1.name, a) | .error e => .error e)
              | none =>
                match pi.1.state with
                | .required => (.error .reject : Except E (String × Val))
                | .optional => (match dflt x σ f pi.1.ty with | .ok a => .ok (pi.1.name, a) | .error e => .error e)
                | .dflt d => (match de x σ f pi.1.ty d with
                    | .ok a => .ok (pi.1.name, a)
                    | .error .reject => .error .unsupported
                    | .error e => .error e)) (qs.zip idx) = .ok gs → FieldsRel x σ f qs gs := by
          intro qs
          induction qs with
          | nil => intro idx _ gs hh; simp only [List.zip_nil_left, mapM', Except.ok.injEq] at hh; subst hh; trivial
          | cons p r ih =>
            intro idx hlen gs hh
            cases idx with
            | nil => simp at hlen
            | cons i is =>
              simp only [List.zip_cons_cons, mapM'] at hh
              split at hh
              · simp at hh
              · rename_i b hb
                split at hh
                · simp at hh
                · rename_i bs hbs
                  simp only [Except.ok.injEq] at hh; subst hh
                  have hrest := ih is (by simpa using hlen) hbs
                  obtain ⟨n, a⟩ := b
                  try simp only at hb
                  refine ⟨?_, ?_, hrest⟩
                  · split at hb
                    · split at hb <;> simp at hb; exact hb.1.symm
                    · split at hb
                      · simp at hb
                      · split at hb <;> simp at hb; exact hb.1.symm
                      · split at hb <;> simp at hb; exact hb.1.symm
                  · split at hb
                    · rename_i v hl
                      split at hb
                      · rename_i a' hd
                        simp at hb; rw [← hb.2]; exact Or.inl ⟨v, hd⟩
                      · simp at hb
                    · split at hb
                      · simp at hb
                      · rename_i hst
                        split at hb
                        · rename_i a' hd
                          simp at hb; rw [← hb.2]
                          exact Or.inr ⟨by rw [hst], hd⟩
                        · simp at hb
                      · rename_i dj hst
                        split at hb
                        · rename_i a' hd
                          simp at hb; rw [← hb.2]; exact Or.inl ⟨dj, hd⟩
                        · simp at hb
                        · simp at hb
        exact key ps (List.range ps.length) (by simp) hm
      · simp at h

end TypifyModel.RoundTrip

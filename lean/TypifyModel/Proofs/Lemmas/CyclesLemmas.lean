import TypifyModel.Model.Cycles
/-! Helper lemmas for C07: node rewriting, graph primitives (`set`, `idToBox`), the edge relation. -/
namespace TypifyModel.Cycles

/-! ### nodes -/

theorem Variant.childIds_mapIds (f : Nat → Nat) (v : Variant) :
    (v.mapIds f).childIds = v.childIds.map f := by
  cases v <;> simp [Variant.mapIds, Variant.childIds]

theorem flatMap_mapIds (f : Nat → Nat) (vs : List Variant) :
    (vs.map (Variant.mapIds f)).flatMap Variant.childIds = (vs.flatMap Variant.childIds).map f := by
  induction vs with
  | nil => rfl
  | cons v vs ih =>
    simp only [List.map_cons, List.flatMap_cons, List.map_append, ih, Variant.childIds_mapIds]

theorem Node.childIds_mapChildren (f : Nat → Nat) (n : Node) :
    (n.mapChildren f).childIds = n.childIds.map f := by
  cases n <;> simp [Node.mapChildren, Node.childIds, flatMap_mapIds]

theorem map_eq_self (f : Nat → Nat) : ∀ (l : List Nat), (∀ c ∈ l, f c = c) → l.map f = l
  | [], _ => rfl
  | a :: l, h => by
    simp only [List.map_cons, h a (by simp), map_eq_self f l (fun c hc => h c (by simp [hc]))]

theorem Variant.mapIds_id (f : Nat → Nat) (v : Variant) (h : ∀ c ∈ v.childIds, f c = c) :
    v.mapIds f = v := by
  cases v with
  | simple => rfl
  | item i => simp [Variant.mapIds, h i (by simp [Variant.childIds])]
  | tuple is => simp only [Variant.mapIds, map_eq_self f is h]
  | struct is => simp only [Variant.mapIds, map_eq_self f is h]

theorem mapVariants_id (f : Nat → Nat) : ∀ (vs : List Variant),
    (∀ c ∈ vs.flatMap Variant.childIds, f c = c) → vs.map (Variant.mapIds f) = vs
  | [], _ => rfl
  | v :: vs, h => by
    simp only [List.flatMap_cons, List.mem_append] at h
    simp only [List.map_cons, Variant.mapIds_id f v (fun c hc => h c (Or.inl hc)),
      mapVariants_id f vs (fun c hc => h c (Or.inr hc))]

theorem Node.mapChildren_id (f : Nat → Nat) (n : Node) (h : ∀ c ∈ n.childIds, f c = c) :
    n.mapChildren f = n := by
  cases n with
  | enum vs => simp only [Node.mapChildren, mapVariants_id f vs h]
  | struct ps => simp only [Node.mapChildren, map_eq_self f ps h]
  | tuple ps => simp only [Node.mapChildren, map_eq_self f ps h]
  | newtype i => simp [Node.mapChildren, h i (by simp [Node.childIds])]
  | option i => simp [Node.mapChildren, h i (by simp [Node.childIds])]
  | array i k => simp [Node.mapChildren, h i (by simp [Node.childIds])]
  | _ => rfl

/-! ### graph primitives -/

/-- by-value edge `u → v` -/
def E (g : G) (u v : Nat) : Prop := ∃ n, g.get u = some n ∧ v ∈ n.childIds

/-- no by-value child (heap nodes, scalars, missing ids) -/
def Leaf (g : G) (v : Nat) : Prop := ∀ n, g.get v = some n → n.childIds = []

/-- nodes reachable from the roots `lo..hi` along by-value edges -/
inductive Reach (g : G) (lo hi : Nat) : Nat → Prop
  | root {r : Nat} : lo ≤ r → r < hi → Reach g lo hi r
  | step {u v : Nat} : Reach g lo hi u → E g u v → Reach g lo hi v

/-- non-empty by-value path -/
inductive Path (g : G) : Nat → Nat → Prop
  | single {a b : Nat} : E g a b → Path g a b
  | tail {a b c : Nat} : Path g a b → E g b c → Path g a c

theorem Reach.path {g : G} {lo hi u w : Nat} (hu : Reach g lo hi u) (p : Path g u w) :
    Reach g lo hi w := by
  induction p with
  | single e => exact .step hu e
  | tail _ e ih => exact .step ih e

/-- every entry has an id below `next_id` (`assign()` hands out fresh ids) -/
def KeysBelow (g : G) : Prop := ∀ i n, g.get i = some n → i < g.next

/-- `KeysBelow`, and every by-value child is an entry -/
structure WF (g : G) : Prop where
  keys : KeysBelow g
  children : ∀ u v, E g u v → ∃ n, g.get v = some n

theorem mem_roots {lo hi r : Nat} : r ∈ roots lo hi ↔ lo ≤ r ∧ r < hi := by
  simp only [roots, List.mem_map, List.mem_range]
  constructor
  · rintro ⟨a, ha, rfl⟩; omega
  · intro h; exact ⟨r - lo, by omega, by omega⟩

def isLeaf (g : G) (v : Nat) : Bool :=
  match g.get v with
  | none => true
  | some n => n.childIds.isEmpty

theorem isLeaf_iff {g : G} {v : Nat} : isLeaf g v = true ↔ Leaf g v := by
  unfold isLeaf Leaf
  split
  · rename_i h; simp [h]
  · rename_i n h; simp [h, List.isEmpty_iff]

/-- an entry `Box(c)` exists below `next_id` -/
def hasBox (g : G) (c : Nat) : Prop := ∃ k, k < g.next ∧ g.get k = some (.box c)

theorem findBox_some {g : G} {c b : Nat} (h : findBox g c = some b) : g.get b = some (.box c) := by
  have := List.find?_some h
  simpa using this

theorem findBox_of_hasBox {g : G} {c : Nat} (h : hasBox g c) : ∃ b, findBox g c = some b := by
  obtain ⟨k, hk, hg⟩ := h
  have : (findBox g c).isSome := by
    unfold findBox
    rw [List.find?_isSome]
    exact ⟨k, List.mem_range.mpr hk, by simp [hg]⟩
  exact Option.isSome_iff_exists.mp this

theorem idToBox_get {g : G} {c x : Nat} {n : Node} (h : (idToBox g c).get x = some n) :
    g.get x = some n ∨ n = .box c := by
  unfold idToBox at h
  split at h
  · exact Or.inl h
  · simp only at h
    split at h
    · right; simpa using h.symm
    · exact Or.inl h

theorem idToBox_get_old {g : G} {c x : Nat} (hx : x < g.next) : (idToBox g c).get x = g.get x := by
  unfold idToBox
  split
  · rfl
  · simp only
    rw [if_neg (by omega)]

theorem idToBox_next_le (g : G) (c : Nat) : g.next ≤ (idToBox g c).next := by
  unfold idToBox
  split <;> simp

theorem idToBox_hasBox_self (g : G) (c : Nat) : hasBox (idToBox g c) c := by
  unfold idToBox
  split
  · rename_i b hb
    have hb' := findBox_some hb
    have : b ∈ List.range g.next := List.mem_of_find?_eq_some hb
    exact ⟨b, List.mem_range.mp this, hb'⟩
  · exact ⟨g.next, by simp, by simp⟩

theorem idToBox_hasBox_mono {g : G} {c d : Nat} (h : hasBox g d) : hasBox (idToBox g c) d := by
  obtain ⟨k, hk, hg⟩ := h
  exact ⟨k, Nat.lt_of_lt_of_le hk (idToBox_next_le g c), by rw [idToBox_get_old hk]; exact hg⟩

theorem foldl_idToBox_get {x : Nat} {n : Node} : ∀ (l : List Nat) (g : G),
    (l.foldl idToBox g).get x = some n → g.get x = some n ∨ ∃ c, n = .box c
  | [], _, h => Or.inl h
  | c :: l, g, h => by
    rcases foldl_idToBox_get l (idToBox g c) h with h1 | h1
    · rcases idToBox_get h1 with h2 | h2
      · exact Or.inl h2
      · exact Or.inr ⟨c, h2⟩
    · exact Or.inr h1

theorem foldl_idToBox_next_le : ∀ (l : List Nat) (g : G), g.next ≤ (l.foldl idToBox g).next
  | [], _ => Nat.le_refl _
  | c :: l, g => Nat.le_trans (idToBox_next_le g c) (foldl_idToBox_next_le l (idToBox g c))

theorem foldl_idToBox_get_old {x : Nat} : ∀ (l : List Nat) (g : G), x < g.next →
    (l.foldl idToBox g).get x = g.get x
  | [], _, _ => rfl
  | c :: l, g, hx => by
    simp only [List.foldl_cons]
    rw [foldl_idToBox_get_old l (idToBox g c) (Nat.lt_of_lt_of_le hx (idToBox_next_le g c)),
      idToBox_get_old hx]

theorem foldl_hasBox_mono {d : Nat} : ∀ (l : List Nat) (g : G), hasBox g d →
    hasBox (l.foldl idToBox g) d
  | [], _, h => h
  | c :: l, g, h => foldl_hasBox_mono l (idToBox g c) (idToBox_hasBox_mono h)

theorem foldl_hasBox {d : Nat} : ∀ (l : List Nat) (g : G), d ∈ l → hasBox (l.foldl idToBox g) d
  | c :: l, g, h => by
    simp only [List.foldl_cons]
    rcases List.mem_cons.mp h with rfl | h
    · exact foldl_hasBox_mono l _ (idToBox_hasBox_self g d)
    · exact foldl_hasBox l _ h

theorem idToBox_keys {g : G} {c : Nat} (h : ∀ i n, g.get i = some n → i < g.next) :
    ∀ i n, (idToBox g c).get i = some n → i < (idToBox g c).next := by
  intro i n hn
  unfold idToBox at hn ⊢
  split
  · rename_i hb; simp only [hb] at hn; exact h i n hn
  · rename_i hb
    simp only [hb] at hn
    split at hn
    · subst_vars; simp
    · exact Nat.lt_succ_of_lt (h i n hn)

theorem foldl_keys : ∀ (l : List Nat) (g : G), (∀ i n, g.get i = some n → i < g.next) →
    ∀ i n, (l.foldl idToBox g).get i = some n → i < (l.foldl idToBox g).next
  | [], _, h => h
  | c :: l, g, h => foldl_keys l (idToBox g c) (idToBox_keys h)

/-- the id a snipped child is redirected to is a `Box` of that child -/
theorem boxId_spec {g : G} {c : Nat} (h : hasBox g c) : g.get (boxId g c) = some (.box c) := by
  obtain ⟨b, hb⟩ := findBox_of_hasBox h
  simp only [boxId, hb, Option.getD_some]
  exact findBox_some hb

theorem set_get (g : G) (u x : Nat) (n : Node) :
    (g.set u n).get x = if x = u then some n else g.get x := rfl

theorem set_next (g : G) (u : Nat) (n : Node) : (g.set u n).next = g.next := rfl

end TypifyModel.Cycles

import TypifyModel.Model.Serde
/-! `insertKv` is insertion into a key-sorted association list (C03: maps). -/
namespace TypifyModel.Serde

abbrev SortedKv (l : List (String × Val)) : Prop := l.Pairwise (fun a b => a.1 < b.1)

theorem insertKv_mem {k : String} {v : Val} : ∀ {l : List (String × Val)} {e : String × Val},
    e ∈ insertKv k v l → e = (k, v) ∨ e ∈ l := by
  intro l
  induction l with
  | nil => intro e h; simp [insertKv] at h; exact Or.inl h
  | cons a r ih =>
    intro e h
    obtain ⟨k', v'⟩ := a
    simp only [insertKv] at h
    split at h
    · simp only [List.mem_cons] at h ⊢
      rcases h with h | h | h
      · exact Or.inl h
      · exact Or.inr (Or.inl h)
      · exact Or.inr (Or.inr h)
    · split at h
      · simp only [List.mem_cons] at h ⊢
        rcases h with h | h
        · exact Or.inl h
        · exact Or.inr (Or.inr h)
      · simp only [List.mem_cons] at h ⊢
        rcases h with h | h
        · exact Or.inr (Or.inl h)
        · rcases ih h with h' | h'
          · exact Or.inl h'
          · exact Or.inr (Or.inr h')

theorem insertKv_sorted {k : String} {v : Val} : ∀ {l : List (String × Val)},
    SortedKv l → SortedKv (insertKv k v l) := by
  intro l
  induction l with
  | nil => intro _; simp [insertKv, SortedKv]
  | cons a r ih =>
    intro h
    obtain ⟨k', v'⟩ := a
    have hcons := List.pairwise_cons.mp h
    simp only [insertKv]
    split
    · rename_i hlt
      apply List.pairwise_cons.mpr
      refine ⟨?_, h⟩
      intro e he
      simp only [List.mem_cons] at he
      rcases he with rfl | he
      · exact hlt
      · exact String.lt_trans hlt (hcons.1 e he)
    · split
      · rename_i heq
        subst heq
        apply List.pairwise_cons.mpr
        exact ⟨hcons.1, hcons.2⟩
      · rename_i hnlt hne
        have hgt : k' < k := by
          apply Classical.byContradiction
          intro hn
          exact hne (String.le_antisymm hn hnlt)
        apply List.pairwise_cons.mpr
        refine ⟨?_, ih hcons.2⟩
        intro e he
        rcases insertKv_mem he with rfl | he'
        · exact hgt
        · exact hcons.1 e he'

theorem foldl_insertKv_sorted : ∀ (l : List (String × Val)) (acc : List (String × Val)),
    SortedKv acc → SortedKv (l.foldl (fun acc e => insertKv e.1 e.2 acc) acc) := by
  intro l
  induction l with
  | nil => intro acc h; exact h
  | cons a r ih => intro acc h; exact ih _ (insertKv_sorted h)

theorem insertKv_last {k : String} {v : Val} : ∀ {l : List (String × Val)},
    (∀ e ∈ l, e.1 < k) → insertKv k v l = l ++ [(k, v)] := by
  intro l
  induction l with
  | nil => intro _; rfl
  | cons a r ih =>
    intro h
    obtain ⟨k', v'⟩ := a
    have hk : k' < k := h (k', v') (by simp)
    simp only [insertKv]
    have h1 : ¬ k < k' := fun hc => String.lt_irrefl k (String.lt_trans hc hk)
    have h2 : ¬ k = k' := fun hc => by subst hc; exact String.lt_irrefl k hk
    simp only [h1, h2, if_false]
    rw [ih (fun e he => h e (by simp [he]))]
    rfl

/-- re-inserting a sorted list element by element reproduces it -/
theorem foldl_insertKv_id : ∀ (l acc : List (String × Val)),
    SortedKv (acc ++ l) → l.foldl (fun acc e => insertKv e.1 e.2 acc) acc = acc ++ l := by
  intro l
  induction l with
  | nil => intro acc _; simp
  | cons a r ih =>
    intro acc h
    simp only [List.foldl_cons]
    have hlast : insertKv a.1 a.2 acc = acc ++ [a] := by
      apply insertKv_last
      intro e he
      have := List.pairwise_append.mp h
      exact this.2.2 e he a (by simp)
    rw [hlast]
    have : SortedKv ((acc ++ [a]) ++ r) := by simpa using h
    rw [ih (acc ++ [a]) this]
    simp

end TypifyModel.Serde

namespace TypifyModel.Serde

theorem foldl_insertKv_mem : ∀ (l acc : List (String × Val)) (e : String × Val),
    e ∈ l.foldl (fun acc e => insertKv e.1 e.2 acc) acc → e ∈ l ∨ e ∈ acc := by
  intro l
  induction l with
  | nil => intro acc e h; exact Or.inr h
  | cons a r ih =>
    intro acc e h
    simp only [List.foldl_cons] at h
    rcases ih _ e h with h' | h'
    · exact Or.inl (by simp [h'])
    · rcases insertKv_mem h' with rfl | h''
      · exact Or.inl (by simp)
      · exact Or.inr h''

end TypifyModel.Serde

import TypifyModel.Proofs.Lemmas.ContainList
import TypifyModel.Proofs.Lemmas.RoundTripMain
/-! Structs in the containment theorem (C03): a member that `skip_serializing_if` leaves out was read
    from a document that `prune` drops as well; every other member present in the input object is
    written, and (one fuel level down) contains what was read. -/
namespace TypifyModel.Contain
open TypifyModel TypifyModel.Serde TypifyModel.RoundTrip

variable (x : Ext) (σ : Space)

/-- only `null` reads as `None` (nested `Option`s are flattened by `de`) -/
theorem de_none_null : ∀ (f : Nat) (t : Id) (j : Json) (t' : Id) (ed : List String) (im : List Impl),
    σ.get t = some ⟨.option t', ed, im⟩ → de x σ f t j = .ok .none → j = .null := by
  intro f
  induction f with
  | zero => intro t j t' ed im _ h; simp [de] at h
  | succ f ih =>
    intro t j t' ed im hg h
    simp only [de, hg] at h
    by_cases hj : j = .null
    · exact hj
    · exfalso
      have h' : (match σ.get t' with
          | some ⟨.option _, _, _⟩ => de x σ f t' j
          | _ => match de x σ f t' j with
            | .ok v => (.ok (.some v) : Except E Val)
            | .error e => .error e) = .ok .none := by
        cases j <;> first | exact absurd rfl hj | exact h
      split at h'
      · rename_i t'' ed' im' hg'
        exact hj (ih t' j t'' ed' im' hg' h')
      · split at h' <;> simp at h'

/-- only `[]` reads as the empty `Vec` -/
theorem de_vec_nil {f : Nat} {t t' : Id} {ed : List String} {im : List Impl} {j : Json}
    (hg : σ.get t = some ⟨.vec t', ed, im⟩) (h : de x σ f t j = .ok (.seq [])) : j = .arr [] := by
  cases f with
  | zero => simp [de] at h
  | succ f =>
    simp only [de, hg] at h
    cases j with
    | arr xs =>
      simp only at h
      cases hm : mapM' (de x σ f t') xs with
      | error e => rw [hm] at h; simp at h
      | ok vs =>
        rw [hm] at h
        simp only [Except.ok.injEq, Val.seq.injEq] at h; subst h
        have := mapM'_length hm
        cases xs with
        | nil => rfl
        | cons _ _ => simp at this
    | _ => simp at h

/-- only `{}` reads as the empty map -/
theorem de_map_nil {f : Nat} {t k vt : Id} {ed : List String} {im : List Impl} {j : Json}
    (hg : σ.get t = some ⟨.map k vt, ed, im⟩) (h : de x σ f t j = .ok (.map [])) : j = .obj [] := by
  cases f with
  | zero => simp [de] at h
  | succ f =>
    simp only [de, hg] at h
    cases j with
    | obj kvs =>
      simp only at h
      split at h
      · rename_i es hm
        simp only [Except.ok.injEq, Val.map.injEq] at h
        have hes : es = [] := by
          cases es with
          | nil => rfl
          | cons a r => exact absurd h (foldl_insertKv_ne_nil (a :: r) [] (Or.inl (by simp)))
        subst hes
        have := mapM'_length hm
        cases kvs with
        | nil => rfl
        | cons _ _ => simp at this
      · simp at h
    | _ => simp at h

/-- a member left out by `skip_serializing_if` was read from a document that `prune` drops -/
theorem skipped_empty {f : Nat} {p : Field} {vk : Json} {a : Val}
    (hde : de x σ f p.ty vk = .ok a) (hsk : skipped σ p a = true) : emptyJ (prune vk) = true := by
  obtain ⟨_, hkind⟩ := skipped_cases σ hsk
  rcases hkind with ⟨⟨t', ed, im, hg⟩, rfl⟩ | ⟨⟨t', ed, im, hg⟩, rfl⟩ | ⟨⟨k, v, ed, im, hg⟩, rfl⟩
  · rw [de_none_null x σ f p.ty vk t' ed im hg hde]; rfl
  · rw [de_vec_nil x σ hg hde]; rfl
  · rw [de_map_nil x σ hg hde]; rfl

/-- `deStruct` on an object is `mapM'` of the member step -/
theorem deStruct_obj_step {f : Nat} {ps : List Field} {deny : Bool} {kvs : List (String × Json)}
    {fs : List (String × Val)} (hfl : hasFlatten ps = false)
    (h : deStruct x σ (f + 1) ps deny (.obj kvs) = .ok (.struct fs)) :
    mapM' (stepE x σ f kvs) ps = .ok fs := by
  simp only [deStruct] at h
  split at h
  · rename_i hc; simp [hfl] at hc
  · split at h
    · simp at h
    · split at h
      · rename_i fs' hm
        simp only [Except.ok.injEq, Val.struct.injEq] at h; subst h
        exact hm
      · simp at h

/-- a member present in the input object with a value that `prune` keeps is written, and its written
    value contains it -/
theorem fields_contained {f : Nat} {kvs : List (String × Json)} :
    ∀ (ps : List Field) (fs : List (String × Val)) (es : List (String × Json)), hasFlatten ps = false →
      mapM' (stepE x σ f kvs) ps = .ok fs → seFieldsR (se σ f) σ ps fs = .ok es →
      ∀ p ∈ ps, ∀ vk, Json.lookup kvs p.wire = some vk → emptyJ (prune vk) = false →
        (∀ a w, de x σ f p.ty vk = .ok a → se σ f p.ty a = .ok w →
          contained (prune vk) (prune w) = true) →
        ∃ w, (p.wire, w) ∈ es ∧ contained (prune vk) (prune w) = true := by
  intro ps
  induction ps with
  | nil => intro fs es _ _ _ p hp; simp at hp
  | cons q r ih =>
    intro fs es hfl hm hse p hp vk hl hne hc
    obtain ⟨hpf, hrf⟩ := hasFlatten_cons hfl
    simp only [mapM'] at hm
    cases hq : stepE x σ f kvs q with
    | error e => rw [hq] at hm; simp at hm
    | ok b =>
      rw [hq] at hm
      cases hr : mapM' (stepE x σ f kvs) r with
      | error e => rw [hr] at hm; simp at hm
      | ok bs =>
        rw [hr] at hm
        simp only [Except.ok.injEq] at hm; subst hm
        obtain ⟨n, av⟩ := b
        simp only [seFieldsR] at hse
        split at hse
        · rename_i hcf; rw [hpf] at hcf; simp at hcf
        · cases hrest : seFieldsR (se σ f) σ r bs with
          | error e => rw [hrest] at hse; simp at hse
          | ok rest =>
            rw [hrest] at hse
            simp only at hse
            simp only [List.mem_cons] at hp
            rcases hp with rfl | hp
            · -- the member itself
              have hde : de x σ f p.ty vk = .ok av := by
                unfold stepE at hq
                rw [hl] at hq
                simp only at hq
                split at hq <;> simp at hq
                rename_i a' hd
                rw [← hq.2]; exact hd
              by_cases hsk : skipped σ p av = true
              · exfalso
                have := skipped_empty x σ hde hsk
                rw [this] at hne; simp at hne
              · have hsk' : skipped σ p av = false := by simpa using hsk
                rw [hsk'] at hse
                simp only [Bool.false_eq_true, if_false] at hse
                cases hj : se σ f p.ty av with
                | error e => rw [hj] at hse; simp at hse
                | ok j =>
                  rw [hj] at hse
                  simp only [Except.ok.injEq] at hse; subst hse
                  exact ⟨j, by simp, hc av j hde hj⟩
            · -- a later member
              obtain ⟨w, hw, hcw⟩ := ih bs rest hrf hr hrest p hp vk hl hne hc
              refine ⟨w, ?_, hcw⟩
              split at hse
              · simp only [Except.ok.injEq] at hse; subst hse; exact hw
              · split at hse
                · simp at hse
                · simp only [Except.ok.injEq] at hse; subst hse
                  exact List.mem_cons_of_mem _ hw

/-- the written members have pairwise distinct keys -/
theorem seFieldsR_nodup {rec : Id → Val → Except E Json} :
    ∀ {ps : List Field} {fs : List (String × Val)} {es : List (String × Json)}, hasFlatten ps = false →
      seFieldsR rec σ ps fs = .ok es → nodupB (ps.map (·.wire)) = true → nodupKeys es = true := by
  intro ps
  induction ps with
  | nil =>
    intro fs es _ h _
    cases fs <;> simp [seFieldsR] at h
    subst h; rfl
  | cons p r ih =>
    intro fs es hfl h hnd
    obtain ⟨hpf, hrf⟩ := hasFlatten_cons hfl
    have ih := fun {fs es} => @ih fs es hrf
    simp only [List.map_cons] at hnd
    obtain ⟨hne, hnd'⟩ := nodupB_cons hnd
    cases fs with
    | nil => simp [seFieldsR] at h
    | cons a as =>
      obtain ⟨n, v⟩ := a
      simp only [seFieldsR] at h
      split at h
      · rename_i hcf; rw [hpf] at hcf; simp at hcf
      · split at h
        · simp at h
        · rename_i rest hrest
          have hr := ih hrest hnd'
          split at h
          · simp only [Except.ok.injEq] at h; subst h; exact hr
          · split at h
            · simp at h
            · simp only [Except.ok.injEq] at h; subst h
              unfold nodupKeys
              simp only [List.map_cons]
              apply nodupB_of_forall
              · intro b hb
                obtain ⟨kv, hkv, rfl⟩ := List.mem_map.mp hb
                obtain ⟨q, hq, hw⟩ := seFieldsR_keys σ hrf hrest kv hkv
                rw [← hw]
                exact hne q.wire (List.mem_map.mpr ⟨q, hq, rfl⟩)
              · exact hr

/-- **structs**: every member of the pruned input object is contained in the member of the same name
    of the pruned output object -/
theorem struct_contained {f : Nat} {ps : List Field} {deny : Bool} {kvs : List (String × Json)}
    {fs : List (String × Val)} {es : List (String × Json)}
    (hih : ∀ p ∈ ps, ∀ vk a w, declared σ f p.ty vk = true → de x σ f p.ty vk = .ok a →
      se σ f p.ty a = .ok w → contained (prune vk) (prune w) = true)
    (hok : fieldsOkB σ ps = true)
    (hd : declaredStruct σ (f + 1) ps (.obj kvs) = true)
    (h1 : deStruct x σ (f + 1) ps deny (.obj kvs) = .ok (.struct fs))
    (h2 : seStruct σ (f + 1) ps fs = .ok es) :
    containedObj (pruneObj kvs) (pruneObj es) = true := by
  obtain ⟨hfl, hnd, _, _⟩ := fieldsOk_unpack σ hok
  simp only [declaredStruct, hfl, Bool.false_eq_true, if_false, Bool.and_eq_true] at hd
  obtain ⟨hndk, hall⟩ := hd
  have hm := deStruct_obj_step x σ hfl h1
  simp only [seStruct] at h2
  have hnde : nodupKeys es = true := seFieldsR_nodup σ hfl h2 hnd
  apply containedObj_iff.mpr
  intro kv hkv
  obtain ⟨k, v'⟩ := kv
  obtain ⟨vk, hmem, hv', hne⟩ := mem_pruneObj.mp hkv
  subst hv'
  have hdecl := (List.all_eq_true.mp hall) (k, vk) hmem
  simp only at hdecl
  cases hf : ps.find? (fun p => p.wire == k) with
  | none => rw [hf] at hdecl; simp at hdecl
  | some p =>
    rw [hf] at hdecl
    simp only at hdecl
    have hp : p ∈ ps := List.mem_of_find?_eq_some hf
    have hw : p.wire = k := by simpa using List.find?_some hf
    have hl : Json.lookup kvs p.wire = some vk := by rw [hw]; exact lookup_of_mem hndk hmem
    obtain ⟨w, hwm, hcw⟩ := fields_contained x σ ps fs es hfl hm h2 p hp vk hl hne
      (fun a w h1 h2 => hih p hp vk a w hdecl h1 h2)
    have hne' : emptyJ (prune w) = false := contained_nonempty hcw hne
    have hmem' : (k, prune w) ∈ pruneObj es := by
      apply mem_pruneObj.mpr
      refine ⟨w, ?_, rfl, hne'⟩
      rw [← hw]; exact hwm
    exact ⟨prune w, lookup_of_mem (nodupKeys_pruneObj hnde) hmem', hcw⟩

end TypifyModel.Contain

import TypifyModel.Proofs.Lemmas.CyclesFrame
/-! C07, completeness of the traversal: every node reachable from the roots in the INPUT graph along
    by-value edges is visited (hence finished) — `get_child_ids` misses no by-value position of the
    abstract node, and `visited`/`active` never make the traversal skip an unvisited child. -/
namespace TypifyModel.Cycles

structure Closed (g0 : G) (act : List Nat) (s : St) : Prop where
  frame : Frame g0 s.g s.visited
  actVis : ∀ a ∈ act, a ∈ s.visited
  closed : ∀ x ∈ s.fin, ∀ v, E g0 x v → v ∈ s.visited

theorem visitList_closed {g0 : G} {f : Nat → St → Option St} {act : List Nat}
    (hf : ∀ c s s', f c s = some s' → Closed g0 act s →
      Closed g0 act s' ∧ (∀ x ∈ s.visited, x ∈ s'.visited) ∧ c ∈ s'.visited) :
    ∀ (cs : List Nat) (s s' : St), visitList f cs s = some s' → Closed g0 act s →
      Closed g0 act s' ∧ (∀ x ∈ s.visited, x ∈ s'.visited) ∧ ∀ c ∈ cs, c ∈ s'.visited
  | [], s, s', h, hc => by
    simp only [visitList, Option.some.injEq] at h
    subst h
    exact ⟨hc, fun _ h => h, fun _ h => by simp at h⟩
  | c :: cs, s, s', h, hc => by
    simp only [visitList] at h
    split at h
    · cases h
    · rename_i s1 h1
      obtain ⟨c1, m1, v1⟩ := hf c s s1 h1 hc
      obtain ⟨c2, m2, v2⟩ := visitList_closed hf cs s1 s' h c1
      refine ⟨c2, fun x hx => m2 x (m1 x hx), fun d hd => ?_⟩
      rcases List.mem_cons.mp hd with rfl | hd
      · exact m2 _ v1
      · exact v2 d hd

theorem visit_closed {g0 : G} : ∀ (fuel : Nat) (act : List Nat) (u : Nat) (s s' : St),
    visit fuel act u s = some s' → Closed g0 act s →
      Closed g0 act s' ∧ (∀ x ∈ s.visited, x ∈ s'.visited) ∧ u ∈ s'.visited
  | 0, _, _, _, _, h, _ => by simp [visit] at h
  | fuel + 1, act, u, s, s', h, hc => by
    rw [visit_succ] at h
    split at h
    · rename_i hv
      cases h
      exact ⟨hc, fun _ h => h, hv⟩
    · rename_i hv
      split at h
      · rename_i hnone
        cases h
        refine ⟨⟨?_, fun a ha => by simp [hc.actVis a ha], fun x hx v he => ?_⟩,
          fun x hx => by simp [hx], by simp⟩
        · exact ⟨hc.frame.keys,
            fun i n hi hni => hc.frame.unvisited i n hi (fun h => hni (by simp [h])),
            hc.frame.onlyBox⟩
        · rcases List.mem_cons.mp hx with rfl | hx
          · obtain ⟨n, hn, _⟩ := he
            have := hc.frame.unvisited _ n hn hv
            rw [hnone] at this; cases this
          · simp [hc.closed x hx v he]
      · rename_i node hu
        split at h
        · cases h
        · rename_i s2 h2
          cases h
          have c1 : Closed g0 (u :: act)
              { g := startG s.g (u :: act) u node, visited := u :: s.visited, fin := s.fin } :=
            ⟨start_frame hc.frame hv hu,
             fun a ha => by
               rcases List.mem_cons.mp ha with rfl | ha
               · simp
               · simp [hc.actVis a ha],
             fun x hx v he => by simp [hc.closed x hx v he]⟩
          obtain ⟨c2, m2, v2⟩ := visitList_closed
            (fun c s s' h hc => visit_closed fuel (u :: act) c s s' h hc) _ _ _ h2 c1
          refine ⟨⟨c2.frame, fun a ha => c2.actVis a (by simp [ha]), fun x hx v he => ?_⟩,
            fun x hx => m2 x (by simp [hx]), m2 u (by simp)⟩
          rcases List.mem_cons.mp hx with rfl | hx
          · obtain ⟨n, hn, hvn⟩ := he
            have := hc.frame.unvisited _ n hn hv
            rw [hu] at this; cases this
            by_cases hact : v ∈ x :: act
            · exact c2.actVis v hact
            · exact v2 v (List.mem_reverse.mpr (List.mem_filter.mpr ⟨hvn, by simpa using hact⟩))
          · exact c2.closed x hx v he

theorem breakCyclesSt_closed {fuel : Nat} {g : G} {lo hi : Nat} {s : St} (hk : KeysBelow g)
    (h : breakCyclesSt fuel g lo hi = some s) :
    Closed g [] s ∧ ∀ r ∈ roots lo hi, r ∈ s.visited := by
  have h0 : Closed g [] { g := g, visited := [], fin := [] } :=
    ⟨Frame.init hk, fun _ h => by simp at h, fun _ h => by simp at h⟩
  obtain ⟨c, _, v⟩ := visitList_closed
    (fun c s s' h hc => visit_closed fuel [] c s s' h hc) _ _ _ h h0
  exact ⟨c, v⟩

/-- every node reachable in the input graph is finished at the end -/
theorem reach_input_fin {g : G} {lo hi : Nat} {s : St} (hi' : Inv s []) (hc : Closed g [] s)
    (hr : ∀ r ∈ roots lo hi, r ∈ s.visited) {u : Nat} (h : Reach g lo hi u) : u ∈ s.fin := by
  have vf : ∀ x ∈ s.visited, x ∈ s.fin := fun x hx => by
    rcases hi'.visFin x hx with h | h
    · exact h
    · simp at h
  induction h with
  | root h1 h2 => exact vf _ (hr _ (mem_roots.mpr ⟨h1, h2⟩))
  | step _ he ih => exact vf _ (hc.closed _ ih _ he)

end TypifyModel.Cycles

import TypifyModel.Proofs.Lemmas.MergeSub
/-! C09: `try_merge_with_each_subschema` — distribution over `oneOf` / `anyOf`. -/
set_option linter.unusedSimpArgs false
set_option linter.unusedVariables false
namespace TypifyModel.Merge
open TypifyModel TypifyModel.Validate

variable {x : Ext} {d : Doc}

theorem countV_def_mem {g : Schema → Option Bool} : ∀ {xs : List Schema} {n : Nat}, countV g xs = some n →
    ∀ y ∈ xs, ∃ c, g y = some c := by
  intro xs
  induction xs with
  | nil => intro n _ y hy; simp at hy
  | cons a r ih =>
    intro n h y hy
    simp only [countV] at h
    cases ha : g a with
    | none => rw [ha] at h; simp at h
    | some b =>
      cases hc : countV g r with
      | none => rw [ha, hc] at h; simp at h
      | some k =>
        simp only [List.mem_cons] at hy
        rcases hy with rfl | hy
        · exact ⟨b, ha⟩
        · exact ih hc y hy

theorem countV_cons_some {g : Schema → Option Bool} {a : Schema} {r : List Schema} {n : Nat}
    (h : countV g (a :: r) = some n) : ∃ c k, g a = some c ∧ countV g r = some k ∧ n = (if c then k + 1 else k) := by
  simp only [countV] at h
  cases ha : g a with
  | none => rw [ha] at h; simp at h
  | some b =>
    cases hc : countV g r with
    | none => rw [ha, hc] at h; simp at h
    | some k =>
      rw [ha, hc] at h
      simp only [Option.some.injEq] at h
      exact ⟨b, k, rfl, rfl, h.symm⟩

theorem nots_verdict (v : Json) : ∀ (others : List Schema), (∀ y ∈ others, ∃ f c, valid x d f y v = some c) →
    ∃ F z, allV (fun s => valid x d F s v) (others.map Schema.not) = some z ∧
      ((∀ y ∈ others, ∀ f, valid x d f y v ≠ some true) → z = true) := by
  intro others
  induction others with
  | nil => intro _; exact ⟨0, true, rfl, fun _ => rfl⟩
  | cons y r ih =>
    intro hdef
    obtain ⟨f, c, hy⟩ := hdef y (by simp)
    obtain ⟨F', z', hz', hz2⟩ := ih (fun y' hy' => hdef y' (by simp [hy']))
    refine ⟨max (f + 1) F', !c && z', ?_, ?_⟩
    · simp only [List.map_cons, allV]
      have h1 : valid x d (f + 1) (.not y) v = some (!c) := by rw [valid_not, hy]; rfl
      rw [valid_mono x d (Nat.le_max_left (f + 1) F') h1,
        allV_mono (g' := fun s => valid x d (max (f + 1) F') s v)
          (fun s r hh => valid_mono x d (Nat.le_max_right (f + 1) F') hh) _ _ hz', and3_eq]
    · intro hnt
      have hc : c = false := by
        cases c with
        | false => rfl
        | true => exact absurd hy (hnt y (by simp) f)
      rw [hc, hz2 (fun y' hy' => hnt y' (by simp [hy']))]
      rfl

theorem kindC_verdict {so xi : Schema} {others : List Schema} {v : Json} {f2 f3 : Nat} {ba c : Bool}
    (hso : valid x d f2 so v = some ba) (hx : valid x d f3 xi v = some c)
    (hdef : ∀ y ∈ others, ∃ f c, valid x d f y v = some c)
    (hdisj : c = true → ∀ y ∈ others, ∀ f, valid x d f y v ≠ some true) :
    ∃ F, valid x d F (.allOf (so :: xi :: others.map Schema.not)) v = some (ba && c) := by
  obtain ⟨F0, z, hz, hz2⟩ := nots_verdict v others hdef
  refine ⟨max (max f2 f3) F0 + 1, ?_⟩
  rw [valid_allOf]
  simp only [allV]
  have hle2 : f2 ≤ max (max f2 f3) F0 := Nat.le_trans (Nat.le_max_left f2 f3) (Nat.le_max_left _ F0)
  have hle3 : f3 ≤ max (max f2 f3) F0 := Nat.le_trans (Nat.le_max_right f2 f3) (Nat.le_max_left _ F0)
  rw [valid_mono x d hle2 hso, valid_mono x d hle3 hx,
    allV_mono (g' := fun s => valid x d (max (max f2 f3) F0) s v)
      (fun s r hh => valid_mono x d (Nat.le_max_right (max f2 f3) F0) hh) _ _ hz, and3_eq, and3_eq]
  cases c with
  | false => simp
  | true => rw [hz2 (hdisj rfl)]; simp

theorem distGo_sem {rec : Schema → Schema → MR} (hrec : RecOK x d rec) (fr : Nat) (so : Schema) (all : List Schema)
    (v : Json) (f2 : Nat) (ba : Bool) (hso : valid x d f2 so v = some ba)
    (hdef : ∀ y ∈ all, ∃ f c, valid x d f y v = some c)
    (hpw : ∀ (i j : Nat) yi yj, i ≠ j → all[i]? = some yi → all[j]? = some yj → Disj x d yi yj) :
    ∀ (rest : List Schema) (i : Nat) (bs : List Schema), distGo rec fr so all i rest = some (bs, []) →
      (∀ j y, rest[j]? = some y → all[i + j]? = some y) →
      ∀ f3 n, countV (fun s => valid x d f3 s v) rest = some n →
      ∃ F, countV (fun s => valid x d F s v) bs = some (if ba then n else 0) := by
  intro rest
  induction rest with
  | nil =>
    intro i bs h _ f3 n hn
    simp only [distGo, Option.some.injEq, Prod.mk.injEq, and_true] at h
    subst h
    simp only [countV, Option.some.injEq] at hn
    subst hn
    exact ⟨0, by simp [countV]⟩
  | cons xi rest' ih =>
    intro i bs h hidx f3 n hn
    obtain ⟨c, n', hc, hn', rfl⟩ := countV_cons_some hn
    have hxi : all[i]? = some xi := by simpa using hidx 0 xi (by simp)
    have hidx' : ∀ j y, rest'[j]? = some y → all[i + 1 + j]? = some y := by
      intro j y hj
      have := hidx (j + 1) y (by simpa using hj)
      rw [show i + (j + 1) = i + 1 + j by omega] at this
      exact this
    simp only [distGo] at h
    have hs := hrec so xi
    cases hr : rec so xi with
    | unsup => rw [hr] at h; simp at h
    | never g =>
      rw [hr] at h hs
      simp only at h
      cases hgo : distGo rec fr so all (i + 1) rest' with
      | none => rw [hgo] at h; simp at h
      | some bg =>
        obtain ⟨bs', g'⟩ := bg
        rw [hgo] at h
        simp only [Option.some.injEq, Prod.mk.injEq, List.append_eq_nil_iff] at h
        obtain ⟨rfl, rfl, rfl⟩ := h
        obtain ⟨F, hF⟩ := ih (i + 1) bs' hgo hidx' f3 n' hn'
        refine ⟨F, ?_⟩
        rw [hF]
        cases ba with
        | false => rfl
        | true =>
          have : c = false := by
            cases c with
            | false => rfl
            | true => exact absurd ⟨hso, hc⟩ (hs v f2 f3)
          rw [this]; rfl
    | ok m g =>
      rw [hr] at h hs
      simp only at h
      cases hgo : distGo rec fr so all (i + 1) rest' with
      | none => rw [hgo] at h; simp at h
      | some bg =>
        obtain ⟨bs', g'⟩ := bg
        rw [hgo] at h
        simp only [Option.some.injEq, Prod.mk.injEq, List.append_eq_nil_iff] at h
        obtain ⟨hbs, ⟨rfl, hbr2⟩, rfl⟩ := h
        have hI : Inter x d m so xi := hs
        obtain ⟨f1, hf1⟩ := hI v f2 f3 ba c hso hc
        -- the verdict of the emitted branch
        have hbranch : ∃ Fb, valid x d Fb (if roughlyX false fr m so then (so, roughGap fr m so)
            else if roughlyX false fr m xi then (xi, roughGap fr m xi)
            else (Schema.allOf (so :: xi :: (all.eraseIdx i).map Schema.not), ([] : List Gap))).1 v = some (ba && c) := by
          split
          · rename_i hro
            simp only [hro, if_true] at hbr2
            have hE : Eqv x d m so := roughGap_nil hbr2
            rw [hE f1 v] at hf1
            have := valid_det x d hso hf1
            exact ⟨f2, by simp only; rw [← this]; exact hso⟩
          · rename_i hro
            split
            · rename_i hrx
              simp only [hro, hrx, if_true, Bool.false_eq_true, if_false] at hbr2
              have hE : Eqv x d m xi := roughGap_nil hbr2
              rw [hE f1 v] at hf1
              have := valid_det x d hc hf1
              exact ⟨f3, by simp only; rw [← this]; exact hc⟩
            · simp only
              apply kindC_verdict hso hc
              · intro y hy
                exact hdef y (List.mem_of_mem_eraseIdx hy)
              · intro hct y hy f hyv
                obtain ⟨j, hji, hj⟩ := List.mem_eraseIdx_iff_getElem?.mp hy
                subst hct
                exact hpw i j xi y (fun e => hji e.symm) hxi hj v f3 f ⟨hc, hyv⟩
        obtain ⟨Fb, hFb⟩ := hbranch
        obtain ⟨F', hF'⟩ := ih (i + 1) bs' hgo hidx' f3 n' hn'
        refine ⟨max Fb F', ?_⟩
        rw [← hbs]
        simp only [countV]
        rw [valid_mono x d (Nat.le_max_left Fb F') hFb,
          countV_mono (g' := fun s => valid x d (max Fb F') s v)
            (fun s r hh => valid_mono x d (Nat.le_max_right Fb F') hh) _ _ hF']
        cases ba <;> cases c <;> simp

theorem hpw_of_cond {xs : List Schema} (h : (decide (xs.length ≤ 1) || pairwiseApart d xs) = true) :
    ∀ (i j : Nat) yi yj, i ≠ j → xs[i]? = some yi → xs[j]? = some yj → Disj x d yi yj := by
  intro i j yi yj hij hi hj
  obtain ⟨hil, rfl⟩ := List.getElem?_eq_some_iff.mp hi
  obtain ⟨hjl, rfl⟩ := List.getElem?_eq_some_iff.mp hj
  simp only [Bool.or_eq_true, decide_eq_true_eq] at h
  rcases h with h | h
  · omega
  · have hp := List.pairwise_iff_getElem.mp (pairwiseApart_sound (x := x) xs h)
    by_cases hlt : i < j
    · exact hp i j hil hjl hlt
    · exact (hp j i hjl hil (by omega)).symm

theorem count_single {g : Schema → Option Bool} {b : Schema} {k : Nat} (h : countV g [b] = some k) :
    ∃ vb, g b = some vb ∧ k = (if vb then 1 else 0) := by
  obtain ⟨c, k', hc, hk', rfl⟩ := countV_cons_some h
  simp only [countV, Option.some.injEq] at hk'
  subst hk'
  exact ⟨c, hc, by cases c <;> rfl⟩

theorem dist_spec {rec : Schema → Schema → MR} (hrec : RecOK x d rec) (fr : Nat) (so : Schema) (xs : List Schema)
    (one : Bool) : Spec x d (dist rec d fr so xs one) so (if one then .oneOf xs else .anyOf xs) := by
  unfold dist
  cases hd : distGo rec fr so xs 0 xs with
  | none => trivial
  | some bg =>
    obtain ⟨bs, g⟩ := bg
    simp only
    cases hgg : g ++ (if (decide (xs.length ≤ 1) || pairwiseApart d xs) = true then [] else [Gap.overlap]) with
    | cons _ _ => split <;> trivial
    | nil =>
      simp only [List.append_eq_nil_iff] at hgg
      obtain ⟨rfl, hflag⟩ := hgg
      have hcond : (decide (xs.length ≤ 1) || pairwiseApart d xs) = true := by
        by_cases hc : (decide (xs.length ≤ 1) || pairwiseApart d xs) = true
        · exact hc
        · rw [if_neg hc] at hflag; simp at hflag
      have hpw := hpw_of_cond (x := x) hcond
      -- the count over the emitted branches
      have key : ∀ v f2 ba f3 n, valid x d f2 so v = some ba → countV (fun s => valid x d f3 s v) xs = some n →
          ∃ F, countV (fun s => valid x d F s v) bs = some (if ba then n else 0) := by
        intro v f2 ba f3 n hso hn
        have hdef : ∀ y ∈ xs, ∃ f c, valid x d f y v = some c := by
          intro y hy
          obtain ⟨c, hc⟩ := countV_def_mem hn y hy
          exact ⟨f3, c, hc⟩
        exact distGo_sem hrec fr so xs v f2 ba hso hdef hpw xs 0 bs hd (fun j y hj => by simpa using hj) f3 n hn
      -- verdict of the target
      have target : ∀ v f3 bb, valid x d f3 (if one then Schema.oneOf xs else Schema.anyOf xs) v = some bb →
          ∃ f3' n, countV (fun s => valid x d f3' s v) xs = some n ∧ bb = (if one then n == 1 else decide (0 < n)) := by
        intro v f3 bb h
        obtain ⟨f3', rfl⟩ := ne_zero_of_valid h
        cases one with
        | true =>
          simp only [if_true] at h
          rw [valid_oneOf] at h
          cases hc : countV (fun s => valid x d f3' s v) xs with
          | none => rw [hc] at h; simp at h
          | some n => rw [hc] at h; exact ⟨f3', n, hc, by simpa using h.symm⟩
        | false =>
          simp only [Bool.false_eq_true, if_false] at h
          rw [valid_anyOf] at h
          cases hc : countV (fun s => valid x d f3' s v) xs with
          | none => rw [hc] at h; simp at h
          | some n => rw [hc] at h; exact ⟨f3', n, hc, by simpa using h.symm⟩
      match bs, key with
      | [], key =>
        intro v f2 f3 hh
        obtain ⟨h2, h3⟩ := hh
        obtain ⟨f3', n, hn, hbb⟩ := target v f3 true h3
        obtain ⟨F, hF⟩ := key v f2 true f3' n h2 hn
        simp only [countV, if_true, Option.some.injEq] at hF
        subst hF
        cases one <;> simp at hbb
      | [b], key =>
        intro v f2 f3 ba bb h2 h3
        obtain ⟨f3', n, hn, hbb⟩ := target v f3 bb h3
        obtain ⟨F, hF⟩ := key v f2 ba f3' n h2 hn
        obtain ⟨vb, hvb, hk⟩ := count_single hF
        refine ⟨F, ?_⟩
        rw [hvb, hbb]
        congr 1
        cases ba <;> cases vb <;> cases one <;> simp at hk ⊢ <;> omega
      | b1 :: b2 :: bs', key =>
        intro v f2 f3 ba bb h2 h3
        obtain ⟨f3', n, hn, hbb⟩ := target v f3 bb h3
        obtain ⟨F, hF⟩ := key v f2 ba f3' n h2 hn
        refine ⟨F + 1, ?_⟩
        cases one with
        | true =>
          simp only [if_true] at hbb ⊢
          rw [valid_oneOf, hF, hbb]
          cases ba <;> simp
        | false =>
          simp only [Bool.false_eq_true, if_false] at hbb ⊢
          rw [valid_anyOf, hF, hbb]
          cases ba <;> simp

end TypifyModel.Merge

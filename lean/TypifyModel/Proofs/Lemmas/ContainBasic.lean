import TypifyModel.Model.Contain
import TypifyModel.Proofs.Lemmas.RoundTripStruct2
/-! Basic facts about `prune`, `contained`, `lookup` on duplicate-free objects (C03: containment). -/
namespace TypifyModel.Contain
open TypifyModel TypifyModel.Serde TypifyModel.RoundTrip

theorem lookup_mem {l : List (String × Json)} {k : String} {y : Json}
    (h : Json.lookup l k = some y) : (k, y) ∈ l := by
  induction l with
  | nil => simp [Json.lookup] at h
  | cons a r ih =>
    obtain ⟨k', v⟩ := a
    simp only [Json.lookup] at h
    split at h
    · rename_i heq; subst heq
      simp only [Option.some.injEq] at h; subst h; simp
    · exact List.mem_cons_of_mem _ (ih h)

theorem nodupKeys_cons {k : String} {v : Json} {r : List (String × Json)}
    (h : nodupKeys ((k, v) :: r) = true) : (∀ kv ∈ r, kv.1 ≠ k) ∧ nodupKeys r = true := by
  unfold nodupKeys at h ⊢
  simp only [List.map_cons] at h
  obtain ⟨h1, h2⟩ := nodupB_cons h
  refine ⟨?_, h2⟩
  intro kv hkv
  exact h1 kv.1 (List.mem_map_of_mem hkv)

theorem lookup_of_mem {l : List (String × Json)} {k : String} {y : Json}
    (hnd : nodupKeys l = true) (h : (k, y) ∈ l) : Json.lookup l k = some y := by
  induction l with
  | nil => simp at h
  | cons a r ih =>
    obtain ⟨k', v⟩ := a
    obtain ⟨hne, hr⟩ := nodupKeys_cons hnd
    simp only [List.mem_cons, Prod.mk.injEq] at h
    simp only [Json.lookup]
    rcases h with ⟨rfl, rfl⟩ | h
    · simp
    · have : k' ≠ k := fun heq => hne (k, y) h heq.symm
      simp only [this, if_false]
      exact ih hr h

theorem containedObj_iff {a b : List (String × Json)} :
    containedObj a b = true ↔ ∀ kv ∈ a, ∃ y, Json.lookup b kv.1 = some y ∧ contained kv.2 y = true := by
  induction a with
  | nil => simp [containedObj]
  | cons x r ih =>
    obtain ⟨k, v⟩ := x
    simp only [containedObj, Bool.and_eq_true, List.mem_cons, forall_eq_or_imp, ih]
    constructor
    · rintro ⟨h1, h2⟩
      refine ⟨?_, h2⟩
      cases hl : Json.lookup b k with
      | none => rw [hl] at h1; simp at h1
      | some y => rw [hl] at h1; exact ⟨y, rfl, h1⟩
    · rintro ⟨⟨y, hy, hc⟩, h2⟩
      refine ⟨?_, h2⟩
      rw [hy]; exact hc

theorem mem_pruneObj {kvs : List (String × Json)} {k : String} {v' : Json} :
    (k, v') ∈ pruneObj kvs ↔ ∃ v, (k, v) ∈ kvs ∧ v' = prune v ∧ emptyJ v' = false := by
  induction kvs with
  | nil => simp [pruneObj]
  | cons a r ih =>
    obtain ⟨k0, v0⟩ := a
    simp only [pruneObj]
    split
    · rename_i he
      rw [ih]
      constructor
      · rintro ⟨v, hm, h1, h2⟩; exact ⟨v, List.mem_cons_of_mem _ hm, h1, h2⟩
      · rintro ⟨v, hm, h1, h2⟩
        simp only [List.mem_cons, Prod.mk.injEq] at hm
        rcases hm with ⟨rfl, rfl⟩ | hm
        · subst h1; rw [he] at h2; simp at h2
        · exact ⟨v, hm, h1, h2⟩
    · rename_i he
      simp only [List.mem_cons, Prod.mk.injEq, ih]
      constructor
      · rintro (⟨rfl, rfl⟩ | ⟨v, hm, h1, h2⟩)
        · exact ⟨v0, Or.inl ⟨rfl, rfl⟩, rfl, by simpa using he⟩
        · exact ⟨v, Or.inr hm, h1, h2⟩
      · rintro ⟨v, hm | hm, h1, h2⟩
        · obtain ⟨rfl, rfl⟩ := hm; exact Or.inl ⟨rfl, h1⟩
        · exact Or.inr ⟨v, hm, h1, h2⟩

theorem pruneObj_keys {kvs : List (String × Json)} : ∀ kv ∈ pruneObj kvs, ∃ kv' ∈ kvs, kv'.1 = kv.1 := by
  intro kv h
  obtain ⟨k, v'⟩ := kv
  obtain ⟨v, hm, _, _⟩ := mem_pruneObj.mp h
  exact ⟨(k, v), hm, rfl⟩

theorem nodupB_of_forall {a : String} {r : List String} (h1 : ∀ b ∈ r, b ≠ a) (h2 : nodupB r = true) :
    nodupB (a :: r) = true := by
  simp only [nodupB, Bool.and_eq_true, Bool.not_eq_true']
  refine ⟨?_, h2⟩
  cases hc : r.contains a with
  | false => rfl
  | true =>
    have : a ∈ r := by simpa using hc
    exact absurd rfl (h1 a this)

theorem nodupKeys_pruneObj {kvs : List (String × Json)} (h : nodupKeys kvs = true) :
    nodupKeys (pruneObj kvs) = true := by
  induction kvs with
  | nil => simp [pruneObj, nodupKeys, nodupB]
  | cons a r ih =>
    obtain ⟨k0, v0⟩ := a
    obtain ⟨hne, hr⟩ := nodupKeys_cons h
    simp only [pruneObj]
    split
    · exact ih hr
    · unfold nodupKeys
      simp only [List.map_cons]
      apply nodupB_of_forall
      · intro b hb
        obtain ⟨kv, hkv, rfl⟩ := List.mem_map.mp hb
        obtain ⟨kv', hkv', he⟩ := pruneObj_keys kv hkv
        rw [← he]; exact hne kv' hkv'
      · exact ih hr

theorem scalarEq_nonempty {a b : Json} (h : scalarEq a b = true) (ha : emptyJ a = false) : emptyJ b = false := by
  cases a <;> cases b <;> simp_all [scalarEq, emptyJ]

theorem contained_nonempty {a b : Json} (h : contained a b = true) (ha : emptyJ a = false) :
    emptyJ b = false := by
  cases a with
  | obj kvs =>
    cases b with
    | obj kvs' =>
      cases kvs with
      | nil => simp [emptyJ] at ha
      | cons kv r =>
        obtain ⟨k, v⟩ := kv
        simp only [contained] at h
        have := (containedObj_iff.mp h) (k, v) (by simp)
        obtain ⟨y, hy, _⟩ := this
        cases kvs' with
        | nil => simp [Json.lookup] at hy
        | cons _ _ => simp [emptyJ]
    | _ => simp [contained] at h
  | arr xs =>
    cases b with
    | arr ys =>
      cases xs with
      | nil => simp [emptyJ] at ha
      | cons _ _ =>
        cases ys with
        | nil => simp [contained, containedList] at h
        | cons _ _ => simp [emptyJ]
    | _ => simp [contained] at h
  | null => simp [emptyJ] at ha
  | bool _ => exact scalarEq_nonempty (by simpa [contained] using h) ha
  | int _ => exact scalarEq_nonempty (by simpa [contained] using h) ha
  | flt _ _ => exact scalarEq_nonempty (by simpa [contained] using h) ha
  | str _ => exact scalarEq_nonempty (by simpa [contained] using h) ha

end TypifyModel.Contain

import TypifyModel.Proofs.Lemmas.CyclesMinimal
/-! C07, edge-wise minimality: a member is redirected to a `Box` only if, in the input graph, the
    member leads back to the entry that holds it — the edge lies on a by-value cycle. -/
namespace TypifyModel.Cycles

/-- every redirected member `c` of entry `i` is `i` itself or has a by-value path back to `i` in `g0` -/
def CutOnCycle (g0 g : G) : Prop :=
  ∀ i n, g0.get i = some n → ∃ f : Nat → Nat, g.get i = some (n.mapChildren f) ∧
    ∀ c ∈ n.childIds, f c = c ∨ (g.get (f c) = some (.box c) ∧ (c = i ∨ Path g0 c i))

theorem CutOnCycle.init {g0 : G} : CutOnCycle g0 g0 := fun i n h =>
  ⟨id, by rw [Node.mapChildren_id id n (fun _ _ => rfl)]; exact h, fun _ _ => Or.inl rfl⟩

theorem start_cut {g0 g : G} {visited act : List Nat} {u : Nat} {node : Node}
    (hf : Frame g0 g visited) (hc : CutOnCycle g0 g) (hv : u ∉ visited) (hu : g.get u = some node)
    (hp : ∀ a ∈ act, Path g0 a u) : CutOnCycle g0 (startG g (u :: act) u node) := by
  have hk := hf.keys
  intro i n hi
  by_cases hiu : i = u
  · subst hiu
    have hnode := hf.unvisited i n hi hv
    rw [hu] at hnode; cases hnode
    obtain ⟨f, hf1, hf2⟩ := startG_self (act := i :: act) hk hu
    refine ⟨f, hf1, fun c hcm => ?_⟩
    rcases hf2 c hcm with h | ⟨hact, hbox⟩
    · exact Or.inl h
    · refine Or.inr ⟨hbox, ?_⟩
      rcases List.mem_cons.mp hact with h | h
      · exact Or.inl h
      · exact Or.inr (hp c h)
  · obtain ⟨f, hget, hch⟩ := hc i n hi
    refine ⟨f, ?_, fun c hcm => ?_⟩
    · rw [startG_get_other hiu (hk i _ hget)]; exact hget
    · rcases hch c hcm with h | ⟨h1, h2⟩
      · exact Or.inl h
      · exact Or.inr ⟨startG_box_stable hk hu h1, h2⟩

theorem visit_cut {g0 : G} : ∀ (fuel : Nat) (act : List Nat) (u : Nat) (s s' : St),
    visit fuel act u s = some s' → Frame g0 s.g s.visited ∧ CutOnCycle g0 s.g →
    (∀ a ∈ act, Path g0 a u) → Frame g0 s'.g s'.visited ∧ CutOnCycle g0 s'.g
  | 0, _, _, _, _, h, _, _ => by simp [visit] at h
  | fuel + 1, act, u, s, s', h, ⟨hf, hc⟩, hp => by
    have hfr := visit_frame (g0 := g0) (fuel + 1) act u s s' h hf
    refine ⟨hfr, ?_⟩
    rw [visit_succ] at h
    split at h
    · cases h; exact hc
    · rename_i hv
      split at h
      · cases h; exact hc
      · rename_i node hu
        split at h
        · cases h
        · rename_i s2 h2
          cases h
          have h1 : Frame g0 (startG s.g (u :: act) u node) (u :: s.visited) ∧
              CutOnCycle g0 (startG s.g (u :: act) u node) :=
            ⟨start_frame hf hv hu, start_cut hf hc hv hu hp⟩
          have hres := visitList_pres_mem
            (P := fun s => Frame g0 s.g s.visited ∧ CutOnCycle g0 s.g) _
            (fun c hcm s s' h hs => by
              have hm : c ∈ node.childIds := (List.mem_filter.mp (List.mem_reverse.mp hcm)).1
              have he : E g0 u c := by
                cases h0 : g0.get u with
                | some n0 =>
                  have := hf.unvisited u n0 h0 hv
                  rw [hu] at this; cases this
                  exact ⟨node, h0, hm⟩
                | none =>
                  rcases hf.onlyBox.new u h0 with h | ⟨_, d, h⟩
                  · rw [hu] at h; cases h
                  · rw [hu] at h; cases h
                    simp [Node.childIds] at hm
              exact visit_cut fuel (u :: act) c s s' h hs (fun a ha => by
                rcases List.mem_cons.mp ha with rfl | ha
                · exact .single he
                · exact .tail (hp a ha) he))
            _ s2 h2 h1
          exact hres.2

theorem breakCyclesSt_cut {fuel : Nat} {g : G} {lo hi : Nat} {s : St} (hk : KeysBelow g)
    (h : breakCyclesSt fuel g lo hi = some s) : CutOnCycle g s.g :=
  (visitList_pres_mem (P := fun s => Frame g s.g s.visited ∧ CutOnCycle g s.g) _
    (fun c _ s s' h hs => visit_cut fuel [] c s s' h hs (fun _ ha => by simp at ha))
    _ s h ⟨Frame.init hk, CutOnCycle.init⟩).2

end TypifyModel.Cycles

import TypifyModel.Proofs.Lemmas.RoundTripStruct
/-! Reading back the members `seFieldsR` wrote (C03). -/
namespace TypifyModel.RoundTrip
open TypifyModel TypifyModel.Serde

variable (x : Ext) (σ : Space)

/-- without flattened members every key written is the wire name of a member -/
theorem seFieldsR_keys {rec : Id → Val → Except E Json} :
    ∀ {ps : List Field} {fs : List (String × Val)} {es : List (String × Json)}, hasFlatten ps = false →
      seFieldsR rec σ ps fs = .ok es → ∀ kv ∈ es, ∃ p ∈ ps, p.wire = kv.1 := by
  intro ps
  induction ps with
  | nil =>
    intro fs es _ h kv hkv
    cases fs <;> simp [seFieldsR] at h
    subst h; simp at hkv
  | cons p r ih =>
    intro fs es hfl h kv hkv
    obtain ⟨hpf, hrf⟩ := hasFlatten_cons hfl
    have ih := fun {fs es} => @ih fs es hrf
    cases fs with
    | nil => simp [seFieldsR] at h
    | cons a as =>
      obtain ⟨n, v⟩ := a
      simp only [seFieldsR] at h
      split at h
      · rename_i hc; rw [hpf] at hc; simp at hc
      · split at h
        · simp at h
        · rename_i rest hrest
          split at h
          · simp only [Except.ok.injEq] at h; subst h
            obtain ⟨q, hq, hw⟩ := ih hrest kv hkv
            exact ⟨q, by simp [hq], hw⟩
          · split at h
            · simp at h
            · rename_i j _
              simp only [Except.ok.injEq] at h; subst h
              simp only [List.mem_cons] at hkv
              rcases hkv with rfl | hkv
              · exact ⟨p, by simp, rfl⟩
              · obtain ⟨q, hq, hw⟩ := ih hrest kv hkv
                exact ⟨q, by simp [hq], hw⟩

theorem lookup_none_of_not_key {es : List (String × Json)} {k : String}
    (h : ∀ kv ∈ es, kv.1 ≠ k) : Json.lookup es k = none := by
  induction es with
  | nil => rfl
  | cons a r ih =>
    obtain ⟨k', v⟩ := a
    simp only [Json.lookup]
    have : k' ≠ k := h (k', v) (by simp)
    simp only [this, if_false]
    exact ih (fun kv hkv => h kv (by simp [hkv]))

/-- the default of an `optional` member either is exactly what `skip_serializing_if` drops, or is a
    scalar that reads back -/
theorem optional_dflt_cases {t : Id} {f : Nat} {a : Val} (hok : optionalOkB σ t = true)
    (hd : dflt x σ f t = .ok a) :
    ((∃ t' ed im, σ.get t = some ⟨.option t', ed, im⟩) ∧ a = .none) ∨
    ((∃ t' ed im, σ.get t = some ⟨.vec t', ed, im⟩) ∧ a = .seq []) ∨
    ((∃ k v ed im, σ.get t = some ⟨.map k v, ed, im⟩) ∧ a = .map []) ∨
    ((∀ p : Field, p.ty = t → ∀ v, skipped σ p v = false) ∧ ∀ j, se σ f t a = .ok j → de x σ f t j = .ok a) := by
  cases f with
  | zero => simp [dflt] at hd
  | succ f =>
    unfold optionalOkB at hok
    cases hg : σ.get t with
    | none => rw [hg] at hok; simp at hok
    | some ent =>
      rw [hg] at hok
      obtain ⟨det, ed, im⟩ := ent
      simp only at hok
      simp only [dflt, hg] at hd
      cases det with
      | option t' => simp at hd; exact Or.inl ⟨⟨t', ed, im, rfl⟩, hd.symm⟩
      | vec t' => simp at hd; exact Or.inr (Or.inl ⟨⟨t', ed, im, rfl⟩, hd.symm⟩)
      | map k v => simp at hd; exact Or.inr (Or.inr (Or.inl ⟨⟨k, v, ed, im, rfl⟩, hd.symm⟩))
      | boolean =>
        simp at hd; subst hd
        refine Or.inr (Or.inr (Or.inr ⟨by intro p hp v; unfold skipped; rw [hp, hg]; cases p.state <;> rfl, ?_⟩))
        intro j hj; simp [se, hg] at hj; subst hj; simp [de, hg]
      | float n =>
        simp at hd; subst hd
        refine Or.inr (Or.inr (Or.inr ⟨by intro p hp v; unfold skipped; rw [hp, hg]; cases p.state <;> rfl, ?_⟩))
        intro j hj; simp [se, hg] at hj; subst hj; simp [de, hg]
      | string =>
        simp at hd; subst hd
        refine Or.inr (Or.inr (Or.inr ⟨by intro p hp v; unfold skipped; rw [hp, hg]; cases p.state <;> rfl, ?_⟩))
        intro j hj; simp [se, hg] at hj; subst hj; simp [de, hg]
      | unit =>
        simp at hd; subst hd
        refine Or.inr (Or.inr (Or.inr ⟨by intro p hp v; unfold skipped; rw [hp, hg]; cases p.state <;> rfl, ?_⟩))
        intro j hj; simp [se, hg] at hj; subst hj; simp [de, hg]
      | integer n =>
        simp only at hok hd
        cases hr : rtyOfName n with
        | none => rw [hr] at hok; simp at hok
        | some ty =>
          rw [hr] at hok hd
          simp only [Bool.not_eq_true'] at hok
          simp only [hok, Bool.false_eq_true, if_false, Except.ok.injEq] at hd
          subst hd
          refine Or.inr (Or.inr (Or.inr ⟨by intro p hp v; unfold skipped; rw [hp, hg]; cases p.state <;> rfl, ?_⟩))
          intro j hj; simp [se, hg] at hj; subst hj
          simp only [de, hg, hr]
          have : ty.lo ≤ 0 ∧ 0 ≤ ty.hi := by
            cases ty <;> simp [RTy.isNonZero] at hok <;> simp [RTy.lo, RTy.hi]
          simp [this]
      | _ => simp at hok

end TypifyModel.RoundTrip

namespace TypifyModel.RoundTrip
open TypifyModel TypifyModel.Serde

variable (x : Ext) (σ : Space)

/-- the induction hypothesis of the round-trip theorem at one fuel level -/
def IHrt (f : Nat) : Prop :=
  ∀ t v xv w, de x σ f t v = .ok xv → se σ f t xv = .ok w → de x σ f t w = .ok xv

theorem skipped_cases {p : Field} {a : Val} (h : skipped σ p a = true) :
    (p.state matches .optional) ∧
    (((∃ t' ed im, σ.get p.ty = some ⟨.option t', ed, im⟩) ∧ a = .none) ∨
     ((∃ t' ed im, σ.get p.ty = some ⟨.vec t', ed, im⟩) ∧ a = .seq []) ∨
     ((∃ k v ed im, σ.get p.ty = some ⟨.map k v, ed, im⟩) ∧ a = .map [])) := by
  unfold skipped at h
  split at h
  · refine ⟨by simp [*], ?_⟩
    split at h
    · rename_i t' ed im hg
      cases a <;> simp at h
      exact Or.inl ⟨⟨t', ed, im, hg⟩, rfl⟩
    · rename_i t' ed im hg
      cases a with
      | seq vs =>
        cases vs with
        | nil => exact Or.inr (Or.inl ⟨⟨t', ed, im, hg⟩, rfl⟩)
        | cons _ _ => simp at h
      | _ => simp at h
    · rename_i k v ed im hg
      cases a with
      | map kvs =>
        cases kvs with
        | nil => exact Or.inr (Or.inr ⟨⟨k, v, ed, im, hg⟩, rfl⟩)
        | cons _ _ => simp at h
      | _ => simp at h
    · simp at h
  · simp at h

theorem fieldVal_fuel_pos {f : Nat} {p : Field} {a : Val} (h : FieldVal x σ f p a) : ∃ f', f = f' + 1 := by
  cases f with
  | zero => rcases h with ⟨j, hj⟩ | ⟨_, hd⟩ <;> simp [de, dflt] at *
  | succ f' => exact ⟨f', rfl⟩

/-- the member step of `deStruct` on an object, with the object as a parameter -/
def stepE (f : Nat) (obj : List (String × Json)) (p : Field) : Except E (String × Val) :=
  match Json.lookup obj p.wire with
  | some v => (match de x σ f p.ty v with | .ok a => .ok (p.name, a) | .error e => .error e)
  | none =>
    match p.state with
    | .required => if optionLikeT σ p.ty then .ok (p.name, Val.none) else .error .reject
    | .optional => (match dflt x σ f p.ty with | .ok a => .ok (p.name, a) | .error e => .error e)
    | .dflt d => (match de x σ f p.ty d with
        | .ok a => .ok (p.name, a)
        | .error .reject => .error .unsupported
        | .error e => .error e)

end TypifyModel.RoundTrip

namespace TypifyModel.RoundTrip
open TypifyModel TypifyModel.Serde

variable (x : Ext) (σ : Space)

theorem nodupB_cons {a : String} {r : List String} (h : nodupB (a :: r) = true) :
    (∀ b ∈ r, b ≠ a) ∧ nodupB r = true := by
  simp only [nodupB, Bool.and_eq_true, Bool.not_eq_true'] at h
  refine ⟨?_, h.2⟩
  intro b hb heq
  subst heq
  have : r.contains b = true := by simp [hb]
  rw [h.1] at this; simp at this

/-- round trip of one type at one fuel -/
def RTat (f : Nat) (t : Id) : Prop :=
  ∀ v xv w, de x σ f t v = .ok xv → se σ f t xv = .ok w → de x σ f t w = .ok xv

theorem fields_back {f : Nat} :
    ∀ (ps : List Field), (∀ p ∈ ps, RTat x σ f p.ty) →
      ∀ (fs : List (String × Val)) (es : List (String × Json)),
      FieldsRel x σ f ps fs → seFieldsR (se σ f) σ ps fs = .ok es →
      nodupB (ps.map (·.wire)) = true →
      (∀ p ∈ ps, (p.state matches .optional) → optionalOkB σ p.ty = true) → hasFlatten ps = false →
      ∀ obj : List (String × Json), (∀ p ∈ ps, Json.lookup obj p.wire = Json.lookup es p.wire) →
        mapM' (stepE x σ f obj) ps = .ok fs := by
  intro ps
  induction ps with
  | nil =>
    intro _ fs es hrel _ _ _ _ obj _
    cases fs with
    | nil => rfl
    | cons _ _ => simp [FieldsRel] at hrel
  | cons p r ihp =>
    intro ih fs es hrel hse hnd hopt hfl obj hobj
    obtain ⟨hpf, hrf⟩ := hasFlatten_cons hfl
    have ihp := ihp (fun q hq => ih q (by simp [hq]))
    cases fs with
    | nil => simp [FieldsRel] at hrel
    | cons a as =>
      obtain ⟨n, av⟩ := a
      obtain ⟨hn, hfv, hrel'⟩ := hrel
      subst hn
      simp only [List.map_cons] at hnd
      obtain ⟨hne, hnd'⟩ := nodupB_cons hnd
      simp only [seFieldsR] at hse
      split at hse
      · rename_i hc; rw [hpf] at hc; simp at hc
      · cases hrest : seFieldsR (se σ f) σ r as with
        | error e => rw [hrest] at hse; simp at hse
        | ok rest =>
          rw [hrest] at hse
          simp only at hse
          -- keys of `rest` are wires of `r`, all different from p.wire
          have hrestkeys : ∀ kv ∈ rest, kv.1 ≠ p.wire := by
            intro kv hkv
            obtain ⟨q, hq, hw⟩ := seFieldsR_keys σ hrf hrest kv hkv
            rw [← hw]
            exact hne q.wire (List.mem_map.mpr ⟨q, hq, rfl⟩)
          obtain ⟨f', hf'⟩ := fieldVal_fuel_pos x σ hfv
          by_cases hsk : skipped σ p av = true
          · -- skipped: the member is absent and its default is what was dropped
            rw [if_pos hsk] at hse
            simp only [Except.ok.injEq] at hse; subst hse
            obtain ⟨hstate, hkind⟩ := skipped_cases σ hsk
            have hlp : Json.lookup obj p.wire = none := by
              rw [hobj p (by simp)]; exact lookup_none_of_not_key hrestkeys
            have hstep : stepE x σ f obj p = .ok (p.name, av) := by
              unfold stepE
              rw [hlp]
              cases hst : p.state with
              | required => rw [hst] at hstate; simp at hstate
              | dflt d => rw [hst] at hstate; simp at hstate
              | optional =>
                simp only
                subst hf'
                rcases hkind with ⟨⟨t', ed, im, hg⟩, rfl⟩ | ⟨⟨t', ed, im, hg⟩, rfl⟩ | ⟨⟨k, v, ed, im, hg⟩, rfl⟩ <;>
                  simp [dflt, hg]
            have htail := ihp as rest hrel' hrest hnd' (fun q hq => hopt q (by simp [hq])) hrf obj
              (fun q hq => hobj q (by simp [hq]))
            simp only [mapM', hstep, htail]
          · have hsk' : skipped σ p av = false := by simpa using hsk
            rw [hsk'] at hse
            simp only [Bool.false_eq_true, if_false] at hse
            cases hj : se σ f p.ty av with
            | error e => rw [hj] at hse; simp at hse
            | ok j =>
              rw [hj] at hse
              simp only [Except.ok.injEq] at hse; subst hse
              have hlp : Json.lookup obj p.wire = some j := by
                rw [hobj p (by simp)]; simp [Json.lookup]
              have hde : de x σ f p.ty j = .ok av := by
                rcases hfv with ⟨j0, hj0⟩ | ⟨hstate, hd⟩
                · exact ih p (by simp) j0 av j hj0 hj
                · have hok := hopt p (by simp) hstate
                  rcases optional_dflt_cases x σ hok hd with ⟨⟨t', ed, im, hg⟩, rfl⟩ | ⟨⟨t', ed, im, hg⟩, rfl⟩ |
                      ⟨⟨k, v, ed, im, hg⟩, rfl⟩ | ⟨_, hback⟩
                  · -- would have been skipped
                    exfalso
                    cases hst : p.state with
                    | optional => simp [skipped, hst, hg] at hsk'
                    | required => rw [hst] at hstate; simp at hstate
                    | dflt d => rw [hst] at hstate; simp at hstate
                  · exfalso
                    cases hst : p.state with
                    | optional => simp [skipped, hst, hg] at hsk'
                    | required => rw [hst] at hstate; simp at hstate
                    | dflt d => rw [hst] at hstate; simp at hstate
                  · exfalso
                    cases hst : p.state with
                    | optional => simp [skipped, hst, hg] at hsk'
                    | required => rw [hst] at hstate; simp at hstate
                    | dflt d => rw [hst] at hstate; simp at hstate
                  · exact hback j hj
              have hstep : stepE x σ f obj p = .ok (p.name, av) := by
                unfold stepE; rw [hlp]; simp only [hde]
              have htail := ihp as rest hrel' hrest hnd' (fun q hq => hopt q (by simp [hq])) hrf obj
                (fun q hq => by
                  rw [hobj q (by simp [hq])]
                  have : p.wire ≠ q.wire := fun h => hne q.wire (List.mem_map.mpr ⟨q, hq, rfl⟩) h.symm
                  simp [Json.lookup, this])
              simp only [mapM', hstep, htail]

end TypifyModel.RoundTrip

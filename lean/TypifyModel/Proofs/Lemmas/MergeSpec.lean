import TypifyModel.Proofs.Lemmas.MergeValid
/-! Semantic specification of a merge result and the lemmas for the non-object bodies. -/
set_option linter.unusedSimpArgs false
set_option linter.unusedVariables false
namespace TypifyModel.Merge
open TypifyModel TypifyModel.Validate

section
variable (x : Ext) (d : Doc)

/-- `m` is the intersection of `a` and `b`: whenever both have a verdict on an instance, `m` has the
    verdict "both" (at some fuel; by `valid_det` at every fuel where it has one) -/
def Inter (m a b : Schema) : Prop :=
  ∀ (v : Json) (f2 f3 : Nat) (ba bb : Bool), valid x d f2 a v = some ba → valid x d f3 b v = some bb →
    ∃ f1, valid x d f1 m v = some (ba && bb)

/-- no instance is valid for both -/
def Disj (a b : Schema) : Prop :=
  ∀ (v : Json) (f2 f3 : Nat), ¬ (valid x d f2 a v = some true ∧ valid x d f3 b v = some true)

/-- what a gap-free answer of the model means -/
def Spec (r : MR) (a b : Schema) : Prop :=
  match r with
  | .ok m [] => Inter x d m a b
  | .never [] => Disj x d a b
  | _ => True

abbrev RecOK (rec : Schema → Schema → MR) : Prop := ∀ a b, Spec x d (rec a b) a b
end

variable {x : Ext} {d : Doc}

theorem Inter.symm {m a b : Schema} (h : Inter x d m a b) : Inter x d m b a := by
  intro v f2 f3 ba bb h2 h3
  obtain ⟨f1, h1⟩ := h v f3 f2 bb ba h3 h2
  exact ⟨f1, by rw [Bool.and_comm]; exact h1⟩

theorem Disj.symm {a b : Schema} (h : Disj x d a b) : Disj x d b a :=
  fun v f2 f3 hh => h v f3 f2 ⟨hh.2, hh.1⟩

theorem Spec.symm {r : MR} {a b : Schema} (h : Spec x d r a b) : Spec x d r b a := by
  cases r with
  | ok m g => cases g with
    | nil => exact Inter.symm h
    | cons _ _ => trivial
  | never g => cases g with
    | nil => exact Disj.symm h
    | cons _ _ => trivial
  | unsup => trivial

theorem spec_ok_nil {m a b : Schema} : Spec x d (.ok m []) a b = Inter x d m a b := rfl
theorem spec_never_nil {a b : Schema} : Spec x d (.never []) a b = Disj x d a b := rfl

theorem Inter_self (a : Schema) : Inter x d a a a := by
  intro v f2 f3 ba bb h2 h3
  have := valid_det x d h2 h3
  subst this
  exact ⟨f2, by simpa using h2⟩

/-- when `b` implies `a`, `b` is the intersection -/
theorem Inter_right {a b : Schema}
    (h : ∀ v f2 f3 ba, valid x d f2 a v = some ba → valid x d f3 b v = some true → ba = true) : Inter x d b a b := by
  intro v f2 f3 ba bb h2 h3
  refine ⟨f3, ?_⟩
  cases bb with
  | false => simpa using h3
  | true => rw [h v f2 f3 ba h2 h3]; simpa using h3

theorem false_of_not_both {ba bb : Bool} (h : ¬ (ba = true ∧ bb = true)) : (ba && bb) = false := by
  cases ba <;> cases bb <;> simp at h ⊢

theorem ne_zero_of_valid {f : Nat} {s : Schema} {v : Json} {r : Bool} (h : valid x d f s v = some r) :
    ∃ f', f = f' + 1 := by
  cases f with
  | zero => simp [valid_zero] at h
  | succ f' => exact ⟨f', rfl⟩

/-! ### instance types -/

theorem valid_ty {t : Schema} {ty : Ty} (ht : tyOf t = some ty) {f : Nat} {v : Json}
    (h : valid x d f t v = some true) : jsonTy ty v = true := by
  obtain ⟨f', rfl⟩ := ne_zero_of_valid h
  cases t <;> simp only [tyOf, Option.some.injEq, reduceCtorEq] at ht <;> subst ht <;>
    cases v <;>
    simp [valid_null, valid_boolean, valid_integer, valid_number, valid_string, valid_array, valid_tuple,
      valid_object, jsonTy] at h ⊢

theorem disjointTy_sound {ta tb : Ty} {v : Json} (h : disjointTy ta tb = true) :
    ¬ (jsonTy ta v = true ∧ jsonTy tb v = true) := by
  cases ta <;> cases tb <;> cases v <;> simp [disjointTy, jsonTy] at h ⊢

theorem spec_default (a b : Schema) :
    Spec x d (match tyOf a, tyOf b with
      | some ta, some tb => if disjointTy ta tb then MR.never [] else MR.unsup
      | _, _ => MR.unsup) a b := by
  cases ha : tyOf a with
  | none => trivial
  | some ta =>
    cases hb : tyOf b with
    | none => trivial
    | some tb =>
      simp only
      by_cases hd : disjointTy ta tb = true
      · rw [if_pos hd]
        intro v f2 f3 hh
        exact disjointTy_sound hd ⟨valid_ty ha hh.1, valid_ty hb hh.2⟩
      · rw [if_neg hd]; trivial

/-! ### enumerations -/

theorem filter_any_beq (vs : List Json) (p : Json → Bool) (v : Json) :
    (vs.filter p).any (· == v) = (vs.any (· == v) && p v) := by
  apply Bool.eq_iff_iff.mpr
  simp only [Bool.and_eq_true, any_beq_iff, List.mem_filter]

theorem enum_inter_flat {vs : List Json} {t : Schema} {p : Json → Bool}
    (hp : ∀ f v, valid x d (f + 1) t v = some (p v)) :
    Inter x d (.enumVals (vs.filter p)) (.enumVals vs) t := by
  intro v f2 f3 ba bb h2 h3
  obtain ⟨f2', rfl⟩ := ne_zero_of_valid h2
  obtain ⟨f3', rfl⟩ := ne_zero_of_valid h3
  rw [valid_enum] at h2
  rw [hp] at h3
  refine ⟨1, ?_⟩
  rw [valid_enum, filter_any_beq]
  simp only [Option.some.injEq] at h2 h3
  rw [h2, h3]

theorem enum_disj_empty {vs : List Json} {t : Schema} {p : Json → Bool} (hp : ∀ f v, valid x d (f + 1) t v = some (p v))
    (he : (vs.filter p).isEmpty = true) : Disj x d (.enumVals vs) t := by
  intro v f2 f3 hh
  obtain ⟨h2, h3⟩ := hh
  obtain ⟨f2', rfl⟩ := ne_zero_of_valid h2
  obtain ⟨f3', rfl⟩ := ne_zero_of_valid h3
  rw [valid_enum] at h2
  rw [hp] at h3
  simp only [Option.some.injEq] at h2 h3
  have : v ∈ vs.filter p := List.mem_filter.mpr ⟨any_beq_iff.mp h2, h3⟩
  rw [List.isEmpty_iff.mp he] at this
  simp at this

theorem enum_disj_ty {vs : List Json} {t : Schema} {ty : Ty} (ht : tyOf t = some ty)
    (he : (vs.filter (jsonTy ty)).isEmpty = true) : Disj x d (.enumVals vs) t := by
  intro v f2 f3 hh
  obtain ⟨h2, h3⟩ := hh
  obtain ⟨f2', rfl⟩ := ne_zero_of_valid h2
  rw [valid_enum] at h2
  simp only [Option.some.injEq] at h2
  have : v ∈ vs.filter (jsonTy ty) := List.mem_filter.mpr ⟨any_beq_iff.mp h2, valid_ty ht h3⟩
  rw [List.isEmpty_iff.mp he] at this
  simp at this

theorem spec_emptied {te : Bool} {a b : Schema} (h : Disj x d a b) :
    Spec x d (if te then MR.never [] else MR.ok (.enumVals []) [Gap.enumEmptied]) a b := by
  cases te
  · trivial
  · exact h

theorem spec_out {te : Bool} {vs : List Json} {t : Schema} {p : Json → Bool} (hp : ∀ f v, valid x d (f + 1) t v = some (p v)) :
    Spec x d (if (vs.filter p).isEmpty then (if te then MR.never [] else MR.ok (.enumVals []) [Gap.enumEmptied])
              else MR.ok (.enumVals (vs.filter p)) [])
      (.enumVals vs) t := by
  split
  · rename_i he; exact spec_emptied (enum_disj_empty hp he)
  · exact enum_inter_flat hp

theorem enumWith_spec (te : Bool) (vs : List Json) (t : Schema) : Spec x d (enumWith te vs t) (.enumVals vs) t := by
  unfold enumWith
  simp only
  split
  · exact spec_out (fun f v => by rw [valid_null]; cases v <;> rfl)
  · exact spec_out (fun f v => by rw [valid_boolean]; cases v <;> rfl)
  · exact spec_out (fun f v => by rw [valid_integer]; cases v <;> rfl)
  · exact spec_out (fun f v => by rw [valid_number]; cases v <;> rfl)
  · exact spec_out (fun f v => by rw [valid_string]; cases v <;> simp [jsonTy])
  · split
    · rename_i he; exact spec_emptied (enum_disj_ty (ty := .string) rfl he)
    · trivial
  · split
    · rename_i he; exact spec_emptied (enum_disj_ty (ty := .array) rfl he)
    · trivial
  · split
    · rename_i he; exact spec_emptied (enum_disj_ty (ty := .array) rfl he)
    · trivial
  · split
    · rename_i he; exact spec_emptied (enum_disj_ty (ty := .object) rfl he)
    · trivial
  · trivial

theorem enum_enum_spec (va vb : List Json) :
    Spec x d (let r := va.filter (fun x => vb.any (· == x)); if r.isEmpty then MR.never [] else MR.ok (.enumVals r) [])
      (.enumVals va) (.enumVals vb) := by
  simp only
  split
  · rename_i he
    intro v f2 f3 hh
    obtain ⟨h1, h2⟩ := hh
    obtain ⟨f2', rfl⟩ := ne_zero_of_valid h1
    obtain ⟨f3', rfl⟩ := ne_zero_of_valid h2
    rw [valid_enum] at h1 h2
    simp only [Option.some.injEq] at h1 h2
    have : v ∈ va.filter (fun x => vb.any (· == x)) :=
      List.mem_filter.mpr ⟨any_beq_iff.mp h1, h2⟩
    rw [List.isEmpty_iff.mp he] at this
    simp at this
  · intro v f2 f3 ba bb h2 h3
    obtain ⟨f2', rfl⟩ := ne_zero_of_valid h2
    obtain ⟨f3', rfl⟩ := ne_zero_of_valid h3
    rw [valid_enum] at h2 h3
    simp only [Option.some.injEq] at h2 h3
    refine ⟨1, ?_⟩
    rw [valid_enum, filter_any_beq, h2, h3]

/-! ### integers, strings -/

theorem int_inter (lo hi lo' hi' : Option Int) :
    Inter x d (.integer (omaxI lo lo') (ominI hi hi')) (.integer lo hi) (.integer lo' hi') := by
  intro v f2 f3 ba bb h2 h3
  obtain ⟨f2', rfl⟩ := ne_zero_of_valid h2
  obtain ⟨f3', rfl⟩ := ne_zero_of_valid h3
  rw [valid_integer] at h2 h3
  simp only [Option.some.injEq] at h2 h3
  refine ⟨1, ?_⟩
  rw [valid_integer, ← h2, ← h3]
  cases v <;> simp only [Bool.and_self]
  rename_i n
  congr 1
  apply Bool.eq_iff_iff.mpr
  cases lo <;> cases lo' <;> cases hi <;> cases hi' <;>
    simp only [omaxI, ominI, Bool.and_eq_true, decide_eq_true_eq, Bool.and_true, Bool.true_and, and_true, true_and] <;> omega

theorem str_absent_inter {mn mx : Option Nat} {p : Option String} (h : strAbsent mn mx p = true) (b : Schema)
    (hb : tyOf b = some .string) : Inter x d b (.string mn mx p) b := by
  simp only [strAbsent, Bool.and_eq_true, Option.isNone_iff_eq_none] at h
  obtain ⟨⟨rfl, rfl⟩, rfl⟩ := h
  apply Inter_right
  intro v f2 f3 ba h2 h3
  have hty := valid_ty hb h3
  obtain ⟨f2', rfl⟩ := ne_zero_of_valid h2
  rw [valid_string] at h2
  cases v <;> simp [jsonTy] at hty
  simpa using h2.symm

end TypifyModel.Merge

import TypifyModel.Proofs.Lemmas.WireTy
import TypifyModel.Proofs.Lemmas.ConvAccepts
/-! `acc_sound`: if `accB σa σb ρ A B` then the model of `B`'s `Deserialize` does not reject anything the model of
    `A`'s `Serialize` writes for a well-formed value. -/
namespace TypifyModel.WireEq
open TypifyModel TypifyModel.Serde

/-- the `Option` arm of `se`, with the nested-option test as a Boolean -/
theorem se_option_eq {σ : Space} {t t' : Id} {ed : List String} {im : List Impl}
    (hget : σ.get t = some ⟨.option t', ed, im⟩) (f : Nat) (v : Val) :
    se σ (f + 1) t v =
      (if isOption σ t' then se σ f t' v
       else match v with
         | .none => .ok .null
         | .some a => se σ f t' a
         | _ => .error .reject) := by
  simp only [se, hget]
  cases hg' : σ.get t' with
  | none => simp [isOption, hg']; cases v <;> rfl
  | some e' =>
    obtain ⟨d', ed', im'⟩ := e'
    cases d' <;> simp [isOption, hg'] <;> (cases v <;> rfl)

theorem se_opt_none {σ : Space} : ∀ (fs : Nat) (t : Id) (j : Json), isOption σ t = true →
    se σ fs t .none = .ok j → j = .null := by
  intro fs
  induction fs with
  | zero => intro t j _ h; simp [se] at h
  | succ f ih =>
    intro t j ho h
    obtain ⟨u, ed, im, hget⟩ := isOption_true ho
    rw [se_option_eq hget] at h
    cases hio : isOption σ u with
    | true => rw [hio] at h; simp only [if_true] at h; exact ih _ _ hio h
    | false => rw [hio] at h; simp at h; exact h.symm

theorem se_none_null {σ : Space} : ∀ (n : Nat) (t : Id) (fs : Nat) (j : Json), optionLike σ n t = true →
    se σ fs t .none = .ok j → j = .null := by
  intro n
  induction n with
  | zero => intro t fs j h; simp [optionLike] at h
  | succ n ih =>
    intro t fs j ho h
    cases fs with
    | zero => simp [se] at h
    | succ f =>
      simp only [optionLike] at ho
      cases hget : σ.get t with
      | none => simp [hget] at ho
      | some ent =>
        obtain ⟨det, ed, im⟩ := ent
        rw [hget] at ho
        cases det with
        | option u => exact se_opt_none (f + 1) t j (by simp [isOption, hget]) h
        | box u => simp only [se, hget] at h; exact ih _ _ _ ho h
        | newtype nm u c d =>
          cases c with
          | none => simp only [se, hget] at h; exact ih _ _ _ ho h
          | _ => simp at ho
        | _ => simp at ho

/-- a transparent wrapper on the reader's side does not change the verdict -/
theorem NR_box {x : Ext} {σ : Space} {t t' : Id} {ed : List String} {im : List Impl} {j : Json}
    (hget : σ.get t = some ⟨.box t', ed, im⟩) (h : ∀ fd, NR (de x σ fd t' j)) : ∀ fd, NR (de x σ fd t j) := by
  intro fd
  cases fd with
  | zero => simp [de, NR]
  | succ f => simp only [de, hget]; exact h f

theorem NR_newtype {x : Ext} {σ : Space} {t t' : Id} {nm : String} {d : Option Json} {ed : List String} {im : List Impl} {j : Json}
    (hget : σ.get t = some ⟨.newtype nm t' .none d, ed, im⟩) (h : ∀ fd, NR (de x σ fd t' j)) : ∀ fd, NR (de x σ fd t j) := by
  intro fd
  cases fd with
  | zero => simp [de, NR]
  | succ f =>
    simp only [de, hget]
    have := h f
    cases hd : de x σ f t' j with
    | ok v => simp [NR]
    | error e => rw [hd] at this; simpa [NR] using this

theorem transparent_cases {d : Details} {t : Id} (h : transparent d = some t) :
    d = .box t ∨ ∃ n dv, d = .newtype n t .none dv := by
  cases d <;> simp [transparent] at h
  · rename_i n t' c dv
    cases c <;> simp at h
    exact Or.inr ⟨n, dv, by rw [h]⟩
  · exact Or.inl (by rw [h])

/-- a transparent wrapper on the reader's side does not change the verdict -/
theorem NR_transparent {x : Ext} {σ : Space} {t t' : Id} {d : Details} {ed : List String} {im : List Impl} {j : Json}
    (hget : σ.get t = some ⟨d, ed, im⟩) (ht : transparent d = some t')
    (h : ∀ fd, NR (de x σ fd t' j)) : ∀ fd, NR (de x σ fd t j) := by
  rcases transparent_cases ht with rfl | ⟨n, dv, rfl⟩
  · exact NR_box hget h
  · exact NR_newtype hget h

theorem tyB_transparent {σ : Space} {t t' : Id} {d : Details} {ed : List String} {im : List Impl}
    (hget : σ.get t = some ⟨d, ed, im⟩) (ht : transparent d = some t') (f : Nat) (v : Val) :
    tyB σ (f + 1) t v = tyB σ f t' v := by
  rcases transparent_cases ht with rfl | ⟨n, dv, rfl⟩ <;> simp only [tyB, hget]

theorem se_transparent {σ : Space} {t t' : Id} {d : Details} {ed : List String} {im : List Impl}
    (hget : σ.get t = some ⟨d, ed, im⟩) (ht : transparent d = some t') (f : Nat) (v : Val) :
    se σ (f + 1) t v = se σ f t' v := by
  rcases transparent_cases ht with rfl | ⟨n, dv, rfl⟩ <;> simp only [se, hget]

theorem optionLike_transparent {σ : Space} {t t' : Id} {d : Details} {ed : List String} {im : List Impl}
    (hget : σ.get t = some ⟨d, ed, im⟩) (ht : transparent d = some t') (n : Nat) :
    optionLike σ (n + 1) t = optionLike σ n t' := by
  rcases transparent_cases ht with rfl | ⟨nm, dv, rfl⟩ <;> simp only [optionLike, hget]

theorem optionLike_isOption {σ : Space} {t : Id} {d : Details} {ed : List String} {im : List Impl}
    (hget : σ.get t = some ⟨d, ed, im⟩) (ht : transparent d = none) {n : Nat} (h : optionLike σ n t = true) :
    ∃ u, d = .option u := by
  cases n with
  | zero => simp [optionLike] at h
  | succ n =>
    simp only [optionLike, hget] at h
    cases d <;> simp [transparent] at ht h ⊢
    rename_i nm u c dv
    cases c <;> simp at ht h

variable (x : Ext) (σa σb : Space) (ρ : List (Id × Id))

/-- `B` reads `null` when `A` is option-like -/
theorem acc_null : ∀ (fa : Nat) (A B : Id), accB σa σb ρ fa A B = true → ∀ n, optionLike σa n A = true →
    ∀ fd, NR (de x σb fd B .null) := by
  intro fa
  induction fa with
  | zero => intro A B h; simp [accB] at h
  | succ fa ih =>
    intro A B h n ho
    simp only [accB] at h
    cases hga : σa.get A with
    | none => simp [hga] at h
    | some ea =>
      cases hgb : σb.get B with
      | none => simp [hga, hgb] at h
      | some eb =>
        obtain ⟨da, eda, ima⟩ := ea
        obtain ⟨db, edb, imb⟩ := eb
        rw [hga, hgb] at h
        simp only at h
        cases hta : transparent da with
        | some A' =>
          rw [hta] at h; simp only at h
          cases n with
          | zero => simp [optionLike] at ho
          | succ n =>
            rw [optionLike_transparent hga hta] at ho
            exact ih _ _ h n ho
        | none =>
          rw [hta] at h; simp only at h
          cases htb : transparent db with
          | some B' =>
            rw [htb] at h; simp only at h
            exact NR_transparent hgb htb (ih _ _ h n ho)
          | none =>
            rw [htb] at h; simp only at h
            obtain ⟨u, rfl⟩ := optionLike_isOption hga hta ho
            cases db <;> simp [accD] at h
            intro fd
            cases fd with
            | zero => simp [de, NR]
            | succ f => simp [de, hgb, NR]

end TypifyModel.WireEq

namespace TypifyModel.WireEq
open TypifyModel TypifyModel.Serde

variable (x : Ext) (σa σb : Space)

/-- what the induction provides for component types -/
structure Hyp (rec : Id → Id → Bool) (ty : Id → Val → Bool) : Prop where
  val : ∀ a b v fs j, rec a b = true → ty a v = true → se σa fs a v = .ok j → ∀ fd, NR (de x σb fd b j)
  null : ∀ a b, rec a b = true → optionLikeT σa a = true → ∀ fd, NR (de x σb fd b .null)

theorem Hyp.orNone {rec : Id → Id → Bool} {ty : Id → Val → Bool} (H : Hyp x σa σb rec ty)
    {a b : Id} {v : Val} {fs : Nat} {j : Json} (hr : rec a b = true) (ht : tyOrNone σa ty a v = true)
    (hs : se σa fs a v = .ok j) : ∀ fd, NR (de x σb fd b j) := by
  simp only [tyOrNone, Bool.or_eq_true, Bool.and_eq_true] at ht
  rcases ht with ht | ⟨hn, ho⟩
  · exact H.val a b v fs j hr ht hs
  · cases v <;> simp [isNoneV] at hn
    have := se_none_null _ a fs j ho hs
    subst this
    exact H.null a b hr ho

theorem zipSe_ok_cons {g : Id → Val → Except E Json} {t : Id} {ts : List Id} {v : Val} {vs : List Val} {js : List Json}
    (h : zipSe g (t :: ts) (v :: vs) = .ok js) : ∃ j js', g t v = .ok j ∧ zipSe g ts vs = .ok js' ∧ js = j :: js' := by
  simp only [zipSe] at h
  cases hg : g t v with
  | error e => rw [hg] at h; simp at h
  | ok j =>
    rw [hg] at h; simp only at h
    cases hz : zipSe g ts vs with
    | error e => rw [hz] at h; simp at h
    | ok js' =>
      rw [hz] at h; simp only [Except.ok.injEq] at h
      exact ⟨j, js', rfl, rfl, h.symm⟩

theorem NR_cons_zipM {g : Id → Json → Except E Val} {t : Id} {ts : List Id} {j : Json} {js : List Json}
    (h1 : NR (g t j)) (h2 : NR (zipM g ts js)) : NR (zipM g (t :: ts) (j :: js)) := by
  simp only [zipM]
  cases hg : g t j with
  | error e => rw [hg] at h1; simpa [NR] using h1
  | ok v =>
    simp only
    cases hz : zipM g ts js with
    | error e => rw [hz] at h2; simpa [NR] using h2
    | ok vs => simp [NR]

theorem tuple_NR {rec : Id → Id → Bool} {ty : Id → Val → Bool} (H : Hyp x σa σb rec ty) (fs fd : Nat) :
    ∀ {as bs : List Id} {vs : List Val} {js : List Json}, zipB rec as bs = true → zipTy ty as vs = true →
      zipSe (se σa fs) as vs = .ok js → NR (zipM (de x σb fd) bs js) := by
  intro as
  induction as with
  | nil =>
    intro bs vs js hb ht hs
    cases bs <;> simp [zipB] at hb
    cases vs <;> simp [zipTy] at ht
    simp [zipSe] at hs; subst hs
    simp [zipM, NR]
  | cons a r ih =>
    intro bs vs js hb ht hs
    cases bs with
    | nil => simp [zipB] at hb
    | cons b bs' =>
      cases vs with
      | nil => simp [zipTy] at ht
      | cons v vs' =>
        simp only [zipB, Bool.and_eq_true] at hb
        simp only [zipTy, Bool.and_eq_true] at ht
        obtain ⟨j, js', h1, h2, rfl⟩ := zipSe_ok_cons hs
        exact NR_cons_zipM (H.val a b v fs j hb.1 ht.1 h1 fd) (ih hb.2 ht.2 h2)

theorem seq_NR {rec : Id → Id → Bool} {ty : Id → Val → Bool} (H : Hyp x σa σb rec ty) {a b : Id} (hr : rec a b = true)
    {vs : List Val} (ht : vs.all (ty a) = true) {fs : Nat} {js : List Json}
    (hs : mapM' (se σa fs a) vs = .ok js) (fd : Nat) : NR (mapM' (de x σb fd b) js) := by
  apply mapM'_NR
  intro j hj
  obtain ⟨v, hv, hsv⟩ := mapM'_ok_mem hs j hj
  exact H.val a b v fs j hr (List.all_eq_true.mp ht v hv) hsv fd

end TypifyModel.WireEq

namespace TypifyModel.WireEq
open TypifyModel TypifyModel.Serde

theorem lookup_mem {kvs : List (String × Json)} {k : String} {j : Json}
    (h : Json.lookup kvs k = some j) : (k, j) ∈ kvs := by
  induction kvs with
  | nil => simp [Json.lookup] at h
  | cons a r ih =>
    obtain ⟨k', v'⟩ := a
    simp only [Json.lookup] at h
    split at h
    · rename_i hk; simp only [Option.some.injEq] at h; subst h; subst hk; simp
    · simp [ih h]

theorem mem_lookup_ne_none {kvs : List (String × Json)} {k : String} {j : Json}
    (h : (k, j) ∈ kvs) : Json.lookup kvs k ≠ none := by
  induction kvs with
  | nil => simp at h
  | cons a r ih =>
    obtain ⟨k', v'⟩ := a
    simp only [Json.lookup]
    split
    · simp
    · rename_i hne
      simp only [List.mem_cons, Prod.mk.injEq] at h
      rcases h with ⟨h1, _⟩ | h
      · exact absurd h1.symm hne
      · exact ih h

theorem skipped_maySkip {σ : Space} {p : Field} {v : Val} (h : skipped σ p v = true) : maySkip σ p = true := by
  unfold skipped at h
  unfold maySkip
  cases hs : p.state with
  | optional =>
    rw [hs] at h
    simp only at h ⊢
    split at h <;> simp_all
  | required => rw [hs] at h; simp at h
  | dflt d => rw [hs] at h; simp at h

/-- every member written comes from a declared member, carries its wire name and the serialisation of its value -/
theorem seFields_mem {σ : Space} {ty : Id → Val → Bool} {S : Id → Val → Except E Json} :
    ∀ {pa : List Field} {fs : List (String × Val)} {es : List (String × Json)}, hasFlatten pa = false →
      fieldsTy σ ty pa fs = true → seFieldsR S σ pa fs = .ok es →
      ∀ kj ∈ es, ∃ p v, p ∈ pa ∧ tyOrNone σ ty p.ty v = true ∧ p.wire = kj.1 ∧ S p.ty v = .ok kj.2 := by
  intro pa
  induction pa with
  | nil =>
    intro fs es _ ht hs kj hkj
    cases fs with
    | nil => simp [seFieldsR] at hs; subst hs; simp at hkj
    | cons _ _ => simp [fieldsTy] at ht
  | cons p ps ih =>
    intro fs es hfl ht hs kj hkj
    obtain ⟨hpf, hrf⟩ := hasFlatten_cons hfl
    have ih := fun {fs es} => @ih fs es hrf
    cases fs with
    | nil => simp [fieldsTy] at ht
    | cons e fs' =>
      obtain ⟨n, v⟩ := e
      simp only [fieldsTy, Bool.and_eq_true] at ht
      simp only [seFieldsR] at hs
      split at hs
      · rename_i hcf; rw [hpf] at hcf; simp at hcf
      · cases hr : seFieldsR S σ ps fs' with
        | error e => rw [hr] at hs; simp at hs
        | ok rest =>
          rw [hr] at hs; simp only at hs
          split at hs
          · simp only [Except.ok.injEq] at hs; subst hs
            obtain ⟨p', v', hp', h1, h2, h3⟩ := ih ht.2 hr kj hkj
            exact ⟨p', v', by simp [hp'], h1, h2, h3⟩
          · cases hse : S p.ty v with
            | error e => rw [hse] at hs; simp at hs
            | ok j =>
              rw [hse] at hs; simp only [Except.ok.injEq] at hs; subst hs
              simp only [List.mem_cons] at hkj
              rcases hkj with rfl | hkj
              · exact ⟨p, v, by simp, ht.1, rfl, hse⟩
              · obtain ⟨p', v', hp', h1, h2, h3⟩ := ih ht.2 hr kj hkj
                exact ⟨p', v', by simp [hp'], h1, h2, h3⟩

/-- a member that is never skipped is written -/
theorem seFields_written {σ : Space} {S : Id → Val → Except E Json} :
    ∀ {pa : List Field} {fs : List (String × Val)} {es : List (String × Json)}, hasFlatten pa = false →
      seFieldsR S σ pa fs = .ok es → ∀ p ∈ pa, maySkip σ p = false → ∃ j, (p.wire, j) ∈ es := by
  intro pa
  induction pa with
  | nil => intro fs es _ _ p hp; simp at hp
  | cons q ps ih =>
    intro fs es hfl hs p hp hms
    obtain ⟨hpf, hrf⟩ := hasFlatten_cons hfl
    have ih := fun {fs es} => @ih fs es hrf
    cases fs with
    | nil => simp [seFieldsR] at hs
    | cons e fs' =>
      obtain ⟨n, v⟩ := e
      simp only [seFieldsR] at hs
      split at hs
      · rename_i hcf; rw [hpf] at hcf; simp at hcf
      · cases hr : seFieldsR S σ ps fs' with
        | error e => rw [hr] at hs; simp at hs
        | ok rest =>
          rw [hr] at hs; simp only at hs
          simp only [List.mem_cons] at hp
          split at hs
          · rename_i hsk
            simp only [Except.ok.injEq] at hs; subst hs
            rcases hp with rfl | hp
            · have := skipped_maySkip hsk; rw [hms] at this; simp at this
            · exact ih hr p hp hms
          · cases hse : S q.ty v with
            | error e => rw [hse] at hs; simp at hs
            | ok j =>
              rw [hse] at hs; simp only [Except.ok.injEq] at hs; subst hs
              rcases hp with rfl | hp
              · exact ⟨j, by simp⟩
              · obtain ⟨j', hj'⟩ := ih hr p hp hms
                exact ⟨j', by simp [hj']⟩

end TypifyModel.WireEq

namespace TypifyModel.WireEq
open TypifyModel TypifyModel.Serde

variable (x : Ext) (σa σb : Space)

theorem find_some_mem {α : Type} {p : α → Bool} {l : List α} {a : α} (h : l.find? p = some a) : a ∈ l ∧ p a = true :=
  ⟨List.mem_of_find?_eq_some h, List.find?_some h⟩

/-- the struct arm: `B`'s members read what `A`'s members write -/
theorem struct_NR {rec : Id → Id → Bool} {ty : Id → Val → Bool} (H : Hyp x σa σb rec ty)
    {pa pb : List Field} (hacc : fieldsAcc rec σa σb pa pb = true)
    {fs : List (String × Val)} {es : List (String × Json)} (hty : fieldsTy σa ty pa fs = true)
    {S : Id → Val → Except E Json} (hS : ∀ t v j, S t v = .ok j → ∃ f, se σa f t v = .ok j)
    (hse : seFieldsR S σa pa fs = .ok es) (deny : Bool) :
    ∀ fd, NR (deStruct x σb fd pb deny (.obj es)) := by
  simp only [fieldsAcc, Bool.and_eq_true, Bool.not_eq_true'] at hacc
  obtain ⟨⟨⟨⟨⟨hfa, hfb⟩, hna⟩, hnb⟩, hall⟩, hreq⟩ := hacc
  intro fd
  cases fd with
  | zero => simp [deStruct, NR]
  | succ fd =>
    simp only [deStruct, hfb, Bool.false_eq_true, if_false]
    -- no unknown member
    have hknown : (es.any fun kv => !(pb.any fun p => p.wire == kv.1)) = false := by
      rw [Bool.eq_false_iff]
      intro hc
      obtain ⟨kv, hkv, hnot⟩ := List.any_eq_true.mp hc
      obtain ⟨p, v, hp, _, hw, _⟩ := seFields_mem hfa hty hse kv hkv
      have := List.all_eq_true.mp hall p hp
      split at this
      · rename_i q hq
        obtain ⟨hqm, hqw⟩ := find_some_mem hq
        have : (pb.any fun p' => p'.wire == kv.1) = true :=
          List.any_eq_true.mpr ⟨q, hqm, by rw [← hw]; exact hqw⟩
        rw [this] at hnot; simp at hnot
      · simp at this
    simp only [hknown, Bool.and_false, Bool.false_eq_true, if_false]
    have hm : NR (mapM' (fun (p : Field) =>
        match Json.lookup es p.wire with
        | some v => (match de x σb fd p.ty v with | .ok a => (.ok (p.name, a) : Except E (String × Val)) | .error e => .error e)
        | none =>
          match p.state with
          | .required => if optionLikeT σb p.ty then .ok (p.name, Val.none) else .error .reject
          | .optional => (match dflt x σb fd p.ty with | .ok a => .ok (p.name, a) | .error e => .error e)
          | .dflt d => (match de x σb fd p.ty d with
              | .ok a => .ok (p.name, a)
              | .error .reject => .error .unsupported
              | .error e => .error e)) pb) := by
      apply mapM'_NR
      intro q hq
      cases hl : Json.lookup es q.wire with
      | some jq =>
        simp only
        obtain ⟨p, v, hp, hpt, hw, hsv⟩ := seFields_mem hfa hty hse (q.wire, jq) (lookup_mem hl)
        have hp' := List.all_eq_true.mp hall p hp
        have hfq : pb.find? (fun q' => q'.wire == q.wire) = some q := nodupB_find_gen (·.wire) hnb q hq
        simp only at hw
        rw [hw, hfq] at hp'
        obtain ⟨f', hsv'⟩ := hS _ _ _ hsv
        have := H.orNone x σa σb hp' hpt hsv' fd
        cases hd : de x σb fd q.ty jq with
        | ok a => simp [NR]
        | error e => rw [hd] at this; simpa [NR] using this
      | none =>
        simp only
        cases hst : q.state with
        | required =>
          simp only
          have hq' := List.all_eq_true.mp hreq q hq
          simp only [Bool.or_eq_true, toleratesMissing, hst] at hq'
          rcases hq' with hq' | hq'
          · simp [hq', NR]
          · split at hq'
            · rename_i p hfp
              obtain ⟨hpm, hpw⟩ := find_some_mem hfp
              obtain ⟨j, hj⟩ := seFields_written hfa hse p hpm (by simpa using hq')
              have hpw' : p.wire = q.wire := by simpa using hpw
              rw [hpw'] at hj
              exact absurd hl (mem_lookup_ne_none hj)
            · simp at hq'
        | optional =>
          simp only
          have := TypifyModel.Conv.dflt_ne_reject x σb fd q.ty
          cases hd : dflt x σb fd q.ty with
          | ok a => simp [NR]
          | error e => rw [hd] at this; simpa [NR] using this
        | dflt d =>
          simp only
          cases hd : de x σb fd q.ty d with
          | ok a => simp [NR]
          | error e => cases e <;> simp [NR]
    revert hm
    generalize mapM' _ pb = r
    intro hm
    cases r with
    | ok fs' => simp [NR]
    | error e => simpa [NR] using hm

end TypifyModel.WireEq

namespace TypifyModel.WireEq
open TypifyModel TypifyModel.Serde

variable (x : Ext) (σa σb : Space)

theorem se_exists {σ : Space} {f : Nat} : ∀ t v j, se σ f t v = .ok j → ∃ f', se σ f' t v = .ok j :=
  fun _ _ _ h => ⟨f, h⟩

theorem NR_match_ok {α β : Type} {r : Except E α} {g : α → β} (h : NR r) :
    NR (match r with | .ok a => (.ok (g a) : Except E β) | .error e => .error e) := by
  cases r with
  | ok a => simp [NR]
  | error e => simpa [NR] using h

/-- `NR r` lifts through `match r with | ok a => ok (g a) | error e => error e` -/
syntax "nr_of " term : tactic
macro_rules
  | `(tactic| nr_of $h) => `(tactic| (have hnr := $h; split <;> first | exact NR_ok | (intro hc; simp only [Except.error.injEq] at hc; subst hc; exact hnr (by assumption)) | (simp_all [NR]; done)))

/-- payload of a variant: the reader's variant body reads what the writer's variant body writes -/
theorem vb_NR {rec : Id → Id → Bool} {ft : Nat} (H : Hyp x σa σb rec (tyB σa ft))
    {da db : VDetails} (hacc : vdAcc rec σa σb da db = true) {p : Val} (hty : variantTy σa (tyB σa ft) da p = true)
    {fs : Nat} {b : Json} (hse : seVariantBody σa fs da p = .ok b) (deny so : Bool) :
    ∀ fd, NR (deVariantBody x σb fd db deny so b) := by
  intro fd
  cases fd with
  | zero => simp [deVariantBody, NR]
  | succ fd =>
  cases fs with
  | zero => simp [seVariantBody] at hse
  | succ fs =>
  cases da with
  | simple =>
    cases db <;> simp [vdAcc] at hacc
    simp only [seVariantBody] at hse
    cases p <;> simp [variantTy] at hty
    simp at hse; subst hse
    simp [deVariantBody, NR]
  | item a =>
    simp only [seVariantBody] at hse
    simp only [variantTy] at hty
    cases db with
    | item b' =>
      simp only [vdAcc] at hacc
      simp only [deVariantBody]
      exact H.orNone x σa σb hacc hty hse fd
    | tuple bs =>
      simp only [vdAcc] at hacc
      split at hacc
      · rename_i as eda ima hga
        -- the value is a sequence
        simp only [tyOrNone, Bool.or_eq_true, Bool.and_eq_true] at hty
        rcases hty with hty | ⟨_, ho⟩
        · cases ft with
          | zero => simp [tyB] at hty
          | succ ft' =>
            unfold tyB at hty; simp only [hga] at hty
            cases fs with
            | zero => simp [se] at hse
            | succ fs' =>
              simp only [se, hga] at hse
              cases p <;> simp only [reduceCtorEq] at hty hse <;> try (simp at hty; done)
              rename_i vs
              cases hz : zipSe (se σa fs') as vs with
              | error e => rw [hz] at hse; simp at hse
              | ok js =>
                rw [hz] at hse; simp only [Except.ok.injEq] at hse; subst hse
                simp only [deVariantBody]
                nr_of (tuple_NR x σa σb H fs' fd hacc (zipTy_imp (tyB_mono σa ft') hty) hz)
        · simp [optionLikeT, optionLike, hga] at ho
      · simp at hacc
    | _ => simp [vdAcc] at hacc
  | tuple as =>
    simp only [seVariantBody] at hse
    cases p <;> simp only [variantTy, reduceCtorEq] at hty hse <;> try (simp at hty; done)
    rename_i vs
    cases hz : zipSe (se σa fs) as vs with
    | error e => rw [hz] at hse; simp at hse
    | ok js =>
      rw [hz] at hse; simp only [Except.ok.injEq] at hse; subst hse
      cases db with
      | tuple bs =>
        simp only [vdAcc] at hacc
        simp only [deVariantBody]
        nr_of (tuple_NR x σa σb H fs fd hacc hty hz)
      | item b' =>
        simp only [vdAcc] at hacc
        split at hacc
        · rename_i bs edb imb hgb
          simp only [deVariantBody]
          cases fd with
          | zero => simp [de, NR]
          | succ fd' =>
            simp only [de, hgb]
            nr_of (tuple_NR x σa σb H fs fd' hacc hty hz)
        · simp at hacc
      | _ => simp [vdAcc] at hacc
  | struct pa =>
    cases db <;> simp only [vdAcc, Bool.false_eq_true] at hacc
    rename_i pb
    simp only [seVariantBody] at hse
    cases p <;> simp only [variantTy, reduceCtorEq] at hty hse <;> try (simp at hty; done)
    rename_i vfs
    cases hz : seStruct σa fs pa vfs with
    | error e => rw [hz] at hse; simp at hse
    | ok es =>
      rw [hz] at hse; simp only [Except.ok.injEq] at hse; subst hse
      cases fs with
      | zero => simp [seStruct] at hz
      | succ fs' =>
        simp only [seStruct] at hz
        simp only [deVariantBody]
        have := struct_NR x σa σb H hacc hty (S := se σa fs') se_exists hz deny fd
        cases so <;> simpa using this

end TypifyModel.WireEq

namespace TypifyModel.WireEq
open TypifyModel TypifyModel.Serde

variable (x : Ext) (σa σb : Space)

theorem variantAcc_spec {rec : Id → Id → Bool} {vb : List Variant} {v : Variant}
    (h : variantAcc rec σa σb vb v = true) :
    ∃ w k, vb.findIdx? (fun w => w.wire == v.wire) = some k ∧ vb[k]? = some w ∧ vdAcc rec σa σb v.details w.details = true := by
  unfold variantAcc at h
  split at h
  · rename_i w hw
    obtain ⟨k, hk, hg⟩ := find_findIdx hw
    exact ⟨w, k, hk, hg, h⟩
  · simp at h

theorem vdAcc_simple_right {rec : Id → Id → Bool} {db : VDetails} (h : vdAcc rec σa σb .simple db = true) : db = .simple := by
  cases db <;> simp [vdAcc] at h ⊢

theorem vdAcc_nonsimple {rec : Id → Id → Bool} {da db : VDetails} (h : vdAcc rec σa σb da db = true) (hne : da ≠ .simple) :
    db ≠ .simple := by
  intro hs; subst hs
  cases da <;> simp [vdAcc] at h hne

theorem erase_no_key {es : List (String × Json)} {k : String} (h : ∀ kv ∈ es, kv.1 ≠ k) : Json.erase es k = es := by
  unfold Json.erase
  rw [List.filter_eq_self]
  intro a ha
  simpa using h a ha

/-- the enum arm -/
theorem enum_NR {rec : Id → Id → Bool} {ft : Nat} (H : Hyp x σa σb rec (tyB σa ft))
    {A B : Id} {na nb : String} {ta tb : Tag} {va vb : List Variant} {dna dnb : Bool} {dfa dfb : Option Json}
    {ba bb : List Bespoke} {eda edb : List String} {ima imb : List Impl}
    (hga : σa.get A = some ⟨.enum na ta va dna dfa ba, eda, ima⟩)
    (hgb : σb.get B = some ⟨.enum nb tb vb dnb dfb bb, edb, imb⟩)
    (hacc : enumAcc rec σa σb ta tb va vb = true)
    {v : Val} (hty : tyB σa (ft + 1) A v = true) {fs : Nat} {j : Json} (hse : se σa fs A v = .ok j) :
    ∀ fd, NR (de x σb fd B j) := by
  intro fd
  cases fd with
  | zero => simp [de, NR]
  | succ fd =>
  cases fs with
  | zero => simp [se] at hse
  | succ fs =>
  unfold tyB at hty; simp only [hga] at hty
  cases v <;> simp only [reduceCtorEq] at hty <;> try (simp at hty; done)
  rename_i i p
  cases hvi : va[i]? with
  | none => rw [hvi] at hty; simp at hty
  | some vr =>
  rw [hvi] at hty; simp only at hty
  simp only [se, hga, hvi] at hse
  simp only [enumAcc, Bool.and_eq_true] at hacc
  obtain ⟨htag, hper⟩ := hacc
  have htb : ta = tb := eq_of_beq htag
  subst htb
  have hmem : vr ∈ va := List.mem_of_getElem? hvi
  simp only [de, hgb]
  cases ta with
  | external =>
    simp only at hper hse ⊢
    obtain ⟨w, k, hk, hwk, hvd⟩ := variantAcc_spec σa σb (List.all_eq_true.mp hper vr hmem)
    cases hd : vr.details with
    | simple =>
      rw [hd] at hse hvd; simp only [Except.ok.injEq] at hse; subst hse
      have hws := vdAcc_simple_right σa σb hvd
      obtain ⟨wr, wi, wd⟩ := w
      simp only at hws; subst hws
      simp [hk, hwk, NR]
    | _ =>
      rw [hd] at hse hvd hty; simp only at hse
      split at hse <;> simp only [Except.ok.injEq, reduceCtorEq] at hse
      rename_i b hb
      subst hse
      simp only [List.all_nil, Bool.not_true, Bool.false_eq_true, if_false, hk, hwk]
      nr_of (vb_NR x σa σb H hvd hty hb dnb true fd)
  | untagged =>
    simp only [Bool.and_eq_true, decide_eq_true_eq] at hper
    simp only at hse ⊢
    obtain ⟨hlen, hzip⟩ := hper
    have hi : i < va.length := by
      rcases List.getElem?_eq_some_iff.mp hvi with ⟨h, _⟩; exact h
    have hwk : vb[i]? = some vb[i] := List.getElem?_eq_getElem (by omega)
    have hz : (va.zip vb)[i]? = some (vr, vb[i]) := List.getElem?_zip_eq_some.mpr ⟨hvi, hwk⟩
    have hvd := List.all_eq_true.mp hzip _ (List.mem_of_getElem? hz)
    simp only at hvd
    apply firstOk_NR (n := i) hwk
    nr_of (vb_NR x σa σb H hvd hty hse dnb false fd)
  | internal tg =>
    simp only at hper hse ⊢
    have hv := List.all_eq_true.mp hper vr hmem
    simp only [Bool.and_eq_true] at hv
    obtain ⟨hok, hv⟩ := hv
    obtain ⟨w, k, hk, hwk, hvd⟩ := variantAcc_spec σa σb hv
    unfold internalOk at hok
    cases hd : vr.details with
    | simple =>
      rw [hd] at hse hvd; simp only [Except.ok.injEq] at hse; subst hse
      have hws := vdAcc_simple_right σa σb hvd
      obtain ⟨wr, wi, wd⟩ := w
      simp only at hws; subst hws
      simp [Json.lookup, hk, hwk, NR]
    | struct ps =>
      rw [hd] at hse hvd hty hok; simp only at hse hok
      cases p <;> simp only [variantTy, reduceCtorEq] at hty hse <;> try (simp at hty; done)
      rename_i vfs
      cases hz : seStruct σa fs ps vfs with
      | error e => rw [hz] at hse; simp at hse
      | ok es =>
        rw [hz] at hse; simp only [Except.ok.injEq] at hse; subst hse
        cases fs with
        | zero => simp [seStruct] at hz
        | succ fs' =>
          simp only [seStruct] at hz
          obtain ⟨wr, wi, wd⟩ := w
          cases wd <;> simp only [vdAcc, Bool.false_eq_true] at hvd
          rename_i pb
          have hnokey : ∀ kv ∈ es, kv.1 ≠ tg := by
            intro kv hkv heq
            have hfa : hasFlatten ps = false := by
              have h := hvd; simp only [fieldsAcc, Bool.and_eq_true, Bool.not_eq_true'] at h; exact h.1.1.1.1.1
            obtain ⟨p', v', hp', _, hw', _⟩ := seFields_mem hfa hty hz kv hkv
            have : (ps.any fun p => p.wire == tg) = true :=
              List.any_eq_true.mpr ⟨p', hp', by rw [hw', heq]; simp⟩
            rw [this] at hok; simp at hok
          have her : Json.erase ((tg, Json.str vr.wire) :: es) tg = es := by
            have : Json.erase ((tg, Json.str vr.wire) :: es) tg = Json.erase es tg := by
              simp [Json.erase, List.filter]
            rw [this]; exact erase_no_key hnokey
          simp only [Json.lookup, if_true, hk, hwk, her]
          nr_of (struct_NR x σa σb H hvd hty (S := se σa fs') se_exists hz dnb fd)
    | _ => rw [hd] at hok; simp at hok
  | adjacent tg ct =>
    simp only [Bool.and_eq_true] at hper
    simp only at hse ⊢
    obtain ⟨htc, hper⟩ := hper
    have hne : tg ≠ ct := by simpa using htc
    obtain ⟨w, k, hk, hwk, hvd⟩ := variantAcc_spec σa σb (List.all_eq_true.mp hper vr hmem)
    cases hd : vr.details with
    | simple =>
      rw [hd] at hse hvd; simp only [Except.ok.injEq] at hse; subst hse
      have hws := vdAcc_simple_right σa σb hvd
      obtain ⟨wr, wi, wd⟩ := w
      simp only at hws; subst hws
      simp [Json.lookup, hk, hwk, hne, NR]
    | _ =>
      rw [hd] at hse hvd hty; simp only at hse
      split at hse <;> simp only [Except.ok.injEq, reduceCtorEq] at hse
      rename_i b hb
      subst hse
      have hns := vdAcc_nonsimple σa σb hvd (by simp)
      obtain ⟨wr, wi, wd⟩ := w
      have hdeny : (dnb && List.any [(tg, Json.str vr.wire), (ct, b)] fun kv => decide (kv.1 ≠ tg) && decide (kv.1 ≠ ct)) = false := by
        simp
      simp only [hdeny, Bool.false_eq_true, if_false, Json.lookup, if_true, hk, hwk, hne, if_false]
      cases wd with
      | simple => simp at hns
      | _ =>
        simp only
        nr_of (vb_NR x σa σb H hvd hty hb dnb false fd)

end TypifyModel.WireEq

namespace TypifyModel.WireEq
open TypifyModel TypifyModel.Serde

variable (x : Ext) (σa σb : Space) (ρ : List (Id × Id))

/-- every pair of the correspondence is consistent, unfolded one level -/
def AllAcc : Prop := ∀ A B, inRho ρ A B = true → ∃ f, namedAcc σa σb ρ f A B = true

theorem allAccB_AllAcc {f : Nat} (h : allAccB σa σb ρ f = true) : AllAcc σa σb ρ := by
  intro A B hin
  simp only [inRho, List.any_eq_true, Bool.and_eq_true, beq_iff_eq] at hin
  obtain ⟨pr, hpr, h1, h2⟩ := hin
  have := List.all_eq_true.mp h pr hpr
  rw [h1, h2] at this
  exact ⟨f, this⟩

/-- soundness of `accB` for values typed with fuel at most `n` -/
def Snd (n : Nat) : Prop :=
  ∀ ft, ft ≤ n → ∀ fa A B v fs j, accB σa σb ρ fa A B = true → tyB σa ft A v = true → se σa fs A v = .ok j →
    ∀ fd, NR (de x σb fd B j)

theorem hyp_of_snd {n : Nat} (h : Snd x σa σb ρ n) {ft : Nat} (hft : ft ≤ n) (fa : Nat) :
    Hyp x σa σb (accB σa σb ρ fa) (tyB σa ft) :=
  ⟨fun a b v fs j hr ht hs => h ft hft fa a b v fs j hr ht hs,
   fun a b hr ho => acc_null x σa σb ρ fa a b hr _ ho⟩

theorem map_NR {rec : Id → Id → Bool} {ty : Id → Val → Bool} (H : Hyp x σa σb rec ty) {va vb kb : Id} (hr : rec va vb = true)
    (hk : isString σb kb = true)
    {kvs : List (String × Val)} (ht : kvs.all (fun kv => ty va kv.2) = true) {fs : Nat} {es : List (String × Json)}
    (hs : mapM' (fun (kv : String × Val) =>
        match se σa fs va kv.2 with | .ok j => (.ok (kv.1, j) : Except E (String × Json)) | .error e => .error e) kvs = .ok es) (fd : Nat) :
    NR (mapM' (fun (kv : String × Json) =>
        match de x σb fd kb (.str kv.1), de x σb fd vb kv.2 with
        | .ok (.str _), .ok b => (.ok (kv.1, b) : Except E (String × Val))
        | .ok (.variant _ _), .ok b => .ok (kv.1, b)
        | .ok _, .ok _ => .error .unsupported
        | .error e, _ => .error e
        | _, .error e => .error e) es) := by
  apply mapM'_NR
  intro e he
  obtain ⟨kv, hkv, hg⟩ := mapM'_ok_mem hs e he
  cases hsv : se σa fs va kv.2 with
  | error er => rw [hsv] at hg; simp at hg
  | ok j =>
    rw [hsv] at hg; simp only [Except.ok.injEq] at hg; subst hg
    have hv := H.val va vb kv.2 fs j hr (List.all_eq_true.mp ht kv hkv) hsv fd
    simp only
    have hkey : de x σb fd kb (.str kv.1) = .ok (.str kv.1) ∨ de x σb fd kb (.str kv.1) = .error .fuel := by
      cases fd with
      | zero => right; simp [de]
      | succ fd' =>
        left
        unfold isString at hk
        split at hk
        · rename_i ed im hg; simp [de, hg]
        · simp at hk
    rcases hkey with hkey | hkey
    · rw [hkey]
      cases hd : de x σb fd vb j with
      | ok b => simp [NR]
      | error er => rw [hd] at hv; simpa [NR] using hv
    · rw [hkey]; simp [NR]

theorem snd_all (hall : AllAcc σa σb ρ) : ∀ n, Snd x σa σb ρ n := by
  intro n
  induction n with
  | zero =>
    intro ft hft fa A B v fs j _ hty
    have : ft = 0 := by omega
    subst this; simp [tyB] at hty
  | succ n ih =>
    intro ft hft
    cases ft with
    | zero => intro fa A B v fs j _ hty; simp [tyB] at hty
    | succ ft =>
    have hft' : ft ≤ n := by omega
    intro fa
    induction fa with
    | zero => intro A B v fs j h; simp [accB] at h
    | succ fa iha =>
      intro A B v fs j hacc hty hse
      have H := hyp_of_snd x σa σb ρ ih hft' fa
      simp only [accB] at hacc
      cases hga : σa.get A with
      | none => simp [hga] at hacc
      | some ea =>
      cases hgb : σb.get B with
      | none => simp [hga, hgb] at hacc
      | some eb =>
      obtain ⟨da, eda, ima⟩ := ea
      obtain ⟨db, edb, imb⟩ := eb
      rw [hga, hgb] at hacc
      simp only at hacc
      cases fs with
      | zero => simp [se] at hse
      | succ fs =>
      cases hta : transparent da with
      | some A' =>
        rw [hta] at hacc; simp only at hacc
        rw [tyB_transparent hga hta] at hty
        rw [se_transparent hga hta] at hse
        exact ih ft hft' fa A' B v fs j hacc hty hse
      | none =>
      rw [hta] at hacc; simp only at hacc
      cases htb : transparent db with
      | some B' =>
        rw [htb] at hacc; simp only at hacc
        exact NR_transparent hgb htb (iha A B' v (fs + 1) j hacc hty hse)
      | none =>
      rw [htb] at hacc; simp only at hacc
      intro fd
      cases fd with
      | zero => simp [de, NR]
      | succ fd =>
      unfold accD at hacc
      split at hacc
      · -- unit
        unfold tyB at hty; simp only [hga] at hty
        cases v <;> simp at hty
        simp [se, hga] at hse; subst hse
        simp [de, hgb, NR]
      · -- boolean
        unfold tyB at hty; simp only [hga] at hty
        cases v <;> simp at hty
        simp [se, hga] at hse; subst hse
        simp [de, hgb, NR]
      · -- integer
        rename_i na nb
        unfold tyB at hty; simp only [hga] at hty
        split at hacc
        · rename_i ta tb hra hrb
          rw [hra] at hty
          cases v <;> simp only [reduceCtorEq] at hty <;> try (simp at hty; done)
          rename_i k
          simp only [decide_eq_true_eq, Bool.and_eq_true] at hty hacc
          simp [se, hga] at hse; subst hse
          simp only [de, hgb, hrb]
          have : tb.lo ≤ k ∧ k ≤ tb.hi := by omega
          simp [this, NR]
        · simp at hacc
      · -- float
        unfold tyB at hty; simp only [hga] at hty
        cases v <;> simp at hty
        simp [se, hga] at hse; subst hse
        simp [de, hgb, NR]
      · -- string
        unfold tyB at hty; simp only [hga] at hty
        cases v <;> simp at hty
        simp [se, hga] at hse; subst hse
        simp [de, hgb, NR]
      · -- json
        simp [de, hgb, NR]
      · -- option
        rename_i a' b'
        simp only [Bool.and_eq_true, Bool.not_eq_true'] at hacc
        obtain ⟨⟨hoa, hob⟩, hrec⟩ := hacc
        rw [se_option_eq hga, hoa] at hse
        simp only [Bool.false_eq_true, if_false] at hse
        unfold tyB at hty; simp only [hga, hoa, Bool.false_eq_true, if_false, Bool.or_eq_true] at hty
        rw [de_option_eq x hgb, hob]
        cases v with
        | none => simp at hse; subst hse; simp [NR]
        | some w =>
          simp only [isNoneV, Bool.false_eq_true, false_or] at hty
          simp only at hse
          have := H.val a' b' w fs j hrec hty hse fd
          cases j with
          | null => simp [NR]
          | _ =>
            simp only [Bool.false_eq_true, if_false]
            nr_of this
        | _ => simp [isNoneV] at hty
      · -- sequence
        rename_i a' b'
        unfold tyB at hty; simp only [hga] at hty
        cases v <;> simp only [reduceCtorEq] at hty <;> try (simp at hty; done)
        rename_i vs
        simp only [se, hga] at hse
        cases hm : mapM' (se σa fs a') vs with
        | error e => rw [hm] at hse; simp at hse
        | ok js =>
          rw [hm] at hse; simp only [Except.ok.injEq] at hse; subst hse
          simp only [de, hgb]
          nr_of (seq_NR x σa σb H hacc hty hm fd)
      · -- sequence
        rename_i a' b'
        unfold tyB at hty; simp only [hga] at hty
        cases v <;> simp only [reduceCtorEq] at hty <;> try (simp at hty; done)
        rename_i vs
        simp only [se, hga] at hse
        cases hm : mapM' (se σa fs a') vs with
        | error e => rw [hm] at hse; simp at hse
        | ok js =>
          rw [hm] at hse; simp only [Except.ok.injEq] at hse; subst hse
          simp only [de, hgb]
          nr_of (seq_NR x σa σb H hacc hty hm fd)
      · -- sequence
        rename_i a' b'
        unfold tyB at hty; simp only [hga] at hty
        cases v <;> simp only [reduceCtorEq] at hty <;> try (simp at hty; done)
        rename_i vs
        simp only [se, hga] at hse
        cases hm : mapM' (se σa fs a') vs with
        | error e => rw [hm] at hse; simp at hse
        | ok js =>
          rw [hm] at hse; simp only [Except.ok.injEq] at hse; subst hse
          simp only [de, hgb]
          nr_of (seq_NR x σa σb H hacc hty hm fd)
      · -- sequence
        rename_i a' b'
        unfold tyB at hty; simp only [hga] at hty
        cases v <;> simp only [reduceCtorEq] at hty <;> try (simp at hty; done)
        rename_i vs
        simp only [se, hga] at hse
        cases hm : mapM' (se σa fs a') vs with
        | error e => rw [hm] at hse; simp at hse
        | ok js =>
          rw [hm] at hse; simp only [Except.ok.injEq] at hse; subst hse
          simp only [de, hgb]
          nr_of (seq_NR x σa σb H hacc hty hm fd)
      · -- fixed array
        rename_i a' na b' nb
        simp only [Bool.and_eq_true, decide_eq_true_eq] at hacc
        obtain ⟨hn, hrec⟩ := hacc
        unfold tyB at hty; simp only [hga] at hty
        cases v <;> simp only [reduceCtorEq] at hty <;> try (simp at hty; done)
        rename_i vs
        simp only [Bool.and_eq_true, decide_eq_true_eq] at hty
        simp only [se, hga] at hse
        cases hm : mapM' (se σa fs a') vs with
        | error e => rw [hm] at hse; simp at hse
        | ok js =>
          rw [hm] at hse; simp only [Except.ok.injEq] at hse; subst hse
          simp only [de, hgb]
          have hl : js.length = nb := by rw [mapM'_ok_length hm, hty.1, hn]
          rw [if_pos hl]
          nr_of (seq_NR x σa σb H hrec hty.2 hm fd)
      · -- tuple
        rename_i as bs
        unfold tyB at hty; simp only [hga] at hty
        cases v <;> simp only [reduceCtorEq] at hty <;> try (simp at hty; done)
        rename_i vs
        simp only [se, hga] at hse
        cases hm : zipSe (se σa fs) as vs with
        | error e => rw [hm] at hse; simp at hse
        | ok js =>
          rw [hm] at hse; simp only [Except.ok.injEq] at hse; subst hse
          simp only [de, hgb]
          nr_of (tuple_NR x σa σb H fs fd hacc hty hm)
      · -- map
        rename_i ka va kb vb
        simp only [Bool.and_eq_true] at hacc
        obtain ⟨⟨_, hkb⟩, hrec⟩ := hacc
        unfold tyB at hty; simp only [hga] at hty
        cases v <;> simp only [reduceCtorEq] at hty <;> try (simp at hty; done)
        rename_i kvs
        simp only [se, hga] at hse
        split at hse
        · rename_i es hm
          simp only [Except.ok.injEq] at hse; subst hse
          simp only [de, hgb]
          nr_of (map_NR x σa σb H hrec hkb hty hm fd)
        · simp at hse
      · -- struct
        rename_i na pa dna dfa nb pb dnb dfb
        obtain ⟨f', hnamed⟩ := hall A B hacc
        simp only [namedAcc, hga, hgb] at hnamed
        have H' := hyp_of_snd x σa σb ρ ih hft' f'
        unfold tyB at hty; simp only [hga] at hty
        cases v <;> simp only [reduceCtorEq] at hty <;> try (simp at hty; done)
        rename_i vfs
        simp only [se, hga] at hse
        cases hz : seStruct σa fs pa vfs with
        | error e => rw [hz] at hse; simp at hse
        | ok es =>
          rw [hz] at hse; simp only [Except.ok.injEq] at hse; subst hse
          cases fs with
          | zero => simp [seStruct] at hz
          | succ fs' =>
            simp only [seStruct] at hz
            simp only [de, hgb]
            exact struct_NR x σa σb H' hnamed hty (S := se σa fs') se_exists hz dnb fd
      · -- enum
        rename_i na ta va dna dfa ba nb tb vb dnb dfb bb
        obtain ⟨f', hnamed⟩ := hall A B hacc
        simp only [namedAcc, hga, hgb] at hnamed
        have H' := hyp_of_snd x σa σb ρ ih hft' f'
        exact enum_NR x σa σb H' hga hgb hnamed hty hse (fd + 1)
      · simp at hacc

end TypifyModel.WireEq

namespace TypifyModel.WireEq
open TypifyModel TypifyModel.Serde

/-- **soundness of `accB`**: `B` does not reject what `A` writes for a well-formed value -/
theorem acc_sound (x : Ext) (σa σb : Space) (ρ : List (Id × Id)) (hall : AllAcc σa σb ρ)
    {fa : Nat} {A B : Id} (hacc : accB σa σb ρ fa A B = true)
    {ft : Nat} {v : Val} (hty : tyB σa ft A v = true) {fs : Nat} {j : Json} (hse : se σa fs A v = .ok j) :
    ∀ fd, NR (de x σb fd B j) :=
  snd_all x σa σb ρ hall ft ft (Nat.le_refl _) fa A B v fs j hacc hty hse

end TypifyModel.WireEq

import TypifyModel.Proofs.Lemmas.DefaultsMaster
/-! C06 helper lemmas: struct defaults (no flattened members). -/
namespace TypifyModel.Defaults
open TypifyModel TypifyModel.Serde

def info (p : Field) : PropInfo := (some p.wire, p.ty, isRequired p)

theorem noFlatten_mem {props : List Field} (h : hasFlatten props = false) : ∀ p ∈ props, p.rename ≠ .flatten := by
  intro p hp hc
  unfold hasFlatten at h
  rw [List.any_eq_false] at h
  have := h p hp
  simp [hc] at this

theorem allProps_noflat (σ : Space) (n : Nat) (p : Field) (h : p.rename ≠ .flatten) :
    allProps σ (n + 1) p = .ok [info p] := by
  unfold allProps info Field.wire
  cases hr : p.rename with
  | none => rfl
  | rename s => rfl
  | flatten => exact absurd hr h

theorem flatMap_noflat (σ : Space) (n : Nat) : ∀ (props : List Field) (infos : List PropInfo),
    hasFlatten props = false → flatMapE (allProps σ n) props = .ok infos → infos = props.map info := by
  intro props
  induction props with
  | nil => intro infos _ h; simp [flatMapE] at h; subst h; rfl
  | cons p r ih =>
    intro infos hf h
    have hp : p.rename ≠ .flatten := noFlatten_mem hf p (by simp)
    have hr : hasFlatten r = false := by
      unfold hasFlatten at hf ⊢
      simp only [List.any_cons, Bool.or_eq_false_iff] at hf
      exact hf.2
    cases n with
    | zero => simp [flatMapE, allProps] at h
    | succ n =>
      simp only [flatMapE, allProps_noflat σ n p hp] at h
      split at h
      · simp at h
      · rename_i cs hcs
        simp only [Except.ok.injEq] at h
        rw [← h, ih cs hr hcs]; rfl

theorem lookupNamed_mem {props : List Field} {name : String} {t : Id} {r : Bool} :
    lookupNamed (props.map info) name = some (t, r) → ∃ p ∈ props, p.wire = name ∧ p.ty = t ∧ isRequired p = r := by
  induction props with
  | nil => intro h; simp [lookupNamed] at h
  | cons q rest ih =>
    intro h
    simp only [List.map_cons, lookupNamed] at h
    split at h
    · rename_i y hy
      simp only [Option.some.injEq] at h
      subst h
      obtain ⟨p, hp, h1⟩ := ih hy
      exact ⟨p, by simp [hp], h1⟩
    · split at h
      · rename_i hq
        simp only [info, beq_iff_eq, Option.some.injEq] at hq
        simp only [info, Option.some.injEq, Prod.mk.injEq] at h
        exact ⟨q, by simp, hq, h.1, h.2⟩
      · simp at h

theorem lookupNamed_nodup {props : List Field} (hnd : nodupStrings (props.map (·.wire)) = true) :
    ∀ p ∈ props, lookupNamed (props.map info) p.wire = some (p.ty, isRequired p) := by
  induction props with
  | nil => intro p hp; simp at hp
  | cons q rest ih =>
    simp only [List.map_cons, nodupStrings, Bool.and_eq_true, Bool.not_eq_true'] at hnd
    obtain ⟨hq, hrest⟩ := hnd
    intro p hp
    simp only [List.mem_cons] at hp
    rcases hp with rfl | hp
    · simp only [List.map_cons, lookupNamed]
      cases hl : lookupNamed (rest.map info) p.wire with
      | some y =>
        obtain ⟨t, r⟩ := y
        obtain ⟨p', hp', hw, _, _⟩ := lookupNamed_mem hl
        have : (rest.map (·.wire)).contains p.wire = true := by
          simp only [List.contains_iff_mem, List.mem_map]
          exact ⟨p', hp', hw⟩
        rw [this] at hq; simp at hq
      | none => simp [info]
    · simp only [List.map_cons, lookupNamed, ih hrest p hp]

theorem lookup_mem {kvs : List (String × Json)} {w : String} {v : Json} :
    Json.lookup kvs w = some v → (w, v) ∈ kvs := by
  induction kvs with
  | nil => intro h; simp [Json.lookup] at h
  | cons kv r ih =>
    obtain ⟨k', v'⟩ := kv
    intro h
    simp only [Json.lookup] at h
    split at h
    · rename_i hk
      simp only [Option.some.injEq] at h
      simp [hk, h]
    · simp [ih h]

theorem validateMembers_ok {V : Id → Json → VRes} {props : List Field} :
    ∀ kvs, validateMembers V (props.map info) kvs = .ok () →
      ∀ kv ∈ kvs, ∃ t r k, lookupNamed (props.map info) kv.1 = some (t, r) ∧ V t kv.2 = .ok k := by
  intro kvs
  induction kvs with
  | nil => intro _ kv hkv; simp at hkv
  | cons a rest ih =>
    obtain ⟨name, v⟩ := a
    intro h kv hkv
    simp only [validateMembers] at h
    have hun : ((props.map info).filterMap fun i => if i.1.isNone then some i.2.1 else none) = [] := by
      rw [List.filterMap_eq_nil_iff]
      intro i hi
      simp only [List.mem_map] at hi
      obtain ⟨p, _, rfl⟩ := hi
      simp [info]
    split at h
    · rename_i t r hl
      split at h
      · simp at h
      · rename_i k hk
        simp only [List.mem_cons] at hkv
        rcases hkv with rfl | hkv
        · exact ⟨t, r, k, hl, hk⟩
        · exact ih h kv hkv
    · rw [hun] at h
      simp [anyValid] at h

/-- what `validate_value` and `WFDefault` give for one member of a struct default -/
def PropFact (x : Ext) (σ : Space) (n : Nat) (kvs : List (String × Json)) (p : Field) : Prop :=
  match Json.lookup kvs p.wire with
  | some v => (∃ k, validateValue x σ n p.ty v = .ok k) ∧ WFDefault x σ n p.ty v = true
  | none =>
    match p.state with
    | .required => False
    | .optional => intrinsicDefault σ p.ty = true
    | .dflt _ => False

/-- the per-member step of `Serde.deStruct` on an object -/
def memberDe (x : Ext) (σ : Space) (m : Nat) (kvs : List (String × Json)) (p : Field) : Except E (String × Val) :=
  match Json.lookup kvs p.wire with
  | some v => (match de x σ m p.ty v with | .ok a => .ok (p.name, a) | .error e => .error e)
  | none =>
    match p.state with
    | .required => if optionLikeT σ p.ty then .ok (p.name, Val.none) else .error .reject
    | .optional => (match dflt x σ m p.ty with | .ok a => .ok (p.name, a) | .error e => .error e)
    | .dflt d => (match de x σ m p.ty d with
        | .ok a => .ok (p.name, a)
        | .error .reject => .error .unsupported
        | .error e => .error e)

theorem deStruct_obj (x : Ext) (σ : Space) (m : Nat) (props : List Field) (deny : Bool) (kvs : List (String × Json))
    (hfl : hasFlatten props = false)
    (hkeys : kvs.any (fun kv => !(props.any (fun p => p.wire == kv.1))) = false) :
    deStruct x σ (m + 1) props deny (.obj kvs) =
      (match mapM' (memberDe x σ m kvs) props with
       | .ok fs => .ok (.struct fs)
       | .error e => .error e) := by
  rw [deStruct]
  simp only [hfl, hkeys, Bool.and_false, Bool.false_eq_true, if_false]
  rfl

theorem intrinsic_impls {σ : Space} {t : Id} (h : intrinsicDefault σ t = true) (n : Nat) :
    implsDefault σ (n + 1) t = true := by
  unfold intrinsicDefault at h
  unfold implsDefault
  cases hg : σ.get t with
  | none => simp [hg] at h
  | some ent =>
    obtain ⟨det, ed, im⟩ := ent
    simp only [hg] at h ⊢
    cases det
    case integer name =>
      simp only at h ⊢
      cases hty : rtyOfName name with
      | none => simp [hty] at h
      | some r =>
        simp only [hty, Bool.not_eq_true'] at h
        rw [nz_prefix hty, h]; rfl
    all_goals simp at h ⊢

theorem intrinsic_dflt {x : Ext} {σ : Space} {t : Id} (h : intrinsicDefault σ t = true) (m : Nat) :
    dflt x σ m t ≠ .error .reject := by
  unfold intrinsicDefault at h
  cases m with
  | zero => simp [dflt]
  | succ m =>
    unfold dflt
    cases hg : σ.get t with
    | none => simp [hg] at h
    | some ent =>
      obtain ⟨det, ed, im⟩ := ent
      simp only [hg] at h ⊢
      cases det <;> simp at h ⊢
      rename_i name
      cases hty : rtyOfName name with
      | none => simp [hty] at h
      | some r => simp [hty] at h; simp [h]

theorem fields_step {D : Id → Except E Val} {G : RExpr → Id → Except E Val} {M : Field → Except E (String × Val)}
    {p : Field} {r : List Field} {nm : String} {e : Option RExpr} {fs : List (String × Option RExpr)}
    (hA : (∃ a, fieldVal D G e p.ty = .ok a ∧ M p = .ok (p.name, a)) ∨
          (∃ er, er ≠ E.reject ∧ fieldVal D G e p.ty = .error er ∧ M p = .error er))
    (hB : evalFields D G r fs = mapM' M r ∧ mapM' M r ≠ .error .reject) :
    evalFields D G (p :: r) ((nm, e) :: fs) = mapM' M (p :: r) ∧ mapM' M (p :: r) ≠ .error .reject := by
  obtain ⟨hB1, hB2⟩ := hB
  rcases hA with ⟨a, h1, h2⟩ | ⟨er, hne, h1, h2⟩
  · simp only [evalFields, mapM', h1, h2, hB1]
    cases hm : mapM' M r with
    | ok bs => simp
    | error er => simp only; refine ⟨trivial, ?_⟩; intro hc; apply hB2; rw [hm]; simpa using hc
  · simp only [evalFields, mapM', h1, h2]
    refine ⟨trivial, ?_⟩
    intro hc
    simp only [Except.error.injEq] at hc
    exact hne hc

theorem direct_out (x : Ext) (σ : Space) (n : Nat) (ih : Good x σ (n + 1)) (kvs : List (String × Json)) :
    ∀ ps, (∀ p ∈ ps, p.rename ≠ .flatten) → (∀ p ∈ ps, PropFact x σ (n + 1) kvs p) →
      ∃ fs, outDirect (outputValue x σ (n + 1)) kvs ps = .ok fs ∧
        fieldsOk (implsDefault σ (n + 1)) (fun a t' => hasType σ (n + 1) a t') ps fs = true ∧
        ∀ m, evalFields (dflt x σ m) (fun a t' => eval x σ m a t') ps fs = mapM' (memberDe x σ m kvs) ps ∧
          mapM' (memberDe x σ m kvs) ps ≠ .error .reject := by
  intro ps
  induction ps with
  | nil => intro _ _; exact ⟨[], rfl, rfl, fun m => ⟨rfl, by simp [mapM']⟩⟩
  | cons p r ihl =>
    intro hnf hpf
    obtain ⟨fs, hfs, hhs, hes⟩ := ihl (fun q hq => hnf q (by simp [hq])) (fun q hq => hpf q (by simp [hq]))
    have hp : (p.rename == Rename.flatten) = false := by
      have := hnf p (by simp)
      simpa using this
    have hfact := hpf p (by simp)
    unfold PropFact at hfact
    cases hl : Json.lookup kvs p.wire with
    | some v =>
      rw [hl] at hfact
      obtain ⟨⟨k, hk⟩, hw⟩ := hfact
      obtain ⟨e, ho, hh, hr⟩ := ih p.ty v k hk hw
      refine ⟨(p.name, some e) :: fs, ?_, ?_, ?_⟩
      · simp [outDirect, hp, hl, ho, hfs]
      · simp [fieldsOk, hh, hhs]
      · intro m
        refine fields_step ?_ (hes m)
        obtain ⟨h1, h2⟩ := hr m
        simp only [fieldVal, memberDe, hl, h1]
        cases hd : de x σ m p.ty v with
        | ok a => exact Or.inl ⟨a, rfl, rfl⟩
        | error er => exact Or.inr ⟨er, fun hc => h2 (by rw [hd, hc]), rfl, rfl⟩
    | none =>
      rw [hl] at hfact
      cases hst : p.state with
      | required => rw [hst] at hfact; exact hfact.elim
      | optional =>
        rw [hst] at hfact
        simp only at hfact
        refine ⟨(p.name, none) :: fs, ?_, ?_, ?_⟩
        · simp [outDirect, hp, hl, hst, hfs]
        · simp [fieldsOk, intrinsic_impls hfact n, hhs]
        · intro m
          refine fields_step ?_ (hes m)
          simp only [fieldVal, memberDe, hl, hst]
          cases hd : dflt x σ m p.ty with
          | ok a => exact Or.inl ⟨a, rfl, rfl⟩
          | error er => exact Or.inr ⟨er, fun hc => intrinsic_dflt hfact m (by rw [hd, hc]), rfl, rfl⟩
      | dflt d' => rw [hst] at hfact; exact hfact.elim

theorem outFlat_noflat (σ : Space) (O : Id → Json → Out) (extra : Json) :
    ∀ props, (∀ p ∈ props, p.rename ≠ .flatten) → outFlat σ O extra props = .ok [] := by
  intro props
  induction props with
  | nil => intro _; rfl
  | cons p r ih =>
    intro h
    have hp : (p.rename != Rename.flatten) = true := by
      have := h p (by simp)
      simpa using this
    simp only [outFlat, hp, if_true]
    exact ih (fun q hq => h q (by simp [hq]))

theorem writtenOrder_noflat {props : List Field} (h : ∀ p ∈ props, p.rename ≠ .flatten) : writtenOrder props = props := by
  unfold writtenOrder
  have h1 : props.filter (fun p => p.rename != .flatten) = props := by
    rw [List.filter_eq_self]
    intro p hp; simpa using h p hp
  have h2 : props.filter (fun p => p.rename == .flatten) = [] := by
    rw [List.filter_eq_nil_iff]
    intro p hp; simpa using h p hp
  rw [h1, h2, List.append_nil]

theorem struct_out (x : Ext) (σ : Space) (n : Nat) (ih : Good x σ n) (props : List Field) (d : Json) (kd : DKind)
    (hv : validateStruct σ n (validateValue x σ n) props d = .ok kd)
    (hw : wfStruct σ n (validateValue x σ n) (WFDefault x σ n) props d = true) :
    ∃ kvs fs, d = .obj kvs ∧ valueForStructProps σ (outputValue x σ n) props d = .ok fs ∧
      fieldsOk (implsDefault σ n) (fun a t' => hasType σ n a t') (writtenOrder props) fs = true ∧
      ∀ m deny, evalStruct x σ m props fs = deStruct x σ m props deny (.obj kvs) ∧
        deStruct x σ m props deny (.obj kvs) ≠ .error .reject := by
  unfold validateStruct at hv
  cases d <;> simp only at hv <;> try (simp at hv; done)
  rename_i kvs
  unfold wfStruct at hw
  simp only [Bool.and_eq_true, Bool.not_eq_true'] at hw
  obtain ⟨⟨hfl, hnd⟩, hall⟩ := hw
  have hnf := noFlatten_mem hfl
  rw [List.all_eq_true] at hall
  cases hfm : flatMapE (allProps σ n) props with
  | error e => rw [hfm] at hv; simp at hv
  | ok infos =>
    rw [hfm] at hv
    simp only at hv
    have hinfos := flatMap_noflat σ n props infos hfl hfm
    subst hinfos
    cases hvm : validateMembers (validateValue x σ n) (props.map info) kvs with
    | error e => rw [hvm] at hv; simp at hv
    | ok u =>
      rw [hvm] at hv
      simp only at hv
      have hreq : (props.map info).all (fun i => match i with
          | (some nm, _, true) => (Json.lookup kvs nm).isSome
          | _ => true) = true := by
        split at hv
        · assumption
        · simp at hv
      have hmem := validateMembers_ok kvs hvm
      -- every key is a property's wire name
      have hkeys : kvs.any (fun kv => !(props.any (fun p => p.wire == kv.1))) = false := by
        rw [List.any_eq_false]
        intro kv hkv
        obtain ⟨t, r, k, hl, _⟩ := hmem kv hkv
        obtain ⟨p, hp, hpw, _, _⟩ := lookupNamed_mem hl
        have : props.any (fun p => p.wire == kv.1) = true := by
          rw [List.any_eq_true]; exact ⟨p, hp, by simpa using hpw⟩
        rw [this]; simp
      -- facts per member
      have hfacts : ∀ p ∈ props, PropFact x σ n kvs p := by
        intro p hp
        unfold PropFact
        have hwp := hall p hp
        cases hl : Json.lookup kvs p.wire with
        | some v =>
          rw [hl] at hwp
          simp only at hwp ⊢
          obtain ⟨t, r, k, hln, hk⟩ := hmem (p.wire, v) (lookup_mem hl)
          rw [lookupNamed_nodup hnd p hp] at hln
          simp only [Option.some.injEq, Prod.mk.injEq] at hln
          rw [← hln.1] at hk
          exact ⟨⟨k, hk⟩, hwp⟩
        | none =>
          rw [hl] at hwp
          simp only at hwp ⊢
          cases hst : p.state with
          | required =>
            rw [List.all_eq_true] at hreq
            have := hreq (info p) (List.mem_map_of_mem hp)
            simp [info, isRequired, hst, hl] at this
          | optional => rw [hst] at hwp; simpa using hwp
          | dflt d' => rw [hst] at hwp; simp at hwp
      cases n with
      | zero =>
        -- no fuel: only the empty property list gets here
        cases props with
        | cons p r => simp [flatMapE, allProps] at hfm
        | nil =>
          refine ⟨kvs, [], rfl, by simp [valueForStructProps, outDirect, outFlat], by simp [writtenOrder, fieldsOk], ?_⟩
          intro m deny
          cases m with
          | zero => simp [evalStruct, deStruct]
          | succ m =>
            have hk0 : kvs = [] := by
              cases kvs with
              | nil => rfl
              | cons a r => simp at hkeys
            subst hk0
            simp [evalStruct, deStruct, hasFlatten, evalFields, mapM']
      | succ n =>
        obtain ⟨fs, hfs, hhs, hes⟩ := direct_out x σ n ih kvs props hnf hfacts
        refine ⟨kvs, fs, rfl, ?_, ?_, ?_⟩
        · simp only [valueForStructProps, hfs, outFlat_noflat σ _ _ props hnf, List.append_nil]
        · rw [writtenOrder_noflat hnf]; exact hhs
        · intro m deny
          cases m with
          | zero => simp [evalStruct, deStruct]
          | succ m =>
            obtain ⟨h1, h2⟩ := hes m
            rw [deStruct_obj x σ m props deny kvs hfl hkeys]
            simp only [evalStruct, hfl, Bool.false_eq_true, if_false, h1]
            refine ⟨rfl, ?_⟩
            cases hd : mapM' (memberDe x σ m kvs) props with
            | ok v => simp
            | error er => simp only; intro hc; apply h2; rw [hd]; simpa using hc

end TypifyModel.Defaults

import TypifyModel.Model.StrConv
/-! Helper lemmas for C11. -/
namespace TypifyModel.Serde
open TypifyModel

theorem fmtLiteral_escape : ∀ cs : List Char, fmtLiteral (escapeBraces cs) = some cs := by
  intro cs
  induction cs with
  | nil => simp [escapeBraces, fmtLiteral]
  | cons c r ih =>
    by_cases hb : c = '{' ∨ c = '}'
    · simp [escapeBraces, fmtLiteral, hb, ih]
    · have he : escapeBraces (c :: r) = c :: escapeBraces r := by simp [escapeBraces, hb]
      rw [he]
      have hf : ∀ t, fmtLiteral (c :: t) = (fmtLiteral t).map (c :: ·) := by
        intro t; rw [fmtLiteral.eq_def]; simp [hb]
      rw [hf, ih]; rfl

theorem findIdx_wire_raw (vs : List Variant) (s : String) :
    vs.findIdx? (fun v => v.wire == s) = vs.findIdx? (fun v => v.rawName == s) := by
  congr 1; funext v; rw [Variant.wire_eq_raw]

theorem allSimple_get {vs : List Variant} (h : isAllSimple vs = true) {i : Nat} {v : Variant}
    (hv : vs[i]? = some v) : v.details = .simple := by
  unfold isAllSimple at h
  rw [List.all_eq_true] at h
  have hm : v ∈ vs := List.mem_of_getElem? hv
  have := h v hm
  cases hd : v.details <;> simp [hd] at this ⊢

end TypifyModel.Serde

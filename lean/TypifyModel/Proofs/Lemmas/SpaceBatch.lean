import TypifyModel.Proofs.Lemmas.SpaceDenote
/-! C16 helpers for `split_inv`, batch level: what one `add_ref_types` call adds to the set of named
    definitions is denoted by its schemas (`batch_char`), a characterisation `Char` of the states
    reachable by a sequence of batches, and the comparison of two such states (`sameDefs_of_char`). -/
set_option autoImplicit false
namespace TypifyModel.Space
open TypifyModel.Names (Str)

/-- the shape of the entry `convert_ref_type` puts at a definition's id -/
def defShape (rn : RefKey → Option Str) (f : Nat) (n : Name) (s : Sch) : Option Shape :=
  match s with
  | .obj _ _ _ _ => shapeOf rn f n s
  | .enumStr _ _ => shapeOf rn f n s
  | _ => (treeOf rn f n s).map .newtype

/-- the `(name, shape)` pairs one definition contributes: its own entry and its inline types -/
def defExpected (rn : RefKey → Option Str) (f : Nat) (d : RefKey × Sch) : List (Str × Shape) :=
  (match defName d, defShape rn f (keyName d.1) d.2 with
   | some nm, some sh => [(nm, sh)]
   | _, _ => []) ++ expected rn f (keyName d.1) d.2

def batchExpected (rn : RefKey → Option Str) (f : Nat) (defs : List (RefKey × Sch)) : List (Str × Shape) :=
  defs.flatMap (defExpected rn f)

theorem convertLite_defShape {rn : RefKey → Option Str} {f : Nat} {n : Name} {s : Sch} {σ σ' : State}
    {e : Details} (h : convertLite f n s σ = .ok (e, σ')) :
    (e.name? = none → defShape rn f n s = (treeOf rn f n s).map .newtype) ∧
    (∀ nm, e.name? = some nm → defShape rn f n s = shapeOf rn f n s) := by
  cases f with
  | zero => simp [convertLite] at h
  | succ f =>
    cases s with
    | str t => exact ⟨fun _ => rfl, fun nm hn => by
        simp only [convertLite, R.ok.injEq, Prod.mk.injEq] at h; rw [← h.1] at hn; cases hn⟩
    | int t => exact ⟨fun _ => rfl, fun nm hn => by
        simp only [convertLite, R.ok.injEq, Prod.mk.injEq] at h; rw [← h.1] at hn; cases hn⟩
    | bool t => exact ⟨fun _ => rfl, fun nm hn => by
        simp only [convertLite, R.ok.injEq, Prod.mk.injEq] at h; rw [← h.1] at hn; cases hn⟩
    | ref t k => exact ⟨fun _ => rfl, fun nm hn => by
        have := convertLite_topName h hn; cases this⟩
    | arr t item => exact ⟨fun _ => rfl, fun nm hn => by
        have := convertLite_topName h hn; cases this⟩
    | nullable inner => exact ⟨fun _ => rfl, fun nm hn => by
        have := convertLite_topName h hn; cases this⟩
    | obj t props req closed =>
      refine ⟨fun hn => ?_, fun _ _ => rfl⟩
      simp only [convertLite] at h
      split at h
      · cases h
      · split at h
        · cases h
        · simp only [R.ok.injEq, Prod.mk.injEq] at h; rw [← h.1] at hn; cases hn
    | enumStr t vals =>
      refine ⟨fun hn => ?_, fun _ _ => rfl⟩
      simp only [convertLite] at h
      split at h
      · cases h
      · split at h
        · cases h
        · split at h
          · cases h
          · simp only [R.ok.injEq, Prod.mk.injEq] at h; rw [← h.1] at hn; cases hn

theorem refTarget_unnamed {e : Details} {t : Nat} (h : e.refTarget? = some t) : e.name? = none := by
  cases e <;> first | rfl | cases h

/-- what `convert_ref_type` creates — the definition's own entry and the inline types — is denoted -/
theorem convertRefType_sound {rn : RefKey → Option Str} {fuel : Nat} {k : RefKey} {s : Sch} {tid : Nat}
    {σ σ' : State} (h : convertRefType fuel (keyName k) s tid σ = .ok σ') (hi : Inv σ)
    (ht : tid < σ.nextId) (hnone : σ.entry tid = none) :
    ∀ i d m, (i = tid ∨ σ.nextId ≤ i) → σ'.entry i = some d → d.name? = some m → ∀ τ, Keeps σ' τ →
      RefNamed rn σ.refToId τ → ∃ sh, (m, sh) ∈ defExpected rn fuel (k, s) ∧ ShapeOf τ d sh := by
  obtain ⟨ent, nm, σ2, e, σ1, h1, hn, hg, rfl, hc⟩ := convertRefType_cases h
  have hs := convertLite_sound rn _ _ _ _ _ _ h1 hi
  obtain ⟨i1, hids⟩ := convertLite_inv _ _ _ _ _ _ h1 hi
  have hx1 := convertLite_ext _ _ _ _ _ _ h1
  obtain ⟨hds1, hds2⟩ := convertLite_defShape (rn := rn) h1
  intro i d m hcase hd hm τ hk hrn
  have hx2 : Ext σ1 σ2 ∧ Inv σ2 := by
    rcases hc with ⟨_, _, _, rfl⟩ | ⟨_, _, _, rfl⟩ | ⟨_, _, _, rfl⟩
    · exact ⟨Ext.refl _, i1⟩
    · exact ⟨Ext.refl _, i1⟩
    · exact ⟨assignType_ext _ _, (assignType_inv i1 hids).1⟩
  have hnone2 : σ2.entry tid = none := by
    rw [hx2.1.entry tid (Nat.lt_of_lt_of_le ht hx1.next), hx1.entry tid ht]; exact hnone
  have hk2 : Keeps σ2 τ := (keeps_insertDef hnone2).trans hk
  have hk1 : Keeps σ1 τ := (keeps_of_ext hx2.1 i1).trans hk2
  rw [insertDef_entry] at hd
  by_cases hti : tid = i
  · -- the definition's own entry
    simp only [hti, if_true, Option.some.injEq] at hd
    subst hd
    rw [hn] at hm; cases hm
    have hdn : defName (k, s) = some nm := hg
    suffices hsh : ∃ sh, defShape rn fuel (keyName k) s = some sh ∧ ShapeOf τ ent sh by
      obtain ⟨sh, h2, h3⟩ := hsh
      exact ⟨sh, List.mem_append_left _ (by simp [hdn, h2]), h3⟩
    rcases hc with ⟨t, htg, rfl, rfl⟩ | ⟨_, hne, rfl, rfl⟩ | ⟨htg, hne, rfl, rfl⟩
    · have hk' : Keeps (assignType e σ2).2 τ := by rw [assignType_of_ref σ2 htg]; exact hk2
      obtain ⟨x, hx, hres, _⟩ := hs.tree τ hk' hrn
      rw [assignType_of_ref σ2 htg] at hres
      exact ⟨.newtype x, by rw [hds1 (refTarget_unnamed htg), hx]; rfl, .newtype hres⟩
    · obtain ⟨sh, h2, h3⟩ := hs.shape nm hne τ hk2 hrn
      exact ⟨sh, by rw [hds2 nm hne]; exact h2, h3⟩
    · obtain ⟨x, hx, hres, _⟩ := hs.tree τ hk2 hrn
      exact ⟨.newtype x, by rw [hds1 hne, hx]; rfl, .newtype hres⟩
  · -- an inline type created on the way
    simp only [hti, if_false] at hd
    have hge : σ.nextId ≤ i := by
      rcases hcase with h' | h'
      · exact absurd h'.symm hti
      · exact h'
    have key : ∃ sh, (m, sh) ∈ expected rn fuel (keyName k) s ∧ ShapeOf τ d sh := by
      rcases hc with ⟨_, _, _, rfl⟩ | ⟨_, _, _, rfl⟩ | ⟨_, hne, _, rfl⟩
      · exact hs.new i d m hge hd hm τ hk1 hrn
      · exact hs.new i d m hge hd hm τ hk1 hrn
      · by_cases hlt : i < σ1.nextId
        · rw [(assignType_ext e σ1).entry i hlt] at hd
          exact hs.new i d m hge hd hm τ hk1 hrn
        · have := assignType_new i1 hd (Nat.le_of_not_lt hlt)
          subst this
          rw [hne] at hm; cases hm
    obtain ⟨sh, h2, h3⟩ := key
    exact ⟨sh, List.mem_append_right _ h2, h3⟩

/-- `convert_ref_type` binds the definition's name and the names of its inline types -/
theorem convertRefType_binds {fuel : Nat} {k : RefKey} {s : Sch} {tid : Nat} {σ σ' : State}
    (h : convertRefType fuel (keyName k) s tid σ = .ok σ') :
    (∀ m, HasName σ m → HasName σ' m) ∧
    (∀ m, (defName (k, s) = some m ∨ m ∈ assigned fuel (keyName k) s) → HasName σ' m) := by
  obtain ⟨ent, nm, σ2, e, σ1, h1, hn, hg, rfl, hc⟩ := convertRefType_cases h
  have hx1 := convertLite_ext _ _ _ _ _ _ h1
  have hx2 : Ext σ1 σ2 := by
    rcases hc with ⟨_, _, _, rfl⟩ | ⟨_, _, _, rfl⟩ | ⟨_, _, _, rfl⟩
    · exact Ext.refl _
    · exact Ext.refl _
    · exact assignType_ext _ _
  have lift : ∀ m, HasName σ2 m → HasName (insertDef σ2 nm tid ent) m := by
    intro m hm
    unfold HasName at hm ⊢
    show alookup ((nm, tid) :: σ2.nameToId) m ≠ none
    rw [alookup_cons]
    split
    · simp
    · exact hm
  refine ⟨fun m hm => lift m ((hm.ext hx1).ext hx2), fun m hm => ?_⟩
  rcases hm with hm | hm
  · have : nm = m := by
      have : defName (k, s) = some nm := hg
      rw [this] at hm; exact Option.some.inj hm
    subst this
    unfold HasName
    show alookup ((nm, tid) :: σ2.nameToId) nm ≠ none
    rw [alookup_cons_self]; simp
  · exact lift m ((convertLite_binds _ _ _ _ _ _ m h1 hm).ext hx2)

/-! ### the batch loop -/

theorem reserve_lookup (base : Nat) : ∀ (defs : List (RefKey × Sch)) (i : Nat) (σ : State) (k : RefKey) (id : Nat),
    alookup (reserve base defs i σ).refToId k = some id →
    alookup σ.refToId k = some id ∨ ∃ j s, defs[j]? = some (k, s) ∧ id = base + (i + j) := by
  intro defs
  induction defs with
  | nil => intro i σ k id h; exact Or.inl h
  | cons hd tl ih =>
    obtain ⟨k0, s0⟩ := hd
    intro i σ k id h
    simp only [reserve] at h
    rcases ih (i + 1) _ k id h with h1 | ⟨j, s, hj, hid⟩
    · change alookup ((k0, base + i) :: σ.refToId) k = some id at h1
      rw [alookup_cons] at h1
      split at h1
      · rename_i hk
        cases h1
        exact Or.inr ⟨0, s0, by simp [hk], by simp⟩
      · exact Or.inl h1
    · exact Or.inr ⟨j + 1, s, by simpa using hj, by omega⟩

theorem batchExpected_append (rn : RefKey → Option Str) (f : Nat) (a b : List (RefKey × Sch)) :
    batchExpected rn f (a ++ b) = batchExpected rn f a ++ batchExpected rn f b := by
  unfold batchExpected; simp

theorem batchNames_append (a b : List (RefKey × Sch)) : batchNames (a ++ b) = batchNames a ++ batchNames b := by
  unfold batchNames; simp

theorem batchAssigned_append (f : Nat) (a b : List (RefKey × Sch)) :
    batchAssigned f (a ++ b) = batchAssigned f a ++ batchAssigned f b := by
  unfold batchAssigned; simp

/-- the invariant of the conversion loop used for `split_inv` -/
structure LoopInv (rn : RefKey → Option Str) (fuel : Nat) (defs : List (RefKey × Sch)) (σ0 : State)
    (r : List (RefKey × Sch)) (i : Nat) (τc : State) : Prop where
  pre : ∃ pre, defs = pre ++ r ∧ pre.length = i ∧
    (∀ j d m, σ0.nextId ≤ j → τc.entry j = some d → d.name? = some m → ∀ τ, Keeps τc τ →
      RefNamed rn (reserved defs σ0).refToId τ → ∃ sh, (m, sh) ∈ batchExpected rn fuel pre ∧ ShapeOf τ d sh) ∧
    (∀ m, m ∈ batchNames pre ++ batchAssigned fuel pre → HasName τc m)
  refs : τc.refToId = (reserved defs σ0).refToId
  mono : ∀ m, HasName σ0 m → HasName τc m
  filled : ∀ j, j < i → ∃ k s d nm, defs[j]? = some (k, s) ∧ τc.entry (σ0.nextId + j) = some d ∧
    d.name? = some nm ∧ defName (k, s) = some nm

theorem loopInv_step {rn : RefKey → Option Str} {fuel : Nat} {defs : List (RefKey × Sch)} {σ0 : State}
    (k : RefKey) (s : Sch) (r : List (RefKey × Sch)) (i : Nat) (τc τ1 : State)
    (it : Inv τc) (hlt : σ0.nextId + i < τc.nextId) (hnone : τc.entry (σ0.nextId + i) = none)
    (hp : LoopInv rn fuel defs σ0 ((k, s) :: r) i τc)
    (hc : convertRefType fuel (keyName k) s (σ0.nextId + i) τc = .ok τ1) :
    LoopInv rn fuel defs σ0 r (i + 1) τ1 := by
  obtain ⟨pre, hdefs, hlen, hsound, hbound⟩ := hp.pre
  obtain ⟨ent, nm, σ2, hx, hn, hg, hτ1, _⟩ := convertRefType_ext2 hc
  have hnone2 : σ2.entry (σ0.nextId + i) = none := by rw [hx.entry _ hlt]; exact hnone
  have hk01 : Keeps τc τ1 := by
    rw [hτ1]; exact (keeps_of_ext hx it).trans (keeps_insertDef hnone2)
  have hrefs : τ1.refToId = τc.refToId := by rw [hτ1]; exact hx.ref
  have hold : ∀ j, j ≠ σ0.nextId + i → j < τc.nextId → τ1.entry j = τc.entry j := by
    intro j hne hj
    rw [hτ1, insertDef_entry]
    have : σ0.nextId + i ≠ j := fun h => hne h.symm
    simp only [this, if_false]
    exact hx.entry j hj
  obtain ⟨hb1, hb2⟩ := convertRefType_binds hc
  refine ⟨⟨pre ++ [(k, s)], by rw [hdefs]; simp, by simp [hlen], ?_, ?_⟩, by rw [hrefs, hp.refs],
    fun m hm => hb1 m (hp.mono m hm), ?_⟩
  · intro j d m hge hd hm τ hk hrn
    rw [batchExpected_append]
    by_cases hcase : j = σ0.nextId + i ∨ τc.nextId ≤ j
    · obtain ⟨sh, h1, h2⟩ := convertRefType_sound (rn := rn) hc it hlt hnone j d m hcase hd hm τ hk
        (by rw [hp.refs]; exact hrn)
      exact ⟨sh, List.mem_append_right _ (by simpa [batchExpected] using h1), h2⟩
    · have h1 : j ≠ σ0.nextId + i := fun h => hcase (Or.inl h)
      have h2 : j < τc.nextId := Nat.lt_of_not_le (fun h => hcase (Or.inr h))
      rw [hold j h1 h2] at hd
      obtain ⟨sh, h3, h4⟩ := hsound j d m hge hd hm τ (hk01.trans hk) hrn
      exact ⟨sh, List.mem_append_left _ h3, h4⟩
  · intro m hm
    rw [batchNames_append, batchAssigned_append] at hm
    simp only [List.mem_append] at hm
    rcases hm with (hm | hm) | (hm | hm)
    · exact hb1 m (hbound m (List.mem_append_left _ hm))
    · refine hb2 m (Or.inl ?_)
      simp only [batchNames, List.filterMap_cons, List.filterMap_nil] at hm
      cases hdn : defName (k, s) with
      | none => rw [hdn] at hm; simp at hm
      | some v => rw [hdn] at hm; simp at hm; rw [hm]
    · exact hb1 m (hbound m (List.mem_append_right _ hm))
    · refine hb2 m (Or.inr ?_)
      simpa [batchAssigned] using hm
  · intro j hj
    by_cases hji : j = i
    · subst hji
      refine ⟨k, s, ent, nm, ?_, ?_, hn, hg⟩
      · rw [hdefs, ← hlen]; simp
      · rw [hτ1, insertDef_entry]; simp
    · obtain ⟨k', s', d, nm', h1, h2, h3, h4⟩ := hp.filled j (by omega)
      refine ⟨k', s', d, nm', h1, ?_, h3, h4⟩
      rw [hold _ (by omega) (by omega)]; exact h2

/-- **what one batch adds is denoted by its schemas** -/
theorem batch_char {rn : RefKey → Option Str} {fuel : Nat} {defs : List (RefKey × Sch)} {σ0 σ' : State}
    (h : addRefTypesImpl fuel defs σ0 = .ok σ') (hi : Inv σ0) :
    (∀ j d m, σ0.nextId ≤ j → σ'.entry j = some d → d.name? = some m → ∀ τ, Keeps σ' τ →
      RefNamed rn σ'.refToId τ → ∃ sh, (m, sh) ∈ batchExpected rn fuel defs ∧ ShapeOf τ d sh) ∧
    (∀ m, HasName σ0 m → HasName σ' m) ∧
    (∀ m, m ∈ batchNames defs ++ batchAssigned fuel defs → HasName σ' m) ∧
    (RefNamed rn σ0.refToId σ0 → (∀ d ∈ defs, ∀ nm, defName d = some nm → rn d.1 = some nm) →
      RefNamed rn σ'.refToId σ') := by
  obtain ⟨σ2, h2, _, h3⟩ := addRefTypesImpl_steps h
  obtain ⟨hs, hbelow, he⟩ := finalizeFrom_spec h3
  have hloop := convertDefs_ind_inv (P := LoopInv rn fuel defs σ0) hi
    (fun k s r i τc τ1 _ it hlt hnone hp hc => loopInv_step k s r i τc τ1 it hlt hnone hp hc) h2
    ⟨⟨[], rfl, rfl, ⟨fun j d m hge hd _ => (by
        rw [reserved_entry, hi.entry_none hge] at hd; cases hd),
      fun m hm => (by simp [batchNames, batchAssigned] at hm)⟩⟩, rfl,
     fun m hm => by unfold HasName at hm ⊢; rw [reserved_nameToId]; exact hm,
     fun j hj => by omega⟩
  obtain ⟨⟨⟨pre, hdefs, hlen, hsound, hbound⟩, hrefs, hmono, hfilled⟩, i2⟩ := hloop
  have hpre : pre = defs := by rw [hdefs]; simp
  rw [hpre] at hsound hbound
  have hk2 : Keeps σ2 σ' := keeps_of_finalized he
  have hrefs' : σ'.refToId = (reserved defs σ0).refToId := by rw [hs.ref, hrefs]
  have hname : ∀ m, HasName σ2 m → HasName σ' m := by
    intro m hm; unfold HasName at hm ⊢; rw [hs.name]; exact hm
  refine ⟨?_, fun m hm => hname m (hmono m hm), fun m hm => hname m (hbound m hm), ?_⟩
  · intro j d m hge hd hm τ hk hrn
    rw [hrefs'] at hrn
    rcases he j with h1 | h1
    · rw [h1] at hd
      exact hsound j d m hge hd hm τ (hk2.trans hk) hrn
    · rw [h1] at hd
      cases hσ : σ2.entry j with
      | none => rw [hσ] at hd; cases hd
      | some d2 =>
        rw [hσ] at hd; simp only [Option.map_some, Option.some.injEq] at hd
        subst hd
        rw [finalizeEntry_name] at hm
        obtain ⟨sh, h4, h5⟩ := hsound j d2 m hge hσ hm τ (hk2.trans hk) hrn
        exact ⟨sh, h4, (h5.keeps (Keeps.refl τ)).2⟩
  · intro hr0 hcompat k t hk
    rw [hrefs'] at hk
    unfold reserved at hk
    rcases reserve_lookup _ _ _ _ _ _ hk with h1 | ⟨j, s, hj, hid⟩
    · obtain ⟨d, nm, hd, hdn, hrn⟩ := hr0 k t h1
      have hlt := hi.entry_lt t d hd
      have hframe := (convertDefs_frame_inv h2).1.2 t hlt
      refine ⟨d, nm, ?_, hdn, hrn⟩
      rw [hbelow t hlt, hframe]; exact hd
    · have hjl : j < defs.length := by
        rcases Nat.lt_or_ge j defs.length with h' | h'
        · exact h'
        · rw [List.getElem?_eq_none_iff.mpr h'] at hj; cases hj
      obtain ⟨k', s', d, nm, h1, h4, h5, h6⟩ := hfilled j (by omega)
      rw [hj] at h1; cases h1
      simp only [Nat.zero_add] at hid
      subst hid
      have hmem : (k, s) ∈ defs := List.mem_of_getElem? hj
      rcases hk2 _ _ h4 with h7 | h7
      · exact ⟨d, nm, h7, h5, hcompat (k, s) hmem nm h6⟩
      · exact ⟨finalizeEntry d, nm, h7, by rw [finalizeEntry_name]; exact h5, hcompat (k, s) hmem nm h6⟩

theorem batchExpected_names {rn : RefKey → Option Str} {f : Nat} {defs : List (RefKey × Sch)} {m : Str}
    {sh : Shape} (h : (m, sh) ∈ batchExpected rn f defs) : m ∈ batchNames defs ++ batchAssigned f defs := by
  unfold batchExpected at h
  obtain ⟨d, hd, hm⟩ := List.mem_flatMap.mp h
  unfold defExpected at hm
  rcases List.mem_append.mp hm with hm | hm
  · refine List.mem_append_left _ ?_
    split at hm
    · rename_i nm sh' h1 _
      simp only [List.mem_singleton, Prod.mk.injEq] at hm
      unfold batchNames
      exact List.mem_filterMap.mpr ⟨d, hd, by rw [hm.1]; exact h1⟩
    · simp at hm
  · refine List.mem_append_right _ ?_
    unfold batchAssigned
    exact List.mem_flatMap.mpr ⟨d, hd, expected_names rn _ _ _ _ _ hm⟩

/-! ### states reached by a sequence of batches -/

/-- `F` is `σ0` plus named definitions all denoted by `E`, every name of `E` bound -/
structure Char (rn : RefKey → Option Str) (E : List (Str × Shape)) (σ0 F : State) : Prop where
  inv : Inv F
  inj : NameInj F
  refs : RefNamed rn F.refToId F
  next : σ0.nextId ≤ F.nextId
  frame : ∀ i, i < σ0.nextId → F.entry i = σ0.entry i
  sound : ∀ j d m, σ0.nextId ≤ j → F.entry j = some d → d.name? = some m →
    ∃ sh, (m, sh) ∈ E ∧ ShapeOf F d sh
  bound : ∀ m sh, (m, sh) ∈ E → HasName F m

theorem Char.init {rn : RefKey → Option Str} {σ0 : State} (hi : Inv σ0) (hinj : NameInj σ0)
    (hr : RefNamed rn σ0.refToId σ0) : Char rn [] σ0 σ0 where
  inv := hi
  inj := hinj
  refs := hr
  next := Nat.le_refl _
  frame := fun _ _ => rfl
  sound := fun j d m hge hd _ => by rw [hi.entry_none hge] at hd; cases hd
  bound := fun m sh h => by cases h

theorem keeps_of_frame {F F' : State} (hi : Inv F) (hf : ∀ i, i < F.nextId → F'.entry i = F.entry i) :
    Keeps F F' := fun i e h => Or.inl (by rw [hf i (hi.entry_lt i e h)]; exact h)

theorem Char.step {rn : RefKey → Option Str} {E : List (Str × Shape)} {σ0 F F' : State} {fuel : Nat}
    {defs : List (RefKey × Sch)} (hc : Char rn E σ0 F) (h : addRefTypesImpl fuel defs F = .ok F')
    (hd : DistinctBatches defs F) (hn : NoNameCollision fuel defs)
    (hcompat : ∀ d ∈ defs, ∀ nm, defName d = some nm → rn d.1 = some nm) :
    Char rn (E ++ batchExpected rn fuel defs) σ0 F' := by
  obtain ⟨b1, b2, b3, b4⟩ := batch_char (rn := rn) h hc.inv
  obtain ⟨fn, ff⟩ := addRefTypesImpl_frame h
  have i' := addRefTypesImpl_inv h hc.inv
  have hk : Keeps F F' := keeps_of_frame hc.inv ff
  have hr' := b4 hc.refs hcompat
  refine ⟨i', addRefTypesImpl_nameInj h hc.inv hc.inj hd hn, hr', Nat.le_trans hc.next fn,
    fun i hi => by rw [ff i (Nat.lt_of_lt_of_le hi hc.next), hc.frame i hi], ?_, ?_⟩
  · intro j d m hge hd' hm
    by_cases hlt : j < F.nextId
    · rw [ff j hlt] at hd'
      obtain ⟨sh, h1, h2⟩ := hc.sound j d m hge hd' hm
      exact ⟨sh, List.mem_append_left _ h1, (h2.keeps hk).1⟩
    · obtain ⟨sh, h1, h2⟩ := b1 j d m (Nat.le_of_not_lt hlt) hd' hm F' (Keeps.refl _) hr'
      exact ⟨sh, List.mem_append_right _ h1, h2⟩
  · intro m sh hm
    rcases List.mem_append.mp hm with hm | hm
    · exact b2 m (hc.bound m sh hm)
    · exact b3 m (batchExpected_names hm)

/-! ### resolution of old ids does not depend on what was added later -/

theorem Res.frame_back {σ0 F : State} (hi : Inv σ0) (hf : ∀ i, i < σ0.nextId → F.entry i = σ0.entry i)
    {c : Nat} {x : Tree} (h : Res F c x) (hc : c < σ0.nextId) : Res σ0 c x := by
  induction h with
  | named he hn => exact .named (by rw [← hf _ hc]; exact he) hn
  | string he => exact .string (by rw [← hf _ hc]; exact he)
  | integer he => exact .integer (by rw [← hf _ hc]; exact he)
  | boolean he => exact .boolean (by rw [← hf _ hc]; exact he)
  | option he _ ih =>
    have he0 := he; rw [hf _ hc] at he0
    exact .option he0 (ih (hi.child_lt _ _ he0 _ (by simp [Details.ids])))
  | vec he _ ih =>
    have he0 := he; rw [hf _ hc] at he0
    exact .vec he0 (ih (hi.child_lt _ _ he0 _ (by simp [Details.ids])))
  | box he _ ih =>
    have he0 := he; rw [hf _ hc] at he0
    exact .box he0 (ih (hi.child_lt _ _ he0 _ (by simp [Details.ids])))

theorem FieldsRes.frame_back {σ0 F : State} (hi : Inv σ0) (hf : ∀ i, i < σ0.nextId → F.entry i = σ0.entry i)
    {fs : List Field} {ts : List FieldT} (h : FieldsRes F fs ts) (hlt : ∀ f ∈ fs, f.ty < σ0.nextId) :
    FieldsRes σ0 fs ts := by
  induction h with
  | nil => exact .nil
  | cons hr _ ih =>
    exact .cons (hr.frame_back hi hf (hlt _ List.mem_cons_self))
      (ih (fun f hm => hlt f (List.mem_cons_of_mem _ hm)))

theorem ShapeOf.frame_back {σ0 F : State} (hi : Inv σ0) (hf : ∀ i, i < σ0.nextId → F.entry i = σ0.entry i)
    {e : Details} {sh : Shape} (h : ShapeOf F e sh) (hlt : ∀ c ∈ e.ids, c < σ0.nextId) : ShapeOf σ0 e sh := by
  cases h with
  | enum => exact .enum
  | struct hfr =>
    exact .struct (hfr.frame_back hi hf (fun f hm => hlt f.ty (by
      simp only [Details.ids, List.mem_map]; exact ⟨f, hm, rfl⟩)))
  | newtype hr => exact .newtype (hr.frame_back hi hf (hlt _ (by simp [Details.ids])))

theorem namedDef_transfer {rn : RefKey → Option Str} {E1 E2 : List (Str × Shape)} {σ0 F1 F2 : State}
    (h0 : Inv σ0) (c1 : Char rn E1 σ0 F1) (c2 : Char rn E2 σ0 F2) (hsub : ∀ x, x ∈ E1 → x ∈ E2)
    (hfun : ∀ m sh sh', (m, sh) ∈ E2 → (m, sh') ∈ E2 → sh = sh') {n : Str} {sh : Shape}
    (h : NamedDef F1 n sh) : NamedDef F2 n sh := by
  obtain ⟨i, e, he, hn, hsh⟩ := h
  by_cases hlt : i < σ0.nextId
  · have he0 : σ0.entry i = some e := by rw [← c1.frame i hlt]; exact he
    have hsh0 := hsh.frame_back h0 c1.frame (h0.child_lt i e he0)
    have hk : Keeps σ0 F2 := keeps_of_frame h0 (fun j hj => c2.frame j hj)
    exact ⟨i, e, by rw [c2.frame i hlt]; exact he0, hn, (hsh0.keeps hk).1⟩
  · obtain ⟨sh1, hm1, hs1⟩ := c1.sound i e n (Nat.le_of_not_lt hlt) he hn
    have : sh1 = sh := hs1.unique hsh
    subst this
    have hb := c2.bound n sh1 (hsub _ hm1)
    unfold HasName at hb
    cases hl : alookup F2.nameToId n with
    | none => exact absurd hl hb
    | some j =>
      obtain ⟨e2, he2, hn2⟩ := c2.inv.name_ok n j hl
      by_cases hlt2 : j < σ0.nextId
      · exfalso
        have he20 : σ0.entry j = some e2 := by rw [← c2.frame j hlt2]; exact he2
        have he21 : F1.entry j = some e2 := by rw [c1.frame j hlt2]; exact he20
        have a := c1.inj j e2 n he21 hn2
        have b := c1.inj i e n he hn
        rw [a] at b
        have : j = i := Option.some.inj b
        omega
      · obtain ⟨sh2, hm2, hs2⟩ := c2.sound j e2 n (Nat.le_of_not_lt hlt2) he2 hn2
        have : sh2 = sh1 := hfun n sh2 sh1 hm2 (hsub _ hm1)
        subst this
        exact ⟨j, e2, he2, hn2, hs2⟩

/-- two states characterised by the same set of denoted definitions over the same base have the same
    named definitions -/
theorem sameDefs_of_char {rn : RefKey → Option Str} {E1 E2 : List (Str × Shape)} {σ0 F1 F2 : State}
    (h0 : Inv σ0) (c1 : Char rn E1 σ0 F1) (c2 : Char rn E2 σ0 F2) (heq : ∀ x, x ∈ E1 ↔ x ∈ E2)
    (hfun : ∀ m sh sh', (m, sh) ∈ E1 → (m, sh') ∈ E1 → sh = sh') : SameDefs F1 F2 := by
  intro n sh
  constructor
  · exact namedDef_transfer h0 c1 c2 (fun x hx => (heq x).mp hx)
      (fun m a b ha hb => hfun m a b ((heq _).mpr ha) ((heq _).mpr hb))
  · exact namedDef_transfer h0 c2 c1 (fun x hx => (heq x).mpr hx) hfun

/-! ### sequences of `add_ref_types` calls -/

/-- the name a `$ref` key resolves to: a definition key to its sanitised name, the root to `r` -/
def rnR (r : Option Str) : RefKey → Option Str
  | .defn k => some (sanP k)
  | .root => r

def runBatches (fuel : Nat) : List (List (Str × Sch)) → State → R State
  | [], σ => .ok σ
  | b :: bs, σ =>
    match addRefTypes fuel b σ with
    | .fail e => .fail e
    | .ok σ1 => runBatches fuel bs σ1

/-- every batch of the sequence satisfies the two named hypotheses in the state it is added to -/
def BatchesOK (fuel : Nat) : List (List (Str × Sch)) → State → Prop
  | [], _ => True
  | b :: bs, σ => DistinctBatches (defKeys b) σ ∧ NoNameCollision fuel (defKeys b) ∧
      ∀ σ1, addRefTypes fuel b σ = .ok σ1 → BatchesOK fuel bs σ1

instance instDecBatchesOK (fuel : Nat) : (bs : List (List (Str × Sch))) → (σ : State) →
    Decidable (BatchesOK fuel bs σ)
  | [], _ => isTrue trivial
  | b :: bs, σ =>
    match hs : addRefTypes fuel b σ with
    | .fail f => decidable_of_iff (DistinctBatches (defKeys b) σ ∧ NoNameCollision fuel (defKeys b)) (by
        simp only [BatchesOK, hs]
        exact ⟨fun h => ⟨h.1, h.2, fun _ h' => by cases h'⟩, fun h => ⟨h.1, h.2.1⟩⟩)
    | .ok σ' =>
      have := instDecBatchesOK fuel bs σ'
      decidable_of_iff (DistinctBatches (defKeys b) σ ∧ NoNameCollision fuel (defKeys b) ∧
          BatchesOK fuel bs σ') (by
        simp only [BatchesOK, hs]
        exact ⟨fun h => ⟨h.1, h.2.1, fun σ1 h' => by
            simp only [R.ok.injEq] at h'; rw [← h']; exact h.2.2⟩,
          fun h => ⟨h.1, h.2.1, h.2.2 σ' rfl⟩⟩)

theorem defKeys_compat (r : Option Str) (b : List (Str × Sch)) :
    ∀ d ∈ defKeys b, ∀ nm, defName d = some nm → rnR r d.1 = some nm := by
  intro d hd nm hnm
  unfold defKeys at hd
  obtain ⟨p, _, rfl⟩ := List.mem_map.mp hd
  simpa [defName, keyName, getTypeName, rnR] using hnm

theorem defKeys_append (a b : List (Str × Sch)) : defKeys (a ++ b) = defKeys a ++ defKeys b := by
  unfold defKeys; simp

/-- the states a sequence of batches reaches are characterised by the denotation of all its schemas -/
theorem char_run {r : Option Str} {fuel : Nat} : ∀ (bs : List (List (Str × Sch))) (E : List (Str × Shape))
    (σ0 σ F : State), runBatches fuel bs σ = .ok F → BatchesOK fuel bs σ → Char (rnR r) E σ0 σ →
    Char (rnR r) (E ++ batchExpected (rnR r) fuel (defKeys bs.flatten)) σ0 F := by
  intro bs
  induction bs with
  | nil =>
    intro E σ0 σ F h _ hc
    simp only [runBatches, R.ok.injEq] at h
    subst h
    simpa [defKeys, batchExpected] using hc
  | cons b bs ih =>
    intro E σ0 σ F h hok hc
    simp only [runBatches] at h
    split at h
    · cases h
    · rename_i σ1 h1
      have hc1 := hc.step (fuel := fuel) (defs := defKeys b) h1 hok.1 hok.2.1 (defKeys_compat r b)
      have := ih _ σ0 σ1 F h (hok.2.2 σ1 h1) hc1
      simpa [List.flatten_cons, defKeys_append, batchExpected_append, List.append_assoc] using this

/-! ### the id-isomorphism -/

/-- the renaming of ids between two states: an id holding a named entry goes to the id the other
    state binds that name to -/
def namePi (σ τ : State) (i : Nat) : Nat :=
  match (σ.entry i).bind Details.name? with
  | some n => (alookup τ.nameToId n).getD 0
  | none => 0

/-- every named entry of the base state has a structure (all its ids resolve) -/
def Shaped (σ : State) : Prop := ∀ i e n, σ.entry i = some e → e.name? = some n → ∃ sh, ShapeOf σ e sh

theorem shaped_init : Shaped Space.init := by
  intro i e n h; simp [State.entry, Space.init, alookup] at h

theorem char_shaped {rn : RefKey → Option Str} {E : List (Str × Shape)} {σ0 F : State} (h0 : Inv σ0)
    (hs : Shaped σ0) (c : Char rn E σ0 F) : Shaped F := by
  intro i e n he hn
  by_cases hlt : i < σ0.nextId
  · have he0 : σ0.entry i = some e := by rw [← c.frame i hlt]; exact he
    obtain ⟨sh, hsh⟩ := hs i e n he0 hn
    exact ⟨sh, (hsh.keeps (keeps_of_frame h0 (fun j hj => c.frame j hj))).1⟩
  · obtain ⟨sh, _, hsh⟩ := c.sound i e n (Nat.le_of_not_lt hlt) he hn
    exact ⟨sh, hsh⟩

/-- with unique names on both sides, equal sets of named definitions give an explicit isomorphism
    of the named parts: `namePi` maps every named entry to the entry of the same name and structure,
    and hits every named entry of the other state -/
theorem idIso_of_sameDefs {σ τ : State} (hsd : SameDefs σ τ) (hsσ : Shaped σ) (hsτ : Shaped τ)
    (hiσ : NameInj σ) (hiτ : NameInj τ) : IdIso (namePi σ τ) σ τ := by
  constructor
  · intro i e he hsome
    cases hn : e.name? with
    | none => rw [hn] at hsome; cases hsome
    | some n =>
      obtain ⟨sh, hsh⟩ := hsσ i e n he hn
      obtain ⟨j, e2, he2, hn2, hsh2⟩ := (hsd n sh).mp ⟨i, e, he, hn, hsh⟩
      have hπ : namePi σ τ i = j := by
        unfold namePi
        rw [he]; simp only [Option.bind_some, hn]
        rw [hiτ j e2 n he2 hn2]; rfl
      refine ⟨e2, by rw [hπ]; exact he2, by rw [hn2], fun sh' hsh' => ?_⟩
      rw [hsh'.unique hsh]; exact hsh2
  · intro j e2 he2 hsome
    cases hn : e2.name? with
    | none => rw [hn] at hsome; cases hsome
    | some n =>
      obtain ⟨sh, hsh⟩ := hsτ j e2 n he2 hn
      obtain ⟨i, e, he, hn1, _⟩ := (hsd n sh).mpr ⟨j, e2, he2, hn, hsh⟩
      refine ⟨i, e, ?_, he, by rw [hn1]; rfl⟩
      unfold namePi
      rw [he]; simp only [Option.bind_some, hn1]
      rw [hiτ j e2 n he2 hn]; rfl

end TypifyModel.Space

import TypifyModel.Proofs.Lemmas.ContainStruct
/-! The object shapes of tagged enums in the containment theorem (C03): `{"V": body}` (external),
    `{tag: "V", …members}` (internal), `{tag: "V", content: body}` (adjacent); and `None` at an
    `Option` type is written as `null`. -/
namespace TypifyModel.Contain
open TypifyModel TypifyModel.Serde TypifyModel.RoundTrip

/-- `None` is written as `null`, through any number of flattened `Option`s -/
theorem se_none_null (σ : Space) : ∀ (f : Nat) (t t' : Id) (ed : List String) (im : List Impl) (w : Json),
    σ.get t = some ⟨.option t', ed, im⟩ → se σ f t .none = .ok w → w = .null := by
  intro f
  induction f with
  | zero => intro t t' ed im w _ h; simp [se] at h
  | succ f ih =>
    intro t t' ed im w hg h
    simp only [se, hg] at h
    split at h
    · rename_i t'' ed' im' hg'
      exact ih t' t'' ed' im' w hg' h
    · simp only [Except.ok.injEq] at h; exact h.symm

theorem declaredStruct_obj {σ : Space} {f : Nat} {ps : List Field} {v : Json}
    (h : declaredStruct σ f ps v = true) : ∃ kvs, v = .obj kvs := by
  cases f with
  | zero => simp [declaredStruct] at h
  | succ f => cases v <;> simp [declaredStruct] at h; exact ⟨_, rfl⟩

/-- external tagging: a one-member object -/
theorem contained_single {k k' : String} {a b : Json} (hk : k' = k)
    (h : contained (prune a) (prune b) = true) :
    contained (prune (.obj [(k, a)])) (prune (.obj [(k', b)])) = true := by
  subst hk
  by_cases he : emptyJ (prune a) = true
  · simp only [prune, pruneObj, he, if_true, contained, containedObj]
  · have he' : emptyJ (prune a) = false := by simpa using he
    have hb := contained_nonempty h he'
    simp only [prune, pruneObj, he', hb, Bool.false_eq_true, if_false, contained, containedObj,
      Json.lookup, if_true, h, Bool.and_self]

/-- internal tagging: the tag member and the members of the struct variant -/
theorem internal_contained {kvs es : List (String × Json)} {tg s wire : String}
    (hnd : nodupKeys kvs = true) (hl : Json.lookup kvs tg = some (.str s)) (hw : wire = s)
    (hes : containedObj (pruneObj (Json.erase kvs tg)) (pruneObj es) = true) :
    contained (prune (.obj kvs)) (prune (.obj ((tg, .str wire) :: es))) = true := by
  subst hw
  have hpr : pruneObj ((tg, Json.str wire) :: es) = (tg, Json.str wire) :: pruneObj es := by
    simp [pruneObj, prune, emptyJ]
  simp only [prune, contained, hpr]
  apply containedObj_iff.mpr
  intro kv hkv
  obtain ⟨k, v'⟩ := kv
  obtain ⟨vk, hmem, hv', hne⟩ := mem_pruneObj.mp hkv
  subst hv'
  by_cases hk : k = tg
  · subst hk
    have := lookup_of_mem hnd hmem
    rw [hl] at this
    simp only [Option.some.injEq] at this; subst this
    exact ⟨.str wire, by simp [Json.lookup], by simp [prune, contained, scalarEq]⟩
  · have hmem' : (k, vk) ∈ Json.erase kvs tg := by
      simp only [Json.erase, List.mem_filter]
      exact ⟨hmem, by simpa using hk⟩
    have hpm : (k, prune vk) ∈ pruneObj (Json.erase kvs tg) := mem_pruneObj.mpr ⟨vk, hmem', rfl, hne⟩
    obtain ⟨y, hy, hcy⟩ := containedObj_iff.mp hes (k, prune vk) hpm
    refine ⟨y, ?_, hcy⟩
    have : tg ≠ k := fun h => hk h.symm
    simp only [Json.lookup, this, if_false]
    exact hy

/-- adjacent tagging, data-less variant: only the tag is written; a `null` content is pruned -/
theorem adjacent_contained_simple {kvs : List (String × Json)} {tg ct s wire : String}
    (hnd : nodupKeys kvs = true) (hkeys : kvs.all (fun kv => kv.1 == tg || kv.1 == ct) = true)
    (hl : Json.lookup kvs tg = some (.str s)) (hw : wire = s)
    (hc : Json.lookup kvs ct = none ∨ Json.lookup kvs ct = some .null) :
    contained (prune (.obj kvs)) (prune (.obj [(tg, .str wire)])) = true := by
  subst hw
  have hpr : pruneObj [(tg, Json.str wire)] = [(tg, Json.str wire)] := by
    simp [pruneObj, prune, emptyJ]
  simp only [prune, contained, hpr]
  apply containedObj_iff.mpr
  intro kv hkv
  obtain ⟨k, v'⟩ := kv
  obtain ⟨vk, hmem, hv', hne⟩ := mem_pruneObj.mp hkv
  subst hv'
  have hlk := lookup_of_mem hnd hmem
  have hk := (List.all_eq_true.mp hkeys) (k, vk) hmem
  simp only [Bool.or_eq_true, beq_iff_eq] at hk
  rcases hk with rfl | rfl
  · rw [hl] at hlk
    simp only [Option.some.injEq] at hlk; subst hlk
    exact ⟨.str wire, by simp [Json.lookup], by simp [prune, contained, scalarEq]⟩
  · exfalso
    rw [hlk] at hc
    rcases hc with hc | hc
    · simp at hc
    · simp only [Option.some.injEq] at hc; subst hc
      simp [prune, emptyJ] at hne

/-- adjacent tagging with content -/
theorem adjacent_contained {kvs : List (String × Json)} {tg ct s wire : String} {body b : Json}
    (hnd : nodupKeys kvs = true) (hkeys : kvs.all (fun kv => kv.1 == tg || kv.1 == ct) = true)
    (hl : Json.lookup kvs tg = some (.str s)) (hw : wire = s) (htc : tg ≠ ct)
    (hlc : Json.lookup kvs ct = some body) (hc : contained (prune body) (prune b) = true) :
    contained (prune (.obj kvs)) (prune (.obj [(tg, .str wire), (ct, b)])) = true := by
  subst hw
  simp only [prune, contained]
  apply containedObj_iff.mpr
  intro kv hkv
  obtain ⟨k, v'⟩ := kv
  obtain ⟨vk, hmem, hv', hne⟩ := mem_pruneObj.mp hkv
  subst hv'
  have hlk := lookup_of_mem hnd hmem
  have hk := (List.all_eq_true.mp hkeys) (k, vk) hmem
  simp only [Bool.or_eq_true, beq_iff_eq] at hk
  rcases hk with rfl | rfl
  · rw [hl] at hlk
    simp only [Option.some.injEq] at hlk; subst hlk
    refine ⟨.str wire, ?_, by simp [prune, contained, scalarEq]⟩
    simp [pruneObj, prune, emptyJ, Json.lookup]
  · rw [hlc] at hlk
    simp only [Option.some.injEq] at hlk; subst hlk
    have hb := contained_nonempty hc hne
    refine ⟨prune b, ?_, hc⟩
    have hpr : pruneObj [(tg, Json.str wire), (k, b)] = [(tg, Json.str wire), (k, prune b)] := by
      have h1 : emptyJ (Json.str wire) = false := rfl
      simp only [pruneObj, h1, hb, Bool.false_eq_true, if_false, prune]
    rw [hpr]
    simp [Json.lookup, htc]

end TypifyModel.Contain

import TypifyModel.Proofs.Lemmas.MergeDist
/-! C09: `merge_schema_object`, the `$ref` arm, `try_merge_schema` and `try_merge_all`. -/
set_option linter.unusedSimpArgs false
set_option linter.unusedVariables false
namespace TypifyModel.Merge
open TypifyModel TypifyModel.Validate

variable {x : Ext} {d : Doc}

theorem withSub_spec {rec : Schema → Schema → MR} (hrec : RecOK x d rec) (fr : Nat) (so sub : Schema)
    (hsub : isSub sub = true) : Spec x d (withSub rec d fr so sub) so sub := by
  cases sub <;> simp only [isSub, Bool.false_eq_true] at hsub <;> simp only [withSub]
  · have := dist_spec (d := d) hrec fr so ‹List Schema› true
    simpa using this
  · have := dist_spec (d := d) hrec fr so ‹List Schema› false
    simpa using this
  · exact foldMerge_spec hrec _ so
  · exact mergeNot_spec hrec so _

theorem mergeBody_any_left (te : Bool) (rec : Schema → Schema → MR) (b : Schema) : mergeBody te rec .any b = .ok b [] := by
  simp [mergeBody, isAny]

theorem mergeBody_any_right (te : Bool) (rec : Schema → Schema → MR) (a : Schema) : mergeBody te rec a .any = .ok a [] := by
  by_cases h : isAny a = true
  · rw [isAny_eq h]; simp [mergeBody, isAny]
  · unfold mergeBody; rw [if_neg h]; simp [isAny]

theorem valid_any_true {f : Nat} {v : Json} {b : Bool} (h : valid x d f .any v = some b) : b = true := by
  obtain ⟨f', rfl⟩ := ne_zero_of_valid h
  rw [valid_any] at h
  exact (Option.some.inj h).symm

theorem mergeObj_spec (te : Bool) {rec : Schema → Schema → MR} (hrec : RecOK x d rec) (fr : Nat) (a b : Schema) :
    Spec x d (mergeObj te rec d fr a b) a b := by
  unfold mergeObj bodyOf
  cases ha : isSub a <;> cases hb : isSub b <;> simp only [Bool.false_eq_true, if_false, if_true]
  · -- plain bodies
    have hs := mergeBody_spec te hrec a b
    cases hm : mergeBody te rec a b with
    | unsup => trivial
    | never g => rw [hm] at hs; exact hs
    | ok m0 g0 =>
      rw [hm] at hs
      simp only [MR.addGaps, List.append_nil]
      exact hs
  · -- right side is subschema-only
    rw [mergeBody_any_right]
    simp only [List.nil_append]
    rw [addGaps_nil]
    exact withSub_spec hrec fr a b hb
  · -- left side is subschema-only
    rw [mergeBody_any_left]
    simp only
    have hs := (withSub_spec hrec fr b a ha).symm
    cases hw : withSub rec d fr b a with
    | unsup => trivial
    | never g => rw [hw] at hs; simpa using hs
    | ok m1 g1 =>
      rw [hw] at hs
      simp only [MR.addGaps, List.nil_append, List.append_nil]
      exact hs
  · -- both
    rw [mergeBody_any_left]
    simp only
    have hs1 := withSub_spec hrec fr .any a ha
    cases hw : withSub rec d fr .any a with
    | unsup => trivial
    | never g =>
      cases g with
      | cons _ _ => trivial
      | nil =>
        rw [hw] at hs1
        simp only [List.nil_append]
        intro v f2 f3 hh
        exact hs1 v 1 f2 ⟨rfl, hh.1⟩
    | ok m1 g1 =>
      simp only [List.nil_append]
      apply spec_addGaps
      intro hg
      subst hg
      rw [hw] at hs1
      have hI1 : Inter x d m1 .any a := hs1
      have hs2 := withSub_spec hrec fr m1 b hb
      cases hw2 : withSub rec d fr m1 b with
      | unsup => trivial
      | never g =>
        cases g with
        | cons _ _ => trivial
        | nil =>
          rw [hw2] at hs2
          intro v f2 f3 hh
          obtain ⟨g1, hg1⟩ := hI1 v 1 f2 true true rfl hh.1
          exact hs2 v g1 f3 ⟨hg1, hh.2⟩
      | ok m2 g2 =>
        cases g2 with
        | cons _ _ => trivial
        | nil =>
          rw [hw2] at hs2
          intro v f2 f3 ba bb h2 h3
          obtain ⟨g1, hg1⟩ := hI1 v 1 f2 true ba rfl h2
          simp only [Bool.true_and] at hg1
          exact hs2 v g1 f3 ba bb hg1 h3

theorem ref_verdict {k : String} {r : Schema} (hk : d.get k = some r) {f : Nat} {v : Json} {b : Bool}
    (h : valid x d f (.ref k) v = some b) : ∃ f', f = f' + 1 ∧ valid x d f' r v = some b := by
  obtain ⟨f', rfl⟩ := ne_zero_of_valid h
  rw [valid_ref, hk] at h
  exact ⟨f', rfl, h⟩

theorem refArm_spec {rec : Schema → Schema → MR} (hrec : RecOK x d rec) (fr : Nat) (k : String) (other : Schema) :
    Spec x d (refArm rec d fr k other) (.ref k) other := by
  unfold refArm
  cases hk : d.get k with
  | none => trivial
  | some r =>
    simp only
    have hs := hrec r other
    cases hr : rec r other with
    | unsup => trivial
    | never g =>
      cases g with
      | cons _ _ => trivial
      | nil =>
        rw [hr] at hs
        intro v f2 f3 hh
        obtain ⟨f', _, hf'⟩ := ref_verdict hk hh.1
        exact hs v f' f3 ⟨hf', hh.2⟩
    | ok m g =>
      rw [hr] at hs
      simp only
      split
      · cases hgg : g ++ roughGap fr m r with
        | cons _ _ => trivial
        | nil =>
          simp only [List.append_eq_nil_iff] at hgg
          obtain ⟨rfl, hrg⟩ := hgg
          have hE : Eqv x d m r := roughGap_nil hrg
          intro v f2 f3 ba bb h2 h3
          obtain ⟨f', rfl, hf'⟩ := ref_verdict hk h2
          obtain ⟨f1, hf1⟩ := hs v f' f3 ba bb hf' h3
          rw [hE f1 v] at hf1
          have := valid_det x d hf' hf1
          exact ⟨f' + 1, by rw [← this]; exact h2⟩
      · cases g with
        | cons _ _ => trivial
        | nil =>
          intro v f2 f3 ba bb h2 h3
          obtain ⟨f', _, hf'⟩ := ref_verdict hk h2
          exact hs v f' f3 ba bb hf' h3

theorem isNever_disj_left {a b : Schema} (h : isNever a = true) : Disj x d a b := by
  rw [isNever_eq h]
  intro v f2 f3 hh
  obtain ⟨f', rfl⟩ := ne_zero_of_valid hh.1
  have := hh.1
  rw [valid_never] at this
  simp at this

/-- the model's answer, when gap-free, is the intersection / witnesses disjointness -/
theorem tryMerge_spec (te : Bool) : ∀ (f : Nat) (a b : Schema), Spec x d (tryMerge te d f a b) a b := by
  intro f
  induction f with
  | zero => intro a b; simp only [tryMerge]; trivial
  | succ f ih =>
    intro a b
    have hrec : RecOK x d (tryMerge te d f) := ih
    unfold tryMerge
    split
    · rename_i hn
      simp only [Bool.or_eq_true] at hn
      rcases hn with hn | hn
      · exact isNever_disj_left hn
      · exact (isNever_disj_left hn).symm
    · split
      · rename_i ka
        split
        · rename_i kb
          split
          · rename_i he
            simp only [beq_iff_eq] at he
            subst he
            exact Inter_self _
          · exact refArm_spec hrec f _ _
        · exact refArm_spec hrec f _ b
      · split
        · rename_i kb
          exact (refArm_spec hrec f _ a).symm
        · exact mergeObj_spec te hrec f a b

end TypifyModel.Merge

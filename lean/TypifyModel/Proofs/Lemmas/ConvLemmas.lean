import TypifyModel.Model.Conv
/-! Helper lemmas for `conv_accepts` (C02). -/
namespace TypifyModel.Conv
open TypifyModel TypifyModel.Serde TypifyModel.Validate

/-- "the model does not reject": ok, or a non-verdict (out of fuel / outside the modelled fragment) -/
abbrev NR {α : Type} (r : Except E α) : Prop := r ≠ .error .reject

theorem and3_true {a b : Option Bool} (h : and3 a b = some true) : a = some true ∧ b = some true := by
  cases a <;> cases b <;> simp [and3] at h ⊢
  exact h

theorem mapM'_NR {α β : Type} {g : α → Except E β} :
    ∀ {l : List α}, (∀ a ∈ l, NR (g a)) → NR (mapM' g l) := by
  intro l
  induction l with
  | nil => intro _; simp [mapM', NR]
  | cons a r ih =>
    intro h
    simp only [mapM']
    have ha := h a (by simp)
    have hr := ih (fun b hb => h b (by simp [hb]))
    cases hga : g a with
    | error e =>
      simp only; intro hc; rw [hga] at ha
      simp only [Except.error.injEq] at hc; subst hc; exact ha rfl
    | ok b =>
      simp only
      cases hmr : mapM' g r with
      | error e =>
        simp only; intro hc; rw [hmr] at hr
        simp only [Except.error.injEq] at hc; subst hc; exact hr rfl
      | ok bs => simp [NR]

theorem zipM_NR {g : Id → Json → Except E Val} :
    ∀ {ts : List Id} {xs : List Json}, ts.length = xs.length →
      (∀ (n : Nat) t j, ts[n]? = some t → xs[n]? = some j → NR (g t j)) → NR (zipM g ts xs) := by
  intro ts
  induction ts with
  | nil => intro xs hl _; cases xs <;> simp [zipM, NR] at hl ⊢
  | cons t r ih =>
    intro xs hl h
    cases xs with
    | nil => simp at hl
    | cons j js =>
      simp only [zipM]
      have h0 := h 0 t j (by simp) (by simp)
      have hr := ih (xs := js) (by simpa using hl) (fun n t' j' ht hj => h (n + 1) t' j' (by simpa using ht) (by simpa using hj))
      cases hg : g t j with
      | error e =>
        simp only; intro hc; rw [hg] at h0
        simp only [Except.error.injEq] at hc; subst hc; exact h0 rfl
      | ok v =>
        simp only
        cases hz : zipM g r js with
        | error e =>
          simp only; intro hc; rw [hz] at hr
          simp only [Except.error.injEq] at hc; subst hc; exact hr rfl
        | ok vs => simp [NR]

theorem firstOk_NR {α : Type} {g : α → Nat → Except E Val} :
    ∀ {l : List α} {k n : Nat} {a : α}, l[n]? = some a → NR (g a (k + n)) → NR (firstOk g l k) := by
  intro l
  induction l with
  | nil => intro k n a h; simp at h
  | cons b r ih =>
    intro k n a h hn
    simp only [firstOk]
    cases n with
    | zero =>
      simp at h; subst h
      simp only [Nat.add_zero] at hn
      cases hg : g b k with
      | ok v => simp [NR]
      | error e =>
        cases e with
        | reject => rw [hg] at hn; exact absurd rfl hn
        | fuel => simp [NR]
        | unsupported => simp [NR]
    | succ m =>
      have h' : r[m]? = some a := by simpa using h
      have hn' : NR (g a (k + 1 + m)) := by
        have : k + (m + 1) = k + 1 + m := by omega
        rw [← this]; exact hn
      cases hg : g b k with
      | ok v => simp [NR]
      | error e =>
        cases e with
        | reject => simp only; exact ih h' hn'
        | fuel => simp [NR]
        | unsupported => simp [NR]

theorem beq_str_left {w : String} {j : Json} (h : (Json.str w == j) = true) : j = .str w := by
  change Json.beq (.str w) j = true at h
  cases j <;> simp [Json.beq] at h
  subst h; rfl

theorem allJ_mem {g : Json → Option Bool} :
    ∀ {l : List Json}, allJ g l = some true → ∀ j ∈ l, g j = some true := by
  intro l
  induction l with
  | nil => intro _ j hj; simp at hj
  | cons a r ih =>
    intro h j hj
    simp only [allJ] at h
    obtain ⟨h1, h2⟩ := and3_true h
    simp only [List.mem_cons] at hj
    rcases hj with rfl | hj
    · exact h1
    · exact ih h2 j hj

theorem zipV_spec {g : Schema → Json → Option Bool} :
    ∀ {ss : List Schema} {xs : List Json}, zipV g ss xs = some true →
      ss.length = xs.length ∧ ∀ (n : Nat) s j, ss[n]? = some s → xs[n]? = some j → g s j = some true := by
  intro ss
  induction ss with
  | nil => intro xs h; cases xs <;> simp [zipV] at h ⊢
  | cons s r ih =>
    intro xs h
    cases xs with
    | nil => simp [zipV] at h
    | cons j js =>
      simp only [zipV] at h
      obtain ⟨h1, h2⟩ := and3_true h
      obtain ⟨hl, hr⟩ := ih h2
      refine ⟨by simp [hl], ?_⟩
      intro n s' j' hs hj
      cases n with
      | zero => simp at hs hj; subst hs; subst hj; exact h1
      | succ m => exact hr m s' j' (by simpa using hs) (by simpa using hj)

theorem zipB_spec {g : Schema → Id → Bool} :
    ∀ {ss : List Schema} {ts : List Id}, zipB g ss ts = true →
      ss.length = ts.length ∧ ∀ (n : Nat) s t, ss[n]? = some s → ts[n]? = some t → g s t = true := by
  intro ss
  induction ss with
  | nil => intro ts h; cases ts <;> simp [zipB] at h ⊢
  | cons s r ih =>
    intro ts h
    cases ts with
    | nil => simp [zipB] at h
    | cons t tl =>
      simp only [zipB, Bool.and_eq_true] at h
      obtain ⟨hl, hr⟩ := ih h.2
      refine ⟨by simp [hl], ?_⟩
      intro n s' t' hs ht
      cases n with
      | zero => simp at hs ht; subst hs; subst ht; exact h.1
      | succ m => exact hr m s' t' (by simpa using hs) (by simpa using ht)

/-- a positive count of valid alternatives yields a valid alternative -/
theorem countV_pos {g : Schema → Option Bool} :
    ∀ {l : List Schema} {c : Nat}, countV g l = some c → 0 < c → ∃ (n : Nat) (s : Schema), l[n]? = some s ∧ g s = some true := by
  intro l
  induction l with
  | nil => intro c h hc; simp [countV] at h; omega
  | cons a r ih =>
    intro c h hc
    simp only [countV] at h
    cases hga : g a with
    | none => rw [hga] at h; simp at h
    | some b =>
      cases hcr : countV g r with
      | none => rw [hga, hcr] at h; simp at h
      | some m =>
        rw [hga, hcr] at h
        simp only [Option.some.injEq] at h
        cases b with
        | true => exact ⟨0, a, by simp, hga⟩
        | false =>
          simp at h
          subst h
          obtain ⟨n, s, hn, hs⟩ := ih hcr hc
          exact ⟨n + 1, s, by simpa using hn, hs⟩

/-- every member of a valid object: a declared property satisfies its schema; an undeclared one
    exists only when the object is not closed -/
theorem membersV_spec {g : Schema → Json → Option Bool} {props : List (String × Schema)} {addl : Additional Schema} :
    ∀ {kvs : List (String × Json)}, membersV g props addl kvs = some true → ∀ kv ∈ kvs,
      (∃ q, props.find? (fun p => p.1 == kv.1) = some q ∧ g q.2 kv.2 = some true) ∨
      (props.find? (fun p => p.1 == kv.1) = none ∧ ¬ (addl matches .closed)) := by
  intro kvs
  induction kvs with
  | nil => intro _ kv hkv; simp at hkv
  | cons a r ih =>
    intro h kv hkv
    obtain ⟨k, v⟩ := a
    simp only [membersV] at h
    obtain ⟨h1, h2⟩ := and3_true h
    simp only [List.mem_cons] at hkv
    rcases hkv with rfl | hkv
    · simp only at h1 ⊢
      cases hf : props.find? (fun p => p.1 == k) with
      | some q =>
        obtain ⟨qk, qs⟩ := q
        rw [hf] at h1
        exact Or.inl ⟨(qk, qs), rfl, h1⟩
      | none =>
        rw [hf] at h1
        refine Or.inr ⟨rfl, ?_⟩
        cases addl <;> simp at h1 ⊢
    · exact ih h2 kv hkv

/-- with a typed `additionalProperties`: an undeclared member is valid under that schema -/
theorem membersV_spec_schema {g : Schema → Json → Option Bool} {props : List (String × Schema)} {sa : Schema} :
    ∀ {kvs : List (String × Json)}, membersV g props (.schema sa) kvs = some true → ∀ kv ∈ kvs,
      (∃ q, props.find? (fun p => p.1 == kv.1) = some q ∧ g q.2 kv.2 = some true) ∨
      (props.find? (fun p => p.1 == kv.1) = none ∧ g sa kv.2 = some true) := by
  intro kvs
  induction kvs with
  | nil => intro _ kv hkv; simp at hkv
  | cons a r ih =>
    intro h kv hkv
    obtain ⟨k, v⟩ := a
    simp only [membersV] at h
    obtain ⟨h1, h2⟩ := and3_true h
    simp only [List.mem_cons] at hkv
    rcases hkv with rfl | hkv
    · simp only at h1 ⊢
      cases hf : props.find? (fun p => p.1 == k) with
      | some q =>
        obtain ⟨qk, qs⟩ := q
        rw [hf] at h1
        exact Or.inl ⟨(qk, qs), rfl, h1⟩
      | none =>
        rw [hf] at h1
        exact Or.inr ⟨rfl, h1⟩
    · exact ih h2 kv hkv

/-- `foldFields` rejects only if a step does; `Inv` is what the steps may assume of the buffer -/
theorem foldFields_NR_inv {named : Field → Except E (String × Val)}
    {flat : Field → List (String × Json) → Except E Val × List (String × Json)}
    (Inv : List (String × Json) → Prop) :
    ∀ (ps : List Field) (c : List (String × Json)), Inv c →
      (∀ p ∈ ps, p.rename ≠ .flatten → NR (named p)) →
      (∀ p ∈ ps, p.rename = .flatten → ∀ c', Inv c' → NR (flat p c').1 ∧ Inv (flat p c').2) →
      NR (foldFields named flat ps c).1 := by
  intro ps
  induction ps with
  | nil => intro c _ _ _; simp [foldFields, NR]
  | cons p ps ih =>
    intro c hi hn hf
    have ihr := fun c' hc' => ih c' hc' (fun q hq => hn q (by simp [hq])) (fun q hq => hf q (by simp [hq]))
    simp only [foldFields]
    split
    · rename_i hfl
      have hpf : p.rename = .flatten := by simpa using hfl
      obtain ⟨h1, h1i⟩ := hf p (by simp) hpf c hi
      cases hfp : flat p c with
      | mk r c1 =>
        rw [hfp] at h1 h1i
        cases r with
        | error e => simpa [NR] using h1
        | ok v =>
          simp only
          have h2 := ihr c1 h1i
          cases hrec : foldFields named flat ps c1 with
          | mk r2 c2 =>
            rw [hrec] at h2
            cases r2 with
            | error e => simpa [NR] using h2
            | ok rs => simp [NR]
    · rename_i hfl
      have hpf : p.rename ≠ .flatten := by simpa using hfl
      have h1 := hn p (by simp) hpf
      cases hnp : named p with
      | error e => rw [hnp] at h1; simpa [NR] using h1
      | ok a =>
        simp only
        have h2 := ihr c hi
        cases hrec : foldFields named flat ps c with
        | mk r2 c2 =>
          rw [hrec] at h2
          cases r2 with
          | error e => simpa [NR] using h2
          | ok rs => simp [NR]

theorem membersV_additional {g : Schema → Json → Option Bool} {sv : Schema} :
    ∀ {kvs : List (String × Json)}, membersV g [] (.schema sv) kvs = some true → ∀ kv ∈ kvs, g sv kv.2 = some true := by
  intro kvs
  induction kvs with
  | nil => intro _ kv hkv; simp at hkv
  | cons a r ih =>
    intro h kv hkv
    obtain ⟨k, v⟩ := a
    simp only [membersV] at h
    obtain ⟨h1, h2⟩ := and3_true h
    simp only [List.mem_cons] at hkv
    rcases hkv with rfl | hkv
    · simpa using h1
    · exact ih h2 kv hkv

theorem nodupB_find {fields : List Field} :
    nodupB (fields.map (·.wire)) = true → ∀ p ∈ fields, fields.find? (fun q => q.wire == p.wire) = some p := by
  induction fields with
  | nil => intro _ p hp; simp at hp
  | cons a r ih =>
    intro h p hp
    simp only [List.map_cons, nodupB, Bool.and_eq_true, Bool.not_eq_true'] at h
    simp only [List.mem_cons] at hp
    rcases hp with rfl | hp
    · simp [List.find?]
    · have hne : (a.wire == p.wire) = false := by
        apply Bool.eq_false_iff.mpr
        intro heq
        have hw : a.wire = p.wire := by simpa using heq
        have hc : (r.map (·.wire)).contains a.wire = true := by
          rw [hw]
          simp only [List.contains_eq_mem, List.mem_map, decide_eq_true_eq]
          exact ⟨p, hp, rfl⟩
        rw [h.1] at hc; exact absurd hc (by simp)
      simp only [List.find?, hne]
      exact ih h.2 p hp

theorem propsB_mem {g : Schema → Id → Bool} {σ : Space} {fields : List Field} {req : List String} :
    ∀ {props : List (String × Schema)}, propsB g σ fields req props = true → ∀ q ∈ props,
      ∃ p, fields.find? (fun p => p.wire == q.1) = some p ∧
        (if req.contains q.1 then g q.2 p.ty = true
         else (hasDefaultAttr p || optionLikeT σ p.ty) = true ∧
           (g q.2 p.ty = true ∨ ∃ t' ed im, σ.get p.ty = some ⟨.option t', ed, im⟩ ∧
              (∀ t'' ed' im', σ.get t' ≠ some ⟨.option t'', ed', im'⟩) ∧ g q.2 t' = true)) := by
  intro props
  induction props with
  | nil => intro _ q hq; simp at hq
  | cons a r ih =>
    intro h q hq
    obtain ⟨k, s⟩ := a
    simp only [propsB, Bool.and_eq_true] at h
    simp only [List.mem_cons] at hq
    rcases hq with rfl | hq
    · have h1 := h.1
      simp only at h1 ⊢
      cases hf : fields.find? (fun p => p.wire == k) with
      | none => rw [hf] at h1; simp at h1
      | some p =>
        rw [hf] at h1
        refine ⟨p, rfl, ?_⟩
        simp only at h1
        by_cases hr : req.contains k = true
        · simp only [hr, if_true] at h1 ⊢; exact h1
        · simp only [hr, Bool.false_eq_true, if_false, Bool.and_eq_true, Bool.or_eq_true] at h1 ⊢
          refine ⟨by simpa using h1.1, ?_⟩
          rcases h1.2 with h2 | h2
          · exact Or.inl h2
          · right
            split at h2
            · rename_i t' ed im hg
              split at h2
              · simp at h2
              · rename_i hno
                exact ⟨t', ed, im, hg, fun t'' ed' im' hc => hno t'' ed' im' hc, h2⟩
            · simp at h2
    · exact ih h.2 q hq

end TypifyModel.Conv

namespace TypifyModel.Conv
open TypifyModel TypifyModel.Serde TypifyModel.Validate

theorem nodupB_find_gen {α : Type} (key : α → String) {l : List α} :
    nodupB (l.map key) = true → ∀ a ∈ l, l.find? (fun q => key q == key a) = some a := by
  induction l with
  | nil => intro _ a ha; simp at ha
  | cons b r ih =>
    intro h a ha
    simp only [List.map_cons, nodupB, Bool.and_eq_true, Bool.not_eq_true'] at h
    simp only [List.mem_cons] at ha
    rcases ha with rfl | ha
    · simp [List.find?]
    · have hne : (key b == key a) = false := by
        apply Bool.eq_false_iff.mpr
        intro heq
        have hw : key b = key a := by simpa using heq
        have hc : (r.map key).contains (key b) = true := by
          rw [hw]
          simp only [List.contains_eq_mem, List.mem_map, decide_eq_true_eq]
          exact ⟨a, ha, rfl⟩
        rw [h.1] at hc; exact absurd hc (by simp)
      simp only [List.find?, hne]
      exact ih h.2 a ha

theorem find_findIdx {α : Type} {p : α → Bool} :
    ∀ {l : List α} {a : α}, l.find? p = some a → ∃ i, l.findIdx? p = some i ∧ l[i]? = some a := by
  intro l
  induction l with
  | nil => intro a h; simp at h
  | cons b r ih =>
    intro a h
    simp only [List.find?] at h
    by_cases hb : p b = true
    · simp only [hb] at h
      simp only [Option.some.injEq] at h; subst h
      exact ⟨0, by simp [List.findIdx?_cons, hb], by simp⟩
    · have hb' : p b = false := by simpa using hb
      simp only [hb'] at h
      obtain ⟨i, hi, hg⟩ := ih h
      exact ⟨i + 1, by simp [List.findIdx?_cons, hb', hi], by simpa using hg⟩

end TypifyModel.Conv

namespace TypifyModel.Conv
open TypifyModel TypifyModel.Serde TypifyModel.Validate

theorem lookup_mem {kvs : List (String × Json)} {k : String} {j : Json}
    (h : Json.lookup kvs k = some j) : (k, j) ∈ kvs := by
  induction kvs with
  | nil => simp [Json.lookup] at h
  | cons a r ih =>
    obtain ⟨k', v'⟩ := a
    simp only [Json.lookup] at h
    split at h
    · rename_i hk; simp only [Option.some.injEq] at h; subst h; subst hk; simp
    · simp [ih h]

theorem lookup_erase_ne {kvs : List (String × Json)} {k r : String} (hne : r ≠ k) :
    Json.lookup (Json.erase kvs k) r = Json.lookup kvs r := by
  induction kvs with
  | nil => rfl
  | cons a rest ih =>
    obtain ⟨k', v'⟩ := a
    simp only [Json.erase, List.filter] at ih ⊢
    by_cases hk : k' = k
    · subst hk
      have : (decide (k' ≠ k')) = false := by simp
      simp only [this]
      simp only [Json.lookup]
      have : ¬ k' = r := fun h => hne h.symm
      simp only [this, if_false]
      exact ih
    · have : (decide (k' ≠ k)) = true := by simp [hk]
      simp only [this, Json.lookup]
      split
      · rfl
      · exact ih

theorem lookup_erase_self {kvs : List (String × Json)} {k : String} :
    Json.lookup (Json.erase kvs k) k = none := by
  induction kvs with
  | nil => rfl
  | cons a rest ih =>
    obtain ⟨k', v'⟩ := a
    simp only [Json.erase, List.filter] at ih ⊢
    by_cases hk : k' = k
    · subst hk
      have : (decide (k' ≠ k')) = false := by simp
      simp only [this]; exact ih
    · have : (decide (k' ≠ k)) = true := by simp [hk]
      simp only [this, Json.lookup, hk, if_false]
      exact ih

theorem find_filter_ne {props : List (String × Schema)} {tg key : String} (hne : key ≠ tg) :
    (props.filter (fun p => p.1 != tg)).find? (fun p => p.1 == key) = props.find? (fun p => p.1 == key) := by
  induction props with
  | nil => rfl
  | cons a r ih =>
    simp only [List.filter]
    by_cases ha : a.1 = tg
    · have h1 : (a.1 != tg) = false := by simp [ha]
      have h2 : (a.1 == key) = false := by
        simp only [beq_eq_false_iff_ne, ne_eq]; intro h; exact hne (h ▸ ha)
      simp only [h1, List.find?, h2]
      exact ih
    · have h1 : (a.1 != tg) = true := by simp [ha]
      simp only [h1, List.find?]
      split
      · rfl
      · exact ih

theorem membersV_erase {g : Schema → Json → Option Bool} {props : List (String × Schema)}
    {addl : Additional Schema} {tg : String} :
    ∀ {kvs : List (String × Json)}, membersV g props addl kvs = some true →
      membersV g (props.filter (fun p => p.1 != tg)) addl (Json.erase kvs tg) = some true := by
  intro kvs
  induction kvs with
  | nil => intro _; rfl
  | cons a r ih =>
    intro h
    obtain ⟨k, v⟩ := a
    simp only [membersV] at h
    obtain ⟨h1, h2⟩ := and3_true h
    simp only [Json.erase, List.filter] at ih ⊢
    by_cases hk : k = tg
    · have : (decide (k ≠ tg)) = false := by simp [hk]
      simp only [this]
      exact ih h2
    · have : (decide (k ≠ tg)) = true := by simp [hk]
      simp only [this, membersV]
      rw [find_filter_ne hk]
      have h2' := ih h2
      revert h1 h2'
      generalize (match props.find? (fun p => p.1 == k) with
          | some (_, s) => g s v
          | none =>
            match addl with
            | .open_ => some true
            | .closed => some false
            | .schema s => g s v) = a
      intro h1 h2'
      rw [h1, h2']
      rfl

theorem req_erase {req : List String} {kvs : List (String × Json)} {tg : String}
    (h : req.all (fun r => (Json.lookup kvs r).isSome) = true) :
    (req.filter (· != tg)).all (fun r => (Json.lookup (Json.erase kvs tg) r).isSome) = true := by
  apply List.all_eq_true.mpr
  intro r hr
  obtain ⟨hrm, hne⟩ := List.mem_filter.mp hr
  have hne' : r ≠ tg := by simpa using hne
  rw [lookup_erase_ne hne']
  exact (List.all_eq_true.mp h) r hrm

end TypifyModel.Conv

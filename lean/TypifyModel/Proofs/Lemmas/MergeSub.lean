import TypifyModel.Proofs.Lemmas.MergeRough
import TypifyModel.Proofs.Lemmas.MergeBody
/-! C09: `try_merge_with_subschemas` — the `allOf` fold and `not` (try_merge_schema_not). -/
set_option linter.unusedSimpArgs false
set_option linter.unusedVariables false
namespace TypifyModel.Merge
open TypifyModel TypifyModel.Validate

variable {x : Ext} {d : Doc}

theorem addGaps_nil (r : MR) : r.addGaps [] = r := by cases r <;> simp [MR.addGaps]

theorem spec_addGaps {r : MR} {g : List Gap} {a b : Schema} (h : g = [] → Spec x d r a b) :
    Spec x d (r.addGaps g) a b := by
  cases g with
  | nil => rw [addGaps_nil]; exact h rfl
  | cons c g => cases r <;> simp only [MR.addGaps, List.cons_append] <;> trivial

/-- `u` is the conjunction of `p` and `t` -/
def Decomp (x : Ext) (d : Doc) (u p t : Schema) : Prop :=
  ∀ v f bb, valid x d f u v = some bb → ∃ f' f'' bp bt, valid x d f' p v = some bp ∧ valid x d f'' t v = some bt ∧ bb = (bp && bt)

theorem Inter_chain {m m' so p t u : Schema} (h1 : Inter x d m so p) (h2 : Inter x d m' m t) (hd : Decomp x d u p t) :
    Inter x d m' so u := by
  intro v f2 f3 ba bb hso hu
  obtain ⟨f', f'', bp, bt, hp, ht, rfl⟩ := hd v f3 bb hu
  obtain ⟨g1, hg1⟩ := h1 v f2 f' ba bp hso hp
  obtain ⟨g2, hg2⟩ := h2 v g1 f'' _ bt hg1 ht
  exact ⟨g2, by rw [hg2, Bool.and_assoc]⟩

theorem Disj_chain {m so p t u : Schema} (h1 : Inter x d m so p) (h2 : Disj x d m t) (hd : Decomp x d u p t) :
    Disj x d so u := by
  intro v f2 f3 hh
  obtain ⟨hso, hu⟩ := hh
  obtain ⟨f', f'', bp, bt, hp, ht, hb⟩ := hd v f3 true hu
  have : bp = true ∧ bt = true := by cases bp <;> cases bt <;> simp at hb ⊢
  obtain ⟨rfl, rfl⟩ := this
  obtain ⟨g1, hg1⟩ := h1 v f2 f' true true hso hp
  exact h2 v g1 f'' ⟨hg1, ht⟩

theorem Disj_first {so p t u : Schema} (h1 : Disj x d so p) (hd : Decomp x d u p t) : Disj x d so u := by
  intro v f2 f3 hh
  obtain ⟨hso, hu⟩ := hh
  obtain ⟨f', f'', bp, bt, hp, ht, hb⟩ := hd v f3 true hu
  have : bp = true ∧ bt = true := by cases bp <;> cases bt <;> simp at hb ⊢
  obtain ⟨rfl, rfl⟩ := this
  exact h1 v f2 f' ⟨hso, hp⟩

theorem Inter_true_right {so t : Schema} (ht : ∀ v f bb, valid x d f t v = some bb → bb = true) : Inter x d so so t := by
  intro v f2 f3 ba bb h2 h3
  rw [ht v f3 bb h3]
  exact ⟨f2, by simpa using h2⟩

theorem allOf_decomp (y : Schema) (r : List Schema) : Decomp x d (.allOf (y :: r)) y (.allOf r) := by
  intro v f bb h
  obtain ⟨f', rfl⟩ := ne_zero_of_valid h
  rw [valid_allOf] at h
  simp only [allV] at h
  obtain ⟨p, q, hp, hq, rfl⟩ := and3_some h
  exact ⟨f', f' + 1, p, q, hp, by rw [valid_allOf]; exact hq, rfl⟩

theorem foldMerge_spec {rec : Schema → Schema → MR} (hrec : RecOK x d rec) :
    ∀ (xs : List Schema) (so : Schema), Spec x d (foldMerge rec so xs) so (.allOf xs) := by
  intro xs
  induction xs with
  | nil =>
    intro so
    simp only [foldMerge]
    apply Inter_true_right
    intro v f bb h
    obtain ⟨f', rfl⟩ := ne_zero_of_valid h
    rw [valid_allOf] at h
    simpa [allV] using h.symm
  | cons y r ih =>
    intro so
    simp only [foldMerge]
    have hs := hrec so y
    cases hr : rec so y with
    | unsup => trivial
    | never g =>
      cases g with
      | cons _ _ => trivial
      | nil => rw [hr] at hs; exact Disj_first hs (allOf_decomp y r)
    | ok m g =>
      simp only
      apply spec_addGaps
      intro hg
      subst hg
      rw [hr] at hs
      have ih' := ih m
      cases hf : foldMerge rec m r with
      | unsup => trivial
      | never g' =>
        cases g' with
        | cons _ _ => trivial
        | nil => rw [hf] at ih'; exact Disj_chain hs ih' (allOf_decomp y r)
      | ok m' g' =>
        cases g' with
        | cons _ _ => trivial
        | nil => rw [hf] at ih'; exact Inter_chain hs ih' (allOf_decomp y r)

/-! ### `not` -/

/-- transfer of a spec along "every verdict of `u` is a verdict of `t`" -/
theorem Spec_transfer {r : MR} {so t u : Schema}
    (h : ∀ v f bb, valid x d f u v = some bb → ∃ f', valid x d f' t v = some bb) (hs : Spec x d r so t) :
    Spec x d r so u := by
  cases r with
  | unsup => trivial
  | ok m g =>
    cases g with
    | cons _ _ => trivial
    | nil =>
      intro v f2 f3 ba bb h2 h3
      obtain ⟨f', hf'⟩ := h v f3 bb h3
      exact hs v f2 f' ba bb h2 hf'
  | never g =>
    cases g with
    | cons _ _ => trivial
    | nil =>
      intro v f2 f3 hh
      obtain ⟨f', hf'⟩ := h v f3 true hh.2
      exact hs v f2 f' ⟨hh.1, hf'⟩

theorem not_not_verdict (y : Schema) (v : Json) (f : Nat) (bb : Bool)
    (h : valid x d f (.not (.not y)) v = some bb) : ∃ f', valid x d f' y v = some bb := by
  obtain ⟨f1, rfl⟩ := ne_zero_of_valid h
  rw [valid_not] at h
  cases h1 : valid x d f1 (.not y) v with
  | none => rw [h1] at h; simp at h
  | some b1 =>
    rw [h1] at h
    obtain ⟨f2, rfl⟩ := ne_zero_of_valid h1
    rw [valid_not] at h1
    cases h2 : valid x d f2 y v with
    | none => rw [h2] at h1; simp at h1
    | some b2 =>
      rw [h2] at h1
      simp only [Option.map_some, Option.some.injEq] at h h1
      refine ⟨f2, ?_⟩
      rw [h2, ← h, ← h1]
      simp

theorem allV_nots (v : Json) (f : Nat) : ∀ (ys : List Schema) (n : Nat), countV (fun s => valid x d f s v) ys = some n →
    allV (fun s => valid x d (f + 1) s v) (ys.map Schema.not) = some (decide (n = 0)) := by
  intro ys
  induction ys with
  | nil => intro n h; simp only [countV, Option.some.injEq] at h; subst h; rfl
  | cons y r ih =>
    intro n h
    simp only [countV] at h
    cases hy : valid x d f y v with
    | none => rw [hy] at h; simp at h
    | some b =>
      cases hc : countV (fun s => valid x d f s v) r with
      | none => rw [hy, hc] at h; simp at h
      | some k =>
        rw [hy, hc] at h
        simp only [Option.some.injEq] at h
        simp only [List.map_cons, allV]
        rw [valid_not, hy, ih k hc]
        simp only [Option.map_some, and3]
        subst h
        cases b <;> simp

theorem not_anyOf_verdict (ys : List Schema) (v : Json) (f : Nat) (bb : Bool)
    (h : valid x d f (.not (.anyOf ys)) v = some bb) : ∃ f', valid x d f' (.allOf (ys.map Schema.not)) v = some bb := by
  obtain ⟨f1, rfl⟩ := ne_zero_of_valid h
  rw [valid_not] at h
  cases h1 : valid x d f1 (.anyOf ys) v with
  | none => rw [h1] at h; simp at h
  | some b1 =>
    rw [h1] at h
    obtain ⟨f2, rfl⟩ := ne_zero_of_valid h1
    rw [valid_anyOf] at h1
    cases hc : countV (fun s => valid x d f2 s v) ys with
    | none => rw [hc] at h1; simp at h1
    | some n =>
      rw [hc] at h1
      simp only [Option.map_some, Option.some.injEq] at h h1
      refine ⟨f2 + 2, ?_⟩
      rw [valid_allOf, allV_nots v f2 ys n hc, ← h, ← h1]
      congr 1
      cases n <;> simp

/-! #### `not: {required: [r]}` against an object -/

theorem find_setNever_self (ps : List (String × Schema)) (r : String) :
    ∃ k', (setNever ps r).find? (fun p => p.1 == r) = some (k', Schema.never) := by
  unfold setNever
  split
  · rename_i hany
    induction ps with
    | nil => simp at hany
    | cons p rest ih =>
      simp only [List.map_cons, List.find?_cons]
      by_cases hp : (p.1 == r) = true
      · simp only [hp, if_true]
        exact ⟨p.1, by simp [hp]⟩
      · have hp' : (p.1 == r) = false := by simpa using hp
        simp only [hp', Bool.false_eq_true, if_false]
        simp only [List.any_cons, hp', Bool.false_or] at hany
        exact ih hany
  · rename_i hany
    have hnone : ps.find? (fun p => p.1 == r) = none := by
      apply List.find?_eq_none.mpr
      intro p hp hpr
      exact hany (List.any_eq_true.mpr ⟨p, hp, hpr⟩)
    exact ⟨r, by rw [List.find?_append, hnone]; simp⟩

theorem find_map_ne (ps : List (String × Schema)) {r k : String} (hne : k ≠ r) :
    (ps.map (fun p => if p.1 == r then (p.1, Schema.never) else p)).find? (fun p => p.1 == k) =
      ps.find? (fun p => p.1 == k) := by
  induction ps with
  | nil => rfl
  | cons p rest ih =>
    simp only [List.map_cons, List.find?_cons]
    by_cases hp : (p.1 == r) = true
    · have hpr : p.1 = r := by simpa using hp
      have hpk : (p.1 == k) = false := by
        simp only [hpr, beq_eq_false_iff_ne, ne_eq]; exact fun h => hne h.symm
      simp only [hp, if_true, hpk]
      exact ih
    · have hp' : (p.1 == r) = false := by simpa using hp
      simp only [hp', Bool.false_eq_true, if_false]
      by_cases hk : (p.1 == k) = true
      · simp only [hk]
      · have hk' : (p.1 == k) = false := by simpa using hk
        simp only [hk']; exact ih

theorem find_setNever_ne (ps : List (String × Schema)) {r k : String} (hne : k ≠ r) :
    (setNever ps r).find? (fun p => p.1 == k) = ps.find? (fun p => p.1 == k) := by
  unfold setNever
  split
  · exact find_map_ne ps hne
  · rw [List.find?_append]
    have : [(r, Schema.never)].find? (fun p => p.1 == k) = none := by
      apply List.find?_eq_none.mpr
      intro p hp
      simp only [List.mem_singleton] at hp
      subst hp
      simpa using fun h => hne h.symm
    rw [this]; simp

theorem lookup_of_mem {r : String} {w : Json} : ∀ {kvs : List (String × Json)}, (r, w) ∈ kvs →
    (Json.lookup kvs r).isSome = true := by
  intro kvs
  induction kvs with
  | nil => intro h; simp at h
  | cons kv rest ih =>
    intro h
    obtain ⟨k0, w0⟩ := kv
    simp only [Json.lookup]
    split
    · rfl
    · rename_i hne
      simp only [List.mem_cons, Prod.mk.injEq] at h
      rcases h with ⟨rfl, _⟩ | h
      · exact absurd rfl hne
      · exact ih h

theorem lookup_cons_ne {k r : String} {w : Json} {rest : List (String × Json)} (h : k ≠ r) :
    Json.lookup ((k, w) :: rest) r = Json.lookup rest r := by
  simp [Json.lookup, h]

theorem members_setNever (ps : List (String × Schema)) (ad : Additional Schema) (r : String) (f : Nat) :
    ∀ (kvs : List (String × Json)) (q : Bool), membersV (valid x d f) ps ad kvs = some q →
      membersV (valid x d (f + 1)) (setNever ps r) ad kvs = some (q && !(Json.lookup kvs r).isSome) := by
  intro kvs
  induction kvs with
  | nil => intro q h; simp only [membersV, Option.some.injEq] at h; subst h; rfl
  | cons kv rest ih =>
    intro q h
    obtain ⟨k, w⟩ := kv
    rw [membersV_cons] at h ⊢
    obtain ⟨p1, q1, hp1, hq1, rfl⟩ := and3_some h
    rw [ih q1 hq1]
    by_cases hk : k = r
    · subst hk
      obtain ⟨k', hk'⟩ := find_setNever_self ps k
      have : hereV (valid x d (f + 1)) (setNever ps k) ad k w = some false := by
        unfold hereV; rw [hk']; rfl
      rw [this]
      simp [and3, Json.lookup]
    · have : hereV (valid x d (f + 1)) (setNever ps r) ad k w = some p1 := by
        have h1 := hereV_mono (fun s => valid_le x d (Nat.le_succ f) s) ps ad k w hp1
        unfold hereV at h1 ⊢
        rw [find_setNever_ne ps hk]
        exact h1
      rw [this, lookup_cons_ne hk, and3_eq]
      cases p1 <;> cases q1 <;> simp

theorem not_required_spec (ps : List (String × Schema)) (req : List String) (ad : Additional Schema) (r : String) :
    Spec x d (if [r].any (fun r => req.contains r) then MR.never []
              else MR.ok (.object ([r].foldl setNever ps) req ad) [])
      (.object ps req ad) (.not (.object [] [r] .open_)) := by
  split
  · rename_i hreq
    simp only [List.any_cons, List.any_nil, Bool.or_false, List.contains_eq_mem, decide_eq_true_eq] at hreq
    intro v f2 f3 hh
    obtain ⟨h2, h3⟩ := hh
    obtain ⟨f2', rfl⟩ := ne_zero_of_valid h2
    obtain ⟨kvs, rfl, hpres, _⟩ := obj_valid_parts h2
    obtain ⟨f3', rfl⟩ := ne_zero_of_valid h3
    rw [valid_not] at h3
    cases hn : valid x d f3' (.object [] [r] .open_) (.obj kvs) with
    | none => rw [hn] at h3; simp at h3
    | some b =>
      rw [hn] at h3
      simp only [Option.map_some, Option.some.injEq, Bool.not_eq_true'] at h3
      subst h3
      obtain ⟨f4, rfl⟩ := ne_zero_of_valid hn
      rw [valid_object] at hn
      simp only [membersV_nil_open, and3, List.all_cons, List.all_nil, Bool.and_true, Option.some.injEq] at hn
      obtain ⟨w, hw⟩ := hpres r hreq
      have : (Json.lookup kvs r).isSome = true := lookup_of_mem hw
      rw [this] at hn
      simp at hn
  · intro v f2 f3 ba bb h2 h3
    obtain ⟨f2', rfl⟩ := ne_zero_of_valid h2
    obtain ⟨f3', rfl⟩ := ne_zero_of_valid h3
    rw [valid_not] at h3
    cases hn : valid x d f3' (.object [] [r] .open_) v with
    | none => rw [hn] at h3; simp at h3
    | some b =>
      rw [hn] at h3
      simp only [Option.map_some, Option.some.injEq] at h3
      subst h3
      obtain ⟨f4, rfl⟩ := ne_zero_of_valid hn
      rw [valid_object] at h2 hn
      simp only [List.foldl_cons, List.foldl_nil]
      cases v with
      | obj kvs =>
        simp only at h2 hn
        simp only [membersV_nil_open, and3, List.all_cons, List.all_nil, Bool.and_true, Option.some.injEq] at hn
        obtain ⟨p, q, hp, hq, rfl⟩ := and3_some h2
        refine ⟨f2' + 2, ?_⟩
        rw [valid_object]
        simp only
        rw [members_setNever ps ad r f2' kvs q hq, and3_eq]
        simp only [Option.some.injEq] at hp
        rw [← hp, ← hn]
        generalize (req.all fun r => (Json.lookup kvs r).isSome) = c1
        cases c1 <;> cases q <;> simp
      | _ =>
        simp only [Option.some.injEq] at h2
        subst h2
        exact ⟨1, rfl⟩

theorem isOpen_eq {ad : Additional Schema} (h : isOpen ad = true) : ad = .open_ := by
  cases ad <;> simp [isOpen] at h ⊢

theorem mergeNot_spec {rec : Schema → Schema → MR} (hrec : RecOK x d rec) (so n : Schema) :
    Spec x d (mergeNot rec so n) so (.not n) := by
  unfold mergeNot
  split
  · -- not never
    apply Inter_true_right
    intro v f bb h
    obtain ⟨f', rfl⟩ := ne_zero_of_valid h
    rw [valid_not] at h
    cases f' with
    | zero => simp [valid_zero] at h
    | succ f'' => rw [valid_never] at h; simpa using h.symm
  · rename_i y
    exact Spec_transfer (not_not_verdict y) (hrec so y)
  · rename_i ys
    split
    · trivial
    · exact Spec_transfer (not_anyOf_verdict ys) (hrec so _)
  · trivial
  · rename_i nps nreq nad
    split
    · rename_i ps req ad
      split
      · trivial
      simp only
      by_cases hc : (nps.isEmpty && isOpen nad && nreq.length == 1) = true
      · simp only [hc, if_true]
        simp only [Bool.and_eq_true, List.isEmpty_iff, beq_iff_eq] at hc
        obtain ⟨⟨rfl, hopen⟩, hlen⟩ := hc
        rw [isOpen_eq hopen]
        match nreq, hlen with
        | [r], _ => exact not_required_spec ps req ad r
      · simp only [hc]
        split <;> trivial
    · trivial
  · trivial

end TypifyModel.Merge

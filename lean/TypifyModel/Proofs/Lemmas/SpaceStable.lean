import TypifyModel.Proofs.Lemmas.SpaceInv
/-! C16 helpers for `readd`: converting a schema a second time, in any state that still answers the
    index lookups of the first conversion the same way (`Sim`), yields the same entry and changes
    nothing — by-name reuse for named types, `type_to_id` reuse for unnamed ones, determinism of
    `convertLite`.  Stated for every such later state (the architecture of DESIGN.md Appendix C). -/
set_option autoImplicit false
namespace TypifyModel.Space
open TypifyModel.Names (Str)

/-- `τ` answers what the conversion asks at least as `σ` does: bindings of the two indexes are kept,
    `ref_to_id` is the same, and below `σ.nextId` the "has an intrinsic default" test agrees -/
structure Sim (σ τ : State) : Prop where
  name : ∀ n i, alookup σ.nameToId n = some i → alookup τ.nameToId n = some i
  type : ∀ d i, alookup σ.typeToId d = some i → alookup τ.typeToId d = some i
  ref : τ.refToId = σ.refToId
  intr : ∀ i, i < σ.nextId → hasIntrinsicDefault (τ.entry i) = hasIntrinsicDefault (σ.entry i)

theorem Sim.refl (σ : State) : Sim σ σ := ⟨fun _ _ h => h, fun _ _ h => h, rfl, fun _ _ => rfl⟩

theorem Sim.of_ext {σ1 σ2 τ : State} (hx : Ext σ1 σ2) (hs : Sim σ2 τ) : Sim σ1 τ where
  name := fun n i h => hs.name n i (hx.name n i h)
  type := fun d i h => hs.type d i (hx.type d i h)
  ref := by rw [hs.ref, hx.ref]
  intr := fun i hi => by rw [hs.intr i (Nat.lt_of_lt_of_le hi hx.next), hx.entry i hi]

theorem assignType_of_ref {e : Details} {t : Nat} (τ : State) (h : e.refTarget? = some t) :
    assignType e τ = (t, τ) := by
  unfold assignType; rw [h]

theorem assignType_of_nameHit {e : Details} {n : Str} {i : Nat} {τ : State} (hr : e.refTarget? = none)
    (hn : e.name? = some n) (h : alookup τ.nameToId n = some i) : assignType e τ = (i, τ) := by
  unfold assignType; rw [hr]; dsimp only; rw [hn]; dsimp only; rw [h]

theorem assignType_of_typeHit {e : Details} {i : Nat} {τ : State} (hr : e.refTarget? = none)
    (hn : e.name? = none) (h : alookup τ.typeToId e = some i) : assignType e τ = (i, τ) := by
  unfold assignType; rw [hr]; dsimp only; rw [hn]; dsimp only; rw [h]

/-- once `assign_type` has answered, it answers the same id in every later state and allocates nothing -/
theorem assignType_stable {e : Details} {σ τ : State} (hs : Sim (assignType e σ).2 τ) :
    assignType e τ = ((assignType e σ).1, τ) := by
  have hc := assignType_cases e σ
  generalize assignType e σ = p at hc hs ⊢
  cases hc with
  | ref t ht => exact assignType_of_ref τ ht
  | nameHit n i hr hn hi => exact assignType_of_nameHit hr hn (hs.name n i hi)
  | nameNew n hr hn _ =>
    exact assignType_of_nameHit hr hn (hs.name n _ (alookup_cons_self _ _ _))
  | typeHit i hr hn hi => exact assignType_of_typeHit hr hn (hs.type e i hi)
  | typeNew hr hn _ =>
    exact assignType_of_typeHit hr hn (hs.type e _ (alookup_cons_self _ _ _))

theorem propResult_stable {req : List Str} {pn : Str} {i : Nat} {σ σ' τ : State} {fld : Field}
    (h : propResult req pn (i, σ) = .ok (fld, σ')) (hlt : i < σ.nextId) (hs : Sim σ' τ) :
    propResult req pn (i, τ) = .ok (fld, τ) := by
  have hx := propResult_ext h
  have hsσ : Sim σ τ := Sim.of_ext hx hs
  unfold propResult at h ⊢
  dsimp only at h ⊢
  split at h
  · rename_i hreq
    simp only [R.ok.injEq, Prod.mk.injEq] at h
    simp only [hreq, if_true, R.ok.injEq, Prod.mk.injEq]
    exact ⟨h.1, trivial⟩
  · rename_i hreq
    simp only [hreq, if_false]
    rw [hsσ.intr i hlt]
    split at h
    · rename_i hin
      simp only [R.ok.injEq, Prod.mk.injEq] at h
      simp only [hin, if_true, R.ok.injEq, Prod.mk.injEq]
      exact ⟨h.1, trivial⟩
    · rename_i hin
      simp only [R.ok.injEq, Prod.mk.injEq] at h
      simp only [hin]
      have hst : idToOption i τ = ((idToOption i σ).1, τ) := by
        unfold idToOption
        apply assignType_stable
        have : (assignType (Details.option i) σ).2 = σ' := h.2
        rw [this]; exact hs
      rw [hst]
      simp only [Bool.false_eq_true, if_false]
      rw [← h.1]

theorem structProperty_stable {rec : Name → Sch → State → R (Details × State)}
    (hinv : ∀ n s σ e σ', rec n s σ = .ok (e, σ') → Inv σ → Inv σ' ∧ ∀ c ∈ e.ids, c < σ'.nextId)
    (hrec : ∀ n s σ e σ', rec n s σ = .ok (e, σ') → Inv σ → ∀ τ, Sim σ' τ → rec n s τ = .ok (e, τ))
    {base : Option Str} {req : List Str} {pn : Str} {s : Sch} {σ σ' : State} {fld : Field}
    (h : structProperty rec base req pn s σ = .ok (fld, σ')) (hi : Inv σ) (τ : State) (hs : Sim σ' τ) :
    structProperty rec base req pn s τ = .ok (fld, τ) := by
  unfold structProperty at h ⊢
  split at h
  · cases h
  · rename_i e σ1 hr
    obtain ⟨i1, hids⟩ := hinv _ _ _ _ _ hr hi
    obtain ⟨_, hlt⟩ := assignType_inv i1 hids
    have hx2 := propResult_ext h
    have hs2 : Sim (assignType e σ1).2 τ := Sim.of_ext hx2 hs
    have hs1 : Sim σ1 τ := Sim.of_ext (assignType_ext e σ1) hs2
    rw [hrec _ _ _ _ _ hr hi τ hs1]
    dsimp only
    rw [assignType_stable hs2]
    exact propResult_stable h hlt hs

theorem structMembers_stable {rec : Name → Sch → State → R (Details × State)}
    (hext : ∀ n s σ e σ', rec n s σ = .ok (e, σ') → Ext σ σ')
    (hinv : ∀ n s σ e σ', rec n s σ = .ok (e, σ') → Inv σ → Inv σ' ∧ ∀ c ∈ e.ids, c < σ'.nextId)
    (hrec : ∀ n s σ e σ', rec n s σ = .ok (e, σ') → Inv σ → ∀ τ, Sim σ' τ → rec n s τ = .ok (e, τ))
    {base : Option Str} {req : List Str} : ∀ (ps : List (Str × Sch)) (σ σ' : State) (fs : List Field),
    structMembers rec base req ps σ = .ok (fs, σ') → Inv σ → ∀ τ, Sim σ' τ →
    structMembers rec base req ps τ = .ok (fs, τ) := by
  intro ps
  induction ps with
  | nil =>
    intro σ σ' fs h _ τ _
    simp only [structMembers, R.ok.injEq, Prod.mk.injEq] at h ⊢
    exact ⟨h.1, trivial⟩
  | cons hd tl ih =>
    obtain ⟨pn, s⟩ := hd
    intro σ σ' fs h hi τ hs
    simp only [structMembers] at h ⊢
    split at h
    · cases h
    · rename_i fld σ1 hp
      split at h
      · cases h
      · rename_i fs' σ2 ht
        simp only [R.ok.injEq, Prod.mk.injEq] at h
        obtain ⟨rfl, rfl⟩ := h
        have i1 := (structProperty_inv hinv hp hi).1
        have hx := structMembers_ext hext _ _ _ _ ht
        rw [structProperty_stable hinv hrec hp hi τ (Sim.of_ext hx hs)]
        dsimp only
        rw [ih _ _ _ ht i1 τ hs]

/-- **determinism / idempotence of the conversion**: in every later state `τ` that keeps the index
    bindings of the state `σ'` the first conversion ended in, converting the same schema under the
    same name yields the same entry and leaves `τ` as it is -/
theorem convertLite_stable : ∀ (f : Nat) (n : Name) (s : Sch) (σ σ' : State) (e : Details),
    convertLite f n s σ = .ok (e, σ') → Inv σ → ∀ τ, Sim σ' τ → convertLite f n s τ = .ok (e, τ) := by
  intro f
  induction f with
  | zero => intro n s σ σ' e h; simp [convertLite] at h
  | succ f ih =>
    intro n s σ σ' e h hi τ hs
    have ih' : ∀ n s σ e σ', convertLite f n s σ = .ok (e, σ') → Inv σ → ∀ τ, Sim σ' τ →
        convertLite f n s τ = .ok (e, τ) := fun n s σ e σ' h => ih n s σ σ' e h
    have hext : ∀ n s σ e σ', convertLite f n s σ = .ok (e, σ') → Ext σ σ' :=
      fun n s σ e σ' h => convertLite_ext f n s σ σ' e h
    have hinv : ∀ n s σ e σ', convertLite f n s σ = .ok (e, σ') → Inv σ →
        Inv σ' ∧ ∀ c ∈ e.ids, c < σ'.nextId := fun n s σ e σ' h => convertLite_inv f n s σ σ' e h
    cases s with
    | str t =>
      simp only [convertLite, R.ok.injEq, Prod.mk.injEq] at h ⊢; exact ⟨h.1, trivial⟩
    | int t =>
      simp only [convertLite, R.ok.injEq, Prod.mk.injEq] at h ⊢; exact ⟨h.1, trivial⟩
    | bool t =>
      simp only [convertLite, R.ok.injEq, Prod.mk.injEq] at h ⊢; exact ⟨h.1, trivial⟩
    | ref t k =>
      simp only [convertLite] at h ⊢
      split at h
      · cases h
      · rename_i id hk
        simp only [R.ok.injEq, Prod.mk.injEq] at h
        obtain ⟨rfl, rfl⟩ := h
        rw [hs.ref, hk]
    | arr t item =>
      simp only [convertLite] at h ⊢
      split at h
      · cases h
      · rename_i e1 σ1 h1
        simp only [R.ok.injEq, Prod.mk.injEq] at h
        obtain ⟨rfl, rfl⟩ := h
        rw [ih' _ _ _ _ _ h1 hi τ (Sim.of_ext (assignType_ext _ _) hs)]
        dsimp only
        rw [assignType_stable hs]
    | nullable inner =>
      simp only [convertLite] at h ⊢
      split at h
      · cases h
      · rename_i e1 σ1 h1
        simp only [R.ok.injEq, Prod.mk.injEq] at h
        obtain ⟨rfl, rfl⟩ := h
        rw [ih' _ _ _ _ _ h1 hi τ (Sim.of_ext (assignType_ext _ _) hs)]
        dsimp only
        rw [assignType_stable hs]
    | obj t props req closed =>
      simp only [convertLite] at h ⊢
      split at h
      · cases h
      · rename_i fs σ1 h1
        split at h
        · cases h
        · rename_i nm hnm
          simp only [R.ok.injEq, Prod.mk.injEq] at h
          obtain ⟨rfl, rfl⟩ := h
          rw [structMembers_stable hext hinv ih' _ _ _ _ h1 hi τ hs]
    | enumStr t vals =>
      simp only [convertLite] at h ⊢
      split at h
      · cases h
      · rename_i hne
        split at h
        · cases h
        · rename_i idents hv
          split at h
          · cases h
          · rename_i nm hnm
            simp only [R.ok.injEq, Prod.mk.injEq] at h
            obtain ⟨rfl, rfl⟩ := h
            simp only [hne, if_false]

/-- the finalize loop keeps what `Sim` looks at -/
theorem sim_of_finalized {σ σ' : State} (hs : SameIdx σ σ')
    (he : ∀ i, σ'.entry i = σ.entry i ∨ σ'.entry i = (σ.entry i).map finalizeEntry) : Sim σ σ' where
  name := fun n i h => by rw [hs.name]; exact h
  type := fun d i h => by rw [hs.type]; exact h
  ref := hs.ref
  intr := fun i _ => by
    rcases he i with h | h
    · rw [h]
    · rw [h]
      cases hσ : σ.entry i with
      | none => rfl
      | some e => cases e <;> rfl

end TypifyModel.Space

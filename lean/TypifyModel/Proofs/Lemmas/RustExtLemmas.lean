import TypifyModel.Model.RustExt
/-! Helper lemmas for C13: `splitSep` finds the first `::`; `admitCrate` is the policy table. -/
namespace TypifyModel.RustExt

/-- the text starts with `::` -/
def startsSep : List Char → Bool
  | ':' :: ':' :: _ => true
  | _ => false

theorem splitSep_append : ∀ {s a b : List Char}, splitSep s = some (a, b) → s = a ++ b := by
  intro s
  fun_induction splitSep s with
  | case1 => intro a b h; cases h
  | case2 r => intro a b h; cases h; rfl
  | case3 c r hne ih =>
    intro a b h
    cases hr : splitSep r with
    | none => simp [hr] at h
    | some p =>
      obtain ⟨a', b'⟩ := p
      simp [hr] at h
      obtain ⟨rfl, rfl⟩ := h
      simp [ih hr]

theorem splitSep_starts : ∀ {s a b : List Char}, splitSep s = some (a, b) → startsSep b = true := by
  intro s
  fun_induction splitSep s with
  | case1 => intro a b h; cases h
  | case2 r => intro a b h; cases h; rfl
  | case3 c r hne ih =>
    intro a b h
    cases hr : splitSep r with
    | none => simp [hr] at h
    | some p =>
      obtain ⟨a', b'⟩ := p
      simp [hr] at h
      obtain ⟨_, rfl⟩ := h
      exact ih hr

/-- `find` returns the first occurrence: no proper suffix of the prefix (followed by the rest)
    starts with `::` -/
theorem splitSep_first : ∀ {s a b : List Char}, splitSep s = some (a, b) →
    ∀ a1 a2, a = a1 ++ a2 → a2 ≠ [] → startsSep (a2 ++ b) = false := by
  intro s
  fun_induction splitSep s with
  | case1 => intro a b h; cases h
  | case2 r => intro a b h; cases h; intro a1 a2 e; simp at e; simp [e.2]
  | case3 c r hne ih =>
    intro a b h
    cases hr : splitSep r with
    | none => simp [hr] at h
    | some p =>
      obtain ⟨a', b'⟩ := p
      simp [hr] at h
      obtain ⟨rfl, rfl⟩ := h
      intro a1 a2 e hne2
      cases a1 with
      | nil =>
        simp at e; subst e
        have := splitSep_append hr
        simp only [List.cons_append, ← this]
        cases r with
        | nil => simp [startsSep]
        | cons d r' =>
          unfold startsSep
          split
          · rename_i heq
            simp at heq
            obtain ⟨rfl, rfl, rfl⟩ := heq
            exact (hne _ rfl rfl).elim
          · rfl
      | cons x a1' =>
        simp at e
        exact ih hr a1' a2 e.2 hne2

theorem splitSep_none : ∀ {s : List Char}, splitSep s = none →
    ∀ a b, s = a ++ b → startsSep b = false := by
  intro s
  fun_induction splitSep s with
  | case1 => intro _ a b e; simp at e; simp [e.2, startsSep]
  | case2 r => intro h; cases h
  | case3 c r hne ih =>
    intro h a b e
    have hr : splitSep r = none := by
      cases hr : splitSep r with
      | none => rfl
      | some p => simp [hr] at h
    cases a with
    | nil =>
      simp at e; subst e
      unfold startsSep
      split
      · rename_i heq; simp at heq; obtain ⟨rfl, rfl⟩ := heq; exact (hne _ rfl rfl).elim
      · rfl
    | cons x a' =>
      simp at e
      exact ih hr a' b e.2

/-- the policy table of `admitCrate` -/
theorem admitCrate_isSome (cfg : Cfg) (crate : String) (req : Semver.Req) :
    (admitCrate cfg crate req).isSome = true ↔
      (∃ spec, cfg.lookup crate = some spec ∧
        (spec.vers = .any ∨ ∃ v, spec.vers = .version v ∧ Semver.matchesReq req v = true))
      ∨ (cfg.lookup crate = none ∧ cfg.unknown = .allow) := by
  unfold admitCrate
  cases hl : cfg.lookup crate with
  | some spec =>
    cases hv : spec.vers with
    | any => simp [hv]
    | never => simp [hv]
    | version v =>
      by_cases hm : Semver.matchesReq req v = true <;> simp [hv, hm]
  | none =>
    cases hu : cfg.unknown <;> simp

theorem admitCrate_spec {cfg : Cfg} {crate : String} {req : Semver.Req} {s : Option CrateSpec} :
    admitCrate cfg crate req = some s → s = cfg.lookup crate := by
  unfold admitCrate
  cases hl : cfg.lookup crate with
  | some spec =>
    cases hv : spec.vers with
    | any => simp [hv]; intro e; exact e.symm
    | never => simp [hv]
    | version v =>
      by_cases hm : Semver.matchesReq req v = true <;> simp [hv, hm]
      intro e; exact e.symm
  | none =>
    cases hu : cfg.unknown <;> simp
    intro e; exact e.symm

end TypifyModel.RustExt

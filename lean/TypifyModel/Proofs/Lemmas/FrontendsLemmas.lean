import TypifyModel.Model.Frontends
/-! Helper lemmas for C15: `splitFirst`, ASCII character classes, the sorted association list
    `mapInsert` (lookup, commutation of inserts at distinct keys), folds over permutations,
    `with_derive`. -/
namespace TypifyModel.Frontends

/-! ### `splitFirst` -/

theorem splitFirst_append {d : Char} {a b : List Char} (h : d ∉ a) :
    splitFirst d (a ++ d :: b) = some (a, b) := by
  induction a with
  | nil => simp [splitFirst]
  | cons c t ih =>
    have hc : c ≠ d := fun e => h (by simp [e])
    have ht : d ∉ t := fun m => h (by simp [m])
    simp only [List.cons_append, splitFirst, if_neg hc, ih ht]

theorem splitFirst_none {d : Char} {s : List Char} (h : d ∉ s) : splitFirst d s = none := by
  induction s with
  | nil => rfl
  | cons c t ih =>
    have hc : c ≠ d := fun e => h (by simp [e])
    have ht : d ∉ t := fun m => h (by simp [m])
    simp only [splitFirst, if_neg hc, ih ht]

theorem splitFirst_some {d : Char} {s a b : List Char} (h : splitFirst d s = some (a, b)) :
    s = a ++ d :: b ∧ d ∉ a := by
  induction s generalizing a b with
  | nil => simp [splitFirst] at h
  | cons c t ih =>
    unfold splitFirst at h
    by_cases hc : c = d
    · rw [if_pos hc] at h
      simp only [Option.some.injEq, Prod.mk.injEq] at h
      obtain ⟨rfl, rfl⟩ := h
      simp [hc]
    · rw [if_neg hc] at h
      cases hr : splitFirst d t with
      | none => rw [hr] at h; simp at h
      | some p =>
        obtain ⟨a', b'⟩ := p
        rw [hr] at h
        simp only [Option.some.injEq, Prod.mk.injEq] at h
        obtain ⟨rfl, rfl⟩ := h
        obtain ⟨e, hn⟩ := ih hr
        refine ⟨by rw [e]; rfl, ?_⟩
        intro m
        rcases List.mem_cons.mp m with m | m
        · exact hc m.symm
        · exact hn m

theorem splitFirst_eq_none_iff {d : Char} {s : List Char} : splitFirst d s = none ↔ d ∉ s := by
  constructor
  · intro h m
    induction s with
    | nil => simp at m
    | cons c t ih =>
      unfold splitFirst at h
      by_cases hc : c = d
      · rw [if_pos hc] at h; simp at h
      · rw [if_neg hc] at h
        cases hr : splitFirst d t with
        | some p => rw [hr] at h; simp at h
        | none =>
          rcases List.mem_cons.mp m with m | m
          · exact hc m.symm
          · exact ih hr m
  · exact splitFirst_none

/-! ### ASCII classes -/

theorem isAlpha_ascii {c : Char} (h : c.isAlpha = true) : c.val < 128 := by
  simp only [Char.isAlpha, Char.isUpper, Char.isLower, Bool.or_eq_true, Bool.and_eq_true,
    decide_eq_true_eq] at h
  rw [UInt32.lt_iff_toNat_lt]
  simp only [UInt32.le_iff_toNat_le] at h
  have e1 : 'A'.val.toNat = 65 := rfl
  have e2 : 'Z'.val.toNat = 90 := rfl
  have e3 : 'a'.val.toNat = 97 := rfl
  have e4 : 'z'.val.toNat = 122 := rfl
  have e5 : (128 : UInt32).toNat = 128 := rfl
  omega

theorem isDigit_ascii {c : Char} (h : c.isDigit = true) : c.val < 128 := by
  simp only [Char.isDigit, Bool.and_eq_true, decide_eq_true_eq] at h
  rw [UInt32.lt_iff_toNat_lt]
  simp only [UInt32.le_iff_toNat_le] at h
  have e1 : '0'.val.toNat = 48 := rfl
  have e2 : '9'.val.toNat = 57 := rfl
  have e5 : (128 : UInt32).toNat = 128 := rfl
  omega

/-- on an ASCII letter or digit every `CharSem` says "alphanumeric" -/
theorem CharSem.alnum_of_ascii (cs : CharSem) {c : Char} (h : c.isAlphanum = true) :
    cs.isAlphanumeric c = true := by
  simp only [Char.isAlphanum, Bool.or_eq_true] at h
  simp only [CharSem.isAlphanumeric, Bool.or_eq_true]
  rcases h with h | h
  · left; rw [cs.alpha_ascii c (isAlpha_ascii h)]; exact h
  · right; rw [cs.num_ascii c (isDigit_ascii h)]; exact h

/-- ASCII letters are alphabetic, ASCII digits are not (what made `is_alphabetic` reject `base64`) -/
theorem CharSem.digit_not_alphabetic (cs : CharSem) {c : Char} (h : c.isDigit = true) :
    cs.isAlphabetic c = false := by
  rw [cs.alpha_ascii c (isDigit_ascii h)]
  simp only [Char.isDigit, Bool.and_eq_true, decide_eq_true_eq] at h
  simp only [Char.isAlpha, Char.isUpper, Char.isLower, Bool.or_eq_false_iff, Bool.and_eq_false_iff,
    decide_eq_false_iff_not]
  simp only [UInt32.le_iff_toNat_le] at h ⊢
  have e1 : 'A'.val.toNat = 65 := rfl
  have e3 : 'a'.val.toNat = 97 := rfl
  have e6 : '0'.val.toNat = 48 := rfl
  have e7 : '9'.val.toNat = 57 := rfl
  omega

/-! ### `mapInsert` / `mapLookup` -/

section Map
variable {β : Type}

theorem cmp_eq_iff {a b : String} : compare a b = .eq ↔ a = b :=
  ⟨Std.LawfulEqOrd.eq_of_compare, fun h => h ▸ Std.ReflOrd.compare_self⟩

theorem cmp_lt_ne {a b : String} (h : compare a b = .lt) : a ≠ b := by
  intro e; rw [cmp_eq_iff.mpr e] at h; cases h

theorem cmp_gt_ne {a b : String} (h : compare a b = .gt) : a ≠ b := by
  intro e; rw [cmp_eq_iff.mpr e] at h; cases h

theorem cmp_swap_lt {a b : String} (h : compare a b = .lt) : compare b a = .gt := by
  rw [Std.OrientedOrd.eq_swap (a := b) (b := a), h]; rfl

theorem cmp_swap_gt {a b : String} (h : compare a b = .gt) : compare b a = .lt := by
  rw [Std.OrientedOrd.eq_swap (a := b) (b := a), h]; rfl

theorem cmp_lt_trans {a b c : String} (h1 : compare a b = .lt) (h2 : compare b c = .lt) :
    compare a c = .lt := Std.TransCmp.lt_trans h1 h2

theorem cmp_gt_trans {a b c : String} (h1 : compare a b = .gt) (h2 : compare b c = .gt) :
    compare a c = .gt := cmp_swap_lt (cmp_lt_trans (cmp_swap_gt h2) (cmp_swap_gt h1))

/-- the inserted key is found, every other key is unaffected — for any list, sorted or not -/
theorem mapLookup_insert (k k' : String) (v : β) (m : SMap β) :
    mapLookup k (mapInsert k' v m) = if k = k' then some v else mapLookup k m := by
  induction m with
  | nil => simp [mapInsert, mapLookup]
  | cons hd t ih =>
    obtain ⟨k₀, v₀⟩ := hd
    unfold mapInsert
    cases hc : compare k' k₀ with
    | lt => simp only [mapLookup]
    | eq =>
      have e : k' = k₀ := cmp_eq_iff.mp hc
      subst e
      simp only [mapLookup]
      by_cases hk : k = k' <;> simp [hk]
    | gt =>
      have hne : k' ≠ k₀ := cmp_gt_ne hc
      simp only [mapLookup, ih]
      by_cases hk : k = k'
      · subst hk; simp [hne]
      · simp [hk]

theorem mapInsert_comm_lt {k₁ k₂ : String} (h : compare k₁ k₂ = .lt) (v₁ v₂ : β) (m : SMap β) :
    mapInsert k₁ v₁ (mapInsert k₂ v₂ m) = mapInsert k₂ v₂ (mapInsert k₁ v₁ m) := by
  have h' : compare k₂ k₁ = .gt := cmp_swap_lt h
  induction m with
  | nil => simp only [mapInsert, h, h']
  | cons hd t ih =>
    obtain ⟨k₀, v₀⟩ := hd
    cases h1 : compare k₁ k₀ with
    | lt =>
      cases h2 : compare k₂ k₀ with
      | lt => simp only [mapInsert, h1, h2, h, h']
      | eq => simp only [mapInsert, h1, h2, h, h']
      | gt => simp only [mapInsert, h1, h2, h']
    | eq =>
      have e : k₁ = k₀ := cmp_eq_iff.mp h1
      subst e
      simp only [mapInsert, h1, h']
    | gt =>
      have h2 : compare k₂ k₀ = .gt := cmp_gt_trans h' h1
      simp only [mapInsert, h1, h2, ih]

/-- inserts at distinct keys commute — for any list, sorted or not -/
theorem mapInsert_comm {k₁ k₂ : String} (hne : k₁ ≠ k₂) (v₁ v₂ : β) (m : SMap β) :
    mapInsert k₁ v₁ (mapInsert k₂ v₂ m) = mapInsert k₂ v₂ (mapInsert k₁ v₁ m) := by
  cases h : compare k₁ k₂ with
  | eq => exact absurd (cmp_eq_iff.mp h) hne
  | lt => exact mapInsert_comm_lt h v₁ v₂ m
  | gt => exact (mapInsert_comm_lt (cmp_swap_gt h) v₂ v₁ m).symm

/-- entries of a list with distinct keys are determined by their key -/
theorem eq_of_key_eq {γ : Type} (kf : γ → String) {l : List γ} (hn : (l.map kf).Nodup)
    {x y : γ} (hx : x ∈ l) (hy : y ∈ l) (h : kf x = kf y) : x = y := by
  induction l with
  | nil => simp at hx
  | cons a t ih =>
    simp only [List.map_cons, List.nodup_cons, List.mem_map, not_exists, not_and] at hn
    rcases List.mem_cons.mp hx with ex | mx <;> rcases List.mem_cons.mp hy with ey | my
    · rw [ex, ey]
    · subst ex; exact absurd h.symm (hn.1 y my)
    · subst ey; exact absurd h (hn.1 x mx)
    · exact ih hn.2 mx my

/-- folding inserts over a list with distinct keys does not depend on the order of the list:
    this is what makes iterating a `HashMap` harmless -/
theorem foldl_insert_perm {γ : Type} (kf : γ → String) (vf : γ → β) {l₁ l₂ : List γ}
    (hp : l₁.Perm l₂) (hn : (l₁.map kf).Nodup) (m : SMap β) :
    l₁.foldl (fun m e => mapInsert (kf e) (vf e) m) m = l₂.foldl (fun m e => mapInsert (kf e) (vf e) m) m := by
  refine List.Perm.foldl_eq' hp ?_ m
  intro x hx y hy z
  by_cases h : kf x = kf y
  · rw [eq_of_key_eq kf hn hx hy h]
  · exact (mapInsert_comm h (vf x) (vf y) z).symm

/-- "the last entry with that key wins" -/
def lastWith {γ : Type} (kf : γ → String) (vf : γ → β) (n : String) (l : List γ) (init : Option β) :
    Option β :=
  l.foldl (fun acc e => if n = kf e then some (vf e) else acc) init

theorem mapLookup_foldl_insert {γ : Type} (kf : γ → String) (vf : γ → β) (n : String) (l : List γ)
    (m : SMap β) :
    mapLookup n (l.foldl (fun m e => mapInsert (kf e) (vf e) m) m) = lastWith kf vf n l (mapLookup n m) := by
  induction l generalizing m with
  | nil => rfl
  | cons e t ih =>
    simp only [List.foldl_cons, lastWith]
    rw [ih, mapLookup_insert]
    rfl

end Map

/-! ### `with_derive` folds -/

/-- the derive list after `with_derive` of each element of `l`, starting from `ds` -/
def derivesFold (l : List String) (ds : List String) : List String :=
  l.foldl (fun ds d => if ds.contains d then ds else ds ++ [d]) ds

theorem withDerive_eq (s : Settings) (d : String) :
    s.withDerive d = { s with extraDerives := if s.extraDerives.contains d then s.extraDerives else s.extraDerives ++ [d] } := by
  unfold Settings.withDerive
  split <;> rfl

theorem foldl_withDerive {γ : Type} (f : γ → String) (l : List γ) (s : Settings) :
    l.foldl (fun s d => s.withDerive (f d)) s = { s with extraDerives := derivesFold (l.map f) s.extraDerives } := by
  induction l generalizing s with
  | nil => rfl
  | cons d t ih =>
    rw [List.foldl_cons, ih]
    simp only [withDerive_eq, derivesFold, List.map_cons, List.foldl_cons]

theorem mem_derivesFold (l ds : List String) (d : String) :
    d ∈ derivesFold l ds ↔ d ∈ ds ∨ d ∈ l := by
  induction l generalizing ds with
  | nil => simp [derivesFold]
  | cons x t ih =>
    simp only [derivesFold, List.foldl_cons] at ih ⊢
    rw [ih]
    by_cases hx : x ∈ ds
    · have hc : ds.contains x = true := List.contains_iff_mem.mpr hx
      simp only [hc, if_true, List.mem_cons]
      constructor
      · rintro (h | h)
        · exact Or.inl h
        · exact Or.inr (Or.inr h)
      · rintro (h | h | h)
        · exact Or.inl h
        · exact Or.inl (h ▸ hx)
        · exact Or.inr h
    · have hc : ds.contains x = false := by
        cases h : ds.contains x with
        | false => rfl
        | true => exact absurd (List.contains_iff_mem.mp h) hx
      simp only [hc, Bool.false_eq_true, if_false, List.mem_append, List.mem_cons, List.not_mem_nil, or_false]
      constructor
      · rintro ((h | h) | h)
        · exact Or.inl h
        · exact Or.inr (Or.inl h)
        · exact Or.inr (Or.inr h)
      · rintro (h | h | h)
        · exact Or.inl (Or.inl h)
        · exact Or.inl (Or.inr h)
        · exact Or.inr h

theorem nodup_derivesFold (l ds : List String) (h : ds.Nodup) : (derivesFold l ds).Nodup := by
  induction l generalizing ds with
  | nil => exact h
  | cons x t ih =>
    simp only [derivesFold, List.foldl_cons] at ih ⊢
    apply ih
    by_cases hx : x ∈ ds
    · have hc : ds.contains x = true := List.contains_iff_mem.mpr hx
      simp only [hc, if_true]; exact h
    · have hc : ds.contains x = false := by
        cases h : ds.contains x with
        | false => rfl
        | true => exact absurd (List.contains_iff_mem.mp h) hx
      simp only [hc, Bool.false_eq_true, if_false]
      rw [List.nodup_append]
      refine ⟨h, by simp, ?_⟩
      intro a ha b hb
      simp only [List.mem_singleton] at hb
      subst hb
      exact fun e => hx (e ▸ ha)

/-! ### folds that touch one field -/

theorem foldl_withCrate {γ : Type} (kf : γ → String) (vf : γ → CrateEntry) (l : List γ) (s : Settings) :
    l.foldl (fun s e => s.withCrate (kf e) (vf e).version (vf e).rename) s
      = { s with crates := l.foldl (fun m e => mapInsert (kf e) (vf e) m) s.crates } := by
  induction l generalizing s with
  | nil => rfl
  | cons e t ih => rw [List.foldl_cons, ih]; rfl

theorem foldl_withPatch {γ : Type} (kf : γ → String) (vf : γ → Patch) (l : List γ) (s : Settings) :
    l.foldl (fun s e => s.withPatch (kf e) (vf e)) s
      = { s with patch := l.foldl (fun m e => mapInsert (kf e) (vf e) m) s.patch } := by
  induction l generalizing s with
  | nil => rfl
  | cons e t ih => rw [List.foldl_cons, ih]; rfl

theorem foldl_withReplacement {γ : Type} (kf : γ → String) (vf : γ → Replace) (l : List γ) (s : Settings) :
    l.foldl (fun s e => s.withReplacement (kf e) (vf e).replaceType (vf e).impls) s
      = { s with replace := l.foldl (fun m e => mapInsert (kf e) (vf e) m) s.replace } := by
  induction l generalizing s with
  | nil => rfl
  | cons e t ih => rw [List.foldl_cons, ih]; rfl

theorem foldl_withConversion {γ : Type} (vf : γ → Conversion) (l : List γ) (s : Settings) :
    l.foldl (fun s e => s.withConversion (vf e).schema (vf e).typeName (vf e).impls) s
      = { s with convert := s.convert ++ l.map vf } := by
  induction l generalizing s with
  | nil => simp
  | cons e t ih =>
    rw [List.foldl_cons, ih]
    simp only [Settings.withConversion, List.map_cons, List.append_assoc, List.singleton_append]

/-! ### impl sets -/

def ImplSet.has (s : ImplSet) : Impl → Bool
  | .fromStr => s.fromStr
  | .display => s.display
  | .default => s.default

theorem ImplSet.mem_toList (s : ImplSet) (i : Impl) : i ∈ s.toList ↔ s.has i = true := by
  obtain ⟨a, b, c⟩ := s
  cases i <;> cases a <;> cases b <;> cases c <;> simp [ImplSet.toList, ImplSet.has]

theorem ImplSet.has_set (s : ImplSet) (i j : Impl) (b : Bool) :
    (s.set j b).has i = if i = j then b else s.has i := by
  obtain ⟨x, y, z⟩ := s
  cases i <;> cases j <;> simp [ImplSet.set, ImplSet.has]

theorem ImplSet.has_ofList (l : List Impl) (s : ImplSet) (i : Impl) :
    (l.foldl (fun s j => s.set j true) s).has i = (s.has i || decide (i ∈ l)) := by
  induction l generalizing s with
  | nil => simp
  | cons j t ih =>
    simp only [List.foldl_cons]
    rw [ih, ImplSet.has_set]
    by_cases h : i = j
    · subst h; simp
    · simp [h]

/-! ### `splitLast` -/

theorem splitLast_append {d : Char} {a b : List Char} (h : d ∉ b) :
    splitLast d (a ++ d :: b) = some (a, b) := by
  have hr : (a ++ d :: b).reverse = b.reverse ++ d :: a.reverse := by simp
  have hn : d ∉ b.reverse := fun m => h (List.mem_reverse.mp m)
  simp only [splitLast, hr, splitFirst_append hn, List.reverse_reverse]

theorem splitLast_none {d : Char} {s : List Char} (h : d ∉ s) : splitLast d s = none := by
  have hn : d ∉ s.reverse := fun m => h (List.mem_reverse.mp m)
  simp only [splitLast, splitFirst_none hn]

end TypifyModel.Frontends

import TypifyModel.Proofs.Lemmas.SpaceBasic
/-! C16 helpers: the invariant `Inv` of the type space and its preservation by every layer
    (`assignType`, `convertLite`, `convertRefType`, the batch loop, the finalize loop, one API call),
    and the frame property of one API call. -/
set_option autoImplicit false
namespace TypifyModel.Space
open TypifyModel.Names (Str)

/-- The invariant of the type space.
    * every entry sits below `next_id`, and so does every id an entry mentions;
    * `type_to_id` maps a structure to an id holding exactly that (unnamed) structure;
    * `name_to_id` maps a name to an id holding an entry of that name;
    * `ref_to_id` maps to ids below `next_id` (filled, or pre-reserved by the running batch). -/
structure Inv (σ : State) : Prop where
  entry_lt : ∀ i e, σ.entry i = some e → i < σ.nextId
  child_lt : ∀ i e, σ.entry i = some e → ∀ c ∈ e.ids, c < σ.nextId
  type_ok : ∀ d i, alookup σ.typeToId d = some i → σ.entry i = some d ∧ d.name? = none
  name_ok : ∀ n i, alookup σ.nameToId n = some i → ∃ e, σ.entry i = some e ∧ e.name? = some n
  ref_lt : ∀ k i, alookup σ.refToId k = some i → i < σ.nextId

theorem inv_init' : Inv Space.init where
  entry_lt := fun i e h => by simp [State.entry, Space.init, alookup] at h
  child_lt := fun i e h => by simp [State.entry, Space.init, alookup] at h
  type_ok := fun d i h => by simp [Space.init, alookup] at h
  name_ok := fun n i h => by simp [Space.init, alookup] at h
  ref_lt := fun k i h => by simp [Space.init, alookup] at h

theorem Inv.entry_none {σ : State} (h : Inv σ) {i : Nat} (hi : σ.nextId ≤ i) : σ.entry i = none := by
  cases he : σ.entry i with
  | none => rfl
  | some e => exact absurd (h.entry_lt i e he) (Nat.not_lt.mpr hi)

theorem refTarget_mem_ids {e : Details} {t : Nat} (h : e.refTarget? = some t) : t ∈ e.ids := by
  cases e <;> simp [Details.refTarget?] at h
  subst h; simp [Details.ids]

theorem allocNamed_entry (σ : State) (n : Str) (e : Details) (i : Nat) :
    (allocNamed σ n e).entry i = if σ.nextId = i then some e else σ.entry i := rfl

theorem allocTyped_entry (σ : State) (e : Details) (i : Nat) :
    (allocTyped σ e).entry i = if σ.nextId = i then some e else σ.entry i := rfl

theorem allocNamed_inv {σ : State} {n : Str} {e : Details} (h : Inv σ) (hn : e.name? = some n)
    (hids : ∀ c ∈ e.ids, c < σ.nextId) : Inv (allocNamed σ n e) where
  entry_lt := fun i d hd => by
    rw [allocNamed_entry] at hd
    show i < σ.nextId + 1
    split at hd
    · omega
    · exact Nat.lt_succ_of_lt (h.entry_lt i d hd)
  child_lt := fun i d hd c hc => by
    rw [allocNamed_entry] at hd
    show c < σ.nextId + 1
    split at hd
    · cases hd; exact Nat.lt_succ_of_lt (hids c hc)
    · exact Nat.lt_succ_of_lt (h.child_lt i d hd c hc)
  type_ok := fun d i hd => by
    have := h.type_ok d i hd
    refine ⟨?_, this.2⟩
    rw [allocNamed_entry]
    have hlt := h.entry_lt i d this.1
    have : σ.nextId ≠ i := by omega
    simp [this]; exact (h.type_ok d i hd).1
  name_ok := fun m i hm => by
    change alookup ((n, σ.nextId) :: σ.nameToId) m = some i at hm
    rw [alookup_cons] at hm
    split at hm
    · rename_i hnm
      cases hm
      exact ⟨e, by rw [allocNamed_entry]; simp, by rw [← hnm]; exact hn⟩
    · obtain ⟨d, hd1, hd2⟩ := h.name_ok m i hm
      refine ⟨d, ?_, hd2⟩
      rw [allocNamed_entry]
      have hlt := h.entry_lt i d hd1
      have : σ.nextId ≠ i := by omega
      simp [this]; exact hd1
  ref_lt := fun k i hk => Nat.lt_succ_of_lt (h.ref_lt k i hk)

theorem allocTyped_inv {σ : State} {e : Details} (h : Inv σ) (hn : e.name? = none)
    (hids : ∀ c ∈ e.ids, c < σ.nextId) : Inv (allocTyped σ e) where
  entry_lt := fun i d hd => by
    rw [allocTyped_entry] at hd
    show i < σ.nextId + 1
    split at hd
    · omega
    · exact Nat.lt_succ_of_lt (h.entry_lt i d hd)
  child_lt := fun i d hd c hc => by
    rw [allocTyped_entry] at hd
    show c < σ.nextId + 1
    split at hd
    · cases hd; exact Nat.lt_succ_of_lt (hids c hc)
    · exact Nat.lt_succ_of_lt (h.child_lt i d hd c hc)
  type_ok := fun d i hd => by
    change alookup ((e, σ.nextId) :: σ.typeToId) d = some i at hd
    rw [alookup_cons] at hd
    split at hd
    · rename_i hed
      cases hd
      exact ⟨by rw [allocTyped_entry, ← hed]; simp, by rw [← hed]; exact hn⟩
    · have := h.type_ok d i hd
      refine ⟨?_, this.2⟩
      rw [allocTyped_entry]
      have hlt := h.entry_lt i d this.1
      have : σ.nextId ≠ i := by omega
      simp [this]; exact (h.type_ok d i hd).1
  name_ok := fun m i hm => by
    obtain ⟨d, hd1, hd2⟩ := h.name_ok m i hm
    refine ⟨d, ?_, hd2⟩
    rw [allocTyped_entry]
    have hlt := h.entry_lt i d hd1
    have : σ.nextId ≠ i := by omega
    simp [this]; exact hd1
  ref_lt := fun k i hk => Nat.lt_succ_of_lt (h.ref_lt k i hk)

/-- `assign_type` keeps the invariant and answers an id below `next_id` -/
theorem assignType_inv {e : Details} {σ : State} (h : Inv σ) (hids : ∀ c ∈ e.ids, c < σ.nextId) :
    Inv (assignType e σ).2 ∧ (assignType e σ).1 < (assignType e σ).2.nextId := by
  have hc := assignType_cases e σ
  generalize assignType e σ = p at hc ⊢
  cases hc with
  | ref t ht => exact ⟨h, hids t (refTarget_mem_ids ht)⟩
  | nameHit n i _ _ hi =>
    obtain ⟨d, hd, _⟩ := h.name_ok n i hi
    exact ⟨h, h.entry_lt i d hd⟩
  | nameNew n _ hn _ => exact ⟨allocNamed_inv h hn hids, Nat.lt_succ_self _⟩
  | typeHit i _ _ hi => exact ⟨h, h.entry_lt i e (h.type_ok e i hi).1⟩
  | typeNew _ hn _ => exact ⟨allocTyped_inv h hn hids, Nat.lt_succ_self _⟩

theorem propResult_inv {req : List Str} {pn : Str} {p : Nat × State} {fld : Field} {σ' : State}
    (h : propResult req pn p = .ok (fld, σ')) (hi : Inv p.2) (hlt : p.1 < p.2.nextId) :
    Inv σ' ∧ fld.ty < σ'.nextId := by
  unfold propResult at h
  dsimp only at h
  split at h
  · simp only [R.ok.injEq, Prod.mk.injEq] at h
    rw [← h.2, ← h.1]; exact ⟨hi, hlt⟩
  · split at h
    · simp only [R.ok.injEq, Prod.mk.injEq] at h
      rw [← h.2, ← h.1]; exact ⟨hi, hlt⟩
    · simp only [R.ok.injEq, Prod.mk.injEq] at h
      rw [← h.2, ← h.1]
      exact assignType_inv hi (fun c hc => by
        simp only [Details.ids, List.mem_singleton] at hc; rw [hc]; exact hlt)

theorem structProperty_inv {rec : Name → Sch → State → R (Details × State)}
    (hrec : ∀ n s σ e σ', rec n s σ = .ok (e, σ') → Inv σ → Inv σ' ∧ ∀ c ∈ e.ids, c < σ'.nextId)
    {base : Option Str} {req : List Str} {pn : Str} {s : Sch} {σ σ' : State} {fld : Field}
    (h : structProperty rec base req pn s σ = .ok (fld, σ')) (hi : Inv σ) :
    Inv σ' ∧ fld.ty < σ'.nextId := by
  unfold structProperty at h
  split at h
  · cases h
  · rename_i e σ1 hr
    obtain ⟨i1, hids⟩ := hrec _ _ _ _ _ hr hi
    obtain ⟨i2, hlt⟩ := assignType_inv i1 hids
    exact propResult_inv h i2 hlt

theorem structMembers_inv {rec : Name → Sch → State → R (Details × State)}
    (hext : ∀ n s σ e σ', rec n s σ = .ok (e, σ') → Ext σ σ')
    (hrec : ∀ n s σ e σ', rec n s σ = .ok (e, σ') → Inv σ → Inv σ' ∧ ∀ c ∈ e.ids, c < σ'.nextId)
    {base : Option Str} {req : List Str} : ∀ (ps : List (Str × Sch)) (σ σ' : State) (fs : List Field),
    structMembers rec base req ps σ = .ok (fs, σ') → Inv σ →
    Inv σ' ∧ ∀ fld ∈ fs, fld.ty < σ'.nextId := by
  intro ps
  induction ps with
  | nil =>
    intro σ σ' fs h hi
    simp only [structMembers, R.ok.injEq, Prod.mk.injEq] at h
    rw [← h.2, ← h.1]; exact ⟨hi, fun _ hm => by cases hm⟩
  | cons hd tl ih =>
    obtain ⟨pn, s⟩ := hd
    intro σ σ' fs h hi
    simp only [structMembers] at h
    split at h
    · cases h
    · rename_i fld σ1 hp
      split at h
      · cases h
      · rename_i fs' σ2 ht
        simp only [R.ok.injEq, Prod.mk.injEq] at h
        obtain ⟨i1, hlt⟩ := structProperty_inv hrec hp hi
        obtain ⟨i2, hall⟩ := ih _ _ _ ht i1
        rw [← h.2, ← h.1]
        refine ⟨i2, fun f hf => ?_⟩
        rcases List.mem_cons.mp hf with rfl | hf
        · exact Nat.lt_of_lt_of_le hlt (structMembers_ext hext _ _ _ _ ht).next
        · exact hall f hf

/-- the conversion keeps the invariant; the entry it answers mentions only ids below `next_id` -/
theorem convertLite_inv : ∀ (f : Nat) (n : Name) (s : Sch) (σ σ' : State) (e : Details),
    convertLite f n s σ = .ok (e, σ') → Inv σ → Inv σ' ∧ ∀ c ∈ e.ids, c < σ'.nextId := by
  intro f
  induction f with
  | zero => intro n s σ σ' e h; simp [convertLite] at h
  | succ f ih =>
    intro n s σ σ' e h hi
    have ih' : ∀ n s σ e σ', convertLite f n s σ = .ok (e, σ') → Inv σ →
        Inv σ' ∧ ∀ c ∈ e.ids, c < σ'.nextId := fun n s σ e σ' h => ih n s σ σ' e h
    have hext : ∀ n s σ e σ', convertLite f n s σ = .ok (e, σ') → Ext σ σ' :=
      fun n s σ e σ' h => convertLite_ext f n s σ σ' e h
    cases s with
    | str t =>
      simp only [convertLite, R.ok.injEq, Prod.mk.injEq] at h
      rw [← h.2, ← h.1]; exact ⟨hi, fun c hc => by simp [Details.ids] at hc⟩
    | int t =>
      simp only [convertLite, R.ok.injEq, Prod.mk.injEq] at h
      rw [← h.2, ← h.1]; exact ⟨hi, fun c hc => by simp [Details.ids] at hc⟩
    | bool t =>
      simp only [convertLite, R.ok.injEq, Prod.mk.injEq] at h
      rw [← h.2, ← h.1]; exact ⟨hi, fun c hc => by simp [Details.ids] at hc⟩
    | ref t k =>
      simp only [convertLite] at h
      split at h
      · cases h
      · rename_i id hk
        simp only [R.ok.injEq, Prod.mk.injEq] at h
        rw [← h.2, ← h.1]
        exact ⟨hi, fun c hc => by
          simp only [Details.ids, List.mem_singleton] at hc; rw [hc]; exact hi.ref_lt k id hk⟩
    | arr t item =>
      simp only [convertLite] at h
      split at h
      · cases h
      · rename_i e1 σ1 h1
        simp only [R.ok.injEq, Prod.mk.injEq] at h
        obtain ⟨i1, hids⟩ := ih' _ _ _ _ _ h1 hi
        obtain ⟨i2, hlt⟩ := assignType_inv i1 hids
        rw [← h.2, ← h.1]
        exact ⟨i2, fun c hc => by simp only [Details.ids, List.mem_singleton] at hc; rw [hc]; exact hlt⟩
    | nullable inner =>
      simp only [convertLite] at h
      split at h
      · cases h
      · rename_i e1 σ1 h1
        simp only [R.ok.injEq, Prod.mk.injEq] at h
        obtain ⟨i1, hids⟩ := ih' _ _ _ _ _ h1 hi
        obtain ⟨i2, hlt⟩ := assignType_inv i1 hids
        rw [← h.2, ← h.1]
        exact ⟨i2, fun c hc => by simp only [Details.ids, List.mem_singleton] at hc; rw [hc]; exact hlt⟩
    | obj t props req closed =>
      simp only [convertLite] at h
      split at h
      · cases h
      · rename_i fs σ1 h1
        split at h
        · cases h
        · simp only [R.ok.injEq, Prod.mk.injEq] at h
          obtain ⟨i1, hall⟩ := structMembers_inv hext ih' _ _ _ _ h1 hi
          rw [← h.2, ← h.1]
          refine ⟨i1, fun c hc => ?_⟩
          simp only [Details.ids, List.mem_map] at hc
          obtain ⟨fld, hf, rfl⟩ := hc
          exact hall fld (mem_sortFields.mp hf)
    | enumStr t vals =>
      simp only [convertLite] at h
      split at h
      · cases h
      · split at h
        · cases h
        · split at h
          · cases h
          · simp only [R.ok.injEq, Prod.mk.injEq] at h
            rw [← h.2, ← h.1]; exact ⟨hi, fun c hc => by simp [Details.ids] at hc⟩

theorem idForSchema_inv {fuel : Nat} {n : Name} {s : Sch} {σ σ' : State} {id : Nat}
    (h : idForSchema fuel n s σ = .ok (id, σ')) (hi : Inv σ) : Inv σ' ∧ id < σ'.nextId := by
  unfold idForSchema at h
  split at h
  · cases h
  · rename_i e σ1 h1
    simp only [R.ok.injEq] at h
    obtain ⟨i1, hids⟩ := convertLite_inv _ _ _ _ _ _ h1 hi
    have := assignType_inv i1 hids
    rw [h] at this
    exact this

/-! ### the finalize loop -/

theorem finalizeEntry_ids (e : Details) : (finalizeEntry e).ids = e.ids := by
  cases e <;> rfl

theorem finalizeEntry_name (e : Details) : (finalizeEntry e).name? = e.name? := by
  cases e <;> rfl

theorem finalizeEntry_unnamed {e : Details} (h : e.name? = none) : finalizeEntry e = e := by
  cases e <;> first | rfl | simp [Details.name?] at h

/-- same indexes, entries equal up to `finalize` -/
theorem inv_of_finalized {σ σ' : State} (hs : SameIdx σ σ')
    (he : ∀ i, σ'.entry i = σ.entry i ∨ σ'.entry i = (σ.entry i).map finalizeEntry) (h : Inv σ) :
    Inv σ' := by
  have key : ∀ i e', σ'.entry i = some e' → ∃ e, σ.entry i = some e ∧ e' = e ∨ σ.entry i = some e ∧ e' = finalizeEntry e := by
    intro i e' h'
    rcases he i with h1 | h1
    · exact ⟨e', Or.inl ⟨by rw [← h1]; exact h', rfl⟩⟩
    · rw [h1] at h'
      cases hσ : σ.entry i with
      | none => rw [hσ] at h'; cases h'
      | some e => rw [hσ] at h'; simp at h'; exact ⟨e, Or.inr ⟨rfl, h'.symm⟩⟩
  refine ⟨?_, ?_, ?_, ?_, ?_⟩
  · intro i e' h'
    rw [hs.next]
    obtain ⟨e, h1 | h1⟩ := key i e' h' <;> exact h.entry_lt i e h1.1
  · intro i e' h' c hc
    rw [hs.next]
    obtain ⟨e, h1 | h1⟩ := key i e' h'
    · rw [h1.2] at hc; exact h.child_lt i e h1.1 c hc
    · rw [h1.2, finalizeEntry_ids] at hc; exact h.child_lt i e h1.1 c hc
  · intro d i hd
    rw [hs.type] at hd
    obtain ⟨h1, h2⟩ := h.type_ok d i hd
    refine ⟨?_, h2⟩
    rcases he i with h3 | h3
    · rw [h3]; exact h1
    · rw [h3, h1]; simp [finalizeEntry_unnamed h2]
  · intro n i hn
    rw [hs.name] at hn
    obtain ⟨e, h1, h2⟩ := h.name_ok n i hn
    rcases he i with h3 | h3
    · exact ⟨e, by rw [h3]; exact h1, h2⟩
    · exact ⟨finalizeEntry e, by rw [h3, h1]; rfl, by rw [finalizeEntry_name]; exact h2⟩
  · intro k i hk
    rw [hs.ref] at hk; rw [hs.next]; exact h.ref_lt k i hk

theorem finalizeFrom_inv {base : Nat} {σ σ' : State} (h : finalizeFrom base σ = .ok σ') (hi : Inv σ) :
    Inv σ' := by
  obtain ⟨h1, _, h3⟩ := finalizeFrom_spec h
  exact inv_of_finalized h1 h3 hi

/-! ### `convert_ref_type` and the batch -/

/-- a named result of the conversion carries the name `get_type_name` derives from the schema's title -/
theorem convertLite_named {f : Nat} {n : Name} {s : Sch} {σ σ' : State} {e : Details} {nm : Str}
    (h : convertLite f n s σ = .ok (e, σ')) (hn : e.name? = some nm) : getTypeName n s.title = some nm := by
  cases f with
  | zero => simp [convertLite] at h
  | succ f =>
    cases s with
    | str t => simp only [convertLite, R.ok.injEq, Prod.mk.injEq] at h; rw [← h.1] at hn; cases hn
    | int t => simp only [convertLite, R.ok.injEq, Prod.mk.injEq] at h; rw [← h.1] at hn; cases hn
    | bool t => simp only [convertLite, R.ok.injEq, Prod.mk.injEq] at h; rw [← h.1] at hn; cases hn
    | ref t k =>
      simp only [convertLite] at h
      split at h
      · cases h
      · simp only [R.ok.injEq, Prod.mk.injEq] at h; rw [← h.1] at hn; cases hn
    | arr t item =>
      simp only [convertLite] at h
      split at h
      · cases h
      · simp only [R.ok.injEq, Prod.mk.injEq] at h; rw [← h.1] at hn; cases hn
    | nullable inner =>
      simp only [convertLite] at h
      split at h
      · cases h
      · simp only [R.ok.injEq, Prod.mk.injEq] at h; rw [← h.1] at hn; cases hn
    | obj t props req closed =>
      simp only [convertLite] at h
      split at h
      · cases h
      · split at h
        · cases h
        · rename_i nm' hnm
          simp only [R.ok.injEq, Prod.mk.injEq] at h
          rw [← h.1] at hn
          simp only [Details.name?, Option.some.injEq] at hn
          rw [← hn]; exact hnm
    | enumStr t vals =>
      simp only [convertLite] at h
      split at h
      · cases h
      · split at h
        · cases h
        · split at h
          · cases h
          · rename_i nm' hnm
            simp only [R.ok.injEq, Prod.mk.injEq] at h
            rw [← h.1] at hn
            simp only [Details.name?, Option.some.injEq] at hn
            rw [← hn]; exact hnm

/-- `name_to_id.insert(name, type_id); id_to_entry.insert(type_id, entry)` of `convert_ref_type` -/
def insertDef (σ : State) (nm : Str) (tid : Nat) (ent : Details) : State :=
  { σ with nameToId := (nm, tid) :: σ.nameToId, idToEntry := (tid, ent) :: σ.idToEntry }

theorem insertDef_entry (σ : State) (nm : Str) (tid : Nat) (ent : Details) (i : Nat) :
    (insertDef σ nm tid ent).entry i = if tid = i then some ent else σ.entry i := rfl

/-- what `convert_ref_type` does: the conversion proper, the wrapping of references and unnamed
    results into a newtype, the insertion at the reserved id -/
theorem convertRefType_cases {fuel : Nat} {n : Name} {s : Sch} {tid : Nat} {σ σ' : State}
    (h : convertRefType fuel n s tid σ = .ok σ') :
    ∃ (ent : Details) (nm : Str) (σ2 : State) (e : Details) (σ1 : State),
      convertLite fuel n s σ = .ok (e, σ1) ∧ ent.name? = some nm ∧ getTypeName n s.title = some nm ∧
      σ' = insertDef σ2 nm tid ent ∧
      ((∃ t, e.refTarget? = some t ∧ ent = .newtype nm t ∧ σ2 = σ1) ∨
       (e.refTarget? = none ∧ e.name? = some nm ∧ ent = e ∧ σ2 = σ1) ∨
       (e.refTarget? = none ∧ e.name? = none ∧ ent = .newtype nm (assignType e σ1).1 ∧
          σ2 = (assignType e σ1).2)) := by
  unfold convertRefType at h
  split at h
  · cases h
  · rename_i e σ1 h1
    dsimp only at h
    split at h
    · cases h
    · rename_i ent σ2 hnamed
      simp only [R.ok.injEq] at h
      split at hnamed
      · rename_i t ht
        split at hnamed
        · cases hnamed
        · rename_i nm hnm
          simp only [R.ok.injEq, Prod.mk.injEq] at hnamed
          obtain ⟨rfl, rfl⟩ := hnamed
          exact ⟨_, nm, _, e, σ1, h1, rfl, hnm, by rw [← h]; rfl, Or.inl ⟨t, ht, rfl, rfl⟩⟩
      · rename_i hr
        split at hnamed
        · rename_i nm hnm
          simp only [R.ok.injEq, Prod.mk.injEq] at hnamed
          obtain ⟨rfl, rfl⟩ := hnamed
          exact ⟨_, nm, _, _, _, h1, hnm, convertLite_named h1 hnm, by rw [← h, hnm]; rfl,
            Or.inr (Or.inl ⟨hr, hnm, rfl, rfl⟩)⟩
        · rename_i hnm
          split at hnamed
          · cases hnamed
          · rename_i nm hgt
            simp only [R.ok.injEq, Prod.mk.injEq] at hnamed
            obtain ⟨rfl, rfl⟩ := hnamed
            exact ⟨_, nm, _, e, σ1, h1, rfl, hgt, by rw [← h]; rfl, Or.inr (Or.inr ⟨hr, hnm, rfl, rfl⟩)⟩

theorem convertRefType_ext2 {fuel : Nat} {n : Name} {s : Sch} {tid : Nat} {σ σ' : State}
    (h : convertRefType fuel n s tid σ = .ok σ') :
    ∃ (ent : Details) (nm : Str) (σ2 : State), Ext σ σ2 ∧ ent.name? = some nm ∧
      getTypeName n s.title = some nm ∧ σ' = insertDef σ2 nm tid ent ∧
      (Inv σ → Inv σ2 ∧ ∀ c ∈ ent.ids, c < σ2.nextId) := by
  obtain ⟨ent, nm, σ2, e, σ1, h1, hn, hg, hσ, hc⟩ := convertRefType_cases h
  have hx := convertLite_ext _ _ _ _ _ _ h1
  refine ⟨ent, nm, σ2, ?_, hn, hg, hσ, ?_⟩
  · rcases hc with ⟨t, _, _, rfl⟩ | ⟨_, _, _, rfl⟩ | ⟨_, _, _, rfl⟩
    · exact hx
    · exact hx
    · exact hx.trans (assignType_ext _ _)
  · intro hi
    obtain ⟨i1, hids⟩ := convertLite_inv _ _ _ _ _ _ h1 hi
    rcases hc with ⟨t, ht, rfl, rfl⟩ | ⟨_, _, rfl, rfl⟩ | ⟨_, _, rfl, rfl⟩
    · exact ⟨i1, fun c hc => by
        simp only [Details.ids, List.mem_singleton] at hc; rw [hc]; exact hids t (refTarget_mem_ids ht)⟩
    · exact ⟨i1, hids⟩
    · obtain ⟨i2, hlt⟩ := assignType_inv i1 hids
      exact ⟨i2, fun c hc => by simp only [Details.ids, List.mem_singleton] at hc; rw [hc]; exact hlt⟩

theorem insertDef_inv {σ : State} {nm : Str} {tid : Nat} {ent : Details} (h : Inv σ)
    (hn : ent.name? = some nm) (hids : ∀ c ∈ ent.ids, c < σ.nextId) (ht : tid < σ.nextId)
    (hnone : σ.entry tid = none) : Inv (insertDef σ nm tid ent) where
  entry_lt := fun i d hd => by
    rw [insertDef_entry] at hd
    show i < σ.nextId
    split at hd
    · rename_i hti; rw [← hti]; exact ht
    · exact h.entry_lt i d hd
  child_lt := fun i d hd c hc => by
    rw [insertDef_entry] at hd
    show c < σ.nextId
    split at hd
    · cases hd; exact hids c hc
    · exact h.child_lt i d hd c hc
  type_ok := fun d i hd => by
    obtain ⟨h1, h2⟩ := h.type_ok d i hd
    refine ⟨?_, h2⟩
    rw [insertDef_entry]
    have : tid ≠ i := fun hti => by rw [hti, h1] at hnone; cases hnone
    simp [this]; exact h1
  name_ok := fun m i hm => by
    change alookup ((nm, tid) :: σ.nameToId) m = some i at hm
    rw [alookup_cons] at hm
    split at hm
    · rename_i hnm
      cases hm
      exact ⟨ent, by rw [insertDef_entry]; simp, by rw [← hnm]; exact hn⟩
    · obtain ⟨d, hd1, hd2⟩ := h.name_ok m i hm
      refine ⟨d, ?_, hd2⟩
      rw [insertDef_entry]
      have : tid ≠ i := fun hti => by rw [hti, hd1] at hnone; cases hnone
      simp [this]; exact hd1
  ref_lt := fun k i hk => h.ref_lt k i hk

/-- `convert_ref_type` keeps the invariant when it fills a reserved, still empty id -/
theorem convertRefType_inv {fuel : Nat} {n : Name} {s : Sch} {tid : Nat} {σ σ' : State}
    (h : convertRefType fuel n s tid σ = .ok σ') (hi : Inv σ) (ht : tid < σ.nextId)
    (hnone : σ.entry tid = none) : Inv σ' := by
  obtain ⟨ent, nm, σ2, hx, hn, _, rfl, hinv⟩ := convertRefType_ext2 h
  obtain ⟨i2, hids⟩ := hinv hi
  exact insertDef_inv i2 hn hids (Nat.lt_of_lt_of_le ht hx.next) (by rw [hx.entry tid ht]; exact hnone)

/-- frame of `convert_ref_type`: nothing below `b` changes when the reserved id is at or above `b` -/
theorem convertRefType_frame {fuel : Nat} {n : Name} {s : Sch} {tid b : Nat} {σ σ' : State}
    (h : convertRefType fuel n s tid σ = .ok σ') (hb : b ≤ tid) (hbn : b ≤ σ.nextId) :
    σ.nextId ≤ σ'.nextId ∧ ∀ i, i < b → σ'.entry i = σ.entry i := by
  obtain ⟨ent, nm, σ2, hx, _, _, rfl, _⟩ := convertRefType_ext2 h
  refine ⟨hx.next, fun i hi => ?_⟩
  rw [insertDef_entry]
  have : tid ≠ i := by omega
  simp only [this, if_false]
  exact hx.entry i (Nat.lt_of_lt_of_le hi hbn)

/-! ### loops of `add_ref_types_impl` -/

/-- induction principle for the loop that converts the definitions of a batch -/
theorem convertDefs_ind {fuel base : Nat} {P : List (RefKey × Sch) → Nat → State → Prop}
    (hstep : ∀ k s r i σ σ1, P ((k, s) :: r) i σ →
      convertRefType fuel (keyName k) s (base + i) σ = .ok σ1 → P r (i + 1) σ1) :
    ∀ (defs : List (RefKey × Sch)) (i : Nat) (σ σ' : State),
      convertDefs fuel base defs i σ = .ok σ' → P defs i σ → P [] (i + defs.length) σ' := by
  intro defs
  induction defs with
  | nil =>
    intro i σ σ' h hp
    simp only [convertDefs, R.ok.injEq] at h
    subst h; exact hp
  | cons hd tl ih =>
    obtain ⟨k, s⟩ := hd
    intro i σ σ' h hp
    simp only [convertDefs] at h
    split at h
    · cases h
    · rename_i σ1 h1
      have := ih (i + 1) σ1 σ' h (hstep k s tl i σ σ1 hp h1)
      simpa [Nat.add_assoc, Nat.add_comm 1] using this

/-- the reservation loop only adds bindings `key ↦ base + j` (`i ≤ j < i + len`) to `ref_to_id` -/
theorem reserve_spec (base : Nat) : ∀ (defs : List (RefKey × Sch)) (i : Nat) (σ : State),
    (reserve base defs i σ).nextId = σ.nextId ∧ (reserve base defs i σ).idToEntry = σ.idToEntry ∧
    (reserve base defs i σ).typeToId = σ.typeToId ∧ (reserve base defs i σ).nameToId = σ.nameToId ∧
    ∀ k id, alookup (reserve base defs i σ).refToId k = some id →
      alookup σ.refToId k = some id ∨ ∃ j, i ≤ j ∧ j < i + defs.length ∧ id = base + j := by
  intro defs
  induction defs with
  | nil => intro i σ; exact ⟨rfl, rfl, rfl, rfl, fun k id h => Or.inl h⟩
  | cons hd tl ih =>
    obtain ⟨k0, s0⟩ := hd
    intro i σ
    simp only [reserve]
    obtain ⟨h1, h2, h3, h4, h5⟩ := ih (i + 1)
      { σ with refToId := (k0, base + i) :: σ.refToId, definitions := k0 :: σ.definitions }
    refine ⟨h1, h2, h3, h4, fun k id hk => ?_⟩
    rcases h5 k id hk with h | ⟨j, hj1, hj2, hj3⟩
    · change alookup ((k0, base + i) :: σ.refToId) k = some id at h
      rw [alookup_cons] at h
      split at h
      · cases h; exact Or.inr ⟨i, Nat.le_refl _, by simp, rfl⟩
      · exact Or.inl h
    · exact Or.inr ⟨j, by omega, by simp only [List.length_cons]; omega, hj3⟩

/-- the state handed to the conversion loop: ids reserved, keys bound -/
def reserved (defs : List (RefKey × Sch)) (σ : State) : State :=
  reserve σ.nextId defs 0 { σ with nextId := σ.nextId + defs.length }

theorem reserved_entry (defs : List (RefKey × Sch)) (σ : State) (i : Nat) :
    (reserved defs σ).entry i = σ.entry i := by
  unfold reserved State.entry
  rw [(reserve_spec _ _ _ _).2.1]

theorem reserved_next (defs : List (RefKey × Sch)) (σ : State) :
    (reserved defs σ).nextId = σ.nextId + defs.length := by
  unfold reserved
  rw [(reserve_spec _ _ _ _).1]

theorem reserved_inv {defs : List (RefKey × Sch)} {σ : State} (h : Inv σ) : Inv (reserved defs σ) where
  entry_lt := fun i e he => by
    rw [reserved_entry] at he; rw [reserved_next]
    exact Nat.lt_of_lt_of_le (h.entry_lt i e he) (Nat.le_add_right _ _)
  child_lt := fun i e he c hc => by
    rw [reserved_entry] at he; rw [reserved_next]
    exact Nat.lt_of_lt_of_le (h.child_lt i e he c hc) (Nat.le_add_right _ _)
  type_ok := fun d i hd => by
    unfold reserved at hd
    rw [(reserve_spec _ _ _ _).2.2.1] at hd
    rw [reserved_entry]; exact h.type_ok d i hd
  name_ok := fun n i hn => by
    unfold reserved at hn
    rw [(reserve_spec _ _ _ _).2.2.2.1] at hn
    rw [reserved_entry]; exact h.name_ok n i hn
  ref_lt := fun k i hk => by
    rw [reserved_next]
    unfold reserved at hk
    rcases (reserve_spec _ _ _ _).2.2.2.2 k i hk with h1 | ⟨j, _, hj, rfl⟩
    · exact Nat.lt_of_lt_of_le (h.ref_lt k i h1) (Nat.le_add_right _ _)
    · omega

/-- the whole of `add_ref_types_impl` in three steps -/
theorem addRefTypesImpl_steps {fuel : Nat} {defs : List (RefKey × Sch)} {σ σ' : State}
    (h : addRefTypesImpl fuel defs σ = .ok σ') :
    ∃ σ2, convertDefs fuel σ.nextId defs 0 (reserved defs σ) = .ok σ2 ∧
      checkAcyclic σ2 σ.nextId (σ.nextId + defs.length) = .ok () ∧ finalizeFrom σ.nextId σ2 = .ok σ' := by
  unfold addRefTypesImpl at h
  dsimp only at h
  split at h
  · cases h
  · rename_i σ2 h2
    split at h
    · cases h
    · rename_i hc
      exact ⟨σ2, h2, hc, h⟩

/-- the loop invariant shared by the frame and the invariant proofs -/
theorem convertDefs_frame_inv {fuel : Nat} {defs : List (RefKey × Sch)} {σ σ2 : State}
    (h : convertDefs fuel σ.nextId defs 0 (reserved defs σ) = .ok σ2) :
    (σ.nextId + defs.length ≤ σ2.nextId ∧ ∀ i, i < σ.nextId → σ2.entry i = σ.entry i) ∧
    (Inv σ → Inv σ2) := by
  let P : List (RefKey × Sch) → Nat → State → Prop := fun r i τ =>
    i + r.length = defs.length ∧ σ.nextId + defs.length ≤ τ.nextId ∧
    (∀ j, j < σ.nextId → τ.entry j = σ.entry j) ∧
    (Inv σ → Inv τ ∧ ∀ j, i ≤ j → j < defs.length → τ.entry (σ.nextId + j) = none)
  have hfin := convertDefs_ind (fuel := fuel) (base := σ.nextId) (P := P) (by
    intro k s r i τ τ1 hp hc
    obtain ⟨hlen, hnext, hframe, hinv⟩ := hp
    simp only [List.length_cons] at hlen
    obtain ⟨hn1, hf1⟩ := convertRefType_frame hc (Nat.le_add_right _ _) (by omega)
    refine ⟨by omega, by omega, fun j hj => by rw [hf1 j hj, hframe j hj], fun hi => ?_⟩
    obtain ⟨it, hnone⟩ := hinv hi
    refine ⟨convertRefType_inv hc it (by omega) (hnone i (Nat.le_refl _) (by omega)), ?_⟩
    intro j hij hj
    obtain ⟨ent, nm, σ2', hx, _, _, rfl, _⟩ := convertRefType_ext2 hc
    rw [insertDef_entry]
    have : σ.nextId + i ≠ σ.nextId + j := by omega
    simp only [this, if_false]
    rw [hx.entry _ (by omega)]
    exact hnone j (by omega) hj) defs 0 _ _ h
    ⟨by simp, by rw [reserved_next]; exact Nat.le_refl _, fun j _ => reserved_entry _ _ _, fun hi =>
      ⟨reserved_inv hi, fun j _ _ => by
        rw [reserved_entry]; exact hi.entry_none (Nat.le_add_right _ _)⟩⟩
  exact ⟨⟨hfin.2.1, hfin.2.2.1⟩, fun hi => (hfin.2.2.2 hi).1⟩

theorem checkAcyclic_ok_unit {σ : State} {lo hi : Nat} {u : Unit} (_h : checkAcyclic σ lo hi = .ok u) : True :=
  trivial

/-- frame of a batch: no entry below the old `next_id` changes -/
theorem addRefTypesImpl_frame {fuel : Nat} {defs : List (RefKey × Sch)} {σ σ' : State}
    (h : addRefTypesImpl fuel defs σ = .ok σ') :
    σ.nextId ≤ σ'.nextId ∧ ∀ i, i < σ.nextId → σ'.entry i = σ.entry i := by
  obtain ⟨σ2, h2, _, h3⟩ := addRefTypesImpl_steps h
  obtain ⟨⟨hn, hf⟩, _⟩ := convertDefs_frame_inv h2
  obtain ⟨hs, hb, _⟩ := finalizeFrom_spec h3
  exact ⟨by rw [hs.next]; omega, fun i hi => by rw [hb i hi, hf i hi]⟩

theorem addRefTypesImpl_inv {fuel : Nat} {defs : List (RefKey × Sch)} {σ σ' : State}
    (h : addRefTypesImpl fuel defs σ = .ok σ') (hi : Inv σ) : Inv σ' := by
  obtain ⟨σ2, h2, _, h3⟩ := addRefTypesImpl_steps h
  exact finalizeFrom_inv h3 ((convertDefs_frame_inv h2).2 hi)

/-! ### one API call -/

theorem addTypeWithName_steps {fuel : Nat} {s : Sch} {hint : Option Str} {σ σ' : State} {id : Nat}
    (h : addTypeWithName fuel s hint σ = .ok (id, σ')) :
    ∃ σ1, idForSchema fuel (hintName hint) s σ = .ok (id, σ1) ∧ finalizeFrom σ.nextId σ1 = .ok σ' := by
  unfold addTypeWithName at h
  dsimp only at h
  split at h
  · cases h
  · rename_i id1 σ1 h1
    split at h
    · cases h
    · rename_i σ2 h2
      simp only [R.ok.injEq, Prod.mk.injEq] at h
      obtain ⟨rfl, rfl⟩ := h
      exact ⟨σ1, h1, h2⟩

theorem step_frame {fuel : Nat} {c : Call} {σ σ' : State} {r : Option Nat}
    (h : step fuel c σ = .ok (r, σ')) :
    σ.nextId ≤ σ'.nextId ∧ ∀ i, i < σ.nextId → σ'.entry i = σ.entry i := by
  cases c with
  | refTypes defs =>
    simp only [step, addRefTypes] at h
    split at h
    · cases h
    · rename_i σ1 h1
      simp only [R.ok.injEq, Prod.mk.injEq] at h
      rw [← h.2]; exact addRefTypesImpl_frame h1
  | rootSchema root defs =>
    simp only [step, addRootSchema] at h
    split at h
    · cases h
    · rename_i σ1 h1
      simp only [R.ok.injEq, Prod.mk.injEq] at h
      rw [← h.2]; exact addRefTypesImpl_frame h1
  | typeWithName s hint =>
    simp only [step] at h
    split at h
    · cases h
    · rename_i id σ1 h1
      simp only [R.ok.injEq, Prod.mk.injEq] at h
      obtain ⟨σm, hm, hf⟩ := addTypeWithName_steps h1
      have hx := idForSchema_ext hm
      obtain ⟨hs, hb, _⟩ := finalizeFrom_spec hf
      rw [← h.2]
      exact ⟨by rw [hs.next]; exact hx.next, fun i hi => by rw [hb i hi, hx.entry i hi]⟩

theorem step_inv {fuel : Nat} {c : Call} {σ σ' : State} {r : Option Nat}
    (h : step fuel c σ = .ok (r, σ')) (hi : Inv σ) :
    Inv σ' ∧ ∀ id, r = some id → id < σ'.nextId := by
  cases c with
  | refTypes defs =>
    simp only [step, addRefTypes] at h
    split at h
    · cases h
    · rename_i σ1 h1
      simp only [R.ok.injEq, Prod.mk.injEq] at h
      rw [← h.2, ← h.1]; exact ⟨addRefTypesImpl_inv h1 hi, fun _ hr => by cases hr⟩
  | rootSchema root defs =>
    simp only [step, addRootSchema] at h
    split at h
    · cases h
    · rename_i σ1 h1
      simp only [R.ok.injEq, Prod.mk.injEq] at h
      have i1 := addRefTypesImpl_inv h1 hi
      rw [← h.2, ← h.1]
      refine ⟨i1, fun id hr => ?_⟩
      split at hr
      · exact i1.ref_lt _ _ hr
      · cases hr
  | typeWithName s hint =>
    simp only [step] at h
    split at h
    · cases h
    · rename_i id σ1 h1
      simp only [R.ok.injEq, Prod.mk.injEq] at h
      obtain ⟨σm, hm, hf⟩ := addTypeWithName_steps h1
      obtain ⟨i1, hlt⟩ := idForSchema_inv hm hi
      rw [← h.2, ← h.1]
      refine ⟨finalizeFrom_inv hf i1, fun id' hr => ?_⟩
      cases hr
      rw [(finalizeFrom_spec hf).1.next]; exact hlt

end TypifyModel.Space

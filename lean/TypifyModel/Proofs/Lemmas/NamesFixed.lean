import TypifyModel.Proofs.Lemmas.NamesLemmas
/-! Names that are already snake-case identifiers are fixed points of `sanitize · .snake`
    (heck's `transform` finds exactly the `_`-separated words and no case boundary). -/
namespace TypifyModel.Names

/-- one word of a snake-case name: non-empty, letters and digits, no upper-case letter -/
def SnakeWord (w : Str) : Prop := w ≠ [] ∧ ∀ c ∈ w, isAlnum c = true ∧ isUpper c = false

theorem toLower_fixed (c : Char) (h : isUpper c = false) : toLower c = c := by
  unfold toLower Char.toLower
  unfold isUpper Char.isUpper at h
  simp only [decide_eq_false_iff_not] at h
  split
  · rename_i h2; exact absurd h2 h
  · rfl

theorem lowerWord_fixed (w : Str) (h : ∀ c ∈ w, isUpper c = false) : lowerWord w = w := by
  unfold lowerWord
  induction w with
  | nil => rfl
  | cons a r ih =>
    simp only [List.map_cons]
    rw [toLower_fixed a (h a (by simp)), ih (fun c hc => h c (by simp [hc]))]

theorem splitAux_append_alnum (w : Str) : ∀ (cur t : Str), (∀ c ∈ w, isAlnum c = true) →
    splitAux cur (w ++ t) = splitAux (w.reverse ++ cur) t := by
  induction w with
  | nil => intro cur t _; simp
  | cons a r ih =>
    intro cur t h
    have ha : isAlnum a = true := h a (by simp)
    simp only [List.cons_append, splitAux, ha, if_true]
    rw [ih (a :: cur) t (fun c hc => h c (by simp [hc]))]
    simp

theorem splitWords_joinSnake (ws : List Str) (hne : ws ≠ [])
    (h : ∀ w ∈ ws, ∀ c ∈ w, isAlnum c = true) : splitWords (joinSnake ws) = ws := by
  unfold splitWords
  induction ws with
  | nil => exact absurd rfl hne
  | cons w rest ih =>
    cases rest with
    | nil =>
      simp only [joinSnake]
      have := splitAux_append_alnum w [] [] (h w (by simp))
      simp only [List.append_nil] at this
      rw [this]; simp [splitAux]
    | cons w2 rest' =>
      simp only [joinSnake]
      rw [splitAux_append_alnum w [] _ (h w (by simp))]
      have hu : isAlnum '_' = false := by decide
      simp only [splitAux, hu, List.append_nil, List.reverse_reverse]
      simp only [Bool.false_eq_true, if_false]
      congr 1
      exact ih (by simp) (fun w' hw' => h w' (List.mem_cons_of_mem _ hw'))

theorem segs_noUpper (w : Str) : ∀ (m : Mode) (cur : Str), w ≠ [] →
    (∀ c ∈ w, isUpper c = false) → segs m cur w = [cur.reverse ++ w] := by
  induction w with
  | nil => intro m cur hne; exact absurd rfl hne
  | cons a rest ih =>
    intro m cur _ h
    cases rest with
    | nil => simp [segs]
    | cons n rest' =>
      have ha : isUpper a = false := h a (by simp)
      have hn : isUpper n = false := h n (by simp)
      simp only [segs, ha, hn, Bool.false_eq_true, and_false, false_and, if_false]
      rw [ih _ (a :: cur) (by simp) (fun c hc => h c (List.mem_cons_of_mem _ hc))]
      simp

theorem heckWords_joinSnake (ws : List Str) (hne : ws ≠ []) (h : ∀ w ∈ ws, SnakeWord w) :
    heckWords (joinSnake ws) = ws := by
  unfold heckWords
  rw [splitWords_joinSnake ws hne (fun w hw c hc => ((h w hw).2 c hc).1)]
  clear hne
  induction ws with
  | nil => rfl
  | cons w rest ih =>
    simp only [List.flatMap_cons]
    rw [segs_noUpper w .boundary [] (h w (by simp)).1 (fun c hc => ((h w (by simp)).2 c hc).2)]
    rw [ih (fun w' hw' => h w' (List.mem_cons_of_mem _ hw'))]
    simp

theorem toSnake_joinSnake (ws : List Str) (hne : ws ≠ []) (h : ∀ w ∈ ws, SnakeWord w) :
    toSnake (joinSnake ws) = joinSnake ws := by
  unfold toSnake
  rw [heckWords_joinSnake ws hne h]
  congr 1
  clear hne
  induction ws with
  | nil => rfl
  | cons w rest ih =>
    simp only [List.map_cons]
    rw [lowerWord_fixed w (fun c hc => ((h w (by simp)).2 c hc).2),
      ih (fun w' hw' => h w' (List.mem_cons_of_mem _ hw'))]

theorem joinSnake_chars' (ws : List Str) (h : ∀ w ∈ ws, SnakeWord w) :
    ∀ c ∈ joinSnake ws, isXidContinue c = true :=
  joinSnake_chars ws (fun w hw c hc => ((h w hw).2 c hc).1)

theorem replChars_fixed (s : Str) (h : ∀ c ∈ s, isXidContinue c = true) : replChars s = s := by
  unfold replChars
  have hf : s.filter (· != '\'') = s := by
    rw [List.filter_eq_self]
    intro c hc
    have := h c hc
    simp only [bne_iff_ne, ne_eq]
    intro hq; subst hq; revert this; decide
  rw [hf]
  induction s with
  | nil => rfl
  | cons a r ih =>
    simp only [List.map_cons, h a (by simp), if_true]
    congr 1
    exact ih (fun c hc => h c (by simp [hc])) (by
      rw [List.filter_eq_self]
      intro c hc
      have := h c (by simp [hc])
      simp only [bne_iff_ne, ne_eq]
      intro hq; subst hq; revert this; decide)

/-- a name `w₁_w₂_…_wₙ` of lower-case/digit words that is an identifier is returned unchanged -/
theorem sanitize_joinSnake (ws : List Str) (hne : ws ≠ []) (h : ∀ w ∈ ws, SnakeWord w)
    (hid : isRustIdent (joinSnake ws) = true) : sanitize (joinSnake ws) .snake = joinSnake ws := by
  have hch := joinSnake_chars' ws h
  have hshape : identShape (joinSnake ws) = true := by
    unfold isRustIdent at hid; simp only [Bool.and_eq_true] at hid; exact hid.1.1
  have hkw : isKeyword (joinSnake ws) = false := by
    unfold isRustIdent at hid; simp only [Bool.and_eq_true, Bool.not_eq_true'] at hid; exact hid.1.2
  -- not one of the three special cases
  have hcore : sanitizeCore (joinSnake ws) .snake = joinSnake ws := by
    unfold sanitizeCore
    have h1 : joinSnake ws ≠ "async".toList := by
      intro he; rw [he] at hkw; revert hkw; decide
    have h2 : joinSnake ws ≠ "+1".toList := by
      intro he; have := hch '+' (by rw [he]; decide); revert this; decide
    have h3 : joinSnake ws ≠ "-1".toList := by
      intro he; have := hch '-' (by rw [he]; decide); revert this; decide
    rw [if_neg h1, if_neg h2, if_neg h3]
    simp only [toCase]
    rw [replChars_fixed _ hch, toSnake_joinSnake ws hne h]
  -- first character: a word character, so not `_`, so XID_Start
  have hpre : addPrefix .snake (joinSnake ws) = joinSnake ws := by
    unfold addPrefix
    cases hj : joinSnake ws with
    | nil => rw [hj] at hshape; simp [identShape] at hshape
    | cons ch r =>
      simp only
      rw [hj] at hshape
      simp only [identShape, Bool.and_eq_true, Bool.or_eq_true] at hshape
      rcases hshape.1 with hs | hs
      · rw [if_pos hs]
      · -- `_` cannot be the first character: the first word is non-empty and alphanumeric
        exfalso
        cases ws with
        | nil => exact hne rfl
        | cons w rest =>
          have hw := h w (by simp)
          cases w with
          | nil => exact hw.1 rfl
          | cons a ar =>
            have haa := (hw.2 a (by simp)).1
            have : ch = a := by
              cases rest with
              | nil => simp only [joinSnake] at hj; exact (List.cons.inj hj).1.symm
              | cons _ _ => simp only [joinSnake, List.cons_append] at hj; exact (List.cons.inj hj).1.symm
            subst this
            simp only [beq_iff_eq] at hs
            subst hs
            revert haa; decide
  unfold sanitize
  rw [hcore, hpre]
  unfold fixKeyword
  rw [if_pos hid]

end TypifyModel.Names

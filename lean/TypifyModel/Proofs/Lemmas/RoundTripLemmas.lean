import TypifyModel.Model.RoundTrip
/-! Helper lemmas for the round-trip theorems (C03). -/
namespace TypifyModel.RoundTrip
open TypifyModel TypifyModel.Serde

theorem get_mem {σ : Space} {t : Id} {ent : Entry} (h : σ.get t = some ent) : (t, ent) ∈ σ.entries := by
  unfold Space.get at h
  cases hf : σ.entries.find? (fun e => e.1 == t) with
  | none => rw [hf] at h; simp at h
  | some e =>
    rw [hf] at h
    simp only [Option.map_some, Option.some.injEq] at h
    have hm := List.mem_of_find?_eq_some hf
    have hk := List.find?_some hf
    obtain ⟨k, e'⟩ := e
    simp only at h hk
    subst h
    have : k = t := by simpa using hk
    subst this
    exact hm

theorem rt_get {σ : Space} (h : rtB σ = true) {t : Id} {ent : Entry} (hg : σ.get t = some ent) :
    entryOkB σ ent = true := by
  have := (List.all_eq_true.mp h) (t, ent) (get_mem hg)
  exact this

theorem mapM'_triple {α β γ : Type} {g : α → Except E β} {h : β → Except E γ} {g' : γ → Except E β} :
    ∀ {xs : List α} {vs : List β} {js : List γ}, mapM' g xs = .ok vs → mapM' h vs = .ok js →
      (∀ a b c, g a = .ok b → h b = .ok c → g' c = .ok b) → mapM' g' js = .ok vs := by
  intro xs
  induction xs with
  | nil =>
    intro vs js h1 h2 _
    simp only [mapM', Except.ok.injEq] at h1; subst h1
    simp only [mapM', Except.ok.injEq] at h2; subst h2
    rfl
  | cons a r ih =>
    intro vs js h1 h2 hk
    simp only [mapM'] at h1
    cases hga : g a with
    | error e => rw [hga] at h1; simp at h1
    | ok b =>
      rw [hga] at h1
      cases hr : mapM' g r with
      | error e => rw [hr] at h1; simp at h1
      | ok bs =>
        rw [hr] at h1
        simp only [Except.ok.injEq] at h1; subst h1
        simp only [mapM'] at h2
        cases hhb : h b with
        | error e => rw [hhb] at h2; simp at h2
        | ok c =>
          rw [hhb] at h2
          cases hr2 : mapM' h bs with
          | error e => rw [hr2] at h2; simp at h2
          | ok cs =>
            rw [hr2] at h2
            simp only [Except.ok.injEq] at h2; subst h2
            simp only [mapM']
            rw [hk a b c hga hhb, ih hr hr2 hk]

theorem zip_triple {g : Id → Json → Except E Val} {h : Id → Val → Except E Json} :
    ∀ {ts : List Id} {xs : List Json} {vs : List Val} {js : List Json}, zipM g ts xs = .ok vs → zipSe h ts vs = .ok js →
      (∀ t a b c, g t a = .ok b → h t b = .ok c → g t c = .ok b) → zipM g ts js = .ok vs := by
  intro ts
  induction ts with
  | nil =>
    intro xs vs js h1 h2 _
    cases xs with
    | nil =>
      simp only [zipM, Except.ok.injEq] at h1; subst h1
      simp only [zipSe, Except.ok.injEq] at h2; subst h2
      rfl
    | cons _ _ => simp [zipM] at h1
  | cons t r ih =>
    intro xs vs js h1 h2 hk
    cases xs with
    | nil => simp [zipM] at h1
    | cons a as =>
      simp only [zipM] at h1
      cases hga : g t a with
      | error e => rw [hga] at h1; simp at h1
      | ok b =>
        rw [hga] at h1
        cases hr : zipM g r as with
        | error e => rw [hr] at h1; simp at h1
        | ok bs =>
          rw [hr] at h1
          simp only [Except.ok.injEq] at h1; subst h1
          simp only [zipSe] at h2
          cases hhb : h t b with
          | error e => rw [hhb] at h2; simp at h2
          | ok c =>
            rw [hhb] at h2
            cases hr2 : zipSe h r bs with
            | error e => rw [hr2] at h2; simp at h2
            | ok cs =>
              rw [hr2] at h2
              simp only [Except.ok.injEq] at h2; subst h2
              simp only [zipM]
              rw [hk t a b c hga hhb, ih hr hr2 hk]

theorem zip_triple' {g : Id → Json → Except E Val} {h : Id → Val → Except E Json} :
    ∀ {ts : List Id} {xs : List Json} {vs : List Val} {js : List Json}, zipM g ts xs = .ok vs → zipSe h ts vs = .ok js →
      (∀ t ∈ ts, ∀ a b c, g t a = .ok b → h t b = .ok c → g t c = .ok b) → zipM g ts js = .ok vs := by
  intro ts
  induction ts with
  | nil =>
    intro xs vs js h1 h2 _
    cases xs with
    | nil =>
      simp only [zipM, Except.ok.injEq] at h1; subst h1
      simp only [zipSe, Except.ok.injEq] at h2; subst h2
      rfl
    | cons _ _ => simp [zipM] at h1
  | cons t r ih =>
    intro xs vs js h1 h2 hk
    cases xs with
    | nil => simp [zipM] at h1
    | cons a as =>
      simp only [zipM] at h1
      cases hga : g t a with
      | error e => rw [hga] at h1; simp at h1
      | ok b =>
        rw [hga] at h1
        cases hr : zipM g r as with
        | error e => rw [hr] at h1; simp at h1
        | ok bs =>
          rw [hr] at h1
          simp only [Except.ok.injEq] at h1; subst h1
          simp only [zipSe] at h2
          cases hhb : h t b with
          | error e => rw [hhb] at h2; simp at h2
          | ok c =>
            rw [hhb] at h2
            cases hr2 : zipSe h r bs with
            | error e => rw [hr2] at h2; simp at h2
            | ok cs =>
              rw [hr2] at h2
              simp only [Except.ok.injEq] at h2; subst h2
              simp only [zipM]
              rw [hk t (by simp) a b c hga hhb, ih hr hr2 (fun t' ht' => hk t' (by simp [ht']))]

theorem mapM'_length {α β : Type} {g : α → Except E β} :
    ∀ {xs : List α} {vs : List β}, mapM' g xs = .ok vs → vs.length = xs.length := by
  intro xs
  induction xs with
  | nil => intro vs h; simp only [mapM', Except.ok.injEq] at h; subst h; rfl
  | cons a r ih =>
    intro vs h
    simp only [mapM'] at h
    split at h
    · simp at h
    · split at h
      · simp at h
      · rename_i bs hbs
        simp only [Except.ok.injEq] at h; subst h
        simp [ih hbs]

/-- types flagged `nonNullB` never serialise to `null` -/
theorem se_nonnull (σ : Space) : ∀ (F : Nat) (t : Id), nonNullB σ F t = true →
    ∀ f a j, se σ f t a = .ok j → j ≠ .null := by
  intro F
  induction F with
  | zero => intro t h; simp [nonNullB] at h
  | succ F ih =>
    intro t h f a j hse
    cases f with
    | zero => simp [se] at hse
    | succ f =>
      simp only [nonNullB] at h
      cases hg : σ.get t with
      | none => rw [hg] at h; simp at h
      | some ent =>
        rw [hg] at h
        obtain ⟨det, ed, im⟩ := ent
        simp only at h
        simp only [se, hg] at hse
        cases det with
        | boolean => cases a <;> simp at hse; subst hse; simp
        | integer n => cases a <;> simp at hse; subst hse; simp
        | float n => cases a <;> simp at hse; subst hse; simp
        | string => cases a <;> simp at hse; subst hse; simp
        | vec t' =>
          simp only at hse
          cases a <;> simp at hse
          split at hse <;> simp at hse
          subst hse; simp
        | set t' =>
          simp only at hse
          cases a <;> simp at hse
          split at hse <;> simp at hse
          subst hse; simp
        | array t' n =>
          simp only at hse
          cases a <;> simp at hse
          split at hse <;> simp at hse
          subst hse; simp
        | tuple ts =>
          simp only at hse
          cases a <;> simp at hse
          split at hse <;> simp at hse
          subst hse; simp
        | map k v =>
          simp only at hse
          cases a <;> simp at hse
          split at hse <;> simp at hse
          subst hse; simp
        | struct n ps deny d =>
          simp only at hse
          cases a <;> simp at hse
          split at hse <;> simp at hse
          subst hse; simp
        | box t' => simp only at h hse; exact ih t' h f a j hse
        | newtype n t' c d => simp only at h hse; exact ih t' h f a j hse
        | enum n tag vs deny d bes =>
          simp only at h hse
          cases a <;> simp at hse
          rename_i i p
          cases hv : vs[i]? with
          | none => rw [hv] at hse; simp at hse
          | some vr =>
            rw [hv] at hse
            simp only at hse
            cases tag with
            | untagged => simp at h
            | external =>
              simp only at hse
              split at hse
              · simp at hse; subst hse; simp
              · split at hse <;> simp at hse
                subst hse; simp
            | adjacent tg ct =>
              simp only at hse
              split at hse
              · simp at hse; subst hse; simp
              · split at hse <;> simp at hse
                subst hse; simp
            | internal tg =>
              simp only at hse
              split at hse
              · simp at hse; subst hse; simp
              · simp at hse
              · split at hse <;> simp at hse
                subst hse; simp
              · simp at hse
              · split at hse <;> simp at hse
                subst hse; simp
        | _ => simp at h

end TypifyModel.RoundTrip

import TypifyModel.Proofs.Lemmas.MergeObj
/-! C09: `mergeTyped`, `mergeBody`. -/
set_option linter.unusedSimpArgs false
set_option linter.unusedVariables false
namespace TypifyModel.Merge
open TypifyModel TypifyModel.Validate

variable {x : Ext} {d : Doc}

theorem mergeTyped_spec {rec : Schema → Schema → MR} (hrec : RecOK x d rec) (a b : Schema) :
    Spec x d (mergeTyped rec a b) a b := by
  unfold mergeTyped
  split
  · exact Inter_self _
  · exact Inter_self _
  · exact Inter_self _
  · split
    · exact int_inter _ _ _ _
    · trivial
  · trivial
  · trivial
  · rename_i mn mx p mn' mx' p'
    split
    · rename_i heq
      simp only [Bool.and_eq_true, beq_iff_eq] at heq
      obtain ⟨⟨rfl, rfl⟩, rfl⟩ := heq
      exact Inter_self _
    · split
      · rename_i habs
        exact str_absent_inter habs _ rfl
      · split
        · rename_i habs
          exact (str_absent_inter habs _ rfl).symm
        · trivial
  · exact array_array_spec hrec _ _ _ _ _ _ _ _
  · rename_i ia mna mxa ua ts
    split
    · trivial
    · rename_i hc
      have hua : ua = false := by revert hc; cases ua <;> simp
      subst hua
      exact array_tuple_spec hrec ia mna mxa ts
  · rename_i ts ib mnb mxb ub
    split
    · trivial
    · rename_i hc
      have hub : ub = false := by revert hc; cases ub <;> simp
      subst hub
      rw [omaxN_comm, ominN_comm]
      exact (array_tuple_spec hrec ib mnb mxb ts).symm
  · rename_i ts ts'
    split
    · trivial
    · exact tuple_tuple_spec hrec ts ts'
  · exact object_spec hrec _ _ _ _ _ _
  · exact spec_default a b

theorem isAny_eq {s : Schema} (h : isAny s = true) : s = .any := by
  cases s <;> simp [isAny] at h ⊢

theorem enumOf_eq {s : Schema} {vs : List Json} (h : enumOf s = some vs) : s = .enumVals vs := by
  cases s <;> simp [enumOf] at h ⊢
  exact h

theorem Inter_any_left (b : Schema) : Inter x d b .any b := by
  apply Inter_right
  intro v f2 f3 ba h2 _
  obtain ⟨f', rfl⟩ := ne_zero_of_valid h2
  rw [valid_any] at h2
  exact (Option.some.inj h2).symm

theorem mergeBody_spec (te : Bool) {rec : Schema → Schema → MR} (hrec : RecOK x d rec) (a b : Schema) :
    Spec x d (mergeBody te rec a b) a b := by
  unfold mergeBody
  split
  · rename_i ha
    rw [isAny_eq ha]
    exact Inter_any_left b
  · split
    · rename_i hb
      rw [isAny_eq hb]
      exact (Inter_any_left a).symm
    · split
      · rename_i va vb hea heb
        rw [enumOf_eq hea, enumOf_eq heb]
        exact enum_enum_spec va vb
      · rename_i va hea heb
        rw [enumOf_eq hea]
        exact enumWith_spec te va b
      · rename_i vb hea heb
        rw [enumOf_eq heb]
        exact (enumWith_spec te vb a).symm
      · exact mergeTyped_spec hrec a b

end TypifyModel.Merge

import TypifyModel.Proofs.Lemmas.MergeObj
/-! C09: soundness of (the strict form of) `roughly` and of the syntactic disjointness test `apart`. -/
set_option linter.unusedSimpArgs false
set_option linter.unusedVariables false
namespace TypifyModel.Merge
open TypifyModel TypifyModel.Validate

variable {x : Ext} {d : Doc}

inductive All2 {α β : Type} (R : α → β → Prop) : List α → List β → Prop where
  | nil : All2 R [] []
  | cons {a : α} {b : β} {l₁ : List α} {l₂ : List β} : R a b → All2 R l₁ l₂ → All2 R (a :: l₁) (b :: l₂)

/-- same verdict at every fuel -/
def Eqv (x : Ext) (d : Doc) (a b : Schema) : Prop := ∀ f v, valid x d f a v = valid x d f b v

theorem allV_congr {xs ys : List Schema} (h : All2 (Eqv x d) xs ys) (f : Nat) (v : Json) :
    allV (fun s => valid x d f s v) xs = allV (fun s => valid x d f s v) ys := by
  induction h with
  | nil => rfl
  | cons hab _ ih => simp only [allV]; rw [hab f v, ih]

theorem countV_congr {xs ys : List Schema} (h : All2 (Eqv x d) xs ys) (f : Nat) (v : Json) :
    countV (fun s => valid x d f s v) xs = countV (fun s => valid x d f s v) ys := by
  induction h with
  | nil => rfl
  | cons hab _ ih => simp only [countV]; rw [hab f v, ih]

theorem zipV_congr {xs ys : List Schema} (h : All2 (Eqv x d) xs ys) (f : Nat) :
    ∀ js, zipV (valid x d f) xs js = zipV (valid x d f) ys js := by
  induction h with
  | nil => intro js; rfl
  | cons hab _ ih =>
    intro js
    cases js with
    | nil => rfl
    | cons j r => simp only [zipV]; rw [hab f j, ih r]

/-- same keys, values with equal verdicts -/
def PropsEqv (x : Ext) (d : Doc) (pa pb : List (String × Schema)) : Prop :=
  (∀ p ∈ pa, ∃ q, pb.find? (fun q => q.1 == p.1) = some q ∧ Eqv x d p.2 q.2) ∧
  (∀ q ∈ pb, (pa.find? (fun p => p.1 == q.1)).isSome = true)

theorem find_congr {pa pb : List (String × Schema)} (h : PropsEqv x d pa pb) (f : Nat) (k : String) (w : Json) (r : Option Bool) :
    (match pa.find? (fun p => p.1 == k) with | some q => valid x d f q.2 w | none => r) =
    (match pb.find? (fun p => p.1 == k) with | some q => valid x d f q.2 w | none => r) := by
  cases hfa : pa.find? (fun p => p.1 == k) with
  | some p =>
    obtain ⟨hpk, hpm⟩ := find_key hfa
    obtain ⟨q, hq, he⟩ := h.1 p hpm
    rw [hpk] at hq
    rw [hq]
    exact he f w
  | none =>
    cases hfb : pb.find? (fun p => p.1 == k) with
    | none => rfl
    | some q =>
      obtain ⟨hqk, hqm⟩ := find_key hfb
      have := h.2 q hqm
      rw [hqk, hfa] at this
      simp at this

theorem all_contains_congr {ra rb : List String} (h1 : ra.all (rb.contains ·) = true) (h2 : rb.all (ra.contains ·) = true)
    (P : String → Bool) : ra.all P = rb.all P := by
  apply Bool.eq_iff_iff.mpr
  simp only [List.all_eq_true, List.contains_eq_mem, decide_eq_true_eq] at h1 h2 ⊢
  exact ⟨fun h r hr => h r (h2 r hr), fun h r hr => h r (h1 r hr)⟩

theorem roughlyL_sound {r : Schema → Schema → Bool} (ih : ∀ a b, r a b = true → Eqv x d a b) :
    ∀ (xs ys : List Schema), listRough r xs ys = true → All2 (Eqv x d) xs ys := by
  intro xs
  induction xs with
  | nil => intro ys h; cases ys with
    | nil => exact .nil
    | cons _ _ => simp [listRough] at h
  | cons a rest ihl =>
    intro ys h
    cases ys with
    | nil => simp [listRough] at h
    | cons b r' =>
      simp only [listRough, Bool.and_eq_true] at h
      exact .cons (ih a b h.1) (ihl r' h.2)

theorem beqList_eq' {va vb : List Json} (h : Json.beqList va vb = true) : va = vb := beqList_eq va vb h

theorem membersV_congr {pa pb : List (String × Schema)} {da db : Additional Schema} (f : Nat)
    (hp : PropsEqv x d pa pb)
    (hd : ∀ w, addlV (valid x d f) da w = addlV (valid x d f) db w) :
    ∀ kvs, membersV (valid x d f) pa da kvs = membersV (valid x d f) pb db kvs := by
  intro kvs
  induction kvs with
  | nil => rfl
  | cons kv rest ih =>
    obtain ⟨k, w⟩ := kv
    rw [membersV_cons, membersV_cons, ih]
    congr 1
    unfold hereV
    rw [← hd w]
    exact find_congr hp f k w _

/-- the strict `roughly` implies equal verdicts -/
theorem roughly_sound : ∀ (fr : Nat) (a b : Schema), roughlyX true fr a b = true → Eqv x d a b := by
  intro fr
  induction fr with
  | zero => intro a b h; rw [roughlyX] at h; simp at h
  | succ fr ih =>
    intro a b h f v
    cases f with
    | zero => rw [valid_zero, valid_zero]
    | succ f =>
      cases a <;> cases b <;> (try simp only [roughlyX, Bool.false_eq_true] at h)
      · rfl
      · rfl
      · rfl
      · rfl
      · simp only [Bool.and_eq_true, beq_iff_eq] at h
        obtain ⟨rfl, rfl⟩ := h; rfl
      · rfl
      · simp only [Bool.and_eq_true, beq_iff_eq] at h
        obtain ⟨⟨rfl, rfl⟩, rfl⟩ := h; rfl
      · rw [beqList_eq' h]
      · simp only [beq_iff_eq] at h; subst h; rfl
      · rename_i ia mna mxa ua ib mnb mxb ub
        simp only [Bool.and_eq_true, Bool.not_true, Bool.false_or, beq_iff_eq] at h
        obtain ⟨hi, ⟨rfl, rfl⟩, rfl⟩ := h
        rw [valid_array, valid_array]
        cases v with
        | arr xs =>
          simp only
          have : valid x d f ia = valid x d f ib := funext (fun w => ih ia ib hi f w)
          rw [this]
        | _ => rfl
      · rename_i ts ts'
        rw [valid_tuple, valid_tuple]
        cases v with
        | arr xs => exact zipV_congr (roughlyL_sound ih ts ts' h) f xs
        | _ => rfl
      · rename_i pa ra da pb rb db
        simp only [Bool.and_eq_true] at h
        simp only [propsRough, Bool.and_eq_true] at h
        obtain ⟨⟨⟨⟨hp, hq⟩, hr1⟩, hr2⟩, hd⟩ := h
        have hprops : PropsEqv x d pa pb := by
          refine ⟨?_, ?_⟩
          · intro p hpm
            have := (List.all_eq_true.mp hp) p hpm
            cases hfb : pb.find? (fun q => q.1 == p.1) with
            | none => rw [hfb] at this; simp at this
            | some q => rw [hfb] at this; exact ⟨q, rfl, ih _ _ this⟩
          · intro q hqm
            exact (List.all_eq_true.mp hq) q hqm
        rw [valid_object, valid_object]
        cases v with
        | obj kvs =>
          simp only
          rw [all_contains_congr hr1 hr2]
          congr 1
          apply membersV_congr f hprops
          intro w
          cases da <;> cases db <;> simp only [Bool.false_eq_true] at hd <;> try rfl
          exact ih _ _ hd f w
        | _ => rfl
      · rename_i xs ys
        rw [valid_oneOf, valid_oneOf, countV_congr (roughlyL_sound ih xs ys h) f v]
      · rename_i xs ys
        rw [valid_anyOf, valid_anyOf, countV_congr (roughlyL_sound ih xs ys h) f v]
      · rename_i xs ys
        rw [valid_allOf, valid_allOf, allV_congr (roughlyL_sound ih xs ys h) f v]
      · rename_i s t
        rw [valid_not, valid_not, ih s t h f v]

theorem roughGap_nil {fr : Nat} {m s : Schema} (h : roughGap fr m s = []) : Eqv x d m s := by
  unfold roughGap at h
  split at h
  · rename_i hr; exact roughly_sound fr m s hr
  · simp at h

/-! ### disjointness -/

theorem valid_deref {f : Nat} {s : Schema} {v : Json} (h : valid x d f s v = some true) :
    ∃ f', valid x d f' (deref1 d s) v = some true := by
  cases s with
  | ref k =>
    obtain ⟨f', rfl⟩ := ne_zero_of_valid h
    rw [valid_ref] at h
    simp only [deref1]
    cases hk : d.get k with
    | none => rw [hk] at h; simp at h
    | some r => rw [hk] at h; exact ⟨f', by simpa using h⟩
  | _ => exact ⟨f, h⟩

theorem membersV_nil_open (g : Schema → Json → Option Bool) : ∀ kvs, membersV g [] .open_ kvs = some true := by
  intro kvs
  induction kvs with
  | nil => rfl
  | cons kv r ih => obtain ⟨k, w⟩ := kv; simp only [membersV, List.find?_nil, ih]; rfl

theorem enumsDisjoint_sound {va vb : List Json} (h : enumsDisjoint va vb = true) {v : Json}
    (h1 : v ∈ va) (h2 : v ∈ vb) : False := by
  simp only [enumsDisjoint, List.all_eq_true, Bool.not_eq_true'] at h
  have := h v h1
  rw [any_beq_iff.mpr h2] at this
  simp at this

theorem obj_valid_parts {f : Nat} {ps : List (String × Schema)} {req : List String} {ad : Additional Schema} {v : Json}
    (h : valid x d (f + 1) (.object ps req ad) v = some true) :
    ∃ kvs, v = .obj kvs ∧ (∀ r ∈ req, ∃ w, (r, w) ∈ kvs) ∧ membersV (valid x d f) ps ad kvs = some true := by
  rw [valid_object] at h
  cases v with
  | obj kvs =>
    simp only at h
    obtain ⟨h1, h2⟩ := and3_true' h
    simp only [Option.some.injEq, List.all_eq_true] at h1
    refine ⟨kvs, rfl, ?_, h2⟩
    intro r hr
    obtain ⟨w, hw⟩ := Option.isSome_iff_exists.mp (h1 r hr)
    exact ⟨w, lookup_mem' hw⟩
  | _ => simp at h

theorem closedApart_sound {px : List (String × Schema)} {rx : List String} {dx : Additional Schema}
    {py : List (String × Schema)} {ry : List String} {dy : Additional Schema}
    (h : closedApart rx py dy = true) : Disj x d (.object px rx dx) (.object py ry dy) := by
  intro v f2 f3 hh
  obtain ⟨h2, h3⟩ := hh
  obtain ⟨f2', rfl⟩ := ne_zero_of_valid h2
  obtain ⟨f3', rfl⟩ := ne_zero_of_valid h3
  obtain ⟨kvs, rfl, hreq, _⟩ := obj_valid_parts h2
  obtain ⟨kvs', hv, _, hmem⟩ := obj_valid_parts h3
  simp only [Json.obj.injEq] at hv
  subst hv
  simp only [closedApart, Bool.and_eq_true, List.any_eq_true, Bool.not_eq_true', List.any_eq_false, beq_iff_eq] at h
  obtain ⟨hcl, r, hr, hnot⟩ := h
  obtain ⟨w, hw⟩ := hreq r hr
  have hB := members_mem hmem r w hw
  unfold hereV at hB
  have hnone : py.find? (fun p => p.1 == r) = none := by
    apply List.find?_eq_none.mpr
    intro p hp
    simpa using hnot p hp
  rw [hnone] at hB
  cases dy <;> simp [isClosed] at hcl
  simp [addlV] at hB

theorem tagApart_sound {px : List (String × Schema)} {rx : List String} {dx : Additional Schema}
    {py : List (String × Schema)} {ry : List String} {dy : Additional Schema}
    (h : tagApart px rx py ry = true) : Disj x d (.object px rx dx) (.object py ry dy) := by
  intro v f2 f3 hh
  obtain ⟨h2, h3⟩ := hh
  obtain ⟨f2', rfl⟩ := ne_zero_of_valid h2
  obtain ⟨f3', rfl⟩ := ne_zero_of_valid h3
  obtain ⟨kvs, rfl, hreq, hmemA⟩ := obj_valid_parts h2
  obtain ⟨kvs', hv, _, hmemB⟩ := obj_valid_parts h3
  simp only [Json.obj.injEq] at hv
  subst hv
  simp only [tagApart, List.any_eq_true, Bool.and_eq_true] at h
  obtain ⟨r, hr, _, hm⟩ := h
  obtain ⟨w, hw⟩ := hreq r hr
  have hA := members_mem hmemA r w hw
  have hB := members_mem hmemB r w hw
  unfold hereV at hA hB
  split at hm
  · rename_i k1 va k2 vb hfa hfb
    rw [hfa] at hA
    rw [hfb] at hB
    simp only at hA hB
    obtain ⟨fa, rfl⟩ := ne_zero_of_valid hA
    obtain ⟨fb, rfl⟩ := ne_zero_of_valid hB
    rw [valid_enum] at hA hB
    simp only [Option.some.injEq] at hA hB
    exact enumsDisjoint_sound hm (any_beq_iff.mp hA) (any_beq_iff.mp hB)
  · simp at hm

theorem apart0_sound {a b : Schema} (h : apart0 a b = true) : Disj x d a b := by
  unfold apart0 at h
  split at h
  · rename_i va vb
    intro v f2 f3 hh
    obtain ⟨h2, h3⟩ := hh
    obtain ⟨f2', rfl⟩ := ne_zero_of_valid h2
    obtain ⟨f3', rfl⟩ := ne_zero_of_valid h3
    rw [valid_enum] at h2 h3
    simp only [Option.some.injEq] at h2 h3
    exact enumsDisjoint_sound h (any_beq_iff.mp h2) (any_beq_iff.mp h3)
  · simp only [Bool.or_eq_true] at h
    rcases h with (h | h) | h
    · exact tagApart_sound h
    · exact closedApart_sound h
    · exact (closedApart_sound h).symm
  · split at h
    · rename_i ta tb ha hb
      intro v f2 f3 hh
      exact disjointTy_sound h ⟨valid_ty ha hh.1, valid_ty hb hh.2⟩
    · simp at h

theorem apart_sound {a b : Schema} (h : apart d a b = true) : Disj x d a b := by
  intro v f2 f3 hh
  obtain ⟨fa, ha⟩ := valid_deref hh.1
  obtain ⟨fb, hb⟩ := valid_deref hh.2
  exact apart0_sound h v fa fb ⟨ha, hb⟩

theorem pairwiseApart_sound : ∀ (xs : List Schema), pairwiseApart d xs = true → List.Pairwise (Disj x d) xs := by
  intro xs
  induction xs with
  | nil => intro _; exact .nil
  | cons a r ih =>
    intro h
    simp only [pairwiseApart, Bool.and_eq_true, List.all_eq_true] at h
    exact .cons (fun b hb => apart_sound (h.1 b hb)) (ih h.2)

end TypifyModel.Merge

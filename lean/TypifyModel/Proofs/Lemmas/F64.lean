import TypifyModel.Model.Integer
/-! Facts about the model of f64 rounding used by `convert_integer`. -/
namespace TypifyModel.Integer

theorem roundNat_of_lt {n : Nat} (h : n < 2 ^ 53) : roundNat n = n := by
  unfold roundNat; simp [h]

theorem roundNat_ge {n : Nat} (h : 2 ^ 53 ≤ n) : 2 ^ 53 ≤ roundNat n := by
  unfold roundNat
  have hn : ¬ n < 2 ^ 53 := by omega
  simp only [hn, if_false]
  have hne : n ≠ 0 := by
    intro h0; subst h0; simp at h
  have hlog : 53 ≤ Nat.log2 n := (Nat.le_log2 hne).mpr h
  have hpow : 2 ^ Nat.log2 n ≤ n := Nat.log2_self_le hne
  -- q ≥ 2^52
  have hsplit : 2 ^ Nat.log2 n = 2 ^ 52 * 2 ^ (Nat.log2 n - 52) := by
    rw [← Nat.pow_add]; congr 1; omega
  have hq : 2 ^ 52 ≤ n / 2 ^ (Nat.log2 n - 52) := by
    rw [Nat.le_div_iff_mul_le (Nat.two_pow_pos _)]
    rw [← hsplit]; exact hpow
  have hq' : 2 ^ 52 ≤
      (if 2 ^ (Nat.log2 n - 52 - 1) < n % 2 ^ (Nat.log2 n - 52) ∨
          (n % 2 ^ (Nat.log2 n - 52) = 2 ^ (Nat.log2 n - 52 - 1) ∧ n / 2 ^ (Nat.log2 n - 52) % 2 = 1)
        then n / 2 ^ (Nat.log2 n - 52) + 1 else n / 2 ^ (Nat.log2 n - 52)) := by
    split <;> omega
  have he : 2 ≤ 2 ^ (Nat.log2 n - 52) := by
    have : 1 ≤ Nat.log2 n - 52 := by omega
    calc 2 = 2 ^ 1 := by decide
      _ ≤ 2 ^ (Nat.log2 n - 52) := Nat.pow_le_pow_right (by decide) this
  calc 2 ^ 53 = 2 ^ 52 * 2 := by decide
    _ ≤ _ := Nat.mul_le_mul hq' he

/-- a rounded value of small magnitude is exact -/
theorem roundF64_small {x : Int} (h : -(2 ^ 53) < roundF64 x ∧ roundF64 x < 2 ^ 53) : roundF64 x = x := by
  unfold roundF64 at *
  by_cases hx : 0 ≤ x
  · rw [if_pos hx] at h ⊢
    by_cases hlt : x.toNat < 2 ^ 53
    · rw [roundNat_of_lt hlt]; omega
    · have := roundNat_ge (n := x.toNat) (by omega)
      omega
  · rw [if_neg hx] at h ⊢
    by_cases hlt : (-x).toNat < 2 ^ 53
    · rw [roundNat_of_lt hlt]; omega
    · have := roundNat_ge (n := (-x).toNat) (by omega)
      omega

theorem roundF64_of_small {x : Int} (h : -(2 ^ 53) < x ∧ x < 2 ^ 53) : roundF64 x = x := by
  unfold roundF64
  by_cases hx : 0 ≤ x
  · rw [if_pos hx]
    rw [roundNat_of_lt (by omega)]; omega
  · rw [if_neg hx]
    rw [roundNat_of_lt (by omega)]; omega

end TypifyModel.Integer

import TypifyModel.Model.Render
/-! Helper lemmas for the Render model (C19, C17). -/
namespace TypifyModel.Render

theorem mem_insertSet {s a : String} {l : List String} : s ∈ insertSet a l ↔ s = a ∨ s ∈ l := by
  induction l with
  | nil => simp [insertSet]
  | cons b r ih =>
    unfold insertSet
    split
    · simp
    · split
      · rename_i h; subst h; simp
      · simp [ih]; constructor
        · rintro (h | h | h) <;> simp [h]
        · rintro (h | h | h) <;> simp [h]

theorem mem_foldl_insertSet {s : String} (l acc : List String) :
    s ∈ l.foldl (fun acc s => insertSet s acc) acc ↔ s ∈ l ∨ s ∈ acc := by
  induction l generalizing acc with
  | nil => simp
  | cons a r ih =>
    simp only [List.foldl_cons, ih, mem_insertSet, List.mem_cons]
    constructor
    · rintro (h | h | h) <;> simp [h]
    · rintro ((h | h) | h) <;> simp [h]

theorem mem_toSet {s : String} {l : List String} : s ∈ toSet l ↔ s ∈ l := by
  unfold toSet; rw [mem_foldl_insertSet]; simp

theorem isStrInner_spec {σ : Space} {i : Id} (h : isStrInner σ i = true) :
    ∃ ed im, σ.get i = some ⟨.string, ed, im⟩ := by
  unfold isStrInner at h
  split at h
  · rename_i ed im hg; exact ⟨ed, im, hg⟩
  · simp at h

theorem isStrInner_of {σ : Space} {i : Id} {ed : List String} {im : List Impl}
    (h : σ.get i = some ⟨.string, ed, im⟩) : isStrInner σ i = true := by
  unfold isStrInner; rw [h]

theorem mem_newtypeDerives {tb : DeriveTables} {s c : Bool} {t : String}
    (h : t ∈ newtypeDerives tb s c) : t ∈ tb.base ∨ (s = true ∧ t ∈ tb.strNewtype) := by
  unfold newtypeDerives at h
  have key : t ∈ tb.base ++ (if s = true then tb.strNewtype else []) →
      t ∈ tb.base ∨ (s = true ∧ t ∈ tb.strNewtype) := by
    intro hm
    rcases List.mem_append.mp hm with hm | hm
    · exact Or.inl hm
    · cases s <;> simp at hm
      exact Or.inr ⟨rfl, hm⟩
  cases c
  · simpa using key h
  · simp only [if_true] at h
    exact key (List.mem_filter.mp h).1

theorem mem_newtypeDerives_base {tb : DeriveTables} {s c : Bool} {t : String}
    (h : t ∈ tb.base) (hne : t ≠ "::serde::Deserialize") : t ∈ newtypeDerives tb s c := by
  unfold newtypeDerives
  cases c
  · simp [h]
  · simp [h, hne]

theorem mem_newtypeDerives_str {tb : DeriveTables} {c : Bool} {t : String}
    (h : t ∈ tb.strNewtype) (hne : t ≠ "::serde::Deserialize") : t ∈ newtypeDerives tb true c := by
  unfold newtypeDerives
  cases c
  · simp [h]
  · simp [h, hne]

theorem deser_not_mem_constrained {tb : DeriveTables} {s : Bool} :
    "::serde::Deserialize" ∉ newtypeDerives tb s true := by
  unfold newtypeDerives
  simp

theorem deser_mem_unconstrained {tb : DeriveTables} {s : Bool} (h : "::serde::Deserialize" ∈ tb.base) :
    "::serde::Deserialize" ∈ newtypeDerives tb s false := by
  unfold newtypeDerives
  simp [h]

end TypifyModel.Render

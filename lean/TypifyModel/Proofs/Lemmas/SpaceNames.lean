import TypifyModel.Proofs.Lemmas.SpaceInv
/-! C16 helpers for `no_dup_defs`: which names a conversion can register (`assigned`, syntactic), the
    property `NameInj` (every named entry is the one `name_to_id` points to — hence names are unique),
    its unconditional preservation by `assign_type` / `convertLite` / `add_type_with_name`, and its
    preservation by a batch under the named hypotheses `DistinctBatches` and `NoNameCollision`. -/
set_option autoImplicit false
namespace TypifyModel.Space
open TypifyModel.Names (Str)

/-! ### names a conversion can register -/

/-- the name of the entry `convertLite _ n s` answers, when it is a named one -/
def topName (n : Name) (s : Sch) : Option Str :=
  match s with
  | .obj t _ _ _ => getTypeName n t
  | .enumStr t _ => getTypeName n t
  | _ => none

/-- the names `convertLite f n s` can hand to `assign_type` (inline types below the top level) -/
def assigned : Nat → Name → Sch → List Str
  | 0, _, _ => []
  | f + 1, n, s =>
    match s with
    | .arr t item => (topName (itemName n t) item).toList ++ assigned f (itemName n t) item
    | .nullable inner => (topName (innerName n) inner).toList ++ assigned f (innerName n) inner
    | .obj t props _ _ =>
      props.flatMap (fun p => (topName (propName (getTypeName n t) p.1) p.2).toList
                              ++ assigned f (propName (getTypeName n t) p.1) p.2)
    | _ => []

/-- the name of the entry `convert_ref_type` puts at a definition's id -/
def defName (d : RefKey × Sch) : Option Str := getTypeName (keyName d.1) d.2.title

def batchNames (defs : List (RefKey × Sch)) : List Str := defs.filterMap defName

def batchAssigned (fuel : Nat) (defs : List (RefKey × Sch)) : List Str :=
  defs.flatMap (fun d => assigned fuel (keyName d.1) d.2)

/-- hypothesis: the names of the batch's definitions (sanitised keys, title of the root) are pairwise
    distinct, and no inline type of the batch takes one of them -/
def NoNameCollision (fuel : Nat) (defs : List (RefKey × Sch)) : Prop :=
  (batchNames defs).Nodup ∧ ∀ x ∈ batchNames defs, x ∉ batchAssigned fuel defs

/-- hypothesis: no name of the batch's definitions is taken in the space already (in particular no
    definition is added a second time) -/
def DistinctBatches (defs : List (RefKey × Sch)) (σ : State) : Prop :=
  ∀ x ∈ batchNames defs, alookup σ.nameToId x = none

instance (fuel : Nat) (defs : List (RefKey × Sch)) : Decidable (NoNameCollision fuel defs) := by
  unfold NoNameCollision; infer_instance

instance (defs : List (RefKey × Sch)) (σ : State) : Decidable (DistinctBatches defs σ) := by
  unfold DistinctBatches; infer_instance

/-- a named result of the conversion carries `topName` -/
theorem convertLite_topName {f : Nat} {n : Name} {s : Sch} {σ σ' : State} {e : Details} {nm : Str}
    (h : convertLite f n s σ = .ok (e, σ')) (hn : e.name? = some nm) : topName n s = some nm := by
  have hg := convertLite_named h hn
  cases f with
  | zero => simp [convertLite] at h
  | succ f =>
    cases s with
    | obj t props req closed => exact hg
    | enumStr t vals => exact hg
    | str t => simp only [convertLite, R.ok.injEq, Prod.mk.injEq] at h; rw [← h.1] at hn; cases hn
    | int t => simp only [convertLite, R.ok.injEq, Prod.mk.injEq] at h; rw [← h.1] at hn; cases hn
    | bool t => simp only [convertLite, R.ok.injEq, Prod.mk.injEq] at h; rw [← h.1] at hn; cases hn
    | ref t k =>
      simp only [convertLite] at h
      split at h
      · cases h
      · simp only [R.ok.injEq, Prod.mk.injEq] at h; rw [← h.1] at hn; cases hn
    | arr t item =>
      simp only [convertLite] at h
      split at h
      · cases h
      · simp only [R.ok.injEq, Prod.mk.injEq] at h; rw [← h.1] at hn; cases hn
    | nullable inner =>
      simp only [convertLite] at h
      split at h
      · cases h
      · simp only [R.ok.injEq, Prod.mk.injEq] at h; rw [← h.1] at hn; cases hn

/-- `m` is bound in `name_to_id` -/
def HasName (σ : State) (m : Str) : Prop := alookup σ.nameToId m ≠ none

theorem assignType_names {e : Details} {σ : State} {m : Str} (h : HasName (assignType e σ).2 m) :
    HasName σ m ∨ e.name? = some m := by
  have hc := assignType_cases e σ
  generalize assignType e σ = p at hc h
  cases hc with
  | ref => exact Or.inl h
  | nameHit => exact Or.inl h
  | nameNew n _ hn _ =>
    unfold HasName at h
    change alookup ((n, σ.nextId) :: σ.nameToId) m ≠ none at h
    rw [alookup_cons] at h
    split at h
    · rename_i hnm; right; rw [← hnm]; exact hn
    · exact Or.inl h
  | typeHit => exact Or.inl h
  | typeNew => exact Or.inl h

theorem propResult_names {req : List Str} {pn : Str} {p : Nat × State} {fld : Field} {σ' : State} {m : Str}
    (h : propResult req pn p = .ok (fld, σ')) (hm : HasName σ' m) : HasName p.2 m := by
  unfold propResult at h
  dsimp only at h
  split at h
  · simp only [R.ok.injEq, Prod.mk.injEq] at h; rw [← h.2] at hm; exact hm
  · split at h
    · simp only [R.ok.injEq, Prod.mk.injEq] at h; rw [← h.2] at hm; exact hm
    · simp only [R.ok.injEq, Prod.mk.injEq] at h
      rw [← h.2] at hm
      rcases assignType_names hm with h1 | h1
      · exact h1
      · cases h1

theorem structMembers_names {rec : Name → Sch → State → R (Details × State)} {A : Name → Sch → List Str}
    (hrec : ∀ n s σ e σ' m, rec n s σ = .ok (e, σ') → HasName σ' m → HasName σ m ∨ m ∈ A n s)
    (htop : ∀ n s σ e σ' nm, rec n s σ = .ok (e, σ') → e.name? = some nm → topName n s = some nm)
    {base : Option Str} {req : List Str} : ∀ (ps : List (Str × Sch)) (σ σ' : State) (fs : List Field) (m : Str),
    structMembers rec base req ps σ = .ok (fs, σ') → HasName σ' m →
    HasName σ m ∨ m ∈ ps.flatMap (fun p => (topName (propName base p.1) p.2).toList ++ A (propName base p.1) p.2) := by
  intro ps
  induction ps with
  | nil =>
    intro σ σ' fs m h hm
    simp only [structMembers, R.ok.injEq, Prod.mk.injEq] at h
    rw [← h.2] at hm; exact Or.inl hm
  | cons hd tl ih =>
    obtain ⟨pn, s⟩ := hd
    intro σ σ' fs m h hm
    simp only [structMembers] at h
    split at h
    · cases h
    · rename_i fld σ1 hp
      split at h
      · cases h
      · rename_i fs' σ2 ht
        simp only [R.ok.injEq, Prod.mk.injEq] at h
        rw [← h.2] at hm
        simp only [List.flatMap_cons, List.mem_append]
        rcases ih _ _ _ m ht hm with h1 | h1
        · -- the name was there after the first property
          unfold structProperty at hp
          split at hp
          · cases hp
          · rename_i e σa hr
            have h2 := propResult_names hp h1
            rcases assignType_names h2 with h3 | h3
            · rcases hrec _ _ _ _ _ m hr h3 with h4 | h4
              · exact Or.inl h4
              · exact Or.inr (Or.inl (Or.inr h4))
            · have := htop _ _ _ _ _ _ hr h3
              exact Or.inr (Or.inl (Or.inl (by rw [this]; simp)))
        · exact Or.inr (Or.inr h1)

/-- the names bound after a conversion are the names bound before plus (some of) `assigned` -/
theorem convertLite_names : ∀ (f : Nat) (n : Name) (s : Sch) (σ σ' : State) (e : Details) (m : Str),
    convertLite f n s σ = .ok (e, σ') → HasName σ' m → HasName σ m ∨ m ∈ assigned f n s := by
  intro f
  induction f with
  | zero => intro n s σ σ' e m h; simp [convertLite] at h
  | succ f ih =>
    intro n s σ σ' e m h hm
    have ih' : ∀ n s σ e σ' m, convertLite f n s σ = .ok (e, σ') → HasName σ' m →
        HasName σ m ∨ m ∈ assigned f n s := fun n s σ e σ' m h => ih n s σ σ' e m h
    cases s with
    | str t => simp only [convertLite, R.ok.injEq, Prod.mk.injEq] at h; rw [← h.2] at hm; exact Or.inl hm
    | int t => simp only [convertLite, R.ok.injEq, Prod.mk.injEq] at h; rw [← h.2] at hm; exact Or.inl hm
    | bool t => simp only [convertLite, R.ok.injEq, Prod.mk.injEq] at h; rw [← h.2] at hm; exact Or.inl hm
    | ref t k =>
      simp only [convertLite] at h
      split at h
      · cases h
      · simp only [R.ok.injEq, Prod.mk.injEq] at h; rw [← h.2] at hm; exact Or.inl hm
    | arr t item =>
      simp only [convertLite] at h
      split at h
      · cases h
      · rename_i e1 σ1 h1
        simp only [R.ok.injEq, Prod.mk.injEq] at h
        rw [← h.2] at hm
        simp only [assigned, List.mem_append]
        rcases assignType_names hm with h2 | h2
        · rcases ih' _ _ _ _ _ m h1 h2 with h3 | h3
          · exact Or.inl h3
          · exact Or.inr (Or.inr h3)
        · exact Or.inr (Or.inl (by rw [convertLite_topName h1 h2]; simp))
    | nullable inner =>
      simp only [convertLite] at h
      split at h
      · cases h
      · rename_i e1 σ1 h1
        simp only [R.ok.injEq, Prod.mk.injEq] at h
        rw [← h.2] at hm
        simp only [assigned, List.mem_append]
        rcases assignType_names hm with h2 | h2
        · rcases ih' _ _ _ _ _ m h1 h2 with h3 | h3
          · exact Or.inl h3
          · exact Or.inr (Or.inr h3)
        · exact Or.inr (Or.inl (by rw [convertLite_topName h1 h2]; simp))
    | obj t props req closed =>
      simp only [convertLite] at h
      split at h
      · cases h
      · rename_i fs σ1 h1
        split at h
        · cases h
        · simp only [R.ok.injEq, Prod.mk.injEq] at h
          rw [← h.2] at hm
          simp only [assigned]
          exact structMembers_names (A := assigned f) ih'
            (fun n s σ e σ' nm h hn => convertLite_topName h hn) _ _ _ _ m h1 hm
    | enumStr t vals =>
      simp only [convertLite] at h
      split at h
      · cases h
      · split at h
        · cases h
        · split at h
          · cases h
          · simp only [R.ok.injEq, Prod.mk.injEq] at h; rw [← h.2] at hm; exact Or.inl hm

/-! ### a state property kept by `assign_type` is kept by the whole conversion -/

theorem structMembers_preserves {P : State → Prop}
    (hP : ∀ e σ, Inv σ → (∀ c ∈ e.ids, c < σ.nextId) → P σ → P (assignType e σ).2)
    {rec : Name → Sch → State → R (Details × State)}
    (hinv : ∀ n s σ e σ', rec n s σ = .ok (e, σ') → Inv σ → Inv σ' ∧ ∀ c ∈ e.ids, c < σ'.nextId)
    (hrec : ∀ n s σ e σ', rec n s σ = .ok (e, σ') → Inv σ → P σ → P σ')
    {base : Option Str} {req : List Str} : ∀ (ps : List (Str × Sch)) (σ σ' : State) (fs : List Field),
    structMembers rec base req ps σ = .ok (fs, σ') → Inv σ → P σ → P σ' := by
  intro ps
  induction ps with
  | nil =>
    intro σ σ' fs h _ hp
    simp only [structMembers, R.ok.injEq, Prod.mk.injEq] at h
    rw [← h.2]; exact hp
  | cons hd tl ih =>
    obtain ⟨pn, s⟩ := hd
    intro σ σ' fs h hi hp
    simp only [structMembers] at h
    split at h
    · cases h
    · rename_i fld σ1 hprop
      split at h
      · cases h
      · rename_i fs' σ2 ht
        simp only [R.ok.injEq, Prod.mk.injEq] at h
        rw [← h.2]
        have i1 := (structProperty_inv hinv hprop hi).1
        refine ih _ _ _ ht i1 ?_
        unfold structProperty at hprop
        split at hprop
        · cases hprop
        · rename_i e σa hr
          obtain ⟨ia, hids⟩ := hinv _ _ _ _ _ hr hi
          obtain ⟨ib, hlt⟩ := assignType_inv ia hids
          have pa := hP e σa ia hids (hrec _ _ _ _ _ hr hi hp)
          unfold propResult at hprop
          dsimp only at hprop
          split at hprop
          · simp only [R.ok.injEq, Prod.mk.injEq] at hprop; rw [← hprop.2]; exact pa
          · split at hprop
            · simp only [R.ok.injEq, Prod.mk.injEq] at hprop; rw [← hprop.2]; exact pa
            · simp only [R.ok.injEq, Prod.mk.injEq] at hprop
              rw [← hprop.2]
              exact hP _ _ ib (fun c hc => by
                simp only [Details.ids, List.mem_singleton] at hc; rw [hc]; exact hlt) pa

theorem convertLite_preserves {P : State → Prop}
    (hP : ∀ e σ, Inv σ → (∀ c ∈ e.ids, c < σ.nextId) → P σ → P (assignType e σ).2) :
    ∀ (f : Nat) (n : Name) (s : Sch) (σ σ' : State) (e : Details),
    convertLite f n s σ = .ok (e, σ') → Inv σ → P σ → P σ' := by
  intro f
  induction f with
  | zero => intro n s σ σ' e h; simp [convertLite] at h
  | succ f ih =>
    intro n s σ σ' e h hi hp
    have ih' : ∀ n s σ e σ', convertLite f n s σ = .ok (e, σ') → Inv σ → P σ → P σ' :=
      fun n s σ e σ' h => ih n s σ σ' e h
    have hinv : ∀ n s σ e σ', convertLite f n s σ = .ok (e, σ') → Inv σ →
        Inv σ' ∧ ∀ c ∈ e.ids, c < σ'.nextId := fun n s σ e σ' h => convertLite_inv f n s σ σ' e h
    cases s with
    | str t => simp only [convertLite, R.ok.injEq, Prod.mk.injEq] at h; rw [← h.2]; exact hp
    | int t => simp only [convertLite, R.ok.injEq, Prod.mk.injEq] at h; rw [← h.2]; exact hp
    | bool t => simp only [convertLite, R.ok.injEq, Prod.mk.injEq] at h; rw [← h.2]; exact hp
    | ref t k =>
      simp only [convertLite] at h
      split at h
      · cases h
      · simp only [R.ok.injEq, Prod.mk.injEq] at h; rw [← h.2]; exact hp
    | arr t item =>
      simp only [convertLite] at h
      split at h
      · cases h
      · rename_i e1 σ1 h1
        simp only [R.ok.injEq, Prod.mk.injEq] at h
        obtain ⟨i1, hids⟩ := hinv _ _ _ _ _ h1 hi
        rw [← h.2]; exact hP _ _ i1 hids (ih' _ _ _ _ _ h1 hi hp)
    | nullable inner =>
      simp only [convertLite] at h
      split at h
      · cases h
      · rename_i e1 σ1 h1
        simp only [R.ok.injEq, Prod.mk.injEq] at h
        obtain ⟨i1, hids⟩ := hinv _ _ _ _ _ h1 hi
        rw [← h.2]; exact hP _ _ i1 hids (ih' _ _ _ _ _ h1 hi hp)
    | obj t props req closed =>
      simp only [convertLite] at h
      split at h
      · cases h
      · rename_i fs σ1 h1
        split at h
        · cases h
        · simp only [R.ok.injEq, Prod.mk.injEq] at h
          rw [← h.2]; exact structMembers_preserves hP hinv ih' _ _ _ _ h1 hi hp
    | enumStr t vals =>
      simp only [convertLite] at h
      split at h
      · cases h
      · split at h
        · cases h
        · split at h
          · cases h
          · simp only [R.ok.injEq, Prod.mk.injEq] at h; rw [← h.2]; exact hp

/-! ### `NameInj`: `name_to_id` is the inverse of "entry `i` has name `n`" -/

/-- every named entry is the one its name is bound to -/
def NameInj (σ : State) : Prop :=
  ∀ i e n, σ.entry i = some e → e.name? = some n → alookup σ.nameToId n = some i

/-- the named entries have pairwise distinct names -/
def NoDupDefs (σ : State) : Prop :=
  ∀ i j e1 e2 n, σ.entry i = some e1 → σ.entry j = some e2 → e1.name? = some n → e2.name? = some n → i = j

theorem NameInj.noDup {σ : State} (h : NameInj σ) : NoDupDefs σ := by
  intro i j e1 e2 n h1 h2 n1 n2
  have a := h i e1 n h1 n1
  have b := h j e2 n h2 n2
  rw [a] at b; exact Option.some.inj b

theorem nameInj_init : NameInj Space.init := by
  intro i e n h; simp [State.entry, Space.init, alookup] at h

theorem assignType_nameInj (e : Details) (σ : State) (_hi : Inv σ) (_hids : ∀ c ∈ e.ids, c < σ.nextId)
    (h : NameInj σ) : NameInj (assignType e σ).2 := by
  have hc := assignType_cases e σ
  generalize assignType e σ = p at hc ⊢
  cases hc with
  | ref => exact h
  | nameHit => exact h
  | nameNew n _ hn hnone =>
    intro i d m hd hm
    rw [allocNamed_entry] at hd
    change alookup ((n, σ.nextId) :: σ.nameToId) m = some i
    split at hd
    · rename_i hni
      cases hd
      rw [hn] at hm; cases hm
      rw [alookup_cons_self, hni]
    · have := h i d m hd hm
      have hne : n ≠ m := fun hnm => by rw [hnm, this] at hnone; cases hnone
      rw [alookup_cons_ne _ _ hne]; exact this
  | typeHit => exact h
  | typeNew _ hn _ =>
    intro i d m hd hm
    rw [allocTyped_entry] at hd
    change alookup σ.nameToId m = some i
    split at hd
    · cases hd; rw [hn] at hm; cases hm
    · exact h i d m hd hm

theorem nameInj_of_finalized {σ σ' : State} (hs : SameIdx σ σ')
    (he : ∀ i, σ'.entry i = σ.entry i ∨ σ'.entry i = (σ.entry i).map finalizeEntry) (h : NameInj σ) :
    NameInj σ' := by
  intro i e' n h' hn
  rw [hs.name]
  rcases he i with h1 | h1
  · rw [h1] at h'; exact h i e' n h' hn
  · rw [h1] at h'
    cases hσ : σ.entry i with
    | none => rw [hσ] at h'; cases h'
    | some e =>
      rw [hσ] at h'; simp only [Option.map_some, Option.some.injEq] at h'
      rw [← h', finalizeEntry_name] at hn
      exact h i e n hσ hn

theorem insertDef_nameInj {σ : State} {nm : Str} {tid : Nat} {ent : Details} (h : NameInj σ)
    (hn : ent.name? = some nm) (hfresh : alookup σ.nameToId nm = none) :
    NameInj (insertDef σ nm tid ent) := by
  intro i d m hd hm
  rw [insertDef_entry] at hd
  change alookup ((nm, tid) :: σ.nameToId) m = some i
  split at hd
  · rename_i hti
    cases hd
    rw [hn] at hm; cases hm
    rw [alookup_cons_self, hti]
  · have := h i d m hd hm
    have hne : nm ≠ m := fun hnm => by rw [hnm, this] at hfresh; cases hfresh
    rw [alookup_cons_ne _ _ hne]; exact this

/-- the names bound after `convert_ref_type`: the old ones, inline names of this definition, its own name -/
theorem convertRefType_names {fuel : Nat} {n : Name} {s : Sch} {tid : Nat} {σ σ' : State} {m : Str}
    (h : convertRefType fuel n s tid σ = .ok σ') (hm : HasName σ' m) :
    HasName σ m ∨ m ∈ assigned fuel n s ∨ getTypeName n s.title = some m := by
  obtain ⟨ent, nm, σ2, e, σ1, h1, _, hg, rfl, hc⟩ := convertRefType_cases h
  unfold HasName at hm
  change alookup ((nm, tid) :: σ2.nameToId) m ≠ none at hm
  rw [alookup_cons] at hm
  split at hm
  · rename_i hnm; right; right; rw [← hnm]; exact hg
  · have h2 : HasName σ1 m := by
      rcases hc with ⟨_, _, _, rfl⟩ | ⟨_, _, _, rfl⟩ | ⟨_, hnone, _, rfl⟩
      · exact hm
      · exact hm
      · rcases assignType_names (e := e) (σ := σ1) hm with h3 | h3
        · exact h3
        · rw [hnone] at h3; cases h3
    rcases convertLite_names _ _ _ _ _ _ m h1 h2 with h3 | h3
    · exact Or.inl h3
    · exact Or.inr (Or.inl h3)

/-- `convert_ref_type` keeps `NameInj` when the definition's name is not bound yet and none of its
    inline types takes it -/
theorem convertRefType_nameInj {fuel : Nat} {n : Name} {s : Sch} {tid : Nat} {σ σ' : State}
    (h : convertRefType fuel n s tid σ = .ok σ') (hi : Inv σ) (ht : tid < σ.nextId)
    (hnone : σ.entry tid = none) (hinj : NameInj σ)
    (hfresh : ∀ nm, getTypeName n s.title = some nm → alookup σ.nameToId nm = none ∧ nm ∉ assigned fuel n s) :
    NameInj σ' := by
  obtain ⟨ent, nm, σ2, e, σ1, h1, hn, hg, rfl, hc⟩ := convertRefType_cases h
  obtain ⟨hf1, hf2⟩ := hfresh nm hg
  obtain ⟨i1, hids⟩ := convertLite_inv _ _ _ _ _ _ h1 hi
  have hx1 := convertLite_ext _ _ _ _ _ _ h1
  have inj1 : NameInj σ1 := convertLite_preserves assignType_nameInj _ _ _ _ _ _ h1 hi hinj
  have fresh1 : alookup σ1.nameToId nm = none := by
    cases hl : alookup σ1.nameToId nm with
    | none => rfl
    | some v =>
      have : HasName σ1 nm := by unfold HasName; rw [hl]; simp
      rcases convertLite_names _ _ _ _ _ _ nm h1 this with h3 | h3
      · exact absurd hf1 h3
      · exact absurd h3 hf2
  have none1 : σ1.entry tid = none := by rw [hx1.entry tid ht]; exact hnone
  rcases hc with ⟨_, _, _, rfl⟩ | ⟨_, _, _, rfl⟩ | ⟨_, hnn, _, rfl⟩
  · exact insertDef_nameInj inj1 hn fresh1
  · exact insertDef_nameInj inj1 hn fresh1
  · have hx2 := assignType_ext e σ1
    refine insertDef_nameInj (assignType_nameInj e σ1 i1 hids inj1) hn ?_
    · cases hl : alookup (assignType e σ1).2.nameToId nm with
      | none => rfl
      | some v =>
        have : HasName (assignType e σ1).2 nm := by unfold HasName; rw [hl]; simp
        rcases assignType_names this with h3 | h3
        · exact absurd fresh1 h3
        · rw [hnn] at h3; cases h3

/-! ### the batch loop with the invariant built in -/

/-- induction over the definitions of a batch started in a state satisfying `Inv`: at every step the
    invariant holds, the definition's reserved id is below `next_id` and still empty -/
theorem convertDefs_ind_inv {fuel : Nat} {defs : List (RefKey × Sch)} {σ σ2 : State} (hσ : Inv σ)
    {P : List (RefKey × Sch) → Nat → State → Prop}
    (hstep : ∀ k s r i τ τ1, i + (r.length + 1) = defs.length → Inv τ → σ.nextId + i < τ.nextId →
      τ.entry (σ.nextId + i) = none → P ((k, s) :: r) i τ →
      convertRefType fuel (keyName k) s (σ.nextId + i) τ = .ok τ1 → P r (i + 1) τ1)
    (h : convertDefs fuel σ.nextId defs 0 (reserved defs σ) = .ok σ2)
    (h0 : P defs 0 (reserved defs σ)) : P [] defs.length σ2 ∧ Inv σ2 := by
  let Q : List (RefKey × Sch) → Nat → State → Prop := fun r i τ =>
    i + r.length = defs.length ∧ σ.nextId + defs.length ≤ τ.nextId ∧ Inv τ ∧
    (∀ j, i ≤ j → j < defs.length → τ.entry (σ.nextId + j) = none) ∧ P r i τ
  have hfin := convertDefs_ind (fuel := fuel) (base := σ.nextId) (P := Q) (by
    intro k s r i τ τ1 hq hc
    obtain ⟨hlen, hnext, it, hnone, hp⟩ := hq
    simp only [List.length_cons] at hlen
    obtain ⟨hn1, _⟩ := convertRefType_frame hc (Nat.le_add_right _ _) (by omega)
    have hnone_i := hnone i (Nat.le_refl _) (by omega)
    refine ⟨by omega, by omega, convertRefType_inv hc it (by omega) hnone_i, ?_,
      hstep k s r i τ τ1 hlen it (by omega) hnone_i hp hc⟩
    intro j hij hj
    obtain ⟨ent, nm, σ2', hx, _, _, rfl, _⟩ := convertRefType_ext2 hc
    rw [insertDef_entry]
    have : σ.nextId + i ≠ σ.nextId + j := by omega
    simp only [this, if_false]
    rw [hx.entry _ (by omega)]
    exact hnone j (by omega) hj) defs 0 _ _ h
    ⟨by simp, by rw [reserved_next]; exact Nat.le_refl _, reserved_inv hσ, fun j _ _ => by
      rw [reserved_entry]; exact hσ.entry_none (Nat.le_add_right _ _), h0⟩
  simp only [Nat.zero_add] at hfin
  exact ⟨hfin.2.2.2.2, hfin.2.2.1⟩

theorem reserved_nameToId (defs : List (RefKey × Sch)) (σ : State) :
    (reserved defs σ).nameToId = σ.nameToId := by
  unfold reserved; exact (reserve_spec _ _ _ _).2.2.2.1

theorem reserved_nameInj {defs : List (RefKey × Sch)} {σ : State} (h : NameInj σ) :
    NameInj (reserved defs σ) := by
  intro i e n he hn
  rw [reserved_entry] at he
  rw [reserved_nameToId]; exact h i e n he hn

theorem batchNames_cons (d : RefKey × Sch) (r : List (RefKey × Sch)) :
    batchNames (d :: r) = (defName d).toList ++ batchNames r := by
  unfold batchNames
  cases hd : defName d <;> simp [List.filterMap_cons, hd]

/-- a batch keeps `NameInj` under the two named hypotheses -/
theorem addRefTypesImpl_nameInj {fuel : Nat} {defs : List (RefKey × Sch)} {σ σ' : State}
    (h : addRefTypesImpl fuel defs σ = .ok σ') (hi : Inv σ) (hinj : NameInj σ)
    (hd : DistinctBatches defs σ) (hc : NoNameCollision fuel defs) : NameInj σ' := by
  obtain ⟨σ2, h2, _, h3⟩ := addRefTypesImpl_steps h
  let P : List (RefKey × Sch) → Nat → State → Prop := fun r _ τ =>
    NameInj τ ∧ (batchNames r).Nodup ∧
    (∀ x ∈ batchNames r, ∀ d ∈ r, x ∉ assigned fuel (keyName d.1) d.2) ∧
    (∀ x ∈ batchNames r, alookup τ.nameToId x = none)
  have hfin := convertDefs_ind_inv (P := P) hi (by
    intro k s r i τ τ1 _ it hlt hnone hp hcv
    obtain ⟨inj, hnd, hdis, hfr⟩ := hp
    rw [batchNames_cons] at hnd hdis hfr
    have hfresh : ∀ nm, getTypeName (keyName k) s.title = some nm →
        alookup τ.nameToId nm = none ∧ nm ∉ assigned fuel (keyName k) s := by
      intro nm hnm
      have hmem : nm ∈ (defName (k, s)).toList ++ batchNames r := by
        simp only [defName, hnm, Option.toList_some, List.singleton_append, List.mem_cons, true_or]
      exact ⟨hfr nm hmem, hdis nm hmem (k, s) List.mem_cons_self⟩
    refine ⟨convertRefType_nameInj hcv it hlt hnone inj hfresh, (List.nodup_append.mp hnd).2.1,
      fun x hx d hdm => hdis x (List.mem_append_right _ hx) d (List.mem_cons_of_mem _ hdm), ?_⟩
    intro x hx
    cases hl : alookup τ1.nameToId x with
    | none => rfl
    | some v =>
      have hn : HasName τ1 x := by unfold HasName; rw [hl]; simp
      rcases convertRefType_names hcv hn with h4 | h4 | h4
      · exact absurd (hfr x (List.mem_append_right _ hx)) h4
      · exact absurd h4 (hdis x (List.mem_append_right _ hx) (k, s) List.mem_cons_self)
      · have : x ∈ (defName (k, s)).toList := by simp [defName, h4]
        exact absurd rfl ((List.nodup_append.mp hnd).2.2 x this x hx)) h2
    ⟨reserved_nameInj hinj, hc.1, fun x hx d hdm hxa => hc.2 x hx (by
        unfold batchAssigned; exact List.mem_flatMap.mpr ⟨d, hdm, hxa⟩),
      fun x hx => by rw [reserved_nameToId]; exact hd x hx⟩
  obtain ⟨hs, _, he⟩ := finalizeFrom_spec h3
  exact nameInj_of_finalized hs he hfin.1.1

theorem addTypeWithName_nameInj {fuel : Nat} {s : Sch} {hint : Option Str} {σ σ' : State} {id : Nat}
    (h : addTypeWithName fuel s hint σ = .ok (id, σ')) (hi : Inv σ) (hinj : NameInj σ) : NameInj σ' := by
  obtain ⟨σ1, hm, hf⟩ := addTypeWithName_steps h
  unfold idForSchema at hm
  split at hm
  · cases hm
  · rename_i e σc hc
    simp only [R.ok.injEq] at hm
    obtain ⟨i1, hids⟩ := convertLite_inv _ _ _ _ _ _ hc hi
    have inj1 := convertLite_preserves assignType_nameInj _ _ _ _ _ _ hc hi hinj
    have inj2 := assignType_nameInj e σc i1 hids inj1
    rw [hm] at inj2
    obtain ⟨hs, _, he⟩ := finalizeFrom_spec hf
    exact nameInj_of_finalized hs he inj2

end TypifyModel.Space

import TypifyModel.Proofs.Lemmas.ConvAccepts2
/-! Internally and adjacently tagged unions (C02). -/
namespace TypifyModel.Conv
open TypifyModel TypifyModel.Serde TypifyModel.Validate

variable (x : Serde.Ext) (vx : Validate.Ext) (σ : Space) (d : Doc)

/-- the tag member of a valid branch is the string the branch's one-value enum names -/
theorem tag_member {m : Nat} {props : List (String × Schema)} {req : List String} {addl : Additional Schema}
    {kvs : List (String × Json)} {tg w : String} {q : String × Schema}
    (hv : valid vx d (m + 1) (.object props req addl) (.obj kvs) = some true)
    (hfind : props.find? (fun p => p.1 == tg) = some q) (hq : q.2 = .enumVals [.str w])
    (hreq : req.contains tg = true) : Json.lookup kvs tg = some (.str w) := by
  simp only [valid] at hv
  obtain ⟨hr, hmem⟩ := and3_true hv
  simp only [Option.some.injEq] at hr
  have hpres := (List.all_eq_true.mp hr) tg (by simpa using hreq)
  cases hl : Json.lookup kvs tg with
  | none => rw [hl] at hpres; simp at hpres
  | some jt =>
    have hm := lookup_mem hl
    rcases membersV_spec hmem (tg, jt) hm with ⟨q', hq', hvq⟩ | ⟨hnone, _⟩
    · simp only at hq'
      rw [hfind] at hq'
      simp only [Option.some.injEq] at hq'; subst hq'
      rw [hq] at hvq
      simp only at hvq
      cases m with
      | zero => simp [valid] at hvq
      | succ m' =>
        simp only [valid, Option.some.injEq, List.any_cons, List.any_nil, Bool.or_false] at hvq
        rw [beq_str_left hvq]
    · simp only at hnone; rw [hfind] at hnone; simp at hnone

theorem int_accepts {rec : Schema → Id → Bool} {n m : Nat} (hm : m < n) (hrec : Hrec x vx σ d rec n)
    {t : Id} {nm tg : String} {variants : List Variant} {deny : Bool} {dfl : Option Json} {bes : List Bespoke}
    {ed : List String} {im : List Impl} {ss : List Schema} {v : Json}
    (hget : σ.get t = some ⟨.enum nm (.internal tg) variants deny dfl bes, ed, im⟩)
    (hnd : nodupB (variants.map (·.wire)) = true)
    (hall : ss.all (intBranchB rec σ deny tg variants) = true)
    {c : Nat} (hc : countV (fun s' => valid vx d m s' v) ss = some c) (hpos : 0 < c) (f : Nat) :
    NR (de x σ (f + 1) t v) := by
  obtain ⟨k, s, hk, hs⟩ := countV_pos hc hpos
  have hbr := (List.all_eq_true.mp hall) s (List.mem_of_getElem? hk)
  unfold intBranchB at hbr
  split at hbr
  · rename_i props req addl
    split at hbr
    · rename_i q0 w hfind
      simp only [Bool.and_eq_true] at hbr
      obtain ⟨hreq, hbr⟩ := hbr
      cases m with
      | zero => simp [valid] at hs
      | succ m' =>
        cases v with
        | obj kvs =>
          have htag := tag_member vx d hs hfind rfl hreq
          simp only [de, hget, htag]
          split at hbr
          · rename_i vr hvr
            obtain ⟨i, hi, hgi⟩ := find_findIdx hvr
            rw [hi]
            simp only [hgi]
            -- the branch without its tag member is valid for the object without its tag member
            have hv' : valid vx d (m' + 1) (.object (props.filter (fun p => p.1 != tg)) (req.filter (· != tg)) addl)
                (.obj (Json.erase kvs tg)) = some true := by
              simp only [valid] at hs ⊢
              obtain ⟨hr, hmem⟩ := and3_true hs
              simp only [Option.some.injEq] at hr
              rw [membersV_erase hmem, req_erase hr]
              rfl
            cases vr with
            | mk raw ident det' =>
              cases det' with
              | simple => simp [NR]
              | struct ps =>
                simp only at hbr ⊢
                have := struct_accepts x vx σ d (m := m') (by omega) hrec hbr hv' f
                revert this; generalize deStruct x σ f ps deny _ = r; intro hr
                cases r with
                | ok p => simp [NR]
                | error e => simp only; intro hc'; simp only [Except.error.injEq] at hc'; subst hc'; exact hr rfl
              | item t' =>
                simp only at hbr ⊢
                have := hrec (m' + 1) hm _ t' _ hbr hv' f
                revert this; generalize de x σ f t' _ = r; intro hr
                cases r with
                | ok p => simp [NR]
                | error e => simp only; intro hc'; simp only [Except.error.injEq] at hc'; subst hc'; exact hr rfl
              | tuple ts => simp at hbr
          · simp at hbr
        | _ => simp [valid] at hs
    · simp at hbr
  · simp at hbr

theorem adj_accepts {rec : Schema → Id → Bool} {n m : Nat} (hm : m < n) (hrec : Hrec x vx σ d rec n)
    {t : Id} {nm tg ct : String} {variants : List Variant} {deny : Bool} {dfl : Option Json} {bes : List Bespoke}
    {ed : List String} {im : List Impl} {ss : List Schema} {v : Json}
    (hget : σ.get t = some ⟨.enum nm (.adjacent tg ct) variants deny dfl bes, ed, im⟩)
    (hnd : nodupB (variants.map (·.wire)) = true)
    (hall : ss.all (adjBranchB rec σ deny tg ct variants) = true)
    {c : Nat} (hc : countV (fun s' => valid vx d m s' v) ss = some c) (hpos : 0 < c) (f : Nat) :
    NR (de x σ (f + 1) t v) := by
  obtain ⟨k, s, hk, hs⟩ := countV_pos hc hpos
  have hbr := (List.all_eq_true.mp hall) s (List.mem_of_getElem? hk)
  unfold adjBranchB at hbr
  split at hbr
  · rename_i props req addl
    split at hbr
    · rename_i q0 w hfind
      simp only [Bool.and_eq_true] at hbr
      obtain ⟨⟨hreq, hdeny⟩, hbr⟩ := hbr
      cases m with
      | zero => simp [valid] at hs
      | succ m' =>
        cases v with
        | obj kvs =>
          have htag := tag_member vx d hs hfind rfl hreq
          have hs0 := hs
          simp only [valid] at hs
          obtain ⟨hr, hmem⟩ := and3_true hs
          simp only [Option.some.injEq] at hr
          have hmem' := membersV_spec hmem
          -- the closed-wrapper check of the generated code cannot fire
          have hdn : (deny && kvs.any (fun kv => kv.1 != tg && kv.1 != ct)) = false := by
            cases deny with
            | false => rfl
            | true =>
              simp only [Bool.not_true, Bool.false_or, Bool.and_eq_true] at hdeny
              obtain ⟨hcl, hpa⟩ := hdeny
              simp only [Bool.true_and]
              apply Bool.eq_false_iff.mpr
              intro hany
              obtain ⟨kv, hkv, hne⟩ := List.any_eq_true.mp hany
              rcases hmem' kv hkv with ⟨q, hq, _⟩ | ⟨_, hno⟩
              · obtain ⟨hqk, hqm⟩ := find_key_eq hq
                have := (List.all_eq_true.mp hpa) q hqm
                rw [hqk] at this
                simp only [Bool.and_eq_true, bne_iff_ne, ne_eq] at hne
                simp only [Bool.or_eq_true, beq_iff_eq] at this
                rcases this with h | h
                · exact hne.1 h
                · exact hne.2 h
              · cases addl <;> simp [isClosed] at hcl
                exact hno rfl
          simp only [de, hget]
          have hdn' : (deny && kvs.any (fun kv => kv.1 ≠ tg && kv.1 ≠ ct)) = false := by
            simpa using hdn
          simp only [hdn', Bool.false_eq_true, if_false, htag]
          -- the variant
          split at hbr
          · -- no content member declared: data-less variant, closed wrapper
            rename_i vr hvr hnoct
            simp only [Bool.and_eq_true, bne_iff_ne, ne_eq] at hbr
            obtain ⟨⟨hsimp, hcl⟩, hne⟩ := hbr
            obtain ⟨i, hi, hgi⟩ := find_findIdx hvr
            rw [hi]
            simp only [hgi]
            have hlc : Json.lookup kvs ct = none := by
              cases hl : Json.lookup kvs ct with
              | none => rfl
              | some jc =>
                rcases hmem' (ct, jc) (lookup_mem hl) with ⟨q, hq, _⟩ | ⟨_, hno⟩
                · simp only at hq; rw [hnoct] at hq; simp at hq
                · cases addl <;> simp [isClosed] at hcl
                  exact absurd rfl hno
            rw [hlc]
            cases vr with
            | mk raw ident det' =>
              simp only [isSimple] at hsimp
              cases det' <;> simp at hsimp
              simp [NR]
          · -- content member declared and required
            rename_i vr qc sc hvr hct
            simp only [Bool.and_eq_true, bne_iff_ne, ne_eq] at hbr
            obtain ⟨⟨hreqc, hne⟩, hvb⟩ := hbr
            obtain ⟨i, hi, hgi⟩ := find_findIdx hvr
            rw [hi]
            simp only [hgi]
            have hpres := (List.all_eq_true.mp hr) ct (by simpa using hreqc)
            cases hl : Json.lookup kvs ct with
            | none => rw [hl] at hpres; simp at hpres
            | some body =>
              have hvbody : valid vx d m' sc body = some true := by
                rcases hmem' (ct, body) (lookup_mem hl) with ⟨q, hq, hvq⟩ | ⟨hnone, _⟩
                · simp only at hq; rw [hct] at hq
                  simp only [Option.some.injEq] at hq; subst hq; exact hvq
                · simp only at hnone; rw [hct] at hnone; simp at hnone
              have hnr := variant_accepts x vx σ d (m := m') (by omega) hrec hvb hvbody f false
              cases vr with
              | mk raw ident det' =>
                cases det' with
                | simple =>
                  -- payload schema is `null`, so the content is `null`
                  cases sc <;> simp [variantB] at hvb
                  cases m' with
                  | zero => simp [valid] at hvbody
                  | succ m'' =>
                    simp only [valid, Option.some.injEq] at hvbody
                    cases body <;> simp at hvbody
                    simp [NR]
                | item t' =>
                  simp only at hnr ⊢
                  revert hnr; generalize deVariantBody x σ f (.item t') deny false body = r; intro hrr
                  cases r with
                  | ok p => simp [NR]
                  | error e => simp only; intro hc'; simp only [Except.error.injEq] at hc'; subst hc'; exact hrr rfl
                | tuple ts =>
                  simp only at hnr ⊢
                  revert hnr; generalize deVariantBody x σ f (.tuple ts) deny false body = r; intro hrr
                  cases r with
                  | ok p => simp [NR]
                  | error e => simp only; intro hc'; simp only [Except.error.injEq] at hc'; subst hc'; exact hrr rfl
                | struct ps =>
                  simp only at hnr ⊢
                  revert hnr; generalize deVariantBody x σ f (.struct ps) deny false body = r; intro hrr
                  cases r with
                  | ok p => simp [NR]
                  | error e => simp only; intro hc'; simp only [Except.error.injEq] at hc'; subst hc'; exact hrr rfl
          · simp at hbr
        | _ => simp [valid] at hs
    · simp at hbr
  · simp at hbr

end TypifyModel.Conv

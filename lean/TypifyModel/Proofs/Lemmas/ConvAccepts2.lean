import TypifyModel.Proofs.Lemmas.ConvAccepts
/-! Tuples, variants and the per-construct lemma `convD_accepts` (C02). -/
namespace TypifyModel.Conv
open TypifyModel TypifyModel.Serde TypifyModel.Validate

variable (x : Serde.Ext) (vx : Validate.Ext) (σ : Space) (d : Doc)

theorem tuple_accepts {rec : Schema → Id → Bool} {n m : Nat} (hm : m < n) (hrec : Hrec x vx σ d rec n)
    {items : List Schema} {ts : List Id} {xs : List Json}
    (hb : zipB rec items ts = true) (hv : zipV (valid vx d m) items xs = some true) (f : Nat) :
    NR (zipM (de x σ f) ts xs) := by
  obtain ⟨hl1, hz1⟩ := zipB_spec hb
  obtain ⟨hl2, hz2⟩ := zipV_spec hv
  apply zipM_NR (by omega)
  intro k t j ht hj
  have hk : k < items.length := by
    have := (List.getElem?_eq_some_iff.mp ht).1
    omega
  have hs : items[k]? = some items[k] := List.getElem?_eq_getElem hk
  exact hrec m hm _ t j (hz1 k _ t hs ht) (hz2 k _ j hs hj) f

theorem variant_accepts {rec : Schema → Id → Bool} {n m : Nat} (hm : m < n) (hrec : Hrec x vx σ d rec n)
    {deny : Bool} {s : Schema} {det : VDetails} {v : Json}
    (hb : variantB rec (structB rec σ) deny s det = true)
    (hv : valid vx d m s v = some true) (f : Nat) :
    ∀ seqOk, NR (deVariantBody x σ f det deny seqOk v) := by
  intro seqOk
  cases f with
  | zero => simp [deVariantBody, NR]
  | succ f =>
    cases det with
    | simple =>
      cases s <;> simp [variantB] at hb
      cases m with
      | zero => simp [valid] at hv
      | succ m' =>
        simp only [valid, Option.some.injEq] at hv
        cases v <;> simp at hv
        simp [deVariantBody, NR]
    | item t =>
      simp only [variantB] at hb
      simp only [deVariantBody]
      exact hrec m hm s t v hb hv f
    | tuple ts =>
      cases s <;> simp [variantB] at hb
      rename_i items
      cases m with
      | zero => simp [valid] at hv
      | succ m' =>
        simp only [valid] at hv
        cases v with
        | arr xs =>
          simp only at hv
          simp only [deVariantBody]
          have := tuple_accepts x vx σ d (m := m') (by omega) hrec hb hv f
          revert this; generalize zipM (de x σ f) ts xs = r; intro hr
          cases r with
          | ok vs => simp [NR]
          | error e => simp only; intro hc; simp only [Except.error.injEq] at hc; subst hc; exact hr rfl
        | _ => simp at hv
    | struct ps =>
      cases s <;> simp [variantB] at hb
      rename_i props req addl
      cases m with
      | zero => simp [valid] at hv
      | succ m' =>
        cases v with
        | obj kvs =>
          simp only [deVariantBody]
          cases seqOk <;> exact struct_accepts x vx σ d (m := m') (by omega) hrec hb hv f
        | _ => simp [valid] at hv

theorem variants_accept {rec : Schema → Id → Bool} {n m : Nat} (hm : m < n) (hrec : Hrec x vx σ d rec n)
    {deny : Bool} {ss : List Schema} {variants : List Variant} {v : Json}
    (hb : variantsB rec σ deny ss variants = true)
    {c : Nat} (hc : countV (fun s' => valid vx d m s' v) ss = some c) (hpos : 0 < c) (f : Nat) :
    NR (firstOk (fun (vr : Variant) i =>
          match deVariantBody x σ f vr.details deny false v with
          | .ok p => .ok (.variant i p)
          | .error e => .error e) variants 0) := by
  simp only [variantsB, Bool.and_eq_true, decide_eq_true_eq] at hb
  obtain ⟨hlen, hall⟩ := hb
  obtain ⟨k, s, hk, hs⟩ := countV_pos hc hpos
  have hkl : k < variants.length := by
    have := (List.getElem?_eq_some_iff.mp hk).1
    omega
  have hvk : variants[k]? = some variants[k] := List.getElem?_eq_getElem hkl
  have hz : (s, variants[k]) ∈ ss.zip variants := by
    have : (ss.zip variants)[k]? = some (s, variants[k]) := by
      rw [List.getElem?_zip_eq_some]; exact ⟨hk, hvk⟩
    exact List.mem_of_getElem? this
  have hvb := (List.all_eq_true.mp hall) _ hz
  simp only at hvb
  have hnr := variant_accepts x vx σ d hm hrec hvb hs f false
  apply firstOk_NR (n := k) hvk
  simp only [Nat.zero_add]
  revert hnr; generalize deVariantBody x σ f variants[k].details deny false v = r; intro hr
  cases r with
  | ok p => simp [NR]
  | error e => simp only; intro hc; simp only [Except.error.injEq] at hc; subst hc; exact hr rfl

end TypifyModel.Conv

namespace TypifyModel.Conv
open TypifyModel TypifyModel.Serde TypifyModel.Validate

variable (x : Serde.Ext) (vx : Validate.Ext) (σ : Space) (d : Doc)

/-- externally tagged unions -/
theorem ext_accepts {rec : Schema → Id → Bool} {n m : Nat} (hm : m < n) (hrec : Hrec x vx σ d rec n)
    {t : Id} {nm : String} {variants : List Variant} {deny : Bool} {dfl : Option Json} {bes : List Bespoke}
    {ed : List String} {im : List Impl} {ss : List Schema} {v : Json}
    (hget : σ.get t = some ⟨.enum nm .external variants deny dfl bes, ed, im⟩)
    (hnd : nodupB (variants.map (·.wire)) = true)
    (hall : ss.all (extBranchB rec σ deny variants) = true)
    {c : Nat} (hc : countV (fun s' => valid vx d m s' v) ss = some c) (hpos : 0 < c) (f : Nat) :
    NR (de x σ (f + 1) t v) := by
  obtain ⟨k, s, hk, hs⟩ := countV_pos hc hpos
  have hbr := (List.all_eq_true.mp hall) s (List.mem_of_getElem? hk)
  unfold extBranchB at hbr
  split at hbr
  · -- a string naming a data-less variant
    rename_i vs
    cases m with
    | zero => simp [valid] at hs
    | succ m' =>
      simp only [valid, Option.some.injEq] at hs
      obtain ⟨e, hem, heq⟩ := List.any_eq_true.mp hs
      have he := (List.all_eq_true.mp hbr) e hem
      cases e <;> simp at he
      rename_i w
      have hvw : v = .str w := beq_str_left heq
      subst hvw
      obtain ⟨vr, hvrm, hvrw, hvrs⟩ := he
      simp only [de, hget]
      have hfind : variants.find? (fun q => q.wire == w) = some vr := by
        have := nodupB_find_gen (·.wire) hnd vr hvrm
        simpa [hvrw] using this
      obtain ⟨i, hi, hgi⟩ := find_findIdx hfind
      rw [hi]
      simp only [hgi]
      cases vr with
      | mk raw ident det' =>
        simp only [isSimple] at hvrs
        cases det' <;> simp at hvrs
        simp [NR]
  · -- a closed single-member object
    rename_i k0 sk k0'
    simp only [Bool.and_eq_true, beq_iff_eq] at hbr
    obtain ⟨hkk, hbr⟩ := hbr
    subst hkk
    split at hbr
    · rename_i vr hfind
      cases m with
      | zero => simp [valid] at hs
      | succ m' =>
        cases v with
        | obj kvs =>
          simp only [valid] at hs
          obtain ⟨hreq, hmem⟩ := and3_true hs
          simp only [Option.some.injEq, List.all_cons, List.all_nil, Bool.and_true] at hreq
          have hmem' := membersV_spec hmem
          -- every member is keyed k0 and valid under sk
          have hall' : ∀ kv ∈ kvs, kv.1 = k0 ∧ valid vx d m' sk kv.2 = some true := by
            intro kv hkv
            rcases hmem' kv hkv with ⟨q, hq, hvq⟩ | ⟨_, hno⟩
            · simp only [List.find?] at hq
              split at hq
              · rename_i hkey
                simp only [Option.some.injEq] at hq; subst hq
                exact ⟨(by simpa using hkey : k0 = kv.1).symm, hvq⟩
              · simp at hq
            · exact absurd rfl hno
          cases kvs with
          | nil => simp [Json.lookup] at hreq
          | cons a rest =>
            obtain ⟨ka, body⟩ := a
            obtain ⟨hka, hvb⟩ := hall' (ka, body) (by simp)
            simp only at hka hvb
            subst hka
            simp only [de, hget]
            have hrest : rest.all (fun kv => kv.1 == ka) = true := by
              apply List.all_eq_true.mpr
              intro kv hkv
              have := (hall' kv (by simp [hkv])).1
              simp [this]
            simp only [hrest, Bool.not_true, Bool.false_eq_true, if_false]
            obtain ⟨i, hi, hgi⟩ := find_findIdx hfind
            rw [hi]
            simp only [hgi]
            have hnr := variant_accepts x vx σ d (m := m') (by omega) hrec hbr hvb f true
            revert hnr; generalize deVariantBody x σ f vr.details deny true body = r; intro hr
            cases r with
            | ok p => simp [NR]
            | error e => simp only; intro hc'; simp only [Except.error.injEq] at hc'; subst hc'; exact hr rfl
        | _ => simp [valid] at hs
    · simp at hbr
  · simp at hbr

end TypifyModel.Conv

import TypifyModel.Proofs.Lemmas.CyclesLemmas
/-! C07, finishing-order argument: `fin` is a topological order of the by-value edges that survive. -/
namespace TypifyModel.Cycles

/-- every by-value edge out of a finished node goes to a node finished EARLIER (later in the list)
    or to a node without by-value children -/
def Topo (g : G) : List Nat → Prop
  | [] => True
  | u :: rest => (∀ v, E g u v → v ∈ rest ∨ Leaf g v) ∧ Topo g rest

theorem Topo_mono {g g' : G} : ∀ (fin : List Nat),
    (∀ x ∈ fin, ∀ v, E g' x v → E g x v) → (∀ v, Leaf g v → Leaf g' v) → Topo g fin → Topo g' fin
  | [], _, _, _ => trivial
  | u :: rest, he, hl, ht => by
    refine ⟨fun v hv => ?_, Topo_mono rest (fun x hx => he x (by simp [hx])) hl ht.2⟩
    rcases ht.1 v (he u (by simp) v hv) with h | h
    · exact Or.inl h
    · exact Or.inr (hl v h)

/-- state invariant while `act` is the active chain -/
structure Inv (s : St) (act : List Nat) : Prop where
  keys : ∀ i n, s.g.get i = some n → i < s.g.next
  finVis : ∀ x ∈ s.fin, x ∈ s.visited
  visFin : ∀ x ∈ s.visited, x ∈ s.fin ∨ x ∈ act
  nodup : s.fin.Nodup
  topo : Topo s.g s.fin

/-- what a (sub)traversal may change -/
structure Ext (s s' : St) : Prop where
  vis : ∀ x ∈ s.visited, x ∈ s'.visited
  newFin : ∀ x ∈ s'.fin, x ∈ s.fin ∨ x ∉ s.visited
  edges : ∀ x ∈ s.visited, ∀ v, E s'.g x v → E s.g x v
  leaf : ∀ v, Leaf s.g v → Leaf s'.g v

theorem Ext.refl (s : St) : Ext s s :=
  ⟨fun _ h => h, fun _ h => Or.inl h, fun _ _ _ h => h, fun _ h => h⟩

theorem Ext.trans {s s' s'' : St} (a : Ext s s') (b : Ext s' s'') : Ext s s'' where
  vis x h := b.vis x (a.vis x h)
  newFin x h := by
    rcases b.newFin x h with h1 | h1
    · exact a.newFin x h1
    · exact Or.inr (fun hx => h1 (a.vis x hx))
  edges x hx v h := a.edges x hx v (b.edges x (a.vis x hx) v h)
  leaf v h := b.leaf v (a.leaf v h)

/-- the graph after the `Start` step of an unvisited `u` -/
def startG (g : G) (act : List Nat) (u : Nat) (node : Node) : G :=
  let cs := node.childIds
  let snip := cs.filter (fun c => decide (c ∈ act))
  let g1 := snip.foldl idToBox g
  g1.set u (node.mapChildren (rewrite g1 act))

theorem startG_edges {g : G} {act : List Nat} {u : Nat} {node : Node} {x v : Nat} (hx : x ≠ u)
    (h : E (startG g act u node) x v) : E g x v := by
  obtain ⟨n, hn, hv⟩ := h
  simp only [startG, set_get, if_neg hx] at hn
  rcases foldl_idToBox_get _ _ hn with h1 | ⟨c, rfl⟩
  · exact ⟨n, h1, hv⟩
  · simp [Node.childIds] at hv

theorem startG_leaf {g : G} {act : List Nat} {u : Nat} {node : Node} (hu : g.get u = some node)
    {v : Nat} (h : Leaf g v) : Leaf (startG g act u node) v := by
  intro n hn
  simp only [startG, set_get] at hn
  split at hn
  · subst_vars
    have := h node hu
    cases hn
    rw [Node.childIds_mapChildren, this]; rfl
  · rcases foldl_idToBox_get _ _ hn with h1 | ⟨c, rfl⟩
    · exact h n h1
    · rfl

/-- children of `u` right after its `Start` step: a `Box` node for each active child, the child
    itself otherwise -/
theorem startG_children {g : G} {act : List Nat} {u : Nat} {node : Node} {v : Nat}
    (hu : g.get u = some node) (hk : u < g.next)
    (h : E (startG g act u node) u v) :
    Leaf (startG g act u node) v ∨ (v ∈ node.childIds ∧ v ∉ act) := by
  obtain ⟨n, hn, hv⟩ := h
  simp only [startG, set_get, if_true] at hn
  cases hn
  rw [Node.childIds_mapChildren, List.mem_map] at hv
  obtain ⟨c, hc, rfl⟩ := hv
  unfold rewrite
  split
  · rename_i hact
    left
    have hb : hasBox ((node.childIds.filter (fun c => decide (c ∈ act))).foldl idToBox g) c :=
      foldl_hasBox _ _ (List.mem_filter.mpr ⟨hc, by simpa using hact⟩)
    have hbox := boxId_spec hb
    intro n hn
    simp only [startG, set_get] at hn
    split at hn
    · rename_i heq
      -- the box id cannot be `u`: `u` has a child, a `Box` entry has none
      rw [heq, foldl_idToBox_get_old _ _ hk, hu] at hbox
      cases hbox
      simp [Node.childIds] at hc
    · rw [hbox] at hn; cases hn; rfl
  · rename_i hact
    exact Or.inr ⟨hc, hact⟩

theorem startG_keys {g : G} {act : List Nat} {u : Nat} {node : Node} (hk : u < g.next)
    (h : ∀ i n, g.get i = some n → i < g.next) :
    ∀ i n, (startG g act u node).get i = some n → i < (startG g act u node).next := by
  intro i n hn
  simp only [startG, set_get, set_next] at hn ⊢
  split at hn
  · subst_vars; exact Nat.lt_of_lt_of_le hk (foldl_idToBox_next_le _ _)
  · exact foldl_keys _ _ h i n hn

/-- unfolding of one `visit` step in terms of `startG` -/
theorem visit_succ (fuel : Nat) (act : List Nat) (u : Nat) (s : St) :
    visit (fuel + 1) act u s =
      if u ∈ s.visited then some s else
      match s.g.get u with
      | none => some { s with visited := u :: s.visited, fin := u :: s.fin }
      | some node =>
        match visitList (fun c s => visit fuel (u :: act) c s)
            ((node.childIds.filter (fun c => !decide (c ∈ u :: act))).reverse)
            { g := startG s.g (u :: act) u node, visited := u :: s.visited, fin := s.fin } with
        | none => none
        | some s2 => some { s2 with fin := u :: s2.fin } := rfl

theorem visitList_inv {f : Nat → St → Option St} {act : List Nat}
    (hf : ∀ c s s', f c s = some s' → Inv s act → c ∉ act →
      Inv s' act ∧ Ext s s' ∧ c ∈ s'.visited) :
    ∀ (cs : List Nat) (s s' : St), visitList f cs s = some s' → Inv s act → (∀ c ∈ cs, c ∉ act) →
      Inv s' act ∧ Ext s s' ∧ ∀ c ∈ cs, c ∈ s'.visited
  | [], s, s', h, hi, _ => by
    simp only [visitList, Option.some.injEq] at h
    subst h
    exact ⟨hi, Ext.refl s, fun _ hc => by simp at hc⟩
  | c :: cs, s, s', h, hi, hc => by
    simp only [visitList] at h
    split at h
    · cases h
    · rename_i s1 h1
      obtain ⟨i1, e1, v1⟩ := hf c s s1 h1 hi (hc c (by simp))
      obtain ⟨i2, e2, v2⟩ := visitList_inv hf cs s1 s' h i1 (fun d hd => hc d (by simp [hd]))
      refine ⟨i2, e1.trans e2, fun d hd => ?_⟩
      rcases List.mem_cons.mp hd with rfl | hd
      · exact e2.vis _ v1
      · exact v2 d hd

/-- the `Start` step of an unvisited, existing `u` -/
theorem start_inv {s : St} {act : List Nat} {u : Nat} {node : Node}
    (hi : Inv s act) (hv : u ∉ s.visited) (hu : s.g.get u = some node) :
    let s1 : St := { g := startG s.g (u :: act) u node, visited := u :: s.visited, fin := s.fin }
    Inv s1 (u :: act) ∧ Ext s s1 := by
  intro s1
  have hk := hi.keys u node hu
  have hext : Ext s s1 := {
    vis := fun x hx => by simp [s1, hx]
    newFin := fun x hx => Or.inl hx
    edges := fun x hx v he => startG_edges (fun (h : x = u) => hv (by rw [← h]; exact hx)) he
    leaf := fun v hl => startG_leaf hu hl }
  refine ⟨?_, hext⟩
  exact {
    keys := startG_keys hk hi.keys
    finVis := fun x hx => by simp [s1, hi.finVis x hx]
    visFin := fun x hx => by
      rcases List.mem_cons.mp hx with rfl | hx
      · simp
      · rcases hi.visFin x hx with h | h
        · exact Or.inl h
        · exact Or.inr (by simp [h])
    nodup := hi.nodup
    topo := Topo_mono s.fin (fun x hx => hext.edges x (hi.finVis x hx)) hext.leaf hi.topo }

theorem visit_inv : ∀ (fuel : Nat) (act : List Nat) (u : Nat) (s s' : St),
    visit fuel act u s = some s' → Inv s act → u ∉ act →
      Inv s' act ∧ Ext s s' ∧ u ∈ s'.visited
  | 0, _, _, _, _, h, _, _ => by simp [visit] at h
  | fuel + 1, act, u, s, s', h, hi, hua => by
    rw [visit_succ] at h
    split at h
    · rename_i hv
      cases h
      exact ⟨hi, Ext.refl _, hv⟩
    · rename_i hv
      split at h
      · -- missing entry (the Rust code would panic): treated as a leaf
        rename_i hnone
        cases h
        have hnf : u ∉ s.fin := fun hx => hv (hi.finVis u hx)
        refine ⟨?_, ?_, by simp⟩
        · exact {
            keys := hi.keys
            finVis := fun x hx => by
              rcases List.mem_cons.mp hx with rfl | hx
              · simp
              · simp [hi.finVis x hx]
            visFin := fun x hx => by
              rcases List.mem_cons.mp hx with rfl | hx
              · simp
              · rcases hi.visFin x hx with h | h
                · exact Or.inl (by simp [h])
                · exact Or.inr h
            nodup := List.nodup_cons.mpr ⟨hnf, hi.nodup⟩
            topo := ⟨fun v ⟨n, hn, _⟩ => by simp [hnone] at hn, hi.topo⟩ }
        · exact {
            vis := fun x hx => by simp [hx]
            newFin := fun x hx => by
              rcases List.mem_cons.mp hx with rfl | hx
              · exact Or.inr hv
              · exact Or.inl hx
            edges := fun _ _ _ h => h
            leaf := fun _ h => h }
      · rename_i node hu
        split at h
        · cases h
        · rename_i s2 h2
          cases h
          obtain ⟨i1, e1⟩ := start_inv (act := act) hi hv hu
          have hk := hi.keys u node hu
          have hdesc : ∀ c ∈ (node.childIds.filter (fun c => !decide (c ∈ u :: act))).reverse,
              c ∉ u :: act := by
            intro c hc
            have := (List.mem_filter.mp (List.mem_reverse.mp hc)).2
            simpa using this
          obtain ⟨i2, e2, v2⟩ := visitList_inv
            (fun c s s' h hi hc => visit_inv fuel (u :: act) c s s' h hi hc) _ _ _ h2 i1 hdesc
          have hu1 : u ∈ (u :: s.visited) := by simp
          have hnf : u ∉ s2.fin := by
            intro hx
            rcases e2.newFin u hx with h | h
            · exact hv (hi.finVis u h)
            · exact h hu1
          refine ⟨?_, ?_, e2.vis u hu1⟩
          · exact {
              keys := i2.keys
              finVis := fun x hx => by
                rcases List.mem_cons.mp hx with rfl | hx
                · exact e2.vis _ hu1
                · exact i2.finVis x hx
              visFin := fun x hx => by
                rcases i2.visFin x hx with h | h
                · exact Or.inl (by simp [h])
                · rcases List.mem_cons.mp h with rfl | h
                  · exact Or.inl (by simp)
                  · exact Or.inr h
              nodup := List.nodup_cons.mpr ⟨hnf, i2.nodup⟩
              topo := by
                refine ⟨fun v hv2 => ?_, i2.topo⟩
                have hv1 := e2.edges u hu1 v hv2
                rcases startG_children hu hk hv1 with hl | ⟨hc, hna⟩
                · exact Or.inr (e2.leaf v hl)
                · have hvis := v2 v (List.mem_reverse.mpr (List.mem_filter.mpr ⟨hc, by simpa using hna⟩))
                  rcases i2.visFin v hvis with h | h
                  · exact Or.inl h
                  · exact absurd h hna }
          · have e12 := e1.trans e2
            exact {
              vis := e12.vis
              newFin := fun x hx => by
                rcases List.mem_cons.mp hx with rfl | hx
                · exact Or.inr hv
                · exact e12.newFin x hx
              edges := e12.edges
              leaf := e12.leaf }

/-! ### from the finishing order to a rank -/

/-- 1-based position from the END of the list (0 = absent) -/
def pos : List Nat → Nat → Nat
  | [], _ => 0
  | y :: rest, x => if x = y then rest.length + 1 else pos rest x

theorem pos_le : ∀ (l : List Nat) (x : Nat), pos l x ≤ l.length
  | [], _ => Nat.le_refl _
  | y :: rest, x => by
    simp only [pos, List.length_cons]
    split
    · exact Nat.le_refl _
    · exact Nat.le_succ_of_le (pos_le rest x)

theorem pos_pos : ∀ (l : List Nat) (x : Nat), x ∈ l → 0 < pos l x
  | y :: rest, x, h => by
    simp only [pos]
    split
    · omega
    · rename_i hne
      rcases List.mem_cons.mp h with h | h
      · exact absurd h hne
      · exact pos_pos rest x h

theorem Topo_pos {g : G} : ∀ (fin : List Nat), Topo g fin → fin.Nodup → ∀ u ∈ fin, ∀ v, E g u v →
    Leaf g v ∨ (v ∈ fin ∧ pos fin v < pos fin u)
  | y :: rest, ht, hn, u, hu, v, he => by
    have hn' := List.nodup_cons.mp hn
    rcases List.mem_cons.mp hu with rfl | hu
    · rcases ht.1 v he with h | h
      · right
        have hne : v ≠ u := fun h' => hn'.1 (h' ▸ h)
        refine ⟨by simp [h], ?_⟩
        simp only [pos, if_neg hne, if_true]
        exact Nat.lt_succ_of_le (pos_le rest v)
      · exact Or.inl h
    · rcases Topo_pos rest ht.2 hn'.2 u hu v he with h | ⟨hm, hlt⟩
      · exact Or.inl h
      · right
        have hne : v ≠ y := fun h' => hn'.1 (h' ▸ hm)
        have hne' : u ≠ y := fun h' => hn'.1 (h' ▸ hu)
        refine ⟨by simp [hm], ?_⟩
        simpa only [pos, if_neg hne, if_neg hne'] using hlt

/-- the rank certifying acyclicity: 0 for nodes without by-value children, else the finishing position -/
def rank (g : G) (fin : List Nat) (v : Nat) : Nat := if isLeaf g v then 0 else pos fin v

theorem rank_lt {g : G} {fin : List Nat} (ht : Topo g fin) (hn : fin.Nodup) {u v : Nat}
    (hu : u ∈ fin) (he : E g u v) : rank g fin v < rank g fin u := by
  have hnl : ¬ isLeaf g u = true := by
    rw [isLeaf_iff]
    intro hl
    obtain ⟨n, hn, hv⟩ := he
    rw [hl n hn] at hv
    simp at hv
  unfold rank
  rw [if_neg hnl]
  split
  · exact pos_pos fin u hu
  · rename_i hv
    rcases Topo_pos fin ht hn u hu v he with h | ⟨_, h⟩
    · exact absurd (isLeaf_iff.mpr h) hv
    · exact h

/-- the whole traversal -/
theorem breakCyclesSt_inv {fuel : Nat} {g : G} {lo hi : Nat} {s : St} (hk : KeysBelow g)
    (h : breakCyclesSt fuel g lo hi = some s) :
    Inv s [] ∧ Ext { g := g, visited := [], fin := [] } s ∧ ∀ r ∈ roots lo hi, r ∈ s.visited := by
  have h0 : Inv { g := g, visited := [], fin := [] } [] := {
    keys := hk
    finVis := fun x hx => by simp at hx
    visFin := fun x hx => by simp at hx
    nodup := List.nodup_nil
    topo := trivial }
  exact visitList_inv (fun c s s' h hi hc => visit_inv fuel [] c s s' h hi hc) _ _ _ h h0
    (fun c _ => by simp)

theorem reach_fin {s : St} {lo hi : Nat} (hi' : Inv s [])
    (hr : ∀ r ∈ roots lo hi, r ∈ s.visited) {u : Nat} (h : Reach s.g lo hi u) :
    u ∈ s.fin ∨ Leaf s.g u := by
  induction h with
  | root h1 h2 =>
    rcases hi'.visFin _ (hr _ (mem_roots.mpr ⟨h1, h2⟩)) with h | h
    · exact Or.inl h
    · simp at h
  | step _ he ih =>
    rcases ih with h | h
    · rcases Topo_pos _ hi'.topo hi'.nodup _ h _ he with h | ⟨h, _⟩
      · exact Or.inr h
      · exact Or.inl h
    · obtain ⟨n, hn, hv⟩ := he
      rw [h n hn] at hv
      simp at hv

end TypifyModel.Cycles

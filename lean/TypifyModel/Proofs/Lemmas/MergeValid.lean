import TypifyModel.Model.Merge
/-! Facts about `Validate.valid` used by the C09 proofs: monotonicity in fuel, determinism across
    fuels, lawfulness of `Json.beq`. -/
set_option linter.unusedSimpArgs false
namespace TypifyModel.Merge
open TypifyModel TypifyModel.Validate

/-! ### Json.beq is equality -/
mutual
theorem beq_eq : ∀ (a b : Json), Json.beq a b = true → a = b
  | .null, b, h => by cases b <;> simp [Json.beq] at h ⊢
  | .bool x, b, h => by cases b <;> simp [Json.beq] at h ⊢; exact h
  | .int x, b, h => by cases b <;> simp [Json.beq] at h ⊢; exact h
  | .flt m e, b, h => by cases b <;> simp [Json.beq] at h ⊢; exact h
  | .str x, b, h => by cases b <;> simp [Json.beq] at h ⊢; exact h
  | .arr xs, b, h => by
    cases b <;> simp [Json.beq] at h ⊢
    exact beqList_eq _ _ h
  | .obj xs, b, h => by
    cases b <;> simp [Json.beq] at h ⊢
    exact beqObj_eq _ _ h
theorem beqList_eq : ∀ (xs ys : List Json), Json.beqList xs ys = true → xs = ys
  | [], ys, h => by cases ys <;> simp [Json.beqList] at h ⊢
  | x :: xs, ys, h => by
    cases ys with
    | nil => simp [Json.beqList] at h
    | cons y ys =>
      simp only [Json.beqList, Bool.and_eq_true] at h
      rw [beq_eq x y h.1, beqList_eq xs ys h.2]
theorem beqObj_eq : ∀ (xs ys : List (String × Json)), Json.beqObj xs ys = true → xs = ys
  | [], ys, h => by cases ys <;> simp [Json.beqObj] at h ⊢
  | (k, x) :: xs, ys, h => by
    cases ys with
    | nil => simp [Json.beqObj] at h
    | cons y ys =>
      obtain ⟨k', y⟩ := y
      simp only [Json.beqObj, Bool.and_eq_true, beq_iff_eq] at h
      rw [h.1.1, beq_eq x y h.1.2, beqObj_eq xs ys h.2]
end

mutual
theorem beq_refl : ∀ (a : Json), Json.beq a a = true
  | .null => by simp [Json.beq]
  | .bool _ => by simp [Json.beq]
  | .int _ => by simp [Json.beq]
  | .flt _ _ => by simp [Json.beq]
  | .str _ => by simp [Json.beq]
  | .arr xs => by simp only [Json.beq]; exact beqList_refl xs
  | .obj xs => by simp only [Json.beq]; exact beqObj_refl xs
theorem beqList_refl : ∀ (xs : List Json), Json.beqList xs xs = true
  | [] => by simp [Json.beqList]
  | x :: xs => by simp only [Json.beqList, beq_refl x, beqList_refl xs, Bool.and_self]
theorem beqObj_refl : ∀ (xs : List (String × Json)), Json.beqObj xs xs = true
  | [] => by simp [Json.beqObj]
  | (k, x) :: xs => by simp only [Json.beqObj, beq_refl x, beqObj_refl xs, beq_self_eq_true, Bool.and_self]
end

theorem jbeq_iff {a b : Json} : (a == b) = true ↔ a = b :=
  ⟨fun h => beq_eq a b h, fun h => h ▸ beq_refl a⟩

theorem any_beq_iff {vs : List Json} {j : Json} : vs.any (· == j) = true ↔ j ∈ vs := by
  simp only [List.any_eq_true]
  constructor
  · rintro ⟨x, hx, hxe⟩; exact (jbeq_iff.mp hxe) ▸ hx
  · intro h; exact ⟨j, h, jbeq_iff.mpr rfl⟩

/-! ### monotonicity of `valid` in its fuel -/

/-- pointwise "defined answers are kept" -/
def Le {α : Type} (g g' : α → Option Bool) : Prop := ∀ a r, g a = some r → g' a = some r

theorem and3_mono {a b a' b' : Option Bool} {r : Bool} (ha : ∀ t, a = some t → a' = some t)
    (hb : ∀ t, b = some t → b' = some t) (h : and3 a b = some r) : and3 a' b' = some r := by
  cases a <;> cases b <;> simp [and3] at h
  rw [ha _ rfl, hb _ rfl]; simp [and3, h]

theorem allV_mono {g g' : Schema → Option Bool} (hg : Le g g') :
    ∀ (l : List Schema) (r : Bool), allV g l = some r → allV g' l = some r := by
  intro l
  induction l with
  | nil => intro r h; exact h
  | cons s rest ih =>
    intro r h
    simp only [allV] at h ⊢
    exact and3_mono (fun t => hg s t) (fun t => ih t) h

theorem countV_mono {g g' : Schema → Option Bool} (hg : Le g g') :
    ∀ (l : List Schema) (n : Nat), countV g l = some n → countV g' l = some n := by
  intro l
  induction l with
  | nil => intro n h; exact h
  | cons s rest ih =>
    intro n h
    simp only [countV] at h ⊢
    cases hs : g s with
    | none => rw [hs] at h; simp at h
    | some b =>
      cases hr : countV g rest with
      | none => rw [hs, hr] at h; simp at h
      | some m =>
        rw [hs, hr] at h
        rw [hg s b hs, ih m hr]
        exact h

theorem allJ_mono {g g' : Json → Option Bool} (hg : Le g g') :
    ∀ (l : List Json) (r : Bool), allJ g l = some r → allJ g' l = some r := by
  intro l
  induction l with
  | nil => intro r h; exact h
  | cons s rest ih =>
    intro r h
    simp only [allJ] at h ⊢
    exact and3_mono (fun t => hg s t) (fun t => ih t) h

theorem zipV_mono {g g' : Schema → Json → Option Bool} (hg : ∀ s, Le (g s) (g' s)) :
    ∀ (ss : List Schema) (xs : List Json) (r : Bool), zipV g ss xs = some r → zipV g' ss xs = some r := by
  intro ss
  induction ss with
  | nil => intro xs r h; cases xs <;> simpa [zipV] using h
  | cons s rest ih =>
    intro xs r h
    cases xs with
    | nil => simpa [zipV] using h
    | cons j js =>
      simp only [zipV] at h ⊢
      exact and3_mono (fun t => hg s j t) (fun t => ih js t) h

theorem membersV_mono {g g' : Schema → Json → Option Bool} (hg : ∀ s, Le (g s) (g' s))
    (props : List (String × Schema)) (addl : Additional Schema) :
    ∀ (kvs : List (String × Json)) (r : Bool), membersV g props addl kvs = some r → membersV g' props addl kvs = some r := by
  intro kvs
  induction kvs with
  | nil => intro r h; exact h
  | cons kv rest ih =>
    intro r h
    obtain ⟨k, v⟩ := kv
    simp only [membersV] at h ⊢
    refine and3_mono ?_ (fun t => ih t) h
    intro t ht
    cases hf : props.find? (fun p => p.1 == k) with
    | some q => rw [hf] at ht; exact hg _ _ _ ht
    | none =>
      rw [hf] at ht
      cases addl with
      | open_ => exact ht
      | closed => exact ht
      | schema s => exact hg _ _ _ ht


/-! ### equation lemmas for `valid` at a successor fuel -/
section eqs
variable (x : Ext) (d : Doc) (f : Nat) (j : Json)
theorem valid_zero (s : Schema) : valid x d 0 s j = none := by cases s <;> rfl
theorem valid_any : valid x d (f + 1) .any j = some true := rfl
theorem valid_never : valid x d (f + 1) .never j = some false := rfl
theorem valid_null : valid x d (f + 1) .null j = some (match j with | .null => true | _ => false) := rfl
theorem valid_boolean : valid x d (f + 1) .boolean j = some (match j with | .bool _ => true | _ => false) := rfl
theorem valid_integer (lo hi : Option Int) : valid x d (f + 1) (.integer lo hi) j =
    some (match j with
      | .int n => (match lo with | some l => decide (l ≤ n) | none => true) &&
                  (match hi with | some h => decide (n ≤ h) | none => true)
      | _ => false) := rfl
theorem valid_number : valid x d (f + 1) .number j = some (match j with | .int _ => true | .flt _ _ => true | _ => false) := rfl
theorem valid_string (mn mx : Option Nat) (pat : Option String) : valid x d (f + 1) (.string mn mx pat) j =
    some (match j with
      | .str t => (match mn with | some m => decide (m ≤ strLen t) | none => true) &&
                  (match mx with | some m => decide (strLen t ≤ m) | none => true) &&
                  (match pat with | some p => x.regex p t | none => true)
      | _ => false) := rfl
theorem valid_enum (vs : List Json) : valid x d (f + 1) (.enumVals vs) j = some (vs.any (· == j)) := rfl
theorem valid_ref (k : String) : valid x d (f + 1) (.ref k) j =
    (match d.get k with | some s' => valid x d f s' j | none => some false) := rfl
theorem valid_array (items : Schema) (mn mx : Option Nat) (uniq : Bool) : valid x d (f + 1) (.array items mn mx uniq) j =
    (match j with
     | .arr xs =>
       and3 (some ((match mn with | some m => decide (m ≤ xs.length) | none => true) &&
                   (match mx with | some m => decide (xs.length ≤ m) | none => true) &&
                   (!uniq || distinctJ xs)))
            (allJ (valid x d f items) xs)
     | _ => some false) := rfl
theorem valid_tuple (items : List Schema) : valid x d (f + 1) (.tuple items) j =
    (match j with | .arr xs => zipV (valid x d f) items xs | _ => some false) := rfl
theorem valid_object (props : List (String × Schema)) (req : List String) (addl : Additional Schema) :
    valid x d (f + 1) (.object props req addl) j =
    (match j with
     | .obj kvs => and3 (some (req.all (fun r => (Json.lookup kvs r).isSome))) (membersV (valid x d f) props addl kvs)
     | _ => some false) := rfl
theorem valid_oneOf (ss : List Schema) : valid x d (f + 1) (.oneOf ss) j =
    (countV (fun s' => valid x d f s' j) ss).map (· == 1) := rfl
theorem valid_anyOf (ss : List Schema) : valid x d (f + 1) (.anyOf ss) j =
    (countV (fun s' => valid x d f s' j) ss).map (fun n => decide (0 < n)) := rfl
theorem valid_allOf (ss : List Schema) : valid x d (f + 1) (.allOf ss) j = allV (fun s' => valid x d f s' j) ss := rfl
theorem valid_not (s' : Schema) : valid x d (f + 1) (.not s') j = (valid x d f s' j).map (!·) := rfl
end eqs

theorem valid_succ (x : Ext) (d : Doc) : ∀ (f : Nat) (s : Schema) (v : Json) (r : Bool),
    valid x d f s v = some r → valid x d (f + 1) s v = some r := by
  intro f
  induction f with
  | zero => intro s v r h; simp [valid_zero] at h
  | succ f ih =>
    intro s v r h
    have ihle : ∀ s, Le (valid x d f s) (valid x d (f + 1) s) := fun s a r h => ih s a r h
    cases s with
    | any => simp only [valid_any, valid_never, valid_null, valid_boolean, valid_integer, valid_number, valid_string, valid_enum, valid_ref, valid_array, valid_tuple, valid_object, valid_oneOf, valid_anyOf, valid_allOf, valid_not] at h ⊢; exact h
    | never => simp only [valid_any, valid_never, valid_null, valid_boolean, valid_integer, valid_number, valid_string, valid_enum, valid_ref, valid_array, valid_tuple, valid_object, valid_oneOf, valid_anyOf, valid_allOf, valid_not] at h ⊢; exact h
    | null => simp only [valid_any, valid_never, valid_null, valid_boolean, valid_integer, valid_number, valid_string, valid_enum, valid_ref, valid_array, valid_tuple, valid_object, valid_oneOf, valid_anyOf, valid_allOf, valid_not] at h ⊢; exact h
    | boolean => simp only [valid_any, valid_never, valid_null, valid_boolean, valid_integer, valid_number, valid_string, valid_enum, valid_ref, valid_array, valid_tuple, valid_object, valid_oneOf, valid_anyOf, valid_allOf, valid_not] at h ⊢; exact h
    | integer lo hi => simp only [valid_any, valid_never, valid_null, valid_boolean, valid_integer, valid_number, valid_string, valid_enum, valid_ref, valid_array, valid_tuple, valid_object, valid_oneOf, valid_anyOf, valid_allOf, valid_not] at h ⊢; exact h
    | number => simp only [valid_any, valid_never, valid_null, valid_boolean, valid_integer, valid_number, valid_string, valid_enum, valid_ref, valid_array, valid_tuple, valid_object, valid_oneOf, valid_anyOf, valid_allOf, valid_not] at h ⊢; exact h
    | string mn mx p => simp only [valid_any, valid_never, valid_null, valid_boolean, valid_integer, valid_number, valid_string, valid_enum, valid_ref, valid_array, valid_tuple, valid_object, valid_oneOf, valid_anyOf, valid_allOf, valid_not] at h ⊢; exact h
    | enumVals vs => simp only [valid_any, valid_never, valid_null, valid_boolean, valid_integer, valid_number, valid_string, valid_enum, valid_ref, valid_array, valid_tuple, valid_object, valid_oneOf, valid_anyOf, valid_allOf, valid_not] at h ⊢; exact h
    | ref k =>
      simp only [valid_any, valid_never, valid_null, valid_boolean, valid_integer, valid_number, valid_string, valid_enum, valid_ref, valid_array, valid_tuple, valid_object, valid_oneOf, valid_anyOf, valid_allOf, valid_not] at h ⊢
      cases hk : d.get k with
      | none => rw [hk] at h; exact h
      | some s' => rw [hk] at h; exact ih _ _ _ h
    | array items mn mx u =>
      simp only [valid_any, valid_never, valid_null, valid_boolean, valid_integer, valid_number, valid_string, valid_enum, valid_ref, valid_array, valid_tuple, valid_object, valid_oneOf, valid_anyOf, valid_allOf, valid_not] at h ⊢
      cases v with
      | arr xs => exact and3_mono (fun t ht => ht) (fun t => allJ_mono (ihle items) xs t) h
      | _ => exact h
    | tuple items =>
      simp only [valid_any, valid_never, valid_null, valid_boolean, valid_integer, valid_number, valid_string, valid_enum, valid_ref, valid_array, valid_tuple, valid_object, valid_oneOf, valid_anyOf, valid_allOf, valid_not] at h ⊢
      cases v with
      | arr xs => exact zipV_mono ihle items xs r h
      | _ => exact h
    | object props req addl =>
      simp only [valid_any, valid_never, valid_null, valid_boolean, valid_integer, valid_number, valid_string, valid_enum, valid_ref, valid_array, valid_tuple, valid_object, valid_oneOf, valid_anyOf, valid_allOf, valid_not] at h ⊢
      cases v with
      | obj kvs => exact and3_mono (fun t ht => ht) (fun t => membersV_mono ihle props addl kvs t) h
      | _ => exact h
    | oneOf ss =>
      simp only [valid_any, valid_never, valid_null, valid_boolean, valid_integer, valid_number, valid_string, valid_enum, valid_ref, valid_array, valid_tuple, valid_object, valid_oneOf, valid_anyOf, valid_allOf, valid_not] at h ⊢
      cases hc : countV (fun s' => valid x d f s' v) ss with
      | none => rw [hc] at h; simp at h
      | some n =>
        rw [hc] at h
        rw [countV_mono (g' := fun s' => valid x d (f + 1) s' v) (fun s r hh => ih s v r hh) ss n hc]
        exact h
    | anyOf ss =>
      simp only [valid_any, valid_never, valid_null, valid_boolean, valid_integer, valid_number, valid_string, valid_enum, valid_ref, valid_array, valid_tuple, valid_object, valid_oneOf, valid_anyOf, valid_allOf, valid_not] at h ⊢
      cases hc : countV (fun s' => valid x d f s' v) ss with
      | none => rw [hc] at h; simp at h
      | some n =>
        rw [hc] at h
        rw [countV_mono (g' := fun s' => valid x d (f + 1) s' v) (fun s r hh => ih s v r hh) ss n hc]
        exact h
    | allOf ss =>
      simp only [valid_any, valid_never, valid_null, valid_boolean, valid_integer, valid_number, valid_string, valid_enum, valid_ref, valid_array, valid_tuple, valid_object, valid_oneOf, valid_anyOf, valid_allOf, valid_not] at h ⊢
      exact allV_mono (g' := fun s' => valid x d (f + 1) s' v) (fun s r hh => ih s v r hh) ss r h
    | not s' =>
      simp only [valid_any, valid_never, valid_null, valid_boolean, valid_integer, valid_number, valid_string, valid_enum, valid_ref, valid_array, valid_tuple, valid_object, valid_oneOf, valid_anyOf, valid_allOf, valid_not] at h ⊢
      cases hv : valid x d f s' v with
      | none => rw [hv] at h; simp at h
      | some b => rw [hv] at h; rw [ih _ _ _ hv]; exact h

theorem valid_mono (x : Ext) (d : Doc) {f f' : Nat} (hle : f ≤ f') {s : Schema} {v : Json} {r : Bool}
    (h : valid x d f s v = some r) : valid x d f' s v = some r := by
  induction hle with
  | refl => exact h
  | step _ ih => exact valid_succ x d _ _ _ _ ih

/-- a verdict does not depend on the fuel at which it is obtained -/
theorem valid_det (x : Ext) (d : Doc) {f f' : Nat} {s : Schema} {v : Json} {r r' : Bool}
    (h : valid x d f s v = some r) (h' : valid x d f' s v = some r') : r = r' := by
  have h1 := valid_mono x d (Nat.le_max_left f f') h
  have h2 := valid_mono x d (Nat.le_max_right f f') h'
  rw [h1] at h2; exact Option.some.inj h2

end TypifyModel.Merge

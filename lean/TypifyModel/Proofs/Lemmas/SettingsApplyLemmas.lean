import TypifyModel.Model.SettingsApply
import TypifyModel.Proofs.Lemmas.RenderLemmas
/-! Helper lemmas for C14: the token form of `type_ident`, and what it can mention. -/
namespace TypifyModel.SettingsApply
open TypifyModel TypifyModel.Render

theorem flat_append (st : Settings) (a b : List Tok) : flat st (a ++ b) = flat st a ++ flat st b := by
  induction a with
  | nil => simp [flat]
  | cons t r ih => simp [flat, ih, String.append_assoc]

theorem flat_single (st : Settings) (t : Tok) : flat st [t] = t.text st := by
  simp [flat]

theorem flat_lit (st : Settings) (s : String) (r : List Tok) : flat st (.lit s :: r) = s ++ flat st r := rfl

theorem commaSep_flat (st : Settings) (l : List (List Tok)) :
    commaSep (l.map (flat st)) = flat st (commaToks l) := by
  induction l with
  | nil => rfl
  | cons a r ih =>
    cases r with
    | nil => simp [commaSep, commaToks]
    | cons b r' =>
      simp only [List.map_cons, commaSep, commaToks] at ih ⊢
      rw [flat_append, flat_append, ← ih]
      simp [flat, Tok.text]

theorem commaSep_map_flat (st : Settings) {α : Type} (g : α → List Tok) (h : α → String) (l : List α)
    (hh : ∀ a, h a = flat st (g a)) :
    commaSep (l.map h) = flat st (commaToks (l.map g)) := by
  rw [← commaSep_flat, List.map_map]
  congr 1
  apply List.map_congr_left
  intro a _
  simp [hh]

/-- the configured map type is the only way a setting enters the text of a token list -/
theorem flat_congr {st st' : Settings} (h : st.mapType = st'.mapType) (l : List Tok) :
    flat st l = flat st' l := by
  induction l with
  | nil => rfl
  | cons t r ih => cases t <;> simp [flat, Tok.text, ih, h]

/-- **`type_ident` is the text of its tokens** -/
theorem typeIdent_eq_flat (st : Settings) (σ : Space) : ∀ (f : Nat) (t : Id),
    typeIdent st σ f t = flat st (typeToks σ f t) := by
  intro f
  induction f with
  | zero => intro t; rfl
  | succ f ih =>
    intro t
    unfold typeIdent typeToks
    cases hg : σ.get t with
    | none => rfl
    | some ent =>
      simp only
      cases hd : ent.details with
      | enum n tag vs deny d bes => simp [flat, Tok.text]
      | struct n ps deny d => simp [flat, Tok.text]
      | newtype n inner c d => simp [flat, Tok.text]
      | native name ps =>
        simp only
        split
        · simp [flat, Tok.text]
        · rw [commaSep_map_flat st (typeToks σ f) (typeIdent st σ f) ps (ih ·)]
          simp [flat, Tok.text, flat_append, String.append_assoc]
      | option t' =>
        simp only
        split
        · rename_i heq; simp only [heq]; exact ih t'
        · split
          · simp_all
          · simp [flat, Tok.text, flat_append, ih t', String.append_assoc]
      | box t' => simp [flat, Tok.text, flat_append, ih t', String.append_assoc]
      | vec t' => simp [flat, Tok.text, flat_append, ih t', String.append_assoc]
      | set t' => simp [flat, Tok.text, flat_append, ih t', String.append_assoc]
      | map k v =>
        simp only
        split
        · rename_i h1 h2; simp [h1, h2, flat, Tok.text]
        · rename_i hne
          split
          · rename_i h1 h2; exact (hne _ _ _ _ h1 h2).elim
          · simp [flat, Tok.text, flat_append, ih k, ih v, String.append_assoc]
      | array t' n => simp [flat, Tok.text, flat_append, ih t', String.append_assoc]
      | tuple ts =>
        simp only
        split
        · simp [flat, Tok.text, flat_append, ih, String.append_assoc]
        · rw [commaSep_map_flat st (typeToks σ f) (typeIdent st σ f) ts (ih ·)]
          simp [flat, Tok.text, flat_append, String.append_assoc]
      | unit => simp [flat, Tok.text]
      | boolean => simp [flat, Tok.text]
      | integer n => simp [flat, Tok.text]
      | float n => simp [flat, Tok.text]
      | string => simp [flat, Tok.text]
      | jsonValue => simp [flat, Tok.text]
      | reference r => simp [flat, Tok.text]

theorem typeIdent_congr {st st' : Settings} (h : st.mapType = st'.mapType) (σ : Space) (f : Nat) (t : Id) :
    typeIdent st σ f t = typeIdent st' σ f t := by
  rw [typeIdent_eq_flat, typeIdent_eq_flat, flat_congr h]

theorem get_mem {σ : Space} {t : Id} {ent : Entry} (h : σ.get t = some ent) : (t, ent) ∈ σ.entries := by
  unfold Space.get at h
  cases hf : σ.entries.find? (fun e => e.1 == t) with
  | none => simp [hf] at h
  | some e =>
    simp [hf] at h
    have hm := List.mem_of_find?_eq_some hf
    have hp := List.find?_some hf
    simp at hp
    subst h
    cases e
    simp_all

theorem mem_commaToks {x : Tok} {l : List (List Tok)} (h : x ∈ commaToks l) :
    x = .lit "," ∨ ∃ a, a ∈ l ∧ x ∈ a := by
  induction l with
  | nil => simp [commaToks] at h
  | cons a r ih =>
    cases r with
    | nil => simp [commaToks] at h; exact Or.inr ⟨a, by simp, h⟩
    | cons b r' =>
      simp only [commaToks, List.mem_append, List.mem_singleton] at h
      rcases h with (h | h) | h
      · exact Or.inr ⟨a, by simp, h⟩
      · exact Or.inl h
      · rcases ih h with h' | ⟨c, hc, hx⟩
        · exact Or.inl h'
        · exact Or.inr ⟨c, List.mem_cons_of_mem _ hc, hx⟩

/-- **a type name occurring in a type expression is the name of an entry of the space** -/
theorem name_mem_typeToks (σ : Space) : ∀ (f : Nat) (t : Id) (n : String),
    Tok.name n ∈ typeToks σ f t → ∃ e, e ∈ σ.entries ∧ e.2.details.name? = some n := by
  intro f
  induction f with
  | zero => intro t n h; simp [typeToks] at h
  | succ f ih =>
    intro t n h
    unfold typeToks at h
    cases hg : σ.get t with
    | none => simp [hg] at h
    | some ent =>
      simp only [hg] at h
      have hm := get_mem hg
      cases hd : ent.details with
      | enum n' tag vs deny d bes =>
        simp [hd] at h; subst h; exact ⟨_, hm, by simp [hd, Details.name?]⟩
      | struct n' ps deny d =>
        simp [hd] at h; subst h; exact ⟨_, hm, by simp [hd, Details.name?]⟩
      | newtype n' inner c d =>
        simp [hd] at h; subst h; exact ⟨_, hm, by simp [hd, Details.name?]⟩
      | native name ps =>
        simp only [hd] at h
        split at h
        · simp at h
        · simp only [List.mem_append, List.mem_cons, reduceCtorEq, false_or,
            List.not_mem_nil, or_false] at h
          rcases mem_commaToks h with h' | ⟨a, ha, hx⟩
          · simp at h'
          · simp only [List.mem_map] at ha
            obtain ⟨p, _, rfl⟩ := ha
            exact ih p n hx
      | option t' =>
        simp only [hd] at h
        split at h
        · exact ih t' n h
        · simp at h; exact ih t' n h
      | box t' => simp [hd] at h; exact ih t' n h
      | vec t' => simp [hd] at h; exact ih t' n h
      | set t' => simp [hd] at h; exact ih t' n h
      | map k v =>
        simp only [hd] at h
        split at h
        · simp at h
        · simp at h
          rcases h with h | h
          · exact ih k n h
          · exact ih v n h
      | array t' m => simp [hd] at h; exact ih t' n h
      | tuple ts =>
        simp only [hd] at h
        split at h
        · simp at h; exact ih _ n h
        · simp only [List.mem_append, List.mem_cons, reduceCtorEq, false_or,
            List.not_mem_nil, or_false] at h
          rcases mem_commaToks h with h' | ⟨a, ha, hx⟩
          · simp at h'
          · simp only [List.mem_map] at ha
            obtain ⟨p, _, rfl⟩ := ha
            exact ih p n hx
      | unit => simp [hd] at h
      | boolean => simp [hd] at h
      | integer m => simp [hd] at h
      | float m => simp [hd] at h
      | string => simp [hd] at h
      | jsonValue => simp [hd] at h
      | reference r => simp [hd] at h

theorem fieldSerde_congr {st st' : Settings} (h : st.mapType = st'.mapType) (σ : Space) (tn : String) (p : Field) :
    fieldSerde st σ tn p = fieldSerde st' σ tn p := by
  unfold fieldSerde
  simp only [h]

theorem fieldS_congr {st st' : Settings} (h : st.mapType = st'.mapType) (σ : Space) (tn : String) (b : Bool)
    (p : Field) : fieldS st σ tn b p = fieldS st' σ tn b p := by
  unfold fieldS
  rw [fieldSerde_congr h, typeIdent_congr h]

theorem variantS_congr {st st' : Settings} (h : st.mapType = st'.mapType) (σ : Space) (en : String)
    (v : Variant) : variantS st σ en v = variantS st' σ en v := by
  unfold variantS
  have e1 : typeIdent st σ fuel = typeIdent st' σ fuel := funext (typeIdent_congr h σ fuel)
  have e2 : ∀ tn b, fieldS st σ tn b = fieldS st' σ tn b := fun tn b => funext (fieldS_congr h σ tn b)
  simp only [e1, e2]

theorem convenienceFrom_congr {st st' : Settings} (h : st.mapType = st'.mapType) (σ : Space)
    (vs : List Variant) : convenienceFrom st σ vs = convenienceFrom st' σ vs := by
  unfold convenienceFrom
  have e1 : typeIdent st σ fuel = typeIdent st' σ fuel := funext (typeIdent_congr h σ fuel)
  simp only [e1]

end TypifyModel.SettingsApply

namespace TypifyModel.SettingsApply
open TypifyModel TypifyModel.Render

theorem fieldS_ty (st : Settings) (σ : Space) (tn : String) (b : Bool) (p : Field) :
    (fieldS st σ tn b p).1.ty = typeIdent st σ fuel p.ty := by
  unfold fieldS; rfl

theorem fieldS_name (st : Settings) (σ : Space) (tn : String) (b : Bool) (p : Field) :
    (fieldS st σ tn b p).1.name = p.name := by
  unfold fieldS; rfl

theorem fieldS_serde (st : Settings) (σ : Space) (tn : String) (b : Bool) (p : Field) :
    (fieldS st σ tn b p).1.serde = (fieldSerde st σ tn p).1 := by
  unfold fieldS; rfl

theorem ExprOf.mono {st : Settings} {σ : Space} {ids ids' : List Id} {s : String}
    (hsub : ∀ t, t ∈ ids → t ∈ ids') (h : ExprOf st σ ids s) : ExprOf st σ ids' s := by
  rcases h with ⟨t, ht, rfl⟩ | ⟨a, ha, rfl⟩ | ⟨ts, hts, rfl⟩
  · exact Or.inl ⟨t, hsub t ht, rfl⟩
  · exact Or.inr (Or.inl ⟨a, hsub a ha, rfl⟩)
  · exact Or.inr (Or.inr ⟨ts, fun t ht => hsub t (hts t ht), rfl⟩)

/-- the payload types of an emitted variant are the types of the variant's own ids -/
theorem variantS_tys (st : Settings) (σ : Space) (en : String) (v : Variant) :
    ∀ s, s ∈ variantTys (variantS st σ en v).1 → ExprOf st σ (variantIds v) s := by
  intro s hs
  unfold variantS at hs
  unfold variantIds
  cases hd : v.details with
  | simple => simp [hd, variantTys] at hs
  | item t =>
    simp [hd, variantTys] at hs
    exact Or.inl ⟨t, by simp, hs⟩
  | tuple ts =>
    simp only [hd] at hs
    split at hs
    · rename_i a
      simp [variantTys] at hs
      exact Or.inr (Or.inl ⟨a, by simp, hs⟩)
    · simp [variantTys] at hs
      obtain ⟨t, ht, rfl⟩ := hs
      exact Or.inl ⟨t, ht, rfl⟩
  | struct ps =>
    simp [hd, variantTys] at hs
    obtain ⟨p, hp, rfl⟩ := hs
    exact Or.inl ⟨p.ty, by simp; exact ⟨p, hp, rfl⟩, fieldS_ty ..⟩

/-- the `impl From<Payload> for Enum` headers mention the payload type of one of the variants -/
theorem convenienceFrom_tys (st : Settings) (σ : Space) (vs : List Variant) :
    ∀ k, k ∈ convenienceFrom st σ vs → ∀ s, s ∈ implTys k → ∃ v, v ∈ vs ∧ ExprOf st σ (variantIds v) s := by
  intro k hk s hs
  unfold convenienceFrom at hk
  simp only [List.mem_filterMap] at hk
  obtain ⟨v, hv, hk⟩ := hk
  refine ⟨v, hv, ?_⟩
  unfold variantIds
  split at hk
  · simp at hk
  · split at hk
    · simp at hk
    · split at hk
      · rename_i t hd
        split at hk
        · simp at hk
        · simp at hk; subst hk
          simp [implTys] at hs
          rw [hd]; exact Or.inl ⟨t, by simp, hs⟩
      · rename_i ts hd
        rw [hd]
        split at hk
        · rename_i a
          simp at hk; subst hk
          simp [implTys] at hs
          exact Or.inr (Or.inl ⟨a, by simp, hs⟩)
        · simp at hk; subst hk
          simp [implTys] at hs
          exact Or.inr (Or.inr ⟨ts, fun _ h => h, hs⟩)
      · simp at hk

theorem implTys_strTryFroms : ∀ k, k ∈ strTryFroms → implTys k = [] := by
  intro k hk
  simp [strTryFroms] at hk
  rcases hk with rfl | rfl | rfl <;> rfl

/-- the token form of an expression made from child ids mentions only names of entries -/
theorem ExprOf.toks {st : Settings} {σ : Space} {ids : List Id} {s : String} (h : ExprOf st σ ids s) :
    ∃ toks, s = flat st toks ∧
      ∀ n, Tok.name n ∈ toks → ∃ e, e ∈ σ.entries ∧ e.2.details.name? = some n := by
  rcases h with ⟨t, _, rfl⟩ | ⟨a, _, rfl⟩ | ⟨ts, _, rfl⟩
  · exact ⟨typeToks σ fuel t, typeIdent_eq_flat .., fun n hn => name_mem_typeToks σ fuel t n hn⟩
  · refine ⟨[.lit "("] ++ typeToks σ fuel a ++ [.lit ",)"], ?_, ?_⟩
    · simp [flat_append, flat, Tok.text, typeIdent_eq_flat, String.append_assoc]
    · intro n hn
      simp at hn
      exact name_mem_typeToks σ fuel a n hn
  · refine ⟨[.lit "("] ++ commaToks (ts.map (typeToks σ fuel)) ++ [.lit ")"], ?_, ?_⟩
    · rw [commaSep_map_flat st (typeToks σ fuel) (typeIdent st σ fuel) ts (typeIdent_eq_flat st σ fuel ·)]
      simp [flat_append, flat, Tok.text, String.append_assoc]
    · intro n hn
      simp only [List.mem_append, List.mem_singleton, reduceCtorEq, false_or, or_false] at hn
      rcases mem_commaToks hn with h' | ⟨a, ha, hx⟩
      · simp at h'
      · simp only [List.mem_map] at ha
        obtain ⟨p, _, rfl⟩ := ha
        exact name_mem_typeToks σ fuel p n hx

end TypifyModel.SettingsApply

import TypifyModel.Proofs.Lemmas.MergeSpec
/-! C09: arrays and tuples (`merge_so_array`, `merge_items_array`). -/
set_option linter.unusedSimpArgs false
set_option linter.unusedVariables false
namespace TypifyModel.Merge
open TypifyModel TypifyModel.Validate

variable {x : Ext} {d : Doc}

def geO (mn : Option Nat) (n : Nat) : Bool := match mn with | some m => decide (m ≤ n) | none => true
def leO (mx : Option Nat) (n : Nat) : Bool := match mx with | some m => decide (n ≤ m) | none => true

theorem valid_array' (x : Ext) (d : Doc) (f : Nat) (j : Json) (items : Schema) (mn mx : Option Nat) (uniq : Bool) :
    valid x d (f + 1) (.array items mn mx uniq) j =
    (match j with
     | .arr xs => and3 (some (geO mn xs.length && leO mx xs.length && (!uniq || distinctJ xs))) (allJ (valid x d f items) xs)
     | _ => some false) := by
  cases mn <;> cases mx <;> rfl

theorem and3_some {p q : Option Bool} {r : Bool} (h : and3 p q = some r) :
    ∃ p' q', p = some p' ∧ q = some q' ∧ r = (p' && q') := by
  cases p <;> cases q <;> simp [and3] at h
  exact ⟨_, _, rfl, rfl, h.symm⟩

theorem and3_eq (p q : Bool) : and3 (some p) (some q) = some (p && q) := rfl

theorem valid_le (x : Ext) (d : Doc) {f f' : Nat} (h : f ≤ f') (s : Schema) : Le (valid x d f s) (valid x d f' s) :=
  fun _ _ hh => valid_mono x d h hh

theorem allJ_inter {m a b : Schema} (hI : Inter x d m a b) : ∀ (xs : List Json) (f2 f3 : Nat) (ja jb : Bool),
    allJ (valid x d f2 a) xs = some ja → allJ (valid x d f3 b) xs = some jb →
    ∃ f1, allJ (valid x d f1 m) xs = some (ja && jb) := by
  intro xs
  induction xs with
  | nil =>
    intro f2 f3 ja jb h2 h3
    simp only [allJ, Option.some.injEq] at h2 h3
    subst h2 h3
    exact ⟨0, rfl⟩
  | cons j rest ih =>
    intro f2 f3 ja jb h2 h3
    simp only [allJ] at h2 h3
    obtain ⟨pa, qa, hpa, hqa, rfl⟩ := and3_some h2
    obtain ⟨pb, qb, hpb, hqb, rfl⟩ := and3_some h3
    obtain ⟨g1, hg1⟩ := hI j f2 f3 pa pb hpa hpb
    obtain ⟨g2, hg2⟩ := ih f2 f3 qa qb hqa hqb
    refine ⟨max g1 g2, ?_⟩
    simp only [allJ]
    rw [valid_mono x d (Nat.le_max_left g1 g2) hg1,
        allJ_mono (valid_le x d (Nat.le_max_right g1 g2) m) rest _ hg2, and3_eq]
    cases pa <;> cases pb <;> cases qa <;> cases qb <;> rfl

theorem allJ_true_mem {g : Json → Option Bool} : ∀ {l : List Json}, allJ g l = some true → ∀ j ∈ l, g j = some true := by
  intro l
  induction l with
  | nil => intro _ j hj; simp at hj
  | cons a r ih =>
    intro h j hj
    simp only [allJ] at h
    obtain ⟨p, q, hp, hq, hr⟩ := and3_some h
    have : p = true ∧ q = true := by cases p <;> cases q <;> simp at hr ⊢
    obtain ⟨rfl, rfl⟩ := this
    simp only [List.mem_cons] at hj
    rcases hj with rfl | hj
    · exact hp
    · exact ih hq j hj

theorem bounds_inter (mna mnb mxa mxb : Option Nat) (ua ub : Bool) (n : Nat) (dj : Bool) :
    ((geO (omaxN mna mnb) n) &&
     (leO (ominN mxa mxb) n) && (!(ua || ub) || dj)) =
    (((geO (mna) n) &&
      (leO (mxa) n) && (!ua || dj)) &&
     ((geO (mnb) n) &&
      (leO (mxb) n) && (!ub || dj))) := by
  apply Bool.eq_iff_iff.mpr
  cases mna <;> cases mnb <;> cases mxa <;> cases mxb <;> cases ua <;> cases ub <;> cases dj <;>
    simp only [geO, leO, omaxN, ominN, Bool.and_eq_true, decide_eq_true_eq, Bool.and_true, Bool.true_and, and_true, true_and,
      Bool.or_true, Bool.or_false, Bool.not_true, Bool.not_false, Bool.false_or, Bool.true_or, Bool.or_self,
      Bool.false_eq_true, and_false, false_and, Bool.and_false, Bool.false_and] <;> omega

theorem minGtMax_disj {mna mnb mxa mxb : Option Nat} (h : minGtMax (omaxN mna mnb) (ominN mxa mxb) = true) (n : Nat) :
    ¬ (((geO (mna) n) &&
        (leO (mxa) n)) = true ∧
       ((geO (mnb) n) &&
        (leO (mxb) n)) = true) := by
  cases mna <;> cases mnb <;> cases mxa <;> cases mxb <;>
    simp only [geO, leO, omaxN, ominN, minGtMax, Bool.and_eq_true, decide_eq_true_eq, Bool.and_true, Bool.true_and, and_true, true_and,
      Bool.false_eq_true] at h ⊢ <;> omega

theorem array_array_spec {rec : Schema → Schema → MR} (hrec : RecOK x d rec)
    (ia : Schema) (mna mxa : Option Nat) (ua : Bool) (ib : Schema) (mnb mxb : Option Nat) (ub : Bool) :
    Spec x d (let mn := omaxN mna mnb
              let mx := ominN mxa mxb
              if minGtMax mn mx then MR.never [] else
              match rec ia ib with
              | .ok m g => .ok (.array m mn mx (ua || ub)) g
              | .never g => .never (g ++ (if decide (1 ≤ mn.getD 0) then [] else [Gap.arrayItems]))
              | .unsup => .unsup)
      (.array ia mna mxa ua) (.array ib mnb mxb ub) := by
  simp only
  split
  · rename_i hgt
    intro v f2 f3 hh
    obtain ⟨h2, h3⟩ := hh
    obtain ⟨f2', rfl⟩ := ne_zero_of_valid h2
    obtain ⟨f3', rfl⟩ := ne_zero_of_valid h3
    rw [valid_array'] at h2 h3
    cases v with
    | arr xs =>
      simp only at h2 h3
      obtain ⟨p, q, hp, hq, hr⟩ := and3_some h2
      obtain ⟨p', q', hp', hq', hr'⟩ := and3_some h3
      simp only [Option.some.injEq] at hp hp'
      have hpt : p = true := by cases p <;> cases q <;> simp at hr ⊢
      have hpt' : p' = true := by cases p' <;> cases q' <;> simp at hr' ⊢
      subst hpt hpt'
      apply minGtMax_disj hgt xs.length
      simp only [Bool.and_eq_true] at hp hp' ⊢
      exact ⟨hp.1, hp'.1⟩
    | _ => simp at h2
  · have hspec := hrec ia ib
    cases hr : rec ia ib with
    | unsup => trivial
    | ok m g =>
      cases g with
      | cons _ _ => trivial
      | nil =>
        rw [hr] at hspec
        have hI : Inter x d m ia ib := hspec
        intro v f2 f3 ba bb h2 h3
        obtain ⟨f2', rfl⟩ := ne_zero_of_valid h2
        obtain ⟨f3', rfl⟩ := ne_zero_of_valid h3
        rw [valid_array'] at h2 h3
        cases v with
        | arr xs =>
          simp only at h2 h3
          obtain ⟨p, q, hp, hq, rfl⟩ := and3_some h2
          obtain ⟨p', q', hp', hq', rfl⟩ := and3_some h3
          obtain ⟨g1, hg1⟩ := allJ_inter hI xs f2' f3' q q' hq hq'
          refine ⟨g1 + 1, ?_⟩
          rw [valid_array']
          simp only
          rw [hg1, bounds_inter, and3_eq]
          simp only [Option.some.injEq] at hp hp'
          rw [← hp, ← hp']
          generalize ((geO (mna) xs.length) &&
            (leO (mxa) xs.length) && (!ua || distinctJ xs)) = c1
          generalize ((geO (mnb) xs.length) &&
            (leO (mxb) xs.length) && (!ub || distinctJ xs)) = c2
          cases c1 <;> cases c2 <;> cases q <;> cases q' <;> rfl
        | _ =>
          simp only [Option.some.injEq] at h2 h3
          subst h2 h3
          exact ⟨1, rfl⟩
    | never g =>
      cases g with
      | cons _ _ => trivial
      | nil =>
        simp only [List.nil_append]
        split
        · rename_i hmin
          rw [hr] at hspec
          have hD : Disj x d ia ib := hspec
          intro v f2 f3 hh
          obtain ⟨h2, h3⟩ := hh
          obtain ⟨f2', rfl⟩ := ne_zero_of_valid h2
          obtain ⟨f3', rfl⟩ := ne_zero_of_valid h3
          rw [valid_array'] at h2 h3
          cases v with
          | arr xs =>
            simp only at h2 h3
            obtain ⟨p, q, hp, hq, hr1⟩ := and3_some h2
            obtain ⟨p', q', hp', hq', hr2⟩ := and3_some h3
            have hpq : p = true ∧ q = true := by cases p <;> cases q <;> simp at hr1 ⊢
            have hpq' : p' = true ∧ q' = true := by cases p' <;> cases q' <;> simp at hr2 ⊢
            obtain ⟨rfl, rfl⟩ := hpq
            obtain ⟨rfl, rfl⟩ := hpq'
            cases xs with
            | nil =>
              simp only [Option.some.injEq, List.length_nil] at hp hp'
              simp only [decide_eq_true_eq] at hmin
              revert hmin hp hp'
              cases mna <;> cases mnb <;> simp [omaxN, geO] <;> omega
            | cons j rest =>
              exact hD j f2' f3' ⟨allJ_true_mem hq j (by simp), allJ_true_mem hq' j (by simp)⟩
          | _ => simp at h2
        · trivial

/-! ### tuples -/

theorem zipV_inter {rec : Schema → Schema → MR} (hrec : RecOK x d rec) :
    ∀ (ps : List (Schema × Schema)) (ms : List Schema) (u : Bool), mergeItems rec ps = (some ms, [], u) →
    ∀ (xs : List Json) (f2 f3 : Nat) (za zb : Bool), zipV (valid x d f2) (ps.map (·.1)) xs = some za →
      zipV (valid x d f3) (ps.map (·.2)) xs = some zb → ∃ f1, zipV (valid x d f1) ms xs = some (za && zb) := by
  intro ps
  induction ps with
  | nil =>
    intro ms u h xs f2 f3 za zb h2 h3
    simp only [mergeItems, Prod.mk.injEq, Option.some.injEq] at h
    obtain ⟨rfl, _⟩ := h
    simp only [List.map_nil] at h2 h3
    cases xs with
    | nil => simp only [zipV, Option.some.injEq] at h2 h3; subst h2 h3; exact ⟨0, rfl⟩
    | cons j r => simp only [zipV, Option.some.injEq] at h2 h3; subst h2 h3; exact ⟨0, rfl⟩
  | cons p rest ih =>
    intro ms u h xs f2 f3 za zb h2 h3
    obtain ⟨s, t⟩ := p
    simp only [mergeItems] at h
    have hspec := hrec s t
    cases hr : rec s t with
    | unsup => rw [hr] at h; simp at h
    | never g => rw [hr] at h; simp at h
    | ok m g =>
      rw [hr] at h hspec
      simp only at h
      cases hm : mergeItems rec rest with
      | mk oms rest2 =>
        obtain ⟨g', u'⟩ := rest2
        rw [hm] at h
        cases oms with
        | none => simp at h
        | some ms' =>
          simp only [Prod.mk.injEq, Option.some.injEq, List.append_eq_nil_iff] at h
          obtain ⟨rfl, ⟨rfl, rfl⟩, _⟩ := h
          have hI : Inter x d m s t := hspec
          simp only [List.map_cons] at h2 h3
          cases xs with
          | nil => simp only [zipV, Option.some.injEq] at h2 h3; subst h2 h3; exact ⟨0, rfl⟩
          | cons j js =>
            simp only [zipV] at h2 h3
            obtain ⟨pa, qa, hpa, hqa, rfl⟩ := and3_some h2
            obtain ⟨pb, qb, hpb, hqb, rfl⟩ := and3_some h3
            obtain ⟨g1, hg1⟩ := hI j f2 f3 pa pb hpa hpb
            obtain ⟨g2, hg2⟩ := ih ms' u' hm js f2 f3 qa qb hqa hqb
            refine ⟨max g1 g2, ?_⟩
            simp only [zipV]
            rw [valid_mono x d (Nat.le_max_left g1 g2) hg1,
              zipV_mono (fun s => valid_le x d (Nat.le_max_right g1 g2) s) ms' js _ hg2, and3_eq]
            cases pa <;> cases pb <;> cases qa <;> cases qb <;> rfl

theorem and3_true' {p q : Option Bool} (h : and3 p q = some true) : p = some true ∧ q = some true := by
  cases p <;> cases q <;> simp [and3] at h ⊢
  exact h

theorem zipV_disj {rec : Schema → Schema → MR} (hrec : RecOK x d rec) :
    ∀ (ps : List (Schema × Schema)), mergeItems rec ps = (none, [], false) →
    ∀ (xs : List Json) (f2 f3 : Nat), ¬ (zipV (valid x d f2) (ps.map (·.1)) xs = some true ∧
      zipV (valid x d f3) (ps.map (·.2)) xs = some true) := by
  intro ps
  induction ps with
  | nil => intro h; simp [mergeItems] at h
  | cons p rest ih =>
    intro h xs f2 f3 hh
    obtain ⟨s, t⟩ := p
    obtain ⟨h2, h3⟩ := hh
    simp only [mergeItems] at h
    have hspec := hrec s t
    simp only [List.map_cons] at h2 h3
    cases xs with
    | nil => simp [zipV] at h2
    | cons j js =>
      simp only [zipV] at h2 h3
      obtain ⟨h2a, h2b⟩ := and3_true' h2
      obtain ⟨h3a, h3b⟩ := and3_true' h3
      cases hr : rec s t with
      | unsup => rw [hr] at h; simp at h
      | never g =>
        rw [hr] at h hspec
        simp only [Prod.mk.injEq, true_and, and_true] at h
        subst h
        exact hspec j f2 f3 ⟨h2a, h3a⟩
      | ok m g =>
        rw [hr] at h
        simp only at h
        cases hm : mergeItems rec rest with
        | mk oms rest2 =>
          obtain ⟨g', u'⟩ := rest2
          rw [hm] at h
          cases oms with
          | some ms' => simp at h
          | none =>
            simp only [Prod.mk.injEq, List.append_eq_nil_iff, true_and] at h
            obtain ⟨⟨_, rfl⟩, rfl⟩ := h
            exact ih hm js f2 f3 ⟨h2b, h3b⟩

theorem zipV_len {g : Schema → Json → Option Bool} : ∀ (ss : List Schema) (xs : List Json),
    zipV g ss xs = some true → xs.length = ss.length := by
  intro ss
  induction ss with
  | nil => intro xs h; cases xs <;> simp [zipV] at h ⊢
  | cons s r ih =>
    intro xs h
    cases xs with
    | nil => simp [zipV] at h
    | cons j js =>
      simp only [zipV] at h
      have := ih js (and3_true' h).2
      simp [this]

/-- a list schema seen as a tuple of `n` copies -/
theorem zipV_replicate {g : Schema → Json → Option Bool} (s : Schema) : ∀ (n : Nat) (xs : List Json) (ja : Bool),
    allJ (g s) xs = some ja → zipV g (List.replicate n s) xs = some (ja && decide (xs.length = n)) := by
  intro n
  induction n with
  | zero =>
    intro xs ja h
    cases xs with
    | nil => simp only [allJ, Option.some.injEq] at h; subst h; rfl
    | cons j js => simp [zipV, List.replicate]
  | succ n ih =>
    intro xs ja h
    cases xs with
    | nil => simp [zipV, List.replicate]
    | cons j js =>
      simp only [allJ] at h
      obtain ⟨p, q, hp, hq, rfl⟩ := and3_some h
      simp only [List.replicate, zipV]
      rw [hp, ih js q hq, and3_eq]
      simp only [List.length_cons, Nat.add_right_cancel_iff, Bool.and_assoc]

theorem map_snd_const (ts : List Schema) (ia : Schema) : (ts.map (fun t => (t, ia))).map (·.2) = List.replicate ts.length ia := by
  induction ts with
  | nil => rfl
  | cons t r ih => simp [List.replicate, ih]

theorem map_fst_const (ts : List Schema) (ia : Schema) : (ts.map (fun t => (t, ia))).map (·.1) = ts := by
  induction ts with
  | nil => rfl
  | cons t r ih => simp [ih]

theorem tuple_bounds {mn mx : Option Nat} {n : Nat}
    (h : ¬ minGtMax (omaxN mn (some n)) (ominN mx (some n)) = true) :
    ((geO (mn) n) &&
     (leO (mx) n)) = true := by
  cases mn <;> cases mx <;>
    simp only [geO, leO, omaxN, ominN, minGtMax, Bool.and_eq_true, decide_eq_true_eq, Bool.and_true, Bool.true_and, and_true, true_and,
      Bool.false_eq_true, not_false_eq_true] at h ⊢ <;> omega

theorem tuple_bounds' {mn mx : Option Nat} {n : Nat}
    (h : ¬ minGtMax (omaxN (some n) mn) (ominN (some n) mx) = true) :
    ((geO (mn) n) &&
     (leO (mx) n)) = true := by
  cases mn <;> cases mx <;>
    simp only [geO, leO, omaxN, ominN, minGtMax, Bool.and_eq_true, decide_eq_true_eq, Bool.and_true, Bool.true_and, and_true, true_and,
      Bool.false_eq_true, not_false_eq_true] at h ⊢ <;> omega

theorem tuple_bounds_gt {mn mx : Option Nat} {n : Nat}
    (h : minGtMax (omaxN mn (some n)) (ominN mx (some n)) = true) :
    ((geO (mn) n) &&
     (leO (mx) n)) = false := by
  apply Bool.eq_false_iff.mpr
  cases mn <;> cases mx <;>
    simp only [geO, leO, omaxN, ominN, minGtMax, Bool.and_eq_true, decide_eq_true_eq, Bool.and_true, Bool.true_and, and_true, true_and,
      Bool.false_eq_true, not_false_eq_true, ne_eq] at h ⊢ <;> omega

theorem tuple_bounds_gt' {mn mx : Option Nat} {n : Nat}
    (h : minGtMax (omaxN (some n) mn) (ominN (some n) mx) = true) :
    ((geO (mn) n) &&
     (leO (mx) n)) = false := by
  apply Bool.eq_false_iff.mpr
  cases mn <;> cases mx <;>
    simp only [geO, leO, omaxN, ominN, minGtMax, Bool.and_eq_true, decide_eq_true_eq, Bool.and_true, Bool.true_and, and_true, true_and,
      Bool.false_eq_true, not_false_eq_true, ne_eq] at h ⊢ <;> omega

/-- array (list form) against a fixed-length tuple -/
theorem array_tuple_spec {rec : Schema → Schema → MR} (hrec : RecOK x d rec)
    (ia : Schema) (mn mx : Option Nat) (ts : List Schema) :
    Spec x d (if minGtMax (omaxN mn (some ts.length)) (ominN mx (some ts.length)) then MR.never [] else
              itemsResult (mergeItems rec (ts.map (fun t => (t, ia)))))
      (.array ia mn mx false) (.tuple ts) := by
  split
  · rename_i hgt
    intro v f2 f3 hh
    obtain ⟨h2, h3⟩ := hh
    obtain ⟨f2', rfl⟩ := ne_zero_of_valid h2
    obtain ⟨f3', rfl⟩ := ne_zero_of_valid h3
    rw [valid_array'] at h2
    rw [valid_tuple] at h3
    cases v with
    | arr xs =>
      simp only at h2 h3
      have hl := zipV_len ts xs h3
      obtain ⟨h2a, _⟩ := and3_true' h2
      simp only [Option.some.injEq, Bool.not_false, Bool.true_or, Bool.and_true] at h2a
      rw [hl, tuple_bounds_gt hgt] at h2a
      simp at h2a
    | _ => simp at h2
  · rename_i hgt
    cases hm : mergeItems rec (ts.map (fun t => (t, ia))) with
    | mk oms rest2 =>
      obtain ⟨g, u⟩ := rest2
      cases oms with
      | some ms =>
        cases g with
        | cons _ _ => simp only [itemsResult]; trivial
        | nil =>
          simp only [itemsResult]
          intro v f2 f3 ba bb h2 h3
          obtain ⟨f2', rfl⟩ := ne_zero_of_valid h2
          obtain ⟨f3', rfl⟩ := ne_zero_of_valid h3
          rw [valid_array'] at h2
          rw [valid_tuple] at h3
          cases v with
          | arr xs =>
            simp only at h2 h3
            obtain ⟨p, q, hp, hq, rfl⟩ := and3_some h2
            have hz := zipV_replicate (g := valid x d f2') ia ts.length xs q hq
            rw [← map_snd_const ts ia] at hz
            have h3' : zipV (valid x d f3') ((ts.map (fun t => (t, ia))).map (·.1)) xs = some bb := by
              rw [map_fst_const]; exact h3
            obtain ⟨f1, hf1⟩ := zipV_inter hrec _ ms u hm xs f3' f2' bb _ h3' hz
            refine ⟨f1 + 1, ?_⟩
            rw [valid_tuple]
            simp only
            rw [hf1]
            simp only [Option.some.injEq, Bool.not_false, Bool.true_or, Bool.and_true] at hp
            subst hp
            by_cases hl : xs.length = ts.length
            · rw [hl, tuple_bounds hgt]
              simp only [decide_true, Bool.and_true, Bool.true_and, Option.some.injEq]
              exact Bool.and_comm _ _
            · have hbf : bb = false := by
                cases bb with
                | false => rfl
                | true => exact absurd (zipV_len ts xs h3) hl
              subst hbf
              simp
          | _ =>
            simp only [Option.some.injEq] at h2 h3
            subst h2 h3
            exact ⟨1, rfl⟩
      | none =>
        cases u with
        | true => simp only [itemsResult]; trivial
        | false =>
          cases g with
          | cons _ _ => simp only [itemsResult]; trivial
          | nil =>
            simp only [itemsResult]
            intro v f2 f3 hh
            obtain ⟨h2, h3⟩ := hh
            obtain ⟨f2', rfl⟩ := ne_zero_of_valid h2
            obtain ⟨f3', rfl⟩ := ne_zero_of_valid h3
            rw [valid_array'] at h2
            rw [valid_tuple] at h3
            cases v with
            | arr xs =>
              simp only at h2 h3
              obtain ⟨_, h2b⟩ := and3_true' h2
              have hz := zipV_replicate (g := valid x d f2') ia ts.length xs true h2b
              rw [← map_snd_const ts ia, zipV_len ts xs h3] at hz
              simp only [decide_true, Bool.and_self] at hz
              refine zipV_disj hrec _ hm xs f3' f2' ⟨?_, hz⟩
              rw [map_fst_const]; exact h3
            | _ => simp at h2

theorem tuple_tuple_spec {rec : Schema → Schema → MR} (hrec : RecOK x d rec) (ts ts' : List Schema) :
    Spec x d (if ts.length != ts'.length then MR.never [] else itemsResult (mergeItems rec (ts.zip ts')))
      (.tuple ts) (.tuple ts') := by
  split
  · rename_i hne
    simp only [bne_iff_ne, ne_eq] at hne
    intro v f2 f3 hh
    obtain ⟨h2, h3⟩ := hh
    obtain ⟨f2', rfl⟩ := ne_zero_of_valid h2
    obtain ⟨f3', rfl⟩ := ne_zero_of_valid h3
    rw [valid_tuple] at h2 h3
    cases v with
    | arr xs =>
      simp only at h2 h3
      exact hne ((zipV_len ts xs h2).symm.trans (zipV_len ts' xs h3))
    | _ => simp at h2
  · rename_i hne
    have hlen : ts.length = ts'.length := by simpa using hne
    have hfst : (ts.zip ts').map (·.1) = ts := by
      rw [List.map_fst_zip]; omega
    have hsnd : (ts.zip ts').map (·.2) = ts' := by
      rw [List.map_snd_zip]; omega
    cases hm : mergeItems rec (ts.zip ts') with
    | mk oms rest2 =>
      obtain ⟨g, u⟩ := rest2
      cases oms with
      | some ms =>
        cases g with
        | cons _ _ => simp only [itemsResult]; trivial
        | nil =>
          simp only [itemsResult]
          intro v f2 f3 ba bb h2 h3
          obtain ⟨f2', rfl⟩ := ne_zero_of_valid h2
          obtain ⟨f3', rfl⟩ := ne_zero_of_valid h3
          rw [valid_tuple] at h2 h3
          cases v with
          | arr xs =>
            simp only at h2 h3
            rw [← hfst] at h2
            rw [← hsnd] at h3
            obtain ⟨f1, hf1⟩ := zipV_inter hrec _ ms u hm xs f2' f3' ba bb h2 h3
            exact ⟨f1 + 1, by rw [valid_tuple]; exact hf1⟩
          | _ =>
            simp only [Option.some.injEq] at h2 h3
            subst h2 h3
            exact ⟨1, rfl⟩
      | none =>
        cases u with
        | true => simp only [itemsResult]; trivial
        | false =>
          cases g with
          | cons _ _ => simp only [itemsResult]; trivial
          | nil =>
            simp only [itemsResult]
            intro v f2 f3 hh
            obtain ⟨h2, h3⟩ := hh
            obtain ⟨f2', rfl⟩ := ne_zero_of_valid h2
            obtain ⟨f3', rfl⟩ := ne_zero_of_valid h3
            rw [valid_tuple] at h2 h3
            cases v with
            | arr xs =>
              simp only at h2 h3
              rw [← hfst] at h2
              rw [← hsnd] at h3
              exact zipV_disj hrec _ hm xs f2' f3' ⟨h2, h3⟩
            | _ => simp at h2

theorem omaxN_comm (a b : Option Nat) : omaxN a b = omaxN b a := by
  cases a <;> cases b <;> simp [omaxN, Nat.max_comm]

theorem ominN_comm (a b : Option Nat) : ominN a b = ominN b a := by
  cases a <;> cases b <;> simp [ominN, Nat.min_comm]

end TypifyModel.Merge

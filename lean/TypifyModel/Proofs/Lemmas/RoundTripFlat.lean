import TypifyModel.Proofs.Lemmas.RoundTripMain
import TypifyModel.Proofs.Lemmas.WireBase
import TypifyModel.Proofs.Lemmas.SortedKv
/-! The round trip of a struct with one flattened map (`additionalProperties: <schema>`), C03. -/
namespace TypifyModel.RoundTrip
open TypifyModel TypifyModel.Serde

variable (x : Ext) (σ : Space)

/-- named members first, one flattened member last: `foldFields` is `mapM'` over the named ones, then the flattened step -/
theorem foldFields_snoc {N : Field → Except E (String × Val)}
    {F : Field → List (String × Json) → Except E Val × List (String × Json)} :
    ∀ (named : List Field) (e : Field) (c : List (String × Json)), hasFlatten named = false → e.rename = .flatten →
      foldFields N F (named ++ [e]) c =
        (match mapM' N named with
         | .error err => (.error err, c)
         | .ok fsN =>
           match F e c with
           | (.error err, c') => (.error err, c')
           | (.ok v, c') => (.ok (fsN ++ [(e.name, v)]), c')) := by
  intro named
  induction named with
  | nil =>
    intro e c _ he
    simp only [List.nil_append, foldFields, he, beq_self_eq_true, if_true, mapM']
    cases hF : F e c with
    | mk r c1 => cases r <;> simp
  | cons p ps ih =>
    intro e c hfl he
    obtain ⟨hpf, hrf⟩ := hasFlatten_cons hfl
    simp only [List.cons_append, foldFields, hpf, Bool.false_eq_true, if_false, mapM']
    cases hN : N p with
    | error err => simp
    | ok a =>
      simp only
      rw [ih e c hrf he]
      cases hm : mapM' N ps with
      | error err => simp
      | ok fsN =>
        simp only
        cases hF : F e c with
        | mk r c1 => cases r <;> simp

/-- the same for serialisation: the entries of the named members, then the entries of the flattened one -/
theorem seFieldsR_snoc {rec : Id → Val → Except E Json} :
    ∀ (named : List Field) (fsN : List (String × Val)) (e : Field) (n : String) (m : Val),
      hasFlatten named = false → e.rename = .flatten → named.length = fsN.length →
      seFieldsR rec σ (named ++ [e]) (fsN ++ [(n, m)]) =
        (match (if skipped σ e m then (.ok [] : Except E (List (String × Json))) else
                 match rec e.ty m with
                 | .ok (.obj em) => .ok em
                 | .ok .null => .ok []
                 | .ok _ => .error .reject
                 | .error err => .error err) with
         | .error err => .error err
         | .ok em =>
           match seFieldsR rec σ named fsN with
           | .error err => .error err
           | .ok esN => .ok (esN ++ em)) := by
  intro named
  induction named with
  | nil =>
    intro fsN e n m _ he hlen
    cases fsN with
    | cons _ _ => simp at hlen
    | nil =>
      simp only [List.nil_append, seFieldsR, he, beq_self_eq_true, if_true]
      by_cases hsk : skipped σ e m = true
      · simp [hsk]
      · have hsk' : skipped σ e m = false := by simpa using hsk
        simp only [hsk', Bool.false_eq_true, if_false]
        cases hr : rec e.ty m with
        | error err => simp
        | ok j => cases j <;> simp
  | cons p ps ih =>
    intro fsN e n m hfl he hlen
    obtain ⟨hpf, hrf⟩ := hasFlatten_cons hfl
    cases fsN with
    | nil => simp at hlen
    | cons a as =>
      obtain ⟨k, av⟩ := a
      have hlen' : ps.length = as.length := by simpa using hlen
      simp only [List.cons_append, seFieldsR, hpf, Bool.false_eq_true, if_false]
      rw [ih as e n m hrf he hlen']
      generalize (if skipped σ e m then (.ok [] : Except E (List (String × Json))) else
                 match rec e.ty m with
                 | .ok (.obj em) => .ok em
                 | .ok .null => .ok []
                 | .ok _ => .error .reject
                 | .error err => .error err) = X
      cases X with
      | error err => simp
      | ok em =>
        simp only
        cases hs : seFieldsR rec σ ps as with
        | error err => simp
        | ok esN =>
          simp only
          by_cases hsk : skipped σ p av = true
          · simp [hsk]
          · have hsk' : skipped σ p av = false := by simpa using hsk
            simp only [hsk', Bool.false_eq_true, if_false]
            cases hr : rec p.ty av with
            | error err => simp
            | ok j => simp

/-- what a map type reads has only keys of the object it read -/
theorem de_map_keys {t k vt : Id} {ed : List String} {im : List Impl} (hget : σ.get t = some ⟨.map k vt, ed, im⟩)
    {f : Nat} {c : List (String × Json)} {m : Val} (h : de x σ (f + 1) t (.obj c) = .ok m) :
    ∃ mm, m = .map mm ∧ (∀ e ∈ mm, ∃ kv ∈ c, kv.1 = e.1) ∧ (c = [] → mm = []) := by
  simp only [de, hget] at h
  split at h
  · rename_i es hes
    simp only [Except.ok.injEq] at h; subst h
    refine ⟨_, rfl, ?_, ?_⟩
    · intro e he
      rcases foldl_insertKv_mem es [] e he with h' | h'
      · obtain ⟨kv, hkv, hg⟩ := WireEq.mapM'_ok_mem hes e h'
        refine ⟨kv, hkv, ?_⟩
        split at hg <;> simp at hg <;> (rw [← hg])
      · simp at h'
    · intro hc; subst hc
      simp only [mapM', Except.ok.injEq] at hes; subst hes; rfl
  · simp at h

/-- what a map value writes has only its own keys -/
theorem se_map_keys {t k vt : Id} {ed : List String} {im : List Impl} (hget : σ.get t = some ⟨.map k vt, ed, im⟩)
    {f : Nat} {mm : List (String × Val)} {w : Json} (h : se σ (f + 1) t (.map mm) = .ok w) :
    ∃ em, w = .obj em ∧ (∀ kj ∈ em, ∃ e ∈ mm, e.1 = kj.1) ∧ (mm = [] → em = []) := by
  simp only [se, hget] at h
  split at h
  · rename_i es hes
    simp only [Except.ok.injEq] at h; subst h
    refine ⟨_, rfl, ?_, ?_⟩
    · intro kj hkj
      obtain ⟨e, he, hg⟩ := WireEq.mapM'_ok_mem hes kj hkj
      refine ⟨e, he, ?_⟩
      split at hg <;> simp at hg
      rw [← hg]
    · intro hc; subst hc
      simp only [mapM', Except.ok.injEq] at hes; subst hes; rfl
  · simp at h

theorem lookup_append (a b : List (String × Json)) (k : String) :
    Json.lookup (a ++ b) k = (match Json.lookup a k with | some v => some v | none => Json.lookup b k) := by
  induction a with
  | nil => simp [Json.lookup]
  | cons h r ih =>
    obtain ⟨k', v⟩ := h
    simp only [List.cons_append, Json.lookup]
    by_cases hk : k' = k
    · simp [hk]
    · simp [hk, ih]

/-- the buffer of an object made of the named members' entries followed by entries no named member claims -/
theorem bufferOf_append {ps : List Field} {esN em : List (String × Json)}
    (h1 : ∀ kv ∈ esN, ∃ p ∈ ps, p.rename ≠ .flatten ∧ p.wire = kv.1)
    (h2 : ∀ kv ∈ em, ∀ p ∈ ps, p.rename ≠ .flatten → p.wire ≠ kv.1) : bufferOf ps (esN ++ em) = em := by
  unfold bufferOf
  rw [List.filter_append]
  have e1 : esN.filter (fun kv => !(ps.any (fun p => p.rename != .flatten && p.wire == kv.1))) = [] := by
    apply List.filter_eq_nil_iff.mpr
    intro kv hkv
    obtain ⟨p, hp, hpf, hpw⟩ := h1 kv hkv
    have hany : ps.any (fun p => p.rename != .flatten && p.wire == kv.1) = true :=
      List.any_eq_true.mpr ⟨p, hp, by
        have h1 : (p.rename != Rename.flatten) = true := by simpa using hpf
        have h2 : (p.wire == kv.1) = true := by simpa using hpw
        simp [h1, h2]⟩
    simp [hany]
  have e2 : em.filter (fun kv => !(ps.any (fun p => p.rename != .flatten && p.wire == kv.1))) = em := by
    apply List.filter_eq_self.mpr
    intro kv hkv
    simp only [Bool.not_eq_true', List.any_eq_false, Bool.and_eq_true, bne_iff_ne, ne_eq, beq_iff_eq, not_and]
    intro p hp hpf
    exact h2 kv hkv p hp hpf
  rw [e1, e2]; rfl

theorem dropLast_snoc_of_getLast? {α : Type} {l : List α} {e : α} (h : l.getLast? = some e) : l.dropLast ++ [e] = l := by
  have hne : l ≠ [] := by intro hc; subst hc; simp at h
  have h3 := List.dropLast_concat_getLast hne
  have h4 : l.getLast? = some (l.getLast hne) := List.getLast?_eq_some_getLast hne
  rw [h4] at h
  simp only [Option.some.injEq] at h
  rw [← h]; exact h3

/-- what a successful read and write of a struct "named members, then one flattened map" consist of -/
theorem flat_decompose {f : Nat} {ps : List Field} (hok : fieldsOkFlatB σ ps = true) {deny : Bool} {v : Json}
    {fs : List (String × Val)} {es : List (String × Json)}
    (h1 : deStruct x σ (f + 1) ps deny v = .ok (.struct fs))
    (h2 : seStruct σ (f + 1) ps fs = .ok es) :
    ∃ (named : List Field) (e : Field) (k vt : Id) (ed : List String) (im : List Impl) (kvs : List (String × Json))
      (fsN : List (String × Val)) (mm : List (String × Val)) (esN em : List (String × Json)),
      ps = named ++ [e] ∧ v = .obj kvs ∧ e.rename = .flatten ∧ fieldsOkB σ named = true ∧
      σ.get e.ty = some ⟨.map k vt, ed, im⟩ ∧
      mapM' (stepE x σ f kvs) named = .ok fsN ∧
      de x σ f e.ty (.obj (bufferOf ps kvs)) = .ok (.map mm) ∧
      fs = fsN ++ [(e.name, .map mm)] ∧
      seFieldsR (se σ f) σ named fsN = .ok esN ∧
      se σ f e.ty (.map mm) = .ok (.obj em) ∧
      es = esN ++ em ∧
      (∀ kv ∈ em, ∀ p ∈ ps, p.rename ≠ .flatten → p.wire ≠ kv.1) ∧
      (deny = true → bufferOf ps kvs = [] ∧ em = []) ∧
      0 < f := by
  unfold fieldsOkFlatB at hok
  cases hlast : ps.getLast? with
  | none => rw [hlast] at hok; simp at hok
  | some e =>
    rw [hlast] at hok
    simp only [Bool.and_eq_true, beq_iff_eq] at hok
    obtain ⟨⟨⟨hef, hest⟩, hmap⟩, hokN⟩ := hok
    have hps : ps.dropLast ++ [e] = ps := dropLast_snoc_of_getLast? hlast
    generalize ps.dropLast = named at hps hokN
    subst hps
    obtain ⟨hfl, hnd, hreq, hopt⟩ := fieldsOk_unpack σ hokN
    have hstate : e.state = .required := by
      cases hs : e.state <;> rw [hs] at hest <;> simp at hest
    split at hmap
    · rename_i k vt ed im hge
      split at hmap
      · rename_i edk imk hgk
        have hflat : hasFlatten (named ++ [e]) = true := by
          simp [hasFlatten, hef]
        cases v with
        | obj kvs =>
          simp only [deStruct, hflat, if_true] at h1
          rw [foldFields_snoc named e _ hfl hef] at h1
          generalize hmN0 : mapM' _ named = rN at h1
          have hmN : mapM' (stepE x σ f kvs) named = rN := hmN0
          clear hmN0
          cases rN with
          | error err => simp at h1
          | ok fsN =>
            simp only at h1
            cases hF : deFlat x σ f e.ty (bufferOf (named ++ [e]) kvs) with
            | mk r c1 =>
              rw [hF] at h1
              cases r with
              | error err => simp at h1
              | ok m =>
                simp only at h1
                cases f with
                | zero => simp [deFlat] at hF
                | succ f' =>
                  rw [deFlat_map_eq x σ hge] at hF
                  simp only [Prod.mk.injEq] at hF
                  obtain ⟨hdeB, hc1⟩ := hF
                  subst hc1
                  have hdenyB : (deny && !(bufferOf (named ++ [e]) kvs).isEmpty) = false := by
                    cases hd : (deny && !(bufferOf (named ++ [e]) kvs).isEmpty) with
                    | false => rfl
                    | true => rw [hd] at h1; simp at h1
                  rw [hdenyB] at h1
                  simp only [Bool.false_eq_true, if_false, Except.ok.injEq, Val.struct.injEq] at h1
                  subst h1
                  obtain ⟨mm, rfl, hmmk, hmm0⟩ := de_map_keys x σ hge hdeB
                  simp only [seStruct] at h2
                  rw [seFieldsR_snoc σ named fsN e e.name (.map mm) hfl hef (mapM'_length hmN).symm] at h2
                  have hsk : skipped σ e (.map mm) = false := by simp [skipped, hstate]
                  rw [hsk] at h2
                  simp only [Bool.false_eq_true, if_false] at h2
                  cases hse : se σ (f' + 1) e.ty (.map mm) with
                  | error err => rw [hse] at h2; simp at h2
                  | ok w =>
                    obtain ⟨em, rfl, hemk, hem0⟩ := se_map_keys σ hge hse
                    rw [hse] at h2
                    simp only at h2
                    cases hsN : seFieldsR (se σ (f' + 1)) σ named fsN with
                    | error err => rw [hsN] at h2; simp at h2
                    | ok esN =>
                      rw [hsN] at h2
                      simp only [Except.ok.injEq] at h2
                      subst h2
                      have hemfree : ∀ kv ∈ em, ∀ p ∈ named ++ [e], p.rename ≠ .flatten → p.wire ≠ kv.1 := by
                        intro kv hkv p hp hpf hw
                        obtain ⟨e1, he1, hk1⟩ := hemk kv hkv
                        obtain ⟨kv0, hkv0, hk0⟩ := hmmk e1 he1
                        simp only [bufferOf, List.mem_filter, Bool.not_eq_true', List.any_eq_false, Bool.and_eq_true,
                          bne_iff_ne, ne_eq, beq_iff_eq, not_and] at hkv0
                        exact hkv0.2 p hp hpf (by rw [hw, ← hk1, ← hk0])
                      refine ⟨named, e, k, vt, ed, im, kvs, fsN, mm, esN, em, rfl, rfl, hef, hokN, hge, hmN, hdeB, rfl, hsN, hse,
                        rfl, hemfree, ?_, Nat.succ_pos _⟩
                      intro hdn
                      subst hdn
                      simp only [Bool.true_and, Bool.not_eq_false'] at hdenyB
                      have hb : bufferOf (named ++ [e]) kvs = [] := List.isEmpty_iff.mp hdenyB
                      exact ⟨hb, hem0 (hmm0 hb)⟩
        | _ => simp [deStruct, hflat] at h1
      · simp at hmap
    · simp at hmap

/-- **structs with typed additional properties**: reading back what was written gives the same members, the flattened map
    included -/
theorem struct_rt_flat {f : Nat} {ps : List Field} (hih : ∀ p ∈ ps, RTat x σ f p.ty)
    (hok : fieldsOkFlatB σ ps = true) {deny : Bool} {v : Json} {fs : List (String × Val)}
    {es : List (String × Json)}
    (h1 : deStruct x σ (f + 1) ps deny v = .ok (.struct fs))
    (h2 : seStruct σ (f + 1) ps fs = .ok es) :
    deStruct x σ (f + 1) ps deny (.obj es) = .ok (.struct fs) := by
  obtain ⟨named, e, k, vt, ed, im, kvs, fsN, mm, esN, em, rfl, rfl, hef, hokN, hge, hmN, hdeB, rfl, hsN, hse, rfl, hemfree,
    hdeny, hfpos⟩ := flat_decompose x σ hok h1 h2
  obtain ⟨hfl, hnd, hreq, hopt⟩ := fieldsOk_unpack σ hokN
  obtain ⟨f', rfl⟩ : ∃ f', f = f' + 1 := ⟨f - 1, by omega⟩
  have nf : ∀ p ∈ named, p.rename ≠ .flatten := by
    intro p hp hc
    have := List.any_eq_false.mp hfl p hp
    simp [hc] at this
  have hflat : hasFlatten (named ++ [e]) = true := by simp [hasFlatten, hef]
  have hkeysN := seFieldsR_keys σ hfl hsN
  have hbuf : bufferOf (named ++ [e]) (esN ++ em) = em := by
    apply bufferOf_append
    · intro kv hkv
      obtain ⟨p, hp, hw⟩ := hkeysN kv hkv
      exact ⟨p, by simp [hp], nf p hp, hw⟩
    · exact hemfree
  simp only [deStruct, hflat, if_true]
  rw [foldFields_snoc named e _ hfl hef, hbuf]
  have hrel : FieldsRel x σ (f' + 1) named fsN := by
    have hds : deStruct x σ (f' + 1 + 1) named false (.obj kvs) = .ok (.struct fsN) := by
      simp only [deStruct, hfl, Bool.false_eq_true, if_false, Bool.false_and]
      change (match mapM' (stepE x σ (f' + 1) kvs) named with
        | .ok fs => (.ok (.struct fs) : Except E Val)
        | .error e => .error e) = _
      rw [hmN]
    exact deStruct_obj_rel x σ hreq hfl hds
  have hlook : ∀ p ∈ named, Json.lookup (esN ++ em) p.wire = Json.lookup esN p.wire := by
    intro p hp
    rw [lookup_append]
    cases hl : Json.lookup esN p.wire with
    | some v => rfl
    | none =>
      simp only
      exact lookup_none_of_not_key (fun kv hkv hc => hemfree kv hkv p (by simp [hp]) (nf p hp) hc.symm)
  have hback := fields_back x σ named (fun p hp => hih p (by simp [hp])) fsN esN hrel hsN hnd hopt hfl
    (esN ++ em) hlook
  generalize hmB0 : mapM' _ named = rB
  have hrB : rB = .ok fsN := by rw [← hmB0]; exact hback
  subst hrB
  simp only
  rw [deFlat_map_eq x σ hge]
  have hrt := hih e (by simp) (.obj (bufferOf (named ++ [e]) kvs)) (.map mm) (.obj em) hdeB hse
  rw [hrt]
  simp only
  have hdenyE : (deny && !em.isEmpty) = false := by
    cases hd : deny with
    | false => rfl
    | true => rw [(hdeny hd).2]; rfl
  rw [hdenyE]
  simp

end TypifyModel.RoundTrip

import TypifyModel.Model.DefaultsWF
/-! Helper lemmas for C06: lock-step lemmas between `validate_value`, `output_value`, the typing
    judgement, `eval` and `Serde.de` over lists / tuples / map entries / struct members. -/
namespace TypifyModel.Defaults
open TypifyModel TypifyModel.Serde

/-- the expression `e` written for `j` at type `t` evaluates, for every fuel, to what deserializing
    `j` gives, and deserializing `j` is not a rejection -/
def Rel (x : Ext) (σ : Space) (t : Id) (j : Json) (e : RExpr) : Prop :=
  ∀ m, eval x σ m e t = de x σ m t j ∧ de x σ m t j ≠ .error .reject

theorem rtyOfName_name {s : String} {r : RTy} (h : rtyOfName s = some r) : s = r.name := by
  unfold rtyOfName at h
  have := List.find?_some h
  exact (by simpa using this : r.name = s).symm

theorem nz_prefix {s : String} {r : RTy} (h : rtyOfName s = some r) :
    s.startsWith nonZeroPrefix = r.isNonZero := by
  have := rtyOfName_name h
  subst this
  cases r <;> decide +kernel

/-! ### lists (Vec / Set / Array) -/

inductive Rel2 {α β : Type} (R : α → β → Prop) : List α → List β → Prop where
  | nil : Rel2 R [] []
  | cons {a b as bs} : R a b → Rel2 R as bs → Rel2 R (a :: as) (b :: bs)

theorem validateSet_all {V : Json → VRes} : ∀ xs, validateSet V xs = .ok () → validateAll V xs = .ok () := by
  intro xs
  induction xs with
  | nil => intro _; rfl
  | cons a r ih =>
    intro h
    simp only [validateSet] at h
    split at h
    · simp at h
    · simp only [validateAll]
      split at h
      · simp at h
      · exact ih h

theorem list_out {V : Json → VRes} {O : Json → Out} {W : Json → Bool} {H : RExpr → Bool}
    {R : Json → RExpr → Prop}
    (step : ∀ j k, V j = .ok k → W j = true → ∃ e, O j = .ok e ∧ H e = true ∧ R j e) :
    ∀ xs, validateAll V xs = .ok () → xs.all W = true →
      ∃ es, outList O xs = .ok es ∧ es.all H = true ∧ Rel2 R xs es := by
  intro xs
  induction xs with
  | nil => intro _ _; exact ⟨[], rfl, rfl, .nil⟩
  | cons a r ih =>
    intro hv hw
    simp only [validateAll] at hv
    simp only [List.all_cons, Bool.and_eq_true] at hw
    split at hv
    · simp at hv
    · rename_i k hk
      obtain ⟨e, he, hh, hr⟩ := step a k hk hw.1
      obtain ⟨es, hes, hhs, hrs⟩ := ih hv hw.2
      refine ⟨e :: es, ?_, ?_, .cons hr hrs⟩
      · simp only [outList, he, hes]
      · simp only [List.all_cons, hh, hhs, Bool.and_self]

theorem forall₂_length {α β : Type} {R : α → β → Prop} {xs : List α} {ys : List β}
    (h : Rel2 R xs ys) : ys.length = xs.length := by
  induction h with
  | nil => rfl
  | cons _ _ ih => simp [ih]

theorem list_eval {G : RExpr → Except E Val} {D : Json → Except E Val} :
    ∀ {xs es}, Rel2 (fun j e => G e = D j ∧ D j ≠ .error .reject) xs es →
      mapM' G es = mapM' D xs ∧ mapM' D xs ≠ .error .reject := by
  intro xs es h
  induction h with
  | nil => exact ⟨rfl, by simp [mapM']⟩
  | @cons j e js es' hr _ ih =>
    obtain ⟨h1, h2⟩ := hr
    obtain ⟨ih1, ih2⟩ := ih
    simp only [mapM', h1, ih1]
    refine ⟨by trivial, ?_⟩
    cases hd : D j with
    | error er => simp only; intro hc; apply h2; rw [hd]; simpa using hc
    | ok v =>
      simp only
      cases hm : mapM' D js with
      | error er => simp only; intro hc; apply ih2; rw [hm]; simpa using hc
      | ok vs => simp

/-! ### tuples -/

inductive Rel3 (R : Id → Json → RExpr → Prop) : List Id → List Json → List RExpr → Prop where
  | nil : Rel3 R [] [] []
  | cons {t j e ts js es} : R t j e → Rel3 R ts js es → Rel3 R (t :: ts) (j :: js) (e :: es)

theorem zip_out {V : Id → Json → VRes} {O : Id → Json → Out} {W : Id → Json → Bool} {H : RExpr → Id → Bool}
    {R : Id → Json → RExpr → Prop}
    (step : ∀ t j k, V t j = .ok k → W t j = true → ∃ e, O t j = .ok e ∧ H e t = true ∧ R t j e) :
    ∀ ts xs, validateZip V ts xs = .ok () → wfZip W ts xs = true →
      ∃ es, outZip O ts xs = .ok es ∧ zipAllB H es ts = true ∧ Rel3 R ts xs es ∧ es.length = xs.length := by
  intro ts
  induction ts with
  | nil =>
    intro xs hv _
    cases xs with
    | nil => exact ⟨[], rfl, rfl, .nil, rfl⟩
    | cons a r => simp [validateZip] at hv
  | cons t ts ih =>
    intro xs hv hw
    cases xs with
    | nil => simp [validateZip] at hv
    | cons a r =>
      simp only [validateZip] at hv
      simp only [wfZip, Bool.and_eq_true] at hw
      split at hv
      · simp at hv
      · rename_i k hk
        obtain ⟨e, he, hh, hr⟩ := step t a k hk hw.1
        obtain ⟨es, hes, hhs, hrs, hl⟩ := ih r hv hw.2
        refine ⟨e :: es, ?_, ?_, .cons hr hrs, by simp [hl]⟩
        · simp only [outZip, he, hes]
        · simp only [zipAllB, hh, hhs, Bool.and_self]

theorem zip_eval {G : Id → RExpr → Except E Val} {D : Id → Json → Except E Val} :
    ∀ {ts xs es}, Rel3 (fun t j e => G t e = D t j ∧ D t j ≠ .error .reject) ts xs es →
      zipE G ts es = zipM D ts xs ∧ zipM D ts xs ≠ .error .reject := by
  intro ts xs es h
  induction h with
  | nil => exact ⟨rfl, by simp [zipM]⟩
  | @cons t j e ts' js es' hr _ ih =>
    obtain ⟨h1, h2⟩ := hr
    obtain ⟨ih1, ih2⟩ := ih
    simp only [zipE, zipM, h1, ih1]
    refine ⟨by trivial, ?_⟩
    cases hd : D t j with
    | error er => simp only; intro hc; apply h2; rw [hd]; simpa using hc
    | ok v =>
      simp only
      cases hm : zipM D ts' js with
      | error er => simp only; intro hc; apply ih2; rw [hm]; simpa using hc
      | ok vs => simp

theorem rel3_mono {R R' : Id → Json → RExpr → Prop} (h : ∀ t j e, R t j e → R' t j e) :
    ∀ {ts xs es}, Rel3 R ts xs es → Rel3 R' ts xs es := by
  intro ts xs es hr
  induction hr with
  | nil => exact .nil
  | cons a _ ih => exact .cons (h _ _ _ a) ih

theorem forall₂_mono {α β : Type} {R R' : α → β → Prop} (h : ∀ a b, R a b → R' a b) :
    ∀ {xs ys}, Rel2 R xs ys → Rel2 R' xs ys := by
  intro xs ys hr
  induction hr with
  | nil => exact .nil
  | cons a _ ih => exact .cons (h _ _ a) ih

/-! ### generic lock-step over `mapM'` -/

theorem mapM'_rel2 {α β γ : Type} {F : α → Except E γ} {G : β → Except E γ} {R : α → β → Prop}
    (h : ∀ a b, R a b → F a = G b ∧ G b ≠ .error .reject) :
    ∀ {as bs}, Rel2 R as bs → mapM' F as = mapM' G bs ∧ mapM' G bs ≠ .error .reject := by
  intro as bs hr
  induction hr with
  | nil => exact ⟨rfl, by simp [mapM']⟩
  | @cons a b as' bs' hab _ ih =>
    obtain ⟨h1, h2⟩ := h a b hab
    obtain ⟨ih1, ih2⟩ := ih
    simp only [mapM', h1, ih1]
    refine ⟨by trivial, ?_⟩
    cases hd : G b with
    | error er => simp only; intro hc; apply h2; rw [hd]; simpa using hc
    | ok v =>
      simp only
      cases hm : mapM' G bs' with
      | error er => simp only; intro hc; apply ih2; rw [hm]; simpa using hc
      | ok vs => simp

theorem rel2_flip {α β : Type} {R : α → β → Prop} : ∀ {as bs}, Rel2 R as bs → Rel2 (fun b a => R a b) bs as := by
  intro as bs h
  induction h with
  | nil => exact .nil
  | cons a _ ih => exact .cons a ih

theorem map_finish {α β : Type} {F : α → Except E (String × Val)} {G : β → Except E (String × Val)}
    {as : List α} {bs : List β} (h : mapM' F as = mapM' G bs ∧ mapM' G bs ≠ .error .reject) :
    (match mapM' F as with
     | .ok es => Except.ok (Val.map (es.foldl (fun (acc : List (String × Val)) (p : String × Val) => insertKv p.1 p.2 acc) []))
     | .error er => .error er) =
    (match mapM' G bs with
     | .ok es => Except.ok (Val.map (es.foldl (fun (acc : List (String × Val)) (e : String × Val) => insertKv e.1 e.2 acc) []))
     | .error e => .error e) ∧
    (match mapM' G bs with
     | .ok es => Except.ok (Val.map (es.foldl (fun (acc : List (String × Val)) (e : String × Val) => insertKv e.1 e.2 acc) []))
     | .error e => .error e) ≠ .error .reject := by
  obtain ⟨h1, h2⟩ := h
  rw [h1]
  refine ⟨rfl, ?_⟩
  cases hd : mapM' G bs with
  | ok v => simp
  | error er => simp only; intro hc; apply h2; rw [hd]; simpa using hc

end TypifyModel.Defaults

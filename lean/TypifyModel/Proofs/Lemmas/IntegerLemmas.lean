import TypifyModel.Model.Integer
import TypifyModel.Proofs.Lemmas.F64
/-! Helper lemmas for C10 (`convert_integer`). -/
namespace TypifyModel.Integer
open TypifyModel

/-- what an integer JSON value must satisfy to be admitted by the schema's numeric keywords -/
def admits (s : IntSchema) (n : Int) : Prop :=
  (∀ m, s.minimum = some m → m ≤ n) ∧ (∀ m, s.maximum = some m → n ≤ m) ∧
  (∀ e, s.exclusiveMinimum = some e → e < n) ∧ (∀ e, s.exclusiveMaximum = some e → n < e) ∧
  (∀ k, s.multipleOf = some k → k ∣ n)

def Small (m : Int) : Prop := -(2 ^ 52) < m ∧ m < 2 ^ 52

/-- per-row facts relating the table (as extracted from the source) to the true ranges of the
    Rust types it names; decidable, discharged over the generated table by `decide` -/
def RowOK (r : FormatRow) : Prop :=
  r.min = r.ty.lo ∧ r.ty.lo ≤ 0 ∧ 0 ≤ r.ty.hi ∧
  ((r.max = r.ty.hi ∧ r.ty.hi < 2 ^ 52) ∨ (r.max = r.ty.hi + 1 ∧ 2 ^ 63 - 1 ≤ r.ty.hi)) ∧
  (-(2 ^ 52) < r.ty.lo ∨ r.ty.lo = -(2 ^ 63)) ∧ r.ty.hi ≤ 2 ^ 64 - 1 ∧
  r.nz.lo = 1 ∧ r.ty.hi ≤ r.nz.hi ∧ r.nz.isNonZero = true ∧ r.ty.isNonZero = false ∧
  (2 ^ 63 - 1 < r.ty.hi → 0 ≤ r.ty.lo) ∧
  (0 ≤ r.ty.lo → 2 ^ 63 - 1 ≤ r.ty.hi → r.ty.hi = 2 ^ 64 - 1)

instance (r : FormatRow) : Decidable (RowOK r) := by unfold RowOK; infer_instance

/-- facts about the whole table: every row is OK and the row searched first (the last one) offers
    the widest NonZero type -/
def TableOK (tbl : List FormatRow) : Prop :=
  (∀ r ∈ tbl, RowOK r) ∧ (tbl.reverse.head?.map (·.nz)) = some RTy.nzu64

instance (tbl : List FormatRow) : Decidable (TableOK tbl) := by unfold TableOK; infer_instance

def SoundMin (mn : Option Int) (n : Int) : Prop := ∀ m, mn = some m → Small m → m ≤ n
def SoundMax (mx : Option Int) (n : Int) : Prop := ∀ m, mx = some m → Small m → n ≤ m

theorem fadd1_small {a m : Int} (h : fadd1 a = m) (hs : Small m) : a + 1 = m := by
  unfold fadd1 at h
  have := roundF64_small (x := a + 1) (by rw [h]; unfold Small at hs; omega)
  omega

theorem fsub1_small {a m : Int} (h : fsub1 a = m) (hs : Small m) : a - 1 = m := by
  unfold fsub1 at h
  have := roundF64_small (x := a - 1) (by rw [h]; unfold Small at hs; omega)
  omega

theorem round_small {a m : Int} (h : roundF64 a = m) (hs : -(2 ^ 53) < m ∧ m < 2 ^ 53) : a = m := by
  have := roundF64_small (x := a) (by rw [h]; exact hs)
  omega

theorem computeMin_sound {s : IntSchema} {n : Int} (ha : admits s n) : SoundMin (computeMin s) n := by
  intro m hm hs
  obtain ⟨h1, _, h3, _, _⟩ := ha
  unfold computeMin at hm
  unfold Small at hs
  split at hm
  · simp at hm
  · rename_i e _ he
    simp only [Option.some.injEq] at hm
    have h := fadd1_small hm (by unfold Small; omega)
    have h' := round_small (a := e) (m := m - 1) (by omega) (by omega)
    have := h3 e he; omega
  · rename_i a ha' _
    simp only [Option.some.injEq] at hm
    have h' := round_small hm (by omega)
    have := h1 a ha'; omega
  · rename_i a e ha' he
    simp only [Option.some.injEq] at hm
    have hcases : roundF64 a = m ∨ fadd1 (roundF64 e) = m := by omega
    rcases hcases with h | h
    · have h' := round_small h (by omega)
      have := h1 a ha'; omega
    · have h2 := fadd1_small h (by unfold Small; omega)
      have h' := round_small (a := e) (m := m - 1) (by omega) (by omega)
      have := h3 e he; omega

theorem computeMax_sound {s : IntSchema} {n : Int} (ha : admits s n) : SoundMax (computeMax s) n := by
  intro m hm hs
  obtain ⟨_, h2, _, h4, _⟩ := ha
  unfold computeMax at hm
  unfold Small at hs
  split at hm
  · simp at hm
  · rename_i e _ he
    simp only [Option.some.injEq] at hm
    have h := fsub1_small hm (by unfold Small; omega)
    have h' := round_small (a := e) (m := m + 1) (by omega) (by omega)
    have := h4 e he; omega
  · rename_i a ha' _
    simp only [Option.some.injEq] at hm
    have h' := round_small hm (by omega)
    have := h2 a ha'; omega
  · rename_i a e ha' he
    simp only [Option.some.injEq] at hm
    have hcases : roundF64 a = m ∨ fsub1 (roundF64 e) = m := by omega
    rcases hcases with h | h
    · have h' := round_small h (by omega)
      have := h2 a ha'; omega
    · have h2' := fsub1_small h (by unfold Small; omega)
      have h' := round_small (a := e) (m := m + 1) (by omega) (by omega)
      have := h4 e he; omega

end TypifyModel.Integer

namespace TypifyModel.Integer
open TypifyModel

theorem findSome_head_nz {mn mx : Option Int} (h1 : mn = some 1) (a : FormatRow) (l : List FormatRow) :
    (a :: l).findSome? (matchRow mn mx) = some a.nz := by
  subst h1
  cases mx <;> simp [List.findSome?, matchRow]

/-- a row that matches (min, max) exactly (min ≠ 1) names a type that holds every `n` that the
    sound-when-small bounds and the baseline [lb, hb] allow -/
theorem matchRow_fits {mn mx : Option Int} {r : FormatRow} {t : RTy} {n lb hb : Int}
    (hr : RowOK r) (hm : matchRow mn mx r = some t) (hne : mn ≠ some 1)
    (hmin : SoundMin mn n) (hmax : SoundMax mx n)
    (hlb : lb ≤ n) (hhb : n ≤ hb) (hlb' : -(2 ^ 63) ≤ lb) (hhb' : hb ≤ 2 ^ 64 - 1)
    (hbig : 2 ^ 63 - 1 < hb → ∃ m, mn = some m ∧ 0 ≤ m) :
    t.inRange n := by
  obtain ⟨rmin, rlo0, rhi0, rmax, rlo, rhi, _, _, _, _, rbig, ru64⟩ := hr
  unfold matchRow at hm
  unfold RTy.inRange
  split at hm
  · -- (none, some mx)
    rename_i mx'
    split at hm
    · rename_i hc
      simp only [Option.some.injEq] at hm; subst hm
      unfold i64MinF at hc
      have hbig' := hbig
      constructor
      · omega
      · rcases rmax with ⟨h1, h2⟩ | ⟨h1, h2⟩
        · have := hmax mx' rfl (by unfold Small; omega); omega
        · by_cases hb63 : 2 ^ 63 - 1 < hb
          · obtain ⟨m, hm', _⟩ := hbig hb63; simp at hm'
          · omega
    · simp at hm
  · -- (some mn, none)
    rename_i mn'
    split at hm
    · rename_i h1; exact absurd (by rw [h1]) hne
    · split at hm
      · rename_i hc
        simp only [Option.some.injEq] at hm; subst hm
        unfold i64MaxF at hc
        constructor
        · rcases rlo with h | h
          · have := hmin mn' rfl (by unfold Small; omega); omega
          · omega
        · rcases rmax with ⟨h1, h2⟩ | ⟨h1, h2⟩
          · omega
          · by_cases hb63 : 2 ^ 63 - 1 < hb
            · obtain ⟨m, hm', hm0⟩ := hbig hb63
              simp only [Option.some.injEq] at hm'; subst hm'
              have := ru64 (by omega) h2
              omega
            · omega
      · simp at hm
  · -- (some mn, some mx)
    rename_i mn' mx'
    split at hm
    · rename_i h1; exact absurd (by rw [h1]) hne
    · split at hm
      · rename_i hc
        simp only [Option.some.injEq] at hm; subst hm
        constructor
        · rcases rlo with h | h
          · have := hmin mn' rfl (by unfold Small; omega); omega
          · omega
        · rcases rmax with ⟨h1, h2⟩ | ⟨h1, h2⟩
          · have := hmax mx' rfl (by unfold Small; omega); omega
          · by_cases hb63 : 2 ^ 63 - 1 < hb
            · obtain ⟨m, hm', hm0⟩ := hbig hb63
              simp only [Option.some.injEq] at hm'; subst hm'
              have := ru64 (by omega) h2
              omega
            · omega
      · simp at hm
  · simp at hm

theorem tail_fits {tbl : List FormatRow} {s : IntSchema} {mn mx : Option Int} {fb t : RTy}
    {n lb hb : Int} (htbl : TableOK tbl)
    (h : tail tbl s mn mx fb = .ok t)
    (hmin : SoundMin mn n) (hmax : SoundMax mx n)
    (hlb : lb ≤ n) (hhb : n ≤ hb) (hlb' : -(2 ^ 63) ≤ lb) (hhb' : hb ≤ 2 ^ 64 - 1)
    (hbig : 2 ^ 63 - 1 < hb → ∃ m, mn = some m ∧ 0 ≤ m)
    (hfb : fb.inRange n) : t.inRange n := by
  unfold tail at h
  split at h
  · simp at h
  · split at h
    · rename_i t' hfind
      simp only [Except.ok.injEq] at h; subst h
      unfold maybeType at hfind
      split at hfind
      · simp at hfind
      · by_cases h1 : mn = some 1
        · -- NonZero of the first row searched
          obtain ⟨hrows, hlast⟩ := htbl
          cases hrev : tbl.reverse with
          | nil => rw [hrev] at hfind; simp at hfind
          | cons a l =>
            rw [hrev] at hfind hlast
            rw [findSome_head_nz h1] at hfind
            simp only [List.head?_cons, Option.map_some, Option.some.injEq] at hlast
            simp only [Option.some.injEq] at hfind
            rw [← hfind, hlast]
            have := hmin 1 h1 (by unfold Small; omega)
            show RTy.nzu64.lo ≤ n ∧ n ≤ RTy.nzu64.hi
            simp only [RTy.lo, RTy.hi]
            constructor <;> omega
        · obtain ⟨r, hrmem, hr⟩ := List.exists_of_findSome?_eq_some hfind
          have hrok := htbl.1 r (List.mem_reverse.mp hrmem)
          exact matchRow_fits hrok hr h1 hmin hmax hlb hhb hlb' hhb' hbig
    · simp only [Except.ok.injEq] at h; subst h; exact hfb

end TypifyModel.Integer

namespace TypifyModel.Integer
open TypifyModel

/-- bounds part of `admits` (no `multipleOf`) -/
def admitsBounds (s : IntSchema) (n : Int) : Prop :=
  (∀ m, s.minimum = some m → m ≤ n) ∧ (∀ m, s.maximum = some m → n ≤ m) ∧
  (∀ e, s.exclusiveMinimum = some e → e < n) ∧ (∀ e, s.exclusiveMaximum = some e → n < e)

/-- every numeric keyword present is exactly representable with room to spare -/
def SmallKw (s : IntSchema) : Prop :=
  (∀ m, s.minimum = some m → Small m) ∧ (∀ m, s.maximum = some m → Small m) ∧
  (∀ e, s.exclusiveMinimum = some e → Small e) ∧ (∀ e, s.exclusiveMaximum = some e → Small e)

theorem round_of_Small {x : Int} (h : Small x) : roundF64 x = x :=
  roundF64_of_small (by unfold Small at h; omega)

theorem fadd1_of_Small {x : Int} (h : Small x) : fadd1 x = x + 1 := by
  unfold fadd1; exact roundF64_of_small (by unfold Small at h; omega)

theorem fsub1_of_Small {x : Int} (h : Small x) : fsub1 x = x - 1 := by
  unfold fsub1; exact roundF64_of_small (by unfold Small at h; omega)

/-- with small keywords the computed minimum is exact: a value below it is not admitted -/
theorem computeMin_complete {s : IntSchema} {d : Int} (hk : SmallKw s)
    (h : ∀ m, computeMin s = some m → m ≤ d) :
    (∀ m, s.minimum = some m → m ≤ d) ∧ (∀ e, s.exclusiveMinimum = some e → e < d) := by
  obtain ⟨k1, _, k3, _⟩ := hk
  unfold computeMin at h
  constructor
  · intro m hm
    have hs := k1 m hm
    rw [hm] at h
    cases he : s.exclusiveMinimum with
    | none => rw [he] at h; simp only at h; have := h _ rfl; rw [round_of_Small hs] at this; exact this
    | some e =>
      rw [he] at h; simp only at h
      have := h _ rfl
      rw [round_of_Small hs] at this; omega
  · intro e he
    have hs := k3 e he
    rw [he] at h
    cases hm : s.minimum with
    | none =>
      rw [hm] at h; simp only at h; have := h _ rfl
      rw [round_of_Small hs, fadd1_of_Small hs] at this; omega
    | some m =>
      rw [hm] at h; simp only at h
      have := h _ rfl
      rw [round_of_Small hs, fadd1_of_Small hs] at this; omega

theorem computeMax_complete {s : IntSchema} {d : Int} (hk : SmallKw s)
    (h : ∀ m, computeMax s = some m → d ≤ m) :
    (∀ m, s.maximum = some m → d ≤ m) ∧ (∀ e, s.exclusiveMaximum = some e → d < e) := by
  obtain ⟨_, k2, _, k4⟩ := hk
  unfold computeMax at h
  constructor
  · intro m hm
    have hs := k2 m hm
    rw [hm] at h
    cases he : s.exclusiveMaximum with
    | none => rw [he] at h; simp only at h; have := h _ rfl; rw [round_of_Small hs] at this; exact this
    | some e =>
      rw [he] at h; simp only at h
      have := h _ rfl
      rw [round_of_Small hs] at this; omega
  · intro e he
    have hs := k4 e he
    rw [he] at h
    cases hm : s.maximum with
    | none =>
      rw [hm] at h; simp only at h; have := h _ rfl
      rw [round_of_Small hs, fsub1_of_Small hs] at this; omega
    | some m =>
      rw [hm] at h; simp only at h
      have := h _ rfl
      rw [round_of_Small hs, fsub1_of_Small hs] at this; omega

end TypifyModel.Integer

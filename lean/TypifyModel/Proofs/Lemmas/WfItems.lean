import TypifyModel.Proofs.Lemmas.WfLemmas
import TypifyModel.Proofs.C14
/-! The module with type trees (`Wf.modOf`) against the Render summary and against the IR:
    projection (`modOf_summary`), member types (`modOf_types`), where a member type comes from
    (`allTys_origin`), and heights along by-value members (`byValue_rank`). -/
namespace TypifyModel.Wf
open TypifyModel TypifyModel.Render TypifyModel.SettingsApply

/-! ### `modOf` projects to `Render.render` -/

theorem mitemOf_some {tb : DeriveTables} {st : Settings} {σ : Space} {e : Id × Entry} {m : MItem}
    {fns : List String} (h : mitemOf tb st σ e = some (m, fns)) :
    itemOf tb st σ e.2 = some (m.base, fns) ∧ m.id = e.1 ∧ m.ftys = (entryTys σ e.2).1 ∧
      m.vtys = (entryTys σ e.2).2 := by
  unfold mitemOf at h
  cases hi : itemOf tb st σ e.2 with
  | none => rw [hi] at h; cases h
  | some r =>
    obtain ⟨it, fs⟩ := r
    rw [hi] at h
    simp only [Option.some.injEq, Prod.mk.injEq] at h
    obtain ⟨rfl, rfl⟩ := h
    exact ⟨rfl, rfl, rfl, rfl⟩

theorem mitemOf_base (tb : DeriveTables) (st : Settings) (σ : Space) (e : Id × Entry) :
    (mitemOf tb st σ e).map (fun x => (x.1.base, x.2)) = itemOf tb st σ e.2 := by
  unfold mitemOf
  cases hi : itemOf tb st σ e.2 with
  | none => rfl
  | some p => obtain ⟨it, fs⟩ := p; rfl

theorem filterMap_mitemOf (tb : DeriveTables) (st : Settings) (σ : Space) (l : List (Id × Entry)) :
    (l.filterMap (mitemOf tb st σ)).map (fun x => (x.1.base, x.2)) =
      l.filterMap (fun e => itemOf tb st σ e.2) := by
  rw [List.map_filterMap]
  congr 1
  funext e
  exact mitemOf_base tb st σ e

theorem mem_modOf_items {tb : DeriveTables} {st : Settings} {σ : Space} {m : MItem}
    (h : m ∈ (modOf tb st σ).items) :
    ∃ e fns, e ∈ σ.entries ∧ mitemOf tb st σ e = some (m, fns) := by
  simp only [modOf, List.mem_map, List.mem_filterMap] at h
  obtain ⟨⟨m', fns⟩, ⟨e, he, hm⟩, rfl⟩ := h
  exact ⟨e, fns, he, hm⟩

theorem modOf_items_base (tb : DeriveTables) (st : Settings) (σ : Space) :
    (modOf tb st σ).items.map (·.base) = (render tb st σ).items := by
  have h := congrArg (List.map (·.1)) (filterMap_mitemOf tb st σ σ.entries)
  simp only [List.map_map] at h
  simp only [modOf, render, List.map_map]
  exact h

/-- **the module with type trees projects to the summary the M2 correspondence validates** -/
theorem modOf_summary (tb : DeriveTables) (st : Settings) (σ : Space) :
    (modOf tb st σ).summary = render tb st σ := by
  have hb := modOf_items_base tb st σ
  have h2 := congrArg (List.map (·.2)) (filterMap_mitemOf tb st σ σ.entries)
  simp only [List.map_map] at h2
  unfold Mod.summary
  rw [hb]
  simp only [modOf, render]
  congr 2
  congr 1
  exact congrArg List.flatten h2

theorem modOf_names (tb : DeriveTables) (st : Settings) (σ : Space) :
    (modOf tb st σ).items.map (·.base.name) = itemNames σ := by
  have h := congrArg (List.map (·.name)) (modOf_items_base tb st σ)
  simp only [List.map_map] at h
  rw [show (fun m : MItem => m.base.name) = ((fun i : ItemS => i.name) ∘ fun m : MItem => m.base) from rfl, h]
  exact C14.items_are_named_entries tb st σ

/-! ### member types of the summary are the renderings of the trees -/

theorem variantTys_render (st : Settings) (σ : Space) (en : String) (v : Variant) :
    variantTys (variantS st σ en v).1 = (variantTysT σ v).map (Ty.render st) := by
  unfold variantS variantTysT variantTys
  cases hd : v.details with
  | simple => simp
  | item t => simp [typeIdent_eq_render]
  | tuple ts =>
    cases ts with
    | nil => simp
    | cons a r =>
      cases r with
      | nil => simp [typeIdent_eq_render, Ty.render, Ty.renderList, tupleStr]
      | cons b r' => simp [typeIdent_eq_render]
  | struct ps => simp [fieldS_ty, typeIdent_eq_render]

/-- **the type strings of an item's members are the renderings of its type trees** -/
theorem modOf_types {tb : DeriveTables} {st : Settings} {σ : Space} {m : MItem}
    (h : m ∈ (modOf tb st σ).items) :
    m.base.fields.map (·.ty) = m.ftys.map (Ty.render st) ∧
    m.base.variants.map variantTys = m.vtys.map (List.map (Ty.render st)) := by
  obtain ⟨e, fns, _, hm⟩ := mem_modOf_items h
  obtain ⟨hi, _, hf, hv⟩ := mitemOf_some hm
  rw [hf, hv]
  unfold itemOf at hi
  unfold entryTys
  cases hd : e.2.details with
  | struct n ps deny d =>
    simp only [hd, Option.some.injEq, Prod.mk.injEq] at hi
    obtain ⟨hb, _⟩ := hi
    rw [← hb]
    simp [fieldS_ty, typeIdent_eq_render]
  | enum n tag vs deny d bes =>
    simp only [hd, Option.some.injEq, Prod.mk.injEq] at hi
    obtain ⟨hb, _⟩ := hi
    rw [← hb]
    simp [variantTys_render]
  | newtype n inner c d =>
    simp only [hd, Option.some.injEq, Prod.mk.injEq] at hi
    obtain ⟨hb, _⟩ := hi
    rw [← hb]
    simp [typeIdent_eq_render]
  | _ => simp [hd] at hi

/-! ### where a member type comes from -/

theorem variantTysT_origin (σ : Space) (v : Variant) (T : Ty) (h : T ∈ variantTysT σ v) :
    (∃ c, c ∈ variantIds v ∧ T = tyOf σ fuel c) ∨ (∃ a, a ∈ variantIds v ∧ T = .tuple [tyOf σ fuel a]) := by
  unfold variantTysT at h
  unfold variantIds
  cases hd : v.details with
  | simple => simp [hd] at h
  | item t => simp [hd] at h; exact Or.inl ⟨t, by simp, h⟩
  | tuple ts =>
    simp only [hd] at h
    split at h
    · rename_i a
      simp at h; exact Or.inr ⟨a, by simp, h⟩
    · simp at h
      obtain ⟨c, hc, rfl⟩ := h
      exact Or.inl ⟨c, hc, rfl⟩
  | struct ps =>
    simp [hd] at h
    obtain ⟨p, hp, rfl⟩ := h
    exact Or.inl ⟨p.ty, by simp; exact ⟨p, hp, rfl⟩, rfl⟩

/-- every member type of an item is the tree of a by-value member id of its entry (or the 1-tuple of one) -/
theorem allTys_origin {tb : DeriveTables} {st : Settings} {σ : Space} {e : Id × Entry} {m : MItem}
    {fns : List String} (hm : mitemOf tb st σ e = some (m, fns)) (T : Ty) (hT : T ∈ m.allTys) :
    (∃ c, c ∈ byValIds e.2.details ∧ T = tyOf σ fuel c) ∨
    (∃ a, a ∈ byValIds e.2.details ∧ T = .tuple [tyOf σ fuel a]) := by
  obtain ⟨hi, _, hf, hv⟩ := mitemOf_some hm
  unfold MItem.allTys at hT
  rw [hf, hv] at hT
  unfold entryTys at hT
  unfold byValIds
  cases hd : e.2.details with
  | struct n ps deny d =>
    simp [hd] at hT
    obtain ⟨p, hp, rfl⟩ := hT
    exact Or.inl ⟨p.ty, by simp; exact ⟨p, hp, rfl⟩, rfl⟩
  | enum n tag vs deny d bes =>
    simp only [hd, List.nil_append, List.mem_flatten, List.mem_map] at hT
    obtain ⟨l, ⟨v, hv', rfl⟩, hT'⟩ := hT
    rcases variantTysT_origin σ v T hT' with ⟨c, hc, rfl⟩ | ⟨a, ha, rfl⟩
    · exact Or.inl ⟨c, by simp only [List.mem_flatten, List.mem_map]; exact ⟨_, ⟨v, hv', rfl⟩, hc⟩, rfl⟩
    · exact Or.inr ⟨a, by simp only [List.mem_flatten, List.mem_map]; exact ⟨_, ⟨v, hv', rfl⟩, ha⟩, rfl⟩
  | newtype n inner c d =>
    simp [hd] at hT
    exact Or.inl ⟨inner, by simp, hT⟩
  | _ => simp [hd] at hT

/-! ### heights along by-value members -/

theorem byValueList_map (g : Id → Ty) (l : List Id) (i : Id) (h : i ∈ Ty.byValueList (l.map g)) :
    ∃ c, c ∈ l ∧ i ∈ (g c).byValue := by
  induction l with
  | nil => simp [Ty.byValueList] at h
  | cons a r ih =>
    simp only [List.map_cons, Ty.byValueList, List.mem_append] at h
    rcases h with h | h
    · exact ⟨a, by simp, h⟩
    · obtain ⟨c, hc, hi⟩ := ih h
      exact ⟨c, List.mem_cons_of_mem _ hc, hi⟩

/-- the height check: every by-value member of every entry lies strictly lower -/
def RankOk (σ : Space) (rank : Id → Nat) : Prop :=
  ∀ e, e ∈ σ.entries → ∀ c, c ∈ byValIds e.2.details → rank c < rank e.1

/-- **an item held by value inside the type of id `t` is not higher than `t`** -/
theorem byValue_rank {σ : Space} {rank : Id → Nat} (hr : RankOk σ rank) : ∀ (f : Nat) (t i : Id),
    i ∈ (tyOf σ f t).byValue → rank i ≤ rank t := by
  intro f
  induction f with
  | zero => intro t i h; simp [tyOf, Ty.byValue] at h
  | succ f ih =>
    intro t i h
    unfold tyOf at h
    cases hg : σ.get t with
    | none => simp [hg, Ty.byValue] at h
    | some ent =>
      simp only [hg] at h
      have hm := get_mem hg
      have step : ∀ c, c ∈ byValIds ent.details → rank c < rank t := fun c hc => hr (t, ent) hm c hc
      cases hd : ent.details with
      | enum n tag vs deny d bes => simp [hd, Ty.byValue] at h; subst h; exact Nat.le_refl _
      | struct n ps deny d => simp [hd, Ty.byValue] at h; subst h; exact Nat.le_refl _
      | newtype n inner c d => simp [hd, Ty.byValue] at h; subst h; exact Nat.le_refl _
      | option t' =>
        have hlt : rank t' < rank t := step t' (by simp [hd, byValIds])
        simp only [hd] at h
        split at h
        · exact Nat.le_of_lt (Nat.lt_of_le_of_lt (ih t' i h) hlt)
        · simp only [Ty.byValue] at h
          exact Nat.le_of_lt (Nat.lt_of_le_of_lt (ih t' i h) hlt)
      | array t' n =>
        have hlt : rank t' < rank t := step t' (by simp [hd, byValIds])
        simp only [hd, Ty.byValue] at h
        exact Nat.le_of_lt (Nat.lt_of_le_of_lt (ih t' i h) hlt)
      | tuple ts =>
        simp only [hd, Ty.byValue] at h
        obtain ⟨c, hc, hi⟩ := byValueList_map (tyOf σ f) ts i h
        have hlt : rank c < rank t := step c (by simp [hd, byValIds, hc])
        exact Nat.le_of_lt (Nat.lt_of_le_of_lt (ih c i hi) hlt)
      | map k v =>
        simp only [hd] at h
        split at h <;> simp [Ty.byValue] at h
      | box t' => simp [hd, Ty.byValue] at h
      | vec t' => simp [hd, Ty.byValue] at h
      | set t' => simp [hd, Ty.byValue] at h
      | native name ps => simp [hd, Ty.byValue] at h
      | unit => simp [hd, Ty.byValue] at h
      | boolean => simp [hd, Ty.byValue] at h
      | integer m => simp [hd, Ty.byValue] at h
      | float m => simp [hd, Ty.byValue] at h
      | string => simp [hd, Ty.byValue] at h
      | jsonValue => simp [hd, Ty.byValue] at h
      | reference r => simp [hd, Ty.byValue] at h

end TypifyModel.Wf

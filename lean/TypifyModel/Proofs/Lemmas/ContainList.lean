import TypifyModel.Proofs.Lemmas.ContainRefl
import TypifyModel.Proofs.Lemmas.SortedKv
/-! Containment through the list helpers of the Serde model (C03): element-wise over `mapM'` /
    `zipM` / `zipSe`, and member-wise through the key-sorted map built by `insertKv`. -/
namespace TypifyModel.Contain
open TypifyModel TypifyModel.Serde TypifyModel.RoundTrip

/-- arrays: element-wise -/
theorem mapM'_contained {g : Json → Except E Val} {h : Val → Except E Json} {D : Json → Bool} :
    ∀ {xs : List Json} {vs : List Val} {js : List Json}, mapM' g xs = .ok vs → mapM' h vs = .ok js →
      xs.all D = true →
      (∀ a b c, D a = true → g a = .ok b → h b = .ok c → contained (prune a) (prune c) = true) →
      containedList (pruneList xs) (pruneList js) = true := by
  intro xs
  induction xs with
  | nil =>
    intro vs js h1 h2 _ _
    simp only [mapM', Except.ok.injEq] at h1; subst h1
    simp only [mapM', Except.ok.injEq] at h2; subst h2
    simp [pruneList, containedList]
  | cons a r ih =>
    intro vs js h1 h2 hd hk
    simp only [List.all_cons, Bool.and_eq_true] at hd
    simp only [mapM'] at h1
    cases hga : g a with
    | error e => rw [hga] at h1; simp at h1
    | ok b =>
      rw [hga] at h1
      cases hr : mapM' g r with
      | error e => rw [hr] at h1; simp at h1
      | ok bs =>
        rw [hr] at h1
        simp only [Except.ok.injEq] at h1; subst h1
        simp only [mapM'] at h2
        cases hhb : h b with
        | error e => rw [hhb] at h2; simp at h2
        | ok c =>
          rw [hhb] at h2
          cases hr2 : mapM' h bs with
          | error e => rw [hr2] at h2; simp at h2
          | ok cs =>
            rw [hr2] at h2
            simp only [Except.ok.injEq] at h2; subst h2
            simp only [pruneList, containedList, Bool.and_eq_true]
            exact ⟨hk a b c hd.1 hga hhb, ih hr hr2 hd.2 hk⟩

/-- tuples: element-wise, each position at its own type -/
theorem zip_contained {g : Id → Json → Except E Val} {h : Id → Val → Except E Json} {D : Id → Json → Bool} :
    ∀ {ts : List Id} {xs : List Json} {vs : List Val} {js : List Json},
      zipM g ts xs = .ok vs → zipSe h ts vs = .ok js → zipAll D ts xs = true →
      (∀ t ∈ ts, ∀ a b c, D t a = true → g t a = .ok b → h t b = .ok c →
        contained (prune a) (prune c) = true) →
      containedList (pruneList xs) (pruneList js) = true := by
  intro ts
  induction ts with
  | nil =>
    intro xs vs js h1 h2 _ _
    cases xs with
    | nil =>
      simp only [zipM, Except.ok.injEq] at h1; subst h1
      simp only [zipSe, Except.ok.injEq] at h2; subst h2
      simp [pruneList, containedList]
    | cons _ _ => simp [zipM] at h1
  | cons t r ih =>
    intro xs vs js h1 h2 hd hk
    cases xs with
    | nil => simp [zipM] at h1
    | cons a as =>
      simp only [zipAll, Bool.and_eq_true] at hd
      simp only [zipM] at h1
      cases hga : g t a with
      | error e => rw [hga] at h1; simp at h1
      | ok b =>
        rw [hga] at h1
        cases hr : zipM g r as with
        | error e => rw [hr] at h1; simp at h1
        | ok bs =>
          rw [hr] at h1
          simp only [Except.ok.injEq] at h1; subst h1
          simp only [zipSe] at h2
          cases hhb : h t b with
          | error e => rw [hhb] at h2; simp at h2
          | ok c =>
            rw [hhb] at h2
            cases hr2 : zipSe h r bs with
            | error e => rw [hr2] at h2; simp at h2
            | ok cs =>
              rw [hr2] at h2
              simp only [Except.ok.injEq] at h2; subst h2
              simp only [pruneList, containedList, Bool.and_eq_true]
              exact ⟨hk t (by simp) a b c hd.1 hga hhb,
                ih hr hr2 hd.2 (fun t' ht' => hk t' (by simp [ht']))⟩

/-! ### `mapM'`: images and keys -/

theorem mapM'_mem {α β : Type} {g : α → Except E β} :
    ∀ {xs : List α} {ys : List β}, mapM' g xs = .ok ys → ∀ a ∈ xs, ∃ b ∈ ys, g a = .ok b := by
  intro xs
  induction xs with
  | nil => intro ys _ a ha; simp at ha
  | cons a0 r ih =>
    intro ys h a ha
    simp only [mapM'] at h
    split at h
    · simp at h
    · rename_i b hb
      split at h
      · simp at h
      · rename_i bs hbs
        simp only [Except.ok.injEq] at h; subst h
        simp only [List.mem_cons] at ha
        rcases ha with rfl | ha
        · exact ⟨b, by simp, hb⟩
        · obtain ⟨b', hb', hg⟩ := ih hbs a ha
          exact ⟨b', by simp [hb'], hg⟩

theorem mapM'_keys {α β : Type} {g : α → Except E β} {ka : α → String} {kb : β → String}
    (hk : ∀ a b, g a = .ok b → kb b = ka a) :
    ∀ {xs : List α} {ys : List β}, mapM' g xs = .ok ys → ys.map kb = xs.map ka := by
  intro xs
  induction xs with
  | nil => intro ys h; simp only [mapM', Except.ok.injEq] at h; subst h; rfl
  | cons a0 r ih =>
    intro ys h
    simp only [mapM'] at h
    split at h
    · simp at h
    · rename_i b hb
      split at h
      · simp at h
      · rename_i bs hbs
        simp only [Except.ok.injEq] at h; subst h
        simp only [List.map_cons, hk a0 b hb, ih hbs]

/-! ### the key-sorted map -/

theorem insertKv_self {k : String} {v : Val} : ∀ {l : List (String × Val)}, (k, v) ∈ insertKv k v l := by
  intro l
  induction l with
  | nil => simp [insertKv]
  | cons a r ih =>
    obtain ⟨k', v'⟩ := a
    simp only [insertKv]
    split
    · simp
    · split
      · simp
      · exact List.mem_cons_of_mem _ ih

theorem insertKv_other {k : String} {v : Val} {e : String × Val} :
    ∀ {l : List (String × Val)}, e ∈ l → e.1 ≠ k → e ∈ insertKv k v l := by
  intro l
  induction l with
  | nil => intro h; simp at h
  | cons a r ih =>
    intro h hne
    obtain ⟨k', v'⟩ := a
    simp only [insertKv]
    split
    · exact List.mem_cons_of_mem _ h
    · split
      · rename_i heq
        simp only [List.mem_cons] at h
        rcases h with rfl | h
        · exact absurd heq.symm hne
        · exact List.mem_cons_of_mem _ h
      · simp only [List.mem_cons] at h ⊢
        rcases h with h | h
        · exact Or.inl h
        · exact Or.inr (ih h hne)

theorem insertKv_ne_nil {k : String} {v : Val} {l : List (String × Val)} : insertKv k v l ≠ [] := by
  intro h
  have := insertKv_self (k := k) (v := v) (l := l)
  rw [h] at this; simp at this

theorem foldl_insertKv_keep : ∀ (l acc : List (String × Val)) (e : String × Val),
    e ∈ acc → (∀ e' ∈ l, e'.1 ≠ e.1) → e ∈ l.foldl (fun acc e => insertKv e.1 e.2 acc) acc := by
  intro l
  induction l with
  | nil => intro acc e h _; exact h
  | cons a r ih =>
    intro acc e h hne
    simp only [List.foldl_cons]
    apply ih
    · exact insertKv_other h (fun hc => hne a (by simp) hc.symm)
    · intro e' he'; exact hne e' (by simp [he'])

/-- with pairwise distinct keys nothing is overwritten: every pair ends up in the map -/
theorem foldl_insertKv_mem_of_nodup : ∀ (l acc : List (String × Val)) (e : String × Val),
    nodupB (l.map (·.1)) = true → e ∈ l → e ∈ l.foldl (fun acc e => insertKv e.1 e.2 acc) acc := by
  intro l
  induction l with
  | nil => intro acc e _ h; simp at h
  | cons a r ih =>
    intro acc e hnd h
    simp only [List.map_cons] at hnd
    obtain ⟨hne, hnd'⟩ := nodupB_cons hnd
    simp only [List.foldl_cons]
    simp only [List.mem_cons] at h
    rcases h with rfl | h
    · apply foldl_insertKv_keep
      · exact insertKv_self
      · intro e' he'; exact hne e'.1 (List.mem_map.mpr ⟨e', he', rfl⟩)
    · exact ih _ e hnd' h

theorem foldl_insertKv_ne_nil : ∀ (l acc : List (String × Val)),
    (l ≠ [] ∨ acc ≠ []) → l.foldl (fun acc e => insertKv e.1 e.2 acc) acc ≠ [] := by
  intro l
  induction l with
  | nil => intro acc h; rcases h with h | h; exact absurd rfl h; exact h
  | cons a r ih =>
    intro acc _
    simp only [List.foldl_cons]
    exact ih _ (Or.inr insertKv_ne_nil)

theorem sorted_nodup : ∀ {m : List (String × Val)}, SortedKv m → nodupB (m.map (·.1)) = true := by
  intro m
  induction m with
  | nil => intro _; rfl
  | cons a r ih =>
    intro h
    have hc := List.pairwise_cons.mp h
    simp only [List.map_cons]
    apply nodupB_of_forall
    · intro b hb heq
      obtain ⟨e, he, rfl⟩ := List.mem_map.mp hb
      have := hc.1 e he
      rw [heq] at this
      exact String.lt_irrefl _ this
    · exact ih hc.2

/-- maps: member-wise through the sorted map -/
theorem map_contained {g : String × Json → Except E (String × Val)}
    {h : String × Val → Except E (String × Json)}
    {kvs : List (String × Json)} {es : List (String × Val)} {es' : List (String × Json)}
    (hm : mapM' g kvs = .ok es)
    (hs : mapM' h (es.foldl (fun acc e => insertKv e.1 e.2 acc) []) = .ok es')
    (hnd : nodupKeys kvs = true)
    (hg : ∀ kv r, g kv = .ok r → r.1 = kv.1)
    (hh : ∀ kv r, h kv = .ok r → r.1 = kv.1)
    (hc : ∀ kv ∈ kvs, ∀ b c, g kv = .ok b → h b = .ok c → contained (prune kv.2) (prune c.2) = true) :
    containedObj (pruneObj kvs) (pruneObj es') = true := by
  apply containedObj_iff.mpr
  intro kv hkv
  obtain ⟨k, v'⟩ := kv
  obtain ⟨vk, hmem, hv', hne⟩ := mem_pruneObj.mp hkv
  obtain ⟨b, hb, hgb⟩ := mapM'_mem hm (k, vk) hmem
  have hkeys : es.map (·.1) = kvs.map (·.1) := mapM'_keys (ka := (·.1)) (kb := (·.1)) hg hm
  have hnd_es : nodupB (es.map (·.1)) = true := by rw [hkeys]; exact hnd
  have hbm := foldl_insertKv_mem_of_nodup es [] b hnd_es hb
  obtain ⟨c, hcm, hhc⟩ := mapM'_mem hs b hbm
  have hck : c.1 = k := by rw [hh b c hhc, hg (k, vk) b hgb]
  have hcont := hc (k, vk) hmem b c hgb hhc
  simp only at hcont
  have hsorted : SortedKv (es.foldl (fun acc e => insertKv e.1 e.2 acc) []) :=
    foldl_insertKv_sorted es [] List.Pairwise.nil
  have hnd' : nodupKeys es' = true := by
    unfold nodupKeys
    rw [mapM'_keys (ka := (·.1)) (kb := (·.1)) hh hs]
    exact sorted_nodup hsorted
  subst hv'
  have hne' : emptyJ (prune c.2) = false := contained_nonempty hcont hne
  have hmem' : (k, prune c.2) ∈ pruneObj es' := by
    apply mem_pruneObj.mpr
    refine ⟨c.2, ?_, rfl, hne'⟩
    rw [← hck]; exact hcm
  exact ⟨prune c.2, lookup_of_mem (nodupKeys_pruneObj hnd') hmem', hcont⟩

end TypifyModel.Contain

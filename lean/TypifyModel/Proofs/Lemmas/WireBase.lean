import TypifyModel.Model.WireEq
/-! Helper lemmas for C04 (`wire_exchange`): list combinators of the Serde model. -/
namespace TypifyModel.WireEq
open TypifyModel TypifyModel.Serde

/-- "the model does not reject": ok, or a non-verdict (out of fuel / outside the modelled fragment) -/
abbrev NR {α : Type} (r : Except E α) : Prop := r ≠ .error .reject

theorem NR_ok {α : Type} {a : α} : NR (.ok a : Except E α) := by simp [NR]

theorem mapM'_NR {α β : Type} {g : α → Except E β} :
    ∀ {l : List α}, (∀ a ∈ l, NR (g a)) → NR (mapM' g l) := by
  intro l
  induction l with
  | nil => intro _; simp [mapM', NR]
  | cons a r ih =>
    intro h
    simp only [mapM']
    have ha := h a (by simp)
    have hr := ih (fun b hb => h b (by simp [hb]))
    cases hga : g a with
    | error e =>
      simp only; intro hc; rw [hga] at ha
      simp only [Except.error.injEq] at hc; subst hc; exact ha rfl
    | ok b =>
      simp only
      cases hmr : mapM' g r with
      | error e =>
        simp only; intro hc; rw [hmr] at hr
        simp only [Except.error.injEq] at hc; subst hc; exact hr rfl
      | ok bs => simp [NR]

theorem mapM'_ok_cons {α β : Type} {g : α → Except E β} {a : α} {r : List α} {bs : List β}
    (h : mapM' g (a :: r) = .ok bs) : ∃ b bs', g a = .ok b ∧ mapM' g r = .ok bs' ∧ bs = b :: bs' := by
  simp only [mapM'] at h
  cases hga : g a with
  | error e => rw [hga] at h; simp at h
  | ok b =>
    rw [hga] at h; simp only at h
    cases hmr : mapM' g r with
    | error e => rw [hmr] at h; simp at h
    | ok bs' =>
      rw [hmr] at h; simp only [Except.ok.injEq] at h
      exact ⟨b, bs', rfl, rfl, h.symm⟩

theorem mapM'_ok_mem {α β : Type} {g : α → Except E β} :
    ∀ {l : List α} {bs : List β}, mapM' g l = .ok bs → ∀ b ∈ bs, ∃ a ∈ l, g a = .ok b := by
  intro l
  induction l with
  | nil => intro bs h b hb; simp [mapM'] at h; subst h; simp at hb
  | cons a r ih =>
    intro bs h b hb
    obtain ⟨b0, bs', hg, hr, rfl⟩ := mapM'_ok_cons h
    simp only [List.mem_cons] at hb
    rcases hb with rfl | hb
    · exact ⟨a, by simp, hg⟩
    · obtain ⟨a', ha', hga'⟩ := ih hr b hb
      exact ⟨a', by simp [ha'], hga'⟩

theorem mapM'_ok_length {α β : Type} {g : α → Except E β} :
    ∀ {l : List α} {bs : List β}, mapM' g l = .ok bs → bs.length = l.length := by
  intro l
  induction l with
  | nil => intro bs h; simp [mapM'] at h; subst h; rfl
  | cons a r ih =>
    intro bs h
    obtain ⟨b0, bs', _, hr, rfl⟩ := mapM'_ok_cons h
    simp [ih hr]

theorem zipM_ok_cons {g : Id → Json → Except E Val} {t : Id} {ts : List Id} {j : Json} {js : List Json} {vs : List Val}
    (h : zipM g (t :: ts) (j :: js) = .ok vs) : ∃ v vs', g t j = .ok v ∧ zipM g ts js = .ok vs' ∧ vs = v :: vs' := by
  simp only [zipM] at h
  cases hg : g t j with
  | error e => rw [hg] at h; simp at h
  | ok v =>
    rw [hg] at h; simp only at h
    cases hz : zipM g ts js with
    | error e => rw [hz] at h; simp at h
    | ok vs' =>
      rw [hz] at h; simp only [Except.ok.injEq] at h
      exact ⟨v, vs', rfl, rfl, h.symm⟩

theorem zipM_ok_zipTy {g : Id → Json → Except E Val} {ty : Id → Val → Bool}
    (hg : ∀ t j v, g t j = .ok v → ty t v = true) :
    ∀ {ts : List Id} {js : List Json} {vs : List Val}, zipM g ts js = .ok vs → zipTy ty ts vs = true := by
  intro ts
  induction ts with
  | nil =>
    intro js vs h
    cases js with
    | nil => simp [zipM] at h; subst h; rfl
    | cons _ _ => simp [zipM] at h
  | cons t r ih =>
    intro js vs h
    cases js with
    | nil => simp [zipM] at h
    | cons j js' =>
      obtain ⟨v, vs', h1, h2, rfl⟩ := zipM_ok_cons h
      simp [zipTy, hg t j v h1, ih h2]

theorem zipM_NR {g : Id → Json → Except E Val} :
    ∀ {ts : List Id} {xs : List Json}, ts.length = xs.length →
      (∀ (n : Nat) t j, ts[n]? = some t → xs[n]? = some j → NR (g t j)) → NR (zipM g ts xs) := by
  intro ts
  induction ts with
  | nil => intro xs hl _; cases xs <;> simp [zipM, NR] at hl ⊢
  | cons t r ih =>
    intro xs hl h
    cases xs with
    | nil => simp at hl
    | cons j js =>
      simp only [zipM]
      have h0 := h 0 t j (by simp) (by simp)
      have hr := ih (xs := js) (by simpa using hl) (fun n t' j' ht hj => h (n + 1) t' j' (by simpa using ht) (by simpa using hj))
      cases hg : g t j with
      | error e =>
        simp only; intro hc; rw [hg] at h0
        simp only [Except.error.injEq] at hc; subst hc; exact h0 rfl
      | ok v =>
        simp only
        cases hz : zipM g r js with
        | error e =>
          simp only; intro hc; rw [hz] at hr
          simp only [Except.error.injEq] at hc; subst hc; exact hr rfl
        | ok vs => simp [NR]

theorem firstOk_NR {α : Type} {g : α → Nat → Except E Val} :
    ∀ {l : List α} {k n : Nat} {a : α}, l[n]? = some a → NR (g a (k + n)) → NR (firstOk g l k) := by
  intro l
  induction l with
  | nil => intro k n a h; simp at h
  | cons b r ih =>
    intro k n a h hn
    simp only [firstOk]
    cases n with
    | zero =>
      simp at h; subst h
      simp only [Nat.add_zero] at hn
      cases hg : g b k with
      | ok v => simp [NR]
      | error e =>
        cases e with
        | reject => rw [hg] at hn; exact absurd rfl hn
        | fuel => simp [NR]
        | unsupported => simp [NR]
    | succ m =>
      have h' : r[m]? = some a := by simpa using h
      have hn' : NR (g a (k + 1 + m)) := by
        have : k + (m + 1) = k + 1 + m := by omega
        rw [← this]; exact hn
      cases hg : g b k with
      | ok v => simp [NR]
      | error e =>
        cases e with
        | reject => simp only; exact ih h' hn'
        | fuel => simp [NR]
        | unsupported => simp [NR]

/-- the alternative that produced the value of an untagged enum -/
theorem firstOk_ok {α : Type} {g : α → Nat → Except E Val} :
    ∀ {l : List α} {k : Nat} {v : Val}, firstOk g l k = .ok v → ∃ n a, l[n]? = some a ∧ g a (k + n) = .ok v := by
  intro l
  induction l with
  | nil => intro k v h; simp [firstOk] at h
  | cons b r ih =>
    intro k v h
    simp only [firstOk] at h
    cases hg : g b k with
    | ok w =>
      rw [hg] at h; simp only [Except.ok.injEq] at h; subst h
      exact ⟨0, b, by simp, by simpa using hg⟩
    | error e =>
      rw [hg] at h
      cases e with
      | reject =>
        simp only at h
        obtain ⟨n, a, hn, ha⟩ := ih h
        refine ⟨n + 1, a, by simpa using hn, ?_⟩
        have : k + (n + 1) = k + 1 + n := by omega
        rw [this]; exact ha
      | fuel => simp at h
      | unsupported => simp at h

theorem insertKv_mem {k : String} {v : Val} :
    ∀ {l : List (String × Val)} {e : String × Val}, e ∈ insertKv k v l → e = (k, v) ∨ e ∈ l := by
  intro l
  induction l with
  | nil => intro e h; simp [insertKv] at h; exact Or.inl h
  | cons a r ih =>
    intro e h
    obtain ⟨k', v'⟩ := a
    simp only [insertKv] at h
    split at h
    · simp only [List.mem_cons] at h ⊢
      rcases h with h | h | h
      · exact Or.inl h
      · exact Or.inr (Or.inl h)
      · exact Or.inr (Or.inr h)
    · split at h
      · simp only [List.mem_cons] at h ⊢
        rcases h with h | h
        · exact Or.inl h
        · exact Or.inr (Or.inr h)
      · simp only [List.mem_cons] at h ⊢
        rcases h with h | h
        · exact Or.inr (Or.inl h)
        · rcases ih h with h' | h'
          · exact Or.inl h'
          · exact Or.inr (Or.inr h')

theorem foldl_insertKv_mem :
    ∀ {es acc : List (String × Val)} {e : String × Val},
      e ∈ es.foldl (fun acc e => insertKv e.1 e.2 acc) acc → e ∈ es ∨ e ∈ acc := by
  intro es
  induction es with
  | nil => intro acc e h; exact Or.inr h
  | cons a r ih =>
    intro acc e h
    simp only [List.foldl] at h
    rcases ih h with h' | h'
    · exact Or.inl (by simp [h'])
    · rcases insertKv_mem h' with h'' | h''
      · exact Or.inl (by simp [h''])
      · exact Or.inr h''

theorem nodupB_find_gen {α : Type} (key : α → String) {l : List α} :
    nodupB (l.map key) = true → ∀ a ∈ l, l.find? (fun q => key q == key a) = some a := by
  induction l with
  | nil => intro _ a ha; simp at ha
  | cons b r ih =>
    intro h a ha
    simp only [List.map_cons, nodupB, Bool.and_eq_true, Bool.not_eq_true'] at h
    simp only [List.mem_cons] at ha
    rcases ha with rfl | ha
    · simp [List.find?]
    · have hne : (key b == key a) = false := by
        apply Bool.eq_false_iff.mpr
        intro heq
        have hw : key b = key a := by simpa using heq
        have hc : (r.map key).contains (key b) = true := by
          rw [hw]
          simp only [List.contains_eq_mem, List.mem_map, decide_eq_true_eq]
          exact ⟨a, ha, rfl⟩
        rw [h.1] at hc; exact absurd hc (by simp)
      simp only [List.find?, hne]
      exact ih h.2 a ha

theorem find_findIdx {α : Type} {p : α → Bool} :
    ∀ {l : List α} {a : α}, l.find? p = some a → ∃ i, l.findIdx? p = some i ∧ l[i]? = some a := by
  intro l
  induction l with
  | nil => intro a h; simp at h
  | cons b r ih =>
    intro a h
    simp only [List.find?] at h
    by_cases hb : p b = true
    · simp only [hb] at h
      simp only [Option.some.injEq] at h; subst h
      exact ⟨0, by simp [List.findIdx?_cons, hb], by simp⟩
    · have hb' : p b = false := by simpa using hb
      simp only [hb'] at h
      obtain ⟨i, hi, hg⟩ := ih h
      exact ⟨i + 1, by simp [List.findIdx?_cons, hb', hi], by simpa using hg⟩

theorem lookup_erase_ne {kvs : List (String × Json)} {k r : String} (hne : r ≠ k) :
    Json.lookup (Json.erase kvs k) r = Json.lookup kvs r := by
  induction kvs with
  | nil => rfl
  | cons a rest ih =>
    obtain ⟨k', v'⟩ := a
    simp only [Json.erase, List.filter] at ih ⊢
    by_cases hk : k' = k
    · subst hk
      have : (decide (k' ≠ k')) = false := by simp
      simp only [this]
      simp only [Json.lookup]
      have : ¬ k' = r := fun h => hne h.symm
      simp only [this, if_false]
      exact ih
    · have : (decide (k' ≠ k)) = true := by simp [hk]
      simp only [this, Json.lookup]
      split
      · rfl
      · exact ih

end TypifyModel.WireEq

import TypifyModel.Proofs.Lemmas.MergeTop
/-! # C09 — `allOf` means intersection, independent of order

Model: `Model/Merge.lean` (`tryMerge`, `mergeAll` = merge.rs `try_merge_schema`, `try_merge_all`), over the
JSON-Schema AST and draft-07 validity `Validate.valid` of `Model/Schema.lean`. All theorems quantify over
every document `d` (definitions for `$ref`), every regex semantics `x`, all schemas, all JSON instances and
all fuels; a verdict `valid x d f s v = some b` is independent of the fuel `f` at which it is defined
(`valid_det`), so "`s` accepts `v`" is `∃ f, valid x d f s v = some true`.

Fragment `InMerge te d f a b`: the model has an answer (`tryMerge te d f a b ≠ unsup`), i.e. merge.rs does not
hit `unimplemented!`/`todo!`/an unresolved reference and stays inside the modelled shapes.

The full statements (`merge_inter`, `merge_never`, `merge_all_inter`, `merge_perm`: for *every* answer of
the model) are FALSE on the current tree — merge.rs has defective arms, each reproduced on the real
`merge_all` (KNOWN_FINDINGS.json, `Proofs/C09Findings.lean`). They are kept as `def … : Prop`; the
`…_partial` theorems hold under the decidable hypothesis `GapFree` = "the run went through none of the
arms `Merge.Gap` lists". -/
set_option linter.unusedVariables false
namespace TypifyModel.C09
open TypifyModel TypifyModel.Validate TypifyModel.Merge

/-! ## statements -/

/-- `m` accepts exactly the instances `a` and `b` both accept (stated for all fuels at which the three
    verdicts are defined) and has a verdict whenever `a` and `b` have one -/
def IsInter (x : Ext) (d : Doc) (m a b : Schema) : Prop :=
  ∀ (v : Json) (f2 f3 : Nat) (ba bb : Bool), valid x d f2 a v = some ba → valid x d f3 b v = some bb →
    (∃ f1, valid x d f1 m v = some (ba && bb)) ∧
    (∀ f1 bm, valid x d f1 m v = some bm → (bm = true ↔ ba = true ∧ bb = true))

def IsDisj (x : Ext) (d : Doc) (a b : Schema) : Prop :=
  ∀ (v : Json) (f2 f3 : Nat), ¬ (valid x d f2 a v = some true ∧ valid x d f3 b v = some true)

/-- FULL statement (false on the current tree, see C09Findings): every `ok` answer is the intersection -/
def merge_inter : Prop :=
  ∀ (te : Bool) (x : Ext) (d : Doc) (f : Nat) (a b m : Schema) (g : List Gap),
    InMerge te d f a b = true → tryMerge te d f a b = .ok m g → IsInter x d m a b

/-- FULL statement (false on the current tree): every "unsatisfiable" answer is right -/
def merge_never : Prop :=
  ∀ (te : Bool) (x : Ext) (d : Doc) (f : Nat) (a b : Schema) (g : List Gap),
    InMerge te d f a b = true → tryMerge te d f a b = .never g → IsDisj x d a b

/-- every listed schema has a verdict on `v` -/
def Defined (x : Ext) (d : Doc) (xs : List Schema) (v : Json) : Prop := ∀ s ∈ xs, ∃ f b, valid x d f s v = some b
/-- `v` is valid under all listed schemas -/
def AllTrue (x : Ext) (d : Doc) (xs : List Schema) (v : Json) : Prop := ∀ s ∈ xs, ∃ f, valid x d f s v = some true

def IsInterAll (x : Ext) (d : Doc) (m : Schema) (xs : List Schema) : Prop :=
  ∀ v, Defined x d xs v →
    (∃ f1 b, valid x d f1 m v = some b) ∧ (∀ f1 b, valid x d f1 m v = some b → (b = true ↔ AllTrue x d xs v))

/-- FULL statement (false on the current tree) -/
def merge_all_inter : Prop :=
  ∀ (te : Bool) (x : Ext) (d : Doc) (f : Nat) (xs : List Schema) (m : Schema) (g : List Gap),
    mergeAll te d f xs = .ok m g → IsInterAll x d m xs

/-- FULL statement (false on the current tree): permuting the list does not change acceptance -/
def merge_perm : Prop :=
  ∀ (te : Bool) (x : Ext) (d : Doc) (f f' : Nat) (xs ys : List Schema) (m m' : Schema) (g g' : List Gap),
    xs.Perm ys → mergeAll te d f xs = .ok m g → mergeAll te d f' ys = .ok m' g' →
    ∀ v, Defined x d xs v → ∀ f1 f2 b1 b2, valid x d f1 m v = some b1 → valid x d f2 m' v = some b2 → b1 = b2

/-! ## theorems -/

theorem gapFree_ok {te : Bool} {d : Doc} {f : Nat} {a b m : Schema} {g : List Gap} (hg : GapFree te d f a b = true)
    (h : tryMerge te d f a b = .ok m g) : g = [] := by
  simp only [GapFree, h, MR.gaps, List.isEmpty_iff] at hg; exact hg

theorem gapFree_never {te : Bool} {d : Doc} {f : Nat} {a b : Schema} {g : List Gap} (hg : GapFree te d f a b = true)
    (h : tryMerge te d f a b = .never g) : g = [] := by
  simp only [GapFree, h, MR.gaps, List.isEmpty_iff] at hg; exact hg

theorem isInter_of_Inter {x : Ext} {d : Doc} {m a b : Schema} (h : Inter x d m a b) : IsInter x d m a b := by
  intro v f2 f3 ba bb h2 h3
  obtain ⟨f1, hf1⟩ := h v f2 f3 ba bb h2 h3
  refine ⟨⟨f1, hf1⟩, ?_⟩
  intro f1' bm hbm
  have := valid_det x d hbm hf1
  subst this
  simp

/-- **merge_inter_partial**: on runs through no defective arm, the merged schema of
    `try_merge_schema` accepts exactly the instances both inputs accept -/
theorem merge_inter_partial (te : Bool) (x : Ext) (d : Doc) (f : Nat) (a b m : Schema) (g : List Gap)
    (hin : InMerge te d f a b = true) (hg : GapFree te d f a b = true) (h : tryMerge te d f a b = .ok m g) :
    IsInter x d m a b := by
  have hnil := gapFree_ok hg h
  subst hnil
  have := tryMerge_spec (x := x) (d := d) te f a b
  rw [h] at this
  exact isInter_of_Inter this

/-- **merge_never_partial**: on such runs, `Err(())` means no instance satisfies both -/
theorem merge_never_partial (te : Bool) (x : Ext) (d : Doc) (f : Nat) (a b : Schema) (g : List Gap)
    (hin : InMerge te d f a b = true) (hg : GapFree te d f a b = true) (h : tryMerge te d f a b = .never g) :
    IsDisj x d a b := by
  have hnil := gapFree_never hg h
  subst hnil
  have := tryMerge_spec (x := x) (d := d) te f a b
  rw [h] at this
  exact this

/-! ### lists -/

def SpecAll (x : Ext) (d : Doc) (r : MR) (acc : Schema) (xs : List Schema) : Prop :=
  match r with
  | .ok m [] => ∀ v f2 ba, valid x d f2 acc v = some ba → Defined x d xs v →
      ∃ f1 b, valid x d f1 m v = some b ∧ (b = true ↔ (ba = true ∧ AllTrue x d xs v))
  | .never [] => ∀ v f2, valid x d f2 acc v = some true → ¬ AllTrue x d xs v
  | _ => True

theorem specAll_addGaps {x : Ext} {d : Doc} {r : MR} {g : List Gap} {acc : Schema} {xs : List Schema}
    (h : g = [] → SpecAll x d r acc xs) : SpecAll x d (r.addGaps g) acc xs := by
  cases g with
  | nil => rw [addGaps_nil]; exact h rfl
  | cons c g => cases r <;> simp only [MR.addGaps, List.cons_append] <;> trivial

theorem mergeAllFrom_spec (te : Bool) (x : Ext) (d : Doc) (f : Nat) : ∀ (xs : List Schema) (acc : Schema),
    SpecAll x d (mergeAllFrom te d f acc xs) acc xs := by
  intro xs
  induction xs with
  | nil =>
    intro acc
    simp only [mergeAllFrom, SpecAll]
    intro v f2 ba h _
    exact ⟨f2, ba, h, by simp [AllTrue]⟩
  | cons y r ih =>
    intro acc
    simp only [mergeAllFrom]
    have hs := tryMerge_spec (x := x) (d := d) te f acc y
    cases hr : tryMerge te d f acc y with
    | unsup => trivial
    | never g =>
      cases g with
      | cons _ _ => trivial
      | nil =>
        rw [hr] at hs
        intro v f2 hacc hall
        obtain ⟨fy, hy⟩ := hall y (by simp)
        exact hs v f2 fy ⟨hacc, hy⟩
    | ok m1 g =>
      simp only
      apply specAll_addGaps
      intro hg
      subst hg
      rw [hr] at hs
      have hI : Inter x d m1 acc y := hs
      have ih' := ih m1
      cases hm : mergeAllFrom te d f m1 r with
      | unsup => trivial
      | never g' =>
        cases g' with
        | cons _ _ => trivial
        | nil =>
          rw [hm] at ih'
          intro v f2 hacc hall
          obtain ⟨fy, hy⟩ := hall y (by simp)
          obtain ⟨f1, hf1⟩ := hI v f2 fy true true hacc hy
          exact ih' v f1 hf1 (fun s hs' => hall s (by simp [hs']))
      | ok m' g' =>
        cases g' with
        | cons _ _ => trivial
        | nil =>
          rw [hm] at ih'
          intro v f2 ba hacc hdef
          obtain ⟨fy, byy, hy⟩ := hdef y (by simp)
          obtain ⟨f1, hf1⟩ := hI v f2 fy ba byy hacc hy
          obtain ⟨f1', b, hb, hiff⟩ := ih' v f1 (ba && byy) hf1 (fun s hs' => hdef s (by simp [hs']))
          refine ⟨f1', b, hb, ?_⟩
          rw [hiff]
          simp only [Bool.and_eq_true, AllTrue, List.mem_cons, forall_eq_or_imp]
          constructor
          · rintro ⟨⟨h1, h2⟩, h3⟩
            exact ⟨h1, ⟨fy, by rw [← h2]; exact hy⟩, h3⟩
          · rintro ⟨h1, ⟨fy', hy'⟩, h3⟩
            exact ⟨⟨h1, valid_det x d hy hy'⟩, h3⟩

/-- **merge_all_inter_partial**: the result of `merge_all` accepts exactly the instances valid under
    every listed schema -/
theorem merge_all_inter_partial (te : Bool) (x : Ext) (d : Doc) (f : Nat) (xs : List Schema) (m : Schema) (g : List Gap)
    (hg : GapFreeAll te d f xs = true) (h : mergeAll te d f xs = .ok m g) : IsInterAll x d m xs := by
  have hnil : g = [] := by simpa [GapFreeAll, h, MR.gaps] using hg
  subst hnil
  cases xs with
  | nil => simp [mergeAll] at h
  | cons a r =>
    simp only [mergeAll] at h
    have hs := mergeAllFrom_spec te x d f r a
    rw [h] at hs
    intro v hdef
    obtain ⟨fa, ba, ha⟩ := hdef a (by simp)
    obtain ⟨f1, b, hb, hiff⟩ := hs v fa ba ha (fun s hs' => hdef s (by simp [hs']))
    have hall : b = true ↔ AllTrue x d (a :: r) v := by
      rw [hiff]
      simp only [AllTrue, List.mem_cons, forall_eq_or_imp]
      constructor
      · rintro ⟨h1, h2⟩; exact ⟨⟨fa, by rw [← h1]; exact ha⟩, h2⟩
      · rintro ⟨⟨fa', ha'⟩, h2⟩; exact ⟨valid_det x d ha ha', h2⟩
    refine ⟨⟨f1, b, hb⟩, ?_⟩
    intro f1' b' hb'
    rw [valid_det x d hb' hb]
    exact hall

/-- **merge_all_never_partial**: `Schema::Bool(false)` from `merge_all` means no instance is valid under
    all listed schemas -/
theorem merge_all_never_partial (te : Bool) (x : Ext) (d : Doc) (f : Nat) (xs : List Schema) (g : List Gap)
    (hg : GapFreeAll te d f xs = true) (h : mergeAll te d f xs = .never g) : ∀ v, ¬ AllTrue x d xs v := by
  have hnil : g = [] := by simpa [GapFreeAll, h, MR.gaps] using hg
  subst hnil
  cases xs with
  | nil => simp [mergeAll] at h
  | cons a r =>
    simp only [mergeAll] at h
    have hs := mergeAllFrom_spec te x d f r a
    rw [h] at hs
    intro v hall
    obtain ⟨fa, ha⟩ := hall a (by simp)
    exact hs v fa ha (fun s hs' => hall s (by simp [hs']))

theorem allTrue_perm {x : Ext} {d : Doc} {xs ys : List Schema} (hp : xs.Perm ys) (v : Json) :
    AllTrue x d xs v ↔ AllTrue x d ys v :=
  ⟨fun h s hs => h s (hp.mem_iff.mpr hs), fun h s hs => h s (hp.mem_iff.mp hs)⟩

theorem defined_perm {x : Ext} {d : Doc} {xs ys : List Schema} (hp : xs.Perm ys) (v : Json) :
    Defined x d xs v ↔ Defined x d ys v :=
  ⟨fun h s hs => h s (hp.mem_iff.mpr hs), fun h s hs => h s (hp.mem_iff.mp hs)⟩

/-- **merge_perm_partial**: permuting the subschema list changes neither which instances the merged
    schema accepts … -/
theorem merge_perm_partial (te : Bool) (x : Ext) (d : Doc) (f f' : Nat) (xs ys : List Schema) (m m' : Schema) (g g' : List Gap)
    (hp : xs.Perm ys) (hg : GapFreeAll te d f xs = true) (hg' : GapFreeAll te d f' ys = true)
    (h : mergeAll te d f xs = .ok m g) (h' : mergeAll te d f' ys = .ok m' g') :
    ∀ v, Defined x d xs v → ∀ f1 f2 b1 b2, valid x d f1 m v = some b1 → valid x d f2 m' v = some b2 → b1 = b2 := by
  intro v hdef f1 f2 b1 b2 h1 h2
  have hx := (merge_all_inter_partial te x d f xs m g hg h v hdef).2 f1 b1 h1
  have hy := (merge_all_inter_partial te x d f' ys m' g' hg' h' v ((defined_perm hp v).mp hdef)).2 f2 b2 h2
  have : b1 = true ↔ b2 = true := by rw [hx, hy]; exact allTrue_perm hp v
  cases b1 <;> cases b2 <;> simp at this ⊢

/-- … nor whether it is reported unsatisfiable: if one order yields `never`, the result of any other
    order accepts nothing -/
theorem merge_perm_never_partial (te : Bool) (x : Ext) (d : Doc) (f f' : Nat) (xs ys : List Schema) (m' : Schema) (g g' : List Gap)
    (hp : xs.Perm ys) (hg : GapFreeAll te d f xs = true) (hg' : GapFreeAll te d f' ys = true)
    (h : mergeAll te d f xs = .never g) (h' : mergeAll te d f' ys = .ok m' g') :
    ∀ v, Defined x d xs v → ∀ f2, valid x d f2 m' v ≠ some true := by
  intro v hdef f2 h2
  have hy := (merge_all_inter_partial te x d f' ys m' g' hg' h' v ((defined_perm hp v).mp hdef)).2 f2 true h2
  exact merge_all_never_partial te x d f xs g hg h v ((allTrue_perm hp v).mpr (hy.mp rfl))

/-! ## non-vacuity: the hypotheses are met by non-trivial inputs -/

def xAll : Ext := ⟨fun _ _ => true⟩
def dEx : Doc := ⟨[("A", .object [("x", .integer (some 0) (some 255))] ["x"] .open_),
                   ("B", .allOf [.ref "A", .object [("y", .string none none none)] [] .open_])]⟩

/-- a `$ref` to an object merged with an object that has `additionalProperties: schema`, disjoint and
    overlapping properties, union of `required` -/
example : tryMerge true dEx 6 (.ref "A")
    (.object [("x", .integer (some (-9223372036854775808)) (some 9223372036854775807)), ("z", .boolean)] ["z"]
      (.schema (.string none none none))) =
    .ok (.object [("x", .integer (some 0) (some 255)), ("z", .boolean)] ["x", "z"] (.schema (.string none none none))) [] := rfl

example : InMerge true dEx 6 (.ref "A") (.ref "B") = true ∧ GapFree true dEx 6 (.ref "A") (.ref "B") = true := ⟨rfl, rfl⟩

/-- a required property with conflicting types: unsatisfiable -/
example : tryMerge true dEx 6 (.ref "A") (.object [("x", .string none none none)] [] .open_) = .never [] := rfl

/-- distribution over a oneOf with disjoint (tagged) branches; one branch is dropped -/
example : tryMerge true dEx 6 (.object [("t", .enumVals [.str "a", .str "b"])] [] .open_)
    (.oneOf [.object [("t", .enumVals [.str "a"])] ["t"] .open_, .object [("t", .enumVals [.str "c"])] ["t"] .open_]) =
    .ok (.object [("t", .enumVals [.str "a"])] ["t"] .open_) [] := rfl

/-- lists: three schemas, gap-free, in two orders -/
example : mergeAll true dEx 6 [.ref "A", .object [("y", .boolean)] ["y"] .open_, .ref "B"] = .never [] := rfl
example : GapFreeAll true dEx 6 [.ref "A", .object [("y", .string none none none)] ["y"] .open_, .object [] [] .open_] = true ∧
          GapFreeAll true dEx 6 [.object [] [] .open_, .object [("y", .string none none none)] ["y"] .open_, .ref "A"] = true ∧
          InMergeAll true dEx 6 [.object [] [] .open_, .object [("y", .string none none none)] ["y"] .open_, .ref "A"] = true :=
  ⟨rfl, rfl, rfl⟩

/-- `not` with a single required name -/
example : tryMerge true dEx 6 (.object [("p", .boolean)] [] .open_) (.not (.object [] ["p"] .open_)) =
    .ok (.object [("p", .never)] [] .open_) [] := rfl

end TypifyModel.C09

import TypifyModel.Model.Natives
import TypifyModel.Generated.StringFormats
/-! # C11, newtypes over string-formatted natives

Two layers. (1) For every native whose conversions *meet* the facts recorded for it (`NativeOps.Meets`, an assumption
about chrono / uuid / std::net probed on compiled code on every run), the forwarding templates typify emits for the
newtype and for untagged enums over such natives agree with the wire format — for all strings and values.
(2) Over the format table regenerated from `convert_string` (translator T2): every arm that advertises `Display` /
`FromStr` selects a native for which the corresponding fact is recorded as true — except `date-time`, whose `Display`
is **not** its wire form (finding C11-datetime-display, refuted in `C11Findings`). An arm added or changed in the
source changes the table and re-opens `native_formats_coherent_partial`. -/
namespace TypifyModel.C11N
open TypifyModel TypifyModel.Generated

theorem nt_fromstr_eq_de {α : Type} (o : NativeOps α) (f : NativeFacts) (h : o.Meets f) (hf : f.fromStrIsDe = true)
    (s : String) : ntFromStr o s = ntDe o s := h.1 hf s

theorem nt_tryfrom_eq_fromstr {α : Type} (o : NativeOps α) (s : String) : ntTryFrom o s = ntFromStr o s := rfl

theorem nt_display_eq_ser {α : Type} (o : NativeOps α) (f : NativeFacts) (h : o.Meets f) (hf : f.displayIsWire = true)
    (v : α) : ntDisplay o v = ntSer o v := h.2 hf v

theorem ut_fromstr_eq_de {α : Type} (os : List (NativeOps α))
    (h : ∀ o ∈ os, ∀ s, o.parse s = o.de s) (i : Nat) (s : String) : utFromStr os i s = utDe os i s := by
  induction os generalizing i with
  | nil => rfl
  | cons o r ih =>
    simp only [utFromStr, utDe]
    rw [h o (by simp) s]
    cases o.de s with
    | some v => rfl
    | none => exact ih (fun o' ho' => h o' (by simp [ho'])) (i + 1)

theorem ut_display_eq_ser {α : Type} (os : List (NativeOps α))
    (h : ∀ o ∈ os, ∀ v, o.display v = o.ser v) (v : Nat × α) : utDisplay os v = utSer os v := by
  simp only [utDisplay, utSer]
  cases hv : os[v.1]? with
  | none => rfl
  | some o => simp only [Option.map_some]; rw [h o (List.mem_of_getElem? hv) v.2]

/-- full statement over the regenerated table: every arm of `convert_string` advertises only conversions that are
    the wire form -/
def native_formats_coherent_full : Prop := ∀ r ∈ stringFormats, r.coherent = true

/-- what holds: every arm except `date-time` -/
theorem native_formats_coherent_partial :
    (stringFormats.all fun r => r.fmt == "date-time" || r.coherent) = true := by decide

/-- ... and `date-time` fails only on `Display` (its `FromStr` is coherent) -/
theorem datetime_fromstr_coherent :
    (stringFormats.all fun r => r.fmt != "date-time" ||
      ({ r with impls := r.impls.filter (· != "Display") } : StrFormatRow).coherent) = true := by decide

/-- the fallback arm and every unrecognised format give a plain `String`, for which `BaseWire.strNewtype` applies -/
theorem fallback_is_string : stringFormatFallback.path = "String" ∧ stringFormatFallback.impls = [] := by decide

theorem no_guarded_arm : stringFormatsGuarded = [] := by decide

-- non-vacuity: a native meeting its facts, and the table has rows with conversions
example : (⟨fun s => some s, fun s => some s, id, id⟩ : NativeOps String).Meets ⟨"::uuid::Uuid", true, true, "uuid"⟩ :=
  ⟨fun _ _ => rfl, fun _ _ => rfl⟩
example : (stringFormats.filter fun r => r.impls.contains "Display").length ≥ 1 := by decide

end TypifyModel.C11N

import TypifyModel.Proofs.Lemmas.StrConvLemmas
/-! # C11 — string conversions of generated types agree with their wire format

∀ IR, ∀ strings. The models of the three hand-written templates (`fromStr`, `tryFromStr`,
`display` in `Model/StrConv.lean`) are separate definitions from `de`/`se` (`Model/Serde*.lean`),
so these are theorems with content; e.g. for simple enums `fromStr` matches on `raw_name` while
`de` goes through the variant's serde name. The tie of both models to the compiled generated code
is the M3 correspondence of `./check C11`. -/
namespace TypifyModel.C11
open TypifyModel TypifyModel.Serde

/-- generated types whose wire form is always a JSON string and that offer string conversions,
    base kinds: simple (field-less, externally tagged) enums; newtypes over `String` without and
    with length/pattern constraints -/
inductive BaseWire (σ : Space) : Id → Prop
  | simpleEnum {t : Id} {n : String} {vs : List Variant} {deny : Bool} {d : Option Json}
      {bes : List Bespoke} {ed : List String} {im : List Impl} :
      σ.get t = some ⟨.enum n .external vs deny d bes, ed, im⟩ →
      bes.contains .allSimpleVariants = true → isAllSimple vs = true → BaseWire σ t
  | strNewtype {t inner : Id} {n : String} {d : Option Json} {ed ed' : List String} {im im' : List Impl} :
      σ.get t = some ⟨.newtype n inner .none d, ed, im⟩ →
      σ.get inner = some ⟨.string, ed', im'⟩ → BaseWire σ t
  | strConstrained {t inner : Id} {n : String} {mx mn : Option Nat} {pat : Option String}
      {d : Option Json} {ed ed' : List String} {im im' : List Impl} :
      σ.get t = some ⟨.newtype n inner (.string mx mn pat) d, ed, im⟩ →
      σ.get inner = some ⟨.string, ed', im'⟩ → BaseWire σ t

/-- **C11 (base kinds): parsing a string = deserializing the JSON string**, same value or same
    rejection, for every string and any fuel ≥ 2 on either side. -/
theorem base_fromstr_eq_de (x : Ext) (σ : Space) (t : Id) (h : BaseWire σ t) (f g : Nat) (s : String) :
    fromStr x σ (f + 2) t s = de x σ (g + 2) t (.str s) := by
  cases h with
  | simpleEnum hget hb hs =>
    rename_i n vs deny d bes ed im
    simp only [fromStr, de, hget, hb, if_true]
    rw [findIdx_wire_raw]
    cases hi : vs.findIdx? (fun v => v.rawName == s) with
    | none => rfl
    | some i =>
      simp only
      have hlt : i < vs.length := by
        have := List.findIdx?_eq_some_iff_getElem.mp hi
        exact this.1
      have hv : vs[i]? = some vs[i] := List.getElem?_eq_getElem hlt
      have hd := allSimple_get hs hv
      rw [hv]
      cases hvi : vs[i] with
      | mk raw ident det =>
        rw [hvi] at hd; simp only at hd; subst hd
        rfl
  | strNewtype hget hin =>
    simp only [fromStr, de, hget, hin]
  | strConstrained hget hin =>
    simp only [fromStr, de, hget, hin]

/-- `TryFrom<&str>`, `TryFrom<&String>` and `TryFrom<String>` are `value.parse()` -/
theorem tryfrom_eq_fromstr (x : Ext) (σ : Space) (f : Nat) (t : Id) (s : String) :
    tryFromStr x σ f t s = fromStr x σ f t s := rfl

theorem firstOk_congr {α : Type} (F G : α → Nat → Except E Val) :
    ∀ (l : List α) (k : Nat), (∀ a ∈ l, ∀ i, F a i = G a i) → firstOk F l k = firstOk G l k := by
  intro l
  induction l with
  | nil => intro k _; rfl
  | cons a r ih =>
    intro k h
    simp only [firstOk]
    rw [h a (by simp) k]
    cases G a k with
    | ok v => rfl
    | error e =>
      cases e <;> simp only
      exact ih (k + 1) (fun b hb i => h b (by simp [hb]) i)

/-- **C11 (untagged enums all of whose alternatives are string-typed)** -/
theorem untagged_fromstr_eq_de (x : Ext) (σ : Space) (t : Id) {n : String} {vs : List Variant}
    {deny : Bool} {d : Option Json} {bes : List Bespoke} {ed : List String} {im : List Impl}
    (hget : σ.get t = some ⟨.enum n .untagged vs deny d bes, ed, im⟩)
    (hns : bes.contains .allSimpleVariants = false) (hfs : bes.contains .untaggedFromStr = true)
    (hvs : ∀ v ∈ vs, ∃ t', v.details = .item t' ∧ BaseWire σ t')
    (f g : Nat) (s : String) :
    fromStr x σ (f + 3) t s = de x σ (g + 4) t (.str s) := by
  rw [fromStr, de]
  simp only [hget, hns, hfs, if_true]
  apply firstOk_congr
  intro v hv i
  obtain ⟨t', hd, hb⟩ := hvs v hv
  simp only [hd]
  rw [deVariantBody]
  rw [base_fromstr_eq_de x σ t' hb f g s]
  cases de x σ (g + 2) t' (Json.str s) <;> rfl

/-- **C11: Display prints exactly the string that serialization writes** (simple enums — the raw
    name is used as a `write!` format string with braces escaped — and string newtypes) -/
theorem base_display_eq_ser (σ : Space) (t : Id) (h : BaseWire σ t)
    (hoffer : ∀ n inner mx mn pat d ed im, σ.get t ≠ some ⟨.newtype n inner (.string mx mn pat) d, ed, im⟩)
    (f g : Nat) (v : Val) (w : String)
    (hse : se σ (f + 2) t v = .ok (.str w)) : display σ (g + 2) t v = .ok w := by
  cases h with
  | simpleEnum hget hb hs =>
    rename_i n vs deny d bes ed im
    simp only [se, hget] at hse
    simp only [display, hget]
    cases v with
    | variant i p =>
      simp only at hse ⊢
      cases hv : vs[i]? with
      | none => rw [hv] at hse; simp at hse
      | some vr =>
        rw [hv] at hse
        simp only at hse ⊢
        have hd := allSimple_get hs hv
        rw [hd] at hse
        simp only [Except.ok.injEq, Json.str.injEq] at hse
        simp only [hb, if_true, fmtLiteral_escape]
        rw [String.ofList_toList, ← hse, Variant.wire_eq_raw]
    | _ => simp at hse
  | strNewtype hget hin =>
    simp only [se, hget, hin] at hse
    simp only [display, hget, hin]
    cases v <;> simp at hse ⊢
    exact hse
  | strConstrained hget hin =>
    exact absurd hget (hoffer _ _ _ _ _ _ _ _)

theorem untagged_display_eq_ser (σ : Space) (t : Id) {n : String} {vs : List Variant}
    {deny : Bool} {d : Option Json} {bes : List Bespoke} {ed : List String} {im : List Impl}
    (hget : σ.get t = some ⟨.enum n .untagged vs deny d bes, ed, im⟩)
    (hns : bes.contains .allSimpleVariants = false) (hds : bes.contains .untaggedDisplay = true)
    (hvs : ∀ v ∈ vs, ∃ t', v.details = .item t' ∧ BaseWire σ t' ∧
      ∀ n inner mx mn pat d ed im, σ.get t' ≠ some ⟨.newtype n inner (.string mx mn pat) d, ed, im⟩)
    (f g : Nat) (v : Val) (w : String)
    (hse : se σ (f + 4) t v = .ok (.str w)) : display σ (g + 3) t v = .ok w := by
  simp only [se, hget] at hse
  simp only [display, hget]
  cases v with
  | variant i p =>
    simp only at hse ⊢
    cases hv : vs[i]? with
    | none => rw [hv] at hse; simp at hse
    | some vr =>
      rw [hv] at hse
      simp only at hse ⊢
      obtain ⟨t', hd, hb, hoff⟩ := hvs vr (List.mem_of_getElem? hv)
      simp only [hd, seVariantBody] at hse
      simp only [hns, hds, hd]
      exact base_display_eq_ser σ t' hb hoff f g p w hse
  | _ => simp at hse

/-! non-vacuity: a concrete space with a simple enum whose value contains braces, a constrained
    string newtype and an untagged enum over both -/
def exSpace : Space := { entries := [
  (1, ⟨.enum "E" .external [⟨"a{b", "AB", .simple⟩, ⟨"c", "C", .simple⟩] false none [.allSimpleVariants], [], []⟩),
  (2, ⟨.string, [], []⟩),
  (3, ⟨.newtype "N" 2 (.string (some 3) none none) none, [], []⟩),
  (4, ⟨.enum "U" .untagged [⟨"V0", "V0", .item 1⟩, ⟨"V1", "V1", .item 3⟩] false none [.untaggedFromStr], [], []⟩)] }

example : BaseWire exSpace 1 := .simpleEnum (by rfl) (by rfl) (by rfl)
example : BaseWire exSpace 3 := .strConstrained (by rfl) (by rfl)
example : display exSpace 5 1 (.variant 0 .unit) = .ok "a{b" := by rfl
example : fromStr ⟨fun _ _ => true⟩ exSpace 5 4 "abcd" = .error .reject := by rfl
example : fromStr ⟨fun _ _ => true⟩ exSpace 5 4 "c" = .ok (.variant 0 (.variant 1 .unit)) := by rfl

end TypifyModel.C11

import TypifyModel.Model.StrConv
import TypifyModel.Model.Render
import TypifyModel.Proofs.C11
import TypifyModel.Proofs.Lemmas.RenderLemmas
/-! # C05 — constraints represented in a generated type cannot be bypassed

Soundness of `de` with respect to each represented constraint, ∀ IR ∀ JSON: whenever
deserialization succeeds the constraint holds of the document (contrapositive: a document violating
it is rejected). `FromStr`/`TryFrom` agreeing with `Deserialize` is C11's `base_fromstr_eq_de`.
The absence of a public constructor or field is a theorem about the Render model. -/
namespace TypifyModel.C05
open TypifyModel TypifyModel.Serde

/-- the length checks count Unicode scalar values -/
theorem charCount_eq_length (s : String) : charCount s = s.length := by
  unfold charCount; simp [String.length_toList]

/-- **minLength / maxLength / pattern** -/
theorem string_constraints_enforced (x : Ext) (σ : Space) (f : Nat) (t : Id) {n : String} {inner : Id}
    {mx mn : Option Nat} {pat : Option String} {d : Option Json} {ed : List String} {im : List Impl}
    (hget : σ.get t = some ⟨.newtype n inner (.string mx mn pat) d, ed, im⟩)
    (j : Json) (v : Val) (h : de x σ (f + 1) t j = .ok v) :
    ∃ s, v = .str s ∧ (∀ m, mx = some m → s.length ≤ m) ∧ (∀ m, mn = some m → m ≤ s.length) ∧
      (∀ p, pat = some p → x.regex p s = true) := by
  simp only [de, hget] at h
  split at h
  · simp at h
  · rename_i v' _
    split at h
    · rename_i s _
      split at h
      · rename_i hc
        simp only [Except.ok.injEq] at h; subst h
        refine ⟨s, rfl, ?_, ?_, ?_⟩
        · intro m hm; subst hm; simp [checkString] at hc; rw [← charCount_eq_length]; exact hc.1.1
        · intro m hm; subst hm; simp [checkString] at hc; rw [← charCount_eq_length]; exact hc.1.2
        · intro p hp; subst hp; simp [checkString] at hc; exact hc.2
      · simp at h
    · simp at h

/-- **membership in enumerated values (typed non-string enums)** -/
theorem enum_values_enforced (x : Ext) (σ : Space) (f : Nat) (t : Id) {n : String} {inner : Id}
    {vs : List Json} {d : Option Json} {ed : List String} {im : List Impl}
    (hget : σ.get t = some ⟨.newtype n inner (.enumValues vs) d, ed, im⟩)
    (j : Json) (v : Val) (h : de x σ (f + 1) t j = .ok v) :
    ∃ cs, mapM' (de x σ f inner) vs = .ok cs ∧ cs.any (· == v) = true := by
  simp only [de, hget] at h
  split at h
  · simp at h
  · rename_i v' _
    split at h
    · simp at h
    · simp at h
    · rename_i cs hcs
      split at h
      · rename_i hany
        simp only [Except.ok.injEq] at h; subst h
        exact ⟨cs, hcs, hany⟩
      · simp at h

/-- **`not enum` deny lists** -/
theorem deny_values_enforced (x : Ext) (σ : Space) (f : Nat) (t : Id) {n : String} {inner : Id}
    {vs : List Json} {d : Option Json} {ed : List String} {im : List Impl}
    (hget : σ.get t = some ⟨.newtype n inner (.denyValues vs) d, ed, im⟩)
    (j : Json) (v : Val) (h : de x σ (f + 1) t j = .ok v) :
    ∃ cs, mapM' (de x σ f inner) vs = .ok cs ∧ cs.any (· == v) = false := by
  simp only [de, hget] at h
  split at h
  · simp at h
  · rename_i v' _
    split at h
    · simp at h
    · simp at h
    · rename_i cs hcs
      split at h
      · simp at h
      · rename_i hany
        simp only [Except.ok.injEq] at h; subst h
        exact ⟨cs, hcs, by simpa using hany⟩

theorem mapM'_mem {α β : Type} {g : α → Except E β} :
    ∀ {l : List α} {bs : List β}, mapM' g l = .ok bs → ∀ a ∈ l, ∃ b, g a = .ok b := by
  intro l
  induction l with
  | nil => intro _ _ a ha; simp at ha
  | cons a r ih =>
    intro bs h b hb
    simp only [mapM'] at h
    split at h
    · simp at h
    · rename_i b' hb'
      split at h
      · simp at h
      · rename_i bs' hbs
        simp only [List.mem_cons] at hb
        rcases hb with rfl | hb
        · exact ⟨b', hb'⟩
        · exact ih hbs b hb

/-- **required properties and closed objects**: a struct read from a JSON object has every
    required member (unless its type reads a missing member as `None`) and, when closed, no member
    outside the declared ones -/
theorem struct_object_enforced (x : Ext) (σ : Space) (f : Nat) (ps : List Field) (deny : Bool)
    (kvs : List (String × Json)) (v : Val) (hfl : hasFlatten ps = false)
    (h : deStruct x σ (f + 1) ps deny (.obj kvs) = .ok v) :
    (∀ p ∈ ps, (p.state matches .required) → optionLikeT σ p.ty = false → (Json.lookup kvs p.wire).isSome) ∧
    (deny = true → ∀ kv ∈ kvs, ∃ p ∈ ps, p.wire = kv.1) := by
  simp only [deStruct] at h
  split at h
  · rename_i hc; simp [hfl] at hc
  · split at h
    · simp at h
    · rename_i hdeny
      constructor
      · intro p hp hreq hopt
        split at h
        · rename_i fs hfs
          obtain ⟨b, hb⟩ := mapM'_mem hfs p hp
          cases hl : Json.lookup kvs p.wire with
          | some j => rfl
          | none =>
            rw [hl] at hb; simp only at hb
            cases hst : p.state with
            | required => rw [hst] at hb; simp [hopt] at hb
            | optional => rw [hst] at hreq; simp at hreq
            | dflt d => rw [hst] at hreq; simp at hreq
        · simp at h
      · intro hd kv hkv
        subst hd
        have hd' : ∀ (a : String) (b : Json), (a, b) ∈ kvs → ∃ p, p ∈ ps ∧ p.wire = a := by
          simpa using hdeny
        obtain ⟨p, hp, hw⟩ := hd' kv.1 kv.2 hkv
        exact ⟨p, hp, hw⟩

theorem zipM_length {g : Id → Json → Except E Val} :
    ∀ {ts : List Id} {xs : List Json} {vs : List Val}, zipM g ts xs = .ok vs → xs.length = ts.length := by
  intro ts
  induction ts with
  | nil => intro xs vs h; cases xs <;> simp [zipM] at h ⊢
  | cons t r ih =>
    intro xs vs h
    cases xs with
    | nil => simp [zipM] at h
    | cons j js =>
      simp only [zipM] at h
      split at h
      · simp at h
      · split at h
        · simp at h
        · rename_i vs' hvs
          simp [ih hvs]

/-- **fixed tuple length / fixed array length** -/
theorem tuple_arity_enforced (x : Ext) (σ : Space) (f : Nat) (t : Id) {ts : List Id} {ed : List String}
    {im : List Impl} (hget : σ.get t = some ⟨.tuple ts, ed, im⟩) (j : Json) (v : Val)
    (h : de x σ (f + 1) t j = .ok v) : ∃ xs, j = .arr xs ∧ xs.length = ts.length := by
  simp only [de, hget] at h
  split at h
  · rename_i xs
    split at h
    · rename_i vs hz; exact ⟨xs, rfl, zipM_length hz⟩
    · simp at h
  · simp at h

theorem array_len_enforced (x : Ext) (σ : Space) (f : Nat) (t : Id) {t' : Id} {n : Nat} {ed : List String}
    {im : List Impl} (hget : σ.get t = some ⟨.array t' n, ed, im⟩) (j : Json) (v : Val)
    (h : de x σ (f + 1) t j = .ok v) : ∃ xs, j = .arr xs ∧ xs.length = n := by
  simp only [de, hget] at h
  split at h
  · rename_i xs
    split at h
    · rename_i hl; exact ⟨xs, rfl, hl⟩
    · simp at h
  · simp at h

/-- **the JSON type of scalars** -/
theorem scalar_type_enforced (x : Ext) (σ : Space) (f : Nat) (t : Id) (ent : Entry)
    (hget : σ.get t = some ent) (j : Json) (v : Val) (h : de x σ (f + 1) t j = .ok v) :
    (ent.details matches .string → ∃ s, j = .str s) ∧
    (ent.details matches .boolean → ∃ b, j = .bool b) ∧
    (ent.details matches .unit → j = .null) ∧
    (∀ name, ent.details = .integer name → ∃ n ty, j = .int n ∧ rtyOfName name = some ty ∧ ty.inRange n) := by
  simp only [de, hget] at h
  refine ⟨?_, ?_, ?_, ?_⟩
  · intro hd
    cases hdd : ent.details <;> simp [hdd] at hd
    rw [hdd] at h; simp only at h
    split at h
    · rename_i s; exact ⟨s, rfl⟩
    · simp at h
  · intro hd
    cases hdd : ent.details <;> simp [hdd] at hd
    rw [hdd] at h; simp only at h
    split at h
    · rename_i b; exact ⟨b, rfl⟩
    · simp at h
  · intro hd
    cases hdd : ent.details <;> simp [hdd] at hd
    rw [hdd] at h; simp only at h
    split at h
    · rfl
    · simp at h
  · intro name hd
    rw [hd] at h; simp only at h
    split at h
    · simp at h
    · rename_i ty hty
      split at h
      · rename_i n
        split at h
        · rename_i hr; exact ⟨n, ty, rfl, hty, hr⟩
        · simp at h
      · simp at h

/-- **tag values of tagged unions (external tagging, string form)**: a JSON string is accepted only
    if it is the serde name of a data-less variant -/
theorem external_tag_enforced (x : Ext) (σ : Space) (f : Nat) (t : Id) {n : String} {vs : List Variant}
    {deny : Bool} {d : Option Json} {bes : List Bespoke} {ed : List String} {im : List Impl}
    (hget : σ.get t = some ⟨.enum n .external vs deny d bes, ed, im⟩) (s : String) (v : Val)
    (h : de x σ (f + 1) t (.str s) = .ok v) :
    ∃ (i : Nat) (vr : Variant), vs[i]? = some vr ∧ vr.rawName = s ∧ vr.details matches .simple := by
  simp only [de, hget] at h
  split at h
  · simp at h
  · rename_i i hi
    have hf := List.findIdx?_eq_some_iff_getElem.mp hi
    obtain ⟨hlt, hw, _⟩ := hf
    have hv : vs[i]? = some vs[i] := List.getElem?_eq_getElem hlt
    rw [hv] at h
    split at h
    · rename_i raw ident heq
      simp only [Option.some.injEq] at heq
      refine ⟨i, vs[i], hv, ?_, ?_⟩
      · have := Variant.wire_eq_raw vs[i]
        simp only [beq_iff_eq] at hw
        rw [← this]; exact hw
      · rw [heq]
    · simp at h

/-- **no public constructor or field lets a caller build a violating value**: a constrained newtype
    is emitted with a private field and without `From<inner>`; the only ways in are the checked ones -/
theorem no_backdoor (tb : Render.DeriveTables) (st : Render.Settings) (σ : Space) (ent : Entry)
    (it : Render.ItemS) (fns : List String) {n : String} {inner : Id} {c : Constraints} {d : Option Json}
    (hd : ent.details = .newtype n inner c d) (hc : Render.isConstrained c = true)
    (h : Render.itemOf tb st σ ent = some (it, fns)) :
    (it.fields.all (fun fl => !fl.isPub)) = true ∧ (∀ ty, Render.ImplK.fromInner ty ∉ it.impls) ∧
    Render.ImplK.deserialize ∈ it.impls ∧ "::serde::Deserialize" ∉ Render.newtypeDerives tb (Render.isStrInner σ inner) true := by
  unfold Render.itemOf at h
  rw [hd] at h
  simp only [Option.some.injEq, Prod.mk.injEq] at h
  obtain ⟨rfl, _⟩ := h
  refine ⟨by simp [hc], ?_, ?_, Render.deser_not_mem_constrained⟩
  · intro ty hm
    cases c <;> simp [Render.isConstrained] at hc <;> simp [Render.strTryFroms] at hm
  · cases c <;> simp [Render.isConstrained] at hc <;> simp [Render.strTryFroms]

end TypifyModel.C05

import TypifyModel.Proofs.Lemmas.RoundTripMain
import TypifyModel.Proofs.Lemmas.SortedKv
import TypifyModel.Proofs.Lemmas.RoundTripFlat
import TypifyModel.Proofs.Lemmas.RoundTripEnum
/-! # C03 — round trip: the re-serialized value reads back as the same value (hence a fixed point)

`de_se_de`: for every IR σ, every set `S` of type ids closed under reference whose entries satisfy
the decidable side conditions `entryOkB` (Model/RoundTrip.lean), every type in `S`, every JSON
document v: if `de v = ok x` and `se x = ok w` then `de w = ok x`. Corollary `rt_fixed_point`:
the round trip of w is w — `roundtrip(w) = w` of the property. All three evaluations use the same
fuel (the fuel accounting of `se` mirrors `de`). The models are tied to the compiled generated code
by M3 (op `rt`); validity of w and containment of v in w are evaluated on the compiled code by the
implementation oracle of `./check C03` (no theorem yet: see MANIFEST level_note). -/
namespace TypifyModel.C03
open TypifyModel TypifyModel.Serde TypifyModel.RoundTrip

variable (x : Ext) (σ : Space) (S : List Id)

theorem closed_get (hS : closedOkB σ S = true) {t : Id} (ht : t ∈ S) {ent : Entry} (hg : σ.get t = some ent) :
    entryOkB σ ent = true ∧ ∀ c ∈ childrenOf ent.details, c ∈ S := by
  have := (List.all_eq_true.mp hS) t ht
  rw [hg] at this
  simp only [Bool.and_eq_true] at this
  refine ⟨this.1, ?_⟩
  intro c hc
  have := (List.all_eq_true.mp this.2) c hc
  simpa using this

def Art (f : Nat) : Prop := ∀ t ∈ S, RTat x σ f t

def Srt (f : Nat) : Prop :=
  ∀ (ps : List Field) (deny : Bool) (v : Json) (fs : List (String × Val)) (es : List (String × Json)),
    (∀ p ∈ ps, p.ty ∈ S) → (fieldsOkB σ ps || fieldsOkFlatB σ ps) = true →
    deStruct x σ f ps deny v = .ok (.struct fs) → seStruct σ f ps fs = .ok es →
    deStruct x σ f ps deny (.obj es) = .ok (.struct fs)

def detailsOk (d : VDetails) : Prop :=
  match d with
  | .struct ps => fieldsOkB σ ps = true
  | _ => True

def idsOfD (d : VDetails) : List Id :=
  match d with
  | .simple => []
  | .item t => [t]
  | .tuple ts => ts
  | .struct ps => fieldIds ps

def Vrt (f : Nat) : Prop :=
  ∀ (d : VDetails) (deny sq sq' : Bool) (v : Json) (p : Val) (w : Json),
    (∀ c ∈ idsOfD d, c ∈ S) → detailsOk σ d →
    deVariantBody x σ f d deny sq v = .ok p → seVariantBody σ f d p = .ok w →
    deVariantBody x σ f d deny sq' w = .ok p

theorem srt_step {f : Nat} (hA : Art x σ S f) : Srt x σ S (f + 1) := by
  intro ps deny v fs es hin hok h1 h2
  simp only [Bool.or_eq_true] at hok
  rcases hok with hok | hok
  · exact struct_rt x σ (fun p hp => hA p.ty (hin p hp)) hok h1 h2
  · exact struct_rt_flat x σ (fun p hp => hA p.ty (hin p hp)) hok h1 h2

theorem deStruct_shape {f : Nat} {ps : List Field} {deny : Bool} {v : Json} {p : Val}
    (h : deStruct x σ f ps deny v = .ok p) : ∃ fs, p = .struct fs := by
  cases f with
  | zero => simp [deStruct] at h
  | succ f =>
    simp only [deStruct] at h
    split at h
    · split at h
      · split at h
        · simp at h
        · split at h
          · simp at h
          · simp at h; exact ⟨_, h.symm⟩
      · simp at h
    · split at h
      · split at h
        · simp at h
        · split at h
          · simp at h; exact ⟨_, h.symm⟩
          · simp at h
      · split at h
        · simp at h
        · split at h
          · simp at h; exact ⟨_, h.symm⟩
          · simp at h
      · simp at h

theorem vrt_step {f : Nat} (hA : Art x σ S f) (hS : Srt x σ S f) : Vrt x σ S (f + 1) := by
  intro d deny sq sq' v p w hin hok h1 h2
  cases d with
  | simple =>
    simp only [deVariantBody] at h1
    cases v <;> simp at h1
    subst h1
    simp only [seVariantBody, Except.ok.injEq] at h2; subst h2
    simp [deVariantBody]
  | item t =>
    simp only [deVariantBody] at h1 ⊢
    simp only [seVariantBody] at h2
    exact hA t (hin t (by simp [idsOfD])) v p w h1 h2
  | tuple ts =>
    simp only [deVariantBody] at h1 ⊢
    cases v with
    | arr xs =>
      simp only at h1
      cases hz : zipM (de x σ f) ts xs with
      | error e => rw [hz] at h1; simp at h1
      | ok vs =>
        rw [hz] at h1
        simp only [Except.ok.injEq] at h1; subst h1
        simp only [seVariantBody] at h2
        cases hs : zipSe (se σ f) ts vs with
        | error e => rw [hs] at h2; simp at h2
        | ok js =>
          rw [hs] at h2
          simp only [Except.ok.injEq] at h2; subst h2
          simp only
          -- pointwise round trip for the member types
          have key : zipM (de x σ f) ts js = .ok vs :=
            zip_triple' hz hs (fun t ht a b c h1 h2 => hA t (hin t (by simpa [idsOfD] using ht)) a b c h1 h2)
          rw [key]
    | _ => simp at h1
  | struct ps =>
    simp only [deVariantBody] at h1
    have hds : deStruct x σ f ps deny v = .ok p := by
      split at h1
      · simp at h1
      · exact h1
    obtain ⟨fs, rfl⟩ := deStruct_shape x σ hds
    simp only [seVariantBody] at h2
    cases hs : seStruct σ f ps fs with
    | error e => rw [hs] at h2; simp at h2
    | ok es =>
      rw [hs] at h2
      simp only [Except.ok.injEq] at h2; subst h2
      have := hS ps deny v fs es (fun q hq => hin q.ty (by simp [idsOfD, fieldIds]; exact ⟨q, hq, rfl⟩))
        (by simp only [detailsOk] at hok; simp [hok]) hds hs
      simp only [deVariantBody]
      cases sq' <;> exact this

theorem art_step (hcl : closedOkB σ S = true) {f : Nat} (hA : Art x σ S f) (hS : Srt x σ S f)
    (hV : Vrt x σ S f) : Art x σ S (f + 1) := by
  intro t ht v xv w h1 h2
  cases hg : σ.get t with
  | none => simp [de, hg] at h1
  | some ent =>
    obtain ⟨hok, hch⟩ := closed_get σ S hcl ht hg
    obtain ⟨det, ed, im⟩ := ent
    simp only [de, hg] at h1 ⊢
    simp only [se, hg] at h2
    cases det with
    | unit =>
      cases v <;> simp at h1; subst h1
      simp at h2; subst h2; simp
    | boolean =>
      cases v <;> simp at h1; subst h1
      simp at h2; subst h2; simp
    | string =>
      cases v <;> simp at h1; subst h1
      simp at h2; subst h2; simp
    | jsonValue =>
      simp at h1; subst h1
      simp at h2; subst h2; simp
    | float n =>
      cases v <;> simp at h1 <;> (subst h1; simp at h2; subst h2; simp)
    | integer n =>
      simp only at h1 ⊢
      split at h1
      · simp at h1
      · rename_i ty hty
        cases v with
        | int k =>
          simp only at h1
          by_cases hr : ty.lo ≤ k ∧ k ≤ ty.hi
          · rw [if_pos hr] at h1
            simp only [Except.ok.injEq] at h1; subst h1
            simp at h2; subst h2
            simp [hr]
          · rw [if_neg hr] at h1; simp at h1
        | _ => simp at h1
    | native n ps => simp at h1
    | reference t' => simp at h1
    | box t' =>
      simp only at h1 h2 ⊢
      exact hA t' (hch t' (by simp [childrenOf])) v xv w h1 h2
    | option t' =>
      have hrt := hA t' (hch t' (by simp [childrenOf]))
      by_cases hopt : ∃ t'' ed' im', σ.get t' = some ⟨.option t'', ed', im'⟩
      · -- nested Option: flattened when rendered
        obtain ⟨t'', ed', im', hg'⟩ := hopt
        simp only [hg'] at h1 h2 ⊢
        -- `se` succeeded, so there is fuel, and `null` reads as `None` at the inner type
        have hnull : ∀ r, de x σ f t' .null = .ok r → r = .none := by
          intro r hr
          cases f with
          | zero => simp [de] at hr
          | succ f' => simp [de, hg'] at hr; exact hr.symm
        have hfuel : de x σ f t' .null = .ok .none := by
          cases f with
          | zero => simp [se] at h2
          | succ f' => simp [de, hg']
        by_cases hv : v = .null
        · subst hv
          simp only [Except.ok.injEq] at h1; subst h1
          have hback := hrt .null .none w hfuel h2
          cases w <;> first | rfl | exact hback
        · have hde : de x σ f t' v = .ok xv := by cases v <;> simp_all
          have hback := hrt v xv w hde h2
          by_cases hw : w = .null
          · subst hw
            rw [hnull xv hback]
          · cases w <;> first | exact absurd rfl hw | exact hback
      · -- the inner type never serialises to `null`
        simp only at h1 h2 ⊢
        have hnn : nonNullB σ (σ.entries.length + 1) t' = true := by
          simp only [entryOkB] at hok
          split at hok
          · rename_i t'' ed' im' hc; exact absurd ⟨t'', ed', im', hc⟩ hopt
          · exact hok
        by_cases hv : v = .null
        · subst hv
          simp only [Except.ok.injEq] at h1; subst h1
          split at h2
          · rename_i t'' ed' im' hc; exact absurd ⟨t'', ed', im', hc⟩ hopt
          · simp only [Except.ok.injEq] at h2; subst h2
            rfl
        · have h1' : (match de x σ f t' v with
              | .ok a => (.ok (.some a) : Except E Val)
              | .error e => .error e) = .ok xv := by
            cases v <;> first
              | exact absurd rfl hv
              | (simp only at h1
                 split at h1
                 · rename_i t'' ed' im' hc; exact absurd ⟨t'', ed', im', hc⟩ hopt
                 · exact h1)
          cases hd : de x σ f t' v with
          | error e => rw [hd] at h1'; simp at h1'
          | ok a =>
            rw [hd] at h1'; simp only [Except.ok.injEq] at h1'; subst h1'
            split at h2
            · rename_i t'' ed' im' hc; exact absurd ⟨t'', ed', im', hc⟩ hopt
            · simp only at h2
              have hwn : w ≠ .null := se_nonnull σ _ t' hnn f a w h2
              have hback := hrt v a w hd h2
              cases w <;> first
                | exact absurd rfl hwn
                | (simp only [hback]; done)
                | (simp only [hback]
                   split
                   · rename_i t'' ed' im' hc; exact absurd ⟨t'', ed', im', hc⟩ hopt
                   · rfl)
    | vec t' =>
      have hrt := hA t' (hch t' (by simp [childrenOf]))
      cases v with
      | arr xs =>
        simp only at h1
        cases hm : mapM' (de x σ f t') xs with
        | error e => rw [hm] at h1; simp at h1
        | ok vs =>
          rw [hm] at h1; simp only [Except.ok.injEq] at h1; subst h1
          simp only at h2
          cases hs : mapM' (se σ f t') vs with
          | error e => rw [hs] at h2; simp at h2
          | ok js =>
            rw [hs] at h2; simp only [Except.ok.injEq] at h2; subst h2
            simp only
            rw [mapM'_triple hm hs (fun a b c h1 h2 => hrt a b c h1 h2)]
      | _ => simp at h1
    | set t' =>
      have hrt := hA t' (hch t' (by simp [childrenOf]))
      cases v with
      | arr xs =>
        simp only at h1
        cases hm : mapM' (de x σ f t') xs with
        | error e => rw [hm] at h1; simp at h1
        | ok vs =>
          rw [hm] at h1; simp only [Except.ok.injEq] at h1; subst h1
          simp only at h2
          cases hs : mapM' (se σ f t') vs with
          | error e => rw [hs] at h2; simp at h2
          | ok js =>
            rw [hs] at h2; simp only [Except.ok.injEq] at h2; subst h2
            simp only
            rw [mapM'_triple hm hs (fun a b c h1 h2 => hrt a b c h1 h2)]
      | _ => simp at h1
    | array t' n =>
      have hrt := hA t' (hch t' (by simp [childrenOf]))
      cases v with
      | arr xs =>
        simp only at h1
        by_cases hl : xs.length = n
        · rw [if_pos hl] at h1
          cases hm : mapM' (de x σ f t') xs with
          | error e => rw [hm] at h1; simp at h1
          | ok vs =>
            rw [hm] at h1; simp only [Except.ok.injEq] at h1; subst h1
            simp only at h2
            cases hs : mapM' (se σ f t') vs with
            | error e => rw [hs] at h2; simp at h2
            | ok js =>
              rw [hs] at h2; simp only [Except.ok.injEq] at h2; subst h2
              simp only
              have hlen : js.length = n := by
                rw [mapM'_length hs, mapM'_length hm, hl]
              rw [if_pos hlen, mapM'_triple hm hs (fun a b c h1 h2 => hrt a b c h1 h2)]
        · rw [if_neg hl] at h1; simp at h1
      | _ => simp at h1
    | tuple ts =>
      cases v with
      | arr xs =>
        simp only at h1
        cases hm : zipM (de x σ f) ts xs with
        | error e => rw [hm] at h1; simp at h1
        | ok vs =>
          rw [hm] at h1; simp only [Except.ok.injEq] at h1; subst h1
          simp only at h2
          cases hs : zipSe (se σ f) ts vs with
          | error e => rw [hs] at h2; simp at h2
          | ok js =>
            rw [hs] at h2; simp only [Except.ok.injEq] at h2; subst h2
            simp only
            rw [zip_triple' hm hs (fun t0 ht0 a b c h1 h2 => hA t0 (hch t0 (by simpa [childrenOf] using ht0)) a b c h1 h2)]
      | _ => simp at h1
    | map k vt =>
      have hrt := hA vt (hch vt (by simp [childrenOf]))
      have hk : ∃ ed' im', σ.get k = some ⟨.string, ed', im'⟩ := by
        simp only [entryOkB] at hok
        split at hok
        · rename_i ed' im' hc; exact ⟨ed', im', hc⟩
        · simp at hok
      obtain ⟨ed', im', hgk⟩ := hk
      cases v with
      | obj kvs =>
        simp only at h1
        split at h1
        · rename_i es hm
          simp only [Except.ok.injEq] at h1; subst h1
          simp only at h2
          split at h2
          · rename_i es' hs
            simp only [Except.ok.injEq] at h2; subst h2
            simp only
            -- every value of the map is a `de`-image
            have himg : ∀ e ∈ es, ∃ j0, de x σ f vt j0 = .ok e.2 := by
              clear hs
              induction kvs generalizing es with
              | nil => simp only [mapM', Except.ok.injEq] at hm; subst hm; intro e he; simp at he
              | cons a r ih =>
                simp only [mapM'] at hm
                split at hm
                · simp at hm
                · rename_i b hb
                  split at hm
                  · simp at hm
                  · rename_i bs hbs
                    simp only [Except.ok.injEq] at hm; subst hm
                    intro e he
                    simp only [List.mem_cons] at he
                    rcases he with rfl | he
                    · split at hb <;> simp at hb
                      · rename_i b0 _ hvb; rw [← hb]; exact ⟨_, hvb⟩
                      · rename_i b0 _ hvb; rw [← hb]; exact ⟨_, hvb⟩
                    · exact ih _ hbs e he
            generalize hmm : es.foldl (fun acc e => insertKv e.1 e.2 acc) [] = m at hs ⊢
            have hsorted : SortedKv m := by rw [← hmm]; exact foldl_insertKv_sorted es [] List.Pairwise.nil
            have himg' : ∀ e ∈ m, ∃ j0, de x σ f vt j0 = .ok e.2 := by
              intro e he
              rw [← hmm] at he
              rcases foldl_insertKv_mem es [] e he with h' | h'
              · exact himg e h'
              · simp at h'
            -- reading the serialised members back gives `m` (step functions abstracted by their specs)
            have hback : ∀ (F : String × Json → Except E (String × Val)) (G : String × Val → Except E (String × Json)),
                (∀ k0 j b, de x σ f vt j = .ok b → 0 < f → F (k0, j) = .ok (k0, b)) →
                (∀ kv r, G kv = .ok r → ∃ j, se σ f vt kv.2 = .ok j ∧ r = (kv.1, j)) →
                ∀ (m : List (String × Val)) (es' : List (String × Json)),
                mapM' G m = .ok es' → (∀ e ∈ m, ∃ j0, de x σ f vt j0 = .ok e.2) → mapM' F es' = .ok m := by
              intro F G hF hG m
              induction m with
              | nil => intro es' h _; simp only [mapM', Except.ok.injEq] at h; subst h; rfl
              | cons a r ih =>
                intro es' h himg
                simp only [mapM'] at h
                split at h
                · simp at h
                · rename_i b hb
                  split at h
                  · simp at h
                  · rename_i bs hbs
                    simp only [Except.ok.injEq] at h; subst h
                    obtain ⟨j, hj, rfl⟩ := hG a b hb
                    obtain ⟨j0, hj0⟩ := himg a (by simp)
                    have hv := hrt j0 a.2 j hj0 hj
                    have hpos : 0 < f := by
                      cases f with
                      | zero => simp [se] at hj
                      | succ f' => omega
                    simp only [mapM', hF a.1 j a.2 hv hpos]
                    rw [ih bs hbs (fun e he => himg e (by simp [he]))]
            rw [hback _ _ ?_ ?_ m es' hs himg']
            · simp only
              have := foldl_insertKv_id m [] (by simpa using hsorted)
              simp only [List.nil_append] at this
              rw [this]
            · intro k0 j b hb hpos
              have hkey : de x σ f k (.str k0) = .ok (.str k0) := by
                cases f with
                | zero => omega
                | succ f' => simp [de, hgk]
              simp only [hkey, hb]
            · intro kv r hr
              split at hr
              · rename_i j hj
                simp only [Except.ok.injEq] at hr
                exact ⟨j, hj, hr.symm⟩
              · simp at hr
          · simp at h2
        · simp at h1
      | _ => simp at h1
    | newtype n inner c d =>
      have hrt := hA inner (hch inner (by simp [childrenOf]))
      simp only at h1 h2 ⊢
      cases hd : de x σ f inner v with
      | error e => rw [hd] at h1; simp at h1
      | ok v' =>
        rw [hd] at h1
        simp only at h1
        cases c with
        | none =>
          simp only [Except.ok.injEq] at h1; subst h1
          rw [hrt v v' w hd h2]
        | string mx mn pat =>
          simp only at h1
          cases v' with
          | str s0 =>
            simp only at h1
            by_cases hc : checkString x mx mn pat s0 = true
            · rw [if_pos hc] at h1
              simp only [Except.ok.injEq] at h1; subst h1
              rw [hrt v _ w hd h2]
              simp only [hc, if_true]
            · rw [if_neg hc] at h1; simp at h1
          | _ => simp at h1
        | enumValues vals =>
          simp only at h1
          cases hm : mapM' (de x σ f inner) vals with
          | error e => rw [hm] at h1; cases e <;> simp at h1
          | ok cs =>
            rw [hm] at h1
            simp only at h1
            by_cases hc : cs.any (· == v') = true
            · rw [if_pos hc] at h1
              simp only [Except.ok.injEq] at h1; subst h1
              rw [hrt v _ w hd h2]
              simp only [hm, hc, if_true]
            · rw [if_neg hc] at h1; simp at h1
        | denyValues vals =>
          simp only at h1
          cases hm : mapM' (de x σ f inner) vals with
          | error e => rw [hm] at h1; cases e <;> simp at h1
          | ok cs =>
            rw [hm] at h1
            simp only at h1
            by_cases hc : cs.any (· == v') = true
            · rw [if_pos hc] at h1; simp at h1
            · rw [if_neg hc] at h1
              simp only [Except.ok.injEq] at h1; subst h1
              rw [hrt v _ w hd h2]
              simp only [hm]
              rw [if_neg hc]
    | struct n ps deny d =>
      simp only at h1 h2 ⊢
      obtain ⟨fs, rfl⟩ := deStruct_shape x σ h1
      simp only at h2
      cases hs : seStruct σ f ps fs with
      | error e => rw [hs] at h2; simp at h2
      | ok es =>
        rw [hs] at h2
        simp only [Except.ok.injEq] at h2; subst h2
        exact hS ps deny v fs es (fun q hq => hch q.ty (by simp [childrenOf, fieldIds]; exact ⟨q, hq, rfl⟩))
          (by simpa [entryOkB] using hok) h1 hs
    | enum n tag vs deny d bes =>
      simp only [entryOkB, Bool.and_eq_true] at hok
      obtain ⟨⟨hnd, htag⟩, hvs⟩ := hok
      have hvok : ∀ (i : Nat) (vr : Variant), vs[i]? = some vr →
          variantOkB σ tag vr = true ∧ (∀ c ∈ idsOfD vr.details, c ∈ S) := by
        intro i vr hi
        have hm := List.mem_of_getElem? hi
        refine ⟨(List.all_eq_true.mp hvs) vr hm, ?_⟩
        intro c hc
        apply hch c
        simp only [childrenOf, List.mem_flatten, List.mem_map]
        refine ⟨variantIds vr, ⟨vr, hm, rfl⟩, ?_⟩
        cases hd : vr.details <;> simp [idsOfD, variantIds, hd] at hc ⊢ <;> exact hc
      have hdok : ∀ (i : Nat) (vr : Variant), vs[i]? = some vr → detailsOk σ vr.details := by
        intro i vr hi
        have := (hvok i vr hi).1
        unfold variantOkB at this
        unfold detailsOk
        cases hd : vr.details with
        | struct ps => rw [hd] at this; simp only [Bool.and_eq_true] at this; exact this.1
        | _ => trivial
      cases tag with
      | untagged => simp at htag
      | external =>
        simp only at h1 h2 ⊢
        cases v with
        | str s0 =>
          simp only at h1
          cases hfi : vs.findIdx? (fun v => v.wire == s0) with
          | none => rw [hfi] at h1; simp at h1
          | some i =>
            rw [hfi] at h1
            obtain ⟨vr, hvi, hw⟩ := findIdx_get hfi
            simp only [hvi] at h1
            obtain ⟨raw, ident, det'⟩ := vr
            cases det' <;> simp at h1
            subst h1
            simp only [hvi] at h2
            simp only [Except.ok.injEq] at h2; subst h2
            simp only
            rw [findIdx_nodup hnd hvi]
            simp only [hvi]
        | obj kvs =>
          cases kvs with
          | nil => simp at h1
          | cons kv rest =>
            obtain ⟨k0, body⟩ := kv
            simp only at h1
            by_cases hr : rest.all (fun kv => kv.1 == k0) = true
            · simp only [hr, Bool.not_true, Bool.false_eq_true, if_false] at h1
              cases hfi : vs.findIdx? (fun v => v.wire == k0) with
              | none => rw [hfi] at h1; simp at h1
              | some i =>
                rw [hfi] at h1
                obtain ⟨vr, hvi, hw⟩ := findIdx_get hfi
                simp only [hvi] at h1
                cases hb : deVariantBody x σ f vr.details deny true body with
                | error e => rw [hb] at h1; simp at h1
                | ok p =>
                  rw [hb] at h1
                  simp only [Except.ok.injEq] at h1; subst h1
                  simp only [hvi] at h2
                  obtain ⟨hvo, hin⟩ := hvok i vr hvi
                  have hdo := hdok i vr hvi
                  by_cases hsimple : vr.details = .simple
                  · -- `{"V": null}` for a data-less variant: written back as the string
                    rw [hsimple] at h2 hb
                    simp only [Except.ok.injEq] at h2; subst h2
                    have hp : p = .unit := by
                      cases f with
                      | zero => simp [deVariantBody] at hb
                      | succ f' =>
                        simp only [deVariantBody] at hb
                        cases body <;> simp at hb
                        exact hb.symm
                    subst hp
                    simp only
                    rw [findIdx_nodup hnd hvi]
                    simp only [hvi]
                    obtain ⟨raw, ident, det'⟩ := vr
                    simp only at hsimple; subst hsimple
                    rfl
                  · have h2' : (match seVariantBody σ f vr.details p with
                        | .ok b => (.ok (.obj [(vr.wire, b)]) : Except E Json)
                        | .error e => .error e) = .ok w := by
                      cases hd : vr.details <;> first | exact absurd hd hsimple | (rw [hd] at h2; exact h2)
                    cases hsb : seVariantBody σ f vr.details p with
                    | error e => rw [hsb] at h2'; simp at h2'
                    | ok b =>
                      rw [hsb] at h2'
                      simp only [Except.ok.injEq] at h2'; subst h2'
                      simp only [List.all_nil, Bool.not_true, Bool.false_eq_true, if_false]
                      rw [findIdx_nodup hnd hvi]
                      simp only [hvi]
                      rw [hV vr.details deny true true body p b hin hdo hb hsb]
            · simp only [hr, Bool.not_false, if_true] at h1; simp at h1
        | _ => simp at h1
      | internal tg =>
        simp only at h1 h2 ⊢
        cases v with
        | obj kvs =>
          simp only at h1
          cases hl : Json.lookup kvs tg with
          | none => rw [hl] at h1; simp at h1
          | some jt =>
            rw [hl] at h1
            cases jt with
            | str s0 =>
              simp only at h1
              cases hfi : vs.findIdx? (fun v => v.wire == s0) with
              | none => rw [hfi] at h1; simp at h1
              | some i =>
                rw [hfi] at h1
                obtain ⟨vr, hvi, hw⟩ := findIdx_get hfi
                simp only [hvi] at h1
                obtain ⟨hvo, hin⟩ := hvok i vr hvi
                have hdo := hdok i vr hvi
                obtain ⟨raw, ident, det'⟩ := vr
                cases det' with
                | simple =>
                  simp only [Except.ok.injEq] at h1; subst h1
                  simp only [hvi] at h2
                  simp only [Except.ok.injEq] at h2; subst h2
                  simp only [Json.lookup, if_true]
                  rw [findIdx_nodup hnd hvi]
                  simp only [hvi]
                | struct ps =>
                  simp only at h1
                  cases hds : deStruct x σ f ps deny (.obj (Json.erase kvs tg)) with
                  | error e => rw [hds] at h1; simp at h1
                  | ok p =>
                    rw [hds] at h1
                    simp only [Except.ok.injEq] at h1; subst h1
                    obtain ⟨fs, rfl⟩ := deStruct_shape x σ hds
                    simp only [hvi] at h2
                    cases hs : seStruct σ f ps fs with
                    | error e => rw [hs] at h2; simp at h2
                    | ok es =>
                      rw [hs] at h2
                      simp only [Except.ok.injEq] at h2; subst h2
                      simp only [Json.lookup, if_true]
                      rw [findIdx_nodup hnd hvi]
                      simp only [hvi]
                      -- the tag is not among the members, so erasing it gives the members back
                      have hkeys : ∀ kv ∈ es, kv.1 ≠ tg := by
                        intro kv hkv
                        simp only [variantOkB, Bool.and_eq_true] at hvo
                        obtain ⟨q, hq, hqw⟩ := seStruct_keys (fieldsOk_unpack σ hvo.1).1 hs kv hkv
                        have := (List.all_eq_true.mp hvo.2) q hq
                        rw [← hqw]; simpa using this
                      have herase : Json.erase ((tg, Json.str (Variant.wire ⟨raw, ident, .struct ps⟩)) :: es) tg = es := by
                        simp only [Json.erase, List.filter, ne_eq, not_true_eq_false, decide_false]
                        exact erase_id hkeys
                      rw [herase]
                      rw [hS ps deny _ fs es (fun q hq => hin q.ty (by simp [idsOfD, fieldIds]; exact ⟨q, hq, rfl⟩))
                        (by have h' : fieldsOkB σ ps = true := hdo
                            simp [h']) hds hs]
                | item t' => simp [variantOkB] at hvo
                | tuple ts => simp [variantOkB] at hvo
            | _ => simp at h1
        | arr xs => simp at h1
        | _ => simp at h1
      | adjacent tg ct =>
        have htc : tg ≠ ct := by simpa using htag
        simp only at h1 h2 ⊢
        cases v with
        | obj kvs =>
          simp only at h1
          split at h1
          · simp at h1
          · cases hl : Json.lookup kvs tg with
            | none => rw [hl] at h1; simp at h1
            | some jt =>
              rw [hl] at h1
              cases jt with
              | str s0 =>
                simp only at h1
                cases hfi : vs.findIdx? (fun v => v.wire == s0) with
                | none => rw [hfi] at h1; simp at h1
                | some i =>
                  rw [hfi] at h1
                  obtain ⟨vr, hvi, hw⟩ := findIdx_get hfi
                  simp only [hvi] at h1
                  obtain ⟨hvo, hin⟩ := hvok i vr hvi
                  have hdo := hdok i vr hvi
                  -- facts about the two-member (or one-member) object that is written
                  have hct : ct ≠ tg := fun h => htc h.symm
                  obtain ⟨raw, ident, det'⟩ := vr
                  cases det' with
                  | simple =>
                    have hxv : xv = .variant i .unit := by
                      cases hlc : Json.lookup kvs ct with
                      | none => rw [hlc] at h1; simp at h1; exact h1.symm
                      | some jc =>
                        rw [hlc] at h1
                        cases jc <;> simp at h1
                        exact h1.symm
                    subst hxv
                    simp only [hvi] at h2
                    simp only [Except.ok.injEq] at h2; subst h2
                    have hden : (deny && [(tg, Json.str (Variant.wire ⟨raw, ident, .simple⟩))].any
                        (fun kv => kv.1 ≠ tg && kv.1 ≠ ct)) = false := by simp
                    simp only [hden, Bool.false_eq_true, if_false, Json.lookup, if_true, hct.symm]
                    rw [findIdx_nodup hnd hvi]
                    simp only [hvi, htc, if_false]
                  | item t' =>
                    cases hlc : Json.lookup kvs ct with
                    | none =>
                      rw [hlc] at h1
                      simp only [variantOkB, Bool.not_eq_true'] at hvo
                      simp [hvo] at h1
                    | some body =>
                      rw [hlc] at h1
                      simp only at h1
                      cases hb : deVariantBody x σ f (.item t') deny false body with
                      | error e => rw [hb] at h1; simp at h1
                      | ok p =>
                        rw [hb] at h1
                        simp only [Except.ok.injEq] at h1; subst h1
                        simp only [hvi] at h2
                        cases hsb : seVariantBody σ f (.item t') p with
                        | error e => rw [hsb] at h2; simp at h2
                        | ok b =>
                          rw [hsb] at h2
                          simp only [Except.ok.injEq] at h2; subst h2
                          have hden : (deny && [(tg, Json.str (Variant.wire ⟨raw, ident, .item t'⟩)), (ct, b)].any
                              (fun kv => kv.1 ≠ tg && kv.1 ≠ ct)) = false := by simp
                          simp only [hden, Bool.false_eq_true, if_false, Json.lookup, if_true, hct, htc]
                          rw [findIdx_nodup hnd hvi]
                          simp only [hvi]
                          rw [hV (.item t') deny false false body p b hin hdo hb hsb]
                  | tuple ts =>
                    cases hlc : Json.lookup kvs ct with
                    | none => rw [hlc] at h1; simp at h1
                    | some body =>
                      rw [hlc] at h1
                      simp only at h1
                      cases hb : deVariantBody x σ f (.tuple ts) deny false body with
                      | error e => rw [hb] at h1; simp at h1
                      | ok p =>
                        rw [hb] at h1
                        simp only [Except.ok.injEq] at h1; subst h1
                        simp only [hvi] at h2
                        cases hsb : seVariantBody σ f (.tuple ts) p with
                        | error e => rw [hsb] at h2; simp at h2
                        | ok b =>
                          rw [hsb] at h2
                          simp only [Except.ok.injEq] at h2; subst h2
                          have hden : (deny && [(tg, Json.str (Variant.wire ⟨raw, ident, .tuple ts⟩)), (ct, b)].any
                              (fun kv => kv.1 ≠ tg && kv.1 ≠ ct)) = false := by simp
                          simp only [hden, Bool.false_eq_true, if_false, Json.lookup, if_true, hct, htc]
                          rw [findIdx_nodup hnd hvi]
                          simp only [hvi]
                          rw [hV (.tuple ts) deny false false body p b hin hdo hb hsb]
                  | struct ps =>
                    cases hlc : Json.lookup kvs ct with
                    | none => rw [hlc] at h1; simp at h1
                    | some body =>
                      rw [hlc] at h1
                      simp only at h1
                      cases hb : deVariantBody x σ f (.struct ps) deny false body with
                      | error e => rw [hb] at h1; simp at h1
                      | ok p =>
                        rw [hb] at h1
                        simp only [Except.ok.injEq] at h1; subst h1
                        simp only [hvi] at h2
                        cases hsb : seVariantBody σ f (.struct ps) p with
                        | error e => rw [hsb] at h2; simp at h2
                        | ok b =>
                          rw [hsb] at h2
                          simp only [Except.ok.injEq] at h2; subst h2
                          have hden : (deny && [(tg, Json.str (Variant.wire ⟨raw, ident, .struct ps⟩)), (ct, b)].any
                              (fun kv => kv.1 ≠ tg && kv.1 ≠ ct)) = false := by simp
                          simp only [hden, Bool.false_eq_true, if_false, Json.lookup, if_true, hct, htc]
                          rw [findIdx_nodup hnd hvi]
                          simp only [hvi]
                          rw [hV (.struct ps) deny false false body p b hin hdo hb hsb]
              | _ => simp at h1
        | arr xs => simp at h1
        | _ => simp at h1

/-- **C03 (model level): what was written reads back as the same value** — for every type of a
    reference-closed set of well-formed entries, every document and every fuel. -/
theorem de_se_de (hcl : closedOkB σ S = true) :
    ∀ (f : Nat), Art x σ S f ∧ Srt x σ S f ∧ Vrt x σ S f := by
  intro f
  induction f with
  | zero =>
    refine ⟨?_, ?_, ?_⟩
    · intro t _ v xv w h1; simp [de] at h1
    · intro ps deny v fs es _ _ h1; simp [deStruct] at h1
    · intro d deny sq sq' v p w _ _ h1; simp [deVariantBody] at h1
  | succ f ih =>
    obtain ⟨hA, hS, hV⟩ := ih
    exact ⟨art_step x σ S hcl hA hS hV, srt_step x σ S hA, vrt_step x σ S hA hS⟩

/-- the statement for one type -/
theorem roundtrip_value (hcl : closedOkB σ S = true) {t : Id} (ht : t ∈ S) (f : Nat) (v : Json) (xv : Val) (w : Json)
    (h1 : de x σ f t v = .ok xv) (h2 : se σ f t xv = .ok w) : de x σ f t w = .ok xv :=
  (de_se_de x σ S hcl f).1 t ht v xv w h1 h2

/-- **C03: the round-tripped document is a fixed point of a further round trip**:
    `w = to_value(from_value(v))` ⇒ `to_value(from_value(w)) = w`. -/
theorem rt_fixed_point (hcl : closedOkB σ S = true) {t : Id} (ht : t ∈ S) (f : Nat) (v : Json) (xv : Val) (w : Json)
    (h1 : de x σ f t v = .ok xv) (h2 : se σ f t xv = .ok w) :
    ∃ xv', de x σ f t w = .ok xv' ∧ se σ f t xv' = .ok w :=
  ⟨xv, roundtrip_value x σ S hcl ht f v xv w h1 h2, h2⟩

/-! non-vacuity: a closed struct with an optional (skipped) member, a nullable-free option, a map and
    an adjacently tagged enum -/
def exSpace : Space := { entries := [
  (1, ⟨.struct "R" [⟨"a", .none, .required, 2⟩, ⟨"o", .rename "O-o", .optional, 3⟩, ⟨"m", .none, .optional, 4⟩, ⟨"e", .none, .required, 6⟩] true none, [], []⟩),
  (2, ⟨.string, [], []⟩),
  (3, ⟨.option 5, [], []⟩),
  (4, ⟨.map 2 5, [], []⟩),
  (5, ⟨.integer "i64", [], []⟩),
  (6, ⟨.enum "E" (.adjacent "t" "c") [⟨"u", "U", .simple⟩, ⟨"s", "S", .struct [⟨"p", .none, .required, 5⟩]⟩] false none [], [], []⟩)] }

example : closedOkB exSpace [1, 2, 3, 4, 5, 6] = true := by decide
example : de ⟨fun _ _ => true⟩ exSpace 9 1
    (.obj [("a", .str "x"), ("e", .obj [("c", .obj [("p", .int 3)]), ("t", .str "s")]), ("m", .obj [("k", .int 1)])]) =
    .ok (.struct [("a", .str "x"), ("o", .none), ("m", .map [("k", .int 1)]), ("e", .variant 1 (.struct [("p", .int 3)]))]) := by
  rfl
example : se exSpace 9 1 (.struct [("a", .str "x"), ("o", .none), ("m", .map [("k", .int 1)]), ("e", .variant 1 (.struct [("p", .int 3)]))]) =
    .ok (.obj [("a", .str "x"), ("m", .obj [("k", .int 1)]), ("e", .obj [("t", .str "s"), ("c", .obj [("p", .int 3)])])]) := by
  rfl

end TypifyModel.C03

import TypifyModel.Model.Dispatch
namespace TypifyModel.Dispatch
open TypifyModel TypifyModel.Excl

def isMulti : Ty → Bool
  | .multi _ => true
  | _ => false

/-- what a rewriting arm may still do: drop `const` once, replace a type LIST once -/
def rewritesLeft (kvs : Kvs) : Nat :=
  (if has kvs "const" then 1 else 0) + (if isMulti (tyOf kvs) then 1 else 0)

theorem armsTyped_done (kvs : Kvs) (sg : JT → Bool) (u o : Bool) (k' : Kvs) : armsTyped kvs sg u o ≠ some (.again k') := by
  intro h
  simp only [armsTyped, Option.map_eq_some_iff] at h
  obtain ⟨_, _, h⟩ := h
  cases h

theorem armNullable_again (kvs : Kvs) (ts : List JT) (k' : Kvs) (h : armNullable kvs ts = some (.again k')) :
    k' = setType kvs (some (.str (jtName .null))) := by
  simp only [armNullable] at h
  repeat' (first | (cases h; done) | split at h)
  cases h; rfl

theorem armsRewrite_again (kvs : Kvs) (ty : Ty) (k' : Kvs) (h : armsRewrite kvs ty = .again k') :
    (has kvs "const" = true ∧ k' = kvs.filter (fun kv => kv.1 != "const")) ∨
    (isMulti ty = true ∧ ∃ t, k' = setType kvs t ∧ (t = none ∨ ∃ jt, t = some (.str (jtName jt)))) := by
  simp only [armsRewrite] at h
  repeat' (first | (cases h; done) | split at h)
  · cases h; exact Or.inl ⟨by assumption, rfl⟩
  · cases h; exact Or.inr ⟨rfl, none, rfl, Or.inl rfl⟩
  · cases h; exact Or.inr ⟨rfl, _, rfl, Or.inr ⟨_, rfl⟩⟩

theorem step_again (kvs k' : Kvs) (h : step kvs = .again k') :
    (has kvs "const" = true ∧ k' = kvs.filter (fun kv => kv.1 != "const")) ∨
    (isMulti (tyOf kvs) = true ∧ ∃ t, k' = setType kvs t ∧ (t = none ∨ ∃ jt, t = some (.str (jtName jt)))) := by
  simp only [step] at h
  split at h
  · cases h
  · split at h
    · rename_i s hs
      subst h
      split at hs
      · rename_i ts hty
        exact Or.inr ⟨by rw [hty]; rfl, _, armNullable_again _ _ _ hs, Or.inr ⟨_, rfl⟩⟩
      · cases hs
    · split at h
      · rename_i s hs
        subst h
        exact absurd hs (armsTyped_done _ _ _ _ _)
      · exact armsRewrite_again _ _ _ h

/-! ### what the rewrites leave behind -/

theorem lookup_filter_ne (kvs : Kvs) (d k : String) (hne : k ≠ d) :
    Json.lookup (kvs.filter (fun kv => kv.1 != d)) k = Json.lookup kvs k := by
  induction kvs with
  | nil => rfl
  | cons kv r ih =>
    obtain ⟨k0, v0⟩ := kv
    by_cases hk : k0 = d
    · subst hk
      have h1 : k0 ≠ k := fun e => hne e.symm
      rw [List.filter_cons_of_neg (by simp)]
      simp [Json.lookup, h1, ih]
    · rw [List.filter_cons_of_pos (by simpa using hk)]
      by_cases hk2 : k0 = k
      · simp [Json.lookup, hk2]
      · simp [Json.lookup, hk2, ih]

theorem lookup_filter_self (kvs : Kvs) (d : String) :
    Json.lookup (kvs.filter (fun kv => kv.1 != d)) d = none := by
  induction kvs with
  | nil => rfl
  | cons kv r ih =>
    obtain ⟨k0, v0⟩ := kv
    by_cases hk : k0 = d
    · rw [List.filter_cons_of_neg (by simp [hk])]; exact ih
    · rw [List.filter_cons_of_pos (by simpa using hk)]
      simp [Json.lookup, hk, ih]

theorem lookup_setType_ne (kvs : Kvs) (t : Option Json) (k : String) (hne : k ≠ "type") :
    Json.lookup (setType kvs t) k = Json.lookup kvs k := by
  cases t with
  | none => exact lookup_filter_ne kvs "type" k hne
  | some j =>
    have : "type" ≠ k := fun e => hne e.symm
    simp [setType, Json.lookup, this, lookup_filter_ne kvs "type" k hne]

theorem lookup_setType_type (kvs : Kvs) (t : Option Json) : Json.lookup (setType kvs t) "type" = t := by
  cases t with
  | none => exact lookup_filter_self kvs "type"
  | some j => simp [setType, Json.lookup]

theorem ofName_jtName (t : JT) : JT.ofName (jtName t) = some t := by cases t <;> rfl

theorem tyOf_filter_const (kvs : Kvs) : tyOf (kvs.filter (fun kv => kv.1 != "const")) = tyOf kvs := by
  simp only [tyOf, lookup_filter_ne kvs "const" "type" (by decide)]

theorem has_filter_const (kvs : Kvs) : has (kvs.filter (fun kv => kv.1 != "const")) "const" = false := by
  simp [has, lookup_filter_self]

theorem has_setType_const (kvs : Kvs) (t : Option Json) : has (setType kvs t) "const" = has kvs "const" := by
  simp [has, lookup_setType_ne kvs t "const" (by decide)]

theorem tyOf_setType_none (kvs : Kvs) : tyOf (setType kvs none) = .none := by
  simp [tyOf, lookup_setType_type]

theorem tyOf_setType_name (kvs : Kvs) (t : JT) : tyOf (setType kvs (some (.str (jtName t)))) = .single t := by
  simp [tyOf, lookup_setType_type, ofName_jtName]

/-- **every rewriting arm uses up one of the two possible rewrites** -/
theorem again_decreases (kvs k' : Kvs) (h : step kvs = .again k') : rewritesLeft k' < rewritesLeft kvs := by
  rcases step_again kvs k' h with ⟨hc, rfl⟩ | ⟨hm, t, rfl, ht⟩
  · simp [rewritesLeft, has_filter_const, tyOf_filter_const, hc]
  · rcases ht with rfl | ⟨jt, rfl⟩
    · have e : isMulti Ty.none = false := rfl
      simp [rewritesLeft, has_setType_const, tyOf_setType_none, hm, e]
    · have e : isMulti (Ty.single jt) = false := rfl
      simp [rewritesLeft, has_setType_const, tyOf_setType_name, hm, e]

theorem rewritesLeft_le_two (kvs : Kvs) : rewritesLeft kvs ≤ 2 := by
  unfold rewritesLeft; split <;> split <;> omega

/-- fuel beyond the rewrites left changes nothing -/
theorem resolve_fuel (f g : Nat) (kvs : Kvs) (hf : rewritesLeft kvs < f) (hg : rewritesLeft kvs < g) :
    resolve f (.obj kvs) = resolve g (.obj kvs) := by
  induction f generalizing g kvs with
  | zero => omega
  | succ f ih =>
    cases g with
    | zero => omega
    | succ g =>
      simp only [resolve]
      cases hs : step kvs with
      | done a => rfl
      | again k' =>
        have := again_decreases kvs k' hs
        exact ih g k' (by omega) (by omega)

/-- **the dispatch terminates**: whatever the schema object, `convert_schema_object` re-dispatches at most twice (once for a
    dropped `const`, once for a rewritten type list); three units of fuel decide every schema, and more fuel never changes
    the answer -/
theorem resolve_three_suffices (kvs : Kvs) (n : Nat) : resolve (3 + n) (.obj kvs) = resolve 3 (.obj kvs) :=
  resolve_fuel _ _ kvs (by have := rewritesLeft_le_two kvs; omega) (by have := rewritesLeft_le_two kvs; omega)

theorem soleArm_ne_malformed (kvs : Kvs) : soleArm kvs ≠ .malformed := by
  unfold soleArm; split <;> simp

theorem armsTyped_ne_malformed (kvs : Kvs) (sg : JT → Bool) (u o : Bool) : armsTyped kvs sg u o ≠ some (.done .malformed) := by
  intro ht
  simp only [armsTyped, Option.map_eq_some_iff] at ht
  obtain ⟨ga, hga, he⟩ := ht
  have hmem := List.mem_of_find?_eq_some hga
  injection he with he
  simp only [typedArms, typedArmsG, List.mem_cons, List.not_mem_nil, or_false] at hmem
  rcases hmem with rfl | rfl | rfl | rfl | rfl | rfl | rfl | rfl | rfl | rfl | rfl | rfl | rfl | rfl | rfl | rfl | rfl | rfl | rfl | rfl
    <;> first | (cases he; done) | exact soleArm_ne_malformed _ he

theorem armsRewrite_ne_malformed (kvs : Kvs) (ty : Ty) : armsRewrite kvs ty ≠ .done .malformed := by
  intro hs
  simp only [armsRewrite] at hs
  repeat' (first | (cases hs; done) | split at hs)

theorem armNullable_ne_malformed (kvs : Kvs) (ts : List JT) : armNullable kvs ts ≠ some (.done .malformed) := by
  intro hn
  simp only [armNullable] at hn
  repeat' (first | (cases hn; done) | split at hn)

theorem step_done_ne_malformed (kvs : Kvs) (h : tyOf kvs ≠ .bad) : step kvs ≠ .done .malformed := by
  intro hs
  cases hty : tyOf kvs with
  | bad => exact h hty
  | none =>
    simp only [step, hty] at hs
    split at hs
    · exact armsTyped_ne_malformed _ _ _ _ (by rename_i e; rw [e, hs])
    · exact armsRewrite_ne_malformed _ _ hs
  | single t =>
    simp only [step, hty] at hs
    split at hs
    · exact armsTyped_ne_malformed _ _ _ _ (by rename_i e; rw [e, hs])
    · exact armsRewrite_ne_malformed _ _ hs
  | multi ts =>
    simp only [step, hty] at hs
    split at hs
    · exact armNullable_ne_malformed _ _ (by rename_i e; rw [e, hs])
    · split at hs
      · exact armsTyped_ne_malformed _ _ _ _ (by rename_i e; rw [e, hs])
      · exact armsRewrite_ne_malformed _ _ hs

theorem tyOf_again_ne_bad (kvs k' : Kvs) (h : step kvs = .again k') (hb : tyOf kvs ≠ .bad) : tyOf k' ≠ .bad := by
  rcases step_again kvs k' h with ⟨_, rfl⟩ | ⟨_, t, rfl, ht⟩
  · rw [tyOf_filter_const]; exact hb
  · rcases ht with rfl | ⟨jt, rfl⟩
    · rw [tyOf_setType_none]; simp
    · rw [tyOf_setType_name]; simp

theorem resolve_ne_malformed (f : Nat) (kvs : Kvs) (hf : rewritesLeft kvs < f) (hb : tyOf kvs ≠ .bad) :
    resolve f (.obj kvs) ≠ .malformed := by
  induction f generalizing kvs with
  | zero => omega
  | succ f ih =>
    simp only [resolve]
    cases hs : step kvs with
    | done a =>
      intro e; subst e
      exact step_done_ne_malformed kvs hb hs
    | again k' =>
      have := again_decreases kvs k' hs
      exact ih k' (by omega) (tyOf_again_ne_bad kvs k' hs hb)

/-- ... so the out-of-fuel answer of the model (`malformed`) is never given for lack of fuel: with three units a schema object
    whose `type` schemars can read ends in an arm of the source -/
theorem resolve_total (kvs : Kvs) (h : tyOf kvs ≠ .bad) : resolve 3 (.obj kvs) ≠ .malformed :=
  resolve_ne_malformed 3 kvs (by have := rewritesLeft_le_two kvs; omega) h

/-- the bound is reached: a type list of one element next to a `const` is rewritten twice -/
example : step [("const", .int 1), ("type", .arr [.str "string"])] = .again [("type", .arr [.str "string"])] ∧
    step [("type", .arr [.str "string"])] = .again [("type", .str "string")] ∧
    resolve 2 (.obj [("const", .int 1), ("type", .arr [.str "string"])]) = .malformed ∧
    resolve 3 (.obj [("const", .int 1), ("type", .arr [.str "string"])]) = .string := by
  refine ⟨by rfl, by rfl, by rfl, by rfl⟩

end TypifyModel.Dispatch

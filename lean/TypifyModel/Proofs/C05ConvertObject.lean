import TypifyModel.Model.ConvertObject
/-! # `convert_object`: an object with declared or required members, or a closed one, is a struct — never a map
    (C05's "required properties / closed objects", C02's "no open object becomes closed") -/
namespace TypifyModel.C05O
open TypifyModel.ConvertObject

/-- a schema that declares or requires a member is read by a struct -/
theorem members_make_struct (v : ObjV) (hp : v.present = true) (h : 0 < v.properties ∨ 0 < v.required) :
    convertObject v = .struct := by
  obtain ⟨pr, rq, ps, pp, same, ad, pn⟩ := v
  simp only at hp h; subst hp
  have h1 : (rq == 0 && ps == 0) = false := by
    rcases h with h | h
    · have : (ps == 0) = false := by simp; omega
      simp [this]
    · have : (rq == 0) = false := by simp; omega
      simp [this]
  simp [convertObject, canHandlePatternProperties, h1]

/-- `additionalProperties: false` without pattern properties is a (closed) struct, not a map that reads anything -/
theorem closed_without_patterns_is_struct (v : ObjV) (hp : v.present = true) (ha : v.additional = .false_)
    (hpp : v.patternProps = 0) : convertObject v = .struct := by
  obtain ⟨pr, rq, ps, pp, same, ad, pn⟩ := v
  simp only at hp ha hpp; subst hp; subst ha; subst hpp
  simp [convertObject, canHandlePatternProperties]

/-- a map whose values are read by `additionalProperties` is produced only when that is a schema, and its keys are
    constrained only by `propertyNames` -/
theorem map_values (v : ObjV) (k : KeyBy) (h : convertObject v = .map k .additional) :
    v.additional = .schema ∧ v.properties = 0 ∧ v.required = 0 ∧ v.patternProps = 0 ∧ (k = .propertyNames ↔ v.propertyNames = true) := by
  unfold convertObject at h
  repeat' (split at h)
  all_goals (try (simp at h))
  all_goals (
    rename_i _ hc hpn _ hadd
    simp only [Bool.and_eq_true, beq_iff_eq, bne_iff_ne, ne_eq] at hc
    subst h
    refine ⟨hadd, hc.1.1.2, hc.1.1.1, hc.1.2, ?_⟩
    simp_all)

example : convertObject { properties := 2, additional := .schema } = .struct := by decide
example : convertObject { additional := .schema, propertyNames := true } = .map .propertyNames .additional := by decide
example : convertObject { patternProps := 1, additional := .false_ } = .map .patterns .patternSchema := by decide
example : convertObject { additional := .false_ } = .struct := by decide

end TypifyModel.C05O

import TypifyModel.Proofs.C05
/-! Kernel-checked refutation of a full C05 statement on the current tree (known finding
    `C05-struct-seq-form`). serde's derived `Deserialize` for a struct (and for a struct variant of an
    externally / internally / adjacently tagged enum) also has `visit_seq`: the JSON array of the
    members in declaration order is read as the struct. The `type: object` of an object schema is
    therefore not enforced by the generated type. `C05.struct_object_enforced` is the part that
    holds: it is stated for documents that are JSON objects.

    This file is *expected* to stop compiling when the finding is repaired (the model of `deStruct`
    then loses its `.arr` branch); the check reports the finding as gone instead of raising an alarm. -/
namespace TypifyModel.C05
open TypifyModel TypifyModel.Serde

/-- the full statement: only a JSON object deserialises into a struct -/
def struct_requires_object_full : Prop :=
  ∀ (x : Ext) (σ : Space) (f : Nat) (ps : List Field) (deny : Bool) (j : Json) (v : Val),
    deStruct x σ (f + 1) ps deny j = .ok v → ∃ kvs, j = .obj kvs

def seqWitnessSpace : Space := { entries := [(0, { details := .integer "i64" }), (1, { details := .string })] }
def seqWitnessProps : List Field :=
  [⟨"a", .none, .required, 0⟩, ⟨"b", .none, .required, 1⟩]

/-- `[1, "s"]` is read as `struct { a: i64, b: String }` (closed or not) -/
theorem seq_witness (x : Ext) (deny : Bool) :
    deStruct x seqWitnessSpace 3 seqWitnessProps deny (.arr [.int 1, .str "s"]) =
      .ok (.struct [("a", .int 1), ("b", .str "s")]) := by
  cases deny <;> rfl

/-- it is false on the current tree (known finding C05-struct-seq-form) -/
theorem struct_requires_object_full_false : ¬ struct_requires_object_full := by
  intro h
  obtain ⟨kvs, hk⟩ := h ⟨fun _ _ => true⟩ seqWitnessSpace 2 seqWitnessProps true _ _ (seq_witness _ true)
  cases hk

/-- the part that holds: for JSON objects required members and closedness are enforced -/
theorem struct_object_partial (x : Ext) (σ : Space) (f : Nat) (ps : List Field) (deny : Bool)
    (j : Json) (v : Val) (hobj : ∃ kvs, j = .obj kvs) (hfl : hasFlatten ps = false)
    (h : deStruct x σ (f + 1) ps deny j = .ok v) :
    ∃ kvs, j = .obj kvs ∧
      (∀ p ∈ ps, (p.state matches .required) → optionLikeT σ p.ty = false → (Json.lookup kvs p.wire).isSome) ∧
      (deny = true → ∀ kv ∈ kvs, ∃ p ∈ ps, p.wire = kv.1) := by
  obtain ⟨kvs, rfl⟩ := hobj
  exact ⟨kvs, rfl, struct_object_enforced x σ f ps deny kvs v hfl h⟩

example : ∃ kvs, (Json.obj [("a", .int 1), ("b", .str "s")]) = .obj kvs := ⟨_, rfl⟩

end TypifyModel.C05

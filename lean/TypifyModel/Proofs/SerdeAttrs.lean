import TypifyModel.Model.Render
import TypifyModel.Model.SerdeSer
/-! The serde attributes `generate_serde_attr` (structs.rs) writes on a struct member, read as serde reads them, against what
    the run-time model of the generated code assumes.

    `Render.fieldSerde` is the model of `generate_serde_attr` (tied to the source by the M2 correspondence: the emitted attributes
    of every member of every case, parsed by `syn`). `Serde.skipped` is what the model of `Serialize` uses to leave a member out —
    it is defined on the IR (state and type of the member), not on the rendered attributes. The theorems here close that gap and
    state the law a `skip_serializing_if` has to obey for a round trip to be idempotent:

    * `skipped_eq_rendered`: a member is left out by the run-time model exactly when one of the rendered attributes is a
      `skip_serializing_if` whose predicate holds of the value (for every space, settings, member and value of the member's shape);
    * `skip_only_with_bare_default`: a rendered `skip_serializing_if` always comes with the bare `default` — never with
      `default = "<fn>"`, never on a required member;
    * `skipped_value_is_intrinsic_default`: the value that is left out is `None`, the empty vector or the empty map — what the bare
      `default` (`Default::default()`) puts back when the member is absent. So leaving the member out and reading it back is the
      identity; a member whose absence means a NON-empty schema default is never left out. -/
namespace TypifyModel.SerdeAttrs
open TypifyModel TypifyModel.Render TypifyModel.Serde

def optionIsNone : String := "::std::option::Option::is_none"

/-- the predicate a `skip_serializing_if` path names, on a run-time value: `Option::is_none`, or an `is_empty` of a vector / map -/
def predHolds (path : String) (v : Val) : Bool :=
  if path == optionIsNone then (match v with | .none => true | _ => false)
  else (match v with | .seq [] => true | .map [] => true | _ => false)

/-- serde leaves the member out when some `skip_serializing_if` among its attributes holds of the value -/
def skipsByAttrs (args : List SerdeArg) (v : Val) : Bool :=
  args.any (fun a => match a with | .skipIf p => predHolds p v | _ => false)

/-- the value has the shape of the member's type where the attributes look at it: an `Option` member holds `None` / `Some`, a
    vector member a sequence, a map member a map (every value `de` produces has, `WireTy.prodTy`) -/
def shapeOk (σ : Space) (t : Id) (v : Val) : Bool :=
  match σ.get t with
  | some ⟨.option _, _, _⟩ => (match v with | .none => true | .some _ => true | _ => false)
  | some ⟨.vec _, _, _⟩ => (match v with | .seq _ => true | _ => false)
  | some ⟨.map _ _, _, _⟩ => (match v with | .map _ => true | _ => false)
  | _ => true

/-- the map-type path is a type path, never the one path that names `Option::is_none` (it is `st.mapType ++ "::is_empty"`) -/
def MapPathOk (st : Settings) : Prop := (st.mapType ++ "::is_empty") ≠ optionIsNone

/-- **the run-time model leaves a member out exactly when the rendered attributes say so** -/
theorem skipped_eq_rendered (st : Settings) (σ : Space) (typeName : String) (p : Field) (v : Val)
    (hm : MapPathOk st) (hs : shapeOk σ p.ty v = true) :
    skipped σ p v = skipsByAttrs (fieldSerde st σ typeName p).1 v := by
  have hm' : ¬ st.mapType ++ "::is_empty" = optionIsNone := hm
  have hne : (st.mapType ++ "::is_empty" == optionIsNone) = false := by simpa using hm'
  unfold skipped fieldSerde
  unfold shapeOk at hs
  cases hr : p.rename <;> cases hst : p.state <;> simp only [List.nil_append, List.cons_append]
  all_goals (try (simp [skipsByAttrs]; done))
  all_goals (try (rename_i d; cases defaultFn σ typeName p.name p.ty d <;> simp [skipsByAttrs]; done))
  all_goals
    (cases hg : σ.get p.ty with
     | none => simp [skipsByAttrs]
     | some ent =>
       obtain ⟨det, nm, ex⟩ := ent
       rw [hg] at hs
       cases det <;> simp only [] <;> (try (simp [skipsByAttrs]; done))
       case option t' => cases v <;> simp [skipsByAttrs, predHolds, optionIsNone] at hs ⊢
       case vec t' =>
         cases v <;> simp [skipsByAttrs, predHolds, optionIsNone] at hs ⊢
         rename_i vs; cases vs <;> simp
       case map k w =>
         cases v <;> simp only [] at hs <;> (try (simp at hs; done))
         rename_i kvs
         cases kvs <;> simp only [] <;> split <;> simp [skipsByAttrs, predHolds, hne, optionIsNone, hm'] <;> (try exact hm'))

/-- **a `skip_serializing_if` is only ever written next to the bare `default`**: the member is optional, and no
    `default = "<fn>"` stands beside it -/
theorem skip_only_with_bare_default (st : Settings) (σ : Space) (typeName : String) (p : Field) (q : String)
    (h : SerdeArg.skipIf q ∈ (fieldSerde st σ typeName p).1) :
    p.state = .optional ∧ SerdeArg.default ∈ (fieldSerde st σ typeName p).1 ∧
    ∀ f, SerdeArg.defaultFn f ∉ (fieldSerde st σ typeName p).1 := by
  unfold fieldSerde at h ⊢
  have hnm : ∀ a ∈ (match p.rename with | .rename s => [SerdeArg.rename s] | .flatten => [SerdeArg.flatten] | .none => []),
      (∀ q, a ≠ SerdeArg.skipIf q) ∧ a ≠ SerdeArg.default ∧ ∀ f, a ≠ SerdeArg.defaultFn f := by
    intro a ha
    cases hr : p.rename <;> rw [hr] at ha <;> simp at ha <;> subst ha <;> simp
  cases hst : p.state with
  | required =>
    rw [hst] at h
    simp only at h
    exact absurd rfl ((hnm _ h).1 q)
  | dflt d =>
    rw [hst] at h
    simp only at h
    cases hd : defaultFn σ typeName p.name p.ty d with
    | none =>
      rw [hd] at h
      simp only [List.mem_append, List.mem_singleton] at h
      rcases h with h | h
      · exact absurd rfl ((hnm _ h).1 q)
      · simp at h
    | some fc =>
      obtain ⟨fn, custom⟩ := fc
      rw [hd] at h
      simp only [List.mem_append, List.mem_singleton] at h
      rcases h with h | h
      · exact absurd rfl ((hnm _ h).1 q)
      · simp at h
  | optional =>
    refine ⟨rfl, ?_, ?_⟩
    · simp only
      cases hg : σ.get p.ty with
      | none => simp
      | some ent =>
        obtain ⟨det, nm, ex⟩ := ent
        cases det <;> simp only <;> (try simp)
        case map k w =>
          cases σ.get k with
          | none => simp
          | some ke =>
            obtain ⟨kd, kn, kx⟩ := ke
            cases σ.get w with
            | none => cases kd <;> simp
            | some we =>
              obtain ⟨wd, wn, wx⟩ := we
              cases kd <;> cases wd <;> simp
    · intro f hf
      simp only at hf
      have hno : ∀ rest : List SerdeArg, (∀ a ∈ rest, ∀ f, a ≠ SerdeArg.defaultFn f) →
          SerdeArg.defaultFn f ∉ (match p.rename with | .rename s => [SerdeArg.rename s] | .flatten => [SerdeArg.flatten] | .none => []) ++ rest := by
        intro rest hr hmem
        rcases List.mem_append.mp hmem with h1 | h1
        · exact (hnm _ h1).2.2 f rfl
        · exact hr _ h1 f rfl
      cases hg : σ.get p.ty with
      | none => rw [hg] at hf; exact hno _ (by simp) hf
      | some ent =>
        obtain ⟨det, nm, ex⟩ := ent
        rw [hg] at hf
        cases det <;> simp only at hf <;> (try (exact hno _ (by simp) hf))
        case map k w =>
          cases hk : σ.get k with
          | none => rw [hk] at hf; exact hno _ (by simp) hf
          | some ke =>
            obtain ⟨kd, kn, kx⟩ := ke
            rw [hk] at hf
            cases hw : σ.get w with
            | none => rw [hw] at hf; cases kd <;> simp only at hf <;> exact hno _ (by simp) hf
            | some we =>
              obtain ⟨wd, wn, wx⟩ := we
              rw [hw] at hf
              cases kd <;> cases wd <;> simp only at hf <;> exact hno _ (by simp) hf

/-- **what is left out is what the bare `default` puts back**: `None`, the empty vector, the empty map -/
theorem skipped_value_is_intrinsic_default (σ : Space) (p : Field) (v : Val) (h : skipped σ p v = true) :
    p.state = .optional ∧ (v = .none ∨ v = .seq [] ∨ v = .map []) := by
  unfold skipped at h
  cases hst : p.state with
  | required => rw [hst] at h; simp at h
  | dflt d => rw [hst] at h; simp at h
  | optional =>
    rw [hst] at h
    simp only at h
    refine ⟨rfl, ?_⟩
    cases hg : σ.get p.ty with
    | none => rw [hg] at h; simp at h
    | some ent =>
      obtain ⟨det, nm, ex⟩ := ent
      rw [hg] at h
      cases det <;> simp only at h <;> (try (simp at h; done))
      case option t' => cases v <;> simp at h ⊢
      case vec t' =>
        cases v <;> simp at h ⊢
        rename_i vs; cases vs <;> simp at h ⊢
      case map k w =>
        cases v <;> simp at h ⊢
        rename_i kvs; cases kvs <;> simp at h ⊢

end TypifyModel.SerdeAttrs

import TypifyModel.Proofs.C10
/-! Kernel-checked refutations of the full C10 statements on the current tree (known findings).
    This file is *expected* to stop compiling when a finding is repaired in /repo; the check then
    reports the finding as gone instead of raising an alarm. -/
namespace TypifyModel.C10
open TypifyModel TypifyModel.Integer TypifyModel.Generated

/-- it is false on the current tree: `uint`/`int` are read as 32-bit (known finding C10-uint) -/
theorem formats_spec_full_false : ¬ formats_spec_full := by
  intro h
  obtain ⟨lo, hi, hs, h1, h2⟩ := h ⟨"uint", .u32, .nzu32, 0, 4294967295⟩ (by decide)
  simp [specRange] at hs
  obtain ⟨rfl, rfl⟩ := hs
  simp [RTy.hi] at h2


end TypifyModel.C10

import TypifyModel.Model.Api
import TypifyModel.Proofs.Lemmas.RenderLemmas
/-! # C17 — the introspection API describes the code that is generated

∀ IR, settings, entries: what `Model/Api.lean` (the `Type` API) reports coincides with what
`Model/Render.lean` (the emitted items) contains. Both models are tied to the real code on every
run: the API answers by `tvh_ir`'s `types` (real `iter_types()`), the items by `tvh_m2`. -/
namespace TypifyModel.C17
open TypifyModel TypifyModel.Render TypifyModel.Api

def hasDefaultArg (f : FieldS) : Bool :=
  f.serde.any fun a => match a with | .default | .defaultFn _ | .panics => true | _ => false

theorem fieldS_facts (st : Settings) (σ : Space) (tn : String) (isPub : Bool) (p : Field) :
    (fieldS st σ tn isPub p).1.name = p.name ∧ (fieldS st σ tn isPub p).1.ty = typeIdent st σ fuel p.ty ∧
    hasDefaultArg (fieldS st σ tn isPub p).1 = (match p.state with | .required => false | _ => true) := by
  unfold fieldS
  refine ⟨rfl, rfl, ?_⟩
  simp only [hasDefaultArg, fieldSerde]
  cases hs : p.state with
  | required => cases hr : p.rename <;> simp
  | optional =>
    simp only
    split <;> (try split) <;> cases hr : p.rename <;> simp
  | dflt d =>
    simp only
    split <;> cases hr : p.rename <;> simp

/-- **C17: a struct's reported properties (names, required flags, types) are exactly its fields** -/
theorem api_props_eq_fields (tb : DeriveTables) (st : Settings) (σ : Space) (ent : Entry) (it : ItemS)
    (fns : List String) {n : String} {props : List Field} {deny : Bool} {d : Option Json}
    (hd : ent.details = .struct n props deny d) (h : itemOf tb st σ ent = some (it, fns)) :
    ∃ ps, details ent = .struct ps ∧
      it.fields.map (fun f => (f.name, !hasDefaultArg f, f.ty)) =
        ps.map (fun q => (q.1, q.2.1, typeIdent st σ fuel q.2.2)) ∧
      it.kind = "struct" ∧ it.fields.all (·.isPub) = true := by
  unfold itemOf at h
  rw [hd] at h
  simp only [Option.some.injEq, Prod.mk.injEq] at h
  obtain ⟨rfl, _⟩ := h
  refine ⟨props.map (fun p => (p.name, (match p.state with | .required => true | _ => false), p.ty)),
    by unfold details; rw [hd]; rfl, ?_, rfl, ?_⟩
  · simp only [List.map_map]
    apply List.map_congr_left
    intro p _
    obtain ⟨h1, h2, h3⟩ := fieldS_facts st σ n true p
    simp only [Function.comp, h1, h2, h3]
    cases p.state <;> rfl
  · simp only [List.all_map, List.all_eq_true]
    intro p _
    rfl

def variantKind (v : VariantInfo) : String :=
  match v with | .simple => "unit" | .tuple _ => "tuple" | .struct _ => "struct"

/-- **C17: an enum's reported variants are exactly its variants** (names, kinds, struct-variant
    member names and types; payload types of tuple variants except the one-element tuple, see
    `Proofs/C17Findings.lean`) -/
theorem api_variants_eq (tb : DeriveTables) (st : Settings) (σ : Space) (ent : Entry) (it : ItemS)
    (fns : List String) {n : String} {tag : Tag} {vs : List Variant} {deny : Bool} {d : Option Json}
    {bes : List Bespoke} (hd : ent.details = .enum n tag vs deny d bes)
    (h : itemOf tb st σ ent = some (it, fns)) :
    ∃ infos, details ent = .enum infos ∧
      it.variants.map (fun v => (v.name, v.kind)) = infos.map (fun i => (i.1, variantKind i.2)) ∧
      (∀ (k : Nat) (v : Variant), vs[k]? = some v → ∀ vi : VariantS, it.variants[k]? = some vi →
        match v.details with
        | .simple => vi.tys = [] ∧ vi.fields = []
        | .item t => vi.tys = [typeIdent st σ fuel t]
        | .tuple [a] => vi.tys = ["(" ++ typeIdent st σ fuel a ++ ",)"]        -- API reports [a]
        | .tuple ts => vi.tys = ts.map (typeIdent st σ fuel)
        | .struct ps => vi.fields.map (fun f => (f.name, f.ty)) = ps.map (fun p => (p.name, typeIdent st σ fuel p.ty))) := by
  unfold itemOf at h
  rw [hd] at h
  simp only [Option.some.injEq, Prod.mk.injEq] at h
  obtain ⟨rfl, _⟩ := h
  refine ⟨vs.map (fun v => (v.identName,
      match v.details with
      | .simple => VariantInfo.simple
      | .item t => .tuple [t]
      | .tuple ts => .tuple ts
      | .struct ps => .struct (ps.map fun p => (p.name, p.ty)))), by unfold details; rw [hd]; rfl, ?_, ?_⟩
  · simp only [List.map_map]
    apply List.map_congr_left
    intro v _
    simp only [Function.comp, variantS]
    cases hv : v.details with
    | simple => rfl
    | item t => rfl
    | tuple ts => cases ts with
      | nil => rfl
      | cons a r => cases r <;> rfl
    | struct ps => rfl
  · intro k v hk vi hvi
    simp only [List.getElem?_map, hk, Option.map_some, Option.some.injEq] at hvi
    subst hvi
    simp only [variantS]
    cases hv : v.details with
    | simple => simp
    | item t => simp
    | tuple ts =>
      cases ts with
      | nil => simp
      | cons a r => cases r <;> simp
    | struct ps =>
      simp only [List.map_map]
      apply List.map_congr_left
      intro p _
      obtain ⟨h1, h2, _⟩ := fieldS_facts st σ (n ++ v.identName) false p
      simp only [Function.comp, h1, h2]

/-- **C17: a newtype's reported inner type is its field** -/
theorem api_inner_eq (tb : DeriveTables) (st : Settings) (σ : Space) (ent : Entry) (it : ItemS)
    (fns : List String) {n : String} {inner : Id} {c : Constraints} {d : Option Json}
    (hd : ent.details = .newtype n inner c d) (h : itemOf tb st σ ent = some (it, fns)) :
    details ent = .newtype inner ∧ it.fields.map (·.ty) = [typeIdent st σ fuel inner] ∧ it.kind = "newtype" := by
  unfold itemOf at h
  rw [hd] at h
  simp only [Option.some.injEq, Prod.mk.injEq] at h
  obtain ⟨rfl, _⟩ := h
  exact ⟨by unfold details; rw [hd], rfl, rfl⟩

theorem builderFn_not_convenience (st : Settings) (σ : Space) (vs : List Variant) :
    ImplK.builderFn ∉ convenienceFrom st σ vs := by
  intro hm
  unfold convenienceFrom at hm
  simp only [List.mem_filterMap] at hm
  obtain ⟨v, _, hv⟩ := hm
  split at hv
  · simp at hv
  · split at hv
    · simp at hv
    · split at hv
      · split at hv <;> simp at hv
      · split at hv <;> simp at hv
      · simp at hv

/-- **C17: `builder()` is `Some` exactly when a builder type is emitted** (for the entry's item) -/
theorem builder_iff (tb : DeriveTables) (st : Settings) (σ : Space) (ent : Entry) (it : ItemS)
    (fns : List String) (h : itemOf tb st σ ent = some (it, fns)) :
    ((builder st ent).isSome = true ↔ ImplK.builderFn ∈ it.impls) ∧
    (∀ b, builder st ent = some b → b = it.name ∧ it.kind = "struct") := by
  unfold itemOf at h
  unfold builder
  cases hd : ent.details with
  | struct n props deny d =>
    rw [hd] at h
    simp only [Option.some.injEq, Prod.mk.injEq] at h
    obtain ⟨rfl, _⟩ := h
    cases hb : st.structBuilder
    · simp
    · simp
  | enum n tag vs deny d bes =>
    rw [hd] at h
    simp only [Option.some.injEq, Prod.mk.injEq] at h
    obtain ⟨rfl, _⟩ := h
    have hnc := builderFn_not_convenience st σ vs
    cases hb : st.structBuilder <;> simp [strTryFroms, hnc] <;>
      (refine ⟨?_, ?_, ?_, ?_⟩ <;> (intro hc; split at hc <;> simp at hc))
  | newtype n inner c d =>
    rw [hd] at h
    simp only [Option.some.injEq, Prod.mk.injEq] at h
    obtain ⟨rfl, _⟩ := h
    cases hb : st.structBuilder <;> cases c <;> simp [strTryFroms] <;>
      (try (refine ⟨?_, ?_, ?_, ?_⟩ <;> (intro hc; split at hc <;> simp at hc))) <;>
      (try (intro hc; split at hc <;> simp at hc))
  | _ => rw [hd] at h; simp at h

def implK : Impl → ImplK
  | .default => .default
  | .fromStr => .fromStr
  | .display => .display

/-- the one place where the API over-claims on the current tree (known finding C17-display) -/
def DisplayOverclaim (ent : Entry) (i : Impl) : Prop :=
  i = .display ∧ ∃ n inner mx mn pat d, ent.details = .newtype n inner (.string mx mn pat) d

/-- **C17: `has_impl(X)` true implies the emitted item implements X** — for every named type, except
    `Display` on length/pattern-constrained string newtypes (`has_impl_sound_full_false`). The
    recorded `impls` of the inner type must be what `has_impl` computes (checked on every dump). -/
theorem has_impl_sound_partial (tb : DeriveTables) (st : Settings) (σ : Space) (f : Nat) (t : Id)
    (ent : Entry) (it : ItemS) (fns : List String) (i : Impl)
    (hget : σ.get t = some ent) (h : itemOf tb st σ ent = some (it, fns))
    (hrec : ∀ n inner c d, ent.details = .newtype n inner c d →
      ∀ j, Render.hasImpl σ inner j = Api.hasImpl σ f inner j)
    (hno : ¬ DisplayOverclaim ent i)
    (hi : Api.hasImpl σ (f + 1) t i = true) : implK i ∈ it.impls := by
  unfold itemOf at h
  simp only [Api.hasImpl, hget] at hi
  cases hd : ent.details with
  | struct n props deny d =>
    rw [hd] at h hi
    simp only [Option.some.injEq, Prod.mk.injEq] at h
    obtain ⟨rfl, _⟩ := h
    cases i <;> simp at hi
    simp [implK, hi]
  | enum n tag vs deny d bes =>
    rw [hd] at h hi
    simp only [Option.some.injEq, Prod.mk.injEq] at h
    obtain ⟨rfl, _⟩ := h
    cases i <;> simp at hi
    · rcases hi with hi | hi <;> simp [implK, hi]
    · rcases hi with hi | hi <;> simp [implK, hi]
    · simp [implK, hi]
  | newtype n inner c d =>
    rw [hd] at h hi
    simp only [Option.some.injEq, Prod.mk.injEq] at h
    obtain ⟨rfl, _⟩ := h
    have hr := hrec n inner c d hd
    cases c with
    | none =>
      cases i <;> simp at hi
      · -- FromStr through the inner type
        by_cases hs : isStrInner σ inner = true
        · simp [implK, hs]
        · have : Render.hasImpl σ inner .fromStr = true := by rw [hr]; exact hi
          simp [implK, this, hs]
      · have : Render.hasImpl σ inner .display = true := by rw [hr]; exact hi
        simp [implK, this]
      · simp [implK, hi]
    | enumValues vs => cases i <;> simp at hi; simp [implK, hi]
    | denyValues vs => cases i <;> simp at hi; simp [implK, hi]
    | string mx mn pat =>
      cases i
      · simp [implK, strTryFroms]
      · exact absurd ⟨rfl, n, inner, mx, mn, pat, d, hd⟩ hno
      · simp at hi; simp [implK, hi]
  | _ => rw [hd] at h; simp at h

end TypifyModel.C17

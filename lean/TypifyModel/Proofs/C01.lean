import TypifyModel.Proofs.Lemmas.WfItems
import TypifyModel.Proofs.Lemmas.StrConvLemmas
import TypifyModel.Proofs.C19
import TypifyModel.Model.PanicTable
import TypifyModel.Generated.PanicSites
/-! # C01 — every accepted schema yields Rust that compiles

∀ IR, ∀ settings. `Wf.WF` is a decidable predicate on (settings, IR); `Wf.Compiles` is the
specification of the rustc / serde_derive rules relevant to the items typify emits, stated over the
module `Wf.modOf` = the Render summary (`modOf_summary`; tied to the real `to_stream()` by the M2
correspondence) with every member type as a tree (`modOf_types` / `typeIdent_eq_render`).

* `wf_compiles : WF = true → Compiles (modOf tb st σ)` — conjunct by conjunct
  (`wf_unique_items`, `wf_fields_distinct`, `wf_types_resolve`, `wf_impls_coherent`, `wf_derivable`,
  `wf_finite_size` / `wf_no_containment_cycle`, `wf_serde_legal`).
* `derives_ok_of_tables`: the derives typify ITSELF adds are always satisfiable (via `C19.derives_origin`
  over the regenerated tables) — the derive part of conjunct 5 can only fail through the tables.
* `display_literals_valid`: the `write!` literals are always valid format strings (post-fix code).
* `render_total`: on a WF input the render model takes no partial step (no `?` type, no unrenderable
  default, the two `assert!`s hold, every name handed to `format_ident!` is an identifier), and
  `panic_sites_covered`: every panic site on the `to_stream()` path — regenerated from the source by
  translator table T9 — is in `Wf.panicTable` with the conjunct that excludes it. A NEW `unwrap()` in the
  render path makes this theorem fail.

What is NOT proved here: that `Compiles` is what rustc checks (validated per run: `WF` ⇔ the case
compiles, `tools/props/c01.py`), conjunct 6 (default expressions: parameter `env.dfltOk`, delivered by
the C06 slice), and the second half of the property (supported fragment ⇒ never rejected), which needs
a model of `convert_schema`. -/
namespace TypifyModel.C01
open TypifyModel TypifyModel.Render TypifyModel.Wf TypifyModel.SettingsApply

variable {env : Env} {tb : DeriveTables} {st : Settings} {σ : Space}

/-! ## the conjuncts of `WF` -/

structure Conj (env : Env) (tb : DeriveTables) (st : Settings) (σ : Space) : Prop where
  items : c1_items σ = true
  mods : c1_mods σ = true
  prelude : c1_prelude σ = true
  dfns : c1_defaultFns tb st σ = true
  idents : c2_idents σ = true
  ids : c3_ids env tb st σ = true
  impls : c4_impls env tb st σ = true
  derives : c5_derives env tb st σ = true
  dflt : env.dfltOk = true
  acyclic : c7_acyclic σ = true
  serde : c8_serde tb st σ = true
  deref : c9_deref tb st σ = true

theorem wf_conj (h : WF env tb st σ = true) : Conj env tb st σ := by
  unfold WF at h
  simp only [Bool.and_eq_true] at h
  obtain ⟨⟨⟨⟨⟨⟨⟨⟨⟨⟨⟨h1, h2⟩, h3⟩, h4⟩, h5⟩, h6⟩, h7⟩, h8⟩, h9⟩, h10⟩, h11⟩, h12⟩ := h
  exact ⟨h1, h2, h3, h4, h5, h6, h7, h8, h9, h10, h11, h12⟩

/-- an item of the module and the entry it was made from -/
theorem item_entry {m : MItem} (h : m ∈ (modOf tb st σ).items) :
    ∃ e fns, e ∈ σ.entries ∧ mitemOf tb st σ e = some (m, fns) ∧
      itemOf tb st σ e.2 = some (m.base, fns) ∧ e.2.details.name? = some m.base.name := by
  obtain ⟨e, fns, he, hm⟩ := mem_modOf_items h
  have hi := (mitemOf_some hm).1
  exact ⟨e, fns, he, hm, hi, C14.item_name tb st σ e.2 m.base fns hi⟩

theorem kind_newtype {ent : Entry} {it : ItemS} {fns : List String} (h : itemOf tb st σ ent = some (it, fns))
    (hk : it.kind = "newtype") : isNewtypeEntry ent = true := by
  unfold itemOf at h
  unfold isNewtypeEntry
  cases hd : ent.details with
  | struct n ps deny d =>
    simp only [hd, Option.some.injEq, Prod.mk.injEq] at h
    obtain ⟨hb, _⟩ := h; rw [← hb] at hk; simp at hk
  | enum n tag vs deny d bes =>
    simp only [hd, Option.some.injEq, Prod.mk.injEq] at h
    obtain ⟨hb, _⟩ := h; rw [← hb] at hk; simp at hk
  | newtype n inner c d => rfl
  | _ => simp [hd] at h

/-! ## (1) names -/

/-- **item names are unique per module namespace** -/
theorem wf_unique_items (h : WF env tb st σ = true) :
    ((modOf tb st σ).items.map (·.base.name)).Nodup ∧
    (∀ m ∈ (modOf tb st σ).items, m.base.name ∉ reservedMods ∧ m.base.name ∉ preludeTypes ∧
        ¬ (m.base.kind = "newtype" ∧ m.base.name ∈ preludeValues)) ∧
    (modOf tb st σ).defaultFns.Nodup ∧ (∀ f ∈ (modOf tb st σ).defaultFns, f ∉ (modOf tb st σ).sharedFns) := by
  have c := wf_conj h
  refine ⟨?_, ?_, ?_, ?_⟩
  · rw [modOf_names]; exact (nodupB_iff _).mp c.items
  · intro m hm
    obtain ⟨e, fns, he, _, hi, hn⟩ := item_entry hm
    have hmem : m.base.name ∈ itemNames σ := by
      unfold itemNames
      simp only [List.mem_filterMap]
      exact ⟨e, he, hn⟩
    have h2 := c.mods
    unfold c1_mods at h2
    have h2' := List.all_eq_true.mp h2 _ hmem
    have h3 := c.prelude
    unfold c1_prelude at h3
    have h3' := List.all_eq_true.mp h3 e he
    simp only [hn, Bool.and_eq_true, Bool.not_eq_eq_eq_not, Bool.not_true] at h3'
    refine ⟨by simpa using h2', by simpa using h3'.1, ?_⟩
    rintro ⟨hk, hv⟩
    have hnt := kind_newtype hi hk
    have := h3'.2
    simp [hnt] at this
    exact this hv
  · have h4 := c.dfns
    unfold c1_defaultFns at h4
    simp only [Bool.and_eq_true] at h4
    exact (nodupB_iff _).mp h4.1
  · have h4 := c.dfns
    unfold c1_defaultFns at h4
    simp only [Bool.and_eq_true] at h4
    intro f hf
    have := List.all_eq_true.mp h4.2 f hf
    simpa using this

/-! ## (2) members and variants -/

theorem fieldNamesOk_of {tn : String} {isPub : Bool} {ps : List Field} (h : fieldIdentsOk ps = true) :
    fieldNamesOk ((ps.map (fieldS st σ tn isPub)).map (·.1)) = true := by
  unfold fieldIdentsOk at h
  unfold fieldNamesOk
  have hn : ((ps.map (fieldS st σ tn isPub)).map (·.1)).map (·.name) = ps.map (·.name) := by
    simp only [List.map_map]
    apply List.map_congr_left
    intro p _
    exact fieldS_name st σ tn isPub p
  simp only [Bool.and_eq_true] at h ⊢
  refine ⟨by rw [hn]; exact h.1, ?_⟩
  simp only [List.all_map, List.all_eq_true] at h ⊢
  intro p hp
  simp only [Function.comp, fieldS_name]
  exact h.2 p hp

/-- **member and variant names are identifiers, distinct within their item** -/
theorem wf_fields_distinct (h : WF env tb st σ = true) :
    ∀ m ∈ (modOf tb st σ).items, identOk m.base.name = true ∧
      (m.base.kind = "newtype" ∨ fieldNamesOk m.base.fields = true) ∧
      (m.base.variants.map (·.name)).Nodup ∧
      ∀ v ∈ m.base.variants, identOk v.name = true ∧ fieldNamesOk v.fields = true := by
  have c := wf_conj h
  intro m hm
  obtain ⟨e, fns, he, _, hi, _⟩ := item_entry hm
  have h2 := c.idents
  unfold c2_idents at h2
  have h2' := List.all_eq_true.mp h2 e he
  unfold itemOf at hi
  cases hd : e.2.details with
  | struct n ps deny d =>
    simp only [hd, Option.some.injEq, Prod.mk.injEq] at hi
    obtain ⟨hb, _⟩ := hi
    simp only [hd, Bool.and_eq_true] at h2'
    rw [← hb]
    refine ⟨h2'.1, Or.inr (fieldNamesOk_of h2'.2), by simp, by simp⟩
  | enum n tag vs deny d bes =>
    simp only [hd, Option.some.injEq, Prod.mk.injEq] at hi
    obtain ⟨hb, _⟩ := hi
    simp only [hd, Bool.and_eq_true] at h2'
    obtain ⟨⟨hn, hnd⟩, hvs⟩ := h2'
    rw [← hb]
    have hnames : ((vs.map (variantS st σ n)).map (·.1)).map (·.name) = vs.map (·.identName) := by
      simp only [List.map_map]
      apply List.map_congr_left
      intro v _
      simp only [Function.comp, variantS]
      cases v.details with
      | simple => rfl
      | item t => rfl
      | tuple ts => cases ts with
        | nil => rfl
        | cons a r => cases r <;> rfl
      | struct ps => rfl
    refine ⟨hn, Or.inr (by simp [fieldNamesOk, nodupB, pairwiseB]), ?_, ?_⟩
    · show (((vs.map (variantS st σ n)).map (·.1)).map (·.name)).Nodup
      rw [hnames]; exact (nodupB_iff _).mp hnd
    · intro v hv
      simp only [List.map_map, List.mem_map, Function.comp] at hv
      obtain ⟨w, hw, rfl⟩ := hv
      have hw' := List.all_eq_true.mp hvs w hw
      simp only [Bool.and_eq_true] at hw'
      unfold variantS
      cases hwd : w.details with
      | simple => exact ⟨hw'.1, by simp [fieldNamesOk, nodupB, pairwiseB]⟩
      | item t => exact ⟨hw'.1, by simp [fieldNamesOk, nodupB, pairwiseB]⟩
      | tuple ts =>
        cases ts with
        | nil => exact ⟨hw'.1, by simp [fieldNamesOk, nodupB, pairwiseB]⟩
        | cons a r => cases r <;> exact ⟨hw'.1, by simp [fieldNamesOk, nodupB, pairwiseB]⟩
      | struct ps =>
        have hps : fieldIdentsOk ps = true := by simpa [hwd] using hw'.2
        exact ⟨hw'.1, fieldNamesOk_of hps⟩
  | newtype n inner cc d =>
    simp only [hd, Option.some.injEq, Prod.mk.injEq] at hi
    obtain ⟨hb, _⟩ := hi
    simp only [hd] at h2'
    rw [← hb]
    exact ⟨h2', Or.inl rfl, by simp, by simp⟩
  | _ => simp [hd] at hi

/-! ## (3) resolution -/

/-- **every member type resolves**: generated items are declared by the module, native paths are recorded,
    no id dangles and no `Reference` is left -/
theorem wf_types_resolve (h : WF env tb st σ = true) :
    ∀ m ∈ (modOf tb st σ).items, ∀ T ∈ m.allTys, T.resolved (modOf tb st σ).decls env.natives = true := by
  have c := (wf_conj h).ids
  unfold c3_ids at c
  simp only [Bool.and_eq_true] at c
  intro m hm T hT
  exact List.all_eq_true.mp (List.all_eq_true.mp c.2 m hm) T hT

/-- … and in the strings of the summary (members, variant payloads AND impl headers): every type name that
    occurs is the name of an emitted item (token view of `type_ident`, C14) -/
theorem wf_type_names_declared (it : ItemS) (hit : it ∈ (render tb st σ).items) :
    ∀ s ∈ typeExprs it, ∃ toks, s = flat st toks ∧
      ∀ n, Tok.name n ∈ toks → n ∈ (render tb st σ).items.map (·.name) := by
  intro s hs
  obtain ⟨e, fns, _, hi⟩ := C14.render_items tb st σ it hit
  obtain ⟨toks, hflat, hn⟩ := (C14.uses_by_id tb st σ e.2 it fns hi s hs).toks
  refine ⟨toks, hflat, fun n hn' => ?_⟩
  obtain ⟨e', he', hname⟩ := hn n hn'
  rw [C14.items_are_named_entries]
  simp only [List.mem_filterMap]
  exact ⟨e', he', hname⟩

/-! ## (4) coherence -/

/-- **impl headers are pairwise non-overlapping and none overlaps core's blanket impls** -/
theorem wf_impls_coherent (h : WF env tb st σ = true) :
    (allHdrs (modOf tb st σ).summary).Pairwise (fun a b => overlap env a b = false) ∧
    ∀ g ∈ allHdrs (modOf tb st σ).summary, hitsReflexiveFrom env g = false ∧
      hitsBlanketTryFrom env (allHdrs (modOf tb st σ).summary) g = false := by
  have c := (wf_conj h).impls
  unfold c4_impls at c
  simp only [Bool.and_eq_true] at c
  rw [modOf_summary]
  refine ⟨?_, ?_⟩
  · have := (pairwiseB_iff _ _).mp c.1
    refine this.imp ?_
    intro a b hab
    simpa using hab
  · intro g hg
    have := List.all_eq_true.mp c.2 g hg
    simpa using this

/-! ## (5) derivability -/

/-- **the derives typify itself adds are satisfiable**, for every IR: a derive on an item is user-requested,
    universal (`Debug`, `Clone`, `Serialize`, `Deserialize`), or one of the comparison/hash traits on a
    data-less enum / on a newtype over `String` — given only that the (regenerated) tables name
    derivable traits. So the `deriveOk` part of conjunct 5 holds whenever `tablesDerivable tb` does. -/
theorem derives_ok_of_tables (htb : tablesDerivable tb = true) (ent : Entry) (it : ItemS) (fns : List String)
    (hi : itemOf tb st σ ent = some (it, fns))
    (hu : ∀ d, d ∈ st.extraDerives ∨ d ∈ ent.extraDerives → d ∈ env.userDerives) :
    ∀ d ∈ it.derives, deriveOk env it d = true := by
  intro d hd
  unfold tablesDerivable at htb
  simp only [Bool.and_eq_true, List.all_eq_true] at htb
  obtain ⟨⟨hbase, hse⟩, hsn⟩ := htb
  unfold deriveOk
  rcases C19.derives_origin tb st σ ent it fns hi d hd with hb | hu1 | hu2 | ⟨hs, n, tag, vs, deny, dd, bes, hdet, hall⟩ |
      ⟨hs, n, inner, c, dd, ed, im, hdet, hget⟩
  · have hb' : d ∈ universalDerives := by simpa using hbase d hb
    simp [hb']
  · simp [hu d (Or.inl hu1)]
  · simp [hu d (Or.inr hu2)]
  · have hf : isFieldless it = true := by
      unfold itemOf at hi
      rw [hdet] at hi
      simp only [Option.some.injEq, Prod.mk.injEq] at hi
      obtain ⟨hb, _⟩ := hi
      rw [← hb]
      unfold isFieldless
      simp only [beq_self_eq_true, Bool.true_and, List.all_map, List.all_eq_true]
      intro v hv
      unfold allSimple at hall
      have := List.all_eq_true.mp hall v hv
      simp only [Function.comp, variantS]
      cases hvd : v.details <;> simp_all
    have hs' : d ∈ fieldlessDerivable := by simpa using hse d hs
    simp [hs', hf]
  · have hf : isStringNewtype it = true := by
      unfold itemOf at hi
      rw [hdet] at hi
      simp only [Option.some.injEq, Prod.mk.injEq] at hi
      obtain ⟨hb, _⟩ := hi
      rw [← hb]
      unfold isStringNewtype
      have : typeIdent st σ fuel inner = stdString := by
        unfold typeIdent fuel
        simp [hget, stdString]
      simp [this]
    have hs' : d ∈ stringImplements := by simpa using hsn d hs
    simp [hs', hf]

/-- **derives satisfiable, member types within the std / serde arity limits, `Default` available where
    `#[serde(default)]` asks for it** -/
theorem wf_derivable (h : WF env tb st σ = true) :
    ∀ m ∈ (modOf tb st σ).items, (∀ d ∈ m.base.derives, deriveOk env m.base d = true) ∧
      (∀ T ∈ m.allTys, T.shapeOk (modOf tb st σ).hashable = true) ∧
      defaultsAvailable (modOf tb st σ) m = true := by
  have c := (wf_conj h).derives
  unfold c5_derives at c
  simp only [Bool.and_eq_true] at c
  intro m hm
  have := List.all_eq_true.mp c.2 m hm
  simp only [Bool.and_eq_true] at this
  exact ⟨fun d hd => List.all_eq_true.mp this.1.1 d hd, fun T hT => List.all_eq_true.mp this.1.2 T hT, this.2⟩

/-! ## (7) finite size -/

theorem rankOk_of (hc : c7_acyclic σ = true) : RankOk σ (rankOf (ranks σ)) := by
  unfold c7_acyclic at hc
  intro e he c' hc'
  have := List.all_eq_true.mp (List.all_eq_true.mp hc e he) c' hc'
  simpa using this

/-- **no infinitely sized type**: there is a height that strictly decreases from an item to every item it
    holds by value (through `Option`, tuples and arrays, never through `Box` / `Vec` / a map) -/
theorem wf_finite_size (h : WF env tb st σ = true) :
    ∃ rank : Id → Nat, ∀ m ∈ (modOf tb st σ).items, ∀ T ∈ m.allTys, ∀ i ∈ T.byValue, rank i < rank m.id := by
  have hr := rankOk_of (wf_conj h).acyclic
  refine ⟨rankOf (ranks σ), ?_⟩
  intro m hm T hT i hi
  obtain ⟨e, fns, he, hmo⟩ := mem_modOf_items hm
  have hid : m.id = e.1 := (mitemOf_some hmo).2.1
  rw [hid]
  rcases allTys_origin hmo T hT with ⟨c, hc, rfl⟩ | ⟨a, ha, rfl⟩
  · exact Nat.lt_of_le_of_lt (byValue_rank hr fuel c i hi) (hr e he c hc)
  · simp only [Ty.byValue, Ty.byValueList, List.append_nil] at hi
    exact Nat.lt_of_le_of_lt (byValue_rank hr fuel a i hi) (hr e he a ha)

/-- "item `a` holds item `b` by value" -/
def Holds (M : Mod) (a b : Id) : Prop := ∃ m ∈ M.items, m.id = a ∧ ∃ T ∈ m.allTys, b ∈ T.byValue

inductive Chain (M : Mod) : Id → Id → Prop where
  | single {a b : Id} : Holds M a b → Chain M a b
  | tail {a b c : Id} : Chain M a b → Holds M b c → Chain M a c

/-- … hence **no by-value containment cycle** between the emitted items (what rustc reports as E0072) -/
theorem wf_no_containment_cycle (h : WF env tb st σ = true) : ∀ a, ¬ Chain (modOf tb st σ) a a := by
  obtain ⟨rank, hr⟩ := wf_finite_size h
  have step : ∀ a b, Holds (modOf tb st σ) a b → rank b < rank a := by
    rintro a b ⟨m, hm, rfl, T, hT, hb⟩
    exact hr m hm T hT b hb
  have chain : ∀ a b, Chain (modOf tb st σ) a b → rank b < rank a := by
    intro a b p
    induction p with
    | single e => exact step _ _ e
    | tail _ e ih => exact Nat.lt_trans (step _ _ e) ih
  intro a p
  exact Nat.lt_irrefl _ (chain a a p)

/-! ## (8) serde attributes and format literals -/

/-- **serde attribute combinations are accepted by serde_derive and `write!` literals are valid** -/
theorem wf_serde_legal (h : WF env tb st σ = true) :
    ∀ m ∈ (modOf tb st σ).items, serdeLegalItem m.base = true := by
  have c := (wf_conj h).serde
  unfold c8_serde at c
  simp only [Bool.and_eq_true] at c
  intro m hm
  have hb : m.base ∈ (render tb st σ).items := by
    rw [← modOf_items_base]; exact List.mem_map_of_mem hm
  exact List.all_eq_true.mp c.1 m.base hb

/-- the literal typify puts into `write!(f, "..")` is a valid format string, for every IR (the brace
    escaping of the `fix:` commit): this part of conjunct 8 cannot fail -/
theorem display_literals_valid (ent : Entry) (it : ItemS) (fns : List String)
    (hi : itemOf tb st σ ent = some (it, fns)) :
    ∀ arms, it.displayArms = some arms → ∀ a ∈ arms, (Serde.fmtLiteral a.2.toList).isSome = true := by
  intro arms ha a hmem
  unfold itemOf at hi
  cases hd : ent.details with
  | struct n ps deny d =>
    simp only [hd, Option.some.injEq, Prod.mk.injEq] at hi
    obtain ⟨hb, _⟩ := hi; rw [← hb] at ha; simp at ha
  | enum n tag vs deny d bes =>
    simp only [hd, Option.some.injEq, Prod.mk.injEq] at hi
    obtain ⟨hb, _⟩ := hi
    rw [← hb] at ha
    simp only at ha
    split at ha
    · simp only [Option.some.injEq] at ha
      subst ha
      simp only [List.mem_map] at hmem
      obtain ⟨v, _, rfl⟩ := hmem
      simp [Serde.fmtLiteral_escape]
    · cases ha
  | newtype n inner c d =>
    simp only [hd, Option.some.injEq, Prod.mk.injEq] at hi
    obtain ⟨hb, _⟩ := hi; rw [← hb] at ha; simp at ha
  | _ => simp [hd] at hi

/-! ## (9) auto-deref chains -/

/-- **every auto-deref chain is finite**: from every item the chain of `Deref` targets (newtype to inner type,
    through `Box`) reaches a type that is not a newtype -/
theorem wf_deref_finite (h : WF env tb st σ = true) :
    ∀ m ∈ (modOf tb st σ).items, ∃ n, derefEnds (modOf tb st σ) n m.id = true := by
  have c := (wf_conj h).deref
  unfold c9_deref at c
  intro m hm
  exact ⟨_, List.all_eq_true.mp c m hm⟩

/-! ## the main theorem -/

/-- **`WF` implies the Rust rules**: for every IR and every settings assignment, if the decidable
    predicate `WF` holds then the module `to_stream()` emits satisfies the specification `Compiles`. -/
theorem wf_compiles (h : WF env tb st σ = true) : Compiles env (modOf tb st σ) where
  uniqueItems := wf_unique_items h
  fieldsDistinct := wf_fields_distinct h
  typesResolve := wf_types_resolve h
  implsCoherent := wf_impls_coherent h
  derivable := wf_derivable h
  defaultsTyped := (wf_conj h).dflt
  finiteSize := wf_finite_size h
  serdeLegal := wf_serde_legal h
  derefFinite := wf_deref_finite h

/-! ## `to_stream()` takes no partial step on a WF input -/

mutual
def tyTotal : Ty → Bool
  | .opt t | .box t | .vec t | .set t | .array t _ => tyTotal t
  | .map k v => tyTotal k && tyTotal v
  | .tuple ts | .native _ ts => tyTotalList ts
  | .bad => false
  | _ => true
def tyTotalList : List Ty → Bool
  | [] => true
  | a :: r => tyTotal a && tyTotalList r
end

theorem resolved_total (decl : Decls) (nat : List String) :
    ∀ T : Ty, T.resolved decl nat = true → tyTotal T = true := by
  intro T
  induction T using Ty.rec (motive_2 := fun Ts => Ty.resolvedList decl nat Ts = true → tyTotalList Ts = true) with
  | named id n => intro _; simp [tyTotal]
  | opt t ih => intro h; simp only [Ty.resolved] at h; simp only [tyTotal]; exact ih h
  | box t ih => intro h; simp only [Ty.resolved] at h; simp only [tyTotal]; exact ih h
  | vec t ih => intro h; simp only [Ty.resolved] at h; simp only [tyTotal]; exact ih h
  | set t ih => intro h; simp only [Ty.resolved] at h; simp only [tyTotal]; exact ih h
  | map k v ihk ihv =>
    intro h; simp only [Ty.resolved, Bool.and_eq_true] at h
    simp only [tyTotal, Bool.and_eq_true]; exact ⟨ihk h.1, ihv h.2⟩
  | jsonMap => intro _; simp [tyTotal]
  | tuple ts ih => intro h; simp only [Ty.resolved] at h; simp only [tyTotal]; exact ih h
  | array t n ih => intro h; simp only [Ty.resolved] at h; simp only [tyTotal]; exact ih h
  | native name ps ih =>
    intro h; simp only [Ty.resolved, Bool.and_eq_true] at h; simp only [tyTotal]; exact ih h.2
  | lit s => intro _; simp [tyTotal]
  | bad => intro h; simp [Ty.resolved] at h
  | nil => simp [tyTotalList]
  | cons a r iha ihr =>
    rename_i h
    simp only [Ty.resolvedList, Bool.and_eq_true] at h
    simp only [tyTotalList, Bool.and_eq_true]; exact ⟨iha h.1, ihr h.2⟩

/-- the partial steps of `to_stream()` as they show in the model: a type that could not be printed
    (`type_ident` panics: dangling id, `Reference`), a default that could not be rendered (`default_fn`
    panics), a failed structural `assert!`, a name `format_ident!` rejects, a type name `syn` rejects -/
structure NoPartialStep (tb : DeriveTables) (st : Settings) (σ : Space) : Prop where
  typesPrint : ∀ m ∈ (modOf tb st σ).items, ∀ T ∈ m.allTys, tyTotal T = true
  noReference : ∀ e ∈ σ.entries, ∀ t, e.2.details ≠ .reference t
  typePaths : ∀ e ∈ σ.entries, (∀ n ps, e.2.details = .native n ps → isTypePath n = true) ∧
    (∀ n, e.2.details = .integer n ∨ e.2.details = .float n → isTypePath n = true)
  defaultsRender : ∀ it ∈ (render tb st σ).items,
    (∀ f ∈ it.fields, SerdeArg.panics ∉ f.serde) ∧ ∀ v ∈ it.variants, ∀ f ∈ v.fields, SerdeArg.panics ∉ f.serde
  untaggedAssert : ∀ it ∈ (render tb st σ).items, "untagged" ∈ it.serde →
    (it.variants.filter (fun v => v.kind == "unit")).length ≤ 1
  newtypeAssert : ∀ e ∈ σ.entries, ∀ n inner vs d, e.2.details = .newtype n inner (.enumValues vs) d →
    isStrInner σ inner = false
  identifiers : ∀ m ∈ (modOf tb st σ).items, identOk m.base.name = true ∧
    (m.base.kind = "newtype" ∨ ∀ f ∈ m.base.fields, identOk f.name = true) ∧
    ∀ v ∈ m.base.variants, identOk v.name = true ∧ ∀ f ∈ v.fields, identOk f.name = true
  derivePaths : ∀ d ∈ st.extraDerives, isTypePath d = true

/-- **rendering is total on well-formed input** (the item's own default expressions: conjunct 6) -/
theorem render_total (h : WF env tb st σ = true) : NoPartialStep tb st σ := by
  have c := wf_conj h
  have hids := c.ids
  unfold c3_ids at hids
  simp only [Bool.and_eq_true] at hids
  have hserde := c.serde
  unfold c8_serde at hserde
  simp only [Bool.and_eq_true] at hserde
  have legal : ∀ it ∈ (render tb st σ).items, serdeLegalItem it = true :=
    fun it hit => List.all_eq_true.mp hserde.1 it hit
  refine ⟨?_, ?_, ?_, ?_, ?_, ?_, ?_, ?_⟩
  · intro m hm T hT
    exact resolved_total _ _ T (wf_types_resolve h m hm T hT)
  · intro e he t hd
    have := List.all_eq_true.mp hids.1.2 e he
    simp [hd] at this
  · intro e he
    have := List.all_eq_true.mp hids.1.2 e he
    refine ⟨fun n ps hd => by simpa [hd] using this, fun n hd => ?_⟩
    rcases hd with hd | hd <;> simpa [hd] using this
  · intro it hit
    have := legal it hit
    unfold serdeLegalItem at this
    simp only [Bool.and_eq_true] at this
    obtain ⟨⟨⟨_, hf⟩, hv⟩, _⟩ := this
    refine ⟨fun f hfm => ?_, fun v hvm f hfm => ?_⟩
    · have := List.all_eq_true.mp hf f hfm
      simpa [hasArg] using this
    · have := List.all_eq_true.mp (List.all_eq_true.mp hv v hvm) f hfm
      simpa [hasArg] using this
  · intro it hit hu
    have := legal it hit
    unfold serdeLegalItem at this
    simp only [Bool.and_eq_true] at this
    obtain ⟨⟨⟨⟨_, hun⟩, _⟩, _⟩, _⟩ := this
    simpa [hu] using hun
  · intro e he n inner vs d hd
    have := List.all_eq_true.mp hserde.2 e he
    simpa [hd] using this
  · intro m hm
    obtain ⟨hn, hf, _, hv⟩ := wf_fields_distinct h m hm
    refine ⟨hn, ?_, fun v hvm => ⟨(hv v hvm).1, ?_⟩⟩
    · rcases hf with hf | hf
      · exact Or.inl hf
      · unfold fieldNamesOk at hf
        simp only [Bool.and_eq_true] at hf
        exact Or.inr (fun f hfm => List.all_eq_true.mp hf.2 f hfm)
    · have := (hv v hvm).2
      unfold fieldNamesOk at this
      simp only [Bool.and_eq_true] at this
      exact fun f hfm => List.all_eq_true.mp this.2 f hfm
  · have hd := c.derives
    unfold c5_derives at hd
    simp only [Bool.and_eq_true] at hd
    exact fun d hdm => List.all_eq_true.mp hd.1.1.2 d hdm

/-! ## every panic site on the `to_stream()` path is accounted for -/

theorem panic_sites_coveredB :
    (Generated.panicSites.all fun s => coveredSites.contains s.fingerprint) = true := by decide +kernel

/-- **every `unwrap` / `expect` / `panic!` / `unreachable!` / `assert!` / `format_ident!` site in a function
    reachable from `TypeSpace::to_stream` (translator table T9, regenerated from the source on every run)
    is listed in `Wf.panicTable` together with the WF conjunct that excludes it** -/
theorem panic_sites_covered : ∀ s ∈ Generated.panicSites, s.fingerprint ∈ coveredSites := by
  intro s hs
  have h := List.all_eq_true.mp panic_sites_coveredB s hs
  simpa using h

/-- the derive tables regenerated from type_entry.rs name derivable traits only -/
theorem tables_derivable : tablesDerivable Generated.deriveTables = true := by decide

/-! ## non-vacuity: a space with a recursive boxed struct, an enum of every tagging, a constrained newtype -/

def exSpace : Space := { nextId := 11, entries := [
  (1, ⟨.string, [], [.fromStr, .display, .default]⟩),
  (2, ⟨.integer "i64", [], [.fromStr, .display, .default]⟩),
  -- struct Node { value: i64, #[serde(default)] next: Option<Box<Node>> }
  (3, ⟨.struct "Node" [⟨"value", .none, .required, 2⟩, ⟨"next", .rename "next-node", .optional, 4⟩] false none, [], []⟩),
  (4, ⟨.option 5, [], [.default]⟩),
  (5, ⟨.box 3, [], []⟩),
  (6, ⟨.enum "Ext" .external [⟨"a", "A", .simple⟩, ⟨"B", "B", .item 2⟩, ⟨"C", "C", .struct [⟨"x", .none, .required, 1⟩]⟩]
        false none [], [], []⟩),
  (7, ⟨.enum "Int" (.internal "kind") [⟨"P", "P", .struct [⟨"x", .none, .required, 2⟩]⟩, ⟨"Q", "Q", .simple⟩]
        true none [], [], []⟩),
  (8, ⟨.enum "Adj" (.adjacent "t" "c") [⟨"R", "R", .item 1⟩, ⟨"S", "S", .tuple [1, 2]⟩] false none [], [], []⟩),
  (9, ⟨.enum "Unt" .untagged [⟨"U", "U", .item 10⟩, ⟨"V", "V", .item 2⟩, ⟨"W", "W", .simple⟩] false none [], [], []⟩),
  (10, ⟨.newtype "Name" 1 (.string (some 8) none none) none, [], [.fromStr, .display]⟩)] }

def exEnv : Env := { sameTy := fun a b => a == b }

theorem exSpace_wf : WF exEnv Generated.deriveTables { structBuilder := true } exSpace = true := by decide +kernel

example : Compiles exEnv (modOf Generated.deriveTables { structBuilder := true } exSpace) := wf_compiles exSpace_wf

example : NoPartialStep Generated.deriveTables { structBuilder := true } exSpace := render_total exSpace_wf

example : (modOf Generated.deriveTables {} exSpace).items.map (fun m => (m.id, m.base.name)) =
    [(3, "Node"), (6, "Ext"), (7, "Int"), (8, "Adj"), (9, "Unt"), (10, "Name")] := by decide +kernel

/-- the by-value members of `Node` stop at the `Box`: `next: Option<Box<Node>>` holds no `Node` by value -/
example : ((modOf Generated.deriveTables {} exSpace).items.map (fun m => m.allTys.map Ty.byValue)).head? =
    some [[], []] := by decide +kernel

/-- without the `Box` the same struct is rejected by conjunct 7 (and only by it) -/
def exUnboxed : Space := { nextId := 5, entries := [
  (2, ⟨.integer "i64", [], []⟩),
  (3, ⟨.struct "Node" [⟨"value", .none, .required, 2⟩, ⟨"next", .none, .optional, 4⟩] false none, [], []⟩),
  (4, ⟨.option 3, [], []⟩)] }

example : (conjuncts exEnv Generated.deriveTables {} exUnboxed).filter (fun c => !c.2) = [("acyclic", false)] := by
  decide +kernel

end TypifyModel.C01

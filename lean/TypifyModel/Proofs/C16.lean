import TypifyModel.Proofs.Lemmas.SpaceStable
import TypifyModel.Proofs.Lemmas.SpaceNames
import TypifyModel.Proofs.Lemmas.SpaceBatch
/-! # C16 — the type space stays consistent across any history of API calls

Theorems about `Space.run` / `Space.step` (the model of `TypeSpace::add_ref_types`,
`add_root_schema`, `add_type_with_name` over the schema fragment `Space.Sch`, tied to the code by the
correspondence slice `c16` with exact ids), for ALL histories, all fuels, no bound on length:

* `inv_init`, `inv_step`, `inv_run` — the invariant `Space.Inv` (entries and the ids they mention are
  below `next_id`; `type_to_id` maps a structure to an id holding that structure; `name_to_id` maps a
  name to an id holding an entry of that name; `ref_to_id` maps below `next_id`).
* `frame_acyclic`, `frame_run`, `returned_stable` — a successful call leaves every entry below the old
  `next_id` exactly as it was; hence an id a call returned, and everything reachable from it, keeps
  its entry (name, structure, and therefore identifier) through all later calls.  "acyclic": the
  model covers batches whose by-value reference graph has no cycle (on the others it answers
  `unsupported`; `break_cycles` is the identity on the covered ones, C07 `break_minimal`).
* `readd` — `add_type_with_name` of the same schema with the same hint a second time returns the
  same id and leaves the state unchanged.
* `no_dup_defs_partial` — under `HistOK` (every batch satisfies `DistinctBatches` and
  `NoNameCollision`) the named entries have pairwise distinct names.  The unconditional statement
  `no_dup_defs_full` is FALSE on the current tree: `Proofs/C16Findings.lean`.
* `split_inv` — two independent batches give the same set of named definitions (name + structure
  with names in place of ids) whether they are added as one batch, as two, or in the other order.

Definitions used in the statements: `Space.Inv`, `Space.NoDupDefs`, `Space.DistinctBatches`,
`Space.NoNameCollision`, `Space.Res`, `Space.NamedDef` (in `Proofs/Lemmas/Space*.lean`). -/
set_option autoImplicit false
namespace TypifyModel.C16
open TypifyModel TypifyModel.Space
open TypifyModel.Names (Str)

/-! ## invariant -/

theorem inv_init : Inv Space.init := inv_init'

theorem inv_step {fuel : Nat} {c : Call} {σ σ' : State} {r : Option Nat}
    (h : step fuel c σ = .ok (r, σ')) (hi : Inv σ) : Inv σ' := (step_inv h hi).1

theorem run_cons {fuel : Nat} {c : Call} {cs : List Call} {σ σ' : State} {rs : List (Option Nat)}
    (h : run fuel (c :: cs) σ = .ok (σ', rs)) :
    ∃ r σ1 rs', step fuel c σ = .ok (r, σ1) ∧ run fuel cs σ1 = .ok (σ', rs') ∧ rs = r :: rs' := by
  simp only [run] at h
  split at h
  · cases h
  · rename_i r σ1 h1
    split at h
    · cases h
    · rename_i σ2 rs' h2
      simp only [R.ok.injEq, Prod.mk.injEq] at h
      exact ⟨r, σ1, rs', h1, by rw [← h.1]; exact h2, h.2.symm⟩

/-- every reachable state satisfies the invariant -/
theorem inv_run {fuel : Nat} : ∀ (cs : List Call) (σ σ' : State) (rs : List (Option Nat)),
    run fuel cs σ = .ok (σ', rs) → Inv σ → Inv σ' := by
  intro cs
  induction cs with
  | nil => intro σ σ' rs h hi; simp only [run, R.ok.injEq, Prod.mk.injEq] at h; rw [← h.1]; exact hi
  | cons c cs ih =>
    intro σ σ' rs h hi
    obtain ⟨r, σ1, rs', h1, h2, _⟩ := run_cons h
    exact ih _ _ _ h2 (inv_step h1 hi)

/-! ## frame -/

/-- **Frame.** A successful call changes no entry below the `next_id` it started from. -/
theorem frame_acyclic {fuel : Nat} {c : Call} {σ σ' : State} {r : Option Nat}
    (h : step fuel c σ = .ok (r, σ')) :
    σ.nextId ≤ σ'.nextId ∧ ∀ i, i < σ.nextId → σ'.entry i = σ.entry i := step_frame h

theorem frame_run {fuel : Nat} : ∀ (cs : List Call) (σ σ' : State) (rs : List (Option Nat)),
    run fuel cs σ = .ok (σ', rs) →
    σ.nextId ≤ σ'.nextId ∧ ∀ i, i < σ.nextId → σ'.entry i = σ.entry i := by
  intro cs
  induction cs with
  | nil =>
    intro σ σ' rs h
    simp only [run, R.ok.injEq, Prod.mk.injEq] at h
    rw [← h.1]; exact ⟨Nat.le_refl _, fun _ _ => rfl⟩
  | cons c cs ih =>
    intro σ σ' rs h
    obtain ⟨r, σ1, rs', h1, h2, _⟩ := run_cons h
    obtain ⟨n1, f1⟩ := frame_acyclic h1
    obtain ⟨n2, f2⟩ := ih _ _ _ h2
    exact ⟨Nat.le_trans n1 n2, fun i hi => by rw [f2 i (Nat.lt_of_lt_of_le hi n1), f1 i hi]⟩

/-- `j` is `i` or is mentioned (transitively) by the entry of `i` -/
inductive Reach (σ : State) : Nat → Nat → Prop
  | refl (i : Nat) : Reach σ i i
  | step {i j k : Nat} {e : Details} : Reach σ i j → σ.entry j = some e → k ∈ e.ids → Reach σ i k

theorem reach_lt {σ : State} (hi : Inv σ) {i j : Nat} (h : Reach σ i j) (hlt : i < σ.nextId) :
    j < σ.nextId := by
  induction h with
  | refl => exact hlt
  | step _ he hk _ => exact hi.child_lt _ _ he _ hk

/-- **Returned ids are stable.** The id a call returned, and every id reachable from it, resolves to
    the same entry — same name, same structure, hence same identifier — after any later calls. -/
theorem returned_stable {fuel : Nat} {c : Call} {cs : List Call} {σ σ1 σ2 : State} {id : Nat}
    {rs : List (Option Nat)} (hi : Inv σ) (h1 : step fuel c σ = .ok (some id, σ1))
    (h2 : run fuel cs σ1 = .ok (σ2, rs)) :
    ∀ j, Reach σ1 id j → σ2.entry j = σ1.entry j := by
  intro j hj
  obtain ⟨i1, hlt⟩ := step_inv h1 hi
  exact (frame_run _ _ _ _ h2).2 j (reach_lt i1 hj (hlt id rfl))

/-! ## re-adding -/

/-- **Re-adding.** `add_type_with_name` with the same schema and hint a second time returns the
    same id and leaves the state as it is: no id is allocated, no definition is added. -/
theorem readd {fuel : Nat} {s : Sch} {hint : Option Str} {σ σ1 : State} {id : Nat} (hi : Inv σ)
    (h : addTypeWithName fuel s hint σ = .ok (id, σ1)) :
    addTypeWithName fuel s hint σ1 = .ok (id, σ1) := by
  obtain ⟨σm, hm, hf⟩ := addTypeWithName_steps h
  unfold idForSchema at hm
  split at hm
  · cases hm
  · rename_i e σc hc
    simp only [R.ok.injEq] at hm
    obtain ⟨hs, _, he⟩ := finalizeFrom_spec hf
    have sim_m : Sim σm σ1 := sim_of_finalized hs he
    have sim_a : Sim (assignType e σc).2 σ1 := by rw [hm]; exact sim_m
    have sim_c : Sim σc σ1 := Sim.of_ext (assignType_ext e σc) sim_a
    have c2 := convertLite_stable _ _ _ _ _ _ hc hi σ1 sim_c
    have a2 := assignType_stable sim_a
    rw [hm] at a2
    unfold addTypeWithName idForSchema
    dsimp only
    rw [c2]
    dsimp only
    rw [a2]
    dsimp only
    unfold finalizeFrom
    rw [Nat.sub_self]
    rfl

/-- the same at the level of histories: a repeated `add_type_with_name` call is a no-op returning
    the same id -/
theorem readd_step {fuel : Nat} {s : Sch} {hint : Option Str} {σ σ1 : State} {r : Option Nat} (hi : Inv σ)
    (h : step fuel (.typeWithName s hint) σ = .ok (r, σ1)) :
    step fuel (.typeWithName s hint) σ1 = .ok (r, σ1) := by
  simp only [step] at h ⊢
  split at h
  · cases h
  · rename_i id σ' h1
    simp only [R.ok.injEq, Prod.mk.injEq] at h
    obtain ⟨rfl, rfl⟩ := h
    rw [readd hi h1]

/-! ## no duplicate definitions -/

/-- the definitions a call hands to `add_ref_types_impl` -/
def callDefs : Call → List (RefKey × Sch)
  | .refTypes defs => defKeys defs
  | .rootSchema root defs => rootDefs root defs
  | .typeWithName _ _ => []

/-- the two named hypotheses for one call, evaluated in the state the call starts from -/
def CallOK (fuel : Nat) (c : Call) (σ : State) : Prop :=
  DistinctBatches (callDefs c) σ ∧ NoNameCollision fuel (callDefs c)

instance (fuel : Nat) (c : Call) (σ : State) : Decidable (CallOK fuel c σ) := by
  unfold CallOK; infer_instance

/-- every call of the history satisfies `CallOK` in the state it is made in -/
def HistOK (fuel : Nat) : List Call → State → Prop
  | [], _ => True
  | c :: cs, σ => CallOK fuel c σ ∧ ∀ r σ', step fuel c σ = .ok (r, σ') → HistOK fuel cs σ'

instance instDecHistOK (fuel : Nat) : (cs : List Call) → (σ : State) → Decidable (HistOK fuel cs σ)
  | [], _ => isTrue trivial
  | c :: cs, σ =>
    match hs : step fuel c σ with
    | .fail f => decidable_of_iff (CallOK fuel c σ) (by
        simp only [HistOK, hs]
        exact ⟨fun h => ⟨h, fun _ _ h' => by cases h'⟩, fun h => h.1⟩)
    | .ok (r, σ') =>
      have := instDecHistOK fuel cs σ'
      decidable_of_iff (CallOK fuel c σ ∧ HistOK fuel cs σ') (by
        simp only [HistOK, hs]
        exact ⟨fun h => ⟨h.1, fun r0 σ0 h' => by
            simp only [R.ok.injEq, Prod.mk.injEq] at h'; rw [← h'.2]; exact h.2⟩,
          fun h => ⟨h.1, h.2 r σ' rfl⟩⟩)

/-- full statement (FALSE on the current tree, see `Proofs/C16Findings.lean`) -/
def no_dup_defs_full : Prop :=
  ∀ (fuel : Nat) (cs : List Call) (σ : State) (rs : List (Option Nat)),
    run fuel cs Space.init = .ok (σ, rs) → NoDupDefs σ

theorem step_nameInj {fuel : Nat} {c : Call} {σ σ' : State} {r : Option Nat}
    (h : step fuel c σ = .ok (r, σ')) (hi : Inv σ) (hinj : NameInj σ) (hok : CallOK fuel c σ) :
    NameInj σ' := by
  cases c with
  | refTypes defs =>
    simp only [step, addRefTypes] at h
    split at h
    · cases h
    · rename_i σ1 h1
      simp only [R.ok.injEq, Prod.mk.injEq] at h
      rw [← h.2]; exact addRefTypesImpl_nameInj h1 hi hinj hok.1 hok.2
  | rootSchema root defs =>
    simp only [step, addRootSchema] at h
    split at h
    · cases h
    · rename_i σ1 h1
      simp only [R.ok.injEq, Prod.mk.injEq] at h
      rw [← h.2]; exact addRefTypesImpl_nameInj h1 hi hinj hok.1 hok.2
  | typeWithName s hint =>
    simp only [step] at h
    split at h
    · cases h
    · rename_i id σ1 h1
      simp only [R.ok.injEq, Prod.mk.injEq] at h
      rw [← h.2]; exact addTypeWithName_nameInj h1 hi hinj

theorem run_nameInj {fuel : Nat} : ∀ (cs : List Call) (σ σ' : State) (rs : List (Option Nat)),
    run fuel cs σ = .ok (σ', rs) → Inv σ → NameInj σ → HistOK fuel cs σ → NameInj σ' := by
  intro cs
  induction cs with
  | nil =>
    intro σ σ' rs h _ hinj _
    simp only [run, R.ok.injEq, Prod.mk.injEq] at h; rw [← h.1]; exact hinj
  | cons c cs ih =>
    intro σ σ' rs h hi hinj hok
    obtain ⟨r, σ1, rs', h1, h2, _⟩ := run_cons h
    exact ih _ _ _ h2 (inv_step h1 hi) (step_nameInj h1 hi hinj hok.1) (hok.2 r σ1 h1)

/-- **No duplicate definitions (partial).** If every batch of the history brings definition names
    that are new to the space (`DistinctBatches`), pairwise distinct and not taken by one of the
    batch's own inline types (`NoNameCollision`), the named entries of the final state have pairwise
    distinct names — so the rendered output has no two definitions of one name. -/
theorem no_dup_defs_partial {fuel : Nat} {cs : List Call} {σ : State} {rs : List (Option Nat)}
    (h : run fuel cs Space.init = .ok (σ, rs)) (hok : HistOK fuel cs Space.init) : NoDupDefs σ :=
  (run_nameInj cs _ _ _ h inv_init nameInj_init hok).noDup

/-- `add_type_with_name` alone never duplicates a name, whatever the hints and titles -/
theorem no_dup_defs_types {fuel : Nat} {s : Sch} {hint : Option Str} {σ σ' : State} {id : Nat}
    (h : addTypeWithName fuel s hint σ = .ok (id, σ')) (hi : Inv σ) (hinj : NameInj σ) : NoDupDefs σ' :=
  (addTypeWithName_nameInj h hi hinj).noDup

/-! ## splitting and permuting independent additions -/

/-- a name has one structure in the denotation -/
def Functional (E : List (Str × Shape)) : Prop := ∀ x ∈ E, ∀ y ∈ E, x.1 = y.1 → x.2 = y.2

instance (E : List (Str × Shape)) : Decidable (Functional E) := by unfold Functional; infer_instance

theorem mem_batchExpected_congr {rn : RefKey → Option Str} {f : Nat} {l1 l2 : List (Str × Sch)}
    (h : ∀ d, d ∈ l1 ↔ d ∈ l2) (x : Str × Shape) :
    x ∈ batchExpected rn f (defKeys l1) ↔ x ∈ batchExpected rn f (defKeys l2) := by
  unfold batchExpected defKeys
  simp only [List.mem_flatMap, List.mem_map]
  constructor
  · rintro ⟨d, ⟨p, hp, rfl⟩, hx⟩; exact ⟨_, ⟨p, (h p).mp hp, rfl⟩, hx⟩
  · rintro ⟨d, ⟨p, hp, rfl⟩, hx⟩; exact ⟨_, ⟨p, (h p).mpr hp, rfl⟩, hx⟩

/-- **Split / permutation invariance, general form.** Two sequences of `add_ref_types` calls that
    add the same definitions — cut into any number of batches, in any order — to the same space
    `σ0`, both succeeding (so no batch refers to a definition added later) and both satisfying
    `DistinctBatches` / `NoNameCollision` at every batch, end in states with the same set of named
    definitions: the same names with the same structures (ids replaced by names).  `Functional`: the
    schemas denote one structure per name (no two different inline types compete for a name). -/
theorem split_inv_general {fuel : Nat} {r : Option Str} {bs1 bs2 : List (List (Str × Sch))}
    {σ0 F1 F2 : State} (hi : Inv σ0) (hinj : NameInj σ0) (hr : RefNamed (rnR r) σ0.refToId σ0)
    (h1 : runBatches fuel bs1 σ0 = .ok F1) (h2 : runBatches fuel bs2 σ0 = .ok F2)
    (ok1 : BatchesOK fuel bs1 σ0) (ok2 : BatchesOK fuel bs2 σ0)
    (hperm : ∀ d, d ∈ bs1.flatten ↔ d ∈ bs2.flatten)
    (hfun : Functional (batchExpected (rnR r) fuel (defKeys bs1.flatten))) : SameDefs F1 F2 := by
  have c1 := char_run (r := r) bs1 [] σ0 σ0 F1 h1 ok1 (Char.init hi hinj hr)
  have c2 := char_run (r := r) bs2 [] σ0 σ0 F2 h2 ok2 (Char.init hi hinj hr)
  refine sameDefs_of_char hi c1 c2 (fun x => ?_) (fun m a b ha hb => ?_)
  · simp only [List.nil_append]; exact mem_batchExpected_congr hperm x
  · simp only [List.nil_append] at ha hb
    exact hfun _ ha _ hb rfl

/-- **Split / permutation invariance.** Two sets of definitions `A`, `B` added to `σ0` as two batches
    in either order, or as one batch, give the same set of named definitions. -/
theorem split_inv {fuel : Nat} {r : Option Str} {A B : List (Str × Sch)} {σ0 σAB σBA σ1 : State}
    (hi : Inv σ0) (hinj : NameInj σ0) (hr : RefNamed (rnR r) σ0.refToId σ0)
    (hAB : runBatches fuel [A, B] σ0 = .ok σAB) (hBA : runBatches fuel [B, A] σ0 = .ok σBA)
    (h1 : runBatches fuel [A ++ B] σ0 = .ok σ1)
    (okAB : BatchesOK fuel [A, B] σ0) (okBA : BatchesOK fuel [B, A] σ0) (ok1 : BatchesOK fuel [A ++ B] σ0)
    (hfun : Functional (batchExpected (rnR r) fuel (defKeys (A ++ B)))) :
    SameDefs σAB σBA ∧ SameDefs σAB σ1 := by
  have hf : Functional (batchExpected (rnR r) fuel (defKeys [A, B].flatten)) := by simpa using hfun
  constructor
  · exact split_inv_general hi hinj hr hAB hBA okAB okBA (fun d => by simp [or_comm]) hf
  · exact split_inv_general hi hinj hr hAB h1 okAB ok1 (fun d => by simp) hf

/-- **The id-isomorphism, explicitly.** Under the hypotheses of `split_inv_general` and when every
    named entry of the base state has a structure (`Shaped`; true of the empty space), the renaming
    `namePi F1 F2` of ids maps every named entry of `F1` to an entry of `F2` with the same name and the
    same structure, and every named entry of `F2` is hit. -/
theorem split_iso {fuel : Nat} {r : Option Str} {bs1 bs2 : List (List (Str × Sch))}
    {σ0 F1 F2 : State} (hi : Inv σ0) (hinj : NameInj σ0) (hr : RefNamed (rnR r) σ0.refToId σ0)
    (hsh : Shaped σ0)
    (h1 : runBatches fuel bs1 σ0 = .ok F1) (h2 : runBatches fuel bs2 σ0 = .ok F2)
    (ok1 : BatchesOK fuel bs1 σ0) (ok2 : BatchesOK fuel bs2 σ0)
    (hperm : ∀ d, d ∈ bs1.flatten ↔ d ∈ bs2.flatten)
    (hfun : Functional (batchExpected (rnR r) fuel (defKeys bs1.flatten))) :
    IdIso (namePi F1 F2) F1 F2 := by
  have c1 := char_run (r := r) bs1 [] σ0 σ0 F1 h1 ok1 (Char.init hi hinj hr)
  have c2 := char_run (r := r) bs2 [] σ0 σ0 F2 h2 ok2 (Char.init hi hinj hr)
  exact idIso_of_sameDefs (split_inv_general hi hinj hr h1 h2 ok1 ok2 hperm hfun)
    (char_shaped hi hsh c1) (char_shaped hi hsh c2) c1.inj c2.inj

theorem refNamed_init (rn : RefKey → Option Str) : RefNamed rn Space.init.refToId Space.init := by
  intro k t h; simp [Space.init, alookup] at h

/-- `runBatches` is `run` on `add_ref_types` calls -/
theorem run_refTypes {fuel : Nat} : ∀ (bs : List (List (Str × Sch))) (σ F : State),
    runBatches fuel bs σ = .ok F → ∃ rs, run fuel (bs.map Call.refTypes) σ = .ok (F, rs) := by
  intro bs
  induction bs with
  | nil => intro σ F h; simp only [runBatches, R.ok.injEq] at h; exact ⟨[], by simp [run, h]⟩
  | cons b bs ih =>
    intro σ F h
    simp only [runBatches] at h
    split at h
    · cases h
    · rename_i σ1 h1
      obtain ⟨rs, hrs⟩ := ih σ1 F h
      exact ⟨none :: rs, by simp [run, step, h1, hrs]⟩

/-! ## non-vacuity: the hypotheses of the theorems above are satisfiable by non-trivial inputs -/

def R.isOk {α : Type} : R α → Bool
  | .ok _ => true
  | .fail _ => false

/-- `A {x: String, y?: B}`, `B = enum {a, b}`; then `Vec<String>`; then an inline struct `T` twice -/
def exA : Sch :=
  .obj none [("x".toList, .str none), ("y".toList, .ref none (.defn "B".toList))] ["x".toList] false
def exB : Sch := .enumStr none ["a".toList, "b".toList]
def exT : Sch := .obj (some "T".toList) [("z".toList, .int none)] [] false
def exHist : List Call :=
  [.refTypes [("A".toList, exA), ("B".toList, exB)],
   .typeWithName (.arr none (.str none)) none,
   .typeWithName exT (some "hint".toList),
   .typeWithName exT (some "hint".toList)]

set_option maxRecDepth 100000 in
/-- `inv_run`, `frame_run`, `returned_stable`, `readd_step` apply: the history runs (4 calls, 8 entries) -/
example : R.isOk (run 5 exHist Space.init) = true := by decide

set_option maxRecDepth 100000 in
/-- `no_dup_defs_partial` applies: the history satisfies `HistOK` -/
example : HistOK 5 exHist Space.init := by decide

set_option maxRecDepth 100000 in
/-- `readd`: the fourth call returns the id of the third and the states after them are equal -/
example : (match run 5 (exHist.take 3) Space.init, run 5 exHist Space.init with
    | .ok (σ3, r3), .ok (σ4, r4) => decide (σ3 = σ4) && r4 == r3 ++ [r3.getLast?.join]
    | _, _ => false) = true := by decide

/-- two independent sets of definitions: `A {x, k: Kind}` with an inline enum, and `B = Vec<Item>`
    with an inline struct plus an alias `C = B` -/
def bA : List (Str × Sch) :=
  [("A".toList, .obj none [("x".toList, .str none),
      ("k".toList, .enumStr (some "Kind".toList) ["a".toList, "b".toList])] ["x".toList] false)]
def bB : List (Str × Sch) :=
  [("B".toList, .arr none (.obj (some "Item".toList) [("n".toList, .int none)] ["n".toList] false)),
   ("C".toList, .ref none (.defn "B".toList))]

set_option maxRecDepth 100000 in
/-- `split_inv` applies to `bA`, `bB` from the empty space: all three arrangements succeed … -/
example : R.isOk (runBatches 5 [bA, bB] Space.init) = true ∧ R.isOk (runBatches 5 [bB, bA] Space.init) = true
    ∧ R.isOk (runBatches 5 [bA ++ bB] Space.init) = true := by decide

set_option maxRecDepth 100000 in
/-- … satisfy the per-batch hypotheses … -/
example : BatchesOK 5 [bA, bB] Space.init ∧ BatchesOK 5 [bB, bA] Space.init
    ∧ BatchesOK 5 [bA ++ bB] Space.init := by decide

set_option maxRecDepth 100000 in
/-- … and the denotation is functional (5 definitions: A, Kind, B, Item, C) -/
example : Functional (batchExpected (rnR none) 5 (defKeys (bA ++ bB))) ∧
    (batchExpected (rnR none) 5 (defKeys (bA ++ bB))).length = 5 := by decide

end TypifyModel.C16

import TypifyModel.Proofs.C18
/-! Known finding `C18-eager-default` (KNOWN_FINDINGS.json).

`T::builder()` is `Default::default()` of `builder::T`, which evaluates the default expression of EVERY
property before any setter runs (type_entry.rs:1262-1287). When typify accepted a schema default that the
property's Rust type does not deserialize (a C06 defect; pinned by the fixture
`types-with-defaults.json`: `{"type":"string","format":"uuid","default":"abc123-is-this-a-uuid"}`), the
emitted default function `serde_json::from_str(..).unwrap()` panics — so the builder cannot even be
started, also when the caller sets that very property, while `from_value` of an object that has the
member succeeds without ever calling the default function.

The C18 theorems carve this out by their hypothesis `slots … = .ok sl`. Here: the mechanism predicate,
the full statement with its kernel-checked refutation, and the partial theorem.
This file is *expected* to stop compiling when the finding is repaired (setters-first / lazy defaults). -/
namespace TypifyModel.C18
open TypifyModel TypifyModel.Serde TypifyModel.Builder

/-- mechanism predicate: some property carries a schema default its type does not deserialize -/
def Defect.undeserializableDefault (x : Ext) (σ : Space) (f : Nat) (ps : List Field) : Bool :=
  ps.any fun p =>
    match p.state with
    | .dflt d => (match de x σ f p.ty d with | .error .reject => true | _ => false)
    | _ => false

/-- the builder state a caller expects who sets every property: exactly the setters' outcomes -/
def allSet (choice : Field → Option Arg) (ps : List Field) : List (String × Slot) :=
  ps.map fun p => (p.name, match choice p with | some a => setSlot p.name a | none => .error "")

/-- the full statement: when every property is set through the builder, no default is consulted (as
    `from_value` of the object with all members consults none): with enough fuel the state exists -/
def builder_all_set_full : Prop :=
  ∀ (x : Ext) (σ : Space) (choice : Field → Option Arg) (ps : List Field),
    (∀ p ∈ ps, ∃ a, choice p = some a) → ∃ f, slots x σ f choice ps = .ok (allSet choice ps)

/-- … which holds whenever every default expression evaluates -/
theorem builder_all_set_partial (x : Ext) (σ : Space) (f : Nat) (choice : Field → Option Arg) :
    ∀ (ps : List Field), (∀ p ∈ ps, ∃ s0, initSlot x σ f p = .ok s0) →
      (∀ p ∈ ps, ∃ a, choice p = some a) → slots x σ f choice ps = .ok (allSet choice ps) := by
  intro ps
  induction ps with
  | nil => intro _ _; rfl
  | cons p r ih =>
    intro hd hs
    obtain ⟨s0, hi⟩ := hd p (by simp)
    obtain ⟨a, ha⟩ := hs p (by simp)
    have ihr := ih (fun q hq => hd q (by simp [hq])) (fun q hq => hs q (by simp [hq]))
    simp only [slots, slotOf, hi, ha, ihr, allSet, List.map_cons]

/-- a default expression fails exactly through the defect, or by leaving the model's domain -/
theorem initSlot_error_of_defect (x : Ext) (σ : Space) (f : Nat) (p : Field) (d : Json)
    (hst : p.state = .dflt d) (hde : de x σ f p.ty d = .error .reject) :
    initSlot x σ f p = .error .unsupported := by
  unfold initSlot; rw [hst]; simp only [hde]

/-- with the defect the builder has no state, whatever setters are called -/
theorem defect_blocks_builder (x : Ext) (σ : Space) (f : Nat) (choice : Field → Option Arg) :
    ∀ (ps : List Field), Defect.undeserializableDefault x σ f ps = true →
      ∃ e, slots x σ f choice ps = .error e := by
  intro ps
  induction ps with
  | nil => intro h; simp [Defect.undeserializableDefault] at h
  | cons p r ih =>
    intro h
    simp only [Defect.undeserializableDefault, List.any_cons, Bool.or_eq_true] at h
    simp only [slots]
    rcases h with h | h
    · cases hst : p.state with
      | required => rw [hst] at h; simp at h
      | optional => rw [hst] at h; simp at h
      | dflt d =>
        rw [hst] at h; simp only at h
        have hde : de x σ f p.ty d = .error .reject := by
          split at h
          · assumption
          · simp at h
        have := initSlot_error_of_defect x σ f p d hst hde
        simp only [slotOf, this]
        exact ⟨_, rfl⟩
    · obtain ⟨e, he⟩ := ih h
      rw [he]
      cases slotOf x σ f choice p with
      | ok s => exact ⟨e, rfl⟩
      | error e' => exact ⟨e', rfl⟩

/-! the witness: one boolean property `a` with schema default `"x"`, and the caller sets `a` -/
def witSpace : Space := { entries := [(0, { details := .boolean })], nextId := 1 }
def witProps : List Field := [{ name := "a", rename := .none, state := .dflt (.str "x"), ty := 0 }]
def witChoice : Field → Option Arg := fun _ => some (.value (.bool true))
def witExt : Ext := { regex := fun _ _ => false }

theorem wit_defect (f : Nat) : Defect.undeserializableDefault witExt witSpace (f + 1) witProps = true := by
  simp [Defect.undeserializableDefault, witProps, witSpace, de, Space.get]

/-- it is false on the current tree (known finding C18-eager-default) -/
theorem builder_all_set_full_false : ¬ builder_all_set_full := by
  intro h
  obtain ⟨f, hf⟩ := h witExt witSpace witChoice witProps (by intro p _; exact ⟨_, rfl⟩)
  cases f with
  | zero => simp [slots, slotOf, initSlot, witProps, de] at hf
  | succ f =>
    obtain ⟨e, he⟩ := defect_blocks_builder witExt witSpace (f + 1) witChoice witProps (wit_defect f)
    rw [he] at hf; simp at hf

/-! non-vacuity of the partial theorem: a property with a default that does deserialize -/
example : slots witExt witSpace 1 witChoice [{ name := "a", rename := .none, state := .dflt (.bool false), ty := 0 }]
    = .ok [("a", .ok (.bool true))] := by
  simp [slots, slotOf, initSlot, de, witSpace, Space.get, witChoice, setSlot]

end TypifyModel.C18

import TypifyModel.Proofs.Lemmas.IntegerLemmas
import TypifyModel.Generated.Tables
/-! # C10 — built-in type selection can represent every value the schema admits

Property theorems only (helpers live in `Proofs/Lemmas`). They are stated over the table
`Generated.intFormats`, which the translator regenerates from `convert.rs` on every run, and over
`Integer.convertInteger`, which the correspondence check `c10` ties to the real `convert_integer`. -/
namespace TypifyModel.C10
open TypifyModel TypifyModel.Integer TypifyModel.Generated

/-- the regenerated table satisfies the per-row facts (true ranges of the named Rust types) -/
theorem table_ok : TableOK intFormats := by decide

/-- the recognised format's row, if any -/
def fmtRow (tbl : List FormatRow) (s : IntSchema) : Option FormatRow :=
  s.format.bind (fun f => tbl.find? (fun r => r.name == f))

/-- "reading recognised integer formats as ranges": the range of the format's type, else i64's -/
def baseline (tbl : List FormatRow) (s : IntSchema) : RTy :=
  match fmtRow tbl s with
  | some r => r.ty
  | none => .i64

theorem fmtRow_mem {tbl : List FormatRow} {s : IntSchema} {r : FormatRow}
    (h : fmtRow tbl s = some r) : r ∈ tbl := by
  unfold fmtRow at h
  cases hf : s.format with
  | none => rw [hf] at h; simp at h
  | some f => rw [hf] at h; simp only [Option.bind_some] at h; exact List.mem_of_find?_eq_some h

/-- **C10 main theorem (any table satisfying the row facts).** Every integer admitted by the
    schema's bounds and by the recognised format's range fits the chosen Rust type. No bound on
    the magnitude of the keywords: rounding to f64 is part of the model. -/
theorem int_fits_tbl (tbl : List FormatRow) (htbl : TableOK tbl) (s : IntSchema) (ty : RTy) (n : Int)
    (hconv : convertInteger tbl s = .ok ty) (hadm : admits s n)
    (hbase : (baseline tbl s).inRange n) : ty.inRange n := by
  have hmin := computeMin_sound hadm
  have hmax := computeMax_sound hadm
  unfold convertInteger at hconv
  unfold baseline at hbase
  change (match fmtRow tbl s with | some r => _ | none => _) = _ at hconv
  cases hrow : fmtRow tbl s with
  | none =>
    rw [hrow] at hconv hbase
    simp only at hconv hbase
    obtain ⟨hl, hh⟩ := hbase
    simp only [RTy.lo, RTy.hi] at hl hh
    exact tail_fits htbl hconv hmin hmax hl hh (by omega) (by omega)
      (by intro h; omega) (by unfold RTy.inRange; simp only [RTy.lo, RTy.hi]; omega)
  | some row =>
    rw [hrow] at hconv hbase
    simp only at hconv hbase
    have hrok := htbl.1 row (fmtRow_mem hrow)
    obtain ⟨rmin, rlo0, rhi0, rmax, rlo, rhi, nzlo, nzhi, _, _, rbig, _⟩ := hrok
    obtain ⟨hl, hh⟩ := hbase
    unfold withFormat at hconv
    by_cases hv : formatValid s row (computeMin s) (computeMax s) = true
    · -- the format's own range is respected: its type, or its NonZero type when min = 1
      rw [if_pos hv] at hconv
      by_cases hd : formatDefaultBad s row (computeMin s) (computeMax s) = true
      · rw [if_pos hd] at hconv; simp at hconv
      · rw [if_neg hd] at hconv
        by_cases h1 : computeMin s = some 1
        · rw [if_pos h1] at hconv
          simp only [Except.ok.injEq] at hconv; subst hconv
          have := hmin 1 h1 (by unfold Small; omega)
          unfold RTy.inRange; omega
        · rw [if_neg h1] at hconv
          simp only [Except.ok.injEq] at hconv; subst hconv
          exact ⟨hl, hh⟩
    · -- fall-through: bounds intersected with the format's range
      rw [if_neg hv] at hconv
      refine tail_fits (lb := row.ty.lo) (hb := row.ty.hi) htbl hconv ?_ ?_ hl hh (by omega) rhi ?_ ⟨hl, hh⟩
      · intro m hm hs
        simp only [Option.some.injEq] at hm
        unfold intersectMin at hm
        cases hmn : computeMin s with
        | none => rw [hmn] at hm; simp only at hm; omega
        | some m0 =>
          rw [hmn] at hm; simp only at hm
          have hc : m0 = m ∨ row.min = m := by omega
          rcases hc with h | h
          · exact hmin m (by rw [hmn, h]) hs
          · omega
      · intro m hm hs
        simp only [Option.some.injEq] at hm
        unfold intersectMax at hm
        cases hmx : computeMax s with
        | none =>
          rw [hmx] at hm; simp only at hm
          unfold Small at hs
          rcases rmax with ⟨h1, _⟩ | ⟨h1, h2⟩ <;> omega
        | some m0 =>
          rw [hmx] at hm; simp only at hm
          have hc : m0 = m ∨ row.max = m := by omega
          rcases hc with h | h
          · exact hmax m (by rw [hmx, h]) hs
          · unfold Small at hs
            rcases rmax with ⟨h1, _⟩ | ⟨h1, h2⟩ <;> omega
      · intro hb
        have := rbig hb
        refine ⟨intersectMin row (computeMin s), rfl, ?_⟩
        unfold intersectMin
        cases hmn : computeMin s with
        | none => simp only; omega
        | some m0 => simp only; omega

/-- **C10 on the current source**: instantiated with the table extracted from `/repo` now. -/
theorem int_fits (s : IntSchema) (ty : RTy) (n : Int)
    (hconv : convertInteger intFormats s = .ok ty) (hadm : admits s n)
    (hbase : (baseline intFormats s).inRange n) : ty.inRange n :=
  int_fits_tbl intFormats table_ok s ty n hconv hadm hbase


/-- helper: a successful tail that yields a NonZero type had (min = 1) -/
theorem tail_nz {tbl : List FormatRow} (htbl : TableOK tbl) {s : IntSchema} {mn mx : Option Int}
    {fb t : RTy} (h : tail tbl s mn mx fb = .ok t) (hfb : fb.isNonZero = false)
    (hnz : t.isNonZero = true) : mn = some 1 := by
  unfold tail at h
  split at h
  · simp at h
  · split at h
    · rename_i t' hfind
      simp only [Except.ok.injEq] at h; subst h
      unfold maybeType at hfind
      split at hfind
      · simp at hfind
      · by_cases h1 : mn = some 1
        · exact h1
        · obtain ⟨r, hrmem, hr⟩ := List.exists_of_findSome?_eq_some hfind
          have hrok := htbl.1 r (List.mem_reverse.mp hrmem)
          obtain ⟨_, _, _, _, _, _, _, _, _, hty, _, _⟩ := hrok
          unfold matchRow at hr
          split at hr
          · split at hr
            · simp only [Option.some.injEq] at hr; subst hr; rw [hty] at hnz; simp at hnz
            · simp at hr
          · split at hr
            · rename_i h'; exact absurd (by rw [h']) h1
            · split at hr
              · simp only [Option.some.injEq] at hr; subst hr; rw [hty] at hnz; simp at hnz
              · simp at hr
          · split at hr
            · rename_i h'; exact absurd (by rw [h']) h1
            · split at hr
              · simp only [Option.some.injEq] at hr; subst hr; rw [hty] at hnz; simp at hnz
              · simp at hr
          · simp at hr
    · simp only [Except.ok.injEq] at h; subst h; rw [hfb] at hnz; simp at hnz

/-- **C10: a NonZero type is chosen only when zero is excluded.** -/
theorem nz_only_tbl (tbl : List FormatRow) (htbl : TableOK tbl) (s : IntSchema) (ty : RTy)
    (hconv : convertInteger tbl s = .ok ty) (hnz : ty.isNonZero = true) : ¬ admits s 0 := by
  intro hadm
  have hmin := computeMin_sound hadm
  have key : computeMin s = some 1 → False := by
    intro h1
    have := hmin 1 h1 (by unfold Small; omega)
    omega
  unfold convertInteger at hconv
  change (match fmtRow tbl s with | some r => _ | none => _) = _ at hconv
  cases hrow : fmtRow tbl s with
  | none =>
    rw [hrow] at hconv; simp only at hconv
    exact key (tail_nz htbl hconv rfl hnz)
  | some row =>
    rw [hrow] at hconv; simp only at hconv
    have hrok := htbl.1 row (fmtRow_mem hrow)
    obtain ⟨rmin, rlo0, _, _, _, _, _, _, _, hty, _, _⟩ := hrok
    unfold withFormat at hconv
    by_cases hv : formatValid s row (computeMin s) (computeMax s) = true
    · rw [if_pos hv] at hconv
      by_cases hd : formatDefaultBad s row (computeMin s) (computeMax s) = true
      · rw [if_pos hd] at hconv; simp at hconv
      · rw [if_neg hd] at hconv
        by_cases h1 : computeMin s = some 1
        · exact key h1
        · rw [if_neg h1] at hconv
          simp only [Except.ok.injEq] at hconv; subst hconv
          rw [hty] at hnz; simp at hnz
    · rw [if_neg hv] at hconv
      have h1 := tail_nz htbl hconv hty hnz
      simp only [Option.some.injEq] at h1
      unfold intersectMin at h1
      cases hmn : computeMin s with
      | none => rw [hmn] at h1; simp only at h1; omega
      | some m0 =>
        rw [hmn] at h1; simp only at h1
        have : m0 = 1 := by omega
        exact key (by rw [hmn, this])

theorem nz_only (s : IntSchema) (ty : RTy)
    (hconv : convertInteger intFormats s = .ok ty) (hnz : ty.isNonZero = true) : ¬ admits s 0 :=
  nz_only_tbl intFormats table_ok s ty hconv hnz

/-- **C10: an integer default outside the admitted range is an error** (keywords and default
    within ±2^52 so that their f64 images are exact). -/
theorem bad_default_tbl (tbl : List FormatRow) (htbl : TableOK tbl) (s : IntSchema) (d : Int)
    (hd : s.default = some (.num d)) (hsd : Small d) (hk : SmallKw s)
    (hbad : ¬ (admitsBounds s d ∧ (baseline tbl s).inRange d)) :
    convertInteger tbl s = .error .invalidValue := by
  have hrd : roundF64 d = d := round_of_Small hsd
  -- if the default passes every check the model makes, it is admitted: contradiction
  have tail_err : ∀ mn mx fb, (¬ ((∀ m, mn = some m → m ≤ d) ∧ (∀ m, mx = some m → d ≤ m))) →
      tail tbl s mn mx fb = .error .invalidValue := by
    intro mn mx fb hnot
    unfold tail
    have : tailDefaultOk s mn mx = false := by
      unfold tailDefaultOk
      rw [hd]; simp only [hrd]
      cases mn <;> cases mx <;> simp at hnot ⊢ <;> omega
    rw [this]; rfl
  unfold convertInteger
  change (match fmtRow tbl s with | some r => _ | none => _) = _
  unfold baseline at hbad
  cases hrow : fmtRow tbl s with
  | none =>
    rw [hrow] at hbad; simp only at hbad ⊢
    apply tail_err
    intro ⟨h1, h2⟩
    apply hbad
    have a := computeMin_complete hk h1
    have b := computeMax_complete hk h2
    refine ⟨⟨a.1, b.1, a.2, b.2⟩, ?_⟩
    unfold RTy.inRange Small at *; simp only [RTy.lo, RTy.hi]; omega
  | some row =>
    rw [hrow] at hbad; simp only at hbad ⊢
    have hrok := htbl.1 row (fmtRow_mem hrow)
    obtain ⟨rmin, rlo0, rhi0, rmax, rlo, rhi, _, _, _, _, _, _⟩ := hrok
    unfold withFormat
    by_cases hv : formatValid s row (computeMin s) (computeMax s) = true
    · rw [if_pos hv]
      have : formatDefaultBad s row (computeMin s) (computeMax s) = true := by
        unfold formatDefaultBad
        rw [hd]; simp only [hrd]
        apply Classical.byContradiction
        intro hnb
        apply hbad
        simp only [Bool.or_eq_true, decide_eq_true_eq, not_or, Int.not_lt] at hnb
        obtain ⟨⟨⟨b1, b2⟩, b3⟩, b4⟩ := hnb
        have a := computeMin_complete (d := d) hk (by
          intro m hm; rw [hm] at b3; simpa using b3)
        have b := computeMax_complete (d := d) hk (by
          intro m hm; rw [hm] at b4; simpa using b4)
        refine ⟨⟨a.1, b.1, a.2, b.2⟩, ?_⟩
        unfold RTy.inRange Small at *
        rcases rmax with ⟨h1, _⟩ | ⟨h1, h2⟩ <;> omega
      rw [if_pos this]
    · rw [if_neg hv]
      apply tail_err
      intro ⟨h1, h2⟩
      apply hbad
      have h1' := h1 _ rfl
      have h2' := h2 _ rfl
      unfold intersectMin at h1'
      unfold intersectMax at h2'
      have a := computeMin_complete (d := d) hk (by
        intro m hm; rw [hm] at h1'; simp only at h1'; omega)
      have b := computeMax_complete (d := d) hk (by
        intro m hm; rw [hm] at h2'; simp only at h2'; omega)
      refine ⟨⟨a.1, b.1, a.2, b.2⟩, ?_⟩
      unfold RTy.inRange Small at *
      have hlo : row.min ≤ d := by
        cases hmn : computeMin s with
        | none => rw [hmn] at h1'; simpa using h1'
        | some m => rw [hmn] at h1'; simp only at h1'; omega
      have hhi : d ≤ row.max := by
        cases hmx : computeMax s with
        | none => rw [hmx] at h2'; simpa using h2'
        | some m => rw [hmx] at h2'; simp only at h2'; omega
      rcases rmax with ⟨h1, _⟩ | ⟨h1, h2⟩ <;> omega

theorem bad_default (s : IntSchema) (d : Int)
    (hd : s.default = some (.num d)) (hsd : Small d) (hk : SmallKw s)
    (hbad : ¬ (admitsBounds s d ∧ (baseline intFormats s).inRange d)) :
    convertInteger intFormats s = .error .invalidValue :=
  bad_default_tbl intFormats table_ok s d hd hsd hk hbad


/-- Independent reading of the recognised integer formats as ranges (not taken from typify):
    the fixed-width names mean their widths; `int`/`uint` are what schemars emits for
    `isize`/`usize`, i.e. 64-bit on the targets typify supports. -/
def specRange (f : String) : Option (Int × Int) :=
  if f = "int8" then some (-128, 127)
  else if f = "uint8" then some (0, 255)
  else if f = "int16" then some (-32768, 32767)
  else if f = "uint16" then some (0, 65535)
  else if f = "int32" then some (-2147483648, 2147483647)
  else if f = "uint32" then some (0, 4294967295)
  else if f = "int64" then some (-9223372036854775808, 9223372036854775807)
  else if f = "uint64" then some (0, 18446744073709551615)
  else if f = "int" then some (-9223372036854775808, 9223372036854775807)
  else if f = "uint" then some (0, 18446744073709551615)
  else none

/-- full statement: every recognised format is read as (at least) its specified range -/
def formats_spec_full : Prop :=
  ∀ r ∈ intFormats, ∃ lo hi, specRange r.name = some (lo, hi) ∧ r.ty.lo ≤ lo ∧ hi ≤ r.ty.hi

/-- what does hold: every format other than `int`/`uint` has exactly its specified range, and
    the eight fixed-width names are all recognised -/
theorem formats_spec_partial :
    (intFormats.all fun r => r.name == "int" || r.name == "uint" ||
      specRange r.name == some (r.ty.lo, r.ty.hi)) = true := by decide

theorem formats_recognised :
    (["int8", "uint8", "int16", "uint16", "int32", "uint32", "int64", "uint64"].all fun f =>
      (intFormats.find? (fun r => r.name == f)).isSome) = true := by decide

-- non-vacuity: a schema on the fall-through path with an admitted, in-baseline value
example : convertInteger intFormats { format := some "uint64", minimum := some (-5) } = .ok .u64 := by rfl
example : admits { format := some "uint64", minimum := some (-5) } 9223372036854775813 := by
  refine ⟨?_, ?_, ?_, ?_, ?_⟩ <;> intro m h <;> simp at h <;> omega

end TypifyModel.C10

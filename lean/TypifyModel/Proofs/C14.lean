import TypifyModel.Proofs.Lemmas.SettingsApplyLemmas
import TypifyModel.Generated.Derives
/-! # C14 — replacement, conversion, patch, derive and map-type settings apply everywhere; none of
    them (nor the builder) changes what the remaining types accept or emit

∀ IR, ∀ settings, over the Render model (`Model/Render.lean`; tied to the real `to_stream()` by the M2
correspondence under every settings assignment the check draws).

How the settings reach the IR in the real code (validated on every dump by `tools/props/c14.py`):
* **replace** — `add_ref_types_impl` (lib.rs:644-673) looks the definition up by
  `sanitize(def_name, Pascal)` and stores `TypeEntry::new_native(replace_type, impls)` under the
  definition's id: hypothesis "`refId(def) ↦ native path`".
* **convert** — `convert_schema` (convert.rs:36) consults `cache.lookup` (schema with `metadata: None`)
  before anything else and returns the same `new_native` entry.
* **patch** — `type_patch` (util.rs:803) is called by every `from_metadata` constructor
  (type_entry.rs:295/381/412/442/474/512): the entry is *stored* under the new name with the patch's
  derives in `extra_derives`. Uses refer to entries by id, so nothing else has to be renamed.
* **derives / map type / builder** — read from `settings` at render time.

`Serde.de` / `Serde.se` / `StrConv.*` take an IR and no settings at all, so in the model
"the wire behaviour of a type is independent of derives, builder and map type" is definitional
(those three settings leave the IR dump unchanged — checked on every case), and for
patch/replace/convert it is "the entries of the unaffected types are unchanged" — also checked on
dumps. The substance of the non-interference clause is the compiled-code comparison of the check. -/
namespace TypifyModel.C14
open TypifyModel TypifyModel.Render TypifyModel.SettingsApply

/-! ## uses refer to ids; names are read from the entry at render time -/

/-- **C14 (structure): every type expression of an emitted item — member types, variant payloads,
    the types in impl headers — is `type_ident` of a child id of the entry** (or a tuple of such) -/
theorem uses_by_id (tb : DeriveTables) (st : Settings) (σ : Space) (ent : Entry) (it : ItemS)
    (fns : List String) (h : itemOf tb st σ ent = some (it, fns)) :
    ∀ s, s ∈ typeExprs it → ExprOf st σ (childIds ent) s := by
  intro s hs
  unfold itemOf at h
  split at h
  · -- struct
    rename_i name props deny dflt hd
    simp only [Option.some.injEq, Prod.mk.injEq] at h
    obtain ⟨rfl, _⟩ := h
    simp only [typeExprs, List.map_map, List.mem_append, List.mem_map, Function.comp, List.map_nil,
      List.flatten_nil, List.not_mem_nil, or_false, List.mem_flatten] at hs
    rcases hs with ⟨p, hp, rfl⟩ | ⟨l, ⟨k, hk, rfl⟩, hs⟩
    · exact Or.inl ⟨p.ty, by simp [childIds, hd]; exact ⟨p, hp, rfl⟩, fieldS_ty ..⟩
    · exfalso
      simp only [List.mem_singleton] at hk
      rcases hk with (rfl | hk) | hk
      · simp [implTys] at hs
      · split at hk <;> simp at hk; subst hk; simp [implTys] at hs
      · split at hk <;> simp at hk; subst hk; simp [implTys] at hs
  · -- enum
    rename_i name tag variants deny dflt bespoke hd
    simp only [Option.some.injEq, Prod.mk.injEq] at h
    obtain ⟨rfl, _⟩ := h
    have sub : ∀ v, v ∈ variants → ∀ t, t ∈ variantIds v → t ∈ childIds ent := by
      intro v hv t ht
      simp only [childIds, hd, List.mem_flatten, List.mem_map]
      exact ⟨_, ⟨v, hv, rfl⟩, ht⟩
    simp only [typeExprs, List.map_map, List.mem_append, List.mem_map, Function.comp, List.map_nil,
      List.not_mem_nil, false_or, List.mem_flatten] at hs
    rcases hs with ⟨l, ⟨v, hv, rfl⟩, hs⟩ | ⟨l, ⟨k, hk, rfl⟩, hs⟩
    · exact (variantS_tys st σ name v s hs).mono (sub v hv)
    · simp only [List.mem_singleton] at hk
      rcases hk with ((((rfl | hk) | hk) | hk) | hk) | hk
      · simp [implTys] at hs
      · exfalso
        split at hk
        · simp only [List.mem_append, List.mem_cons, List.not_mem_nil, or_false] at hk
          rcases hk with (rfl | rfl) | hk
          · simp [implTys] at hs
          · simp [implTys] at hs
          · rw [implTys_strTryFroms k hk] at hs; simp at hs
        · simp at hk
      · exfalso; split at hk <;> simp at hk; subst hk; simp [implTys] at hs
      · exfalso
        split at hk
        · simp only [List.mem_append, List.mem_cons, List.not_mem_nil, or_false] at hk
          rcases hk with rfl | hk
          · simp [implTys] at hs
          · rw [implTys_strTryFroms k hk] at hs; simp at hs
        · simp at hk
      · exfalso; split at hk <;> simp at hk; subst hk; simp [implTys] at hs
      · obtain ⟨v, hv, he⟩ := convenienceFrom_tys st σ variants k hk s hs
        exact he.mono (sub v hv)
  · -- newtype
    rename_i name inner c dflt hd
    simp only [Option.some.injEq, Prod.mk.injEq] at h
    obtain ⟨rfl, _⟩ := h
    have key : s = typeIdent st σ fuel inner → ExprOf st σ (childIds ent) s :=
      fun e => Or.inl ⟨inner, by simp [childIds, hd], e⟩
    simp only [typeExprs, List.map_cons, List.map_nil, List.flatten_nil, List.append_nil,
      List.mem_append, List.mem_singleton, List.mem_flatten, List.mem_map] at hs
    rcases hs with hs | ⟨l, ⟨k, hk, rfl⟩, hs⟩
    · exact key hs
    · simp only [List.mem_cons, List.not_mem_nil, or_false] at hk
      rcases hk with ((rfl | rfl | rfl) | hk) | hk
      · simp [implTys] at hs
      · simp [implTys] at hs; exact key hs
      · simp [implTys] at hs
      · exfalso; split at hk <;> simp at hk; subst hk; simp [implTys] at hs
      · cases c with
        | none =>
          simp only [List.mem_append, List.mem_singleton] at hk
          rcases hk with ((rfl | hk) | hk) | hk
          · simp [implTys] at hs; exact key hs
          · exfalso; split at hk <;> simp at hk; subst hk; simp [implTys] at hs
          · exfalso
            split at hk
            · simp at hk; rcases hk with rfl | rfl | rfl | rfl <;> simp [implTys] at hs
            · simp at hk
          · exfalso; split at hk <;> simp at hk; subst hk; simp [implTys] at hs
        | enumValues vs =>
          simp at hk
          rcases hk with rfl | rfl
          · simp [implTys] at hs; exact key hs
          · simp [implTys] at hs
        | denyValues vs =>
          simp at hk
          rcases hk with rfl | rfl
          · simp [implTys] at hs; exact key hs
          · simp [implTys] at hs
        | string mx mn pat =>
          exfalso
          simp only [List.mem_append, List.mem_singleton] at hk
          rcases hk with (rfl | hk) | rfl
          · simp [implTys] at hs
          · rw [implTys_strTryFroms k hk] at hs; simp at hs
          · simp [implTys] at hs
  · simp at h

/-- the items of `to_stream()` are the items of the entries -/
theorem render_items (tb : DeriveTables) (st : Settings) (σ : Space) (it : ItemS)
    (h : it ∈ (render tb st σ).items) :
    ∃ e fns, e ∈ σ.entries ∧ itemOf tb st σ e.2 = some (it, fns) := by
  simp only [render, List.mem_map, List.mem_filterMap] at h
  obtain ⟨⟨it', fns⟩, ⟨e, he, hi⟩, rfl⟩ := h
  exact ⟨e, fns, he, hi⟩

/-- an item is named after its entry -/
theorem item_name (tb : DeriveTables) (st : Settings) (σ : Space) (ent : Entry) (it : ItemS)
    (fns : List String) (h : itemOf tb st σ ent = some (it, fns)) : ent.details.name? = some it.name := by
  unfold itemOf at h
  split at h <;> simp at h <;> (obtain ⟨rfl, _⟩ := h; simp_all [Details.name?])

/-- **C14 (patch, positive half): a use of a named entry shows the name stored in the entry** — after
    a patch that is the new name; at the definition (`item_name`) and at every use. -/
theorem rename_global (st : Settings) (σ : Space) (f : Nat) (t : Id) (ent : Entry) (n' : String)
    (hg : σ.get t = some ent) (hn : ent.details.name? = some n') :
    typeIdent st σ (f + 1) t = n' ∧ typeToks σ (f + 1) t = [.name n'] := by
  unfold typeIdent typeToks
  simp only [hg]
  cases hd : ent.details <;> simp_all [Details.name?]

/-- **C14 (patch, negative half): if no entry is named `N` (the old name), `N` is the name of no
    item, of no builder, and occurs as a type name in no type expression of the output.**
    Side condition `NoEntryNamed σ N` is decidable and evaluated on the real IR dump by the check
    (it fails by design when the patch renames onto, or swaps with, another type's name). -/
theorem patch_everywhere (tb : DeriveTables) (st : Settings) (σ : Space) (N : String)
    (hN : NoEntryNamed σ N) :
    (∀ it, it ∈ (render tb st σ).items → it.name ≠ N ∧
       ∀ s, s ∈ typeExprs it → ∃ toks, s = flat st toks ∧ Tok.name N ∉ toks) ∧
    N ∉ (render tb st σ).builders := by
  have hitem : ∀ it, it ∈ (render tb st σ).items → it.name ≠ N := by
    intro it hit hc
    obtain ⟨e, fns, he, hi⟩ := render_items tb st σ it hit
    exact hN e he (hc ▸ item_name tb st σ e.2 it fns hi)
  refine ⟨fun it hit => ⟨hitem it hit, ?_⟩, ?_⟩
  · intro s hs
    obtain ⟨e, fns, he, hi⟩ := render_items tb st σ it hit
    obtain ⟨toks, rfl, hnames⟩ := (uses_by_id tb st σ e.2 it fns hi s hs).toks
    refine ⟨toks, rfl, fun hc => ?_⟩
    obtain ⟨e', he', hn'⟩ := hnames N hc
    exact hN e' he' hn'
  · intro hb
    unfold render at hb
    simp only at hb
    split at hb
    · rw [mem_toSet, List.mem_filterMap] at hb
      obtain ⟨it, hit, hk⟩ := hb
      split at hk
      · simp at hk
        exact hitem it (by simpa [render] using hit) hk
      · simp at hk
    · simp at hb

/-! ## derives -/

/-- **C14 (derives): every globally requested derive, and every derive of the type's patch, is on
    the item** -/
theorem derives_everywhere (tb : DeriveTables) (st : Settings) (σ : Space) (ent : Entry) (it : ItemS)
    (fns : List String) (h : itemOf tb st σ ent = some (it, fns)) :
    (∀ d, d ∈ st.extraDerives → d ∈ it.derives) ∧ (∀ d, d ∈ ent.extraDerives → d ∈ it.derives) := by
  unfold itemOf at h
  split at h
  · simp only [Option.some.injEq, Prod.mk.injEq] at h
    obtain ⟨rfl, _⟩ := h
    exact ⟨fun d hd => by simp [mem_toSet, hd], fun d hd => by simp [mem_toSet, hd]⟩
  · simp only [Option.some.injEq, Prod.mk.injEq] at h
    obtain ⟨rfl, _⟩ := h
    exact ⟨fun d hd => by simp [mem_toSet, hd], fun d hd => by simp [mem_toSet, hd]⟩
  · simp only [Option.some.injEq, Prod.mk.injEq] at h
    obtain ⟨rfl, _⟩ := h
    exact ⟨fun d hd => by simp [mem_toSet, hd], fun d hd => by simp [mem_toSet, hd]⟩
  · simp at h

/-- … on every item of the output -/
theorem derives_everywhere_render (tb : DeriveTables) (st : Settings) (σ : Space) :
    ∀ it, it ∈ (render tb st σ).items → ∀ d, d ∈ st.extraDerives → d ∈ it.derives := by
  intro it hit d hd
  obtain ⟨e, fns, _, hi⟩ := render_items tb st σ it hit
  exact (derives_everywhere tb st σ e.2 it fns hi).1 d hd

/-! ## map type -/

/-- **C14 (map type): a map-typed use is `<configured map type><K,V>`, except string→any maps,
    which are `::serde_json::Map<String, Value>`** -/
theorem map_everywhere (st : Settings) (σ : Space) (f : Nat) (t k v : Id) (ent : Entry)
    (hg : σ.get t = some ent) (hd : ent.details = .map k v) :
    (isStrAny σ k v = false →
      typeIdent st σ (f + 1) t = st.mapType ++ "<" ++ typeIdent st σ f k ++ "," ++ typeIdent st σ f v ++ ">") ∧
    (isStrAny σ k v = true →
      typeIdent st σ (f + 1) t = "::serde_json::Map<::std::string::String,::serde_json::Value>") := by
  generalize hK : typeIdent st σ f k = K
  generalize hV : typeIdent st σ f v = V
  unfold typeIdent isStrAny
  simp only [hg, hd, hK, hV]
  constructor
  · intro h
    split
    · rename_i h1 h2; simp [h1, h2] at h
    · rfl
  · intro h
    split
    · rfl
    · rename_i hne
      split at h
      · rename_i h1 h2; exact (hne _ _ _ _ h1 h2).elim
      · simp at h

/-- **C14 (map type): the `skip_serializing_if` path of an optional map-typed member names the same
    map type** (`generate_serde_attr`, structs.rs:363-389) -/
theorem map_skip_everywhere (st : Settings) (σ : Space) (tn : String) (p : Field) (k v : Id) (ent : Entry)
    (hs : p.state = .optional) (hg : σ.get p.ty = some ent) (hd : ent.details = .map k v) :
    (isStrAny σ k v = false → SerdeArg.skipIf (st.mapType ++ "::is_empty") ∈ (fieldSerde st σ tn p).1) ∧
    (isStrAny σ k v = true → SerdeArg.skipIf "::serde_json::Map::is_empty" ∈ (fieldSerde st σ tn p).1) := by
  obtain ⟨d, ed, im⟩ := ent
  simp only at hd
  subst hd
  unfold fieldSerde isStrAny
  simp only [hs, hg]
  constructor
  · intro h
    split
    · rename_i h1 h2; simp [h1, h2] at h
    · simp
  · intro h
    split
    · simp
    · rename_i hne
      split at h
      · rename_i h1 h2; exact (hne _ _ _ _ h1 h2).elim
      · simp at h

/-- the configured map type occurs in a type expression only as the head of a map-typed entry: the
    text of every other token is independent of the settings -/
theorem only_map_type_varies {st st' : Settings} (h : st.mapType = st'.mapType) (σ : Space) (f : Nat) (t : Id) :
    typeIdent st σ f t = typeIdent st' σ f t := typeIdent_congr h σ f t

/-! ## replacement / conversion -/

/-- **C14 (replace, convert): an entry whose details are a native path yields no item** -/
theorem replace_not_generated (tb : DeriveTables) (st : Settings) (σ : Space) (ent : Entry)
    (path : String) (ps : List Id) (hd : ent.details = .native path ps) : itemOf tb st σ ent = none := by
  unfold itemOf; rw [hd]

/-- … and the names of the emitted items are exactly the names of the named entries, in order: a
    definition whose id maps to a native entry contributes nothing -/
theorem items_are_named_entries (tb : DeriveTables) (st : Settings) (σ : Space) :
    (render tb st σ).items.map (·.name) = σ.entries.filterMap (·.2.details.name?) := by
  simp only [render, List.map_map]
  induction σ.entries with
  | nil => rfl
  | cons e r ih =>
    simp only [List.filterMap_cons]
    cases hi : itemOf tb st σ e.2 with
    | none =>
      have : e.2.details.name? = none := by
        unfold itemOf at hi
        split at hi <;> simp_all [Details.name?]
      simp [this, ih]
    | some r' =>
      obtain ⟨it, fns⟩ := r'
      simp [item_name tb st σ e.2 it fns hi, ih]

/-- **C14 (replace, convert): every use of an id that maps to a native entry shows the native path** -/
theorem replace_use (st : Settings) (σ : Space) (f : Nat) (t : Id) (ent : Entry) (path : String)
    (hg : σ.get t = some ent) (hd : ent.details = .native path []) :
    typeIdent st σ (f + 1) t = path ∧ typeToks σ (f + 1) t = [.lit path] := by
  unfold typeIdent typeToks
  simp [hg, hd]

/-- **C14 (replace, convert), at every use site of the output**: if a child id of an entry maps to a
    native entry, the item's expression for it is the native path (through `uses_by_id`: all
    expressions are `typeIdent` of child ids, and `typeIdent` of that id is the path). -/
theorem replace_everywhere (st : Settings) (σ : Space) (t : Id) (ent : Entry) (path : String)
    (hg : σ.get t = some ent) (hd : ent.details = .native path []) :
    typeIdent st σ Render.fuel t = path := (replace_use st σ 63 t ent path hg hd).1

/-! ## the builder and the other settings do not change the type definitions -/

theorem itemOf_congr_map (tb : DeriveTables) {st st' : Settings} (h : st.mapType = st'.mapType)
    (hd : st.extraDerives = st'.extraDerives) (hb : st.structBuilder = st'.structBuilder)
    (σ : Space) (ent : Entry) : itemOf tb st σ ent = itemOf tb st' σ ent := by
  unfold itemOf
  have e1 : typeIdent st σ fuel = typeIdent st' σ fuel := funext (typeIdent_congr h σ fuel)
  have e2 : ∀ tn b, fieldS st σ tn b = fieldS st' σ tn b := fun tn b => funext (fieldS_congr h σ tn b)
  have e3 : ∀ en, variantS st σ en = variantS st' σ en := fun en => funext (variantS_congr h σ en)
  have e4 : convenienceFrom st σ = convenienceFrom st' σ := funext (convenienceFrom_congr h σ)
  simp only [e1, e2, e3, e4, hd, hb]

/-- **C14 (builder): enabling the builder interface changes no type definition** — names, kinds,
    visibility, derives, serde attributes, members, variants, every impl other than the inherent
    `builder()` and the generated default fns are the same with the builder on and off. -/
theorem builder_inert (tb : DeriveTables) (st : Settings) (b : Bool) (σ : Space) (ent : Entry) :
    (itemOf tb { st with structBuilder := b } σ ent).map (fun r => (typeDef r.1, r.2)) =
    (itemOf tb st σ ent).map (fun r => (typeDef r.1, r.2)) := by
  have hm : ({ st with structBuilder := b } : Settings).mapType = st.mapType := rfl
  unfold itemOf
  have e1 : typeIdent { st with structBuilder := b } σ fuel = typeIdent st σ fuel := funext (typeIdent_congr hm σ fuel)
  have e2 : ∀ tn c, fieldS { st with structBuilder := b } σ tn c = fieldS st σ tn c :=
    fun tn c => funext (fieldS_congr hm σ tn c)
  have e3 : ∀ en, variantS { st with structBuilder := b } σ en = variantS st σ en :=
    fun en => funext (variantS_congr hm σ en)
  have e4 : convenienceFrom { st with structBuilder := b } σ = convenienceFrom st σ := funext (convenienceFrom_congr hm σ)
  simp only [e1, e2, e3, e4]
  split
  · simp only [Option.map_some, Option.some.injEq, Prod.mk.injEq, and_true, typeDef]
    cases b <;> cases st.structBuilder <;> simp [List.filter_append]
  · rfl
  · rfl
  · rfl

/-- **C14 (non-interference, syntactic half): global derives and the builder change nothing of a
    type definition but its derive list** (same map type) -/
theorem settings_noninterference_types (tb : DeriveTables) {st st' : Settings} (h : st.mapType = st'.mapType)
    (σ : Space) (ent : Entry) :
    (itemOf tb st σ ent).map (fun r => (typeDefNoDerives r.1, r.2)) =
    (itemOf tb st' σ ent).map (fun r => (typeDefNoDerives r.1, r.2)) := by
  unfold itemOf
  have e1 : typeIdent st σ fuel = typeIdent st' σ fuel := funext (typeIdent_congr h σ fuel)
  have e2 : ∀ tn b, fieldS st σ tn b = fieldS st' σ tn b := fun tn b => funext (fieldS_congr h σ tn b)
  have e3 : ∀ en, variantS st σ en = variantS st' σ en := fun en => funext (variantS_congr h σ en)
  have e4 : convenienceFrom st σ = convenienceFrom st' σ := funext (convenienceFrom_congr h σ)
  simp only [e1, e2, e3, e4]
  split
  · simp only [Option.map_some, Option.some.injEq, Prod.mk.injEq, and_true, typeDefNoDerives, typeDef]
    cases st.structBuilder <;> cases st'.structBuilder <;> simp [List.filter_append]
  · rfl
  · rfl
  · rfl

theorem fieldSerde_wire (st st' : Settings) (σ : Space) (tn : String) (p : Field) :
    (fieldSerde st σ tn p).1.map eraseSkip = (fieldSerde st' σ tn p).1.map eraseSkip ∧
    (fieldSerde st σ tn p).2 = (fieldSerde st' σ tn p).2 := by
  unfold fieldSerde
  cases p.state with
  | required => exact ⟨rfl, rfl⟩
  | optional =>
    simp only
    split
    · exact ⟨rfl, rfl⟩
    · exact ⟨rfl, rfl⟩
    · split
      · exact ⟨rfl, rfl⟩
      · simp [eraseSkip]
    · exact ⟨rfl, rfl⟩
  | dflt d => exact ⟨rfl, rfl⟩

theorem fieldS_wire (st st' : Settings) (σ : Space) (tn : String) (b : Bool) (p : Field) :
    fieldWire (fieldS st σ tn b p).1 = fieldWire (fieldS st' σ tn b p).1 := by
  simp only [fieldWire, fieldS_name, fieldS_serde, (fieldSerde_wire st st' σ tn p).1]

theorem variantS_wire (st st' : Settings) (σ : Space) (en : String) (v : Variant) :
    (fun (w : VariantS) => (w.name, w.serde, w.kind, w.tys.length, w.fields.map fieldWire)) (variantS st σ en v).1 =
    (fun (w : VariantS) => (w.name, w.serde, w.kind, w.tys.length, w.fields.map fieldWire)) (variantS st' σ en v).1 := by
  unfold variantS
  cases v.details with
  | simple => simp
  | item t => simp
  | tuple ts =>
    simp only
    split
    · simp
    · simp
  | struct ps =>
    simp only [List.map_map, Prod.mk.injEq, true_and]
    apply List.map_congr_left
    intro p _
    exact fieldS_wire st st' σ _ false p

/-- **C14 (non-interference, syntactic half): no setting changes what decides an item's wire format**
    — its name, kind, serde attributes, member names and member serde arguments (the
    `skip_serializing_if` path, which names the map type, erased), variant names, kinds, arities.
    ∀ st st': derives, builder, map type. (Patch/replace/convert act on the IR, not on rendering.) -/
theorem settings_noninterference (tb : DeriveTables) (st st' : Settings) (σ : Space) (ent : Entry) :
    (itemOf tb st σ ent).map (fun r => wire r.1) = (itemOf tb st' σ ent).map (fun r => wire r.1) := by
  unfold itemOf
  split
  · simp only [Option.map_some, Option.some.injEq, wire, List.map_map, List.map_nil, Prod.mk.injEq, true_and, and_true]
    apply List.map_congr_left
    intro p _
    exact fieldS_wire st st' σ _ true p
  · simp only [Option.map_some, Option.some.injEq, wire, List.map_map, List.map_nil, Prod.mk.injEq, true_and]
    apply List.map_congr_left
    intro v _
    exact variantS_wire st st' σ _ v
  · simp [wire, fieldWire]
  · rfl

end TypifyModel.C14

/-! ## non-vacuity -/
namespace TypifyModel.C14
open TypifyModel TypifyModel.Render TypifyModel.SettingsApply TypifyModel.Generated

/-- an IR as the real code leaves it after `replace Foo ↦ ::my::Foo`, `patch Bar ↦ Baz (+Hash)`:
    1 = Baz (was Bar) with a member of the replaced type and a map of itself, 2 = the replaced
    definition, 3 = an enum with a payload variant, 4/5 = string / any, 6 = map<String,Baz>,
    7 = map<String,Value>, 8 = Option<Foo> -/
def exSpace : Space := { entries := [
  (1, ⟨.struct "Baz" [⟨"y", .none, .optional, 8⟩, ⟨"m", .none, .optional, 6⟩, ⟨"a", .none, .optional, 7⟩] false none, ["Hash"], []⟩),
  (2, ⟨.native "::my::Foo" [], [], [.display]⟩),
  (3, ⟨.enum "E" .external [⟨"a", "A", .item 1⟩, ⟨"b", "B", .tuple [2, 4]⟩] false none [], [], []⟩),
  (4, ⟨.string, [], []⟩), (5, ⟨.jsonValue, [], []⟩),
  (6, ⟨.map 4 1, [], []⟩), (7, ⟨.map 4 5, [], []⟩), (8, ⟨.option 2, [], []⟩)] }

def exSt : Settings := { extraDerives := ["JsonSchema"], mapType := "::std::collections::BTreeMap" }

-- uses_by_id / patch_everywhere: the enum's payloads are `Baz` and `(::my::Foo,::std::string::String)`;
-- no entry is named `Bar`; `Baz` does occur
example : ∃ it fns, itemOf deriveTables exSt exSpace (exSpace.entries[2]!).2 = some (it, fns) ∧
    typeExprs it = ["Baz", "::my::Foo", "::std::string::String", "Baz", "(::my::Foo,::std::string::String)"] ∧
    NoEntryNamed exSpace "Bar" ∧ ¬ NoEntryNamed exSpace "Baz" := by
  refine ⟨_, _, rfl, ?_, ?_, ?_⟩ <;> decide +kernel

-- derives_everywhere / map_everywhere / map_skip_everywhere / replace_*: the struct
example : ∃ it fns, itemOf deriveTables exSt exSpace (exSpace.entries[0]!).2 = some (it, fns) ∧
    "JsonSchema" ∈ it.derives ∧ "Hash" ∈ it.derives ∧
    it.fields.map (·.ty) = ["::std::option::Option<::my::Foo>",
      "::std::collections::BTreeMap<::std::string::String,Baz>",
      "::serde_json::Map<::std::string::String,::serde_json::Value>"] ∧
    SerdeArg.skipIf "::std::collections::BTreeMap::is_empty" ∈ (it.fields[1]!).serde ∧
    SerdeArg.skipIf "::serde_json::Map::is_empty" ∈ (it.fields[2]!).serde ∧
    isStrAny exSpace 4 1 = false ∧ isStrAny exSpace 4 5 = true := by
  refine ⟨_, _, rfl, ?_, ?_, ?_, ?_, ?_, ?_, ?_⟩ <;> decide +kernel

example : itemOf deriveTables exSt exSpace (exSpace.entries[1]!).2 = none ∧
    (render deriveTables exSt exSpace).items.map (·.name) = ["Baz", "E"] := by
  constructor <;> decide +kernel

-- builder_inert / settings_noninterference: the builder does add something (so the projection matters),
-- and the two map types do give different items with the same wire projection
example : (render deriveTables { exSt with structBuilder := true } exSpace).builders = ["Baz"] ∧
    ImplK.builderFn ∈ ((render deriveTables { exSt with structBuilder := true } exSpace).items[0]!).impls ∧
    ImplK.builderFn ∉ ((render deriveTables exSt exSpace).items[0]!).impls := by
  refine ⟨?_, ?_, ?_⟩ <;> decide +kernel

example : ((render deriveTables exSt exSpace).items[0]!).fields.map (·.ty) ≠
    ((render deriveTables {} exSpace).items[0]!).fields.map (·.ty) := by decide +kernel

end TypifyModel.C14

import TypifyModel.Proofs.C03
import TypifyModel.Proofs.C05Enc
/-! # C03, validity clause for the enforced constraints

"Deserializing a schema-valid instance and serializing it back yields JSON that is again valid under the schema."
For the constraint kinds the generated types enforce this is a corollary of two theorems proved independently:
C03's `roundtrip_value` (what was written reads back) and C05's `enc_sound` (what is read is valid under the enforced
projection of the schema): the round-tripped document `w` is *accepted* by the type, hence not invalid under `validE`.
What this does not give: validity of `w` under constraints the types do not represent (integer ranges, array bounds,
`uniqueItems`, `not`) — the type re-emits the numbers and arrays it read, and the check decides that part per
instance with the independent validator. -/
namespace TypifyModel.C03V
open TypifyModel TypifyModel.Serde TypifyModel.Validate TypifyModel.Enc TypifyModel.RoundTrip

/-- **C03 ∘ C05**: for every reference-closed well-formed set of entries `Sset`, every type `t` in it that enforces the
    schema `s`, every document `v` the type reads and every fuel: the document `w` the type writes back is not invalid
    under the enforced projection of `s`. -/
theorem rt_valid_enforced {x : Serde.Ext} {vx : Validate.Ext} (hreg : ∀ p s, x.regex p s = vx.regex p s)
    {d : Doc} {σ : Space} (rid : String → Option Id) (hall : AllEnc σ rid d)
    (hrid : ∀ k t, rid k = some t → ∃ s, d.get k = some s)
    {Sset : List Id} (hcl : closedOkB σ Sset = true) {t : Id} (ht : t ∈ Sset)
    {fc : Nat} {s : Schema} (he : encB d σ rid fc s t = true)
    (f : Nat) (v : Json) (xv : Val) (w : Json)
    (h1 : de x σ f t v = .ok xv) (h2 : se σ f t xv = .ok w) :
    ∀ g, C05E.NF (validE vx d g s w) := by
  intro g
  have hback : de x σ f t w = .ok xv := C03.roundtrip_value x σ Sset hcl ht f v xv w h1 h2
  exact C05E.enc_sound hreg rid hall hrid g fc s t w xv f he hback

end TypifyModel.C03V

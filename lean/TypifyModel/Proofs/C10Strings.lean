import TypifyModel.Model.Natives
import TypifyModel.Generated.StringFormats
/-! # C10, string formats: recognised formats map to the documented types, unrecognised ones degrade to `String`
    (over the table regenerated from `convert_string`, translator T2) -/
namespace TypifyModel.C10S
open TypifyModel TypifyModel.Generated

/-- every documented format selects its documented type -/
theorem string_formats_documented :
    (documentedFormats.all fun d => (selectStringFormat stringFormats stringFormatFallback d.1).path == d.2) = true := by
  decide

/-- **every** format string that no arm names degrades to a plain `String` -/
theorem string_format_unrecognised (fmt : String) (h : ∀ r ∈ stringFormats, r.fmt ≠ fmt) :
    (selectStringFormat stringFormats stringFormatFallback fmt).path = "String" := by
  unfold selectStringFormat
  have : stringFormats.find? (fun r => r.fmt == fmt) = none := by
    rw [List.find?_eq_none]
    intro r hr
    simpa using h r hr
  rw [this]
  show stringFormatFallback.path = "String"
  decide

/-- a recognised format never selects anything but a plain `String` or one of the natives whose facts are recorded -/
theorem string_formats_known :
    (stringFormats.all fun r => r.path == "String" || (nativeFacts r.path).isSome) = true := by decide

/-- the arms are unconditional (no `if` guard) and name each format once -/
theorem string_formats_functional :
    stringFormatsGuarded = [] ∧ (stringFormats.map (·.fmt)).Nodup := by decide

/-- C17 clause: an arm that selects a path in an external crate sets that crate's `uses_` flag -/
theorem string_formats_uses : (stringFormats.all StrFormatRow.usesOk) = true := by decide

example : (selectStringFormat stringFormats stringFormatFallback "hostname").path = "String" := by decide
example : (selectStringFormat stringFormats stringFormatFallback "uuid").path = "::uuid::Uuid" := by decide

end TypifyModel.C10S

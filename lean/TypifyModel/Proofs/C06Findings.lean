import TypifyModel.Proofs.C06
/-! Kernel-checked refutations of full C06 statements on the current tree (known findings).
    Allowed to stop compiling when a finding is repaired. -/
namespace TypifyModel.C06
open TypifyModel TypifyModel.Serde TypifyModel.Defaults

/-- `S { a: i64 = 5 }` -/
def nestedSpace : Space := { entries := [
  (0, ⟨.integer "i64", [], []⟩),
  (1, ⟨.struct "S" [⟨"a", .none, .dflt (.int 5), 0⟩] false none, [], []⟩)] }

/-- C06-nested-default: for the default `{}` at type `S`, typify writes `S { a: Default::default() }`:
    well typed, but its value has `a = 0` where deserializing `{}` gives `a = 5` -/
theorem default_value_full_false : ¬ default_value_full := by
  intro h
  obtain ⟨e, ho, _, he⟩ := h exExt nestedSpace 3 1 (.obj []) .specific rfl
  have ho' : outputValue exExt nestedSpace 3 1 (.obj []) = .ok (.structLit "S" [("a", none)]) := rfl
  rw [ho'] at ho
  injection ho with ho
  subst ho
  have h3 := he 3
  have e1 : eval exExt nestedSpace 3 (.structLit "S" [("a", none)]) 1 = .ok (.struct [("a", .int 0)]) := rfl
  have e2 : de exExt nestedSpace 3 1 (.obj []) = .ok (.struct [("a", .int 5)]) := rfl
  rw [e1, e2] at h3
  simp at h3

/-- the hypothesis of the partial theorem is what fails on the witness -/
example : WFDefault exExt nestedSpace 3 1 (.obj []) = false := by rfl

end TypifyModel.C06

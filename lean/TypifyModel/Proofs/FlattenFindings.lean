import TypifyModel.Model.SerdeSer
import TypifyModel.Model.RoundTrip
import TypifyModel.Proofs.Lemmas.ConvLemmas
import TypifyModel.Proofs.Lemmas.WireTy
/-! What `#[serde(flatten)]` does to three properties on the current tree (model: `Serde.deFlat`, `Serde.foldFields`,
    the flattened arm of `SerdeSer.seFieldsR`; tied to the compiled code by M3 like the rest of `Serde`).

    * `union_never_rejects` (C05, finding C05-anyof-flatten-accepts-any): the struct typify builds for a non-exclusive
      `anyOf` of objects — every member `#[serde(flatten)] Option<SubtypeN>` — rejects NO JSON object, for every space,
      every member list of that shape and every object: each failed subtype becomes `None`.
    * `deny_map_rejects_unnamed` (C02, finding C02-untagged-deny-flatten-map): under `deny_unknown_fields` a struct
      (variant) whose only flattened members are maps accepts no object with a member it does not name, although the
      flattened map is there to hold exactly those members: the map reads the buffered entries without taking them.
    * `shared_member_lost` (C03, finding C03-anyof-flatten-shared-member): the concrete round trip in which a failed
      first subtype has taken the member a later subtype needed. -/
namespace TypifyModel.Flatten
open TypifyModel TypifyModel.Serde TypifyModel.Conv

/-- members of the struct `flattened_union_struct` builds: all flattened, all `Option<..>` -/
def unionShape (σ : Space) (props : List Field) : Bool :=
  props.all (fun p => p.rename == .flatten &&
    (match σ.get p.ty with
     | some ⟨.option _, _, _⟩ => true
     | _ => false))

/-- a flattened `Option<T>` never rejects: a `T` that fails gives `None` -/
theorem flat_option_NR (x : Ext) (σ : Space) {t t' : Id} {ed : List String} {im : List Impl}
    (hget : σ.get t = some ⟨.option t', ed, im⟩) (f : Nat) (c : List (String × Json)) :
    NR (deFlat x σ f t c).1 := by
  cases f with
  | zero => simp [deFlat, NR]
  | succ f =>
    rw [WireEq.deFlat_option_eq x hget]
    cases WireEq.isOption σ t' with
    | true => simp [NR]
    | false =>
      simp only [Bool.false_eq_true, if_false]
      cases hrec : deFlat x σ f t' c with
      | mk r c1 =>
        cases r with
        | ok w => simp [NR]
        | error e => cases e <;> simp [NR]

/-- `foldFields` rejects only if a step does -/
theorem foldFields_NR {named : Field → Except E (String × Val)}
    {flat : Field → List (String × Json) → Except E Val × List (String × Json)} :
    ∀ (ps : List Field) (c : List (String × Json)),
      (∀ p ∈ ps, p.rename ≠ .flatten → NR (named p)) →
      (∀ p ∈ ps, p.rename = .flatten → ∀ c', NR (flat p c').1) →
      NR (foldFields named flat ps c).1 := by
  intro ps
  induction ps with
  | nil => intro c _ _; simp [foldFields, NR]
  | cons p ps ih =>
    intro c hn hf
    have ihr := fun c' => ih c' (fun q hq => hn q (by simp [hq])) (fun q hq => hf q (by simp [hq]))
    simp only [foldFields]
    split
    · rename_i hfl
      have hpf : p.rename = .flatten := by simpa using hfl
      have h1 := hf p (by simp) hpf c
      cases hfp : flat p c with
      | mk r c1 =>
        rw [hfp] at h1
        cases r with
        | error e => simpa [NR] using h1
        | ok v =>
          simp only
          have h2 := ihr c1
          cases hrec : foldFields named flat ps c1 with
          | mk r2 c2 =>
            rw [hrec] at h2
            cases r2 with
            | error e => simpa [NR] using h2
            | ok rs => simp [NR]
    · rename_i hfl
      have hpf : p.rename ≠ .flatten := by simpa using hfl
      have h1 := hn p (by simp) hpf
      cases hnp : named p with
      | error e => rw [hnp] at h1; simpa [NR] using h1
      | ok a =>
        simp only
        have h2 := ihr c
        cases hrec : foldFields named flat ps c with
        | mk r2 c2 =>
          rw [hrec] at h2
          cases r2 with
          | error e => simpa [NR] using h2
          | ok rs => simp [NR]

/-- **C05-anyof-flatten-accepts-any**: the flattened union struct (not closed) rejects no JSON object at all — whatever the
    subtypes require, whatever types their members have -/
theorem union_never_rejects (x : Ext) (σ : Space) (props : List Field) (hne : props ≠ [])
    (hu : unionShape σ props = true) (f : Nat) (kvs : List (String × Json)) :
    NR (deStruct x σ f props false (.obj kvs)) := by
  cases f with
  | zero => simp [deStruct, NR]
  | succ f =>
    have hall := List.all_eq_true.mp hu
    have hfl : hasFlatten props = true := by
      cases props with
      | nil => exact absurd rfl hne
      | cons p ps =>
        have := hall p (by simp)
        simp only [Bool.and_eq_true] at this
        simp [hasFlatten, this.1]
    simp only [deStruct, hfl, if_true]
    have hfold := foldFields_NR (named := fun (p : Field) =>
        match Json.lookup kvs p.wire with
        | some v => (match de x σ f p.ty v with | .ok a => .ok (p.name, a) | .error e => .error e)
        | none =>
          match p.state with
          | .required => if optionLikeT σ p.ty then .ok (p.name, Val.none) else .error .reject
          | .optional => (match dflt x σ f p.ty with | .ok a => .ok (p.name, a) | .error e => .error e)
          | .dflt d => (match de x σ f p.ty d with
              | .ok a => .ok (p.name, a)
              | .error .reject => .error .unsupported
              | .error e => .error e))
      (flat := fun (p : Field) c => deFlat x σ f p.ty c) props (bufferOf props kvs)
      (by
        intro p hp hnf
        have := hall p hp
        simp only [Bool.and_eq_true] at this
        exact absurd (by simpa using this.1) hnf)
      (by
        intro p hp _ c'
        have := hall p hp
        simp only [Bool.and_eq_true] at this
        cases hg : σ.get p.ty with
        | none => rw [hg] at this; simp at this
        | some ent =>
          obtain ⟨det, ed, im⟩ := ent
          cases det <;> rw [hg] at this <;> simp at this
          exact flat_option_NR x σ hg f c')
    revert hfold
    generalize foldFields _ _ props (bufferOf props kvs) = r
    intro hfold
    obtain ⟨r1, rest⟩ := r
    cases r1 with
    | error e => simpa [NR] using hfold
    | ok fs => simp [NR]

/-! ### the witness of C05-anyof-flatten-accepts-any / C03-anyof-flatten-shared-member

    `Event = anyOf[{kind: "click", x?: integer}, {kind?: string, note?: string}]` as typify renders it. -/

def evSpace : Space := { entries := [
  (0, { details := .string }),
  (1, { details := .option 0 }),
  (2, { details := .integer "i64" }),
  (3, { details := .option 2 }),
  (4, { details := .enum "EventSubtype0Kind" .external [⟨"click", "Click", .simple⟩] false none [] }),
  (5, { details := .struct "EventSubtype0" [⟨"kind", .none, .required, 4⟩, ⟨"x", .none, .optional, 3⟩] false none }),
  (6, { details := .option 5 }),
  (7, { details := .struct "EventSubtype1" [⟨"kind", .none, .optional, 1⟩, ⟨"note", .none, .optional, 1⟩] false none }),
  (8, { details := .option 7 }),
  (9, { details := .struct "Event" [⟨"subtype_0", .flatten, .optional, 6⟩, ⟨"subtype_1", .flatten, .optional, 8⟩] false none })] }

def evX : Ext := ⟨fun _ _ => true⟩

/-- an object that matches NEITHER branch (`kind` is not "click"; `note` is not a string) is accepted, both subtypes `None` -/
theorem union_accepts_invalid :
    de evX evSpace 8 9 (.obj [("kind", .str "pga"), ("note", .int 0)]) =
      .ok (.struct [("subtype_0", .none), ("subtype_1", .none)]) := by
  rfl

/-- **C03-anyof-flatten-shared-member**: `{"kind":"pga","note":"vup"}` is valid under the second branch; the first subtype
    declares `kind`, takes it from the buffer and fails on it; the second subtype never sees it -/
theorem shared_member_lost :
    (match de evX evSpace 8 9 (.obj [("kind", .str "pga"), ("note", .str "vup")]) with
     | .ok v => se evSpace 8 9 v
     | .error e => .error e) = .ok (.obj [("note", .str "vup")]) := by
  rfl

/-! ### `deny_unknown_fields` next to a flattened map -/

/-- every flattened member is a map -/
def flatMaps (σ : Space) (props : List Field) : Bool :=
  props.all (fun p => p.rename != .flatten ||
    (match σ.get p.ty with
     | some ⟨.map _ _, _, _⟩ => true
     | _ => false))

/-- a flattened map leaves the buffer as it found it -/
theorem flat_map_keeps (x : Ext) (σ : Space) {t k v : Id} {ed : List String} {im : List Impl}
    (hget : σ.get t = some ⟨.map k v, ed, im⟩) (f : Nat) (c : List (String × Json)) :
    (deFlat x σ f t c).2 = c := by
  cases f with
  | zero => simp [deFlat]
  | succ f => simp [deFlat, hget]

theorem foldFields_keeps {named : Field → Except E (String × Val)}
    {flat : Field → List (String × Json) → Except E Val × List (String × Json)} :
    ∀ (ps : List Field) (c : List (String × Json)),
      (∀ p ∈ ps, p.rename = .flatten → ∀ c', (flat p c').2 = c') →
      ∀ fs rest, foldFields named flat ps c = (.ok fs, rest) → rest = c := by
  intro ps
  induction ps with
  | nil =>
    intro c _ fs rest h
    simp only [foldFields, Prod.mk.injEq] at h
    exact h.2.symm
  | cons p ps ih =>
    intro c hk fs rest h
    have ihr := fun c' => ih c' (fun q hq => hk q (by simp [hq]))
    simp only [foldFields] at h
    split at h
    · rename_i hfl
      have hpf : p.rename = .flatten := by simpa using hfl
      have h1 := hk p (by simp) hpf c
      cases hfp : flat p c with
      | mk r c1 =>
        rw [hfp] at h h1
        simp only at h1; subst h1
        cases r with
        | error e => simp at h
        | ok v =>
          simp only at h
          cases hrec : foldFields named flat ps c1 with
          | mk r2 c2 =>
            rw [hrec] at h
            cases r2 with
            | error e => simp at h
            | ok rs =>
              simp only [Prod.mk.injEq] at h
              rw [← h.2]; exact ihr c1 rs c2 hrec
    · cases hnp : named p with
      | error e => rw [hnp] at h; simp at h
      | ok a =>
        rw [hnp] at h
        simp only at h
        cases hrec : foldFields named flat ps c with
        | mk r2 c2 =>
          rw [hrec] at h
          cases r2 with
          | error e => simp at h
          | ok rs =>
            simp only [Prod.mk.injEq] at h
            rw [← h.2]; exact ihr c rs c2 hrec

/-- **C02-untagged-deny-flatten-map**: closed (`deny_unknown_fields`) and holding only flattened maps, a struct accepts no
    object that has a member outside the named ones — the members the flattened map exists for -/
theorem deny_map_rejects_unnamed (x : Ext) (σ : Space) (props : List Field) (hfl : hasFlatten props = true)
    (hm : flatMaps σ props = true) (f : Nat) (kvs : List (String × Json)) (kv : String × Json) (hkv : kv ∈ kvs)
    (hun : props.any (fun p => p.rename != .flatten && p.wire == kv.1) = false) (v : Val) :
    deStruct x σ f props true (.obj kvs) ≠ .ok v := by
  cases f with
  | zero => simp [deStruct]
  | succ f =>
    simp only [deStruct, hfl, if_true]
    intro h
    split at h
    · simp at h
    · rename_i fs rest hfold
      have hrest := foldFields_keeps props (bufferOf props kvs) (by
        intro p hp hpf c'
        have := (List.all_eq_true.mp hm) p hp
        simp only [hpf, bne_self_eq_false, Bool.false_or] at this
        cases hg : σ.get p.ty with
        | none => rw [hg] at this; simp at this
        | some ent =>
          obtain ⟨det, ed, im⟩ := ent
          cases det <;> rw [hg] at this <;> simp at this
          exact flat_map_keeps x σ hg f c') fs rest hfold
      have hmem : kv ∈ bufferOf props kvs := by
        simp only [bufferOf, List.mem_filter]
        exact ⟨hkv, by simp [hun]⟩
      subst hrest
      have hne : (bufferOf props kvs).isEmpty = false := by
        cases hb : bufferOf props kvs with
        | nil => rw [hb] at hmem; simp at hmem
        | cons _ _ => rfl
      simp [hne] at h

/-- the witness: `Variant1 { sides: i64, #[serde(flatten)] extra: HashMap<String, i64> }` under the container's
    `deny_unknown_fields` does not read `{"sides":4,"k1":7}` … -/
def shSpace : Space := { entries := [
  (0, { details := .string }), (1, { details := .integer "i64" }), (2, { details := .map 0 1 })] }
def shProps : List Field := [⟨"sides", .none, .required, 1⟩, ⟨"extra", .flatten, .required, 2⟩]

example : deStruct evX shSpace 5 shProps true (.obj [("sides", .int 4), ("k1", .int 7)]) = .error .reject := by rfl
/-- … while the same variant without `deny_unknown_fields` does (non-vacuity of the hypotheses above) -/
example : deStruct evX shSpace 5 shProps false (.obj [("sides", .int 4), ("k1", .int 7)]) =
    .ok (.struct [("sides", .int 4), ("extra", .map [("k1", .int 7)])]) := by rfl
example : hasFlatten shProps = true ∧ flatMaps shSpace shProps = true := by decide
example : unionShape evSpace [⟨"subtype_0", .flatten, .optional, 6⟩, ⟨"subtype_1", .flatten, .optional, 8⟩] = true := by decide

/-! ### non-vacuity of the positive theorems (C02 `conv_accepts`, C05 `enc_sound`, C03 `de_se_de` / `rt_contains`) on a struct
    with typed additional properties -/

def apSpace : Space := { entries := [
  (0, { details := .string }), (1, { details := .integer "i64" }), (2, { details := .map 0 1 }),
  (3, { details := .struct "Sh" [⟨"sides", .none, .required, 1⟩, ⟨"extra", .flatten, .required, 2⟩] false none })] }

/-- the side conditions of the round-trip theorems hold for it … -/
example : RoundTrip.closedOkB apSpace [0, 1, 2, 3] = true := by decide
example : RoundTrip.fieldsOkFlatB apSpace [⟨"sides", .none, .required, 1⟩, ⟨"extra", .flatten, .required, 2⟩] = true := by decide
/-- … and so do those of `conv_accepts` / `enc_sound` for `{sides: integer, additionalProperties: integer}` -/
example : Conv.structFlatB (fun _ t => t == 1) apSpace [("sides", .integer none none)] ["sides"] (.schema (.integer none none))
    [⟨"sides", .none, .required, 1⟩, ⟨"extra", .flatten, .required, 2⟩] false = true := by decide
/-- the round trip itself, evaluated: the additional members come back, key-sorted -/
example :
    (match de evX apSpace 6 3 (.obj [("zz", .int 2), ("sides", .int 4), ("k1", .int 7)]) with
     | .ok v => se apSpace 6 3 v
     | .error e => .error e) = .ok (.obj [("sides", .int 4), ("k1", .int 7), ("zz", .int 2)]) := by rfl

end TypifyModel.Flatten

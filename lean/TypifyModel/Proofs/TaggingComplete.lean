import TypifyModel.Proofs.Tagging
/-! `maybe_internally_tagged_enum`, the other direction: whenever some member is pinned and required in every subschema with
    pairwise different strings, a tag IS found, and it is the least such member. With `intTag_sound` this characterises the
    chosen tag exactly (`intTag_exact`): it does not depend on anything but the set of members that qualify. -/
set_option linter.unusedSimpArgs false
namespace TypifyModel.Tagging
open TypifyModel TypifyModel.Excl

theorem least_none : ∀ {l : List String}, least l = none → l = [] := by
  intro l h
  cases l with
  | nil => rfl
  | cons a r =>
    unfold least at h
    cases hr : least r with
    | none => rw [hr] at h; simp at h
    | some b => rw [hr] at h; simp only at h; split at h <;> simp at h

/-- `least` finds a lower bound of the list (`t ≤ m` for every member `m`) -/
theorem least_le : ∀ {l : List String} {m : String}, m ∈ l → ∃ t, least l = some t ∧ t ≤ m := by
  intro l
  induction l with
  | nil => intro m h; simp at h
  | cons a r ih =>
    intro m hm
    unfold least
    cases hr : least r with
    | none =>
      have : r = [] := least_none hr
      subst this
      have : m = a := by simpa using hm
      subst this
      exact ⟨m, rfl, String.le_refl _⟩
    | some b =>
      simp only
      by_cases hba : b < a
      · simp only [hba, if_true]
        refine ⟨b, rfl, ?_⟩
        rcases List.mem_cons.mp hm with h | h
        · subst h; exact String.not_lt.mp (String.lt_asymm hba)
        · obtain ⟨t, ht, hle⟩ := ih h
          rw [hr] at ht; cases ht; exact hle
      · simp only [hba, if_false]
        refine ⟨a, rfl, ?_⟩
        rcases List.mem_cons.mp hm with h | h
        · subst h; exact String.le_refl _
        · obtain ⟨t, ht, hle⟩ := ih h
          rw [hr] at ht; cases ht
          exact String.le_trans (String.not_lt.mp hba) hle

/-- a member every remaining subschema pins, to strings not seen so far, survives the fold -/
theorem foldl_intStep_complete (k : String) :
    ∀ (r : List (List (String × String))) (acc : List (String × List String)) (ws vs : List String),
      (k, ws) ∈ acc → vs.length = r.length → (∀ p ∈ r.zip vs, lookupS p.1 k = some p.2) → (ws ++ vs).Nodup →
      (k, ws ++ vs) ∈ r.foldl intStep acc := by
  intro r
  induction r with
  | nil =>
    intro acc ws vs hacc hlen _ _
    have : vs = [] := List.eq_nil_of_length_eq_zero (by simpa using hlen)
    subst this
    simpa using hacc
  | cons b r ih =>
    intro acc ws vs hacc hlen hlk hnd
    cases vs with
    | nil => simp at hlen
    | cons v vs' =>
      simp only [List.foldl_cons]
      have hb : lookupS b k = some v := hlk (b, v) (by simp)
      have hnc : ws.contains v = false := by
        have h1 := (List.nodup_append.mp hnd).2.2
        cases hc : ws.contains v with
        | false => rfl
        | true =>
          have hm : v ∈ ws := by simpa using hc
          exact absurd rfl (h1 v hm v (by simp))
      have hstep : (k, ws ++ [v]) ∈ intStep acc b := by
        unfold intStep
        rw [List.mem_filterMap]
        have hnm : v ∉ ws := by intro hm; simp [hm] at hnc
        exact ⟨(k, ws), hacc, by simp [hb, hnm]⟩
      have := ih (intStep acc b) (ws ++ [v]) vs' hstep (by simpa using hlen)
        (fun p hp => hlk p (by simp [List.zip_cons_cons, hp])) (by simpa using hnd)
      simpa using this

theorem intReduce_complete {bs : List (List (String × String))} {k : String} {vs : List String}
    (hne : bs ≠ []) (hlen : vs.length = bs.length) (hlk : ∀ p ∈ bs.zip vs, lookupS p.1 k = some p.2) (hnd : vs.Nodup) :
    ∃ acc, intReduce bs = some acc ∧ (k, vs) ∈ acc := by
  cases bs with
  | nil => exact absurd rfl hne
  | cons b r =>
    cases vs with
    | nil => simp at hlen
    | cons v vs' =>
      refine ⟨_, rfl, ?_⟩
      have hb : lookupS b k = some v := hlk (b, v) (by simp)
      have h0 : (k, [v]) ∈ b.map (fun kv => (kv.1, [kv.2])) :=
        List.mem_map.mpr ⟨(k, v), lookupS_mem hb, rfl⟩
      have := foldl_intStep_complete k r _ [v] vs' h0 (by simpa using hlen)
        (fun p hp => hlk p (by simp [List.zip_cons_cons, hp])) (by simpa using hnd)
      simpa using this

/-- what `intBranch` records for a pinned required member, property names being distinct -/
theorem lookupS_filterMap_of_lookup {ps : List (String × Json)} {rq : List String} {k v : String} {sch : Json}
    (hl : Json.lookup ps k = some sch) (hr : rq.contains k = true) (hc : constStr sch = some v) :
    lookupS (ps.filterMap (fun (kv : String × Json) => if rq.contains kv.1 then (constStr kv.2).map (fun v => (kv.1, v)) else none)) k
      = some v := by
  induction ps with
  | nil => simp [Json.lookup] at hl
  | cons kv r ih =>
    obtain ⟨k', s'⟩ := kv
    unfold Json.lookup at hl
    by_cases hk : k' = k
    · subst hk
      simp only [if_true] at hl
      cases hl
      have hr' : k' ∈ rq := by simpa using hr
      simp [List.filterMap_cons, hr', hc, lookupS]
    · simp only [hk, if_false] at hl
      rw [List.filterMap_cons]
      split
      · exact ih hl
      · rename_i w hw
        split at hw
        · cases hcs : constStr s' with
          | none => rw [hcs] at hw; simp at hw
          | some u =>
            rw [hcs] at hw
            simp only [Option.map_some, Option.some.injEq] at hw
            subst hw
            have : (k' == k) = false := by simpa using hk
            simp only [lookupS, this]
            exact ih hl
        · simp at hw

theorem intBranch_complete {f : Nat} {s : Json} {k v : String} (hd : PropsDistinct f s) (hp : Pinned f s k v) :
    lookupS (intBranch f s) k = some v := by
  obtain ⟨o, rq, ps, sch, ho, hr, hps, hc, hm, hcs⟩ := hp
  unfold intBranch
  rw [ho]; simp only [hr, hps]
  exact lookupS_filterMap_of_lookup (lookup_eq_of_mem (hd o ps ho hps) hm) hc hcs

/-- `k` qualifies as the tag of the union: required and pinned in every subschema, the strings pairwise different -/
def IsTag (f : Nat) (ss : List Json) (k : String) : Prop :=
  ∃ vs : List String, vs.length = ss.length ∧ vs.Nodup ∧ ∀ p ∈ ss.zip vs, Pinned f p.1 k p.2

/-- **a qualifying member is never overlooked**: some tag is chosen, and it is not greater -/
theorem intTag_complete {f : Nat} {ss : List Json} {k : String} (hne : ss ≠ []) (hd : ∀ s ∈ ss, PropsDistinct f s)
    (hk : IsTag f ss k) : ∃ t, intTag f ss = some t ∧ t ≤ k := by
  obtain ⟨vs, hlen, hnd, hall⟩ := hk
  have hlk : ∀ p ∈ (ss.map (intBranch f)).zip vs, lookupS p.1 k = some p.2 := by
    intro p hp
    obtain ⟨i, hi, hpi⟩ := List.mem_iff_getElem.mp hp
    have his : i < ss.length := by simp [List.length_zip] at hi; omega
    have hiv : i < vs.length := by omega
    have hp' : p = (intBranch f ss[i], vs[i]) := by rw [← hpi]; simp [List.getElem_zip]
    subst hp'
    apply intBranch_complete (hd _ (List.getElem_mem his))
    apply hall (ss[i], vs[i])
    apply List.mem_iff_getElem.mpr
    exact ⟨i, by simp [List.length_zip]; omega, by simp [List.getElem_zip]⟩
  obtain ⟨acc, hacc, hm⟩ := intReduce_complete (bs := ss.map (intBranch f)) (by simpa using hne) (by simpa using hlen) hlk hnd
  obtain ⟨t, ht, hle⟩ := least_le (l := acc.map (·.1)) (m := k) (List.mem_map.mpr ⟨(k, vs), hm, rfl⟩)
  exact ⟨t, by unfold intTag; rw [hacc]; exact ht, hle⟩

/-- **the tag of an internally tagged enum, exactly**: the least member that is required and pinned in every subschema to
    pairwise different strings — nothing else about the subschemas (their order, their other members) matters -/
theorem intTag_exact {f : Nat} {ss : List Json} {t : String} (hne : ss ≠ []) (hd : ∀ s ∈ ss, PropsDistinct f s) :
    intTag f ss = some t ↔ IsTag f ss t ∧ ∀ k, IsTag f ss k → t ≤ k := by
  constructor
  · intro h
    refine ⟨intTag_sound h, ?_⟩
    intro k hk
    obtain ⟨t', ht', hle⟩ := intTag_complete hne hd hk
    rw [h] at ht'; cases ht'; exact hle
  · intro ⟨hit, hmin⟩
    obtain ⟨t', ht', hle⟩ := intTag_complete hne hd hit
    have := hmin t' (intTag_sound ht')
    rw [String.le_antisymm this hle]; exact ht'

/-- no tag is found exactly when no member qualifies -/
theorem intTag_none_iff {f : Nat} {ss : List Json} (hne : ss ≠ []) (hd : ∀ s ∈ ss, PropsDistinct f s) :
    intTag f ss = none ↔ ∀ k, ¬ IsTag f ss k := by
  constructor
  · intro h k hk
    obtain ⟨t, ht, _⟩ := intTag_complete hne hd hk
    rw [h] at ht; cases ht
  · intro h
    cases ht : intTag f ss with
    | none => rfl
    | some t => exact absurd (intTag_sound ht) (h t)

/-- the hypotheses are satisfiable: the two-branch union of `Proofs/Tagging.lean` has distinct property names and `t` qualifies -/
example :
    let ss := [Json.obj [("properties", .obj [("t", .obj [("enum", .arr [.str "x"])]), ("v", .obj [("type", .str "integer")])]),
                         ("required", .arr [.str "t"]), ("type", .str "object")],
               Json.obj [("properties", .obj [("t", .obj [("const", .str "y"), ("type", .str "string")])]),
                         ("required", .arr [.str "t"]), ("type", .str "object")]]
    ss ≠ [] ∧ IsTag 8 ss "t" ∧ ∀ s ∈ ss, PropsDistinct 8 s := by
  refine ⟨by simp, intTag_sound (by rfl), ?_⟩
  intro s hs o ps ho hp
  simp only [List.mem_cons, List.not_mem_nil, or_false] at hs
  rcases hs with rfl | rfl
  · have : getObject 8 (Json.obj [("properties", .obj [("t", .obj [("enum", .arr [.str "x"])]), ("v", .obj [("type", .str "integer")])]),
                         ("required", .arr [.str "t"]), ("type", .str "object")]) = some _ := rfl
    rw [this] at ho; cases ho
    have : propsOf [("properties", Json.obj [("t", .obj [("enum", .arr [.str "x"])]), ("v", .obj [("type", .str "integer")])]),
                         ("required", .arr [.str "t"]), ("type", .str "object")] = some _ := rfl
    rw [this] at hp; cases hp
    decide
  · have : getObject 8 (Json.obj [("properties", .obj [("t", .obj [("const", .str "y"), ("type", .str "string")])]),
                         ("required", .arr [.str "t"]), ("type", .str "object")]) = some _ := rfl
    rw [this] at ho; cases ho
    have : propsOf [("properties", Json.obj [("t", .obj [("const", .str "y"), ("type", .str "string")])]),
                         ("required", .arr [.str "t"]), ("type", .str "object")] = some _ := rfl
    rw [this] at hp; cases hp
    decide

end TypifyModel.Tagging

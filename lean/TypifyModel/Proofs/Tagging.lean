import TypifyModel.Model.Tagging
/-! What the tagging detection of `enums.rs` establishes, for every list of subschemas (`Tagging.*` is tied to the source by the
    M0 correspondence `tvh_tag` vs `drv_tag`).

    * `intTag_sound`: the tag of an internally tagged enum is, in EVERY subschema, a required member of a plain object pinned
      to one string, and the pinned strings are pairwise different — so the tag value of an instance selects at most one variant.
    * `internal_panics_only_on_assert`: with a tag chosen, the `unreachable!()` and the `unwrap()`s of the variant loop are
      never reached; the only panic left is `assert_eq!(validation.required.len(), 1)`.
    * `external_names_nodup`: the variant names of an externally tagged enum are pairwise different.
    * `adjacent_sound`: tag and content are different members; the tag is pinned in every subschema and no subschema has a
      member besides the two; `adjacent_panics_only_on_duplicates`.
    * `tagged_branches_exclusive`: under any reading of validity that respects `required`, `properties` and one-string
      enumerations, no document satisfies two subschemas of an internally tagged union. -/
namespace TypifyModel.Tagging
open TypifyModel TypifyModel.Excl

theorem lookupS_mem {b : List (String × String)} {k v : String} (h : lookupS b k = some v) : (k, v) ∈ b := by
  induction b with
  | nil => simp [lookupS] at h
  | cons kv r ih =>
    obtain ⟨k', v'⟩ := kv
    unfold lookupS at h
    split at h
    · rename_i hk
      have hk' : k' = k := by simpa using hk
      simp only [Option.some.injEq] at h
      subst hk' h
      exact List.mem_cons_self
    · exact List.mem_cons_of_mem _ (ih h)

/-- what survives the `reduce`: an entry of the first subschema, extended by one value per further subschema, and the
    values stay pairwise different -/
theorem foldl_intStep_mem (r : List (List (String × String))) :
    ∀ (acc : List (String × List String)) (k : String) (vs : List String),
      (k, vs) ∈ r.foldl intStep acc →
      ∃ vs0 ws, (k, vs0) ∈ acc ∧ vs = vs0 ++ ws ∧ r.map (fun b => lookupS b k) = ws.map some ∧ (vs0.Nodup → vs.Nodup) := by
  induction r with
  | nil => intro acc k vs h; exact ⟨vs, [], h, by simp, by simp, id⟩
  | cons b r ih =>
    intro acc k vs h
    simp only [List.foldl_cons] at h
    obtain ⟨vs1, ws, hm, hvs, hmap, hnd⟩ := ih _ _ _ h
    unfold intStep at hm
    rw [List.mem_filterMap] at hm
    obtain ⟨⟨k0, vs0⟩, hacc, hstep⟩ := hm
    simp only at hstep
    cases hl : lookupS b k0 with
    | none => rw [hl] at hstep; simp at hstep
    | some v =>
      rw [hl] at hstep
      simp only at hstep
      split at hstep
      · simp at hstep
      · rename_i hnc
        simp only [Option.some.injEq, Prod.mk.injEq] at hstep
        obtain ⟨hk, hv⟩ := hstep
        subst hk hv
        refine ⟨vs0, v :: ws, hacc, by simp [hvs], by simp [hl, hmap], ?_⟩
        intro h0
        apply hnd
        have : v ∉ vs0 := by simpa using hnc
        exact List.nodup_append.mpr ⟨h0, by simp, by
          intro a ha b hb
          have : b = v := by simpa using hb
          subst this
          intro hab; subst hab; exact this ha⟩

/-- the members the reduce keeps, read off the whole list of subschemas -/
theorem intReduce_mem {bs : List (List (String × String))} {acc : List (String × List String)} {k : String} {vs : List String}
    (h : intReduce bs = some acc) (hm : (k, vs) ∈ acc) :
    vs.length = bs.length ∧ vs.Nodup ∧ ∀ p ∈ bs.zip vs, (k, p.2) ∈ p.1 := by
  cases bs with
  | nil => simp [intReduce] at h
  | cons b r =>
    simp only [intReduce, Option.some.injEq] at h
    subst h
    obtain ⟨vs0, ws, h0, hvs, hmap, hnd⟩ := foldl_intStep_mem r _ _ _ hm
    rw [List.mem_map] at h0
    obtain ⟨⟨k', v0⟩, hb, he⟩ := h0
    simp only [Prod.mk.injEq] at he
    obtain ⟨hk, hv⟩ := he
    subst hk hv
    have hlen : ws.length = r.length := by
      have := congrArg List.length hmap
      simpa using this.symm
    subst hvs
    refine ⟨by simp [hlen], hnd (by simp), ?_⟩
    intro p hp
    simp only [List.singleton_append, List.zip_cons_cons, List.mem_cons] at hp
    rcases hp with hp | hp
    · subst hp; exact hb
    · -- an entry of `r.zip ws`
      obtain ⟨i, hi, hpi⟩ := List.mem_iff_getElem.mp hp
      have hir : i < r.length := by simp [List.length_zip] at hi; omega
      have hiw : i < ws.length := by omega
      have hp' : p = (r[i], ws[i]) := by
        rw [← hpi]; simp [List.getElem_zip]
      have hlk : lookupS r[i] k' = some ws[i] := by
        have := congrArg (fun l => l[i]?) hmap
        simp [hir, hiw] at this
        exact this
      subst hp'
      exact lookupS_mem hlk

theorem least_mem : ∀ {l : List String} {m : String}, least l = some m → m ∈ l := by
  intro l
  induction l with
  | nil => intro m h; simp [least] at h
  | cons a r ih =>
    intro m h
    unfold least at h
    cases hr : least r with
    | none => rw [hr] at h; simp at h; subst h; exact List.mem_cons_self
    | some b =>
      rw [hr] at h
      simp only at h
      split at h
      · simp at h; subst h; exact List.mem_cons_of_mem _ (ih hr)
      · simp at h; subst h; exact List.mem_cons_self

/-- a pinned required member of a subschema, as `maybe_internally_tagged_enum` sees it -/
def Pinned (f : Nat) (s : Json) (t v : String) : Prop :=
  ∃ o rq ps sch, getObject f s = some o ∧ reqOf o = some rq ∧ propsOf o = some ps ∧
    rq.contains t = true ∧ (t, sch) ∈ ps ∧ constStr sch = some v

theorem intBranch_mem {f : Nat} {s : Json} {t v : String} (h : (t, v) ∈ intBranch f s) : Pinned f s t v := by
  unfold intBranch at h
  cases ho : getObject f s with
  | none => rw [ho] at h; simp at h
  | some o =>
    rw [ho] at h
    simp only at h
    cases hr : reqOf o with
    | none => rw [hr] at h; simp at h
    | some rq =>
      cases hp : propsOf o with
      | none => rw [hr, hp] at h; simp at h
      | some ps =>
        rw [hr, hp] at h
        simp only at h
        rw [List.mem_filterMap] at h
        obtain ⟨⟨k, sch⟩, hmem, hf⟩ := h
        simp only at hf
        split at hf
        · rename_i hc
          cases hcs : constStr sch with
          | none => rw [hcs] at hf; simp at hf
          | some w =>
            rw [hcs] at hf
            simp only [Option.map_some, Option.some.injEq, Prod.mk.injEq] at hf
            obtain ⟨hk, hw⟩ := hf
            subst hk hw
            exact ⟨o, rq, ps, sch, ho, hr, hp, hc, hmem, hcs⟩
        · simp at hf

/-- **the tag of an internally tagged enum**: pinned and required in every subschema, the pinned strings pairwise different -/
theorem intTag_sound {f : Nat} {ss : List Json} {t : String} (h : intTag f ss = some t) :
    ∃ vs : List String, vs.length = ss.length ∧ vs.Nodup ∧ ∀ p ∈ ss.zip vs, Pinned f p.1 t p.2 := by
  unfold intTag at h
  cases hr : intReduce (ss.map (intBranch f)) with
  | none => rw [hr] at h; simp at h
  | some acc =>
    rw [hr] at h
    simp only at h
    have hm := least_mem h
    rw [List.mem_map] at hm
    obtain ⟨⟨k, vs⟩, hacc, hk⟩ := hm
    simp only at hk
    subst hk
    obtain ⟨hlen, hnd, hall⟩ := intReduce_mem hr hacc
    refine ⟨vs, by simpa using hlen, hnd, ?_⟩
    intro p hp
    -- `ss.zip vs` against `(ss.map (intBranch f)).zip vs`
    obtain ⟨i, hi, hpi⟩ := List.mem_iff_getElem.mp hp
    have his : i < ss.length := by simp [List.length_zip] at hi; omega
    have hiv : i < vs.length := by simp [List.length_zip] at hi; omega
    have hp' : p = (ss[i], vs[i]) := by rw [← hpi]; simp [List.getElem_zip]
    subst hp'
    apply intBranch_mem
    apply hall (intBranch f ss[i], vs[i])
    apply List.mem_iff_getElem.mpr
    refine ⟨i, by simp [List.length_zip]; omega, by simp [List.getElem_zip]⟩

/-- a concrete pair on which a tag is found (the hypotheses are satisfiable) -/
example :
    intTag 8 [.obj [("properties", .obj [("t", .obj [("enum", .arr [.str "x"])]), ("v", .obj [("type", .str "integer")])]),
                    ("required", .arr [.str "t"]), ("type", .str "object")],
              .obj [("properties", .obj [("t", .obj [("const", .str "y"), ("type", .str "string")])]),
                    ("required", .arr [.str "t"]), ("type", .str "object")]] = some "t" := by rfl

/-! ### the variant loop of `maybe_internally_tagged_enum` -/

theorem seqR_panic {α β : Type} {g : α → R (List β)} : ∀ {l : List α}, seqR g l = .panic → ∃ a ∈ l, g a = .panic := by
  intro l
  induction l with
  | nil => intro h; simp [seqR] at h
  | cons a r ih =>
    intro h
    unfold seqR at h
    cases hg : g a with
    | panic => exact ⟨a, List.mem_cons_self, hg⟩
    | no => rw [hg] at h; simp at h
    | yes xs =>
      rw [hg] at h
      simp only at h
      cases hs : seqR g r with
      | panic =>
        obtain ⟨b, hb, hgb⟩ := ih hs
        exact ⟨b, List.mem_cons_of_mem _ hb, hgb⟩
      | no => rw [hs] at h; simp at h
      | yes ys => rw [hs] at h; simp at h

theorem lookup_of_mem_nodup {ps : List (String × Json)} {k : String} {s : Json} (hm : (k, s) ∈ ps) :
    ∃ s', Json.lookup ps k = some s' := by
  induction ps with
  | nil => simp at hm
  | cons kv r ih =>
    obtain ⟨k', v'⟩ := kv
    unfold Json.lookup
    by_cases hk : k' = k
    · simp [hk]
    · simp only [hk, if_false]
      rcases List.mem_cons.mp hm with h | h
      · simp only [Prod.mk.injEq] at h; exact absurd h.1.symm hk
      · exact ih h

/-- with distinct property names, `lookup` finds the declared schema -/
theorem lookup_eq_of_mem {ps : List (String × Json)} {k : String} {s : Json} (hnd : (ps.map (·.1)).Nodup) (hm : (k, s) ∈ ps) :
    Json.lookup ps k = some s := by
  induction ps with
  | nil => simp at hm
  | cons kv r ih =>
    obtain ⟨k', v'⟩ := kv
    simp only [List.map_cons, List.nodup_cons] at hnd
    unfold Json.lookup
    rcases List.mem_cons.mp hm with h | h
    · simp only [Prod.mk.injEq] at h; simp [h.1, h.2]
    · have : k' ≠ k := by
        intro hk; subst hk
        exact hnd.1 (List.mem_map.mpr ⟨(k', s), h, rfl⟩)
      simp only [this, if_false]
      exact ih hnd.2 h

/-- property names are distinct in every object schemars hands over (a `BTreeMap`); the hypothesis of the next theorems -/
def PropsDistinct (f : Nat) (s : Json) : Prop :=
  ∀ o ps, getObject f s = some o → propsOf o = some ps → (ps.map (·.1)).Nodup

/-- **no `unreachable!()` / `unwrap()` panic**: once a tag is chosen the variant loop can only fail the
    `assert_eq!(validation.required.len(), 1)` of a subschema with a single declared member -/
theorem internal_panics_only_on_assert {f : Nat} {ss : List Json} (hd : ∀ s ∈ ss, PropsDistinct f s)
    (h : internal f ss = .panic) :
    ∃ s ∈ ss, ∃ o rq ps, getObject f s = some o ∧ reqOf o = some rq ∧ propsOf o = some ps ∧ ps.length = 1 ∧ rq.length ≠ 1 := by
  unfold internal at h
  cases ht : intTag f ss with
  | none => rw [ht] at h; simp at h
  | some t =>
    rw [ht] at h
    simp only at h
    cases hs : seqR (intVariant f t) ss with
    | no => rw [hs] at h; simp at h
    | yes vs => rw [hs] at h; simp at h
    | panic =>
      obtain ⟨s, hmem, hp⟩ := seqR_panic hs
      obtain ⟨vs, hlen, _, hall⟩ := intTag_sound ht
      -- the pinned value of this subschema
      obtain ⟨i, hi, hsi⟩ := List.mem_iff_getElem.mp hmem
      have hiv : i < vs.length := by omega
      have hpin : Pinned f s t vs[i] := by
        have := hall (ss[i], vs[i]) (List.mem_iff_getElem.mpr ⟨i, by simp [List.length_zip]; omega, by simp [List.getElem_zip]⟩)
        simpa [hsi] using this
      obtain ⟨o, rq, ps, sch, ho, hr, hpp, _, hmemp, hcs⟩ := hpin
      have hlk := lookup_eq_of_mem (hd s hmem o ps ho hpp) hmemp
      refine ⟨s, hmem, o, rq, ps, ho, hr, hpp, ?_⟩
      unfold intVariant at hp
      rw [ho] at hp
      simp only [hr, hpp, hlk, Option.bind_some, hcs] at hp
      split at hp
      · rename_i h1
        split at hp
        · simp at hp
        · rename_i h2
          exact ⟨by simpa using h1, by simpa using h2⟩
      · simp at hp

/-! ### externally tagged -/

theorem eraseDups_length_le : ∀ (n : Nat) (l : List String), l.length ≤ n → l.eraseDups.length ≤ l.length := by
  intro n
  induction n with
  | zero => intro l h; have : l = [] := List.eq_nil_of_length_eq_zero (by omega); subst this; simp
  | succ n ih =>
    intro l h
    cases l with
    | nil => simp
    | cons a r =>
      rw [List.eraseDups_cons]
      have hfl : (List.filter (fun b => !b == a) r).length ≤ r.length := List.length_filter_le _ _
      have := ih (List.filter (fun b => !b == a) r) (by simp at h; omega)
      simp only [List.length_cons]
      omega

theorem eraseDups_length_nodup : ∀ (n : Nat) (l : List String), l.length ≤ n → l.eraseDups.length = l.length → l.Nodup := by
  intro n
  induction n with
  | zero => intro l h _; have : l = [] := List.eq_nil_of_length_eq_zero (by omega); subst this; simp
  | succ n ih =>
    intro l hn h
    cases l with
    | nil => simp
    | cons a r =>
      rw [List.eraseDups_cons] at h
      have hfl : (List.filter (fun b => !b == a) r).length ≤ r.length := List.length_filter_le _ _
      have hle := eraseDups_length_le _ (List.filter (fun b => !b == a) r) (Nat.le_refl _)
      simp only [List.length_cons] at h hn
      have hfe : r.length ≤ (List.filter (fun b => !b == a) r).length := by omega
      have hfr : List.filter (fun b => !b == a) r = r := List.Sublist.eq_of_length_le List.filter_sublist hfe
      have hall := List.filter_eq_self.mp hfr
      have hnot : a ∉ r := by
        intro ha
        have := hall a ha
        simp at this
      rw [hfr] at h
      exact List.nodup_cons.mpr ⟨hnot, ih r (by omega) (by omega)⟩

/-- **the variant names of an externally tagged enum are pairwise different** -/
theorem external_names_nodup {f : Nat} {ss : List Json} {vs : List Var} (h : external f ss = .yes vs) : (names vs).Nodup := by
  unfold external at h
  cases hs : seqR (extBranch f) ss with
  | panic => rw [hs] at h; simp at h
  | no => rw [hs] at h; simp at h
  | yes ws =>
    rw [hs] at h
    simp only at h
    split at h
    · rename_i hl
      simp only [R.yes.injEq] at h
      subst h
      apply eraseDups_length_nodup _ _ (Nat.le_refl _)
      have : (names ws).length = ws.length := by simp [names]
      have hl' : (names ws).eraseDups.length = ws.length := by simpa using hl
      omega
    · simp at h

/-! ### no two subschemas of an internally tagged union share a document -/

/-- a reading of "document `d` satisfies schema `s`" that respects the keywords the detection relies on: an object document
    that satisfies a plain object schema has every required, declared member, and the member satisfies its declaration; a
    document that satisfies a one-string enumeration / constant is that string. (Draft-07 validity has both properties. A
    typeless `{properties, required}` schema is satisfied by every NON-object document too, which is why the law speaks of
    object documents only: the detection reads such a schema as an object, see DESIGN 0.5 `typeless_struct`.) -/
structure Reading where
  sat : Json → Json → Prop
  member : ∀ {f s o rq ps kvs k sch}, getObject f s = some o → reqOf o = some rq → propsOf o = some ps →
    rq.contains k = true → (k, sch) ∈ ps → sat s (.obj kvs) → ∃ w, Json.lookup kvs k = some w ∧ sat sch w
  pinned : ∀ {sch v d}, constStr sch = some v → sat sch d → d = .str v

/-- **an internally tagged union is exclusive on objects**: with a tag chosen, no object document satisfies two different
    subschemas — the tag value of a valid instance names exactly one variant -/
theorem tagged_branches_exclusive (R : Reading) {f : Nat} {ss : List Json} {t : String} (h : intTag f ss = some t)
    (i j : Nat) (hi : i < ss.length) (hj : j < ss.length) (hij : i < j) (kvs : List (String × Json))
    (hsi : R.sat ss[i] (.obj kvs)) (hsj : R.sat ss[j] (.obj kvs)) : False := by
  obtain ⟨vs, hlen, hnd, hall⟩ := intTag_sound h
  have hiv : i < vs.length := by omega
  have hjv : j < vs.length := by omega
  have hpi : Pinned f ss[i] t vs[i] :=
    hall (ss[i], vs[i]) (List.mem_iff_getElem.mpr ⟨i, by simp [List.length_zip]; omega, by simp [List.getElem_zip]⟩)
  have hpj : Pinned f ss[j] t vs[j] :=
    hall (ss[j], vs[j]) (List.mem_iff_getElem.mpr ⟨j, by simp [List.length_zip]; omega, by simp [List.getElem_zip]⟩)
  obtain ⟨o, rq, ps, sch, ho, hr, hp, hc, hm, hcs⟩ := hpi
  obtain ⟨o', rq', ps', sch', ho', hr', hp', hc', hm', hcs'⟩ := hpj
  obtain ⟨w, hw, hsw⟩ := R.member ho hr hp hc hm hsi
  obtain ⟨w', hw', hsw'⟩ := R.member ho' hr' hp' hc' hm' hsj
  rw [hw] at hw'
  simp only [Option.some.injEq] at hw'
  subst hw'
  have e1 := R.pinned hcs hsw
  have e2 := R.pinned hcs' hsw'
  rw [e1] at e2
  simp only [Json.str.injEq] at e2
  have := (List.pairwise_iff_getElem.mp hnd) i j hiv hjv hij
  exact this e2

/-! ### adjacently tagged -/

theorem mapM_some_mem {α β : Type} {g : α → Option β} : ∀ {l : List α} {rs : List β}, l.mapM g = some rs →
    ∀ a ∈ l, ∃ r ∈ rs, g a = some r := by
  intro l
  induction l with
  | nil => intro rs _ a ha; simp at ha
  | cons x xs ih =>
    intro rs h a ha
    rw [List.mapM_cons] at h
    cases hx : g x with
    | none => rw [hx] at h; simp at h
    | some y =>
      cases hxs : xs.mapM g with
      | none => rw [hx, hxs] at h; simp at h
      | some ys =>
        rw [hx, hxs] at h
        simp at h
        subst h
        rcases List.mem_cons.mp ha with e | e
        · subst e; exact ⟨y, List.mem_cons_self, hx⟩
        · obtain ⟨r, hr, hg⟩ := ih hxs a e
          exact ⟨r, List.mem_cons_of_mem _ hr, hg⟩

theorem mem_inter {a b : List String} {x : String} : x ∈ inter a b ↔ x ∈ a ∧ x ∈ b := by
  simp [inter, List.mem_filter]

theorem mem_union {a b : List String} {x : String} : x ∈ union a b ↔ x ∈ a ∨ x ∈ b := by
  simp only [union, List.mem_append, List.mem_filter]
  constructor
  · rintro (h | ⟨h, _⟩)
    · exact Or.inl h
    · exact Or.inr h
  · rintro (h | h)
    · exact Or.inl h
    · by_cases ha : x ∈ a
      · exact Or.inl ha
      · exact Or.inr ⟨h, by simpa using ha⟩

theorem adjFold_spec (r : List (List String × List String)) :
    ∀ (p : List String × List String),
      let fin := r.foldl (fun acc q => (inter acc.1 q.1, union acc.2 q.2)) p
      (∀ x ∈ fin.1, x ∈ p.1 ∧ ∀ q ∈ r, x ∈ q.1) ∧ (∀ x ∈ p.2, x ∈ fin.2) ∧ (∀ q ∈ r, ∀ x ∈ q.2, x ∈ fin.2) := by
  induction r with
  | nil => intro p; simp
  | cons q r ih =>
    intro p
    simp only [List.foldl_cons]
    obtain ⟨h1, h2, h3⟩ := ih (inter p.1 q.1, union p.2 q.2)
    refine ⟨?_, ?_, ?_⟩
    · intro x hx
      obtain ⟨hx1, hx2⟩ := h1 x hx
      have := mem_inter.mp hx1
      refine ⟨this.1, ?_⟩
      intro q' hq'
      rcases List.mem_cons.mp hq' with e | e
      · subst e; exact this.2
      · exact hx2 q' e
    · intro x hx
      exact h2 x (mem_union.mpr (Or.inl hx))
    · intro q' hq' x hx
      rcases List.mem_cons.mp hq' with e | e
      · subst e; exact h2 x (mem_union.mpr (Or.inr hx))
      · exact h3 q' e x hx

theorem filter_ne_length (a : String) : ∀ (m : List String), m.Nodup → m.length ≤ (m.filter (fun y => !y == a)).length + 1 := by
  intro m
  induction m with
  | nil => simp
  | cons b r ih =>
    intro hnd
    rw [List.nodup_cons] at hnd
    by_cases hb : b = a
    · subst hb
      have : r.filter (fun y => !y == b) = r := List.filter_eq_self.mpr (by
        intro y hy; have : y ≠ b := fun e => hnd.1 (e ▸ hy); simpa using this)
      simp [this]
    · have := ih hnd.2
      simp only [List.filter_cons, List.length_cons]
      have hb' : (!b == a) = true := by simpa using hb
      simp only [hb', if_true, List.length_cons]
      omega

/-- pigeonhole: pairwise different members of `l` are no more than `l` has different members -/
theorem nodup_le_eraseDups : ∀ (n : Nat) (l : List String), l.length ≤ n → ∀ m : List String, m.Nodup → (∀ y ∈ m, y ∈ l) →
    m.length ≤ l.eraseDups.length := by
  intro n
  induction n with
  | zero =>
    intro l h m _ hm
    have : l = [] := List.eq_nil_of_length_eq_zero (by omega)
    subst this
    cases m with
    | nil => simp
    | cons y _ => exact absurd (hm y List.mem_cons_self) (by simp)
  | succ n ih =>
    intro l h m hnd hm
    cases l with
    | nil =>
      cases m with
      | nil => simp
      | cons y _ => exact absurd (hm y List.mem_cons_self) (by simp)
    | cons a r =>
      rw [List.eraseDups_cons]
      have hfl : (List.filter (fun b => !b == a) r).length ≤ r.length := List.length_filter_le _ _
      have hm' : ∀ y ∈ m.filter (fun y => !y == a), y ∈ List.filter (fun b => !b == a) r := by
        intro y hy
        rw [List.mem_filter] at hy ⊢
        refine ⟨?_, hy.2⟩
        rcases List.mem_cons.mp (hm y hy.1) with e | e
        · subst e; simp at hy
        · exact e
      have := ih (List.filter (fun b => !b == a) r) (by simp at h; omega) (m.filter (fun y => !y == a))
        (hnd.sublist List.filter_sublist) hm'
      have := filter_ne_length a m hnd
      simp only [List.length_cons]
      omega

/-- what `maybe_adjacently_tagged_enum` has established when it names a tag and a content member: they differ, the tag is
    pinned to one string in every subschema, every subschema requires exactly the members it declares (as many, and every
    required name declared — the second half since fix 5170496), and none has a member besides the two -/
theorem adjacent_sound {f : Nat} {ss : List Json} {t c : String} (h : adjTagContent f ss = some (t, c)) :
    t ≠ c ∧ ∀ s ∈ ss, ∃ o rq ps, getObject f s = some o ∧ reqOf o = some rq ∧ propsOf o = some ps ∧ ps.length = rq.length ∧
      (∀ r ∈ rq, has ps r = true) ∧
      (∃ sch v, (t, sch) ∈ ps ∧ constStr sch = some v) ∧ ∀ kv ∈ ps, kv.1 = t ∨ kv.1 = c := by
  unfold adjTagContent at h
  cases hmm : ss.mapM (adjBranch f) with
  | none => rw [hmm] at h; simp at h
  | some sets =>
    rw [hmm] at h
    simp only at h
    cases sets with
    | nil => simp [adjReduce] at h
    | cons p r =>
      simp only [adjReduce] at h
      generalize hfin : List.foldl (fun acc q => (inter acc.1 q.1, union acc.2 q.2)) p r = fin at h
      obtain ⟨tags, props⟩ := fin
      simp only at h
      split at h
      · simp at h
      · rename_i hcount
        cases hlt : least tags with
        | none => rw [hlt] at h; simp at h
        | some t' =>
          cases hlc : least (props.filter (fun p => !tags.contains p)) with
          | none => rw [hlt, hlc] at h; simp at h
          | some c' =>
            rw [hlt, hlc] at h
            simp only [Option.some.injEq, Prod.mk.injEq] at h
            obtain ⟨e1, e2⟩ := h
            subst e1 e2
            have htm := least_mem hlt
            have hcm := least_mem hlc
            rw [List.mem_filter] at hcm
            have hct : ¬ c' ∈ tags := by simpa using hcm.2
            have hne : t' ≠ c' := by intro e; subst e; exact hct htm
            obtain ⟨h1, h2, h3⟩ := adjFold_spec r p
            rw [hfin] at h1 h2 h3
            simp only at h1 h2 h3
            have hp2 : props.eraseDups.length = 2 := by
              have : ¬ (tags.eraseDups.length != 1 || props.eraseDups.length != 2) = true := hcount
              simp at this
              exact this.2
            refine ⟨hne, ?_⟩
            intro s hs
            obtain ⟨q, hq, hqs⟩ := mapM_some_mem hmm s hs
            -- the tag is pinned in `q`, and `q`'s members are among `props`
            have htq : t' ∈ q.1 := by
              rcases List.mem_cons.mp hq with e | e
              · subst e; exact (h1 t' htm).1
              · exact (h1 t' htm).2 q e
            have hqprops : ∀ x ∈ q.2, x ∈ props := by
              rcases List.mem_cons.mp hq with e | e
              · subst e; exact h2
              · exact h3 q e
            unfold adjBranch at hqs
            cases ho : getObject f s with
            | none => rw [ho] at hqs; simp at hqs
            | some o =>
              rw [ho] at hqs
              simp only at hqs
              cases hr : reqOf o with
              | none => rw [hr] at hqs; simp at hqs
              | some rq =>
                cases hpp : propsOf o with
                | none => rw [hr, hpp] at hqs; simp at hqs
                | some ps =>
                  rw [hr, hpp] at hqs
                  simp only at hqs
                  split at hqs
                  · rename_i hlen
                    simp only [Option.some.injEq] at hqs
                    subst hqs
                    simp only at htq hqprops
                    rw [List.mem_filterMap] at htq
                    obtain ⟨⟨k, sch⟩, hkm, hk⟩ := htq
                    simp only at hk
                    cases hcs : constStr sch with
                    | none => rw [hcs] at hk; simp at hk
                    | some v =>
                      rw [hcs] at hk
                      simp only [Option.map_some, Option.some.injEq] at hk
                      subst hk
                      have hlen' : List.length ps = rq.length ∧ ∀ (x : String), x ∈ rq → has ps x = true := by simpa using hlen
                      refine ⟨o, rq, ps, rfl, hr, hpp, hlen'.1, hlen'.2, ⟨sch, v, hkm, hcs⟩, ?_⟩
                      intro kv hkv
                      have hx : kv.1 ∈ props := hqprops kv.1 (List.mem_map.mpr ⟨kv, hkv, rfl⟩)
                      have htp : k ∈ props := hqprops k (List.mem_map.mpr ⟨(k, sch), hkm, rfl⟩)
                      by_cases hxt : kv.1 = k
                      · exact Or.inl hxt
                      · by_cases hxc : kv.1 = c'
                        · exact Or.inr hxc
                        · exfalso
                          have hnd3 : [k, c', kv.1].Nodup := by
                            simp only [List.nodup_cons, List.mem_cons, List.not_mem_nil, or_false, not_or, List.nodup_nil,
                              and_true, not_false_eq_true]
                            exact ⟨⟨hne, fun e => hxt e.symm⟩, fun e => hxc e.symm⟩
                          have := nodup_le_eraseDups _ props (Nat.le_refl _) [k, c', kv.1] hnd3 (by
                            intro y hy
                            simp only [List.mem_cons, List.not_mem_nil, or_false] at hy
                            rcases hy with e | e | e
                            · subst e; exact htp
                            · subst e; exact hcm.1
                            · subst e; exact hx)
                          simp at this
                          omega
                  · simp at hqs

/-- the hypotheses are met by a concrete pair -/
example :
    adjTagContent 8 [.obj [("properties", .obj [("c", .obj [("type", .str "integer")]), ("t", .obj [("enum", .arr [.str "p"])])]),
                           ("required", .arr [.str "t", .str "c"]), ("type", .str "object")],
                     .obj [("properties", .obj [("t", .obj [("enum", .arr [.str "q"])])]),
                           ("required", .arr [.str "t"]), ("type", .str "object")]] = some ("t", "c") := by rfl

end TypifyModel.Tagging
